package main

// gofn_c10: the part of the Go -> Lean translator that C10 needs beyond gofn*.go
// (session 5, self-contained; nothing of gofn*.go is altered):
//
//  1. a further gofn target, registered from init(): keyspec.parseCommandInt
//     (generator `gofn_keyspec`, Gen/FnKeySpec.lean) - plain gofn subset.
//  2. generator `gofn_trie` (Gen/FnTrie.lean): pkg/filter/trie.go NewTrie / Insert /
//     IsPrefixMatch / Search and the decision functions RedisKeyFilter.FilterCmd /
//     FilterKey of filter.go. These work on a HEAP of nodes linked by
//     `map[byte]*TrieNode`; gofn has neither maps nor shared mutable structures.
//     The reading used here (emitted as the prelude of the generated file):
//       * a node struct N (one field `map[byte]*N`, the others bool) is a Lean
//         inductive with the map as `UInt8 -> Option N`;
//       * a handle struct H (`root *N`) is `structure H where root : Option N`;
//       * a `*N` variable is a CURSOR: `Option (List UInt8)` - nil, or the path of map
//         keys from the root to the node it points at; reading through it is
//         `H.nodeAt`, writing a field through it is `H.modifyAt`;
//       * `cur.m[k] = &N{...}` is `H.storeFresh`: defined only when the slot is nil
//         (overwriting a linked child would leave other cursors stale: `none` =
//         "not modelled", like every other value the prelude does not model).
//     This is exact as long as the heap is a TREE owned by the handle. The generator
//     checks that for the whole package before it translates: every composite literal
//     of N initialises its map with make(), no `new(N)` / `var x N`, the map field is
//     used nowhere except as `x.m[k]`, and no function outside the translated ones
//     (and the constructor) assigns a field of N or H. Inside the translated functions
//     the only value ever stored in a map slot is a fresh literal.
//     Anything else in these functions: die (gen_errors, a broken tie), never a guess.

import (
	"fmt"
	"go/ast"
	"go/constant"
	"go/token"
	"go/types"
	"path/filepath"
	"sort"
	"strings"
)

func init() {
	gfTargets = append(gfTargets, &gfTarget{gen: "gofn_keyspec", file: "FnKeySpec", dir: "pkg/redis/keyspec",
		funcs: []gfFuncSpec{{"parseCommandInt", "parseCommandInt"}}})
}

// ---------------------------------------------------------------- configuration

const (
	trDir    = "pkg/filter"
	trNode   = "TrieNode"
	trHandle = "Trie"
	trHolder = "RedisKeyFilter"
	// a second kind of holder field: *RangeList, whose methods gofn translates (Gen/FnRangeList.lean, generator
	// gofn_rangelist): the value is `Option RangeList`, a call of a method listed here is a call of that translation
	trExt = "RangeList"
)

var trExtMethods = map[string]string{"IsSlotInList": "isSlotInList"}

var trFuncs = []gfFuncSpec{
	{"NewTrie", "newTrie"},
	{"Trie.Insert", "insert"},
	{"Trie.IsPrefixMatch", "isPrefixMatch"},
	{"Trie.Search", "search"},
	{"RedisKeyFilter.FilterCmd", "filterCmd"},
	{"RedisKeyFilter.FilterKey", "filterKey"},
	{"RedisKeyFilter.FilterSlot", "filterSlot"},
}

type trKind int

const (
	trInt trKind = iota
	trByte
	trBool
	trStr
	trCur // *N
	trHdl // *H
	trHld // *holder
	trXt  // *RangeList (translated by gofn)
)

func (k trKind) lean() string {
	switch k {
	case trInt:
		return "Int"
	case trByte:
		return "UInt8"
	case trBool:
		return "Bool"
	case trStr:
		return "List UInt8"
	case trCur:
		return "Option (List UInt8)"
	case trHdl:
		return trHandle
	case trHld:
		return trHolder
	case trXt:
		return trExt
	}
	return "?"
}

type trWorld struct {
	pk       *gfPackage
	node     *types.Named
	handle   *types.Named
	holder   *types.Named
	mapField string   // field of N: map[byte]*N
	boolFlds []string // the other fields of N, in declaration order (all bool)
	nodeFlds []string // all fields of N in declaration order
	rootFld  string   // field of H: *N
	hldFlds  []string // fields of the holder of type *H
	ext      *types.Named
	extFlds  []string // fields of the holder of type *RangeList
	decls    map[string]*ast.FuncDecl
	writes   map[string]bool // translated function (lean name) writes the heap
}

type trFn struct {
	w     *trWorld
	decl  *ast.FuncDecl
	lean  string
	recv  types.Object
	rk    trKind // kind of the receiver (trHdl / trHld); -1 for a plain function
	vars  map[types.Object]string
	used  map[string]bool
	ntmp  int
	nloop int
	loops []string
	heapW bool
	ret   string // "bool" | "" (void) | "handle" (constructor)
}

type trLoop struct {
	name   string
	params []string
	state  []types.Object
	heap   bool // heap is part of the loop state
	post   ast.Stmt
}

func (f *trFn) at(n ast.Node) string { return f.lean + " (" + f.w.pk.pos(n) + ")" }

func (f *trFn) tmp() string { f.ntmp++; return fmt.Sprintf("t%d", f.ntmp) }

func (f *trFn) kindOf(t types.Type, at ast.Node) trKind {
	t = types.Unalias(t)
	switch u := t.(type) {
	case *types.Basic:
		switch u.Kind() {
		case types.Int, types.UntypedInt:
			return trInt
		case types.Uint8:
			return trByte
		case types.Bool, types.UntypedBool:
			return trBool
		case types.String, types.UntypedString:
			return trStr
		}
	case *types.Pointer:
		if n, ok := types.Unalias(u.Elem()).(*types.Named); ok {
			switch n {
			case f.w.node:
				return trCur
			case f.w.handle:
				return trHdl
			case f.w.holder:
				return trHld
			case f.w.ext:
				return trXt
			}
		}
	}
	die("%s: type %s outside the subset of the trie translator", f.at(at), t.String())
	return 0
}

func (f *trFn) obj(id *ast.Ident) types.Object {
	if o := f.w.pk.info.Uses[id]; o != nil {
		return o
	}
	return f.w.pk.info.Defs[id]
}

func (f *trFn) name(o types.Object) string {
	if n, ok := f.vars[o]; ok {
		return n
	}
	n := gfLeanIdent(o.Name())
	for f.used[n] {
		n += "_"
	}
	f.used[n] = true
	f.vars[o] = n
	return n
}

func (f *trFn) isLocal(o types.Object) bool {
	v, ok := o.(*types.Var)
	return ok && !v.IsField() && v.Pos() >= f.decl.Pos() && v.Pos() < f.decl.End()
}

func (f *trFn) typ(e ast.Expr) types.Type {
	tv, ok := f.w.pk.info.Types[e]
	if !ok || tv.Type == nil {
		die("%s: no type information", f.at(e))
	}
	return tv.Type
}

// heap: the Lean name of the handle value a cursor lives in (the receiver of a handle method)
func (f *trFn) heap(at ast.Node) string {
	if f.rk != trHdl {
		die("%s: a node pointer outside a method of %s", f.at(at), trHandle)
	}
	return f.name(f.recv)
}

// ---------------------------------------------------------------- expressions

// cursor: e of type *N -> Lean term of type Option (List UInt8); hoists panics
func (f *trFn) cursor(b *gfBuf, e ast.Expr) string {
	switch x := e.(type) {
	case *ast.ParenExpr:
		return f.cursor(b, x.X)
	case *ast.Ident:
		if x.Name == "nil" {
			return "(none : Option (List UInt8))"
		}
		o := f.obj(x)
		if o == nil || !f.isLocal(o) {
			die("%s: %s is not a local variable", f.at(e), x.Name)
		}
		return f.name(o)
	case *ast.SelectorExpr:
		// recv.root
		if id, ok := x.X.(*ast.Ident); ok && f.obj(id) == f.recv && f.rk == trHdl && x.Sel.Name == f.w.rootFld {
			return fmt.Sprintf("(%s.rootCur %s)", trHandle, f.heap(e))
		}
	case *ast.IndexExpr:
		// cur.m[k]
		if sel, ok := x.X.(*ast.SelectorExpr); ok && sel.Sel.Name == f.w.mapField && f.kindOfExpr(sel.X) == trCur {
			c := f.cursor(b, sel.X)
			k := f.scalar(b, x.Index, trByte)
			p := f.tmp()
			b.add("let %s ← %s", p, c)
			r := f.tmp()
			b.add("let %s ← %s.childCur %s %s %s", r, trHandle, f.heap(e), p, k)
			return r
		}
	}
	die("%s: pointer expression outside the subset (a cursor variable, nil, %s.%s, cursor.%s[k])", f.at(e), trHandle, f.w.rootFld, f.w.mapField)
	return ""
}

func (f *trFn) kindOfExpr(e ast.Expr) trKind { return f.kindOf(f.typ(e), e) }

// scalar: int / byte / string / bool VALUE expressions (bool: only total ones; conditions go through cond)
func (f *trFn) scalar(b *gfBuf, e ast.Expr, want trKind) string {
	if tv := f.w.pk.info.Types[e]; tv.Value != nil {
		switch want {
		case trInt:
			n, ok := constant.Int64Val(constant.ToInt(tv.Value))
			if !ok {
				die("%s: constant out of range", f.at(e))
			}
			return fmt.Sprintf("(%d : Int)", n)
		case trByte:
			n, ok := constant.Uint64Val(constant.ToInt(tv.Value))
			if !ok || n > 255 {
				die("%s: constant out of range of byte", f.at(e))
			}
			return fmt.Sprintf("(%d : UInt8)", n)
		case trBool:
			if constant.BoolVal(tv.Value) {
				return "true"
			}
			return "false"
		}
		die("%s: constant of a type outside the subset", f.at(e))
	}
	if k := f.kindOfExpr(e); k != want {
		die("%s: expression of kind %s where %s is needed", f.at(e), k.lean(), want.lean())
	}
	switch x := e.(type) {
	case *ast.ParenExpr:
		return f.scalar(b, x.X, want)
	case *ast.Ident:
		o := f.obj(x)
		if o == nil || !f.isLocal(o) {
			die("%s: %s is not a local variable or parameter", f.at(e), x.Name)
		}
		return f.name(o)
	case *ast.CallExpr:
		if id, ok := x.Fun.(*ast.Ident); ok && id.Name == "len" && len(x.Args) == 1 {
			if _, isB := f.obj(id).(*types.Builtin); isB && f.kindOfExpr(x.Args[0]) == trStr {
				return fmt.Sprintf("(GoSem.len %s)", f.scalar(b, x.Args[0], trStr))
			}
		}
	case *ast.IndexExpr:
		if want == trByte && f.kindOfExpr(x.X) == trStr {
			s := f.scalar(b, x.X, trStr)
			i := f.scalar(b, x.Index, trInt)
			t := f.tmp()
			b.add("let %s ← GoSem.index %s %s", t, s, i)
			return t
		}
	case *ast.BinaryExpr:
		if want == trInt {
			l, r := f.scalar(b, x.X, trInt), f.scalar(b, x.Y, trInt)
			switch x.Op {
			case token.ADD:
				return fmt.Sprintf("(GoSem.addI %s %s)", l, r)
			case token.SUB:
				return fmt.Sprintf("(GoSem.subI %s %s)", l, r)
			}
		}
	case *ast.SelectorExpr:
		// cur.boolfield as a value
		if want == trBool && f.kindOfExpr(x.X) == trCur && f.isBoolFld(x.Sel.Name) {
			return f.fieldRead(b, x)
		}
	}
	die("%s: expression outside the subset of the trie translator", f.at(e))
	return ""
}

func (f *trFn) isBoolFld(n string) bool {
	for _, s := range f.w.boolFlds {
		if s == n {
			return true
		}
	}
	return false
}

// cur.boolfield: nil cursor -> panic
func (f *trFn) fieldRead(b *gfBuf, x *ast.SelectorExpr) string {
	c := f.cursor(b, x.X)
	p := f.tmp()
	b.add("let %s ← %s", p, c)
	n := f.tmp()
	b.add("let %s ← %s.nodeAt %s %s", n, trHandle, f.heap(x), p)
	return fmt.Sprintf("%s.%s", n, gfLeanIdent(x.Sel.Name))
}

// cond: compile a boolean expression as control flow (short-circuit with hoisted panics)
func (f *trFn) cond(b *gfBuf, e ast.Expr, kT, kF func()) {
	if tv := f.w.pk.info.Types[e]; tv.Value != nil && tv.Value.Kind() == constant.Bool {
		if constant.BoolVal(tv.Value) {
			kT()
		} else {
			kF()
		}
		return
	}
	switch x := e.(type) {
	case *ast.ParenExpr:
		f.cond(b, x.X, kT, kF)
		return
	case *ast.UnaryExpr:
		if x.Op == token.NOT {
			f.cond(b, x.X, kF, kT)
			return
		}
	case *ast.BinaryExpr:
		switch x.Op {
		case token.LAND:
			f.cond(b, x.X, func() { f.cond(b, x.Y, kT, kF) }, kF)
			return
		case token.LOR:
			f.cond(b, x.X, kT, func() { f.cond(b, x.Y, kT, kF) })
			return
		}
	}
	a := f.atom(b, e)
	b.add("if %s then", a)
	b.nest(kT)
	b.add("else")
	b.nest(kF)
}

func (f *trFn) isNil(e ast.Expr) bool {
	id, ok := e.(*ast.Ident)
	if !ok || id.Name != "nil" {
		return false
	}
	_, isNil := f.obj(id).(*types.Nil)
	return isNil
}

// atom: a boolean expression without && || ! at the top: Lean Bool / decidable Prop term
func (f *trFn) atom(b *gfBuf, e ast.Expr) string {
	switch x := e.(type) {
	case *ast.ParenExpr:
		return f.atom(b, x.X)
	case *ast.BinaryExpr:
		switch x.Op {
		case token.EQL, token.NEQ:
			l, r := x.X, x.Y
			if f.isNil(l) {
				l, r = r, l
			}
			if f.isNil(r) {
				var t string
				switch f.kindOfExpr(l) {
				case trCur:
					t = fmt.Sprintf("(%s).isNone", f.cursor(b, l))
				case trHdl, trXt:
					t = fmt.Sprintf("(%s).isNone", f.handleVal(b, l))
				default:
					die("%s: comparison with nil outside the subset", f.at(e))
				}
				if x.Op == token.NEQ {
					return "(!" + t + ")"
				}
				return t
			}
			fallthrough
		case token.LSS, token.LEQ, token.GTR, token.GEQ:
			k := f.kindOfExpr(x.X)
			if tv := f.w.pk.info.Types[x.X]; tv.Value != nil {
				k = f.kindOfExpr(x.Y)
			}
			if k != trInt && k != trByte && !(k == trBool && (x.Op == token.EQL || x.Op == token.NEQ)) {
				die("%s: comparison of this type outside the subset", f.at(e))
			}
			l, r := f.scalar(b, x.X, k), f.scalar(b, x.Y, k)
			op := map[token.Token]string{token.EQL: "=", token.NEQ: "≠", token.LSS: "<", token.LEQ: "≤", token.GTR: ">", token.GEQ: "≥"}[x.Op]
			return fmt.Sprintf("(%s %s %s)", l, op, r)
		}
	case *ast.CallExpr:
		return f.call(b, x)
	}
	return fmt.Sprintf("(%s = true)", f.scalar(b, e, trBool))
}

// handleVal: e of type *H -> Lean term of type Option H (holder field)
func (f *trFn) handleVal(b *gfBuf, e ast.Expr) string {
	if p, ok := e.(*ast.ParenExpr); ok {
		return f.handleVal(b, p.X)
	}
	if sel, ok := e.(*ast.SelectorExpr); ok {
		if id, ok := sel.X.(*ast.Ident); ok && f.obj(id) == f.recv && f.rk == trHld {
			for _, h := range append(append([]string{}, f.w.hldFlds...), f.w.extFlds...) {
				if h == sel.Sel.Name {
					return fmt.Sprintf("%s.%s", f.name(f.recv), gfLeanIdent(h))
				}
			}
		}
	}
	die("%s: %s-pointer expression outside the subset (a field of the receiver)", f.at(e), trHandle)
	return ""
}

// call: x.M(args) of a translated, read-only handle method returning bool
func (f *trFn) call(b *gfBuf, c *ast.CallExpr) string {
	sel, ok := c.Fun.(*ast.SelectorExpr)
	if !ok {
		die("%s: call outside the subset", f.at(c))
	}
	s := f.w.pk.info.Selections[sel]
	if s == nil || s.Kind() != types.MethodVal {
		die("%s: call outside the subset", f.at(c))
	}
	if f.kindOfExpr(sel.X) == trXt {
		lean, ok := trExtMethods[sel.Sel.Name]
		if !ok {
			die("%s: method %s of %s is not one gofn translates", f.at(c), sel.Sel.Name, trExt)
		}
		d := gfFindDecl(f.w.pk, trExt+"."+sel.Sel.Name)
		sig := s.Obj().Type().(*types.Signature)
		if f.w.pk.info.Defs[d.Name] != s.Obj() || sig.Params().Len() != 1 || len(c.Args) != 1 || sig.Results().Len() != 1 ||
			f.kindOf(sig.Params().At(0).Type(), c) != trStr || f.kindOf(sig.Results().At(0).Type(), c) != trBool {
			die("%s: callee %s.%s is not the translated method (string) bool", f.at(c), trExt, sel.Sel.Name)
		}
		h := f.tmp()
		b.add("let %s ← %s", h, f.handleVal(b, sel.X))
		a := f.scalar(b, c.Args[0], trStr)
		r := f.tmp()
		b.add("let %s ← %s %s %s", r, lean, h, a)
		return fmt.Sprintf("(%s = true)", r)
	}
	var target string
	for _, fs := range trFuncs {
		if d := f.w.decls[fs.lean]; d != nil && f.w.pk.info.Defs[d.Name] == s.Obj() {
			target = fs.lean
		}
	}
	if target == "" {
		die("%s: call of %s, which is not one of the translated functions", f.at(c), sel.Sel.Name)
	}
	if f.w.writes[target] {
		die("%s: call of a heap-writing method inside an expression", f.at(c))
	}
	callee := f.w.decls[target]
	sig := f.w.pk.info.Defs[callee.Name].(*types.Func).Type().(*types.Signature)
	if sig.Results().Len() != 1 || f.kindOf(sig.Results().At(0).Type(), c) != trBool || sig.Variadic() || sig.Params().Len() != len(c.Args) {
		die("%s: callee signature outside the subset", f.at(c))
	}
	h := f.tmp()
	b.add("let %s ← %s", h, f.handleVal(b, sel.X))
	var args []string
	for i, a := range c.Args {
		args = append(args, f.scalar(b, a, f.kindOf(sig.Params().At(i).Type(), a)))
	}
	r := f.tmp()
	b.add("let %s ← %s %s %s", r, target, h, strings.Join(args, " "))
	return fmt.Sprintf("(%s = true)", r)
}

// fresh: &N{m: make(map[byte]*N), b: <const>} -> Lean term
func (f *trFn) fresh(e ast.Expr) string {
	u, ok := e.(*ast.UnaryExpr)
	if !ok || u.Op != token.AND {
		die("%s: only a fresh &%s{...} literal may be stored in a map slot or a root", f.at(e), trNode)
	}
	cl, ok := u.X.(*ast.CompositeLit)
	if !ok || types.Unalias(f.typ(cl)) != types.Type(f.w.node) {
		die("%s: only a fresh &%s{...} literal may be stored in a map slot or a root", f.at(e), trNode)
	}
	vals := map[string]string{}
	for _, el := range cl.Elts {
		kv, ok := el.(*ast.KeyValueExpr)
		if !ok {
			die("%s: positional composite literal outside the subset", f.at(cl))
		}
		k := kv.Key.(*ast.Ident).Name
		if k == f.w.mapField {
			if !trIsMake(f.w, kv.Value) {
				die("%s: the map of a fresh node must be make(map[byte]*%s)", f.at(kv), trNode)
			}
			vals[k] = "(fun _ => none)"
			continue
		}
		tv := f.w.pk.info.Types[kv.Value]
		if tv.Value == nil || !f.isBoolFld(k) {
			die("%s: field %s of a fresh node must be a boolean constant", f.at(kv), k)
		}
		if constant.BoolVal(tv.Value) {
			vals[k] = "true"
		} else {
			vals[k] = "false"
		}
	}
	if _, ok := vals[f.w.mapField]; !ok {
		die("%s: a fresh node must initialise its map (a nil map panics on the first store)", f.at(cl))
	}
	var args []string
	for _, n := range f.w.nodeFlds {
		v, ok := vals[n]
		if !ok {
			v = "false"
		}
		args = append(args, v)
	}
	return fmt.Sprintf("(%s.mk %s)", trNode, strings.Join(args, " "))
}

func trIsMake(w *trWorld, e ast.Expr) bool {
	c, ok := e.(*ast.CallExpr)
	if !ok || len(c.Args) < 1 || len(c.Args) > 2 {
		return false
	}
	id, ok := c.Fun.(*ast.Ident)
	if !ok || id.Name != "make" {
		return false
	}
	if _, isB := w.pk.info.Uses[id].(*types.Builtin); !isB {
		return false
	}
	m, ok := types.Unalias(w.pk.info.Types[c.Args[0]].Type).(*types.Map)
	return ok && trIsNodeMap(w, m)
}

func trIsNodeMap(w *trWorld, m *types.Map) bool {
	kb, ok := types.Unalias(m.Key()).(*types.Basic)
	if !ok || kb.Kind() != types.Uint8 {
		return false
	}
	p, ok := types.Unalias(m.Elem()).(*types.Pointer)
	return ok && types.Unalias(p.Elem()) == types.Type(w.node)
}

// ---------------------------------------------------------------- statements

type trCtx struct {
	loop *trLoop
}

func (f *trFn) emitRet(b *gfBuf, c *trCtx, val string) {
	if c.loop != nil {
		b.add("pure (GoSem.Ctl.ret %s)", val)
	} else {
		b.add("pure %s", val)
	}
}

func (f *trFn) voidRet() string {
	if f.ret == "" && f.rk == trHdl {
		return f.name(f.recv)
	}
	return "()"
}

// seq: stmts, then k (the continuation after the list)
func (f *trFn) seq(b *gfBuf, stmts []ast.Stmt, c *trCtx, k func()) {
	if len(stmts) == 0 {
		k()
		return
	}
	s, rest := stmts[0], stmts[1:]
	next := func() { f.seq(b, rest, c, k) }
	switch x := s.(type) {
	case *ast.EmptyStmt:
		next()
	case *ast.BlockStmt:
		f.seq(b, x.List, c, next)
	case *ast.ReturnStmt:
		switch f.ret {
		case "bool":
			if len(x.Results) != 1 {
				die("%s: return arity", f.at(s))
			}
			f.cond(b, x.Results[0], func() { f.emitRet(b, c, "true") }, func() { f.emitRet(b, c, "false") })
		case "":
			if len(x.Results) != 0 {
				die("%s: return arity", f.at(s))
			}
			f.emitRet(b, c, f.voidRet())
		case "handle":
			if len(x.Results) != 1 {
				die("%s: return arity", f.at(s))
			}
			f.emitRet(b, c, f.freshHandle(x.Results[0]))
		}
	case *ast.IfStmt:
		if x.Init != nil {
			die("%s: if with an init statement outside the subset", f.at(s))
		}
		f.cond(b, x.Cond,
			func() { f.seq(b, x.Body.List, c, next) },
			func() {
				if x.Else == nil {
					next()
				} else {
					f.seq(b, []ast.Stmt{x.Else}, c, next)
				}
			})
	case *ast.IncDecStmt:
		id, ok := x.X.(*ast.Ident)
		if !ok || f.kindOfExpr(x.X) != trInt {
			die("%s: ++/-- outside the subset", f.at(s))
		}
		n := f.scalar(b, id, trInt)
		op := "addI"
		if x.Tok == token.DEC {
			op = "subI"
		}
		b.add("let %s : Int := (GoSem.%s %s (1 : Int))", n, op, n)
		next()
	case *ast.AssignStmt:
		f.assign(b, x)
		next()
	case *ast.ForStmt:
		f.loop(b, x, c, next)
	default:
		die("%s: statement outside the subset of the trie translator", f.at(s))
	}
}

func (f *trFn) freshHandle(e ast.Expr) string {
	u, ok := e.(*ast.UnaryExpr)
	if ok && u.Op == token.AND {
		if cl, ok := u.X.(*ast.CompositeLit); ok && types.Unalias(f.typ(cl)) == types.Type(f.w.handle) && len(cl.Elts) == 1 {
			if kv, ok := cl.Elts[0].(*ast.KeyValueExpr); ok && kv.Key.(*ast.Ident).Name == f.w.rootFld {
				return fmt.Sprintf("(some ({ %s := some %s } : %s))", gfLeanIdent(f.w.rootFld), f.fresh(kv.Value), trHandle)
			}
		}
	}
	die("%s: the constructor must return &%s{%s: &%s{...}}", f.at(e), trHandle, f.w.rootFld, trNode)
	return ""
}

func (f *trFn) assign(b *gfBuf, x *ast.AssignStmt) {
	if len(x.Lhs) != 1 || len(x.Rhs) != 1 {
		die("%s: multiple assignment outside the subset", f.at(x))
	}
	lhs, rhs := x.Lhs[0], x.Rhs[0]
	switch l := lhs.(type) {
	case *ast.Ident:
		if l.Name == "_" {
			die("%s: blank assignment outside the subset", f.at(x))
		}
		o := f.obj(l)
		if o == nil || !f.isLocal(o) || o == f.recv {
			die("%s: assignment to %s outside the subset", f.at(x), l.Name)
		}
		k := f.kindOf(o.Type(), l)
		var v string
		if x.Tok == token.ADD_ASSIGN || x.Tok == token.SUB_ASSIGN {
			if k != trInt {
				die("%s: op= outside the subset", f.at(x))
			}
			op := "addI"
			if x.Tok == token.SUB_ASSIGN {
				op = "subI"
			}
			v = fmt.Sprintf("(GoSem.%s %s %s)", op, f.scalar(b, l, trInt), f.scalar(b, rhs, trInt))
		} else if x.Tok != token.ASSIGN && x.Tok != token.DEFINE {
			die("%s: assignment operator outside the subset", f.at(x))
		} else if k == trCur {
			v = f.cursor(b, rhs)
		} else if k == trBool {
			v = f.boolVal(b, rhs)
		} else if k == trInt || k == trByte || k == trStr {
			v = f.scalar(b, rhs, k)
		} else {
			die("%s: assignment of this type outside the subset", f.at(x))
		}
		b.add("let %s : %s := %s", f.name(o), k.lean(), v)
	case *ast.SelectorExpr:
		// cur.boolfield = <bool>
		if x.Tok != token.ASSIGN || f.kindOfExpr(l.X) != trCur || !f.isBoolFld(l.Sel.Name) {
			die("%s: field assignment outside the subset", f.at(x))
		}
		c := f.cursor(b, l.X)
		p := f.tmp()
		b.add("let %s ← %s", p, c)
		t := f.boolVal(b, rhs)
		h := f.heap(x)
		b.add("let %s ← %s.modifyAt (fun n => n.set_%s %s) %s %s", h, trHandle, l.Sel.Name, t, h, p)
		f.heapW = true
	case *ast.IndexExpr:
		// cur.m[k] = &N{...}
		sel, ok := l.X.(*ast.SelectorExpr)
		if x.Tok != token.ASSIGN || !ok || sel.Sel.Name != f.w.mapField || f.kindOfExpr(sel.X) != trCur {
			die("%s: element assignment outside the subset", f.at(x))
		}
		c := f.cursor(b, sel.X)
		p := f.tmp()
		b.add("let %s ← %s", p, c)
		k := f.scalar(b, l.Index, trByte)
		h := f.heap(x)
		b.add("let %s ← %s.storeFresh %s %s %s %s", h, trHandle, h, p, k, f.fresh(rhs))
		f.heapW = true
	default:
		die("%s: assignment target outside the subset", f.at(x))
	}
}

// boolVal: a boolean VALUE (constants directly, everything else through cond: short-circuit with hoisted panics)
func (f *trFn) boolVal(b *gfBuf, e ast.Expr) string {
	if tv := f.w.pk.info.Types[e]; tv.Value != nil && tv.Value.Kind() == constant.Bool {
		if constant.BoolVal(tv.Value) {
			return "true"
		}
		return "false"
	}
	t := f.tmp()
	b.add("let %s : Bool ←", t)
	b.nest(func() { f.cond(b, e, func() { b.add("pure true") }, func() { b.add("pure false") }) })
	return t
}

func trAssigned(f *trFn, n ast.Node) (objs map[types.Object]bool, heap bool) {
	objs = map[types.Object]bool{}
	ast.Inspect(n, func(m ast.Node) bool {
		switch x := m.(type) {
		case *ast.AssignStmt:
			for _, l := range x.Lhs {
				switch ll := l.(type) {
				case *ast.Ident:
					if o := f.obj(ll); o != nil {
						objs[o] = true
					}
				default:
					heap = true
				}
			}
		case *ast.IncDecStmt:
			if id, ok := x.X.(*ast.Ident); ok {
				if o := f.obj(id); o != nil {
					objs[o] = true
				}
			} else {
				heap = true
			}
		}
		return true
	})
	return
}

// loop: `for i := c; i < bound; i++ { body }` as fuel recursion
func (f *trFn) loop(b *gfBuf, x *ast.ForStmt, c *trCtx, next func()) {
	if c.loop != nil {
		die("%s: nested loops outside the subset", f.at(x))
	}
	if x.Cond == nil || x.Post == nil {
		die("%s: only counted loops (`for init; i < bound; i++`) are in the subset", f.at(x))
	}
	if gfHas(x.Body, func(n ast.Node) bool {
		switch n.(type) {
		case *ast.BranchStmt, *ast.ForStmt, *ast.RangeStmt, *ast.LabeledStmt, *ast.FuncLit, *ast.DeferStmt, *ast.GoStmt:
			return true
		}
		return false
	}) {
		die("%s: break / continue / goto / nested loops / closures in a loop body outside the subset", f.at(x))
	}
	// the counter: cond is `i < bound`; post increments i by one; i is not assigned in the body
	ce, ok := x.Cond.(*ast.BinaryExpr)
	if !ok || ce.Op != token.LSS {
		die("%s: loop condition must be `i < bound`", f.at(x))
	}
	cid, ok := ce.X.(*ast.Ident)
	if !ok || f.kindOfExpr(ce.X) != trInt {
		die("%s: loop condition must be `i < bound`", f.at(x))
	}
	ctr := f.obj(cid)
	okPost := false
	switch p := x.Post.(type) {
	case *ast.IncDecStmt:
		if id, ok := p.X.(*ast.Ident); ok && f.obj(id) == ctr && p.Tok == token.INC {
			okPost = true
		}
	case *ast.AssignStmt:
		if len(p.Lhs) == 1 && len(p.Rhs) == 1 {
			if id, ok := p.Lhs[0].(*ast.Ident); ok && f.obj(id) == ctr {
				one := func(e ast.Expr) bool {
					tv := f.w.pk.info.Types[e]
					return tv.Value != nil && constant.Compare(constant.ToInt(tv.Value), token.EQL, constant.MakeInt64(1))
				}
				if p.Tok == token.ADD_ASSIGN && one(p.Rhs[0]) {
					okPost = true
				}
				if be, ok := p.Rhs[0].(*ast.BinaryExpr); ok && p.Tok == token.ASSIGN && be.Op == token.ADD {
					if l, ok := be.X.(*ast.Ident); ok && f.obj(l) == ctr && one(be.Y) {
						okPost = true
					}
					if r, ok := be.Y.(*ast.Ident); ok && f.obj(r) == ctr && one(be.X) {
						okPost = true
					}
				}
			}
		}
	}
	if !okPost {
		die("%s: the post statement must add one to the counter of the condition", f.at(x))
	}
	bodyAsg, bodyHeap := trAssigned(f, x.Body)
	if bodyAsg[ctr] {
		die("%s: the loop counter is assigned in the body", f.at(x))
	}
	// the bound must not change while the loop runs
	if gfHas(ce.Y, func(n ast.Node) bool {
		if id, ok := n.(*ast.Ident); ok {
			if o := f.obj(id); o != nil && bodyAsg[o] {
				return true
			}
		}
		switch n.(type) {
		case *ast.SelectorExpr, *ast.IndexExpr:
			return true
		}
		return false
	}) {
		die("%s: the loop bound depends on something the body may change", f.at(x))
	}
	if x.Init != nil {
		f.seq(b, []ast.Stmt{x.Init}, c, func() {})
	}
	// state: variables assigned in body/post that are declared outside the body; heap when written
	var state []types.Object
	asg, _ := trAssigned(f, x.Post)
	for o := range bodyAsg {
		asg[o] = true
	}
	for o := range asg {
		if f.isLocal(o) && !gfWithin(o, x.Body) {
			state = append(state, o)
		}
	}
	sort.Slice(state, func(i, j int) bool { return state[i].Pos() < state[j].Pos() })
	isState := map[types.Object]bool{}
	for _, o := range state {
		isState[o] = true
	}
	// parameters: every other local in scope at the loop that the loop mentions (the receiver always)
	var params []types.Object
	seen := map[types.Object]bool{}
	if f.recv != nil && !(bodyHeap && f.rk == trHdl) {
		params = append(params, f.recv)
		seen[f.recv] = true
	}
	ast.Inspect(x, func(n ast.Node) bool {
		if id, ok := n.(*ast.Ident); ok {
			if o := f.obj(id); o != nil && f.isLocal(o) && !seen[o] && !isState[o] && !gfWithin(o, x) && !(o == f.recv) {
				seen[o] = true
				params = append(params, o)
			}
		}
		return true
	})
	f.nloop++
	lp := &trLoop{name: fmt.Sprintf("%s_loop%d", f.lean, f.nloop), state: state, heap: bodyHeap && f.rk == trHdl, post: x.Post}
	var pdecl, pargs []string
	for _, o := range params {
		k := f.kindOf(o.Type(), x)
		pdecl = append(pdecl, fmt.Sprintf("(%s : %s)", f.name(o), k.lean()))
		pargs = append(pargs, f.name(o))
	}
	var sT, sN []string
	if lp.heap {
		sT = append(sT, trHandle)
		sN = append(sN, f.name(f.recv))
	}
	for _, o := range state {
		k := f.kindOf(o.Type(), x)
		if strings.Contains(k.lean(), " ") {
			sT = append(sT, "("+k.lean()+")")
		} else {
			sT = append(sT, k.lean())
		}
		sN = append(sN, f.name(o))
	}
	retT := "Bool"
	switch f.ret {
	case "":
		retT = "Unit"
		if f.rk == trHdl {
			retT = trHandle
		}
	case "handle":
		die("%s: loop in a constructor outside the subset", f.at(x))
	}
	stT := strings.Join(sT, " × ")
	if len(sT) == 0 {
		stT = "Unit"
	}
	lb := &gfBuf{}
	lb.add("/-- loop at %s -/", f.w.pk.pos(x))
	lb.add("def %s %s : Nat → %s → Option (GoSem.Ctl (%s) %s)", lp.name, strings.Join(pdecl, " "), strings.Join(sT, " → "), stT, retT)
	us := make([]string, len(sN))
	for i := range us {
		us[i] = "_"
	}
	lb.ind = 1
	lb.add("| 0, %s => none", strings.Join(us, ", "))
	lb.add("| fuel + 1, %s => do", strings.Join(sN, ", "))
	lb.ind = 2
	f.cond(lb, x.Cond, func() {
		f.seq(lb, x.Body.List, &trCtx{loop: lp}, func() {
			f.seq(lb, []ast.Stmt{x.Post}, &trCtx{loop: lp}, func() {
				lb.add("%s %s fuel %s", lp.name, strings.Join(pargs, " "), strings.Join(sN, " "))
			})
		})
	}, func() {
		lb.add("pure (GoSem.Ctl.next %s)", gfTuple(sN))
	})
	f.loops = append(f.loops, strings.Join(lb.lines, "\n")+"\n")
	if lp.heap {
		f.heapW = true
	}
	// the call: fuel = bound + 1 iterations at most (the counter starts at a constant >= 0 - checked by Lean's proof, not here:
	// too little fuel is `none`, never a wrong value)
	bound := f.scalar(b, ce.Y, trInt)
	b.add("match (← %s %s ((%s).toNat + 1) %s) with", lp.name, strings.Join(pargs, " "), bound, strings.Join(sN, " "))
	b.add("| GoSem.Ctl.ret ret_ => pure ret_")
	b.add("| GoSem.Ctl.next %s =>", gfTuple(sN))
	b.nest(next)
}

// ---------------------------------------------------------------- functions

func (f *trFn) translate() string {
	d := f.decl
	def := f.w.pk.info.Defs[d.Name].(*types.Func)
	sig := def.Type().(*types.Signature)
	if sig.Variadic() || d.Type.TypeParams != nil {
		die("%s: variadic / generic functions outside the subset", f.at(d))
	}
	var pdecl []string
	f.rk = -1
	if sig.Recv() != nil {
		if len(d.Recv.List) != 1 || len(d.Recv.List[0].Names) != 1 {
			die("%s: unnamed receiver", f.at(d))
		}
		f.recv = f.w.pk.info.Defs[d.Recv.List[0].Names[0]]
		f.rk = f.kindOf(sig.Recv().Type(), d)
		if f.rk != trHdl && f.rk != trHld {
			die("%s: receiver type outside the subset", f.at(d))
		}
		pdecl = append(pdecl, fmt.Sprintf("(%s : %s)", f.name(f.recv), f.rk.lean()))
	}
	for _, fl := range d.Type.Params.List {
		for _, n := range fl.Names {
			o := f.w.pk.info.Defs[n]
			k := f.kindOf(o.Type(), n)
			if k != trInt && k != trByte && k != trBool && k != trStr {
				die("%s: parameter type outside the subset", f.at(n))
			}
			pdecl = append(pdecl, fmt.Sprintf("(%s : %s)", f.name(o), k.lean()))
		}
		if len(fl.Names) == 0 {
			die("%s: unnamed parameter", f.at(d))
		}
	}
	var retT string
	switch sig.Results().Len() {
	case 0:
		f.ret = ""
		retT = "Unit"
		if f.rk == trHdl {
			retT = trHandle
		}
	case 1:
		switch f.kindOf(sig.Results().At(0).Type(), d) {
		case trBool:
			f.ret, retT = "bool", "Bool"
		case trHdl:
			if f.rk != -1 {
				die("%s: a method returning a handle outside the subset", f.at(d))
			}
			f.ret, retT = "handle", "(Option "+trHandle+")"
		default:
			die("%s: result type outside the subset", f.at(d))
		}
		if sig.Results().At(0).Name() != "" {
			die("%s: named results outside the subset", f.at(d))
		}
	default:
		die("%s: multiple results outside the subset", f.at(d))
	}
	if gfHas(d.Body, func(n ast.Node) bool {
		switch n.(type) {
		case *ast.FuncLit, *ast.DeferStmt, *ast.GoStmt, *ast.LabeledStmt, *ast.SelectStmt, *ast.SendStmt:
			return true
		}
		return false
	}) {
		die("%s: closures / defer / go / labels outside the subset", f.at(d))
	}
	b := &gfBuf{ind: 1}
	f.seq(b, d.Body.List, &trCtx{}, func() {
		if f.ret != "" {
			die("%s: control reaches the end of a function with a result", f.at(d))
		}
		b.add("pure %s", f.voidRet())
	})
	if f.heapW && (f.ret != "" || f.rk != trHdl) {
		die("%s: a function that writes the heap must be a method of %s without results", f.at(d), trHandle)
	}
	var sb strings.Builder
	for _, l := range f.loops {
		sb.WriteString(l + "\n")
	}
	fmt.Fprintf(&sb, "/-- %s `%s` -/\n", f.w.pk.pos(d), types.TypeString(sig, func(*types.Package) string { return "" }))
	fmt.Fprintf(&sb, "def %s : Option %s := do\n", strings.TrimSpace(f.lean+" "+strings.Join(pdecl, " ")), retT)
	sb.WriteString(strings.Join(b.lines, "\n") + "\n")
	return sb.String()
}

// ---------------------------------------------------------------- the world: types, heap-shape checks, prelude

func trWorldOf(pk *gfPackage) *trWorld {
	w := &trWorld{pk: pk, decls: map[string]*ast.FuncDecl{}, writes: map[string]bool{}}
	named := func(n string) *types.Named {
		tn, _ := pk.pkg.Scope().Lookup(n).(*types.TypeName)
		if tn == nil {
			die("type %s not found in %s", n, pk.rel)
		}
		nt, _ := types.Unalias(tn.Type()).(*types.Named)
		if nt == nil {
			die("%s is not a named type", n)
		}
		if _, ok := nt.Underlying().(*types.Struct); !ok {
			die("%s is not a struct", n)
		}
		return nt
	}
	w.node, w.handle, w.holder = named(trNode), named(trHandle), named(trHolder)
	w.ext = named(trExt)
	ns := w.node.Underlying().(*types.Struct)
	for i := 0; i < ns.NumFields(); i++ {
		fl := ns.Field(i)
		if fl.Embedded() {
			die("%s: embedded field outside the subset", trNode)
		}
		w.nodeFlds = append(w.nodeFlds, fl.Name())
		switch t := types.Unalias(fl.Type()).(type) {
		case *types.Map:
			if !trIsNodeMap(w, t) || w.mapField != "" {
				die("%s.%s: exactly one field of type map[byte]*%s is in the subset", trNode, fl.Name(), trNode)
			}
			w.mapField = fl.Name()
			continue
		case *types.Basic:
			if t.Kind() == types.Bool {
				w.boolFlds = append(w.boolFlds, fl.Name())
				continue
			}
		}
		die("%s.%s: field type %s outside the subset (one map[byte]*%s, the others bool)", trNode, fl.Name(), fl.Type().String(), trNode)
	}
	if w.mapField == "" {
		die("%s has no map[byte]*%s field", trNode, trNode)
	}
	hs := w.handle.Underlying().(*types.Struct)
	if hs.NumFields() != 1 {
		die("%s: exactly one field (*%s) is in the subset", trHandle, trNode)
	}
	if p, ok := types.Unalias(hs.Field(0).Type()).(*types.Pointer); !ok || types.Unalias(p.Elem()) != types.Type(w.node) {
		die("%s.%s is not a *%s", trHandle, hs.Field(0).Name(), trNode)
	}
	w.rootFld = hs.Field(0).Name()
	fs := w.holder.Underlying().(*types.Struct)
	for i := 0; i < fs.NumFields(); i++ {
		if p, ok := types.Unalias(fs.Field(i).Type()).(*types.Pointer); ok && types.Unalias(p.Elem()) == types.Type(w.handle) {
			w.hldFlds = append(w.hldFlds, fs.Field(i).Name())
		}
		if p, ok := types.Unalias(fs.Field(i).Type()).(*types.Pointer); ok && types.Unalias(p.Elem()) == types.Type(w.ext) {
			w.extFlds = append(w.extFlds, fs.Field(i).Name())
		}
	}
	for _, fs := range trFuncs {
		w.decls[fs.lean] = gfFindDecl(pk, fs.goName)
	}
	return w
}

// heapShape: the package-wide conditions under which "cursor = path in a tree owned by the handle" is exact
func (w *trWorld) heapShape() {
	pk := w.pk
	translated := map[*ast.FuncDecl]bool{}
	for _, d := range w.decls {
		translated[d] = true
	}
	isNodeOrHandleField := func(sel *ast.SelectorExpr) bool {
		s := pk.info.Selections[sel]
		if s == nil || s.Kind() != types.FieldVal {
			return false
		}
		rt := s.Recv()
		if p, ok := types.Unalias(rt).(*types.Pointer); ok {
			rt = p.Elem()
		}
		rt = types.Unalias(rt)
		return rt == types.Type(w.node) || rt == types.Type(w.handle)
	}
	par := pk.parents()
	for _, file := range pk.files {
		for _, d := range file.Decls {
			fd, _ := d.(*ast.FuncDecl)
			inTranslated := fd != nil && translated[fd]
			ast.Inspect(d, func(n ast.Node) bool {
				switch x := n.(type) {
				case *ast.CompositeLit:
					if tv, ok := pk.info.Types[x]; ok && types.Unalias(tv.Type) == types.Type(w.node) {
						okMap := false
						for _, el := range x.Elts {
							if kv, ok := el.(*ast.KeyValueExpr); ok {
								if id, ok := kv.Key.(*ast.Ident); ok && id.Name == w.mapField && trIsMake(w, kv.Value) {
									okMap = true
								}
							}
						}
						if !okMap {
							die("%s: a %s literal that does not initialise %s with make(): a nil map (panic on store) is not in the model", pk.pos(x), trNode, w.mapField)
						}
						if !inTranslated {
							die("%s: a %s is created outside the translated functions", pk.pos(x), trNode)
						}
					}
				case *ast.CallExpr:
					if id, ok := x.Fun.(*ast.Ident); ok && id.Name == "new" && len(x.Args) == 1 {
						if _, isB := pk.info.Uses[id].(*types.Builtin); isB {
							if t := types.Unalias(pk.info.Types[x.Args[0]].Type); t == types.Type(w.node) {
								die("%s: new(%s) leaves the map nil", pk.pos(x), trNode)
							}
						}
					}
				case *ast.ValueSpec:
					if x.Type != nil {
						if t := types.Unalias(pk.info.Types[x.Type].Type); t == types.Type(w.node) {
							die("%s: a %s variable (zero value, nil map) outside the subset", pk.pos(x), trNode)
						}
					}
				case *ast.SelectorExpr:
					if !isNodeOrHandleField(x) {
						return true
					}
					p := par[x]
					if x.Sel.Name == w.mapField {
						ie, ok := p.(*ast.IndexExpr)
						if !ok || ie.X != ast.Expr(x) {
							die("%s: the map field %s.%s is used other than as x.%s[k] (aliasing, delete, range, len are outside the model)", pk.pos(x), trNode, w.mapField, w.mapField)
						}
						p = par[ie]
						if u, ok := p.(*ast.UnaryExpr); ok && u.Op == token.AND {
							die("%s: address of a map slot", pk.pos(x))
						}
						if as, ok := p.(*ast.AssignStmt); ok && !inTranslated {
							for _, l := range as.Lhs {
								if l == ast.Expr(ie) {
									die("%s: a map slot of %s is assigned outside the translated functions", pk.pos(x), trNode)
								}
							}
						}
						return true
					}
					if u, ok := p.(*ast.UnaryExpr); ok && u.Op == token.AND {
						die("%s: address of a field of %s / %s", pk.pos(x), trNode, trHandle)
					}
					if as, ok := p.(*ast.AssignStmt); ok && !inTranslated {
						for _, l := range as.Lhs {
							if l == ast.Expr(x) {
								die("%s: field %s is assigned outside the translated functions", pk.pos(x), x.Sel.Name)
							}
						}
					}
					if ids, ok := p.(*ast.IncDecStmt); ok && !inTranslated && ids.X == ast.Expr(x) {
						die("%s: field %s is assigned outside the translated functions", pk.pos(x), x.Sel.Name)
					}
				}
				return true
			})
		}
	}
	// package-level variables must not be touched by the translated functions at all (pure functions of
	// receiver and arguments): any identifier that resolves to a package-level variable is refused
	for _, d := range w.decls {
		ast.Inspect(d.Body, func(n ast.Node) bool {
			if id, ok := n.(*ast.Ident); ok {
				if v, ok := pk.info.Uses[id].(*types.Var); ok && !v.IsField() && v.Parent() == pk.pkg.Scope() {
					die("%s: %s uses the package-level variable %s (translated functions must be pure functions of receiver and arguments)", pk.pos(id), d.Name.Name, id.Name)
				}
			}
			return true
		})
	}
}

func (w *trWorld) prelude() string {
	var sb strings.Builder
	N, H, m := trNode, trHandle, gfLeanIdent(w.mapField)
	var flds []string
	for _, n := range w.nodeFlds {
		if n == w.mapField {
			flds = append(flds, fmt.Sprintf("(%s : UInt8 → Option %s)", m, N))
		} else {
			flds = append(flds, fmt.Sprintf("(%s : Bool)", gfLeanIdent(n)))
		}
	}
	fmt.Fprintf(&sb, "/-- %s `type %s struct`: the Go map `map[byte]*%s` as a function, a nil entry as `none` -/\n", w.pk.pos(identOfObj(w.pk, w.node.Obj())), N, N)
	fmt.Fprintf(&sb, "inductive %s where\n  | mk %s\n\nnamespace %s\n", N, strings.Join(flds, " "), N)
	pats := func(sel string) string {
		var p []string
		for _, n := range w.nodeFlds {
			if n == sel {
				p = append(p, "x")
			} else {
				p = append(p, "_")
			}
		}
		return strings.Join(p, " ")
	}
	for _, n := range w.nodeFlds {
		ty := "Bool"
		if n == w.mapField {
			ty = fmt.Sprintf("UInt8 → Option %s", N)
		}
		fmt.Fprintf(&sb, "def %s : %s → %s\n  | mk %s => x\n", gfLeanIdent(n), N, ty, pats(n))
	}
	set := func(sel, val string) string {
		var p, q []string
		for i, n := range w.nodeFlds {
			p = append(p, fmt.Sprintf("a%d", i))
			if n == sel {
				q = append(q, val)
			} else {
				q = append(q, fmt.Sprintf("a%d", i))
			}
		}
		return fmt.Sprintf("  match n with\n  | mk %s => mk %s\n", strings.Join(p, " "), strings.Join(q, " "))
	}
	for _, n := range w.boolFlds {
		fmt.Fprintf(&sb, "/-- `n.%s = v` -/\ndef set_%s (n : %s) (v : Bool) : %s :=\n%s", n, n, N, N, set(n, "v"))
	}
	fmt.Fprintf(&sb, "/-- `n.%s[k] = c` -/\ndef setChild (n : %s) (k : UInt8) (c : %s) : %s :=\n%s", w.mapField, N, N, N,
		set(w.mapField, fmt.Sprintf("(fun b => if b = k then some c else a%d b)", indexOf(w.nodeFlds, w.mapField))))
	fmt.Fprintf(&sb, `/-- the node at the end of a path of map keys; none: the path leaves the tree -/
def nodeAt : %[1]s → List UInt8 → Option %[1]s
  | n, [] => some n
  | n, b :: p => match n.%[2]s b with
    | none => none
    | some c => c.nodeAt p
/-- apply f to the node at the end of a path (a write through a pointer); none: the path leaves the tree -/
def modifyAt (f : %[1]s → %[1]s) : %[1]s → List UInt8 → Option %[1]s
  | n, [] => some (f n)
  | n, b :: p => match n.%[2]s b with
    | none => none
    | some c => match modifyAt f c p with
      | none => none
      | some c' => some (n.setChild b c')
end %[1]s

`, N, m)
	fmt.Fprintf(&sb, "/-- %s `type %s struct` -/\nstructure %s where\n  %s : Option %s\n\nnamespace %s\n", w.pk.pos(identOfObj(w.pk, w.handle.Obj())), H, H, gfLeanIdent(w.rootFld), N, H)
	fmt.Fprintf(&sb, `/-- the pointer `+"`t.%[3]s`"+` as a cursor: nil, or the empty path -/
def rootCur (t : %[2]s) : Option (List UInt8) := match t.%[3]s with
  | none => none
  | some _ => some []
/-- the node a non-nil cursor points at -/
def nodeAt (t : %[2]s) (p : List UInt8) : Option %[1]s := match t.%[3]s with
  | none => none
  | some r => r.nodeAt p
/-- the pointer `+"`cur.%[4]s[k]`"+` (outer none: cur dangles = Go panics; inner none: the entry is nil) -/
def childCur (t : %[2]s) (p : List UInt8) (k : UInt8) : Option (Option (List UInt8)) := do
  let n ← t.nodeAt p
  pure (match n.%[4]s k with
    | none => none
    | some _ => some (p ++ [k]))
/-- a field write through a cursor -/
def modifyAt (f : %[1]s → %[1]s) (t : %[2]s) (p : List UInt8) : Option %[2]s := match t.%[3]s with
  | none => none
  | some r => match r.modifyAt f p with
    | none => none
    | some r' => some { %[3]s := some r' }
/-- `+"`cur.%[4]s[k] = &%[1]s{…}`"+` : defined only when the slot is nil (replacing a linked child would leave the cursors
    into it stale; a heap in which that happens is not modelled: none) -/
def storeFresh (t : %[2]s) (p : List UInt8) (k : UInt8) (c : %[1]s) : Option %[2]s := do
  let n ← t.nodeAt p
  match n.%[4]s k with
  | some _ => none
  | none => t.modifyAt (fun n => n.setChild k c) p
end %[2]s

`, N, H, gfLeanIdent(w.rootFld), m)
	fmt.Fprintf(&sb, "/-- %s `type %s struct`: only its *%s and *RangeList fields (the translated functions touch no other) -/\nstructure %s where\n", w.pk.pos(identOfObj(w.pk, w.holder.Obj())), trHolder, H, trHolder)
	for _, h := range w.hldFlds {
		fmt.Fprintf(&sb, "  %s : Option %s\n", gfLeanIdent(h), H)
	}
	for _, h := range w.extFlds {
		fmt.Fprintf(&sb, "  %s : Option %s\n", gfLeanIdent(h), trExt)
	}
	sb.WriteString("\n")
	return sb.String()
}

func indexOf(l []string, s string) int {
	for i, x := range l {
		if x == s {
			return i
		}
	}
	return -1
}

func genGofnTrie() {
	pk := gfLoad(trDir)
	w := trWorldOf(pk)
	w.heapShape()
	var srcs, bodies []string
	// writers first: a function calling a translated method must know whether it writes
	for _, fs := range trFuncs {
		d := w.decls[fs.lean]
		_, heap := trAssigned(&trFn{w: w}, d.Body)
		w.writes[fs.lean] = heap
	}
	for _, fs := range trFuncs {
		f := &trFn{w: w, decl: w.decls[fs.lean], lean: fs.lean, vars: map[types.Object]string{}, used: map[string]bool{}}
		bodies = append(bodies, f.translate())
		srcs = append(srcs, fmt.Sprintf("%s %s", pk.pos(f.decl), fs.goName))
	}
	var sb strings.Builder
	sb.WriteString(header)
	fmt.Fprintf(&sb, "/-\n  TRANSLATED by harness/extract/gofn_c10.go from /repo/%s: %s.\n", trDir, strings.Join(srcs, ", "))
	sb.WriteString(`  Reading: lean/GunYu/Basic/GoSem.lean for ints, bytes, strings, loops (fuel recursion, none = panic / fuel / not modelled), and the
  prelude below for the heap: the nodes form a TREE owned by the handle (checked on the whole package before translating: nodes are
  created only by literals with a made map inside the translated functions, the map field is used only as x.m[k], no field of a node
  or handle is assigned elsewhere, a map slot only ever receives a fresh literal, and only while it is nil). A *node variable is a
  cursor: nil, or the path of map keys from the root. The receiver of a method is non-nil; a method that writes returns the handle.
-/
import GunYu.Basic.GoSem
import GunYu.Gen.FnRangeList

set_option linter.unusedVariables false

namespace GunYu.Gen.Fn
open GunYu

`)
	sb.WriteString(w.prelude())
	for _, bdy := range bodies {
		sb.WriteString(bdy + "\n")
	}
	sb.WriteString("end GunYu.Gen.Fn\n")
	writeIfChanged(filepath.Join(*out, "FnTrie.lean"), sb.String())
	g, _ := facts["gofn"].(map[string]interface{})
	if g == nil {
		g = map[string]interface{}{}
		facts["gofn"] = g
	}
	g["gofn_trie"] = map[string]interface{}{"file": "FnTrie.lean", "functions": srcs}
}
