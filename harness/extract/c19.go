package main

// C19: the sender's retry/escalation decision code that Model/ClusterSender.lean
// transcribes by hand is pinned as source facts, so that an edit of it fails
// the tie until the Lean transcription (and the expected fact) is revisited:
//   c19_sendFunc            the closure `sendFunc` inside syncer/output.go sendCmdsBatch
//   c19_handleError         the closure `handleError` there (pipelined receiver)
//   c19_handleDirectError   func handleDirectError
// Session 4 - what Model/ClusterExec.lean and ClusterSender.put/dispatch transcribe:
//   c19_positionSplit       the statement of `sendFuncOnce` that sends the data batch on its own and starts a new
//                           batch for the position (blocking cluster output, resumable): ClusterExec `split`
//   c19_txnPipeFallback     the statement of NewRedisOutput that configures transactional cluster outputs
//                           (redirect following off; pipeline mode off when resuming from the target)
//   c19_doBatch             Batch.doBatch (batch.go): write all, flush, read the replies in order, stop at the
//                           first error: ClusterExec clientOk / chaseExec / fail (ReadBefore)
//   c19_receiveReply        batch2.receiveReply (batch_pipe.go): the same loop on the pipelined path
//   c19_execReturn          Batch.Exec: waits for every node batch, first error wins: ClusterExec ack
//   c19_dispatch            batch2.Dispatch: ClusterSender.dispatch
//   c19_submit              nodePipeline.Submit: queued or refused, never both
//   c19_handleReply         Cluster.handleReply: which failures of a followed redirect are redirect-class errors
//   c19_clusterDo           Cluster.do: a failed write/read on an established connection is marked "sent, no reply"
//                           (ClusterExec `fail redirect` = refused and not delivered elsewhere, d698491)

import (
	"fmt"
	"go/ast"
	"go/token"
	"path/filepath"
	"sort"
	"strings"
)

// c19GuardOrder: Batch.Exec / batch2.Dispatch / batch2.Receive start with two guards, each an if statement
// of the function's top level that returns: `bat.err != nil` (a Put was refused: report the recorded
// error) and `… len(bat.batches) == 0` (no node batch: nothing to do, nil). Which one comes first decides
// what a flush returns whose EVERY command was refused at Put (no node batch AND a recorded error).
// Read off the statement order, not the text: survives renames, comments, a rewritten condition
// (`bat == nil || …`), statements in between that do not return.
func c19GuardOrder(fset *token.FileSet, fn *ast.FuncDecl, what string) bool {
	errAt, emptyAt := -1, -1
	for i, st := range fn.Body.List {
		is, ok := st.(*ast.IfStmt)
		if !ok || len(is.Body.List) == 0 {
			continue
		}
		if _, ret := is.Body.List[len(is.Body.List)-1].(*ast.ReturnStmt); !ret {
			continue
		}
		c := strings.ReplaceAll(c17Print(fset, is.Cond), " ", "")
		if errAt < 0 && strings.Contains(c, "!=nil") && (strings.Contains(c, ".err") || (is.Init != nil && c19Contains(fset, is.Init, ".err"))) {
			errAt = i
		}
		if emptyAt < 0 && strings.Contains(c, "len(") && (strings.Contains(c, "batches)==0") || strings.Contains(c, "batches)<1")) {
			emptyAt = i
		}
	}
	if errAt < 0 || emptyAt < 0 {
		die("%s: entry guards not found (recorded Put error: %d, no node batch: %d)", what, errAt, emptyAt)
	}
	return errAt < emptyAt
}

// ---- session 5: statement-ORDER / SHAPE constants instead of body texts (survive renames, comments, log lines,
// extracted locals; they fail only when the shape the model relies on changes)

func c19Cond(fset *token.FileSet, e ast.Node) string {
	return strings.ReplaceAll(c17Print(fset, e), " ", "")
}

// c19RangeOver: index of the first top-level `for … range <…what>` statement at or after `from` whose body satisfies pred
func c19RangeOver(fset *token.FileSet, list []ast.Stmt, from int, what string, pred func(*ast.RangeStmt) bool) int {
	for i := from; i < len(list); i++ {
		rs, ok := list[i].(*ast.RangeStmt)
		if !ok || !strings.HasSuffix(c19Cond(fset, rs.X), what) {
			continue
		}
		if pred == nil || pred(rs) {
			return i
		}
	}
	return -1
}

func c19Contains(fset *token.FileSet, n ast.Node, sub string) bool {
	return strings.Contains(c19Cond(fset, n), sub)
}

// c19ReturnsNonNilErr: does the block end in a return whose LAST result is not the identifier nil?
func c19ReturnsNonNilErr(b *ast.BlockStmt) bool {
	if b == nil || len(b.List) == 0 {
		return false
	}
	r, ok := b.List[len(b.List)-1].(*ast.ReturnStmt)
	if !ok || len(r.Results) == 0 {
		return false
	}
	id, isId := r.Results[len(r.Results)-1].(*ast.Ident)
	return !(isId && id.Name == "nil")
}

// c19ExecShape (Batch.Exec / batch2.Receive): after the guards (1) every node batch is started (`go …` per batch) -
// Exec only -, (2) a loop over the node batches RECEIVES from each `.done` (Exec returns only when every node batch has
// ended), and only then (3) a loop over the index returns a node batch's error (first in Put order) and collects the
// reply, (4) CheckRepliesError of the collected replies is returned when not nil, before (5) the final `return replies, nil`.
func c19ExecShape(fset *token.FileSet, fn *ast.FuncDecl, starts bool) (waitsAll, reportsBatchErr, checksReplies bool) {
	l := fn.Body.List
	from := 0
	if starts {
		from = c19RangeOver(fset, l, 0, "batches", func(rs *ast.RangeStmt) bool {
			for _, st := range rs.Body.List {
				if _, ok := st.(*ast.GoStmt); ok {
					return true
				}
			}
			return false
		})
		if from < 0 {
			return
		}
	}
	wait := c19RangeOver(fset, l, from, "batches", func(rs *ast.RangeStmt) bool {
		return c19Contains(fset, rs.Body, "<-") && c19Contains(fset, rs.Body, ".done") && !c19Contains(fset, rs.Body, "return")
	})
	if wait < 0 {
		return
	}
	idx := c19RangeOver(fset, l, wait+1, "index", nil)
	// nothing between the start loop and the end may return before the wait loop
	for i := from; i < wait; i++ {
		if c19Contains(fset, l[i], "return") {
			return
		}
	}
	waitsAll = idx > wait
	if idx < 0 {
		return
	}
	for _, st := range l[idx].(*ast.RangeStmt).Body.List {
		if is, ok := st.(*ast.IfStmt); ok && c19Contains(fset, is.Cond, "!=nil") && c19ReturnsNonNilErr(is.Body) &&
			(c19Contains(fset, is.Cond, ".err") || (is.Init != nil && c19Contains(fset, is.Init, ".err"))) {
			reportsBatchErr = true // also `if e := bat.batches[i].err; e != nil { return nil, e }`
		}
	}
	for i := idx + 1; i < len(l); i++ {
		if is, ok := l[i].(*ast.IfStmt); ok && is.Init != nil && c19Contains(fset, is.Init, "CheckRepliesError(") && c19ReturnsNonNilErr(is.Body) {
			checksReplies = true
		}
	}
	return
}

// c19DispatchShape (batch2.Dispatch): the node batches are submitted in order by ONE loop over bat.batches in which the
// request is recorded on the node batch before Submit and a failing Submit returns its error at once (what was
// submitted is a prefix: ClusterSender.dispatch), and the function ends in `return nil`.
func c19DispatchShape(fset *token.FileSet, fn *ast.FuncDecl) bool {
	l := fn.Body.List
	i := c19RangeOver(fset, l, 0, "batches", func(rs *ast.RangeStmt) bool { return c19Contains(fset, rs.Body, "Submit(") })
	if i < 0 {
		return false
	}
	ok := false
	for _, st := range l[i].(*ast.RangeStmt).Body.List {
		if is, isIf := st.(*ast.IfStmt); isIf && (c19Contains(fset, is, "Submit(")) && c19ReturnsNonNilErr(is.Body) {
			ok = true
		}
	}
	return ok && c19RangeOver(fset, l, i+1, "batches", func(rs *ast.RangeStmt) bool { return c19Contains(fset, rs.Body, "Submit(") }) < 0
}

// c19OnceChecksPutErr (closure sendFuncOnce): the error of a refused Put is kept in a variable X (`if err :=
// batcher.Put(…); … { X = err }` inside the loop over the queue) and the empty-batcher shortcut `if batcher.Len() == 0 {…}`
// returns a non-nil error when X != nil BEFORE it can return nil.
func c19OnceChecksPutErr(fset *token.FileSet, once ast.Node) bool {
	x := ""
	ast.Inspect(once, func(n ast.Node) bool {
		is, ok := n.(*ast.IfStmt)
		if !ok || is.Init == nil || !c19Contains(fset, is.Init, ".Put(") {
			return true
		}
		as, ok := is.Init.(*ast.AssignStmt)
		if !ok || len(as.Lhs) != 1 {
			return true
		}
		errName := c19Cond(fset, as.Lhs[0])
		for _, st := range is.Body.List {
			if a2, ok := st.(*ast.AssignStmt); ok && len(a2.Lhs) == 1 && len(a2.Rhs) == 1 && c19Cond(fset, a2.Rhs[0]) == errName && x == "" {
				x = c19Cond(fset, a2.Lhs[0])
			}
		}
		return true
	})
	if x == "" {
		return false
	}
	sc := c19IfMentioning(fset, once, "Len()", "== 0")
	if sc == nil {
		return false
	}
	for _, st := range sc.(*ast.IfStmt).Body.List {
		if is, ok := st.(*ast.IfStmt); ok && c19Contains(fset, is.Cond, x+"!=nil") && c19ReturnsNonNilErr(is.Body) {
			return true
		}
		if _, ok := st.(*ast.ReturnStmt); ok {
			return false
		}
	}
	return false
}

func c19Bool(b bool) string {
	if b {
		return "true"
	}
	return "false"
}

func c19Closure(fn *ast.FuncDecl, name string) ast.Node {
	var found ast.Node
	ast.Inspect(fn, func(n ast.Node) bool {
		as, ok := n.(*ast.AssignStmt)
		if !ok || len(as.Lhs) != 1 || len(as.Rhs) != 1 {
			return true
		}
		if id, ok := as.Lhs[0].(*ast.Ident); ok && id.Name == name {
			if fl, ok := as.Rhs[0].(*ast.FuncLit); ok && found == nil {
				found = fl.Body
			}
		}
		return true
	})
	return found
}

// c19IfMentioning: the first if statement under n whose condition mentions every word
func c19IfMentioning(fset *token.FileSet, n ast.Node, words ...string) ast.Node {
	var found ast.Node
	ast.Inspect(n, func(x ast.Node) bool {
		is, ok := x.(*ast.IfStmt)
		if !ok || found != nil {
			return found == nil
		}
		c := c17Print(fset, is.Cond)
		for _, w := range words {
			if !strings.Contains(c, w) {
				return true
			}
		}
		found = is
		return false
	})
	return found
}

func c19Method(f *ast.File, recv, name string) *ast.FuncDecl {
	for _, d := range f.Decls {
		fn, ok := d.(*ast.FuncDecl)
		if !ok || fn.Name.Name != name || fn.Recv == nil || len(fn.Recv.List) != 1 {
			continue
		}
		t := fn.Recv.List[0].Type
		if st, ok := t.(*ast.StarExpr); ok {
			t = st.X
		}
		if id, ok := t.(*ast.Ident); ok && id.Name == recv {
			return fn
		}
	}
	return nil
}

func genC19() {
	for _, m := range [][4]string{
		{"pkg/redis/client/cluster/batch.go", "Batch", "doBatch", "c19_doBatch"},
		{"pkg/redis/client/cluster/batch.go", "Batch", "Exec", "c19_execReturn"},
		{"pkg/redis/client/cluster/batch_pipe.go", "batch2", "receiveReply", "c19_receiveReply"},
		{"pkg/redis/client/cluster/batch_pipe.go", "batch2", "Dispatch", "c19_dispatch"},
		{"pkg/redis/client/cluster/node_pipeline.go", "nodePipeline", "Submit", "c19_submit"},
		{"pkg/redis/client/cluster/cluster.go", "Cluster", "handleReply", "c19_handleReply"},
		{"pkg/redis/client/cluster/cluster.go", "Cluster", "do", "c19_clusterDo"},
	} {
		fs, ff := parseFile(m[0])
		fn := c19Method(ff, m[1], m[2])
		if fn == nil {
			die("%s.%s not found in %s", m[1], m[2], m[0])
		}
		facts[m[3]] = c17Print(fs, fn.Body)
	}
	// session 5: the order of the entry guards, regenerated into lean/GunYu/Gen/C19Guards.lean
	{
		var sb strings.Builder
		sb.WriteString("-- GENERATED by /verif/harness/extract from /repo — do not edit.\nnamespace GunYu.Gen.C19Guards\n\n")
		for _, m := range [][4]string{
			{"pkg/redis/client/cluster/batch.go", "Batch", "Exec", "execErrFirst"},
			{"pkg/redis/client/cluster/batch_pipe.go", "batch2", "Dispatch", "dispatchErrFirst"},
			{"pkg/redis/client/cluster/batch_pipe.go", "batch2", "Receive", "receiveErrFirst"},
		} {
			fs, ff := parseFile(m[0])
			fn := c19Method(ff, m[1], m[2])
			if fn == nil {
				die("%s.%s not found in %s", m[1], m[2], m[0])
			}
			v := c19GuardOrder(fs, fn, m[1]+"."+m[2])
			fmt.Fprintf(&sb, "/-- %s (*%s).%s: the guard `bat.err != nil` (a Put was refused) is tested BEFORE the guard\n    `len(bat.batches) == 0` (no node batch) -/\ndef %s : Bool := %s\n\n", m[0], m[1], m[2], m[3], c19Bool(v))
			facts["c19_"+m[3]] = c19Bool(v)
		}
		emit := func(name, doc string, v bool) {
			fmt.Fprintf(&sb, "/-- %s -/\ndef %s : Bool := %s\n\n", doc, name, c19Bool(v))
			facts["c19_"+name] = c19Bool(v)
		}
		{
			fs, ff := parseFile("pkg/redis/client/cluster/batch.go")
			fn := c19Method(ff, "Batch", "Exec")
			w, e, c := c19ExecShape(fs, fn, true)
			emit("execWaitsAll", "Batch.Exec: every node batch is started, then a loop over the node batches receives from each `.done`, and only after it the loop over the index reads results (no return in between)", w)
			emit("execReportsBatchErr", "Batch.Exec: the loop over the index returns a node batch's error (non-nil) - the first in Put order", e)
			emit("execChecksReplies", "Batch.Exec: `if err := common.CheckRepliesError(replies); err != nil { return nil, err }` after the index loop", c)
			fs2, ff2 := parseFile("pkg/redis/client/cluster/batch_pipe.go")
			w2, e2, c2 := c19ExecShape(fs2, c19Method(ff2, "batch2", "Receive"), true)
			emit("receiveWaitsAll", "batch2.Receive: the same shape (a goroutine per node batch, wait for every `.done`, then the index loop)", w2)
			emit("receiveReportsBatchErr", "batch2.Receive: the index loop returns a node batch's error", e2)
			emit("receiveChecksReplies", "batch2.Receive: CheckRepliesError of the collected replies is returned", c2)
			emit("dispatchStopsAtFirstSubmitError", "batch2.Dispatch: ONE loop over bat.batches submits the node batches in order; a failing Submit returns its error at once (a prefix was submitted)", c19DispatchShape(fs2, c19Method(ff2, "batch2", "Dispatch")))
			fs3, ff3 := parseFile("syncer/output.go")
			chk := false
			for _, d := range ff3.Decls {
				if fd, ok := d.(*ast.FuncDecl); ok && fd.Name.Name == "sendCmdsBatch" {
					if once := c19Closure(fd, "sendFuncOnce"); once != nil {
						chk = c19OnceChecksPutErr(fs3, once)
					}
				}
			}
			emit("onceChecksPutErr", "syncer/output.go sendFuncOnce: the error of a refused Put is remembered and the empty-batcher shortcut `if batcher.Len() == 0` returns it (non-nil) before it can return nil", chk)
		}
		// dimension audit: PROCESS-GLOBAL / CLIENT-GLOBAL mutable state the cluster batchers reach: package-level variables of the
		// cluster client (name, and whether any function assigns it after init) and the fields of *Cluster that Put writes
		{
			var vars []string
			for _, fn := range []string{"batch.go", "batch_pipe.go", "cluster.go", "conn.go", "multi.go", "node.go", "node_pipeline.go", "txn_batcher.go"} {
				fs, ff := parseFile("pkg/redis/client/cluster/" + fn)
				_ = fs
				names := map[string]bool{}
				for _, d := range ff.Decls {
					if gd, ok := d.(*ast.GenDecl); ok && gd.Tok == token.VAR {
						for _, sp := range gd.Specs {
							for _, n := range sp.(*ast.ValueSpec).Names {
								names[n.Name] = true
							}
						}
					}
				}
				written := map[string]bool{}
				ast.Inspect(ff, func(n ast.Node) bool {
					if as, ok := n.(*ast.AssignStmt); ok {
						for _, l := range as.Lhs {
							if id, ok := l.(*ast.Ident); ok && names[id.Name] && id.Obj != nil && id.Obj.Kind == ast.Var {
								if _, top := id.Obj.Decl.(*ast.ValueSpec); top {
									written[id.Name] = true
								}
							}
						}
					}
					return true
				})
				for n := range names {
					w := "read-only"
					if written[n] {
						w = "WRITTEN"
					}
					vars = append(vars, fn+":"+n+":"+w)
				}
			}
			sort.Strings(vars)
			facts["c19_packageVars"] = strings.Join(vars, " ")
			// fields of *Cluster assigned inside chooseNodeWithCmdAndKeys (called by every Put of every batcher of the client)
			fs, ff := parseFile("pkg/redis/client/cluster/cluster.go")
			var fields []string
			if fn := c19Method(ff, "Cluster", "chooseNodeWithCmdAndKeys"); fn != nil {
				seen := map[string]bool{}
				ast.Inspect(fn, func(n ast.Node) bool {
					if as, ok := n.(*ast.AssignStmt); ok {
						for _, l := range as.Lhs {
							if t := c19Cond(fs, l); strings.HasPrefix(t, "cluster.") && !seen[t] {
								seen[t] = true
								fields = append(fields, t)
							}
						}
					}
					return true
				})
			}
			sort.Strings(fields)
			facts["c19_putWritesClientState"] = strings.Join(fields, " ")
		}
		sb.WriteString("end GunYu.Gen.C19Guards\n")
		writeIfChanged(filepath.Join(*out, "C19Guards.lean"), sb.String())
	}
	fset, f := parseFile("syncer/output.go")
	for _, d := range f.Decls {
		fn, ok := d.(*ast.FuncDecl)
		if !ok {
			continue
		}
		switch fn.Name.Name {
		case "sendCmdsBatch":
			for _, name := range []string{"sendFunc", "handleError"} {
				b := c19Closure(fn, name)
				if b == nil {
					die("closure %s not found in sendCmdsBatch", name)
				}
				facts["c19_"+name] = c17Print(fset, b)
			}
			once := c19Closure(fn, "sendFuncOnce")
			if once == nil {
				die("closure sendFuncOnce not found in sendCmdsBatch")
			}
			sp := c19IfMentioning(fset, once, "EnableResumeFromBreakPoint", "IsCluster", "shouldUpdateCP")
			if sp == nil {
				die("the position split of sendFuncOnce not found")
			}
			facts["c19_positionSplit"] = c17Print(fset, sp)
			// session 5 (510c7bb): the empty-batcher shortcut of sendFuncOnce reports a recorded Put error
			// (ClusterFlush.once, chk = true)
			ef := c19IfMentioning(fset, once, "batcher.Len()", "== 0")
			if ef == nil {
				die("the empty-batcher shortcut of sendFuncOnce not found")
			}
			facts["c19_emptyFlush"] = c17Print(fset, ef)
		case "NewRedisOutput":
			fb := c19IfMentioning(fset, fn, "CanTransaction", "IsCluster")
			if fb == nil {
				die("the transactional cluster configuration of NewRedisOutput not found")
			}
			facts["c19_txnPipeFallback"] = c17Print(fset, fb)
		case "handleDirectError":
			facts["c19_handleDirectError"] = c17Print(fset, fn.Body)
		}
	}
	for _, k := range []string{"c19_sendFunc", "c19_handleError", "c19_handleDirectError", "c19_positionSplit", "c19_txnPipeFallback"} {
		if _, ok := facts[k]; !ok {
			die("%s not found", k)
		}
	}
}
