package main

// C19: the sender's retry/escalation decision code that Model/ClusterSender.lean
// transcribes by hand is pinned as source facts, so that an edit of it fails
// the tie until the Lean transcription (and the expected fact) is revisited:
//   c19_sendFunc            the closure `sendFunc` inside syncer/output.go sendCmdsBatch
//   c19_handleError         the closure `handleError` there (pipelined receiver)
//   c19_handleDirectError   func handleDirectError
// Session 4 - what Model/ClusterExec.lean and ClusterSender.put/dispatch transcribe:
//   c19_positionSplit       the statement of `sendFuncOnce` that sends the data batch on its own and starts a new
//                           batch for the position (blocking cluster output, resumable): ClusterExec `split`
//   c19_txnPipeFallback     the statement of NewRedisOutput that configures transactional cluster outputs
//                           (redirect following off; pipeline mode off when resuming from the target)
//   c19_doBatch             Batch.doBatch (batch.go): write all, flush, read the replies in order, stop at the
//                           first error: ClusterExec clientOk / chaseExec / fail (ReadBefore)
//   c19_receiveReply        batch2.receiveReply (batch_pipe.go): the same loop on the pipelined path
//   c19_execReturn          Batch.Exec: waits for every node batch, first error wins: ClusterExec ack
//   c19_dispatch            batch2.Dispatch: ClusterSender.dispatch
//   c19_submit              nodePipeline.Submit: queued or refused, never both
//   c19_handleReply         Cluster.handleReply: which failures of a followed redirect are redirect-class errors
//   c19_clusterDo           Cluster.do: a failed write/read on an established connection is marked "sent, no reply"
//                           (ClusterExec `fail redirect` = refused and not delivered elsewhere, d698491)

import (
	"go/ast"
	"go/token"
	"strings"
)

func c19Closure(fn *ast.FuncDecl, name string) ast.Node {
	var found ast.Node
	ast.Inspect(fn, func(n ast.Node) bool {
		as, ok := n.(*ast.AssignStmt)
		if !ok || len(as.Lhs) != 1 || len(as.Rhs) != 1 {
			return true
		}
		if id, ok := as.Lhs[0].(*ast.Ident); ok && id.Name == name {
			if fl, ok := as.Rhs[0].(*ast.FuncLit); ok && found == nil {
				found = fl.Body
			}
		}
		return true
	})
	return found
}

// c19IfMentioning: the first if statement under n whose condition mentions every word
func c19IfMentioning(fset *token.FileSet, n ast.Node, words ...string) ast.Node {
	var found ast.Node
	ast.Inspect(n, func(x ast.Node) bool {
		is, ok := x.(*ast.IfStmt)
		if !ok || found != nil {
			return found == nil
		}
		c := c17Print(fset, is.Cond)
		for _, w := range words {
			if !strings.Contains(c, w) {
				return true
			}
		}
		found = is
		return false
	})
	return found
}

func c19Method(f *ast.File, recv, name string) *ast.FuncDecl {
	for _, d := range f.Decls {
		fn, ok := d.(*ast.FuncDecl)
		if !ok || fn.Name.Name != name || fn.Recv == nil || len(fn.Recv.List) != 1 {
			continue
		}
		t := fn.Recv.List[0].Type
		if st, ok := t.(*ast.StarExpr); ok {
			t = st.X
		}
		if id, ok := t.(*ast.Ident); ok && id.Name == recv {
			return fn
		}
	}
	return nil
}

func genC19() {
	for _, m := range [][4]string{
		{"pkg/redis/client/cluster/batch.go", "Batch", "doBatch", "c19_doBatch"},
		{"pkg/redis/client/cluster/batch.go", "Batch", "Exec", "c19_execReturn"},
		{"pkg/redis/client/cluster/batch_pipe.go", "batch2", "receiveReply", "c19_receiveReply"},
		{"pkg/redis/client/cluster/batch_pipe.go", "batch2", "Dispatch", "c19_dispatch"},
		{"pkg/redis/client/cluster/node_pipeline.go", "nodePipeline", "Submit", "c19_submit"},
		{"pkg/redis/client/cluster/cluster.go", "Cluster", "handleReply", "c19_handleReply"},
		{"pkg/redis/client/cluster/cluster.go", "Cluster", "do", "c19_clusterDo"},
	} {
		fs, ff := parseFile(m[0])
		fn := c19Method(ff, m[1], m[2])
		if fn == nil {
			die("%s.%s not found in %s", m[1], m[2], m[0])
		}
		facts[m[3]] = c17Print(fs, fn.Body)
	}
	fset, f := parseFile("syncer/output.go")
	for _, d := range f.Decls {
		fn, ok := d.(*ast.FuncDecl)
		if !ok {
			continue
		}
		switch fn.Name.Name {
		case "sendCmdsBatch":
			for _, name := range []string{"sendFunc", "handleError"} {
				b := c19Closure(fn, name)
				if b == nil {
					die("closure %s not found in sendCmdsBatch", name)
				}
				facts["c19_"+name] = c17Print(fset, b)
			}
			once := c19Closure(fn, "sendFuncOnce")
			if once == nil {
				die("closure sendFuncOnce not found in sendCmdsBatch")
			}
			sp := c19IfMentioning(fset, once, "EnableResumeFromBreakPoint", "IsCluster", "shouldUpdateCP")
			if sp == nil {
				die("the position split of sendFuncOnce not found")
			}
			facts["c19_positionSplit"] = c17Print(fset, sp)
		case "NewRedisOutput":
			fb := c19IfMentioning(fset, fn, "CanTransaction", "IsCluster")
			if fb == nil {
				die("the transactional cluster configuration of NewRedisOutput not found")
			}
			facts["c19_txnPipeFallback"] = c17Print(fset, fb)
		case "handleDirectError":
			facts["c19_handleDirectError"] = c17Print(fset, fn.Body)
		}
	}
	for _, k := range []string{"c19_sendFunc", "c19_handleError", "c19_handleDirectError", "c19_positionSplit", "c19_txnPipeFallback"} {
		if _, ok := facts[k]; !ok {
			die("%s not found", k)
		}
	}
}
