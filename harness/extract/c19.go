package main

// C19: the sender's retry/escalation decision code that Model/ClusterSender.lean
// transcribes by hand is pinned as source facts, so that an edit of it fails
// the tie until the Lean transcription (and the expected fact) is revisited:
//   c19_sendFunc            the closure `sendFunc` inside syncer/output.go sendCmdsBatch
//   c19_handleError         the closure `handleError` there (pipelined receiver)
//   c19_handleDirectError   func handleDirectError

import (
	"go/ast"
)

func c19Closure(fn *ast.FuncDecl, name string) ast.Node {
	var found ast.Node
	ast.Inspect(fn, func(n ast.Node) bool {
		as, ok := n.(*ast.AssignStmt)
		if !ok || len(as.Lhs) != 1 || len(as.Rhs) != 1 {
			return true
		}
		if id, ok := as.Lhs[0].(*ast.Ident); ok && id.Name == name {
			if fl, ok := as.Rhs[0].(*ast.FuncLit); ok && found == nil {
				found = fl.Body
			}
		}
		return true
	})
	return found
}

func genC19() {
	fset, f := parseFile("syncer/output.go")
	for _, d := range f.Decls {
		fn, ok := d.(*ast.FuncDecl)
		if !ok {
			continue
		}
		switch fn.Name.Name {
		case "sendCmdsBatch":
			for _, name := range []string{"sendFunc", "handleError"} {
				b := c19Closure(fn, name)
				if b == nil {
					die("closure %s not found in sendCmdsBatch", name)
				}
				facts["c19_"+name] = c17Print(fset, b)
			}
		case "handleDirectError":
			facts["c19_handleDirectError"] = c17Print(fset, fn.Body)
		}
	}
	for _, k := range []string{"c19_sendFunc", "c19_handleError", "c19_handleDirectError"} {
		if _, ok := facts[k]; !ok {
			die("%s not found", k)
		}
	}
}
