package main

// C07, all writers of the resume position (lean/GunYu/Model/PositionWriters.lean): digests of the
// functions the model transcribes by hand and of the control flow its history grammar takes as a
// premise (a snapshot offset is stored only after ResetStartPoint completed in the same process;
// SetRunId completes before Send; syncMeta: ResetStartPoint before SetRunId, the reader is opened at
// the offset the output reported: run / fetchInput / readChannel). Log and metric statements are dropped (c01Digest).

func genC07() {
	before, _ := facts["sender_src"].(map[string]string)
	saved := map[string]string{}
	for k, v := range before {
		saved[k] = v
	}
	facts["sender_src"] = map[string]string{}
	c01Digest("syncer/output.go", "setCheckpoint", "SetRunId", "ResetStartPoint")
	c01Digest("pkg/redis/checkpoint/checkpoint.go", "SetCheckpoint", "UpdateCheckpoint", "DelCheckpoint", "DelCheckpoints", "GetCheckpointHash")
	c01Digest("syncer/input.go", "sendOutput", "syncMeta", "fetchInput", "run", "readChannel")
	c01Digest("syncer/syncer.go", "updateCheckpoint")
	facts["position_writers_src"] = facts["sender_src"]
	facts["sender_src"] = saved
}
