package main

// gofn, session 5 extensions (one file; hooked from gofn_expr.go / gofn_stmt.go / gofn.go at single lines):
//
//   * integer conversions with their exact Go meaning: narrowing keeps the low bits, uint64 -> int64 is the
//     two's-complement reinterpretation, int -> uintN is reduction modulo 2^N (GoSemS5.lean)
//   * `panic(v)`: the statement ends the function with `none` (its argument is evaluated first: an argument
//     that panics is a panic as well, so nothing is lost); statements after it in the same list are dead code
//   * standard-library members with a Lean reading in lean/GunYu/Basic/GoSemS5.lean (each with the Go
//     semantics it reads in its comment): strconv.FormatInt(x, 10) / strconv.Itoa, strconv.ParseInt(s, 10, 64)
//     / strconv.Atoi, strings|bytes.HasPrefix / HasSuffix / TrimPrefix / TrimSuffix, bytes.Equal,
//     strings|bytes.IndexByte, binary.LittleEndian|BigEndian.Uint16/32/64
//   * the package `math` is type-checked for real (from GOROOT's source), so that math.MaxUint64 and friends
//     are ordinary typed constants folded by go/types
//   * a LOCAL pointer to a fresh struct: `p := &T{…}` / `p := new(T)` followed by `p.f = v`, `p.f` reads and
//     `return p` - value semantics are sound because the translator checks that p never occurs in any other
//     position (no copy, no call argument, no comparison, no re-assignment): p is the only holder of the pointer
//
// Everything else keeps dying in the old places.

import (
	"fmt"
	"go/ast"
	"go/constant"
	"go/importer"
	"go/token"
	"go/types"
	"strings"
)

const gfS5Module = "GunYu.Basic.GoSemS5"

// ---------------------------------------------------------------- real standard-library packages

// only packages whose CONSTANTS are needed: their members become ordinary typed objects
var gfStdReal = map[string]bool{"math": true}

var gfStdImp types.Importer

func gfStdImport(path string) (*types.Package, error) {
	if gfStdImp == nil {
		gfStdImp = importer.ForCompiler(token.NewFileSet(), "source", nil)
	}
	return gfStdImp.Import(path)
}

// ---------------------------------------------------------------- conversions

// convS5: conversions between the integer kinds that gofn_expr.go's older list does not cover.
// Go spec "Conversions between numeric types": converting between integer types sign-extends a signed
// source / zero-extends an unsigned one to infinite precision and then truncates to the target's width.
func (f *gfFn) convS5(from, to *gfT, a string) (string, bool) {
	use := func(s string) (string, bool) { f.t.needImport[gfS5Module] = true; return s, true }
	switch {
	case from.k == kBV && to.k == kU8: // byte(u): low 8 bits
		return use("(GoSem.bvToU8 " + a + ")")
	case from.k == kBV && to.k == kBV && from.bits > to.bits: // uint32(u64): low bits
		return fmt.Sprintf("((%s).setWidth %d)", a, to.bits), true
	case from.k == kBV && from.bits == 64 && to.k == kInt: // int64(u64) / int(u64): two's complement
		return use("(GoSem.bv64ToI " + a + ")")
	case from.k == kInt && to.k == kBV: // uintN(i): i mod 2^N
		return fmt.Sprintf("(BitVec.ofInt %d %s)", to.bits, a), true
	case from.k == kInt && to.k == kU8: // byte(i): i mod 256
		return use("(GoSem.iToU8 " + a + ")")
	}
	return "", false
}

// ---------------------------------------------------------------- standard-library calls

type gfStd struct {
	lean   string // prelude function
	args   []gfKind
	res    []*gfT // one result: expression position; two results: `a, err := …` (second = error)
	opt    bool   // the prelude function returns Option (Go panics): bound with ←
	base10 int    // index of an argument that must be the constant 10 (-1: none); dropped from the Lean call
	bits64 int    // index of an argument that must be the constant 64 (-1: none); dropped
	neCon  int    // 1 + index of an argument that must be a NON-EMPTY string constant (0: none); kept
}

func gfBytesT() *gfT { return &gfT{k: kBytes} }
func gfIntT() *gfT   { return &gfT{k: kInt} }
func gfBoolT() *gfT  { return &gfT{k: kBool} }

var gfStdCalls = map[string]*gfStd{
	"strconv.FormatInt": {lean: "GoSem.formatInt", args: []gfKind{kInt, kInt}, res: []*gfT{gfBytesT()}, base10: 1, bits64: -1},
	"strconv.Itoa":      {lean: "GoSem.formatInt", args: []gfKind{kInt}, res: []*gfT{gfBytesT()}, base10: -1, bits64: -1},
	"strconv.ParseInt":  {lean: "GoSem.parseInt", args: []gfKind{kBytes, kInt, kInt}, res: []*gfT{gfIntT(), {k: kErr}}, base10: 1, bits64: 2},
	"strconv.Atoi":      {lean: "GoSem.parseInt", args: []gfKind{kBytes}, res: []*gfT{gfIntT(), {k: kErr}}, base10: -1, bits64: -1},
	// strings.HasPrefix: gofn_c13.go's registry (GoSem.hasPrefix of Basic/GoSemStrings.lean, the same definition)
	"strings.HasSuffix": {lean: "GoSem.hasSuffix", args: []gfKind{kBytes, kBytes}, res: []*gfT{gfBoolT()}, base10: -1, bits64: -1},
	"strings.TrimPrefix": {lean: "GoSem.trimPrefix", args: []gfKind{kBytes, kBytes}, res: []*gfT{gfBytesT()}, base10: -1, bits64: -1},
	"strings.TrimSuffix": {lean: "GoSem.trimSuffix", args: []gfKind{kBytes, kBytes}, res: []*gfT{gfBytesT()}, base10: -1, bits64: -1},
	"strings.IndexByte":  {lean: "GoSem.indexByte", args: []gfKind{kBytes, kU8}, res: []*gfT{gfIntT()}, base10: -1, bits64: -1},
	// Split with an empty separator explodes into UTF-8 sequences: only a non-empty constant separator is in the subset
	"strings.Split": {lean: "GoSem.split", args: []gfKind{kBytes, kBytes}, res: []*gfT{{k: kSlice, elem: gfBytesT()}}, base10: -1, bits64: -1, neCon: 2},
	"bytes.HasPrefix":    {lean: "GoSem.hasPrefixB", args: []gfKind{kBytes, kBytes}, res: []*gfT{gfBoolT()}, base10: -1, bits64: -1},
	"bytes.HasSuffix":    {lean: "GoSem.hasSuffix", args: []gfKind{kBytes, kBytes}, res: []*gfT{gfBoolT()}, base10: -1, bits64: -1},
	"bytes.Equal":        {lean: "GoSem.bytesEqual", args: []gfKind{kBytes, kBytes}, res: []*gfT{gfBoolT()}, base10: -1, bits64: -1},
	"bytes.IndexByte":    {lean: "GoSem.indexByte", args: []gfKind{kBytes, kU8}, res: []*gfT{gfIntT()}, base10: -1, bits64: -1},
}

// binary.LittleEndian.Uint32(b) etc.: panics (index out of range) when b is shorter than the width
var gfBinCalls = map[string]struct {
	lean string
	bits int
}{
	"LittleEndian.Uint16": {"GoSem.leU16", 16}, "LittleEndian.Uint32": {"GoSem.leU32", 32}, "LittleEndian.Uint64": {"GoSem.leU64", 64},
	"BigEndian.Uint16": {"GoSem.beU16", 16}, "BigEndian.Uint32": {"GoSem.beU32", 32}, "BigEndian.Uint64": {"GoSem.beU64", 64},
}

func (f *gfFn) pkgOf(id *ast.Ident) string {
	if pn, ok := f.pk.info.Uses[id].(*types.PkgName); ok {
		return pn.Imported().Path()
	}
	return ""
}

// stdCallOf: the prelude reading of `pkg.Name(…)`, nil if there is none
func (f *gfFn) stdCallOf(c *ast.CallExpr) *gfStd {
	sel, ok := c.Fun.(*ast.SelectorExpr)
	if !ok {
		return nil
	}
	switch x := sel.X.(type) {
	case *ast.Ident:
		if p := f.pkgOf(x); p != "" {
			return gfStdCalls[p+"."+sel.Sel.Name]
		}
	case *ast.SelectorExpr: // binary.LittleEndian.Uint32
		if id, ok := x.X.(*ast.Ident); ok && f.pkgOf(id) == "encoding/binary" {
			if bc, ok := gfBinCalls[x.Sel.Name+"."+sel.Sel.Name]; ok {
				return &gfStd{lean: bc.lean, args: []gfKind{kBytes}, res: []*gfT{{k: kBV, bits: bc.bits}}, opt: true, base10: -1, bits64: -1}
			}
		}
	}
	return nil
}

// typeS5: type of a call the Go type checker could not type (its package is a stand-in)
func (f *gfFn) typeS5(c *ast.CallExpr) *gfT {
	if s := f.stdCallOf(c); s != nil && len(s.res) == 1 {
		return s.res[0]
	}
	return nil
}

func (f *gfFn) stdArgs(b *gfBuf, c *ast.CallExpr, s *gfStd) string {
	if len(c.Args) != len(s.args) || c.Ellipsis.IsValid() {
		die("%s: arity of `%s`", f.at(c), c15Print(f.pk.fset, c.Fun))
	}
	var args []string
	for i, a := range c.Args {
		if i == s.base10 || i == s.bits64 {
			want := int64(10)
			if i == s.bits64 {
				want = 64
			}
			v := f.constOf(a)
			if v == nil || v.Kind() != constant.Int {
				die("%s: argument %d of `%s` must be the constant %d", f.at(c), i+1, c15Print(f.pk.fset, c.Fun), want)
			}
			if n, ok := constant.Int64Val(v); !ok || n != want {
				die("%s: argument %d of `%s` must be the constant %d (other bases / sizes are outside the subset)", f.at(c), i+1, c15Print(f.pk.fset, c.Fun), want)
			}
			continue
		}
		if s.neCon == i+1 {
			v := f.constOf(a)
			if v == nil || v.Kind() != constant.String || constant.StringVal(v) == "" {
				die("%s: argument %d of `%s` must be a non-empty string constant", f.at(c), i+1, c15Print(f.pk.fset, c.Fun))
			}
		}
		// the arguments of a stand-in package's function are not converted by the type checker: an untyped
		// constant is rendered at the parameter's type, anything else must already have it
		if v := f.constOf(a); v != nil {
			args = append(args, gfConst(v, &gfT{k: s.args[i]}, f.at(a)))
			continue
		}
		if t := f.typeOf(a); t.k != s.args[i] {
			die("%s: argument %d of `%s` has type %s", f.at(c), i+1, c15Print(f.pk.fset, c.Fun), t.lean())
		}
		args = append(args, f.expr(b, a))
	}
	f.t.needImport[gfS5Module] = true
	return s.lean + " " + strings.Join(args, " ")
}

// callS5: a standard-library call in expression position
func (f *gfFn) callS5(b *gfBuf, c *ast.CallExpr) (string, bool) {
	s := f.stdCallOf(c)
	if s == nil {
		return "", false
	}
	if len(s.res) != 1 {
		die("%s: `%s` has %d results: only `v, err := …` is in the subset", f.at(c), c15Print(f.pk.fset, c.Fun), len(s.res))
	}
	call := f.stdArgs(b, c, s)
	if s.opt {
		tm := f.tmp()
		b.add("let %s ← %s", tm, call)
		return tm, true
	}
	return "(" + call + ")", true
}

// commaOkS5: `v, err := strconv.ParseInt(s, 10, 64)`: the prelude returns Option Int (none = error);
// Go returns (0, err) for a syntax error and (±max, err) for a range error - the VALUE beside a non-nil
// error is therefore not modelled: the translator requires that v is not read on a path where err != nil
// by the simplest sufficient rule: the statement must be followed directly by `if err != nil { …terminating… }`
// (checked by the caller through gfErrGuardFollows).
func (f *gfFn) commaOkS5(b *gfBuf, x *ast.AssignStmt, c *ast.CallExpr) bool {
	s := f.stdCallOf(c)
	if s == nil || len(s.res) != 2 {
		return false
	}
	if !f.errGuardFollows(x) {
		die("%s: `%s` returns a value the prelude does not model beside a non-nil error: the statement must be followed directly by `if <err> != nil { … return/continue/break/panic }` - outside the subset", f.at(x), c15Print(f.pk.fset, c.Fun))
	}
	// types of freshly declared variables (the checker saw a stand-in package)
	for i, l := range x.Lhs {
		if id, ok := l.(*ast.Ident); ok && id.Name != "_" {
			if o := f.pk.info.Defs[id]; o != nil && (o.Type() == nil || o.Type() == types.Typ[types.Invalid]) {
				f.override[o] = s.res[i]
			}
		}
	}
	call := f.stdArgs(b, c, s)
	tm := f.tmp()
	b.add("let %s := %s", tm, call)
	f.assign(b, x.Lhs[0], fmt.Sprintf("%s.getD %s", tm, s.res[0].zero()), s.res[0])
	f.assign(b, x.Lhs[1], tm+".isNone", s.res[1])
	return true
}

// errGuardFollows: the statement after x (in its block) is `if e != nil {body}` with e the second
// left-hand side of x and a body that always leaves; or x is the init statement of such an if
func (f *gfFn) errGuardFollows(x *ast.AssignStmt) bool {
	eid, ok := x.Lhs[1].(*ast.Ident)
	if !ok || eid.Name == "_" {
		return false
	}
	eo := f.objOf(eid)
	// the value variable must be declared BY this statement (or be `_`): then it is out of scope wherever the
	// guard's return / continue / break / panic lands, and nothing can read the unmodelled value later
	if vid, ok := x.Lhs[0].(*ast.Ident); !ok || x.Tok != token.DEFINE || (vid.Name != "_" && f.pk.info.Defs[vid] == nil) {
		return false
	}
	isGuard := func(s ast.Stmt) bool {
		is, ok := s.(*ast.IfStmt)
		if !ok || (is.Init != nil && is.Init != ast.Stmt(x)) {
			return false
		}
		be, ok := is.Cond.(*ast.BinaryExpr)
		if !ok || be.Op != token.NEQ {
			return false
		}
		l, lok := be.X.(*ast.Ident)
		r, rok := be.Y.(*ast.Ident)
		if !lok || !rok || f.objOf(l) != eo {
			return false
		}
		if _, isNil := f.objOf(r).(*types.Nil); !isNil {
			return false
		}
		return gfTerminates(is.Body.List)
	}
	par := f.pk.parents()
	switch p := par[x].(type) {
	case *ast.IfStmt:
		// `if v, err := f(); err != nil {A} else {B}`: v is visible in A as well: A must not read v
		if p.Init == ast.Stmt(x) && isGuard(p) {
			if vid, ok := x.Lhs[0].(*ast.Ident); ok && vid.Name != "_" {
				if f.usedLocals(p.Body)[f.objOf(vid)] {
					return false
				}
			}
			return true
		}
	case *ast.BlockStmt:
		for i, s := range p.List {
			if s == ast.Stmt(x) && i+1 < len(p.List) && isGuard(p.List[i+1]) {
				if vid, ok := x.Lhs[0].(*ast.Ident); ok && vid.Name != "_" {
					if f.usedLocals(p.List[i+1].(*ast.IfStmt).Body)[f.objOf(vid)] {
						return false
					}
				}
				return true
			}
		}
	case *ast.CaseClause:
		for i, s := range p.Body {
			if s == ast.Stmt(x) && i+1 < len(p.Body) && isGuard(p.Body[i+1]) {
				if vid, ok := x.Lhs[0].(*ast.Ident); ok && vid.Name != "_" {
					if f.usedLocals(p.Body[i+1].(*ast.IfStmt).Body)[f.objOf(vid)] {
						return false
					}
				}
				return true
			}
		}
	}
	return false
}

// ---------------------------------------------------------------- panic

func (f *gfFn) isPanicStmt(s ast.Stmt) bool {
	es, ok := s.(*ast.ExprStmt)
	if !ok {
		return false
	}
	c, ok := es.X.(*ast.CallExpr)
	return ok && f.builtin(c, "panic")
}

// gfIsPanic is the syntactic form used by gfTerminates (no type information there): a call of the
// identifier `panic`; translate() dies if a function declares or shadows a `panic` of its own
func gfIsPanic(s ast.Stmt) bool {
	es, ok := s.(*ast.ExprStmt)
	if !ok {
		return false
	}
	c, ok := es.X.(*ast.CallExpr)
	if !ok {
		return false
	}
	id, ok := c.Fun.(*ast.Ident)
	return ok && id.Name == "panic"
}

func (f *gfFn) checkPanicNotShadowed() {
	ast.Inspect(f.decl, func(n ast.Node) bool {
		if id, ok := n.(*ast.Ident); ok && id.Name == "panic" {
			if _, isB := f.pk.info.Uses[id].(*types.Builtin); !isB {
				die("%s: an identifier `panic` that is not the builtin", f.at(id))
			}
		}
		return true
	})
}

// ---------------------------------------------------------------- a local pointer to a fresh struct

// ownedPtr: o is a local variable of type *T declared by `o := &T{…}` or `o := new(T)` and every other
// occurrence of o in the function is `o.f` (read or assignment target) or a whole `return o` operand.
// Then no second holder of the pointer exists inside the function, the struct is fresh (no holder
// outside), and `o.f = v` is the value update of the only copy.
func (f *gfFn) ownedPtr(o types.Object) bool {
	if f.owned == nil {
		f.owned = map[types.Object]bool{}
	}
	if r, ok := f.owned[o]; ok {
		return r
	}
	res := func() bool {
		if !f.isLocal(o) {
			return false
		}
		if _, ok := types.Unalias(o.Type()).(*types.Pointer); !ok {
			return false
		}
		par := f.pk.parents()
		declared := false
		okAll := true
		ast.Inspect(f.decl.Body, func(n ast.Node) bool {
			id, ok := n.(*ast.Ident)
			if !ok || f.objOf(id) != o {
				return true
			}
			switch p := par[id].(type) {
			case *ast.AssignStmt:
				// the declaration itself
				if p.Tok == token.DEFINE && len(p.Lhs) == 1 && len(p.Rhs) == 1 && p.Lhs[0] == ast.Expr(id) && f.pk.info.Defs[id] == o {
					switch r := p.Rhs[0].(type) {
					case *ast.UnaryExpr:
						if _, isCL := r.X.(*ast.CompositeLit); isCL && r.Op == token.AND {
							declared = true
							return true
						}
					case *ast.CallExpr:
						if f.builtin(r, "new") {
							declared = true
							return true
						}
					}
				}
				okAll = false
			case *ast.SelectorExpr:
				if p.X != ast.Expr(id) {
					okAll = false
				}
				if sel := f.pk.info.Selections[p]; sel == nil || sel.Kind() != types.FieldVal {
					okAll = false // method call / method value: the receiver escapes
				}
				// &o.f would create a second path to the struct
				if u, ok := par[p].(*ast.UnaryExpr); ok && u.Op == token.AND {
					okAll = false
				}
			case *ast.ReturnStmt:
			default:
				okAll = false
			}
			return true
		})
		return declared && okAll
	}()
	f.owned[o] = res
	return res
}
