package main

// C13 / C18: facts about every place the tool can write to the TARGET on the
// bidirectional path. The Lean inventory (Proofs/BisyncWriters.lean `Writer`)
// lists, per procedure, the requests it issues; these facts pin what the
// inventory was read from:
//
//   c13_target_writes      per procedure: its write calls in source order — `x.Do("<cmd>", …)`,
//                          `x.Put("<cmd>", …)` with a literal write command, and calls of the
//                          other listed procedures / request helpers;
//   c13_txn_batcher_sites  every `.NewTxnBatcher()` call outside the client packages and tests
//                          (the only way the tool produces MULTI … EXEC on the bisync path);
//   c13_multi_put_sites    every Put / Send of a literal MULTI or EXEC (the plain replay path);
//   c13_first_put          the first Put of the two unit-commit functions (the marker SET);
//   c13_cphash_writes      every write of the checkpoint hash with the expression of the name it stores;
//   c13_localcheckpoint    the assignments that decide a syncer's checkpoint name (newOutput);
//   c18_txn_enable_sites   every assignment to Cluster.transactionEnable with its switch case;
//   c18_unit_put_names     the command-name argument of every Put in the two unit-commit functions.

import (
	"fmt"
	"go/ast"
	"go/token"
	"os"
	"path/filepath"
	"sort"
	"strconv"
	"strings"
)

var c13ReadCmds = map[string]bool{"hget": true, "hgetall": true, "hmget": true, "exists": true, "info": true, "ping": true,
	"zrangebyscore": true, "zrange": true, "zcard": true, "get": true, "command": true, "type": true, "select": true, "cluster": true}

// request helpers and procedures whose calls count as writes of the caller
var c13Helpers = map[string]bool{
	"SetCheckpointHash": true, "DelCheckpointHash": true, "SaveBisyncFrontierSnapshot": true, "DeleteBisyncCommitKeys": true,
	"deleteBisyncKeysInChunks": true, "SaveBisyncNamespaceMode": true, "SetCheckpoint": true, "seedBisyncNamespace": true,
	"cleanupBisyncNamespace": true, "ResolveOrCreateBisyncCheckpointName": true, "HSet": true, "HDel": true,
	"purgeBisyncRecoveryState": true, "cleanupRecoveredBisyncCommitRecords": true, "flush": true, "UpdateCheckpoint": true,
	"DelCheckpoint": true, "dispatchBisyncUnit": true, "execBisyncUnit": true, "execBisyncRdbUnit": true,
	"DelStaleCheckpoint": true, "ResetStartPoint": true, "SetRunId": true, "setCheckpoint": true,
}

func c13CallName(ce *ast.CallExpr) string {
	switch f := ce.Fun.(type) {
	case *ast.SelectorExpr:
		return f.Sel.Name
	case *ast.Ident:
		return f.Name
	}
	return ""
}

// c13Writes: the write calls of one function body, in source order
func c13Writes(fset *token.FileSet, body ast.Node) []string {
	type hit struct {
		pos token.Pos
		s   string
	}
	var hits []hit
	ast.Inspect(body, func(n ast.Node) bool {
		ce, ok := n.(*ast.CallExpr)
		if !ok {
			return true
		}
		name := c13CallName(ce)
		switch name {
		case "Do", "Put", "Send", "SendAndFlush":
			if len(ce.Args) == 0 {
				return true
			}
			bl, ok := ce.Args[0].(*ast.BasicLit)
			if !ok || bl.Kind != token.STRING {
				// a command name that is not a literal (the business commands of a unit): kept, it is a write
				hits = append(hits, hit{ce.Pos(), c10Render(fset, ce)})
				return true
			}
			cmd, _ := strconv.Unquote(bl.Value)
			if c13ReadCmds[strings.ToLower(cmd)] {
				return true
			}
			hits = append(hits, hit{ce.Pos(), c10Render(fset, ce)})
		default:
			if c13Helpers[name] {
				hits = append(hits, hit{ce.Pos(), c10Render(fset, ce)})
			}
		}
		return true
	})
	sort.Slice(hits, func(i, j int) bool { return hits[i].pos < hits[j].pos })
	out := make([]string, len(hits))
	for i, h := range hits {
		out[i] = h.s
	}
	return out
}

func c13EnclosingFuncs(f *ast.File) map[ast.Node]string {
	m := map[ast.Node]string{}
	for _, d := range f.Decls {
		if fd, ok := d.(*ast.FuncDecl); ok && fd.Body != nil {
			name := fd.Name.Name
			ast.Inspect(fd.Body, func(n ast.Node) bool {
				if n != nil {
					m[n] = name
				}
				return true
			})
		}
	}
	return m
}

func genC13Writers() {
	// session 5: the six recognition predicates of syncer/bisync.go and the five Is…Key predicates are REGENERATED
	// (gofn_c13.go -> Gen/FnBisyncPreds.lean, Gen/FnBisyncKeyPreds.lean, Props/C13Gen.lean gen_*_eq_model); of the
	// printed bodies C13 used to expect (facts bisync_syncer_predicates / bisync_key_predicates, still emitted by
	// c18.go) only the one function that is not translated stays a fact of C13
	{
		sfset, sf := parseFile("syncer/bisync.go")
		facts["c13_slotmode_body"] = c18BodyFact(sfset, sf, "bisyncSlotMode")
	}
	// session 5 (D40): which key a snapshot unit is written under and what the snapshot loop withholds
	// (Props/C13Snap.lean rdbTargetKey / rdbTargetReserved / rdbKept transcribe exactly this)
	{
		rfset, rf := parseFile("syncer/bisync_rdb.go")
		conds := []string{}
		if fd := c10FindFunc(rf, "rdbReplayBisync"); fd != nil && fd.Body != nil {
			ast.Inspect(fd.Body, func(n ast.Node) bool {
				if is, ok := n.(*ast.IfStmt); ok {
					c := c10Render(rfset, is.Cond)
					if strings.Contains(c, "isBisyncNamespaceKey") {
						conds = append(conds, c)
					}
				}
				return true
			})
		}
		// the plain loop (D41, /repo e867911): the same question is asked of the target key
		pconds := []string{}
		{
			ofset, of := parseFile("syncer/output.go")
			if fd := c10FindFunc(of, "rdbReplay"); fd != nil && fd.Body != nil {
				ast.Inspect(fd.Body, func(n ast.Node) bool {
					if is, ok := n.(*ast.IfStmt); ok {
						c := c10Render(ofset, is.Cond)
						if strings.Contains(c, "bisyncNsFilter") {
							pconds = append(pconds, c)
						}
					}
					return true
				})
			}
		}
		facts["c13_rdb_filter_plain"] = pconds
		// dimension audit (session 5): process-global and long-lived state reached from C13's code - every package-level
		// `var` of the files below and the fields of the output filter (a scratch buffer added to the filter and handed out
		// to the bisync parser was the round-8 seeded mutation): a new one changes this fact
		{
			pv := map[string][]string{}
			for _, rel := range []string{"syncer/bisync.go", "syncer/bisync_rdb.go", "pkg/redis/checkpoint/bisync.go", "pkg/filter/filter.go"} {
				_, pf := parseFile(rel)
				names := []string{}
				for _, d := range pf.Decls {
					gd, ok := d.(*ast.GenDecl)
					if !ok {
						continue
					}
					for _, sp := range gd.Specs {
						switch x := sp.(type) {
						case *ast.ValueSpec:
							if gd.Tok == token.VAR {
								for _, n := range x.Names {
									names = append(names, "var "+n.Name)
								}
							}
						case *ast.TypeSpec:
							if st, ok := x.Type.(*ast.StructType); ok && x.Name.Name == "RedisKeyFilter" {
								for _, fl := range st.Fields.List {
									for _, n := range fl.Names {
										names = append(names, "field RedisKeyFilter."+n.Name)
									}
								}
							}
						}
					}
				}
				sort.Strings(names)
				pv[rel] = names
			}
			facts["c13_package_state"] = pv
		}
		facts["c13_rdb_filter"] = map[string]interface{}{
			"bisyncRdbTargetKey":      c18BodyFact(rfset, rf, "bisyncRdbTargetKey"),
			"bisyncRdbTargetReserved": c18BodyFact(rfset, rf, "bisyncRdbTargetReserved"),
			"rdbReplayBisync_if":      conds,
		}
	}
	// ---- per-procedure write calls
	procs := []struct{ file, fn string }{
		{"syncer/syncer.go", "resolveBisyncCheckpointNameWithClient"},
		{"syncer/syncer.go", "seedBisyncNamespace"},
		{"syncer/syncer.go", "cleanupBisyncNamespace"},
		{"syncer/syncer.go", "deleteBisyncKeysInChunks"},
		{"syncer/bisync.go", "purgeBisyncRecoveryState"},
		{"syncer/bisync.go", "cleanupRecoveredBisyncCommitRecords"},
		{"syncer/bisync.go", "flush"},
		{"syncer/bisync.go", "bisyncStartPoint"},
		{"syncer/output.go", "ResetStartPoint"},
		{"syncer/output.go", "SetRunId"},
		{"syncer/output.go", "setCheckpoint"},
		{"pkg/redis/checkpoint/checkpoint.go", "UpdateCheckpoint"},
		{"pkg/redis/checkpoint/checkpoint.go", "SetCheckpoint"},
		{"pkg/redis/checkpoint/checkpoint.go", "DelCheckpoint"},
		{"pkg/redis/checkpoint/checkpoint.go", "DelStaleCheckpoint"},
		{"syncer/bisync.go", "dispatchBisyncUnit"},
		{"syncer/bisync_rdb.go", "execBisyncRdbUnit"},
		{"pkg/redis/checkpoint/bisync.go", "DeleteBisyncCommitKeys"},
		{"pkg/redis/checkpoint/bisync.go", "SaveBisyncFrontierSnapshot"},
		{"pkg/redis/checkpoint/bisync.go", "SaveBisyncNamespaceMode"},
		{"pkg/redis/checkpoint/checkpoint.go", "SetCheckpointHash"},
		{"pkg/redis/checkpoint/checkpoint.go", "DelCheckpointHash"},
		{"pkg/redis/checkpoint/checkpoint.go", "ResolveOrCreateBisyncCheckpointName"},
	}
	writes := map[string][]string{}
	for _, p := range procs {
		fset, f := parseFile(p.file)
		fd := c10FindFunc(f, p.fn)
		if fd == nil || fd.Body == nil {
			die("%s: %s not found", p.file, p.fn)
		}
		w := c13Writes(fset, fd.Body)
		if w == nil {
			w = []string{}
		}
		writes[p.fn] = w
	}
	facts["c13_target_writes"] = writes

	// ---- EVERY function of the tool (outside the client packages and tests) that writes to a Redis: a literal
	// non-read command through Do / Put / Send, or a call of a function that does (fixed point over function names).
	// Recorded as shapes - `Do("del"×3)`, `DeleteBisyncCommitKeys()` - so that a refactored argument does not change
	// the fact but a NEW writer, a removed write, another command, another arity or another helper does.
	type fn struct {
		key  string
		rel  string
		fset *token.FileSet
		body *ast.BlockStmt
		name string
	}
	var fns []fn
	for _, dir := range []string{"syncer", "pkg/redis/checkpoint", "cmd", "pkg/cluster", "pkg/redis"} {
		ents, err := os.ReadDir(filepath.Join(*repo, dir))
		if err != nil {
			continue
		}
		for _, e := range ents {
			if e.IsDir() || !strings.HasSuffix(e.Name(), ".go") || strings.HasSuffix(e.Name(), "_test.go") {
				continue
			}
			rel := filepath.Join(dir, e.Name())
			fset, f := parseFile(rel)
			for _, d := range f.Decls {
				fd, ok := d.(*ast.FuncDecl)
				if !ok || fd.Body == nil {
					continue
				}
				recv := ""
				if fd.Recv != nil && len(fd.Recv.List) > 0 {
					recv = strings.TrimLeft(c10Render(fset, fd.Recv.List[0].Type), "*") + "."
				}
				fns = append(fns, fn{key: rel + ":" + recv + fd.Name.Name, rel: rel, fset: fset, body: fd.Body, name: fd.Name.Name})
			}
		}
	}
	// generic method names that are not writers by themselves
	skipName := map[string]bool{"Do": true, "Put": true, "Send": true, "SendAndFlush": true, "Exec": true, "Dispatch": true, "Receive": true,
		"Close": true, "Run": true, "Stop": true, "String": true, "Error": true, "Len": true, "Flush": true, "run": true, "Start": true,
		"Lock": true, "Unlock": true, "Renew": true, "Register": true}
	writerNames := map[string]bool{}
	shapes := map[string][]string{}
	for h := range c13Helpers {
		if !skipName[h] && h != "flush" {
			writerNames[h] = true
		}
	}
	// round 0 finds the functions that write directly; round 1 adds their callers and the callers of the listed
	// helpers. No further closure: by name it would spread over the whole program.
	for round := 0; round < 2; round++ {
		changed := false
		for _, f := range fns {
			var out []string
			type hit struct {
				pos token.Pos
				s   string
			}
			var hits []hit
			ast.Inspect(f.body, func(n ast.Node) bool {
				ce, ok := n.(*ast.CallExpr)
				if !ok {
					return true
				}
				name := c13CallName(ce)
				switch name {
				case "Do", "Put", "Send", "SendAndFlush":
					if len(ce.Args) == 0 {
						return true
					}
					bl, ok := ce.Args[0].(*ast.BasicLit)
					if !ok || bl.Kind != token.STRING {
						// a command name held in a variable (cmd.Cmd, flushCmd, req): a write; anything else
						// (sync.Once.Do(func…), a gRPC Send(&msg), an etcd Put(ctx, …)) is not a Redis command
						a0 := c10Render(f.fset, ce.Args[0])
						recvOnce := false
						if sel, ok := ce.Fun.(*ast.SelectorExpr); ok {
							recvOnce = strings.Contains(strings.ToLower(c10Render(f.fset, sel.X)), "once")
						}
						if (name == "Do" || name == "Put") && !recvOnce && !strings.ContainsAny(a0, " (){}&") && a0 != "ctx" {
							hits = append(hits, hit{ce.Pos(), fmt.Sprintf("%s(%s…)", name, a0)})
						}
						return true
					}
					cmd, _ := strconv.Unquote(bl.Value)
					lc := strings.ToLower(cmd)
					if c13ReadCmds[lc] || lc == "keys" || lc == "psync" || lc == "replconf" || lc == "auth" || lc == "sync" || lc == "role" || lc == "config" || lc == "client" {
						return true
					}
					arity := strconv.Itoa(len(ce.Args) - 1)
					if ce.Ellipsis != token.NoPos {
						arity = "…"
					}
					hits = append(hits, hit{ce.Pos(), fmt.Sprintf("%s(%q×%s)", name, lc, arity)})
				default:
					if writerNames[name] && !skipName[name] {
						hits = append(hits, hit{ce.Pos(), name + "()"})
					}
				}
				return true
			})
			sort.Slice(hits, func(i, j int) bool { return hits[i].pos < hits[j].pos })
			for _, h := range hits {
				out = append(out, h.s)
			}
			if len(out) > 0 {
				if round == 0 && !writerNames[f.name] && !skipName[f.name] && len(f.name) > 3 {
					direct := false
					for _, o := range out {
						if strings.HasPrefix(o, "Do(") || strings.HasPrefix(o, "Put(") || strings.HasPrefix(o, "Send") {
							direct = true
						}
					}
					if direct {
						writerNames[f.name] = true
						changed = true
					}
				}
				shapes[f.key] = out
			}
		}
		if !changed {
			break
		}
	}
	facts["c13_all_writers"] = shapes

	// ---- every transaction the tool can open: NewTxnBatcher call sites, literal MULTI / EXEC puts
	var txnSites, multiSites []string
	var enableSites []string
	root := *repo
	filepath.Walk(root, func(path string, info os.FileInfo, err error) error {
		if err != nil {
			return nil
		}
		rel, _ := filepath.Rel(root, path)
		if info.IsDir() {
			if rel == "tests" || rel == ".git" || strings.HasPrefix(rel, "vendor") {
				return filepath.SkipDir
			}
			return nil
		}
		if !strings.HasSuffix(rel, ".go") || strings.HasSuffix(rel, "_test.go") {
			return nil
		}
		fset, f := parseFile(rel)
		encl := c13EnclosingFuncs(f)
		// switch-case labels for assignments
		caseOf := map[ast.Node]string{}
		ast.Inspect(f, func(n ast.Node) bool {
			if cc, ok := n.(*ast.CaseClause); ok {
				lab := "default"
				if len(cc.List) > 0 {
					ls := make([]string, len(cc.List))
					for i, e := range cc.List {
						ls[i] = c10Render(fset, e)
					}
					lab = strings.Join(ls, ",")
				}
				for _, st := range cc.Body {
					ast.Inspect(st, func(m ast.Node) bool {
						if m != nil {
							if _, seen := caseOf[m]; !seen {
								caseOf[m] = lab
							}
						}
						return true
					})
				}
			}
			return true
		})
		ast.Inspect(f, func(n ast.Node) bool {
			switch x := n.(type) {
			case *ast.CallExpr:
				name := c13CallName(x)
				if name == "NewTxnBatcher" && len(x.Args) == 0 && !strings.HasPrefix(rel, "pkg/redis/client") {
					txnSites = append(txnSites, fmt.Sprintf("%s:%s:%s", rel, encl[n], c10Render(fset, x)))
				}
				if (name == "Put" || name == "Send" || name == "send" || name == "Do") && len(x.Args) >= 1 {
					if bl, ok := x.Args[0].(*ast.BasicLit); ok && bl.Kind == token.STRING {
						cmd, _ := strconv.Unquote(bl.Value)
						if lc := strings.ToLower(cmd); lc == "multi" || lc == "exec" {
							multiSites = append(multiSites, fmt.Sprintf("%s:%s:%s", rel, encl[n], c10Render(fset, x)))
						}
					}
				}
			case *ast.AssignStmt:
				for _, l := range x.Lhs {
					if sel, ok := l.(*ast.SelectorExpr); ok && sel.Sel.Name == "transactionEnable" {
						enableSites = append(enableSites, fmt.Sprintf("%s:%s:case %s:%s", rel, encl[n], caseOf[n], c10Render(fset, x)))
					}
				}
			}
			return true
		})
		return nil
	})
	sort.Strings(txnSites)
	sort.Strings(multiSites)
	sort.Strings(enableSites)
	facts["c13_txn_batcher_sites"] = txnSites
	facts["c13_multi_put_sites"] = multiSites
	facts["c18_txn_enable_sites"] = enableSites

	// ---- the two unit-commit functions: first Put = the marker SET; the command names they Put
	first := map[string]string{}
	names := map[string][]string{}
	for _, p := range []struct{ file, fn string }{{"syncer/bisync.go", "dispatchBisyncUnit"}, {"syncer/bisync_rdb.go", "execBisyncRdbUnit"}} {
		fset, f := parseFile(p.file)
		fd := c10FindFunc(f, p.fn)
		if fd == nil {
			die("%s not found", p.fn)
		}
		type put struct {
			pos token.Pos
			ce  *ast.CallExpr
		}
		var puts []put
		ast.Inspect(fd.Body, func(n ast.Node) bool {
			if ce, ok := n.(*ast.CallExpr); ok && c13CallName(ce) == "Put" && len(ce.Args) > 0 {
				puts = append(puts, put{ce.Pos(), ce})
			}
			return true
		})
		sort.Slice(puts, func(i, j int) bool { return puts[i].pos < puts[j].pos })
		if len(puts) == 0 {
			die("%s: no Put found", p.fn)
		}
		first[p.fn] = c10Render(fset, puts[0].ce.Args[0])
		if len(puts[0].ce.Args) > 1 {
			first[p.fn] += " " + c10Render(fset, puts[0].ce.Args[1])
		}
		for _, q := range puts {
			names[p.fn] = append(names[p.fn], c10Render(fset, q.ce.Args[0]))
		}
	}
	facts["c13_first_put"] = first
	facts["c18_unit_put_names"] = names

	// ---- checkpoint hash: every write with the expression of the stored name
	var hashWrites []string
	for _, rel := range []string{"syncer/syncer.go", "pkg/redis/checkpoint/checkpoint.go", "cmd/syncer.go", "syncer/output.go", "syncer/bisync.go"} {
		fset, f := parseFile(rel)
		encl := c13EnclosingFuncs(f)
		ast.Inspect(f, func(n ast.Node) bool {
			ce, ok := n.(*ast.CallExpr)
			if !ok {
				return true
			}
			name := c13CallName(ce)
			if name == "SetCheckpointHash" && len(ce.Args) == 3 {
				hashWrites = append(hashWrites, fmt.Sprintf("%s:%s:SetCheckpointHash name=%s", rel, encl[n], c10Render(fset, ce.Args[2])))
			}
			for i, a := range ce.Args {
				if c10Render(fset, a) == "config.CheckpointKeyHashKey" && (name == "Do" || name == "HSet") {
					cmd := name
					if name == "Do" && i > 0 {
						cmd = c10Render(fset, ce.Args[0])
					}
					if strings.Contains(strings.ToLower(cmd), "hset") || name == "HSet" {
						hashWrites = append(hashWrites, fmt.Sprintf("%s:%s:%s name=%s", rel, encl[n], cmd, c10Render(fset, ce.Args[len(ce.Args)-1])))
					}
				}
			}
			return true
		})
	}
	sort.Strings(hashWrites)
	facts["c13_cphash_writes"] = hashWrites

	// ---- where a syncer's checkpoint name comes from
	var lc []string
	{
		fset, f := parseFile("syncer/syncer.go")
		encl := c13EnclosingFuncs(f)
		ast.Inspect(f, func(n ast.Node) bool {
			as, ok := n.(*ast.AssignStmt)
			if !ok {
				return true
			}
			for _, l := range as.Lhs {
				if id, ok := l.(*ast.Ident); ok && id.Name == "localCheckpoint" {
					lc = append(lc, fmt.Sprintf("%s:%s", encl[n], c10Render(fset, as)))
				}
			}
			return true
		})
	}
	facts["c13_localcheckpoint"] = lc

	// ---- the plain replay path (the only code that Puts a literal MULTI / EXEC) is not reached with
	// bidirectional sync on: sendAof returns into sendAofBisync first
	{
		fset, f := parseFile("syncer/output.go")
		fd := c10FindFunc(f, "sendAof")
		if fd == nil || fd.Body == nil {
			die("sendAof not found")
		}
		guard, guardPos, plainPos := "", token.NoPos, token.NoPos
		ast.Inspect(fd.Body, func(n ast.Node) bool {
			switch x := n.(type) {
			case *ast.IfStmt:
				if c10Render(fset, x.Cond) == "ro.bisyncEnabled()" && guard == "" {
					guard, guardPos = c10Render(fset, x), x.Pos()
				}
			case *ast.CallExpr:
				if nm := c13CallName(x); (nm == "sendCmdsBatch" || nm == "parseAofCommand") && plainPos == token.NoPos {
					plainPos = x.Pos()
				}
			}
			return true
		})
		order := "guard-missing"
		if guard != "" && plainPos != token.NoPos && guardPos < plainPos {
			order = "guard-before-plain-path"
		}
		facts["c13_aof_dispatch"] = []string{guard, order}
	}
}
