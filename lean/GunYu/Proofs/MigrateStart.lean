/-
  C17 — the recovery-format switch: the states its request prefixes leave (Model/MigrateNs.lean), for
  Props/C17Migrate.lean. Core only.
-/
import GunYu.Proofs.MigrateNs
import GunYu.Proofs.BookStr

namespace GunYu.MigrateNs
open GunYu GunYu.Checkpoint GunYu.Migrate

set_option linter.unusedSimpArgs false
set_option linter.unusedVariables false

/-! ### the root key of the new namespace -/

/-- after the seed of the root key (a key holding no field of the ids): it holds `S` in database 0 -/
theorem holds_after_root {id1 id2 n newName ver : Bytes} (A : MArgs id1 id2 n newName) {t : Checkpoint.Target}
    (hf : Fresh [id1, id2] t newName) (S now1 : Int) (hS0 : 0 ≤ S) (hSr : -(2^63 : Int) ≤ S ∧ S < 2^63)
    (hnow : -(2^63 : Int) ≤ now1 ∧ now1 < 2^63) :
    Holds [id1, id2] (applyReq t (Req.hsetCp 0 newName (cpEntries { runId := id1, offset := S, version := ver } now1)))
      newName 0 S := by
  let c : CpInfo := { offset := S, version := ver }
  have w : WArgs c id1 now1 S := ⟨A.h1, A.h1q, rfl, hSr, hnow⟩
  have hm1 : matchId [id1, id2] id1 = true := (matchId_pair id1 id2 id1).mpr (Or.inl rfl)
  have hcps1 : ∀ db nm, (applyReq t (Req.hsetCp 0 newName (cpEntries { runId := id1, offset := S, version := ver } now1))).cps db nm =
      if db = 0 ∧ nm = newName then written (t.cps 0 newName) c id1 now1 else t.cps db nm := by
    intro db nm
    show (applyReq t (Req.hsetCp 0 newName (cpEntries { c with runId := id1 } now1))).cps db nm = _
    rw [applyReq_hsetCp_cps, hsetMany_cpEntries _ _ _ _ A.h1]; rfl
  refine ⟨hS0, ?_, ?_, ?_, ?_⟩
  · intro db
    rw [hcps1]
    by_cases hdb : db = 0
    · subst hdb; simp only [and_self, if_true]
      apply written_parses w
      intro e he hm; rw [hf 0 e he] at hm; exact absurd hm (by decide)
    · simp only [hdb, false_and, if_false]
      intro e he hm; rw [hf db e he] at hm; exact absurd hm (by decide)
  · rw [hcps1]; simp only [and_self, if_true]
    apply written_off_fresh w hm1
    intro e he hs; rw [offSel_iff, hf 0 e he] at hs; exact absurd hs.1 (by decide)
  · rw [hcps1]; simp only [and_self, if_true]
    apply written_rid w hm1
    intro e he hs; rw [ridSel_iff, hf 0 e he] at hs; exact absurd hs.1 (by decide)
  · intro db hdb
    rw [hcps1]; simp only [hdb, false_and, if_false]
    intro e he hs; rw [offSel_iff, hf db e he] at hs; exact absurd hs.1 (by decide)

theorem parseMode_bytes (m : BMode) : parseMode m.bytes = some m := by cases m <;> decide

/-- after `SaveBisyncNamespaceMode(nm, m)` the stored mode of `nm` is `m` -/
theorem loadMode_after (t : Checkpoint.Target) (nm : Bytes) (m : BMode) (now : Int) :
    loadMode (applyReq t (Req.hsetCp 0 nm (modeEntries m now))) nm = some (some m) := by
  unfold loadMode
  rw [applyReq_hsetCp_cps]
  simp only [and_self, if_true]
  let e1 : Entry := ⟨modeField, .other, m.bytes⟩
  let e2 : Entry := ⟨modeField, .mtime, intToDec now⟩
  have hm : hsetMany (t.cps 0 nm) (modeEntries m now) = hsetOne (hsetOne (t.cps 0 nm) e1) e2 := rfl
  rw [hm]
  have hk12 : e1.key ≠ e2.key := by simp [Entry.key, e1, e2]
  have hmem : e1 ∈ hsetOne (hsetOne (t.cps 0 nm) e1) e2 := mem_hsetOne_of_ne (mem_hsetOne_self _ _) hk12
  cases hfind : (hsetOne (hsetOne (t.cps 0 nm) e1) e2).find? (fun e => e.rid = modeField ∧ e.kind = .other) with
  | none =>
    have := List.find?_eq_none.mp hfind e1 hmem
    simp [e1] at this
  | some e =>
    have hp := List.find?_some hfind
    have he := List.mem_of_find?_eq_some hfind
    simp only [decide_eq_true_eq] at hp
    have hke : e.key = e1.key := by show (e.rid, e.kind) = (modeField, Kind.other); rw [hp.1, hp.2]
    have : e = e1 := by
      rcases mem_hsetOne he with h | h
      · exact absurd (by rw [h] at hke; exact hke.symm) hk12
      · exact hsetOne_key h hke
    rw [this]
    simp only [e1]
    rw [parseMode_bytes]

/-- a request that leaves a key alone leaves its stored mode alone -/
theorem loadMode_congr {t t' : Checkpoint.Target} {nm : Bytes} (h : t'.cps 0 nm = t.cps 0 nm) :
    loadMode t' nm = loadMode t nm := by unfold loadMode; rw [h]

/-- the facts about the target once the hash is repointed to a seeded namespace -/
structure Seeded (id1 id2 newName : Bytes) (desired : BMode) (S : Int) (t : Checkpoint.Target) : Prop where
  hash : getHash t.hash [id1, id2] = some (newName, id1)
  holds : Holds [id1, id2] t newName 0 S
  mode : loadMode t newName = some (some desired)

theorem seeded_post {id1 id2 newName : Bytes} {desired : BMode} {S : Int} (hne : id1 ≠ id2) (h1 : id1 ≠ [])
    (rs : List Req) : ∀ {t : Checkpoint.Target}, Seeded id1 id2 newName desired S t →
      (∀ q ∈ rs, PostReq id1 newName q) → Seeded id1 id2 newName desired S (applyAll t rs) := by
  induction rs with
  | nil => intro t h _; exact h
  | cons q rs ih =>
    intro t h hq
    simp only [applyAll, List.foldl_cons]
    apply ih _ (fun q' hq' => hq q' (List.mem_cons_of_mem _ hq'))
    have hq0 := hq q (List.mem_cons_self ..)
    obtain ⟨a, b⟩ := minv_postReq (n := newName) (r := id1) (X := S) hne h1 S (Int.le_refl _) h.hash h.holds q hq0
    refine ⟨a, b, ?_⟩
    rw [← h.mode]
    apply loadMode_congr
    rcases hq0 with ⟨rid, rfl, _⟩ | ⟨db, ks, rfl, hks⟩
    · rfl
    · show (if 0 = db ∧ ks.contains newName = true then [] else t.cps 0 newName) = t.cps 0 newName
      have : ¬ (0 = db ∧ ks.contains newName = true) := fun hc => hks hc.2
      rw [if_neg this]

/-- the three checkpoint-level requests that seed and repoint -/
theorem seeded_after_three {id1 id2 n r newName ver : Bytes} (A : MArgs id1 id2 n newName) {t : Checkpoint.Target}
    (hf : Fresh [id1, id2] t newName) (desired : BMode) (S now1 now2 : Int) (hS0 : 0 ≤ S)
    (hSr : -(2^63 : Int) ≤ S ∧ S < 2^63) (hnow : -(2^63 : Int) ≤ now1 ∧ now1 < 2^63) :
    Seeded id1 id2 newName desired S (applyAll t
      [Req.hsetCp 0 newName (cpEntries { runId := id1, offset := S, version := ver } now1),
       Req.hsetCp 0 newName (modeEntries desired now2), Req.hsetHash id1 newName]) := by
  simp only [applyAll, List.foldl_cons, List.foldl_nil]
  have h1 := holds_after_root A hf S now1 hS0 hSr hnow (ver := ver)
  have hes2 : ∀ e ∈ modeEntries desired now2, matchId [id1, id2] e.rid = false :=
    fun e he => by rw [modeEntries_rid desired now2 e he]; exact A.hm
  have h2 := holds_hset_nonmatching h1 0 newName _ hes2
  refine ⟨getHash_of_first (hlookup_hashSet_self _ _ _) A.hnew0, h2.congr (fun db => rfl), ?_⟩
  rw [← loadMode_after _ newName desired now2]
  exact loadMode_congr rfl

/-! ### the recovery state -/

/-- the namespace whose recovery state a request changes -/
def nsName : BReq → Option Bytes
  | .cp _ => none
  | .seedFrontier name _ => some name
  | .seedLatest name _ => some name
  | .dropJournal name => some name
  | .dropSlots name => some name
  | .delRoot name => some name

theorem applyB_ns_other (b : BT) (q : BReq) (nm : Bytes) (h : nsName q ≠ some nm) : (applyB b q).ns nm = b.ns nm := by
  cases q with
  | cp q => rfl
  | seedFrontier name s =>
    have : nm ≠ name := fun hc => h (by rw [hc]; rfl)
    simp [applyB, setNs, this]
  | seedLatest name r =>
    have : nm ≠ name := fun hc => h (by rw [hc]; rfl)
    simp [applyB, setNs, this]
  | dropJournal name =>
    have : nm ≠ name := fun hc => h (by rw [hc]; rfl)
    simp [applyB, setNs, this]
  | dropSlots name =>
    have : nm ≠ name := fun hc => h (by rw [hc]; rfl)
    simp [applyB, setNs, this]
  | delRoot name =>
    have : nm ≠ name := fun hc => h (by rw [hc]; rfl)
    simp [applyB, setNs, this]

theorem applyAllB_ns_other (rs : List BReq) (nm : Bytes) : ∀ b : BT, (∀ q ∈ rs, nsName q ≠ some nm) →
    (applyAllB b rs).ns nm = b.ns nm := by
  induction rs with
  | nil => intro b _; rfl
  | cons q rs ih =>
    intro b h
    simp only [applyAllB, List.foldl_cons]
    have := ih (applyB b q) (fun q' hq' => h q' (List.mem_cons_of_mem _ hq'))
    simp only [applyAllB] at this
    rw [this, applyB_ns_other b q nm (h q (List.mem_cons_self ..))]

theorem applyAllB_append (b : BT) (x y : List BReq) : applyAllB b (x ++ y) = applyAllB (applyAllB b x) y := by
  simp [applyAllB, List.foldl_append]

end GunYu.MigrateNs
