/-
  The REGENERATED `store.ParseRdbFile` (pkg/store/rdb_writer.go; lean/GunYu/Gen/FnRdbName.lean,
  generator `gofn_rdbname`): the names the disk cache itself writes parse back to their offset and
  size, everything that has neither suffix is invalid. Lemmas about the prelude's `split`,
  `hasSuffix`, `parseInt` that the statements need.
-/
import GunYu.Basic.GoSemS5
import GunYu.Proofs.Decimal
import GunYu.Proofs.Rdb.Decimal
import GunYu.Gen.FnRdbName

namespace GunYu.Proofs.GenS5
open GunYu GunYu.Gen

/-- the prelude's `strconv.ParseInt(s, 10, 64)` is, word for word, the hand model used by C03 -/
theorem parseInt_eq_model (s : Bytes) : GoSem.parseInt s = Rdb.parseInt64 s := rfl

theorem parseInt_natToDec (n : Nat) (h : n < 2 ^ 63) : GoSem.parseInt (natToDec n) = some (n : Int) := by
  rw [parseInt_eq_model]
  have h1 : intToDec (n : Int) = natToDec n := by
    unfold intToDec
    have : ¬ ((n : Int) < 0) := by omega
    simp [this]
  rw [← h1]
  apply Rdb.parseInt64_intToDec
  unfold Rdb.inSigned
  constructor <;> simp <;> omega

theorem sep_prefix_cons (c : UInt8) (rest : Bytes) : ([95] : Bytes).isPrefixOf (c :: rest) = decide (c = 95) := by
  simp only [List.isPrefixOf, Bool.and_true]
  by_cases h : c = 95
  · simp [h]
  · have : ¬ (95 : UInt8) = c := fun e => h e.symm
    simp [h, this]

/-- a piece without the separator, then the separator: one cut -/
theorem splitAux_piece (a : Bytes) (ha : ∀ x ∈ a, x ≠ 95) (b : Bytes) :
    ∀ (fuel : Nat) (cur : Bytes), a.length < fuel →
      GoSem.splitAux [95] fuel cur (a ++ 95 :: b) = (cur.reverse ++ a) :: GoSem.splitAux [95] (fuel - a.length - 1) [] b := by
  induction a with
  | nil =>
    intro fuel cur hf
    cases fuel with
    | zero => omega
    | succ fuel =>
      simp only [List.nil_append, GoSem.splitAux, sep_prefix_cons, decide_true, ↓reduceIte, List.length_cons,
        List.length_nil, List.drop_succ_cons, List.drop_zero, List.append_nil]
      simp
  | cons c a ih =>
    intro fuel cur hf
    cases fuel with
    | zero => simp at hf
    | succ fuel =>
      have hc : c ≠ 95 := ha c (by simp)
      simp only [List.cons_append, GoSem.splitAux, sep_prefix_cons, hc, decide_false, Bool.false_eq_true, ↓reduceIte]
      rw [ih (fun x hx => ha x (by simp [hx])) fuel (c :: cur) (by simp at hf; omega)]
      simp only [List.reverse_cons, List.append_assoc, List.singleton_append, List.length_cons]
      congr 2
      omega

/-- a last piece without the separator -/
theorem splitAux_last (a : Bytes) (ha : ∀ x ∈ a, x ≠ 95) :
    ∀ (fuel : Nat) (cur : Bytes), a.length < fuel → GoSem.splitAux [95] fuel cur a = [cur.reverse ++ a] := by
  induction a with
  | nil =>
    intro fuel cur hf
    cases fuel with
    | zero => omega
    | succ fuel => simp [GoSem.splitAux]
  | cons c a ih =>
    intro fuel cur hf
    cases fuel with
    | zero => simp at hf
    | succ fuel =>
      have hc : c ≠ 95 := ha c (by simp)
      simp only [GoSem.splitAux, sep_prefix_cons, hc, decide_false, Bool.false_eq_true, ↓reduceIte]
      rw [ih (fun x hx => ha x (by simp [hx])) fuel (c :: cur) (by simp at hf; omega)]
      simp

theorem split_two (a b : Bytes) (ha : ∀ x ∈ a, x ≠ 95) (hb : ∀ x ∈ b, x ≠ 95) :
    GoSem.split (a ++ [95] ++ b) [95] = [a, b] := by
  unfold GoSem.split
  rw [List.append_assoc, List.singleton_append, splitAux_piece a ha b _ [] (by simp; omega)]
  rw [splitAux_last b hb _ [] (by simp; omega)]
  simp

theorem digit_ne_sep (n : Nat) : ∀ x ∈ natToDec n, x ≠ 95 := by
  intro x hx h
  have := Decimal.natToDec_all_digit n x hx
  rw [h] at this
  revert this; decide

theorem hasSuffix_false_of_last (s p : Bytes) (c d : UInt8) (hs : s.getLast? = some c) (hp : p.getLast? = some d)
    (hne : c ≠ d) : GoSem.hasSuffix s p = false := by
  cases h : GoSem.hasSuffix s p with
  | false => rfl
  | true =>
    obtain ⟨a, rfl⟩ := (GoSem.hasSuffix_iff s p).1 h
    have hpn : p ≠ [] := by intro e; rw [e] at hp; simp at hp
    rw [List.getLast?_append, hp] at hs
    have hs' : some d = some c := by simpa using hs
    exact absurd (Option.some.inj hs').symm hne

end GunYu.Proofs.GenS5
