/-
  Helper lemmas for C11: the table-driven CRC16 equals the bitwise XMODEM CRC.
  Kernel-only bit-vector reasoning (no bv_decide).
-/
import GunYu.Model.Slot

namespace GunYu.Slot

theorem xor_cancel_right (a b c : BitVec 16) : a ^^^ c ^^^ (b ^^^ c) = a ^^^ b := by
  have : a ^^^ c ^^^ (b ^^^ c) = a ^^^ b ^^^ (c ^^^ c) := by ac_rfl
  rw [this, BitVec.xor_self, BitVec.xor_zero]

/-- GF(2)-linearity of one shift-register step -/
theorem bitStep_xor (x y : BitVec 16) : bitStep (x ^^^ y) = bitStep x ^^^ bitStep y := by
  unfold bitStep
  rw [BitVec.msb_xor]
  cases hx : x.msb <;> cases hy : y.msb <;> simp [BitVec.shiftLeft_xor_distrib]
  · ac_rfl
  · ac_rfl
  · exact (xor_cancel_right _ _ _).symm

theorem bitStep8_xor (x y : BitVec 16) : bitStep8 (x ^^^ y) = bitStep8 x ^^^ bitStep8 y := by
  simp [bitStep8, bitStep_xor]

/-- every entry of the REGENERATED table is eight shift-register steps of `i << 8`
    (256 cases, kernel evaluation) -/
theorem table_entries : ∀ i : Fin 256,
    Gen.crc16Table.getD i.val 0#16 = bitStep8 ((BitVec.ofNat 16 i.val) <<< 8) := by
  decide +kernel

/-- a value with empty high byte is simply shifted out -/
theorem low8 : ∀ l : Fin 256,
    bitStep8 (BitVec.ofNat 16 l.val) = (BitVec.ofNat 16 l.val) <<< 8 := by
  decide +kernel

theorem mask_bit_fin : ∀ j : Fin 16, (0x00FF#16)[j.val] = decide (j.val < 8) := by decide

theorem mask_bit (i : Nat) (hi : i < 16) : (0x00FF#16)[i] = decide (i < 8) :=
  mask_bit_fin ⟨i, hi⟩

theorem and_mask_toNat_lt (x : BitVec 16) : (x &&& 0x00FF#16).toNat < 256 := by
  rw [BitVec.toNat_and]
  exact Nat.lt_of_le_of_lt Nat.and_le_right (by decide)

theorem split_step (c B : BitVec 16) :
    c ^^^ (B <<< 8) = ((((c >>> 8) ^^^ B) &&& 0x00FF#16) <<< 8) ^^^ (c &&& 0x00FF#16) := by
  ext i hi
  simp only [BitVec.getElem_xor, BitVec.getElem_shiftLeft, BitVec.getElem_and, mask_bit i hi]
  by_cases h : i < 8
  · simp [h]
  · have h8 : i - 8 < 16 := by omega
    have h88 : i - 8 < 8 := by omega
    have e : 8 + (i - 8) = i := by omega
    simp [h, mask_bit (i-8) h8, h88, e, BitVec.getLsbD_eq_getElem hi]

theorem low_shift (c : BitVec 16) : (c &&& 0x00FF#16) <<< 8 = c <<< 8 := by
  ext i hi
  simp only [BitVec.getElem_shiftLeft]
  by_cases h : i < 8
  · simp [h]
  · have h8 : i - 8 < 16 := by omega
    have h88 : i - 8 < 8 := by omega
    simp [h, mask_bit (i-8) h8, h88]

theorem tabStep_eq_specStep (c : BitVec 16) (b : UInt8) : tabStep c b = specStep c b := by
  unfold tabStep specStep
  generalize b.toBitVec.setWidth 16 = B
  rw [split_step c B, bitStep8_xor]
  generalize hidx : ((c >>> 8) ^^^ B) &&& 0x00FF#16 = idx
  have hlt : idx.toNat < 256 := by rw [← hidx]; exact and_mask_toNat_lt _
  have ht := table_entries ⟨idx.toNat, hlt⟩
  simp only [BitVec.ofNat_toNat, BitVec.setWidth_eq] at ht
  have hl := low8 ⟨(c &&& 0x00FF#16).toNat, and_mask_toNat_lt c⟩
  simp only [BitVec.ofNat_toNat, BitVec.setWidth_eq] at hl
  rw [ht, hl, low_shift, BitVec.xor_comm]

theorem crc16Tab_eq_spec_from (bs : Bytes) (c : BitVec 16) :
    bs.foldl tabStep c = bs.foldl specStep c := by
  induction bs generalizing c with
  | nil => rfl
  | cons b bs ih => simp only [List.foldl_cons, tabStep_eq_specStep, ih]

theorem mask14 (x : BitVec 16) : (x &&& 0x3fff#16).toNat = x.toNat % 16384 := by
  rw [BitVec.toNat_and]
  exact Nat.and_two_pow_sub_one_eq_mod x.toNat 14

theorem mask14' (x : BitVec 16) : (x &&& 16383#16).toNat = x.toNat % 16384 := mask14 x

end GunYu.Slot
