/-
  Helper lemmas for C18: the commands of the committed transaction (marker,
  record, index) are plain, routable by the static key tables, and name one
  control key each.
-/
import GunYu.Proofs.BisyncTxn

namespace GunYu.BisyncUnit
open GunYu GunYu.Slot

/-! ### the committed transaction passes the client's re-validation whole -/

theorem keyIndexes_generic (name key : Bytes) (rest : List Bytes)
    (h1 : Gen.commandKeyExtractors.lookup (lower name) = none)
    (h2 : Gen.commandKeyPositions.lookup (lower name) = some (1, 1, 1)) :
    Filter.keyIndexes name (key :: rest) = some [0] := by
  unfold Filter.keyIndexes
  simp only [List.isEmpty_cons, Bool.false_eq_true, ↓reduceIte, h1, h2]
  unfold Filter.tableIndexes
  simp only [List.length_cons]
  have e1 : ¬ ((1 : Int) - 1 < 0 ∨ (1 : Int) - 1 ≥ ((rest.length + 1 : Nat) : Int) ∨ (1 : Int) ≤ 0 ∨ (1 : Int) ≤ 0) := by
    omega
  simp only [show ((1 : Int) > 0) = True from by simp, ↓reduceIte, e1]
  have e2 : ¬ ((1 : Int) - 1 > 1 - 1) := by omega
  simp only [e2, ↓reduceIte]
  rfl

theorem commandKeys_generic (name key : Bytes) (rest : List Bytes)
    (h1 : Gen.commandKeyExtractors.lookup (lower name) = none)
    (h2 : Gen.commandKeyPositions.lookup (lower name) = some (1, 1, 1)) :
    commandKeys name (key :: rest) = some [key] := by
  unfold commandKeys
  rw [keyIndexes_generic name key rest h1 h2]
  simp

theorem set_keys (key : Bytes) (rest : List Bytes) : commandKeys wSet (key :: rest) = some [key] :=
  commandKeys_generic wSet key rest (by decide +kernel) (by decide +kernel)
theorem hset_keys (key : Bytes) (rest : List Bytes) : commandKeys wHset (key :: rest) = some [key] :=
  commandKeys_generic wHset key rest (by decide +kernel) (by decide +kernel)
theorem zadd_keys (key : Bytes) (rest : List Bytes) : commandKeys wZadd (key :: rest) = some [key] :=
  commandKeys_generic wZadd key rest (by decide +kernel) (by decide +kernel)

theorem ctl_routable (fb : Bytes → List Bytes → Fb) (name key : Bytes) (rest : List Bytes)
    (h : commandKeys name (key :: rest) = some [key]) :
    resolverWith fb name (key :: rest) = .ok [key] := by
  unfold resolverWith; rw [h]

theorem ctl_plain (name key : Bytes) (rest : List Bytes) (h : upperName name ∉ specialRouted) :
    Plain ⟨name, key :: rest⟩ := ⟨h, by simp⟩

/-- the commands of the committed transaction, with their key -/
theorem commit_cmds_shape (cp : Bytes) (k : CommitKind) (u : RUnit) (p : Payload) (fb : Bytes → List Bytes → Fb) :
    ∀ c ∈ commitCmds cp k u p, c ∈ u.cmds ∨
      (Plain c ∧ ∃ key ∈ controlKeys cp k u p, resolverWith fb c.name c.args = .ok [key]) := by
  intro c hc
  have hset : upperName wSet ∉ specialRouted := by decide +kernel
  have hhset : upperName wHset ∉ specialRouted := by decide +kernel
  have hzadd : upperName wZadd ∉ specialRouted := by decide +kernel
  cases k <;>
    simp only [commitCmds, markerCmd, recordKey, List.mem_cons, List.mem_append, List.not_mem_nil,
      or_false] at hc
  · rcases hc with (e | e) | e
    · right; rw [e]
      exact ⟨ctl_plain _ _ _ hset, _, by simp [controlKeys], ctl_routable fb _ _ _ (set_keys _ _)⟩
    · left; exact e
    · right; rw [e]
      exact ⟨ctl_plain _ _ _ hhset, _, by simp [controlKeys], ctl_routable fb _ _ _ (hset_keys _ _)⟩
  · rcases hc with (e | e) | e | e
    · right; rw [e]
      exact ⟨ctl_plain _ _ _ hset, _, by simp [controlKeys], ctl_routable fb _ _ _ (set_keys _ _)⟩
    · left; exact e
    · right; rw [e]
      exact ⟨ctl_plain _ _ _ hhset, _, by simp [controlKeys], ctl_routable fb _ _ _ (hset_keys _ _)⟩
    · right; rw [e]
      exact ⟨ctl_plain _ _ _ hzadd, _, by simp [controlKeys], ctl_routable fb _ _ _ (zadd_keys _ _)⟩
  · rcases hc with e | e
    · right; rw [e]
      exact ⟨ctl_plain _ _ _ hset, _, by simp [controlKeys], ctl_routable fb _ _ _ (set_keys _ _)⟩
    · left; exact e

theorem commitCmds_ne_nil (cp : Bytes) (k : CommitKind) (u : RUnit) (p : Payload) :
    ∃ c cs, commitCmds cp k u p = c :: cs := by
  cases k <;> exact ⟨_, _, rfl⟩


end GunYu.BisyncUnit
