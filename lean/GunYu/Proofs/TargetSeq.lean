/-
  The target executes the forwarded commands sequentially: the DB a command
  runs in is decided by the latest preceding forwarded SELECT (C01, C02).
-/
import GunYu.Proofs.SenderRun

namespace GunYu.Target
open GunYu GunYu.Sender

/-- the DB selected after a forwarded SELECT with these arguments -/
def selArg (cur : Int) (a : List Bytes) : Int :=
  match a with
  | [x] => (atoi? x).getD cur
  | _ => cur

/-- sequential execution of forwarded commands from connection DB `cur`:
    final DB and the data commands applied, each tagged with its DB -/
def seqApplied (cur : Int) : List Cmd → Int × List Applied
  | [] => (cur, [])
  | (n, a) :: rest =>
    if n = bSelect then seqApplied (selArg cur a) rest
    else
      let r := seqApplied cur rest
      (r.1, { db := cur, name := n, args := a } :: r.2)

theorem seqApplied_append (cur : Int) (x y : List Cmd) :
    seqApplied cur (x ++ y) =
      ((seqApplied (seqApplied cur x).1 y).1, (seqApplied cur x).2 ++ (seqApplied (seqApplied cur x).1 y).2) := by
  induction x generalizing cur with
  | nil => simp [seqApplied]
  | cons p x ih =>
    obtain ⟨n, a⟩ := p
    simp only [List.cons_append, seqApplied]
    split
    · exact ih _
    · simp [ih]

theorem execReq_seq (t : TState) (r : Req) (hp : Plain r = true) :
    (execReq t r).cur = (seqApplied t.cur (dataB [r])).1 ∧
    (execReq t r).applied = t.applied ++ (seqApplied t.cur (dataB [r])).2 := by
  cases r with
  | cmd n a off =>
    simp only [execReq, dataB, List.filterMap_cons, List.filterMap_nil, cmdOfReq]
    by_cases hs : n = bSelect
    · subst hs
      have : bSelect ≠ bPing := by decide
      simp only [this, ↓reduceIte, seqApplied, selArg]
      split
      · split <;> simp_all
      · simp
    · by_cases hpg : n = bPing
      · subst hpg; simp [hs, seqApplied]
      · simp [hs, hpg, seqApplied]
  | cpMeta => simp [execReq, dataB, cmdOfReq, seqApplied, List.filterMap]
  | cpOffset o => simp [execReq, dataB, cmdOfReq, seqApplied, List.filterMap]
  | multi => simp [Plain] at hp
  | exec => simp [Plain] at hp

theorem foldl_execReq_seq (body : List Req) (hp : ∀ r ∈ body, Plain r = true) (t : TState) :
    (body.foldl execReq t).cur = (seqApplied t.cur (dataB body)).1 ∧
    (body.foldl execReq t).applied = t.applied ++ (seqApplied t.cur (dataB body)).2 := by
  induction body generalizing t with
  | nil => simp [dataB, seqApplied]
  | cons r body ih =>
    have h1 := execReq_seq t r (hp r (List.mem_cons_self ..))
    have h2 := ih (fun r hr => hp r (List.mem_cons_of_mem _ hr)) (execReq t r)
    have hd : dataB (r :: body) = dataB [r] ++ dataB body := by
      simp [dataB, List.filterMap_cons]
      cases cmdOfReq r <;> simp
    rw [List.foldl_cons, hd, seqApplied_append]
    simp only
    rw [h2.1, h2.2, h1.1, h1.2, List.append_assoc]
    exact ⟨rfl, rfl⟩

/-- **What the target has executed after any sequence of complete batches**:
    the forwarded commands in wire order, each in the DB chosen by the latest
    forwarded SELECT before it; no MULTI is left open. -/
theorem applyLog_out (out : List Batch) (hwf : AllWF out) (t : TState) (hq : t.queued = none) :
    (applyLog t out.flatten).queued = none ∧
    (applyLog t out.flatten).cur = (seqApplied t.cur (dataOut out)).1 ∧
    (applyLog t out.flatten).applied = t.applied ++ (seqApplied t.cur (dataOut out)).2 := by
  induction out generalizing t with
  | nil => simp [applyLog, seqApplied, hq]
  | cons b out ih =>
    obtain ⟨body, hp, happ, hd, _⟩ := applyLog_wf b t hq (hwf b (List.mem_cons_self ..))
    have hseq := foldl_execReq_seq body hp t
    have hq' : (applyLog t b).queued = none := by
      rw [happ, foldl_execReq_queued, hq]
    have h2 := ih (fun x hx => hwf x (List.mem_cons_of_mem _ hx)) (applyLog t b) hq'
    have hsplit : applyLog t (b :: out).flatten = applyLog (applyLog t b) out.flatten := by
      simp [applyLog, List.foldl_append]
    have hdo : dataOut (b :: out) = dataB b ++ dataOut out := by simp [dataOut]
    rw [hsplit, hdo, seqApplied_append]
    simp only
    refine ⟨h2.1, ?_, ?_⟩
    · rw [h2.2.1, happ, hseq.1, hd]
    · rw [h2.2.2, happ, hseq.1, hseq.2, hd, List.append_assoc]

end GunYu.Target
