/-
  C06 helper: the three possible outcomes of one connection (`run`), derived
  from the decision table (Proofs/Psync.lean).
-/
import GunYu.Proofs.Psync

namespace GunYu.Psync

theorem openReader_fresh_rdb (be : Backend) (id : Id) {O size : Int} (hO : 0 ≤ O) (hsz : 0 < size) :
    openReader ⟨be, id, some (O, size), none⟩ (O - size) = .rdb O size := by
  cases be <;> simp [openReader, Cache.inRange, Cache.range] <;>
    rw [if_neg (by omega), if_pos (by omega)]

theorem run_of_rdb {w : World} {s : Source} {sp : SP} {c : Cache} {d : CData} {off size : Int} {c3 : Cache}
    (hw : openWriter (syncMeta s sp c) = (.rdb off size, c3)) :
    run w s sp c d = ⟨syncMeta s sp c, .rdb off size, openReader c3 (syncMeta s sp c).outSp.offset,
      (match openReader c3 (syncMeta s sp c).outSp.offset with
        | .aof o => Delivery.stream o (fun n => w.hist s.id1 n)
        | .rdb left sz => Delivery.snapshot (s.id1, off) left sz
        | .notExist => Delivery.none), ⟨fun n => w.hist s.id1 n, (s.id1, off)⟩⟩ := by
  simp only [run, hw]
  rfl

theorem run_of_aof {w : World} {s : Source} {sp : SP} {c : Cache} {d : CData} {off : Int} {c3 : Cache}
    (hw : openWriter (syncMeta s sp c) = (.aof off, c3)) :
    run w s sp c d =
      ⟨syncMeta s sp c, .aof off, openReader c3 (syncMeta s sp c).outSp.offset,
      (match openReader c3 (syncMeta s sp c).outSp.offset with
        | .aof o => Delivery.stream o (fun n => if off ≤ n then w.hist s.id1 ((syncMeta s sp c).ps.wireOff - 1 + (n - off))
              else (if (syncMeta s sp c).deleted then CData.empty else d).aofByte n)
        | .rdb left sz => Delivery.snapshot (if (syncMeta s sp c).deleted then CData.empty else d).rdbTok left sz
        | .notExist => Delivery.none),
      ⟨fun n => if off ≤ n then w.hist s.id1 ((syncMeta s sp c).ps.wireOff - 1 + (n - off))
              else (if (syncMeta s sp c).deleted then CData.empty else d).aofByte n,
        (if (syncMeta s sp c).deleted then CData.empty else d).rdbTok⟩⟩ := by
  simp only [run, hw]
  rfl

/-! ### full resynchronisation -/

/-- the source's snapshot, nothing from the old cache -/
structure FullSpec (w : World) (s : Source) (c : Cache) (r : Result) : Prop where
  full : r.mt.ps.full = true
  runId : r.mt.runId = s.id1
  deleted : r.mt.deleted = true
  writer : r.writer = .rdb s.masterOff s.snapLen
  reader : r.reader = .rdb s.masterOff s.snapLen
  delivery : r.delivery = .snapshot (s.id1, s.masterOff) s.masterOff s.snapLen
  data : r.data = ⟨fun n => w.hist s.id1 n, (s.id1, s.masterOff)⟩
  locSp : r.mt.locSp = ⟨s.id1, s.masterOff⟩
  outSp : r.mt.outSp = ⟨s.id1, s.masterOff - s.snapLen⟩
  after : ∀ k, cacheAfter r.mt k =
    ⟨c.backend, s.id1, some (s.masterOff, s.snapLen), if k > 0 then some (s.masterOff, s.masterOff + k) else none⟩
  cache : r.mt.cache = ⟨c.backend, s.id1, none, none⟩

theorem decision_full {s : Source} (sp : SP) (c : Cache)
    (hf : (decision s sp c).ps.full = true) (hs : SourceWF s) :
    (decision s sp c).ps.runId = s.id1 ∧ (decision s sp c).ps.off = s.masterOff ∧
      (decision s sp c).ps.rdbSize = s.snapLen := by
  have hd := decision_cases hs sp c
  generalize decision s sp c = dc at hd hf
  cases hd with
  | keep1 _ _ _ => exact sendPSync_full hf
  | clear _ _ _ => exact sendPSync_full hf
  | rdb4full _ _ _ _ _ _ => exact sendPSync_full hf
  | rdb4 _ _ _ _ h _ => simp only at hf; rw [h] at hf; cases hf
  | fresh _ _ => exact sendPSync_full hf

theorem run_full {w : World} {s : Source} {sp : SP} {c : Cache} {d : CData}
    (hs : SourceWF s) (hc : CacheWF c) (hf : (decision s sp c).ps.full = true) :
    FullSpec w s c (run w s sp c d) := by
  obtain ⟨h1, h2, h3⟩ := decision_full sp c hf hs
  have hm : syncMeta s sp c =
      { loc0 := c.startPoint [s.id1, s.id2], branch := (decision s sp c).branch, ps := (decision s sp c).ps,
        clearLocal := (decision s sp c).clearLocal, runId := s.id1, deleted := true,
        locSp := ⟨s.id1, s.masterOff⟩, outSp := ⟨s.id1, s.masterOff - s.snapLen⟩, rdbSize := s.snapLen,
        cache := ⟨c.backend, s.id1, none, none⟩ } := by
    simp only [syncMeta, hf, h1, h2, h3, Bool.true_or, if_true, del_set_cleared hc hs.id1_ne hs.id1_nq]
  have hw : openWriter (syncMeta s sp c) =
      (.rdb s.masterOff s.snapLen, ⟨c.backend, s.id1, some (s.masterOff, s.snapLen), none⟩) := by
    rw [hm]; simp [openWriter, hf]
  have hr := openReader_fresh_rdb c.backend s.id1 hs.master_nonneg hs.snap_pos
  have ho : (syncMeta s sp c).outSp.offset = s.masterOff - s.snapLen := by rw [hm]
  rw [run_of_rdb hw, ho, hr]
  constructor
  · simp only [hm, hf]
  · simp only [hm]
  · simp only [hm]
  · rfl
  · rfl
  · rfl
  · rfl
  · simp only [hm]
  · simp only [hm]
  · intro k
    simp only [cacheAfter, hw]
  · simp only [hm]

/-! ### continuation after the cache was cleared (stored position asked from the source) -/

structure ClearSpec (w : World) (s : Source) (sp : SP) (c : Cache) (r : Result) : Prop where
  full : r.mt.ps.full = false
  clear : r.mt.clearLocal = true
  deleted : r.mt.deleted = true
  runId : r.mt.runId = s.id1
  reqId : r.mt.ps.reqId = sp.runId
  wire : r.mt.ps.wireOff = sp.offset + 1
  off_nonneg : 0 ≤ sp.offset
  off_le : sp.offset ≤ s.masterOff
  sid : sp.runId = s.id1 ∨ (sp.runId = s.id2 ∧ sp.offset ≤ s.switchOff)
  locSp : r.mt.locSp = ⟨s.id1, sp.offset⟩
  outSp : r.mt.outSp = ⟨s.id1, sp.offset⟩
  writer : r.writer = .aof sp.offset
  reader : r.reader = .aof sp.offset
  delivery : r.delivery = .stream sp.offset r.data.aofByte
  data : r.data = ⟨fun n => if sp.offset ≤ n then w.hist s.id1 (sp.offset + 1 - 1 + (n - sp.offset)) else 0, ([], 0)⟩
  after : ∀ k, cacheAfter r.mt k =
    ⟨c.backend, s.id1, none, if k > 0 then some (sp.offset, sp.offset + k) else none⟩
  cache : r.mt.cache = ⟨c.backend, s.id1, none, none⟩
  backlog : s.backlog = true

theorem inRange_fresh_aof (be : Backend) (id : Id) {X : Int} (hX : 0 ≤ X) :
    Cache.inRange ⟨be, id, none, some (X, X)⟩ X = true := by
  cases be
  · simp only [Cache.inRange, Cache.range, maxInt64]
    rw [if_neg (by omega), if_pos (by omega)]
  · simp [Cache.inRange]

theorem openReader_fresh_aof (be : Backend) (id : Id) {X : Int} (hX : 0 ≤ X) :
    openReader ⟨be, id, none, some (X, X)⟩ X = .aof X := by
  simp [openReader, inRange_fresh_aof be id hX]

theorem run_clear {w : World} {s : Source} {sp : SP} {c : Cache} {d : CData}
    (hs : SourceWF s) (hc : CacheWF c) {br : Nat} {loc0 : SP}
    (hd : decision s sp c = ⟨br, sendPSync s sp.runId sp.offset, true,
        if (sendPSync s sp.runId sp.offset).full then loc0 else ⟨(sendPSync s sp.runId sp.offset).runId, sp.offset⟩, sp.offset⟩)
    (hf : (sendPSync s sp.runId sp.offset).full = false) :
    ClearSpec w s sp c (run w s sp c d) := by
  obtain ⟨h0, hwire, hoff, hsid, hle, _, hbl⟩ := sendPSync_cont hs hf
  have hm : syncMeta s sp c =
      { loc0 := c.startPoint [s.id1, s.id2], branch := br, ps := sendPSync s sp.runId sp.offset,
        clearLocal := true, runId := s.id1, deleted := true,
        locSp := ⟨s.id1, sp.offset⟩, outSp := ⟨s.id1, sp.offset⟩, rdbSize := (sendPSync s sp.runId sp.offset).rdbSize,
        cache := ⟨c.backend, s.id1, none, none⟩ } := by
    simp only [syncMeta, hd, hf, Bool.false_or, if_true, Bool.false_eq_true, if_false,
      del_set_cleared hc hs.id1_ne hs.id1_nq]
  have hw : openWriter (syncMeta s sp c) = (.aof sp.offset, ⟨c.backend, s.id1, none, some (sp.offset, sp.offset)⟩) := by
    rw [hm]; simp [openWriter, hf]
  have hr := openReader_fresh_aof c.backend s.id1 h0
  have ho : (syncMeta s sp c).outSp.offset = sp.offset := by rw [hm]
  have hdel : (syncMeta s sp c).deleted = true := by rw [hm]
  have hwo : (syncMeta s sp c).ps.wireOff = sp.offset + 1 := by rw [hm]; exact hwire
  rw [run_of_aof hw, ho, hr]
  simp only [hdel, if_true, hwo]
  constructor
  · simp only [hm, hf]
  · simp only [hm]
  · simp only [hm]
  · simp only [hm]
  · simp only [hm]; exact sendPSync_reqId _ _ _
  · simp only [hm]; exact hwire
  · exact h0
  · exact hle
  · exact hsid
  · simp only [hm]
  · simp only [hm]
  · rfl
  · rfl
  · rfl
  · rfl
  · intro k
    simp only [cacheAfter, hw]
    simp only [hm]
  · simp only [hm]
  · exact hbl

/-! ### continuation with the cache kept -/

/-- the log range after `NewAofWritter(latest)` on a kept cache -/
def keptAof (c : Cache) : Option (Int × Int) :=
  match c.aof with
  | some (l, r) => some (l, r)
  | none => some (c.latest, c.latest)

structure KeepSpec (w : World) (s : Source) (sp : SP) (c : Cache) (d : CData) (r : Result) : Prop where
  full : r.mt.ps.full = false
  clear : r.mt.clearLocal = false
  deleted : r.mt.deleted = false
  runId : r.mt.runId = s.id1
  reqId : r.mt.ps.reqId = c.runId
  wire : r.mt.ps.wireOff = c.latest + 1
  lat_nonneg : 0 ≤ c.latest
  lat_le : c.latest ≤ s.masterOff
  cid : c.runId = s.id1 ∨ (c.runId = s.id2 ∧ c.latest ≤ s.switchOff)
  locSp : r.mt.locSp = ⟨s.id1, c.latest⟩
  writer : r.writer = .aof c.latest
  data : r.data = ⟨fun n => if c.latest ≤ n then w.hist s.id1 (c.latest + 1 - 1 + (n - c.latest)) else d.aofByte n, d.rdbTok⟩
  read :
    (r.reader = .aof sp.offset ∧ r.delivery = .stream sp.offset r.data.aofByte ∧
        (sp.runId = s.id1 ∨ sp.runId = s.id2) ∧ sp.offset ≤ c.latest ∧
        (match c.aof with | some (l, _) => l ≤ sp.offset | none => c.latest ≤ sp.offset)) ∨
    (∃ left size, c.rdb = some (left, size) ∧
        (sp.isInitial = true ∨ ((sp.runId = s.id1 ∨ sp.runId = s.id2) ∧ sp.offset < left)) ∧
        r.reader = .rdb left size ∧ r.delivery = .snapshot d.rdbTok left size)
  after : ∀ k, cacheAfter r.mt k =
    { c with runId := s.id1,
             aof := match c.aof with
               | some (l, r) => some (l, r + k)
               | none => if k > 0 then some (c.latest, c.latest + k) else none }
  cache : r.mt.cache = { c with runId := s.id1 }
  backlog : s.backlog = true

theorem kept_wf {c : Cache} (hc : CacheWF c) (hl : 0 ≤ c.latest) {id : Id} (h1 : id ≠ []) (h2 : id ≠ qId) :
    CacheWF { c with runId := id, aof := keptAof c } := by
  obtain ⟨be, rid, rdb, aof⟩ := c
  obtain ⟨ha, hr, hcg, _⟩ := hc
  cases rdb <;> cases aof <;>
    (try rename_i x; obtain ⟨a, b⟩ := x) <;> (try rename_i y; obtain ⟨a', b'⟩ := y) <;>
    simp only [keptAof, Cache.latest] at hl ⊢ <;>
    refine ⟨?_, ?_, ?_, ?_⟩ <;> simp_all <;> omega

theorem kept_covers {c : Cache} {off : Int} (id : Id) (h : rdbCovers c off ∨ aofCovers c off) :
    rdbCovers { c with runId := id, aof := keptAof c } off ∨ aofCovers { c with runId := id, aof := keptAof c } off := by
  obtain ⟨be, rid, rdb, aof⟩ := c
  cases rdb <;> cases aof <;>
    (try rename_i x; obtain ⟨a, b⟩ := x) <;> (try rename_i y; obtain ⟨a', b'⟩ := y) <;>
    simp_all [keptAof, rdbCovers, aofCovers, Cache.latest] <;> omega

/-- reader on a kept cache at an offset the cache reported valid -/
theorem openReader_keep_valid {c : Cache} (hc : CacheWF c) {off : Int} (hv : c.inRange off = true)
    {id : Id} (h1 : id ≠ []) (h2 : id ≠ qId) (hl : 0 ≤ c.latest) :
    (openReader { c with runId := id, aof := keptAof c } off = .aof off ∧ off ≤ c.latest ∧
        (match c.aof with | some (l, _) => l ≤ off | none => c.latest ≤ off)) ∨
    (∃ left size, c.rdb = some (left, size) ∧ off < left ∧
        openReader { c with runId := id, aof := keptAof c } off = .rdb left size) := by
  rw [inRange_iff hc] at hv
  have hin : Cache.inRange { c with runId := id, aof := keptAof c } off = true :=
    (inRange_iff (kept_wf hc hl h1 h2) off).mpr (kept_covers id hv)
  obtain ⟨be, rid, rdb, aof⟩ := c
  obtain ⟨ha, hr, hcg, _⟩ := hc
  rcases rdb with _ | ⟨left, size⟩ <;> rcases aof with _ | ⟨l, r⟩ <;>
    simp only [keptAof, Cache.latest, rdbCovers, aofCovers] at hl hv ha hr hcg hin <;>
    simp only [openReader, hin, keptAof, Cache.latest]
  · omega
  · simp only [false_or] at hv
    have e : l ≤ off ∧ r ≥ off := by omega
    left; simp [e] <;> omega
  · simp only [or_false] at hv
    by_cases e : left ≤ off ∧ left ≥ off
    · left; simp [e] <;> omega
    · right; refine ⟨left, size, rfl, by omega, ?_⟩
      simp [e] <;> omega
  · have hcg' : left ≤ l := by split at hcg <;> omega
    simp only [reduceCtorEq, and_false, or_false] at hv
    by_cases e : l ≤ off ∧ r ≥ off
    · left; simp [e] <;> omega
    · right; refine ⟨left, size, rfl, by omega, ?_⟩
      simp [e] <;> omega

theorem openReader_keep_rdb {c : Cache} (hc : CacheWF c) {left size : Int} (hr : c.rdb = some (left, size))
    {id : Id} (h1 : id ≠ []) (h2 : id ≠ qId) (hl : 0 ≤ c.latest) :
    openReader { c with runId := id, aof := keptAof c } (left - size) = .rdb left size := by
  have hsz : 0 < size := by have := hc.rdb_ok; rw [hr] at this; exact this.2.1
  have hv : c.inRange (left - size) = true := by
    rw [inRange_iff hc]; left; simp only [rdbCovers, hr]; omega
  rcases openReader_keep_valid hc hv h1 h2 hl with ⟨_, h3, h4⟩ | ⟨l', s', e, _, h⟩
  · exfalso
    have hcg := hc.contig
    rw [hr] at hcg
    cases ha : c.aof with
    | none => rw [ha] at h4; simp only at h4; rw [latest_rdb ha hr] at h4; omega
    | some p =>
      obtain ⟨l, r⟩ := p
      rw [ha] at h4 hcg; simp only at h4 hcg
      split at hcg <;> omega
  · rw [hr] at e; cases e; exact h

theorem run_keep {w : World} {s : Source} {sp : SP} {c : Cache} {d : CData}
    (hs : SourceWF s) {br : Nat} {ps : PsyncRes} {outOff : Int}
    (hd : decision s sp c = ⟨br, ps, false, ⟨c.runId, c.latest⟩, outOff⟩)
    (hps : ps.full = false ∧ ps.wireOff = c.latest + 1 ∧ ps.reqId = c.runId)
    (hcont : (sendPSync s c.runId c.latest).full = false)
    (hcid : c.runId = s.id1 ∨ c.runId = s.id2) (r : Result) (hr : r = run w s sp c d) :
    r.mt.ps.full = false ∧ r.mt.clearLocal = false ∧ r.mt.deleted = false ∧ r.mt.runId = s.id1 ∧
    r.mt.ps.reqId = c.runId ∧ r.mt.ps.wireOff = c.latest + 1 ∧ 0 ≤ c.latest ∧ c.latest ≤ s.masterOff ∧
    (c.runId = s.id1 ∨ (c.runId = s.id2 ∧ c.latest ≤ s.switchOff)) ∧
    r.mt.locSp = ⟨s.id1, c.latest⟩ ∧ r.writer = .aof c.latest ∧
    r.data = ⟨fun n => if c.latest ≤ n then w.hist s.id1 (c.latest + 1 - 1 + (n - c.latest)) else d.aofByte n, d.rdbTok⟩ ∧
    r.reader = openReader { c with runId := s.id1, aof := keptAof c } outOff ∧
    r.delivery = (match openReader { c with runId := s.id1, aof := keptAof c } outOff with
        | .aof o => Delivery.stream o r.data.aofByte
        | .rdb left sz => Delivery.snapshot d.rdbTok left sz
        | .notExist => Delivery.none) ∧
    (∀ k, cacheAfter r.mt k =
      { c with runId := s.id1,
               aof := match c.aof with
                 | some (l, r) => some (l, r + k)
                 | none => if k > 0 then some (c.latest, c.latest + k) else none }) ∧
    r.mt.cache = { c with runId := s.id1 } ∧ s.backlog = true := by
  obtain ⟨h0, _, _, hsid, hle, _, hbl⟩ := sendPSync_cont hs hcont
  obtain ⟨hpf, hpw, hpr⟩ := hps
  have hreal : c.runId ≠ [] := by
    rcases hcid with e | e <;> rw [e]
    · exact hs.id1_ne
    · exact hs.id2_ne
  have hm : syncMeta s sp c =
      { loc0 := c.startPoint [s.id1, s.id2], branch := br, ps := ps,
        clearLocal := false, runId := s.id1, deleted := false,
        locSp := ⟨s.id1, c.latest⟩, outSp := ⟨s.id1, outOff⟩, rdbSize := ps.rdbSize,
        cache := { c with runId := s.id1 } } := by
    simp only [syncMeta, hd, hpf, Bool.false_or, Bool.false_eq_true, if_false,
      set_keep hreal hs.id1_ne hs.id1_nq]
  have hw : openWriter (syncMeta s sp c) = (.aof c.latest, { c with runId := s.id1, aof := keptAof c }) := by
    rw [hm]
    simp only [openWriter, hpf, Bool.false_eq_true, if_false]
    cases ha : c.aof with
    | none => simp [keptAof, ha]
    | some p => obtain ⟨l, r⟩ := p; simp [keptAof, ha, latest_aof ha]
  have ho : (syncMeta s sp c).outSp.offset = outOff := by rw [hm]
  have hdel : (syncMeta s sp c).deleted = false := by rw [hm]
  have hwo : (syncMeta s sp c).ps.wireOff = c.latest + 1 := by rw [hm]; exact hpw
  rw [run_of_aof hw, ho] at hr
  simp only [hdel, Bool.false_eq_true, if_false, hwo] at hr
  subst hr
  refine ⟨?_, ?_, ?_, ?_, ?_, ?_, h0, hle, hsid, ?_, rfl, rfl, rfl, rfl, ?_, ?_, hbl⟩
  · simp only [hm, hpf]
  · simp only [hm]
  · simp only [hm]
  · simp only [hm]
  · simp only [hm, hpr]
  · simp only [hm, hpw]
  · simp only [hm]
  · intro k
    simp only [cacheAfter, hw]
    simp only [hm]
    cases ha : c.aof with
    | none => simp
    | some p => obtain ⟨l, r⟩ := p; simp
  · simp only [hm]

/-- every connection ends in exactly one of the three outcomes -/
theorem run_spec {w : World} {s : Source} {sp : SP} {c : Cache} {d : CData}
    (hs : SourceWF s) (hc : CacheWF c) :
    FullSpec w s c (run w s sp c d) ∨ KeepSpec w s sp c d (run w s sp c d) ∨
      ClearSpec w s sp c (run w s sp c d) := by
  by_cases hf : (decision s sp c).ps.full = true
  · exact Or.inl (run_full hs hc hf)
  · have hd := decision_cases hs sp c
    generalize hdc : decision s sp c = dc at hd hf
    cases hd with
    | keep1 hout hcid hv =>
      have hcont : (sendPSync s c.runId c.latest).full = false := by simpa using hf
      obtain ⟨a1, a2, a3, a4, a5, a6, a7, a8, a9, a10, a11, a12, a13, a14, a15, a16, a17⟩ :=
        run_keep (w := w) (d := d) hs hdc ⟨hcont, (sendPSync_cont hs hcont).2.1, sendPSync_reqId _ _ _⟩ hcont hcid _ rfl
      right; left
      refine ⟨a1, a2, a3, a4, a5, a6, a7, a8, a9, a10, a11, a12, ?_, a15, a16, a17⟩
      rcases openReader_keep_valid hc hv hs.id1_ne hs.id1_nq a7 with ⟨h1, h2, h3⟩ | ⟨left, size, e, hlt, h⟩
      · left
        rw [h1] at a13 a14
        exact ⟨a13, a14, hout, h2, h3⟩
      · right
        rw [h] at a13 a14
        exact ⟨left, size, e, Or.inr ⟨hout, hlt⟩, a13, a14⟩
    | clear br loc0 hout =>
      have hcont : (sendPSync s sp.runId sp.offset).full = false := by simpa using hf
      exact Or.inr (Or.inr (run_clear hs hc hdc hcont))
    | rdb4full left size hr hcid hfull _ => exact absurd hfull hf
    | rdb4 left size hr hcid hcont hini =>
      have hl : c.range.2 = c.latest := range_snd hc (Or.inl (by simp [hr]))
      rw [hl] at hdc
      obtain ⟨a1, a2, a3, a4, a5, a6, a7, a8, a9, a10, a11, a12, a13, a14, a15, a16, a17⟩ :=
        run_keep (w := w) (d := d) hs hdc ⟨hcont, (sendPSync_cont hs hcont).2.1, sendPSync_reqId _ _ _⟩ hcont hcid _ rfl
      right; left
      refine ⟨a1, a2, a3, a4, a5, a6, a7, a8, a9, a10, a11, a12, ?_, a15, a16, a17⟩
      right
      rw [openReader_keep_rdb hc hr hs.id1_ne hs.id1_nq a7] at a13 a14
      exact ⟨left, size, hr, Or.inl hini, a13, a14⟩
    | fresh br loc0 =>
      exact absurd (qId_not_admitted hs (-1)) hf

/-- `clearLocal` and FULLRESYNC both drop the cache. -/
theorem cleared_or_full_deletes (s : Source) (sp : SP) (c : Cache) :
    ((syncMeta s sp c).clearLocal = true ∨ (syncMeta s sp c).ps.full = true) →
      (syncMeta s sp c).deleted = true := by
  intro h
  simp only [syncMeta] at h ⊢
  rcases h with h | h <;> simp [h]

theorem run_mt (w : World) (s : Source) (sp : SP) (c : Cache) (d : CData) :
    (run w s sp c d).mt = syncMeta s sp c := by
  simp only [run]
  split <;> rfl

/-- a cache whose label the source accepted for a continuation (`cid`: the current id,
    or the previous id up to the switch offset) holds the current history -/
theorem keep_holds {w : World} {s : Source} {c : Cache} {d : CData}
    (hc : CacheWF c) (hok : CacheOK w s c d) (hag : Agree w s)
    (hcid : c.runId = s.id1 ∨ (c.runId = s.id2 ∧ c.latest ≤ s.switchOff)) : Holds w s.id1 c d := by
  rcases hcid with e | ⟨e, hle⟩
  · exact hok.cur e
  · rcases hok.prev e with h2 | h1
    · obtain ⟨ha, hr⟩ := h2
      obtain ⟨wa, wr, wc, _⟩ := hc
      obtain ⟨be, rid, rdb, aof⟩ := c
      simp only at ha hr wa wr wc
      rcases rdb with _ | ⟨left, size⟩ <;> rcases aof with _ | ⟨l, r⟩ <;>
        simp only [Cache.latest] at hle ha hr wa wr wc <;> refine ⟨?_, ?_⟩ <;> simp only
      · intro n h1 h2; rw [ha n h1 h2]; exact hag n (by omega) (by omega)
      · exact ⟨hr.1, fun n h0 hn => by rw [hr.2 n h0 hn]; exact hag n h0 (by omega)⟩
      · intro n h1 h2; rw [ha n h1 h2]; exact hag n (by omega) (by omega)
      · have : left ≤ l := by split at wc <;> omega
        exact ⟨hr.1, fun n h0 hn => by rw [hr.2 n h0 hn]; exact hag n h0 (by omega)⟩
    · exact h1

/-- everything a log delivery implies, whatever label the stored position carries:
    it starts at the stored offset (not negative), the source granted CONTINUE for
    an id it serves, every byte from there on is the current history's, and if
    neither the stored position nor the cache is labelled with the current id the
    source has checked the offset against its switch offset. -/
theorem stream_facts {w : World} {s : Source} {sp : SP} {c : Cache} {d : CData}
    (hs : SourceWF s) (hc : CacheWF c) (hok : CacheOK w s c d) (hag : Agree w s)
    {start : Int} {byte : Int → UInt8} (h : (run w s sp c d).delivery = .stream start byte) :
    start = sp.offset ∧ 0 ≤ sp.offset ∧ (run w s sp c d).mt.ps.full = false ∧
    (sp.runId = s.id1 ∨ sp.runId = s.id2) ∧
    (∀ n, sp.offset ≤ n → byte n = w.hist s.id1 n) ∧
    (sp.runId ≠ s.id1 → NotYetCurrent s c → sp.offset ≤ s.switchOff) := by
  rcases run_spec (w := w) (sp := sp) (d := d) hs hc with hF | hK | hC
  · rw [hF.delivery] at h; cases h
  · have hcid := hK.cid
    rcases hK.read with ⟨_, hdel, hout, hle, hlow⟩ | ⟨_, _, _, _, _, hdel⟩
    · rw [hdel] at h
      cases h
      have hh := keep_holds hc hok hag hcid
      have h0 : 0 ≤ sp.offset := by
        cases ha : c.aof with
        | none => rw [ha] at hlow; simp only at hlow; have := hK.lat_nonneg; omega
        | some p =>
          obtain ⟨l, rr⟩ := p
          rw [ha] at hlow; simp only at hlow
          have h2 := hc.aof_ok; rw [ha] at h2; simp only at h2
          omega
      refine ⟨rfl, h0, hK.full, hout, ?_, ?_⟩
      · intro n hn
        rw [hK.data]
        simp only
        by_cases hl : c.latest ≤ n
        · rw [if_pos hl]; congr 1; omega
        · rw [if_neg hl]
          cases ha : c.aof with
          | none => rw [ha] at hlow; simp only at hlow; omega
          | some p =>
            obtain ⟨l, rr⟩ := p
            rw [ha] at hlow; simp only at hlow
            have h1 := hh.aof_hist; rw [ha] at h1; simp only at h1
            have hlat := latest_aof ha
            exact h1 n (by omega) (by omega)
      · intro _ hc1
        rcases hcid with e | ⟨_, hsw⟩
        · rcases hc1 with hc1 | ⟨hr, ha⟩
          · exact absurd e hc1
          · have := hK.lat_nonneg
            rw [latest_none ha hr] at this
            omega
        · omega
    · rw [hdel] at h; cases h
  · rw [hC.delivery] at h
    cases h
    refine ⟨rfl, hC.off_nonneg, hC.full, ?_, ?_, ?_⟩
    · rcases hC.sid with e | ⟨e, _⟩
      · exact Or.inl e
      · exact Or.inr e
    · intro n hn
      rw [hC.data]
      simp only
      rw [if_pos hn]; congr 1; omega
    · intro h1 _
      rcases hC.sid with e | ⟨_, hsw⟩
      · exact absurd e h1
      · exact hsw

/-! ### the collector keeps the cache hypotheses -/

theorem collected_wf {c c' : Cache} (hc : CacheWF c) (h : Collected c c') : CacheWF c' := by
  obtain ⟨be, rid, rdb, aof⟩ := c
  obtain ⟨be', rid', rdb', aof'⟩ := c'
  obtain ⟨hb, hr, hrdb, haof, hord⟩ := h
  obtain ⟨wa, wr, wc, wl⟩ := hc
  simp only at hb hr hrdb haof hord wa wr wc wl
  subst hb; subst hr
  refine ⟨?_, ?_, ?_, ?_⟩
  · -- log range
    simp only
    rcases aof with _ | ⟨l, r⟩
    · simp only at haof; subst haof; trivial
    · simp only at haof wa
      rcases haof with e | ⟨l', e, h1, h2⟩
      · subst e; trivial
      · subst e; simp only; omega
  · simp only
    rcases hrdb with e | e <;> rw [e]
    · exact wr
    · trivial
  · simp only
    rcases hrdb with e | e
    · rw [e]
      rcases rdb with _ | ⟨left, size⟩
      · trivial
      · rcases aof with _ | ⟨l, r⟩
        · simp only at haof; subst haof; trivial
        · simp only at haof wc wa
          rcases haof with e | ⟨l', e, h1, h2⟩
          · subst e; trivial
          · subst e
            simp only
            cases be'
            · -- disk: a changed log range means the snapshot is gone
              simp only [if_true] at wc ⊢
              by_cases hl : l' = l
              · omega
              · have hnone := hord rfl (by intro x; cases x; exact hl rfl)
                rw [e] at hnone
                cases hnone
            · simp only [reduceCtorEq, if_false] at wc ⊢
              omega
    · rw [e]; cases aof' <;> trivial
  · intro hl
    obtain ⟨e1, e2⟩ := wl hl
    subst e1; subst e2
    simp only at haof
    refine ⟨?_, haof⟩
    rcases hrdb with e | e <;> exact e

theorem collected_holds {w : World} {hid : Id} {c c' : Cache} {d : CData} (hok : Holds w hid c d)
    (h : Collected c c') : Holds w hid c' d := by
  obtain ⟨be, rid, rdb, aof⟩ := c
  obtain ⟨be', rid', rdb', aof'⟩ := c'
  obtain ⟨hb, hr, hrdb, haof, _⟩ := h
  obtain ⟨oa, ot⟩ := hok
  simp only at hb hr hrdb haof oa ot
  subst hb; subst hr
  refine ⟨?_, ?_⟩
  · simp only
    rcases aof with _ | ⟨l, r⟩
    · simp only at haof; subst haof; trivial
    · simp only at haof oa
      rcases haof with e | ⟨l', e, h1, h2⟩
      · subst e; trivial
      · subst e; simp only
        intro n hn1 hn2
        exact oa n (by omega) hn2
  · simp only
    rcases hrdb with e | e <;> rw [e]
    · exact ot
    · trivial

theorem collected_ok {w : World} {s : Source} {c c' : Cache} {d : CData} (hok : CacheOK w s c d)
    (h : Collected c c') : CacheOK w s c' d :=
  ⟨fun e => collected_holds (hok.cur (by rw [← h.runId]; exact e)) h,
   fun e => (hok.prev (by rw [← h.runId]; exact e)).imp (fun x => collected_holds x h) (fun x => collected_holds x h)⟩

theorem collected_notYetCurrent {s : Source} {c c' : Cache} (h : Collected c c')
    (hn : NotYetCurrent s c) : NotYetCurrent s c' := by
  rcases hn with hn | ⟨hr, ha⟩
  · exact Or.inl (by rw [h.runId]; exact hn)
  · right
    have h1 := h.rdb
    have h2 := h.aof
    rw [hr] at h1
    rw [ha] at h2
    exact ⟨by rcases h1 with e | e <;> exact e, h2⟩

end GunYu.Psync
