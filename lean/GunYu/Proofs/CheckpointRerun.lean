/-
  Helper lemmas for C17, part 5: what a cut of UpdateCheckpoint leaves (the crash states) and
  the next start on them — UpdateCheckpoint again, to completion, then the read under the
  LOCAL key. Core only.
-/
import GunYu.Proofs.CheckpointUpdate

namespace GunYu.Checkpoint
open GunYu

set_option linter.unusedSimpArgs false
set_option linter.unusedVariables false

/-! ### the two ids in the other order -/

theorem matchId_swap (a b : Bytes) : matchId [a, b] = matchId [b, a] := by
  funext x
  rw [Bool.eq_iff_iff, matchId_pair, matchId_pair]
  exact Or.comm

theorem offSel_swap (a b : Bytes) : offSel [a, b] = offSel [b, a] := by
  funext e; simp only [offSel, matchId_swap a b]

theorem ridSel_swap (a b : Bytes) : ridSel [a, b] = ridSel [b, a] := by
  funext e; simp only [ridSel, matchId_swap a b]

theorem offOf_swap (a b : Bytes) (fs : Cp) : offOf [a, b] fs = offOf [b, a] fs := by
  have : offStep [a, b] = offStep [b, a] := by
    funext o e; simp only [offStep, offSel_swap a b]
  simp only [offOf, this]

theorem ridOf_swap (a b : Bytes) (fs : Cp) : ridOf [a, b] fs = ridOf [b, a] fs := by
  have : ridStep [a, b] = ridStep [b, a] := by
    funext o e; simp only [ridStep, ridSel_swap a b]
  simp only [ridOf, this]

theorem Parses.swap {a b : Bytes} {fs : Cp} (h : Parses [a, b] fs) : Parses [b, a] fs :=
  h.sub (fun x hx => by rw [matchId_swap a b]; exact hx)

theorem OffBelow.swap {a b : Bytes} {fs : Cp} {X : Int} (h : OffBelow [a, b] fs X) :
    OffBelow [b, a] fs X :=
  h.sub (fun x hx => by rw [matchId_swap a b]; exact hx)

theorem Holds.swap {a b : Bytes} {t : Target} {n : Bytes} {d : Nat} {X : Int}
    (h : Holds [a, b] t n d X) : Holds [b, a] t n d X :=
  ⟨h.nonneg, fun db => (h.parses db).swap, by rw [← offOf_swap]; exact h.off,
   by rw [← ridOf_swap]; exact h.rid, fun db hdb => (h.dom db hdb).swap⟩

theorem LocOk.swap {a b : Bytes} {t : Target} {loc : Bytes} {d : Nat} {X : Int}
    (h : LocOk [a, b] t loc d X) : LocOk [b, a] t loc d X :=
  ⟨fun db => (h.parses db).swap, fun db hdb => (h.below db hdb).swap,
   by rw [← offOf_swap, ← matchId_swap]; exact h.atd,
   by rw [← ridSel_swap]; exact h.ridok⟩

/-! ### the checkpoint hash -/

/-- `x` has no usable entry in the checkpoint hash -/
def Unmapped (h : List (Bytes × Bytes)) (x : Bytes) : Prop := hlookup h x = none ∨ hlookup h x = some []

theorem getHash_of_second {h : List (Bytes × Bytes)} {a b n : Bytes} (ha : Unmapped h a)
    (hb : hlookup h b = some n) : getHash h [a, b] = some (n, b) := by
  rcases ha with ha | ha <;> simp [getHash, ha, hb]

/-- what `getHash` resolving to a non-empty name says about the two entries -/
theorem getHash_cases {h : List (Bytes × Bytes)} {a b n r : Bytes} (hg : getHash h [a, b] = some (n, r))
    (hn0 : n ≠ []) :
    (r = a ∧ hlookup h a = some n) ∨ (r = b ∧ hlookup h b = some n ∧ Unmapped h a) := by
  simp only [getHash] at hg
  have second : ∀ (hu : Unmapped h a),
      (match hlookup h b with | none => some (([] : Bytes), ([] : Bytes)) | some m => some (m, b)) = some (n, r) →
      r = b ∧ hlookup h b = some n ∧ Unmapped h a := by
    intro hu hs
    cases hl2 : hlookup h b with
    | none => rw [hl2] at hs; simp only [Option.some.injEq, Prod.mk.injEq] at hs; exact absurd hs.1.symm hn0
    | some m =>
      rw [hl2] at hs; simp only [Option.some.injEq, Prod.mk.injEq] at hs
      exact ⟨hs.2.symm, by rw [hs.1], hu⟩
  cases hl : hlookup h a with
  | none => simp only [hl] at hg; exact Or.inr (second (Or.inl hl) hg)
  | some m =>
    simp only [hl] at hg
    by_cases hm : m ≠ []
    · rw [if_pos hm] at hg
      simp only [Option.some.injEq, Prod.mk.injEq] at hg
      exact Or.inl ⟨hg.2.symm, by rw [hg.1]⟩
    · rw [if_neg hm] at hg
      have hm' : m = [] := by simpa using hm
      exact Or.inr (second (Or.inr (by rw [hl, hm'])) hg)

theorem hlookup_hashDel_self (h : List (Bytes × Bytes)) (k : Bytes) : hlookup (hashDel h k) k = none := by
  unfold hlookup hashDel
  apply List.lookup_eq_none_iff.mpr
  intro p hp
  have := (List.mem_filter.mp hp).2
  simp only [ne_eq, decide_not, Bool.not_eq_eq_eq_not, Bool.not_true, decide_eq_false_iff_not] at this
  simp only [bne_iff_ne, ne_eq]
  exact fun h => this h.symm

theorem Unmapped.hashSet {h : List (Bytes × Bytes)} {x k v : Bytes} (hu : Unmapped h x) (hne : x ≠ k) :
    Unmapped (hashSet h k v) x := by
  unfold Unmapped; rw [hlookup_hashSet_ne h k v x hne]; exact hu

theorem Unmapped.hashDel {h : List (Bytes × Bytes)} {x k : Bytes} (hu : Unmapped h x) :
    Unmapped (hashDel h k) x := by
  unfold Unmapped
  by_cases hx : x = k
  · subst hx; left; exact hlookup_hashDel_self h x
  · rw [hlookup_hashDel_ne h k x hx]; exact hu

/-- a start whose first id is the one the hash maps to the LOCAL key has nothing to do -/
theorem updateReqs_noop (ver : Bytes) {t : Target} {loc p q : Bytes} (o1 o2 : List Nat) (now : Int)
    (h : getHash t.hash [p, q] = some (loc, p)) : updateReqs ver t loc [p, q] o1 o2 now = [] := by
  simp [updateReqs, h]

theorem startIds_eq {h : List (Bytes × Bytes)} {a b n r : Bytes} (hg : getHash h [a, b] = some (n, r)) :
    startIds h [a, b] = if r = b ∧ b ≠ a then [b, a] else [a, b] := by
  simp only [startIds, hg]

/-! ### the complete operation -/

/-- after the complete operation the position is held under the LOCAL key -/
theorem update_complete_holds (ver : Bytes) {id1 id2 loc : Bytes} {t₀ : Target} {n r : Bytes} {d : Nat}
    {X : Int} {now : Int} (P : UpdPre id1 id2 loc t₀ n r d X now) (o1 o2 : List Nat) (ho1 : d ∈ o1) :
    Holds [id1, id2] (applyAll t₀ (updateReqs ver t₀ loc [id1, id2] o1 o2 now)) loc d X := by
  have h := update_prefix_inv' ver P o1 o2 ho1 ((updateReqs ver t₀ loc [id1, id2] o1 o2 now).length + 2)
  rw [List.take_of_length_le (by omega)] at h
  obtain ⟨n', r', _, _, hH, h2, h0⟩ := h
  by_cases hbr : n ≠ loc ∨ id1 ≠ r
  · have e := (h2 hbr (by omega)).1
    rw [e] at hH; exact hH
  · have hn : n = loc := by
      by_cases h : n = loc
      · exact h
      · exact absurd (Or.inl h) hbr
    have e := (h0 hbr).1
    rw [e, hn] at hH; exact hH

/-! ### the state after the first request (HSET of the re-keyed position under the LOCAL key) -/

def firstReq (c : CpInfo) (d : Nat) (loc id1 : Bytes) (now : Int) : Req :=
  Req.hsetCp d loc (cpEntries { c with runId := id1 } now)

structure FirstFacts (id1 id2 loc : Bytes) (t₀ s₁ : Target) (n : Bytes) (d : Nat) (X : Int) : Prop where
  hash : s₁.hash = t₀.hash
  holds : Holds [id1, id2] s₁ n d X
  own : RunidOwn s₁ n
  locok : n ≠ loc → LocOk [id1, id2] s₁ loc d X

theorem first_facts {id1 id2 loc : Bytes} {t₀ : Target} {n r : Bytes} {d : Nat} {X : Int} {now : Int}
    (P : UpdPre id1 id2 loc t₀ n r d X now) {c : CpInfo}
    (hfetch : fetch [id1, id2] (t₀.cps d n) = some c) (hcX : c.offset = X) :
    FirstFacts id1 id2 loc t₀ (applyReq t₀ (firstReq c d loc id1 now)) n d X := by
  obtain ⟨c', hc', hoff', hrid'⟩ := fetch_spec [id1, id2] (t₀.cps d n) (P.holds.parses d)
  have hcc : c' = c := by rw [hfetch] at hc'; exact (Option.some.inj hc').symm
  subst hcc
  have w : WArgs c' id1 now X := ⟨P.h1, P.h1q, hcX, by rw [← hcX, hoff']; exact offOf_range _ _, P.hnow⟩
  have hm1 : matchId [id1, id2] id1 = true := (matchId_pair id1 id2 id1).mpr (Or.inl rfl)
  have hq2 : ∀ e ∈ t₀.cps d n, ridSel [id1, id2] e = true → e.val ≠ qmark := by
    intro e he hs
    rw [ridSel_iff] at hs
    rw [P.own d e he hs.2]
    rcases (matchId_pair id1 id2 _).mp hs.1 with h | h <;> rw [h]
    · exact P.h1q
    · exact P.h2q
  have hcps1 : ∀ db nm, (applyReq t₀ (firstReq c' d loc id1 now)).cps db nm =
      if db = d ∧ nm = loc then written (t₀.cps d loc) c' id1 now else t₀.cps db nm := by
    intro db nm
    show (applyReq t₀ (Req.hsetCp d loc _)).cps db nm = _
    rw [applyReq_hsetCp_cps, hsetMany_cpEntries _ _ _ _ P.h1]; rfl
  refine ⟨rfl, ?_, ?_, ?_⟩
  · by_cases hnl : n = loc
    · apply P.holds.update _ d
      · intro db hdb; rw [hcps1]; simp [hdb]
      · rw [hcps1]; simp only [hnl, and_self, if_true]
        exact written_parses w (hnl ▸ P.holds.parses d)
      · intro _
        rw [hcps1]; simp only [hnl, and_self, if_true]
        exact ⟨written_off_same w hm1 (hnl ▸ P.holds.parses d) (hnl ▸ P.holds.off),
          written_rid w hm1 (hnl ▸ hq2)⟩
      · intro h; exact absurd rfl h
    · apply P.holds.congr
      intro db; rw [hcps1]
      have : ¬ (db = d ∧ n = loc) := fun h => hnl h.2
      simp [this]
  · intro db e he hk
    rw [hcps1] at he
    split at he
    · rename_i hc
      exact written_own (hc.2 ▸ P.own d) e he hk
    · exact P.own db e he hk
  · intro hnl
    have hfr := P.fresh hnl
    refine ⟨?_, ?_, ?_, ?_⟩
    · intro db
      rw [hcps1]
      by_cases hdb : db = d
      · subst hdb; simp only [and_self, if_true]; exact written_parses w (hfr.parses db)
      · simp only [hdb, false_and, if_false]; exact hfr.parses db
    · intro db hdb
      rw [hcps1]; simp only [hdb, false_and, if_false]; exact hfr.below db hdb
    · left
      rw [hcps1]; simp only [and_self, if_true]
      rcases hfr.atd with hx | hno
      · exact written_off_same w hm1 (hfr.parses d) hx
      · apply written_off_fresh w hm1
        intro e he hs
        rw [offSel_iff, hno e he] at hs; exact absurd hs.1 (by decide)
    · intro db e he hs
      rw [hcps1] at he
      split at he
      · rcases mem_result he with rfl | he' | he'
        · rw [ridSel_iff] at hs; exact absurd hs.2 (by simp [cpOff])
        · rw [ridSel_iff] at hs
          rw [(mem_cpPre he').2.2.2.1 hs.2]; exact P.h1q
        · exact hfr.ridok d e he' hs
      · exact hfr.ridok db e he hs

theorem FirstFacts.refl {id1 id2 loc : Bytes} {t₀ : Target} {n r : Bytes} {d : Nat} {X : Int} {now : Int}
    (P : UpdPre id1 id2 loc t₀ n r d X now) : FirstFacts id1 id2 loc t₀ t₀ n d X :=
  ⟨rfl, P.holds, P.own, P.fresh⟩

/-! ### the crash states of UpdateCheckpoint -/

theorem unmapped_applyAll_updRest {n oldId id1 loc x : Bytes} {o2 : List Nat} (rs : List Req) :
    ∀ {t : Target}, (∀ q ∈ rs, q ∈ updRest n oldId id1 loc o2) → Unmapped t.hash x →
      Unmapped (applyAll t rs).hash x := by
  induction rs with
  | nil => intro t _ h; exact h
  | cons q rs ih =>
    intro t hq hu
    simp only [applyAll, List.foldl_cons]
    apply ih (fun q' hq' => hq q' (List.mem_cons_of_mem _ hq'))
    have hm := hq q (List.mem_cons_self ..)
    unfold updRest at hm
    split at hm
    · rcases List.mem_append.mp hm with hm | hm
      · obtain ⟨db, _, rfl⟩ := List.mem_map.mp hm
        exact hu
      · split at hm
        · have : q = Req.hdelHash oldId := by simpa using hm
          subst this
          exact hu.hashDel
        · simp at hm
    · simp at hm

/-- A crash state of `UpdateCheckpoint(loc, [id1, id2])` (any prefix `k` of its requests) is of
    one of two kinds: (A) the checkpoint hash is untouched and the state is the initial one or the
    one after the first HSET under the LOCAL key (`FirstFacts`); (B) the hash maps `id1` to the
    LOCAL key and the position is held under it. -/
theorem crash_class (ver : Bytes) {id1 id2 loc : Bytes} {t₀ : Target} {n r : Bytes} {d : Nat}
    {X : Int} {now : Int} (P : UpdPre id1 id2 loc t₀ n r d X now) (o1 o2 : List Nat)
    (ho1 : d ∈ o1) (k : Nat) :
    FirstFacts id1 id2 loc t₀ (applyAll t₀ ((updateReqs ver t₀ loc [id1, id2] o1 o2 now).take k)) n d X ∨
    (getHash (applyAll t₀ ((updateReqs ver t₀ loc [id1, id2] o1 o2 now).take k)).hash [id1, id2]
        = some (loc, id1) ∧
      Holds [id1, id2] (applyAll t₀ ((updateReqs ver t₀ loc [id1, id2] o1 o2 now).take k)) loc d X ∧
      (Unmapped t₀.hash id2 →
        Unmapped (applyAll t₀ ((updateReqs ver t₀ loc [id1, id2] o1 o2 now).take k)).hash id2)) := by
  obtain ⟨c, hgc, hcX, hcq, hfetch⟩ := getCheckpoint_of_holds ver P.holds o1 ho1
  have hshape := updateReqs_shape ver (loc := loc) o1 o2 now P.hn P.hn0 hgc
  by_cases hbr : n ≠ loc ∨ id1 ≠ r
  case neg =>
    left
    rw [hshape]; simp only [hbr, if_false, List.take_nil]
    exact FirstFacts.refl P
  cases k with
  | zero => left; simp only [List.take_zero]; exact FirstFacts.refl P
  | succ k =>
  cases k with
  | zero =>
    left
    rw [hshape]; simp only [hbr, if_true, List.take_succ_cons, List.take_zero, applyAll, List.foldl_cons,
      List.foldl_nil]
    exact first_facts P hfetch hcX
  | succ k =>
    right
    obtain ⟨n', r', _, hh, hH, h2, _⟩ := update_prefix_inv' ver P o1 o2 ho1 (k + 2)
    obtain ⟨e1, e2⟩ := h2 hbr (by omega)
    subst e1; subst e2
    refine ⟨hh, hH, ?_⟩
    intro hu
    rw [hshape]; simp only [hbr, if_true, List.take_succ_cons, applyAll, List.foldl_cons]
    apply unmapped_applyAll_updRest (n := n) (oldId := c.runId) (id1 := r') (loc := n') (o2 := o2)
    · intro q hq; exact mem_take hq
    · show Unmapped (hashSet t₀.hash r' n') id2
      exact hu.hashSet (fun h => P.hne h.symm)

/-! ### the next start on a crash state -/

/-- the start swapped the reported ids `[b, a]` to `[a, b]`: the hash maps `a`, not `b` -/
theorem startIds_swapped {h : List (Bytes × Bytes)} {a b : Bytes} (hne : a ≠ b) (ha : a ≠ [])
    (hs : startIds h [b, a] = [a, b]) : Unmapped h b ∧ ∃ m, hlookup h a = some m := by
  have hba : ([b, a] : List Bytes) ≠ [a, b] := by
    intro h; exact hne (List.cons.inj h).1.symm
  simp only [startIds] at hs
  cases hg : getHash h [b, a] with
  | none => rw [hg] at hs; exact absurd hs hba
  | some p =>
    obtain ⟨m, r0⟩ := p
    rw [hg] at hs
    simp only at hs
    have hr0 : r0 = a := by
      by_cases hc : r0 = a ∧ a ≠ b
      · exact hc.1
      · rw [if_neg hc] at hs; exact absurd hs hba
    subst hr0
    simp only [getHash] at hg
    cases hl : hlookup h b with
    | none =>
      simp only [hl] at hg
      cases hl2 : hlookup h r0 with
      | none => simp only [hl2, Option.some.injEq, Prod.mk.injEq] at hg; exact absurd hg.2.symm ha
      | some m' => exact ⟨Or.inl hl, m', rfl⟩
    | some mb =>
      simp only [hl] at hg
      by_cases hm : mb ≠ []
      · rw [if_pos hm] at hg
        simp only [Option.some.injEq, Prod.mk.injEq] at hg
        exact absurd hg.2.symm hne
      · rw [if_neg hm] at hg
        have hm' : mb = [] := by simpa using hm
        cases hl2 : hlookup h r0 with
        | none => simp only [hl2, Option.some.injEq, Prod.mk.injEq] at hg; exact absurd hg.2.symm ha
        | some m' => exact ⟨Or.inr (by rw [hl, hm']), m', rfl⟩

/-- reading the position under the LOCAL key -/
theorem read_local (ver : Bytes) {a b : Bytes} {t : Target} {loc : Bytes} {d : Nat} {X : Int}
    (h : Holds [a, b] t loc d X) (oS : List Nat) (hoS : d ∈ oS) :
    (∃ c, getCheckpoint ver t loc [a, b] oS = some (c, (d : Int)) ∧ c.offset = X) ∧
    (∃ c, getCheckpoint ver t loc [b, a] oS = some (c, (d : Int)) ∧ c.offset = X) := by
  obtain ⟨c, h1, h2, _, _⟩ := getCheckpoint_of_holds ver h oS hoS
  obtain ⟨c', h1', h2', _, _⟩ := getCheckpoint_of_holds ver h.swap oS hoS
  exact ⟨⟨c, h1, h2⟩, ⟨c', h1', h2'⟩⟩

/-- a state of kind (A) satisfies the preconditions again: the operation can be run on it -/
theorem FirstFacts.updPre {id1 id2 loc : Bytes} {t₀ t₁ : Target} {n r : Bytes} {d : Nat} {X : Int}
    {now now' : Int} (F : FirstFacts id1 id2 loc t₀ t₁ n d X) (P : UpdPre id1 id2 loc t₀ n r d X now)
    (hnow' : -(2^63 : Int) ≤ now' ∧ now' < 2^63) : UpdPre id1 id2 loc t₁ n r d X now' :=
  ⟨P.hne, P.h1, P.h1q, P.h2q, P.hloc, by rw [F.hash]; exact P.hn, P.hn0, F.holds, F.own, F.locok, hnow'⟩

/-- `UpdateCheckpoint(loc, [p, q])` run to completion on a state of kind (A) -/
theorem rerun_on_first {id1 id2 loc : Bytes} {t₀ t₁ : Target} {n r : Bytes} {d : Nat} {X : Int}
    {now now' : Int} (ver : Bytes) (P : UpdPre id1 id2 loc t₀ n r d X now)
    (F : FirstFacts id1 id2 loc t₀ t₁ n d X) (hnow' : -(2^63 : Int) ≤ now' ∧ now' < 2^63)
    (o1 o2 : List Nat) (ho1 : d ∈ o1) :
    Holds [id1, id2] (applyAll t₁ (updateReqs ver t₁ loc [id1, id2] o1 o2 now')) loc d X :=
  update_complete_holds ver (F.updPre P hnow') o1 o2 ho1

/-- the same with the ids in the other order, when the hash maps the second id (`r = id2`) -/
theorem rerun_on_first_swapped {id1 id2 loc : Bytes} {t₀ t₁ : Target} {n : Bytes} {d : Nat} {X : Int}
    {now now' : Int} (ver : Bytes) (P : UpdPre id1 id2 loc t₀ n id2 d X now) (h2 : id2 ≠ [])
    (F : FirstFacts id1 id2 loc t₀ t₁ n d X) (hnow' : -(2^63 : Int) ≤ now' ∧ now' < 2^63)
    (o1 o2 : List Nat) (ho1 : d ∈ o1) :
    Holds [id1, id2] (applyAll t₁ (updateReqs ver t₁ loc [id2, id1] o1 o2 now')) loc d X := by
  have hl2 : hlookup t₀.hash id2 = some n := by
    rcases getHash_cases P.hn P.hn0 with ⟨h, _⟩ | ⟨_, h, _⟩
    · exact absurd h.symm P.hne
    · exact h
  have hg : getHash t₁.hash [id2, id1] = some (n, id2) := by
    rw [F.hash]; exact getHash_of_first hl2 P.hn0
  by_cases hnl : n = loc
  · rw [updateReqs_noop ver o1 o2 now' (hnl ▸ hg)]
    exact hnl ▸ F.holds
  · exact (update_complete_holds ver
      (⟨fun h => P.hne h.symm, h2, P.h2q, P.h1q, P.hloc, hg, P.hn0, F.holds.swap, F.own,
        fun h => (F.locok h).swap, hnow'⟩ :
        UpdPre id2 id1 loc t₁ n id2 d X now') o1 o2 ho1).swap

/-! ### any number of attempts that do not complete -/

theorem UpdPre.renow {id1 id2 loc : Bytes} {t : Target} {n r : Bytes} {d : Nat} {X now now' : Int}
    (P : UpdPre id1 id2 loc t n r d X now) (h : -(2^63 : Int) ≤ now' ∧ now' < 2^63) :
    UpdPre id1 id2 loc t n r d X now' :=
  ⟨P.hne, P.h1, P.h1q, P.h2q, P.hloc, P.hn, P.hn0, P.holds, P.own, P.fresh, h⟩

/-- a state the operation can be (re)run on: the preconditions hold, or it is done -/
def Rerunnable (id1 id2 loc : Bytes) (t : Target) (d : Nat) (X : Int) : Prop :=
  (∃ n r, UpdPre id1 id2 loc t n r d X 0) ∨
  (getHash t.hash [id1, id2] = some (loc, id1) ∧ Holds [id1, id2] t loc d X)

theorem rerunnable_attempt (ver : Bytes) {id1 id2 loc : Bytes} {t : Target} {d : Nat} {X : Int}
    (h : Rerunnable id1 id2 loc t d X) (a : Attempt) (ho : d ∈ a.o1)
    (hnow : -(2^63 : Int) ≤ a.now ∧ a.now < 2^63) :
    Rerunnable id1 id2 loc (applyAll t ((updateReqs ver t loc [id1, id2] a.o1 a.o2 a.now).take a.k)) d X := by
  rcases h with ⟨n, r, P⟩ | ⟨hh, hH⟩
  · have P' := P.renow hnow
    rcases crash_class ver P' a.o1 a.o2 ho a.k with F | ⟨hh, hH, _⟩
    · exact Or.inl ⟨n, r, F.updPre P' (by omega)⟩
    · exact Or.inr ⟨hh, hH⟩
  · rw [updateReqs_noop ver a.o1 a.o2 a.now hh]
    simp only [List.take_nil, applyAll, List.foldl_nil]
    exact Or.inr ⟨hh, hH⟩

theorem rerunnable_attempts (ver : Bytes) {id1 id2 loc : Bytes} {d : Nat} {X : Int} (as : List Attempt) :
    ∀ {t : Target}, Rerunnable id1 id2 loc t d X →
      (∀ a ∈ as, d ∈ a.o1 ∧ (-(2^63 : Int) ≤ a.now ∧ a.now < 2^63)) →
      Rerunnable id1 id2 loc (afterAttempts ver loc [id1, id2] t as) d X := by
  induction as with
  | nil => intro t h _; exact h
  | cons a rest ih =>
    intro t h hall
    have ha := hall a (List.mem_cons_self ..)
    exact ih (rerunnable_attempt ver h a ha.1 ha.2) (fun a' ha' => hall a' (List.mem_cons_of_mem _ ha'))

theorem rerunnable_complete (ver : Bytes) {id1 id2 loc : Bytes} {t : Target} {d : Nat} {X : Int}
    (h : Rerunnable id1 id2 loc t d X) (o1 o2 : List Nat) (ho : d ∈ o1) (now : Int)
    (hnow : -(2^63 : Int) ≤ now ∧ now < 2^63) :
    Holds [id1, id2] (applyAll t (updateReqs ver t loc [id1, id2] o1 o2 now)) loc d X := by
  rcases h with ⟨n, r, P⟩ | ⟨hh, hH⟩
  · exact update_complete_holds ver (P.renow hnow) o1 o2 ho
  · rw [updateReqs_noop ver o1 o2 now hh]; exact hH

end GunYu.Checkpoint
