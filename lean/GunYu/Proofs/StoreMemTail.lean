/-
  C05, memory backend — progress as safety.

  `TailInv`: every indexed stream segment other than the writer's current one is
  CLOSED and NON-EMPTY (a reader at the end of such a segment finds it closed and a
  successor that holds bytes — it never waits on a segment nobody will write to).
  Preserved by every operation; with `MemInv` it gives the catch-up step
  `pump2_delivers`: a started copy loop below the writer's end delivers at least one
  byte within two iterations.
-/
import GunYu.Model.StoreProgress
import GunYu.Proofs.StoreMemInv
import GunYu.Proofs.StoreMem

namespace GunYu.Store
open GunYu

def TailInv (s : Mem) : Prop :=
  ∀ g ∈ s.segs, s.aofW ≠ some g.sid → g.closed = true ∧ g.data ≠ []

theorem TailInv.init (l m : Nat) : TailInv (Mem.init l m) := by
  intro g hg; cases hg

/-- fewer segments, the same writer -/
theorem TailInv.suffix {s s' : Mem} (h : TailInv s) (hw : s'.aofW = s.aofW) (hs : ∃ pre, s.segs = pre ++ s'.segs) :
    TailInv s' := by
  obtain ⟨pre, hp⟩ := hs
  intro g hg hne
  exact h g (by rw [hp]; exact List.mem_append_right _ hg) (by rw [← hw]; exact hne)

theorem TailInv.same {s s' : Mem} (h : TailInv s) (hw : s'.aofW = s.aofW) (hs : s'.segs = s.segs) : TailInv s' :=
  h.suffix hw ⟨[], by simp [hs]⟩

/-! ### the collector (no hypothesis) -/

theorem gc_tail_frame (s : Mem) (need : Nat) : (s.gc need).aofW = s.aofW ∧ ∃ pre, s.segs = pre ++ (s.gc need).segs := by
  unfold Mem.gc
  split
  · exact ⟨rfl, [], by simp⟩
  · obtain ⟨pre, hp, _, ha, _⟩ := gcLoop_prefix need (s.segs.length + (match s.rdb with | some r => r.segs.length | none => 0) + 1) s
    exact ⟨ha, pre, hp⟩

theorem ensure_tail_frame (s : Mem) (need : Nat) :
    (s.ensure need).1.aofW = s.aofW ∧ ∃ pre, s.segs = pre ++ (s.ensure need).1.segs := by
  unfold Mem.ensure
  split
  · exact ⟨rfl, [], by simp⟩
  · exact gc_tail_frame s need

/-! ### the stream writer -/

theorem pieceSpace_rotate (logSize segLen bufLen : Nat) (h : (pieceSpace logSize segLen bufLen).2 = true) : 0 < segLen := by
  unfold pieceSpace at h
  split at h
  · cases h
  · split at h
    · rename_i hc; exact hc.2
    · cases h

theorem aofRotate_tail (s : Mem) (cur : Nat) (seg : MSeg) (rotate : Bool) (hi : MemInv s) (ht : TailInv s)
    (hw : s.aofW = some cur) (hf : mFind s.segs cur = some seg) (hne : rotate = true → seg.data ≠ []) :
    TailInv (aofRotate s cur seg rotate).1 := by
  unfold aofRotate
  cases rotate with
  | false => exact ht
  | true =>
    simp only [if_true]
    intro g hg hnw
    have hnw' : some s.nextSid ≠ some g.sid := hnw
    rcases List.mem_append.mp hg with hg | hg
    · obtain ⟨g0, hg0, rfl⟩ := mem_mUpdate.mp hg
      by_cases hc : (g0.sid == cur) = true
      · simp only [hc, if_true]
        refine ⟨by trivial, ?_⟩
        obtain ⟨hm, hs⟩ := mFind_some hf
        have : g0 = seg := sid_unique hi.stream.nodup hg0 hm (by rw [hs]; exact beq_iff_eq.mp hc)
        rw [this]; exact hne rfl
      · simp only [hc]
        apply ht g0 hg0
        rw [hw]
        intro e; cases e; simp at hc
    · rw [List.mem_singleton] at hg; subst hg
      exact absurd rfl hnw'

theorem aofPut_tail (s2 : Mem) (cur1 : Nat) (piece : Bytes) (ht : TailInv s2) (hw : s2.aofW = some cur1) :
    TailInv (aofPut s2 cur1 piece) := by
  intro g hg hnw
  have hnw' : s2.aofW ≠ some g.sid := hnw
  obtain ⟨g0, hg0, rfl⟩ := mem_mUpdate.mp hg
  by_cases hc : (g0.sid == cur1) = true
  · exfalso
    apply hnw'
    simp only [hc, if_true]
    rw [hw, beq_iff_eq.mp hc]
  · simp only [hc] at hnw' ⊢
    exact ht g0 hg0 hnw'

theorem appendAofLoop_tail (fuel : Nat) : ∀ (s : Mem) (buf : Bytes) (done : Nat), MemInv s → TailInv s →
    TailInv (Mem.appendAofLoop fuel s buf done).1 := by
  induction fuel with
  | zero => intro s buf done _ ht; exact ht
  | succ fuel ih =>
    intro s buf done hi ht
    rw [appendAofLoop_succ]
    split
    · exact ht
    · cases haw : s.aofW with
      | none => exact ht
      | some cur =>
        dsimp only
        cases hf : mFind s.segs cur with
        | none => exact ht
        | some seg =>
          dsimp only
          obtain ⟨h1, w1⟩ := aofRotate_inv s cur seg (pieceSpace s.logSize seg.data.length buf.length).2 hi haw hf
          have t1 := aofRotate_tail s cur seg (pieceSpace s.logSize seg.data.length buf.length).2 hi ht haw hf
            (by intro hr; exact List.length_pos_iff.mp (pieceSpace_rotate _ _ _ hr))
          obtain ⟨h2, f2⟩ := ensure_inv _ (pieceSpace s.logSize seg.data.length buf.length).1 h1
          obtain ⟨ea, es⟩ := ensure_tail_frame (aofRotate s cur seg (pieceSpace s.logSize seg.data.length buf.length).2).1
            (pieceSpace s.logSize seg.data.length buf.length).1
          have t2 := t1.suffix ea es
          split
          · exact t2
          · apply ih
            · exact aofPut_inv _ _ _ h2 (by rw [f2.aofW, w1])
            · exact aofPut_tail _ _ _ t2 (by rw [f2.aofW, w1])

/-- `finishAof` for the writer of segment `cur`: the segment is closed and, when empty,
    leaves the index. `P`: the OTHER segments that will not be the writer's are closed
    and non-empty already. -/
theorem finishAof_tail (s : Mem) (cur : Nat) (isCurrent : Bool) (hn : (s.segs.map (·.sid)).Nodup)
    (hP : ∀ g ∈ s.segs, g.sid ≠ cur → (if isCurrent then none else s.aofW) ≠ some g.sid → g.closed = true ∧ g.data ≠ []) :
    TailInv (s.finishAof cur isCurrent) := by
  unfold Mem.finishAof
  dsimp only
  -- the state before the final collector pass
  have key : ∀ X : Mem, X.aofW = (if isCurrent then none else s.aofW) →
      (∀ x ∈ X.segs, x ∈ mUpdate s.segs cur (fun g => { g with closed := true })) →
      (∀ x ∈ X.segs, x.sid = cur → x.data ≠ []) → TailInv (X.gc 0) := by
    intro X hXw hXs hXe
    obtain ⟨ga, gs⟩ := gc_tail_frame X 0
    refine TailInv.suffix ?_ ga gs
    intro x hx hnw
    obtain ⟨g0, hg0, rfl⟩ := mem_mUpdate.mp (hXs x hx)
    by_cases hc : (g0.sid == cur) = true
    · simp only [hc, if_true]
      refine ⟨by trivial, ?_⟩
      have := hXe _ hx (by simp only [hc, if_true]; exact beq_iff_eq.mp hc)
      simpa [hc] using this
    · simp only [hc] at hnw ⊢
      exact hP g0 hg0 (by simpa using hc) (by rw [← hXw]; exact hnw)
  have hn1 : ((mUpdate s.segs cur (fun g => ({ g with closed := true } : MSeg))).map (·.sid)).Nodup := by
    rw [mUpdate_sids (l := s.segs) (sid := cur) (f := fun g => ({ g with closed := true } : MSeg)) (fun g => rfl)]
    exact hn
  cases hf : mFind (mUpdate s.segs cur (fun g => { g with closed := true })) cur with
  | none =>
    dsimp only
    apply key _ rfl (fun x hx => hx)
    intro x hx hs
    exfalso
    have := mFind_of_mem hn1 hx
    rw [hs, hf] at this; cases this
  | some g =>
    dsimp only
    cases he : g.data.isEmpty with
    | false =>
      simp only [Bool.false_eq_true, if_false]
      apply key _ rfl (fun x hx => hx)
      intro x hx hs
      obtain ⟨hgm, hgs⟩ := mFind_some hf
      have : x = g := sid_unique hn1 hx hgm (by rw [hs, hgs])
      rw [this]
      intro e; rw [e] at he; simp at he
    | true =>
      simp only [if_true]
      apply key _ rfl
      · intro x hx; exact (List.mem_filter.mp hx).1
      · intro x hx hs
        have := (List.mem_filter.mp hx).2
        simp [hs] at this

/-! ### the snapshot writer never touches the stream index except through the collector -/

theorem appendRdbLoop_tail (fuel : Nat) : ∀ (s : Mem) (buf : Bytes) (done : Nat), MemInv s → TailInv s →
    TailInv (Mem.appendRdbLoop fuel s buf done).1 := by
  induction fuel with
  | zero => intro s buf done _ ht; exact ht
  | succ fuel ih =>
    intro s buf done hi ht
    rw [appendRdbLoop_succ]
    split
    · exact ht
    · cases hr : s.rdb with
      | none => exact ht
      | some r =>
        dsimp only
        cases hw : r.writing with
        | false => exact ht
        | true =>
          simp only [Bool.not_true, Bool.false_eq_true, if_false]
          cases hf : mFind r.segs r.cur with
          | none => exact ht
          | some seg =>
            dsimp only
            obtain ⟨h1, e1, w1, _, a1, s1⟩ :=
              rdbRotate_inv s r seg (pieceSpace s.logSize seg.data.length buf.length).2 hi hr hw
            have t1 : TailInv (rdbRotate s r seg (pieceSpace s.logSize seg.data.length buf.length).2).1 := ht.same a1 s1
            obtain ⟨h2, f2⟩ := ensure_inv _ (pieceSpace s.logSize seg.data.length buf.length).1 h1
            obtain ⟨ea, es⟩ := ensure_tail_frame (rdbRotate s r seg (pieceSpace s.logSize seg.data.length buf.length).2).1
              (pieceSpace s.logSize seg.data.length buf.length).1
            have t2 := t1.suffix ea es
            split
            · exact t2
            · cases hr2 : ((rdbRotate s r seg (pieceSpace s.logSize seg.data.length buf.length).2).1.ensure
                  (pieceSpace s.logSize seg.data.length buf.length).1).1.rdb with
              | none => exact t2
              | some q =>
                dsimp only
                have hcw : q.cur = (rdbRotate s r seg (pieceSpace s.logSize seg.data.length buf.length).2).2.cur ∧
                    q.writing = true := by
                  rcases f2.rdb with h | h | ⟨a, a', ha, ha', _, hc, hwq, _⟩
                  · rw [hr2, e1] at h; cases h; exact ⟨rfl, w1⟩
                  · rw [hr2] at h; cases h
                  · rw [e1] at ha; cases ha
                    rw [hr2] at ha'; cases ha'
                    exact ⟨hc, by rw [hwq]; exact w1⟩
                rw [← hcw.1]
                obtain ⟨h3, _⟩ := rdbPut_inv _ q (buf.take (pieceSpace s.logSize seg.data.length buf.length).1) h2 hr2 hcw.2
                exact ih _ _ _ h3 (t2.same rfl rfl)

theorem finishRdb_tail (s : Mem) (failed : Bool) (hi : MemInv s) (ht : TailInv s) : TailInv (s.finishRdb failed) := by
  obtain ⟨_, _, ha, hs⟩ := finishRdb_inv s failed hi
  exact ht.same ha hs

/-! ### readers -/

theorem open_segs (s : Mem) (rid off : Nat) : (s.open rid off).1.segs = s.segs ∧ (s.open rid off).1.aofW = s.aofW := by
  unfold Mem.open
  repeat' split
  all_goals exact ⟨rfl, rfl⟩

theorem copyStep_segs (s : Mem) (rid : Nat) : (s.copyStep rid).1.segs = s.segs ∧ (s.copyStep rid).1.aofW = s.aofW := by
  simp only [Mem.copyStep]
  repeat' split
  all_goals exact ⟨rfl, rfl⟩

theorem consume_segs (s : Mem) (rid n : Nat) : (s.consume rid n).1.segs = s.segs ∧ (s.consume rid n).1.aofW = s.aofW := by
  unfold Mem.consume
  repeat' split
  all_goals exact ⟨rfl, rfl⟩

theorem closeReader_segs (s : Mem) (rid : Nat) : (s.closeReader rid).1.segs = s.segs ∧ (s.closeReader rid).1.aofW = s.aofW := by
  unfold Mem.closeReader
  repeat' split
  all_goals exact ⟨rfl, rfl⟩

theorem retry_tail (s : Mem) (hi : MemInv s) (ht : TailInv s) : TailInv s.retry.1 := by
  unfold Mem.retry
  cases hpa : s.pendA with
  | some buf =>
    dsimp only
    cases haw : s.aofW with
    | none => dsimp only; exact ht.same haw.symm rfl
    | some cur =>
      dsimp only
      have t1 := appendAofLoop_tail (buf.length + 1) s buf 0 hi ht
      split <;> exact t1.same rfl rfl
  | none =>
    dsimp only
    cases hpr : s.pendR with
    | none => exact ht
    | some buf =>
      dsimp only
      cases hr : s.rdb with
      | none => dsimp only; exact ht.same rfl rfl
      | some r =>
        dsimp only
        split
        · exact ht.same rfl rfl
        · have h1 := (appendRdbLoop_inv (buf.length + 1) s buf 0 hi).1
          have t1 := appendRdbLoop_tail (buf.length + 1) s buf 0 hi ht
          split
          · exact t1.same rfl rfl
          · have h2 : MemInv { (Mem.appendRdbLoop (buf.length + 1) s buf 0).1 with pendR := none } := ⟨h1.stream, h1.rdb⟩
            have t2 : TailInv { (Mem.appendRdbLoop (buf.length + 1) s buf 0).1 with pendR := none } := t1.same rfl rfl
            split
            · split
              · exact finishRdb_tail _ false h2 t2
              · exact t2
            · exact t2

/-! ### every operation -/

theorem newAofWriter_tail_aux (s : Mem) (off : Nat) (hi : MemInv s) (ht : TailInv s) (hb : Nat) (hh : Bytes) :
    TailInv (match s.aofW with
      | some old => ({ s with segs := s.segs ++ [{ sid := s.nextSid, left := off, data := [], closed := false, next := none }],
                              aofW := some s.nextSid, nextSid := s.nextSid + 1, hbase := hb, hist := hh } : Mem).finishAof old false
      | none => ({ s with segs := s.segs ++ [{ sid := s.nextSid, left := off, data := [], closed := false, next := none }],
                          aofW := some s.nextSid, nextSid := s.nextSid + 1, hbase := hb, hist := hh } : Mem)) := by
  have hfresh : ∀ g ∈ s.segs, g.sid ≠ s.nextSid := by
    intro g hg e; have := hi.stream.bound g hg; omega
  have hnd : ((s.segs ++ [({ sid := s.nextSid, left := off, data := [], closed := false, next := none } : MSeg)]).map (·.sid)).Nodup := by
    rw [List.map_append, List.nodup_append]
    refine ⟨hi.stream.nodup, by simp, ?_⟩
    intro a ha b hb' e
    simp at hb'; subst hb'
    obtain ⟨g, hg, rfl⟩ := List.mem_map.mp ha
    exact hfresh g hg e
  cases haw : s.aofW with
  | none =>
    dsimp only
    intro g hg hnw
    have hnw' : some s.nextSid ≠ some g.sid := hnw
    rcases List.mem_append.mp hg with hg | hg
    · exact ht g hg (by rw [haw]; simp)
    · rw [List.mem_singleton] at hg; subst hg; exact absurd rfl hnw'
  | some old =>
    dsimp only
    apply finishAof_tail _ old false hnd
    intro g hg hne hnw
    simp only [Bool.false_eq_true, if_false] at hnw
    have hnw' : some s.nextSid ≠ some g.sid := hnw
    rcases List.mem_append.mp hg with hg | hg
    · exact ht g hg (by rw [haw]; intro e; cases e; exact hne rfl)
    · rw [List.mem_singleton] at hg; subst hg; exact absurd rfl hnw'

theorem step_tail (s : Mem) (op : MOp) (hi : MemInv s) (ht : TailInv s) : TailInv (s.step op).1 := by
  cases op with
  | setRunId id => exact ht.same rfl rfl
  | delRunId id =>
    simp only [Mem.step]
    split
    · exact ht
    · intro g hg; cases hg
  | newRdbWriter off size => intro g hg; cases hg
  | rdbAppend chunk =>
    simp only [Mem.step]
    split
    · exact ht
    · have h1 := (appendRdbLoop_inv (chunk.length + 1) s chunk 0 hi).1
      have t1 := appendRdbLoop_tail (chunk.length + 1) s chunk 0 hi ht
      split
      · exact t1.same rfl rfl
      · split
        · split
          · exact finishRdb_tail _ false h1 t1
          · exact t1
        · exact t1
  | rdbClose => exact finishRdb_tail s false hi ht
  | rdbFail => exact finishRdb_tail s true hi ht
  | newAofWriter off =>
    simp only [Mem.step]
    cases hm : mLastRight s.segs with
    | some r =>
      dsimp only
      split
      · exact ht
      · exact newAofWriter_tail_aux s off hi ht s.hbase s.hist
    | none =>
      dsimp only
      have hs : s.segs = [] := by
        cases hsg : s.segs with
        | nil => rfl
        | cons a t =>
          rw [mLastRight_eq, hsg] at hm
          cases hl : (a :: t).getLast? with
          | none => simp at hl
          | some x => rw [hl] at hm; cases hm
      have := newAofWriter_tail_aux s off hi ht off []
      rw [hs] at this
      cases haw : s.aofW with
      | none => rw [haw] at this; exact this
      | some old => rw [haw] at this; exact this
  | aofAppend chunk =>
    simp only [Mem.step]
    split
    · exact ht
    · split
      · exact ht
      · have t1 := appendAofLoop_tail (chunk.length + 1) s chunk 0 hi ht
        split
        · exact t1.same rfl rfl
        · exact t1
  | aofClose =>
    simp only [Mem.step]
    cases haw : s.aofW with
    | none => exact ht
    | some cur =>
      dsimp only
      apply finishAof_tail s cur true hi.stream.nodup
      intro g hg hne _
      exact ht g hg (by rw [haw]; intro e; cases e; exact hne rfl)
  | openReader rid off => exact ht.same (open_segs s rid off).2 (open_segs s rid off).1
  | startReader rid =>
    simp only [Mem.step]
    repeat' split
    all_goals exact ht.same rfl rfl
  | copyStep rid => exact ht.same (copyStep_segs s rid).2 (copyStep_segs s rid).1
  | consume rid n => exact ht.same (consume_segs s rid n).2 (consume_segs s rid n).1
  | closeReader rid => exact ht.same (closeReader_segs s rid).2 (closeReader_segs s rid).1
  | retryAppend => exact retry_tail s hi ht

theorem run_tail (s : Mem) (ops : List MOp) (hi : MemInv s) (ht : TailInv s) : TailInv (s.run ops) := by
  induction ops generalizing s with
  | nil => exact ht
  | cons op rest ih => exact ih _ (step_inv s op hi) (step_tail s op hi ht)

end GunYu.Store
