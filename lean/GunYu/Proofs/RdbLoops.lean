/-
  C04 — loops driven by a COUNT FIELD of the input (`for i := 0; i < n; i++ { read … }`):
  however large the count, the body completes at most |input| / k times when each
  round reads at least k bytes — the work and everything allocated per round is
  linear in the bytes present.
-/
import GunYu.Proofs.RdbFrameX

namespace GunYu.RdbFrameX
open GunYu GunYu.RdbFrame

/-- `r` reads at least `k` bytes whenever it succeeds -/
def ConsumesK {α} (k : Nat) (r : Rd α) : Prop := ∀ xs a rest, r xs = .ok a rest → rest.length + k ≤ xs.length

/-- how many rounds of `for i := 0; i < n; i++ { r }` complete on `xs` (the loop ends at the first failing round) -/
def iterations : Nat → Rd Unit → Bytes → Nat
  | 0, _, _ => 0
  | n+1, r, xs => match r xs with
    | .ok _ rest => 1 + iterations n r rest
    | _ => 0

theorem iterations_le_count (r : Rd Unit) : ∀ n xs, iterations n r xs ≤ n
  | 0, _ => Nat.le_refl _
  | n+1, xs => by
    unfold iterations
    split
    · have := iterations_le_count r n ‹_›; omega
    · omega

/-- **a count field cannot buy more rounds than there are bytes** -/
theorem iterations_le_bytes (k : Nat) (r : Rd Unit) (h : ConsumesK k r) : ∀ n xs, k * iterations n r xs ≤ xs.length
  | 0, xs => by simp [iterations]
  | n+1, xs => by
    unfold iterations
    split
    · next a rest hr =>
      have h1 := h xs a rest hr
      have h2 := iterations_le_bytes k r h n rest
      rw [Nat.mul_add]; omega
    · omega

/-- a walk that succeeds has completed every round: the count WAS backed by bytes -/
theorem repeatN_ok_iterations (r : Rd Unit) : ∀ n xs rest, repeatN n r xs = .ok () rest → iterations n r xs = n
  | 0, _, _, _ => rfl
  | n+1, xs, rest, h => by
    unfold repeatN andThen at h
    unfold iterations
    cases hr : r xs with
    | err => rw [hr] at h; cases h
    | unsup => rw [hr] at h; cases h
    | ok a mid =>
      rw [hr] at h
      simp only
      rw [repeatN_ok_iterations r n mid rest h]; omega

theorem consumesK_takeN (n : Nat) : ConsumesK n (takeN n) := by
  intro xs a rest h
  unfold takeN at h
  split at h
  · simp only [R.ok.injEq] at h; obtain ⟨_, rfl⟩ := h; rw [List.length_drop]; omega
  · cases h

theorem consumesK_andThen {α β} {r : Rd α} {k : α → Rd β} {a b : Nat} (hr : ConsumesK a r) (hk : ∀ x, ConsumesK b (k x)) :
    ConsumesK (a + b) (andThen r k) := by
  intro xs y rest h
  unfold andThen at h
  cases h1 : r xs with
  | err => rw [h1] at h; cases h
  | unsup => rw [h1] at h; cases h
  | ok x mid =>
    rw [h1] at h
    have := hr xs x mid h1
    have := hk x mid y rest h
    omega

theorem consumesK_ret {α} (a : α) : ConsumesK 0 (ret a) := by
  intro xs b rest h; simp only [ret, R.ok.injEq] at h; obtain ⟨_, rfl⟩ := h; omega

theorem consumesK_of_consumes {α} {r : Rd α} (h : Consumes r) : ConsumesK 1 r := by
  intro xs a rest hr; have := h xs a rest hr; omega

theorem consumesK_skipBytes (n : Nat) : ConsumesK n (skipBytes n) := by
  have := consumesK_andThen (consumesK_takeN n) (fun (_ : Bytes) => consumesK_ret ())
  simpa [skipBytes] using this

/-- one entry of the global PEL of a consumer group as BOTH `StreamParser.ReadBuffer` and `ExecCmd` read it:
    16 bytes id, 8 bytes delivery time, a length -/
def pelEntry : Rd Unit := andThen (skipBytes 16) (fun _ => andThen (skipBytes 8) (fun _ => lens 1))

theorem lens1_consumes : ConsumesK 1 (lens 1) := by
  unfold lens repeatN
  have h := consumesK_andThen (consumesK_andThen (consumesK_of_consumes len_consumes) (fun (_ : Nat) => consumesK_ret ()))
    (fun (_ : Unit) => consumesK_ret (α := Unit) ())
  simpa [repeatN] using h

theorem pelEntry_consumes : ConsumesK 25 pelEntry := by
  unfold pelEntry
  have := consumesK_andThen (consumesK_skipBytes 16) (fun (_ : Unit) =>
    consumesK_andThen (consumesK_skipBytes 8) (fun (_ : Unit) => lens1_consumes))
  simpa using this

end GunYu.RdbFrameX
