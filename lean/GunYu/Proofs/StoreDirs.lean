/-
  C05, disk backend with several run-id directories: the invariant of the current
  index (`DInv`, Proofs/StoreDisk.lean) holds for it AND for every parked directory
  through `SetRunId` (new directory, rename, switch to an existing directory),
  `DelRunId` (current or foreign id), `VerifyRunId` and restarts.
-/
import GunYu.Model.StoreDirs
import GunYu.Proofs.StoreDisk

namespace GunYu.Store
open GunYu

theorem DInv.withReaders {s : Disk} (h : DInv s) (rs : List DReader) (hc : ∀ r ∈ rs, r.isOpen = false)
    (hn : (rs.map (·.id)).Nodup) : DInv { s with readers := rs } := by
  constructor
  · exact h.contig
  · exact h.nonempty
  · exact h.embed
  · exact h.lastEnd
  · exact h.rdbAlign
  · exact h.rdbShape
  · exact hn
  · intro r hr; exact ROk_of_closed (hc r hr)

theorem closeAllReaders_closed (rs : List DReader) : ∀ r ∈ closeAllReaders rs, r.isOpen = false := by
  intro r hr
  simp only [closeAllReaders] at hr
  obtain ⟨y, _, rfl⟩ := List.mem_map.mp hr
  rfl

theorem closeAllReaders_ids (rs : List DReader) (hn : (rs.map (·.id)).Nodup) :
    ((closeAllReaders rs).map (·.id)).Nodup := by
  unfold closeAllReaders
  rw [map_ids_of_id_pres _ _ close_id]; exact hn

theorem noWriter_iff (s : Disk) : s.noWriter ↔ s.live = none ∧ ∀ r, s.rdb = some r → r.writing = false := by
  unfold Disk.noWriter
  cases hr : s.rdb with
  | none => simp
  | some r => simp

/-- a parked directory: invariant, no writer, no readers, same ghost history -/
theorem parked_spec {s : Disk} (h : DInv s) :
    DInv s.parked ∧ s.parked.noWriter ∧ s.parked.readers = [] ∧ s.parked.hbase = s.hbase ∧ s.parked.hist = s.hist := by
  obtain ⟨hd, hl, hr, hb, hh, _⟩ := closeAllForSwitch_spec h
  refine ⟨hd.withReaders [] (by intro r hr; cases hr) (by simp), ?_, rfl, hb, hh⟩
  rw [noWriter_iff]
  exact ⟨hl, hr⟩

/-- parking an index without a writer keeps its segments and its committed snapshot -/
theorem parked_of_noWriter {s : Disk} (hw : s.noWriter) : s.parked.segs = s.segs ∧ s.parked.rdb = s.rdb ∧ s.parked.live = none := by
  obtain ⟨hl, hr⟩ := (noWriter_iff s).mp hw
  unfold Disk.parked Disk.closeAllForSwitch
  have hd : ({ s with readers := closeAllReaders s.readers } : Disk).dropWritingRdb =
      { s with readers := closeAllReaders s.readers } := by
    unfold Disk.dropWritingRdb
    cases hrd : s.rdb with
    | none => simp [hrd]
    | some r => simp [hrd, hr r hrd]
  rw [hd]
  unfold Disk.closeLive
  simp [hl]

/-- a parked directory scanned again is itself -/
theorem loaded_spec {img : Disk} (h : DInv img) (hw : img.noWriter) (id : String) (rs : List DReader)
    (hc : ∀ r ∈ rs, r.isOpen = false) (hn : (rs.map (·.id)).Nodup) :
    DInv (img.loaded id rs) ∧ (img.loaded id rs).segs = img.segs ∧ (img.loaded id rs).rdb = img.rdb ∧
      (img.loaded id rs).live = none ∧ (img.loaded id rs).hbase = img.hbase ∧ (img.loaded id rs).hist = img.hist ∧
      (img.loaded id rs).runId = id := by
  obtain ⟨hl, hr⟩ := (noWriter_iff img).mp hw
  unfold Disk.loaded
  rw [rescan_eq_self h hl hr]
  exact ⟨(h.with_runId id).withReaders rs hc hn, rfl, rfl, hl, rfl, rfl, rfl⟩

/-! ### the invariant -/

structure DInvD (x : DiskD) : Prop where
  cur : DInv x.cur
  parked : ∀ e ∈ x.dirs, DInv e.2 ∧ e.2.noWriter ∧ e.2.readers = []

theorem DInvD.init (l m : Nat) : DInvD (DiskD.init l m) :=
  ⟨DInv.init l m, by intro e he; cases he⟩

theorem dirLookup_mem {dirs : List (String × Disk)} {id : String} {img : Disk} (h : dirLookup dirs id = some img) :
    (id, img) ∈ dirs := by
  unfold dirLookup at h
  cases hf : dirs.find? (fun e => e.1 == id) with
  | none => rw [hf] at h; cases h
  | some e =>
    rw [hf] at h
    simp at h
    have hm := List.mem_of_find?_eq_some hf
    have hp := List.find?_some hf
    simp at hp
    rw [← h, ← hp]
    exact hm

theorem dirErase_mem {dirs : List (String × Disk)} {id : String} {e : String × Disk} (h : e ∈ dirErase dirs id) :
    e ∈ dirs := (List.mem_filter.mp h).1

theorem parkCur_mem {x : DiskD} (h : DInvD x) : ∀ e ∈ x.parkCur, DInv e.2 ∧ e.2.noWriter ∧ e.2.readers = [] := by
  intro e he
  unfold DiskD.parkCur at he
  split at he
  · exact h.parked e he
  · rcases List.mem_cons.mp he with rfl | he
    · obtain ⟨a, b, c, _⟩ := parked_spec h.cur
      exact ⟨a, b, c⟩
    · exact h.parked e he

theorem DInvD.setRunId {x : DiskD} (h : DInvD x) (new : String) : DInvD (x.setRunId new) := by
  have hrc := closeAllReaders_closed x.cur.readers
  have hrn := closeAllReaders_ids x.cur.readers h.cur.ids
  unfold DiskD.setRunId
  split
  · exact h
  · split
    · cases hl : dirLookup x.dirs new with
      | some img =>
        obtain ⟨hi, hw, _⟩ := h.parked _ (dirLookup_mem hl)
        exact ⟨(loaded_spec hi hw new _ hrc hrn).1, fun e he => h.parked e (dirErase_mem he)⟩
      | none => exact ⟨h.cur.reset.with_runId new, h.parked⟩
    · split
      · exact h
      · cases hl : dirLookup x.dirs new with
        | some img =>
          obtain ⟨hi, hw, _⟩ := h.parked _ (dirLookup_mem hl)
          exact ⟨(loaded_spec hi hw new _ hrc hrn).1, fun e he => parkCur_mem h e (dirErase_mem he)⟩
        | none =>
          refine ⟨?_, h.parked⟩
          obtain ⟨hd, hl', hr, _, _, _⟩ := closeAllForSwitch_spec h.cur
          show DInv { x.cur.closeAllForSwitch.rescan with runId := new }
          rw [rescan_eq_self hd hl' hr]
          exact hd.with_runId new

theorem DInvD.delRunId {x : DiskD} (h : DInvD x) (id : String) : DInvD (x.delRunId id) := by
  unfold DiskD.delRunId
  split
  · exact h
  · split
    · exact ⟨h.cur.reset.with_runId "", h.parked⟩
    · cases hl : dirLookup x.dirs id with
      | none => exact h
      | some img => exact ⟨h.cur.reset.with_runId "", fun e he => parkCur_mem h e (dirErase_mem he)⟩

theorem DInvD.verifyRunId : ∀ (ids : List String) {x : DiskD}, DInvD x → DInvD (x.verifyRunId ids).1 := by
  intro ids
  induction ids with
  | nil => intro x h; exact h
  | cons id rest ih =>
    intro x h
    simp only [DiskD.verifyRunId]
    split
    · exact ih h
    · split
      · exact ih h
      · split
        · exact ih (h.setRunId id)
        · exact h.setRunId id

theorem DInvD.restart {x : DiskD} (h : DInvD x) : DInvD x.restart := by
  refine ⟨?_, parkCur_mem h⟩
  exact (DInv.init _ _).withReaders _ (closeAllReaders_closed _) (closeAllReaders_ids _ h.cur.ids)

theorem DInvD.step {x : DiskD} (h : DInvD x) (op : XOp) (hok : x.okOp op) : DInvD (x.step op).1 := by
  cases op with
  | base o =>
    cases o with
    | setRunId id => exact h.setRunId id
    | delRunId => exact h.delRunId _
    | newRdbWriter off size => exact ⟨h.cur.step (.newRdbWriter off size) hok.2, h.parked⟩
    | newAofWriter off => exact ⟨h.cur.step (.newAofWriter off) hok.2, h.parked⟩
    | rdbAppend chunk => exact ⟨h.cur.step (.rdbAppend chunk) hok, h.parked⟩
    | rdbClose => exact ⟨h.cur.step (.rdbClose) hok, h.parked⟩
    | aofAppend chunk => exact ⟨h.cur.step (.aofAppend chunk) hok, h.parked⟩
    | aofClose => exact ⟨h.cur.step (.aofClose) hok, h.parked⟩
    | gc => exact ⟨h.cur.step (.gc) hok, h.parked⟩
    | openReader rid off crcOk => exact ⟨h.cur.step (.openReader rid off crcOk) hok, h.parked⟩
    | read rid n => exact ⟨h.cur.step (.read rid n) hok, h.parked⟩
    | advAcquire rid => exact ⟨h.cur.step (.advAcquire rid) hok, h.parked⟩
    | advRelease rid => exact ⟨h.cur.step (.advRelease rid) hok, h.parked⟩
    | closeReader rid => exact ⟨h.cur.step (.closeReader rid) hok, h.parked⟩
  | setRunId id => exact h.setRunId id
  | delRunId id => exact h.delRunId id
  | verifyRunId ids => exact h.verifyRunId ids
  | restart => exact h.restart

theorem DInvD.run {x : DiskD} (h : DInvD x) (ops : List XOp) (hwf : x.wf ops) : DInvD (x.run ops) := by
  induction ops generalizing x with
  | nil => exact h
  | cons op rest ih => exact ih (h.step op hwf.1) hwf.2

/-! ### other directories are never touched by work on the current one, and a
    directory that was left is found again as it was left -/

theorem step_base_dirs (x : DiskD) (o : DOp) (h1 : ∀ id, o ≠ .setRunId id) (h2 : o ≠ .delRunId) :
    (x.step (.base o)).1.dirs = x.dirs := by
  cases o <;> first | rfl | exact absurd rfl (h1 _) | exact absurd rfl h2

theorem dirLookup_cons_self (id : String) (d : Disk) (rest : List (String × Disk)) :
    dirLookup ((id, d) :: rest) id = some d := by
  simp [dirLookup]

theorem dirLookup_erase_ne {dirs : List (String × Disk)} {a b : String} (hne : a ≠ b) :
    dirLookup (dirErase dirs b) a = dirLookup dirs a := by
  unfold dirLookup dirErase
  induction dirs with
  | nil => rfl
  | cons e t ih =>
    by_cases hb : e.1 = b
    · have : (e.1 != b) = false := by simp [hb]
      simp only [List.filter_cons, this, Bool.false_eq_true, if_false]
      have : (e.1 == a) = false := by simp [hb]; exact fun h => hne h.symm
      simp only [List.find?_cons, this]
      exact ih
    · have : (e.1 != b) = true := by simp [hb]
      simp only [List.filter_cons, this, if_true, List.find?_cons]
      cases (e.1 == a) with
      | true => rfl
      | false => exact ih

/-- **switch away and back.** With the current id `a` (no writer open) and an existing
    directory `b`: after `SetRunId(b)` then `SetRunId(a)` the index of `a` holds the
    segments, the snapshot and the written history it held before. -/
theorem switch_back {x : DiskD} (h : DInvD x) {a b : String} (ha : x.cur.runId = a) (ha0 : a ≠ "") (ha1 : a ≠ "?")
    (hb0 : b ≠ "") (hb1 : b ≠ "?") (hab : a ≠ b) (hw : x.cur.noWriter) {img : Disk} (hl : dirLookup x.dirs b = some img) :
    let y := (x.setRunId b).setRunId a
    y.cur.runId = a ∧ y.cur.segs = x.cur.segs ∧ y.cur.rdb = x.cur.rdb ∧ y.cur.live = none ∧
      y.cur.hbase = x.cur.hbase ∧ y.cur.hist = x.cur.hist := by
  intro y
  have hrc := closeAllReaders_closed x.cur.readers
  have hrn := closeAllReaders_ids x.cur.readers h.cur.ids
  have hxa : ¬ x.cur.runId = "" := by rw [ha]; exact ha0
  have hba : ¬ b = x.cur.runId := by rw [ha]; exact fun e => hab e.symm
  -- first switch: `a` is parked, `b` loaded
  have h1 : x.setRunId b = { cur := img.loaded b (closeAllReaders x.cur.readers), dirs := dirErase x.parkCur b } := by
    unfold DiskD.setRunId
    simp only [hb0, hb1, or_self, if_false, hxa, hba, hl]
  obtain ⟨hi, hiw, _⟩ := h.parked _ (dirLookup_mem hl)
  obtain ⟨_, _, _, _, _, _, hrid⟩ := loaded_spec hi hiw b _ hrc hrn
  have hpark : dirLookup (dirErase x.parkCur b) a = some x.cur.parked := by
    rw [dirLookup_erase_ne hab]
    unfold DiskD.parkCur
    simp only [hxa, if_false]
    rw [ha]
    exact dirLookup_cons_self a _ _
  have hy : y = (x.setRunId b).setRunId a := rfl
  rw [h1] at hy
  have hcur : ¬ (img.loaded b (closeAllReaders x.cur.readers)).runId = "" := by rw [hrid]; exact hb0
  have hne : ¬ a = (img.loaded b (closeAllReaders x.cur.readers)).runId := by rw [hrid]; exact hab
  unfold DiskD.setRunId at hy
  simp only [ha0, ha1, or_self, if_false, hcur, hne, hpark] at hy
  obtain ⟨hpi, hpw, _, hpb, hph⟩ := parked_spec h.cur
  have hrc2 := closeAllReaders_closed (img.loaded b (closeAllReaders x.cur.readers)).readers
  have hrn2 : ((closeAllReaders (img.loaded b (closeAllReaders x.cur.readers)).readers).map (·.id)).Nodup :=
    closeAllReaders_ids _ (loaded_spec hi hiw b _ hrc hrn).1.ids
  obtain ⟨_, l2, l3, l4, l5, l6, l7⟩ := loaded_spec hpi hpw a _ hrc2 hrn2
  obtain ⟨p1, p2, _⟩ := parked_of_noWriter hw
  rw [hy]
  exact ⟨l7, by rw [l2, p1], by rw [l3, p2], l4, by rw [l5, hpb], by rw [l6, hph]⟩

end GunYu.Store
