/-
  C17 — `Good` is kept by the steps that do not write fields: deletions (gc, the tail of
  UpdateCheckpoint), a source failover / a new second id (ghost steps), a crash. Core only.
-/
import GunYu.Proofs.BookGood

namespace GunYu.Checkpoint
open GunYu

set_option linter.unusedSimpArgs false
set_option linter.unusedVariables false

/-! ### congruences -/

theorem foldl_sel_congr {α : Type} (g : α → Entry → α) (sel sel' : Entry → Bool) (fs : Cp) :
    ∀ a : α, (∀ e ∈ fs, sel e = sel' e) →
      fs.foldl (fun a e => if sel e then g a e else a) a = fs.foldl (fun a e => if sel' e then g a e else a) a := by
  induction fs with
  | nil => intro a _; rfl
  | cons x fs ih =>
    intro a h
    simp only [List.foldl_cons, h x (List.mem_cons_self ..)]
    exact ih _ (fun e he => h e (List.mem_cons_of_mem _ he))

theorem offOf_congr {ids ids' : List Bytes} {fs : Cp} (h : ∀ e ∈ fs, offSel ids e = offSel ids' e) :
    offOf ids fs = offOf ids' fs :=
  foldl_sel_congr (fun o e => (Resp.parseInt64 e.val).getD o) (offSel ids) (offSel ids') fs (-1) h

theorem ridOf_congr {ids ids' : List Bytes} {fs : Cp} (h : ∀ e ∈ fs, ridSel ids e = ridSel ids' e) :
    ridOf ids fs = ridOf ids' fs :=
  foldl_sel_congr (fun _ e => e.val) (ridSel ids) (ridSel ids') fs qmark h

theorem offSel_of_match {ids ids' : List Bytes} {e : Entry} (h : matchId ids e.rid = matchId ids' e.rid) :
    offSel ids e = offSel ids' e := by simp [offSel, h]

theorem ridSel_of_match {ids ids' : List Bytes} {e : Entry} (h : matchId ids e.rid = matchId ids' e.rid) :
    ridSel ids e = ridSel ids' e := by simp [ridSel, h]

/-- `LocOk` only reads the key -/
theorem LocOk.congr {ids : List Bytes} {t t' : Checkpoint.Target} {loc : Bytes} {d : Nat} {X : Int}
    (h : LocOk ids t loc d X) (hc : ∀ db, t'.cps db loc = t.cps db loc) : LocOk ids t' loc d X :=
  ⟨fun db => by rw [hc]; exact h.parses db, fun db hdb => by rw [hc]; exact h.below db hdb,
   by rw [hc]; exact h.atd, fun db e he => by rw [hc] at he; exact h.ridok db e he⟩

/-- `LocOk` for other ids that select the same fields of the key -/
theorem LocOk.sel {ids ids' : List Bytes} {t : Checkpoint.Target} {loc : Bytes} {d : Nat} {X : Int}
    (h : LocOk ids t loc d X) (hs : ∀ db, ∀ e ∈ t.cps db loc, matchId ids' e.rid = matchId ids e.rid) :
    LocOk ids' t loc d X := by
  refine ⟨?_, ?_, ?_, ?_⟩
  · intro db e he hm hk
    rw [hs db e he] at hm
    exact h.parses db e he hm hk
  · intro db hdb x hx hsx
    rw [offSel_of_match (hs db x hx)] at hsx
    exact h.below db hdb x hx hsx
  · rcases h.atd with ha | ha
    · left
      rw [offOf_congr (fun e he => offSel_of_match (hs d e he))]; exact ha
    · right
      intro e he; rw [hs d e he]; exact ha e he
  · intro db e he hsx
    rw [ridSel_of_match (hs db e he)] at hsx
    exact h.ridok db e he hsx

end GunYu.Checkpoint

namespace GunYu.BookSys
open GunYu GunYu.Checkpoint

set_option linter.unusedSimpArgs false
set_option linter.unusedVariables false

/-! ### deletions -/

/-- an HDEL that takes a `_runid` field takes the `_offset` field of the same id too -/
def KsOK (ks : List FKey) : Prop := ∀ ρ, (ρ, Kind.runid) ∈ ks → (ρ, Kind.offset) ∈ ks

theorem ksOK_fourKeys (ρ : Bytes) : KsOK (fourKeys ρ) := by
  intro ρ' h
  have : ρ' = ρ := by simpa [fourKeys] using h
  subst this; simp [fourKeys]

theorem ksOK_staleKeys (ρ : Bytes) (b : Bool) : KsOK (staleKeys ρ b) := by
  unfold staleKeys
  split
  · intro ρ' h
    simp only [List.mem_cons, Prod.mk.injEq, List.not_mem_nil, or_false] at h
    rcases h with h | h
    · exact absurd h.2 (by decide)
    · exact absurd h.2 (by decide)
  · exact ksOK_fourKeys ρ

/-- the deletions of gc and of UpdateCheckpoint -/
def DelReq (c : Ctl) : Req → Prop
  | .hdelCp _ name ks => KsOK ks ∧ ∀ p, c.pend = some p → name ≠ p
  | .hdelHash rid => rid ≠ c.lab
  | _ => False

theorem hasrid_hdel {N : Bytes} {fs : Cp} {ks : List FKey} (hks : KsOK ks)
    (h : hasKey (N, Kind.offset) fs → hasKey (N, Kind.runid) fs) :
    hasKey (N, Kind.offset) (hdelMany fs ks) → hasKey (N, Kind.runid) (hdelMany fs ks) := by
  intro ho
  rw [hasKey_hdelMany] at ho ⊢
  exact ⟨h ho.1, fun hin => ho.2 (hks N hin)⟩

theorem frame_del {t : Checkpoint.Target} {c : Ctl} {X : Int} {d : Nat} (F : Frame t c X d) (q : Req)
    (hq : DelReq c q) : Frame (applyReq t q) c X d := by
  cases q with
  | hsetCp db name es => exact absurd hq (by simp [DelReq])
  | delKeys db names => exact absurd hq (by simp [DelReq])
  | hsetHash rid name => exact absurd hq (by simp [DelReq])
  | hsetnxHash rid name => exact absurd hq (by simp [DelReq])
  | hdelCp db name ks =>
    obtain ⟨hks, hpn⟩ := hq
    refine ⟨F.hashL, F.hashM, strA_applyReq F.str _ trivial, ?_, ?_, ?_, ?_⟩
    · intro db'
      rw [applyReq_hdelCp_cps]
      split
      · rename_i hc; obtain ⟨rfl, rfl⟩ := hc; exact (F.ord _).hdelMany ks
      · exact F.ord db'
    · intro db'
      rw [applyReq_hdelCp_cps]
      split
      · rename_i hc; obtain ⟨rfl, rfl⟩ := hc; exact (F.sle _).hdelMany ks
      · exact F.sle db'
    · intro db'
      rw [applyReq_hdelCp_cps]
      split
      · rename_i hc; obtain ⟨rfl, rfl⟩ := hc; exact hasrid_hdel hks (F.hasrid _)
      · exact F.hasrid db'
    · intro p hp
      have P := F.pend p hp
      have hcp : ∀ db', (applyReq t (Req.hdelCp db name ks)).cps db' p = t.cps db' p := by
        intro db'
        rw [applyReq_hdelCp_cps]
        have : ¬ (db' = db ∧ p = name) := fun hc => hpn p hp hc.2.symm
        simp [this]
      exact ⟨P.ne, P.p0, P.mem, P.ok.congr hcp, fun db' e he => P.rid db' e (by rw [hcp] at he; exact he), P.unm,
        fun db' => by rw [hcp]; exact P.hasrid db'⟩
  | hdelHash rid =>
    have hl : rid ≠ c.lab := hq
    refine ⟨?_, ?_, strA_applyReq F.str _ trivial, F.ord, F.sle, F.hasrid, ?_⟩
    · show hlookup (hashDel t.hash rid) c.lab = _
      rw [hlookup_hashDel_ne _ _ _ (fun h => hl h.symm)]; exact F.hashL
    · intro h; exact (F.hashM h).hashDel
    · intro p hp
      have P := F.pend p hp
      exact ⟨P.ne, P.p0, P.mem, P.ok.congr (fun _ => rfl), P.rid,
        fun q hq' => P.unm q (List.mem_filter.mp hq').1, P.hasrid⟩

theorem frame_dels {c : Ctl} {X : Int} {d : Nat} (rs : List Req) : ∀ {t : Checkpoint.Target},
    Frame t c X d → (∀ q ∈ rs, DelReq c q) → Frame (applyAll t rs) c X d := by
  induction rs with
  | nil => intro t F _; exact F
  | cons q rs ih =>
    intro t F hq
    simp only [applyAll, List.foldl_cons]
    exact ih (frame_del F q (hq q (List.mem_cons_self ..)))
      (fun q' hq' => hq q' (List.mem_cons_of_mem _ hq'))

/-! ### gc -/

/-- the shape of the requests of a gc pass -/
theorem gcLoop_shape (live : List Bytes) (before : Int) :
    ∀ (pairs : List (Bytes × Bytes)) (orders : List (List Nat)) (t : Checkpoint.Target),
    ∀ q ∈ gcLoop live before t pairs orders,
      (∃ db name ρ b, q = Req.hdelCp db name (staleKeys ρ b) ∧ ∃ p ∈ pairs, p.2 = name) ∨
      (∃ rid, q = Req.hdelHash rid ∧ rid ∉ live) := by
  intro pairs
  induction pairs with
  | nil => intro orders t q hq; simp [gcLoop] at hq
  | cons pr rest ih =>
    intro orders t q hq
    obtain ⟨rid, cpn⟩ := pr
    simp only [gcLoop] at hq
    rcases List.mem_append.mp hq with hq | hq
    · rcases List.mem_append.mp hq with hq | hq
      · left
        unfold delStale at hq
        split at hq
        · simp at hq
        · simp only at hq
          obtain ⟨p, _, rfl⟩ := List.mem_map.mp hq
          exact ⟨p.1, cpn, p.2.runId, _, rfl, (rid, cpn), List.mem_cons_self .., rfl⟩
      · right
        split at hq
        · rename_i hc
          have : q = Req.hdelHash rid := by simpa using hq
          exact ⟨rid, this, fun h => hc.1 (List.contains_iff_mem.mpr h)⟩
        · simp at hq
    · rcases ih _ _ q hq with ⟨db, name, ρ, b, h1, p, hp, h2⟩ | h
      · exact Or.inl ⟨db, name, ρ, b, h1, p, List.mem_cons_of_mem _ hp, h2⟩
      · exact Or.inr h

/-- **a gc pass, stopped after any number of its requests, keeps `Good`** (both reported ids are
    in the live set) -/
theorem good_gc {t : Checkpoint.Target} {c : Ctl} {X : Int} {d : Nat} (G : Good t c X d)
    (live : List Bytes) (h1 : c.mas ∈ live) (h2 : c.sec ∈ live) (before : Int)
    (orders : List (List Nat)) (k : Nat) :
    Good (applyAll t ((gcReqs t live before orders).take k)) c X d := by
  have hi := gcLoop_prefix G.ctl.hne G.ctl.m0 G.ctl.lab G.labq live h1 h2 before t.hash orders t
    G.toInv (G.ownAll _) k
  have hlive : c.lab ∈ live := by rcases G.ctl.lab with h | h <;> rw [h] <;> assumption
  refine ⟨G.ctl, ?_, hi.holds, hi.carrier⟩
  apply frame_dels _ G.fr
  intro q hq
  rcases gcLoop_shape live before t.hash orders t q (mem_take hq) with ⟨db, name, ρ, b, rfl, p, hp, hpn⟩ | ⟨rid, rfl, hr⟩
  · refine ⟨ksOK_staleKeys ρ b, ?_⟩
    intro p' hp' hc
    exact (G.fr.pend p' hp').unm p hp (hpn.trans hc)
  · exact fun hc => hr (hc ▸ hlive)

/-! ### a crash -/

theorem good_crash {t : Checkpoint.Target} {c : Ctl} {X : Int} {d : Nat} (G : Good t c X d) :
    Good t { c with up := false } X d := by
  obtain ⟨C, F, hH, hC⟩ := G
  exact ⟨⟨C.hne, C.m0, C.mq, C.sq, C.lab, C.l0, C.key0, C.keyIn, C.masIn, C.secIn, (fun h => by cases h), C.s0⟩,
    ⟨F.hashL, F.hashM, F.str, F.ord, F.sle, F.hasrid,
      fun p hp => let P := F.pend p hp; ⟨P.ne, P.p0, P.mem, P.ok, P.rid, P.unm, P.hasrid⟩⟩, hH, hC⟩

/-! ### new ids (ghost steps) -/

/-- no field of `z` anywhere -/
def NoField (z : Bytes) (t : Checkpoint.Target) : Prop := ∀ db n, ∀ e ∈ t.cps db n, e.rid ≠ z

theorem match_fresh_first {z M : Bytes} {e : Entry} (h : e.rid ≠ z) :
    matchId [z, M] e.rid = matchId [M] e.rid := by
  rw [Bool.eq_iff_iff, matchId_pair, matchId_one]
  constructor
  · rintro (h' | h'); exact absurd h' h; exact h'
  · exact Or.inr

theorem match_fresh_second {z M : Bytes} {e : Entry} (h : e.rid ≠ z) :
    matchId [M, z] e.rid = matchId [M] e.rid := by
  rw [matchId_swap]; exact match_fresh_first h

/-- the position carried by `M` alone is the position of the pair of `M` and an id without fields -/
theorem holds_fresh {t : Checkpoint.Target} {names ids : List Bytes} (hs : StrA t names ids)
    {z M key : Bytes} {d : Nat} {X : Int} (hX : 0 ≤ X) (hc : Carrier M t key d X)
    (hb : ∀ db, db ≠ d → OffBelow [M] (t.cps db key) X) (hz : NoField z t) :
    Holds [z, M] t key d X := by
  refine ⟨hX, fun db => parses_of_ok hs _ db _, ?_, ?_, ?_⟩
  · rw [offOf_congr (fun e he => offSel_of_match (match_fresh_first (hz d key e he)))]; exact hc.1
  · rw [ridOf_congr (fun e he => ridSel_of_match (match_fresh_first (hz d key e he)))]; exact hc.2
  · intro db hdb x hx hsx
    rw [offSel_of_match (match_fresh_first (hz db key x hx))] at hsx
    exact hb db hdb x hx hsx

/-- **a source failover**: the position is labelled with the master id `mas`; the source now reports
    `[N', mas]` with `N'` an id never used on this target -/
theorem good_failover {t : Checkpoint.Target} {c : Ctl} {X : Int} {d : Nat} (G : Good t c X d)
    (hl : c.lab = c.mas) (N' : Bytes) (hN : N' ∉ c.ids) (hN0 : N' ≠ []) (hNq : N' ≠ qmark) :
    Good t { c with mas := N', sec := c.mas, ids := N' :: c.ids } X d := by
  obtain ⟨C, F, hH, hC⟩ := G
  have hz : NoField N' t := (F.str.ids N' hN).1
  have hNM : N' ≠ c.mas := fun h => hN (h ▸ C.masIn)
  have hsub : ∀ x, matchId [c.mas] x = true → matchId [c.mas, c.sec] x = true := by
    intro x hx; rw [matchId_one] at hx; rw [matchId_pair]; exact Or.inl hx
  have hC' : Carrier c.mas t c.key d X := hl ▸ hC
  refine ⟨⟨hNM, hN0, hNq, C.mq, Or.inr hl, C.l0, C.key0, C.keyIn, List.mem_cons_self ..,
    List.mem_cons_of_mem _ C.masIn, C.upk, C.m0⟩, ?_, ?_, hC⟩
  · refine ⟨F.hashL, fun _ => Or.inl (F.str.ids N' hN).2,
      F.str.weaken (fun _ h => h) (fun _ h => List.mem_cons_of_mem _ h), ?_, ?_, ?_, ?_⟩
    · intro db
      apply noAfter_of_no
      rintro ⟨e, he, hk⟩
      exact hz db c.key e he (congrArg Prod.fst hk)
    · intro db x hx hsx v hv
      by_cases hdb : db = d
      · subst hdb
        rw [offSel_iff, matchId_one] at hsx
        have := offOf_one_of_mem (F.str.nodup db c.key) hx
          (show x.key = (c.mas, Kind.offset) by show (x.rid, x.kind) = _; rw [hsx.1, hsx.2]) hv
        rw [hC'.1] at this; omega
      · have := hH.dom db hdb x hx (by
          rw [offSel_iff] at hsx ⊢; exact ⟨hsub _ hsx.1, hsx.2⟩) v hv
        omega
    · rintro db ⟨e, he, hk⟩
      exact absurd (congrArg Prod.fst hk) (hz db c.key e he)
    · intro p hp
      have P := F.pend p hp
      refine ⟨P.ne, P.p0, P.mem, ?_, P.rid, P.unm, ?_⟩
      rotate_left
      · rintro db ⟨e, he, hk⟩
        exact absurd (congrArg Prod.fst hk) (hz db p e he)
      apply P.ok.sel
      intro db e he
      show matchId [N', c.mas] e.rid = matchId [c.mas, c.sec] e.rid
      rw [P.rid db e he, hl, Bool.eq_iff_iff, matchId_pair, matchId_pair]
      exact ⟨fun _ => Or.inl rfl, fun _ => Or.inr rfl⟩
  · show Holds [N', c.mas] t c.key d X
    exact holds_fresh F.str hH.nonneg hC' (fun db hdb => (hH.dom db hdb).sub hsub) hz

/-- **the source stops reporting the old second id** (it reports `[mas, z]`, `z` never used on this
    target, e.g. the all-zero id) -/
theorem good_newSecond {t : Checkpoint.Target} {c : Ctl} {X : Int} {d : Nat} (G : Good t c X d)
    (hl : c.lab = c.mas) (z : Bytes) (hz' : z ∉ c.ids) (hzq : z ≠ qmark) (hz0 : z ≠ []) :
    Good t { c with sec := z, ids := z :: c.ids } X d := by
  obtain ⟨C, F, hH, hC⟩ := G
  have hz : NoField z t := (F.str.ids z hz').1
  have hMz : c.mas ≠ z := fun h => hz' (h ▸ C.masIn)
  have hsub : ∀ x, matchId [c.mas] x = true → matchId [c.mas, c.sec] x = true := by
    intro x hx; rw [matchId_one] at hx; rw [matchId_pair]; exact Or.inl hx
  have hC' : Carrier c.mas t c.key d X := hl ▸ hC
  refine ⟨⟨hMz, C.m0, C.mq, hzq, Or.inl hl, C.l0, C.key0, C.keyIn, List.mem_cons_of_mem _ C.masIn,
    List.mem_cons_self .., C.upk, hz0⟩, ?_, ?_, hC⟩
  · refine ⟨F.hashL, fun h => absurd hl h,
      F.str.weaken (fun _ h => h) (fun _ h => List.mem_cons_of_mem _ h), ?_, ?_, F.hasrid, ?_⟩
    · intro db
      unfold NoAfter
      apply List.pairwise_of_forall_mem_list
      intro a _ b hb hab
      exact hz db c.key b hb (congrArg Prod.fst hab.2)
    · intro db x hx hsx
      rw [offSel_iff, matchId_one] at hsx
      exact absurd hsx.1 (hz db c.key x hx)
    · intro p hp
      have P := F.pend p hp
      refine ⟨P.ne, P.p0, P.mem, ?_, P.rid, P.unm, P.hasrid⟩
      apply P.ok.sel
      intro db e he
      show matchId [c.mas, z] e.rid = matchId [c.mas, c.sec] e.rid
      rw [P.rid db e he, hl, Bool.eq_iff_iff, matchId_pair, matchId_pair]
      exact ⟨fun _ => Or.inl rfl, fun _ => Or.inl rfl⟩
  · show Holds [c.mas, z] t c.key d X
    exact (holds_fresh F.str hH.nonneg hC' (fun db hdb => (hH.dom db hdb).sub hsub) hz).swap

end GunYu.BookSys
