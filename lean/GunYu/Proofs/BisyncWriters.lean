/-
  C13 — the inventory of everything the tool writes to the target on the
  bidirectional path OUTSIDE a unit commit, procedure by procedure, with the
  requests each issues in order (read from the code; the write calls of every
  listed procedure are pinned by the source fact `c13_target_writes`, the
  absence of any other transaction by `c13_txn_batcher_sites`,
  `c13_multi_put_sites`, `c13_aof_dispatch`, `c13_first_put`).

  Result: every request of every writer is a STAND-ALONE request of the
  bookkeeping vocabulary with a generated namespace name, i.e. an event the
  global theorems range over — `Ev.toolRaw` ("the tool writes something
  outside the vocabulary") never happens for the modelled writers.
-/
import GunYu.Proofs.BisyncNames

namespace GunYu.Bisync
open GunYu GunYu.BisyncUnit

/-- what seeds a new namespace (`seedBisyncNamespace`): the root checkpoint
    fields, then the frontier snapshot (pipeline / parallel) or one latest
    record (sync) -/
structure NsSeed where
  rootFields : List Bytes
  state : Sum (List Bytes) (Bytes × List Bytes)     -- frontier fields | (slot tag, latest-record fields)

inductive Writer where
  /-- `bisyncFrontierCoordinator.flush` and `cleanupRecoveredBisyncCommitRecords`:
      SaveBisyncFrontierSnapshot, DeleteBisyncCommitKeys (one DEL per record,
      pipelined, no MULTI), one ZREM per index key -/
  | frontierFlush (cp : Bytes) (fields : List Bytes) (recs : List (Bytes × Nat)) (idx : List (Bytes × List Bytes))
  /-- `purgeBisyncRecoveryState`: DEL per record, ZREM per index, then DEL frontier -/
  | purge (cp : Bytes) (recs : List (Bytes × Nat)) (idx : List (Bytes × List Bytes))
  /-- `seedBisyncNamespace`: SetCheckpoint + frontier / latest (when there is a seed), then SaveBisyncNamespaceMode -/
  | seedNamespace (cp : Bytes) (seed : Option NsSeed) (modeFields : List Bytes)
  /-- `SaveBisyncNamespaceMode` alone (in-place switch, first start) -/
  | saveMode (cp : Bytes) (modeFields : List Bytes)
  /-- `cleanupBisyncNamespace` of a retired namespace: journal records in chunks
      (one multi-key DEL each), EACH MARKER ALONE, the latest / index keys in
      chunks, the two root keys -/
  | cleanupNamespace (cp : Bytes) (journalChunks : List (List Bytes)) (tags : List Bytes) (slotChunks : List (List Bytes))
  /-- `RedisOutput.ResetStartPoint` (the source answered FULLRESYNC): DelCheckpoint of every id the position
      may be stored under (one HDEL of the root key per id and database), `purgeBisyncRecoveryState`, then the
      latest record of every recovery slot, ONE single-key DEL each (DeleteBisyncCommitKeys) -/
  | resetStartPoint (cp : Bytes) (hdels : List (List Bytes)) (recs : List (Bytes × Nat)) (idx : List (Bytes × List Bytes))
      (tags : List Bytes)
  /-- SetCheckpointHash / the HSETNX of ResolveOrCreateBisyncCheckpointName / DelCheckpointHash -/
  | hashSet (runId name : Bytes) (nx : Bool)
  | hashDel (runId : Bytes)
  /-- SetCheckpoint / UpdateCheckpoint / DelCheckpoint on the root key: HSET and HDEL of its fields -/
  | rootWrites (cp : Bytes) (ops : List (Sum (List Bytes) (List Bytes)))

def Writer.requests : Writer → List Bookkeeping
  | .frontierFlush cp fields recs idx =>
    [.frontierSave cp fields] ++ recs.map (fun r => .journalDel cp r.1 r.2) ++ idx.map (fun i => .indexRem cp i.1 i.2)
  | .purge cp recs idx =>
    recs.map (fun r => .journalDel cp r.1 r.2) ++ idx.map (fun i => .indexRem cp i.1 i.2) ++ [.frontierDel cp]
  | .seedNamespace cp seed modeFields =>
    (match seed with
     | none => []
     | some s => [.rootSet cp s.rootFields,
                  match s.state with
                  | .inl f => .frontierSave cp f
                  | .inr (tag, f) => .latestSeed cp tag f]) ++ [.rootSet cp modeFields]
  | .saveMode cp modeFields => [.rootSet cp modeFields]
  | .cleanupNamespace cp journalChunks tags slotChunks =>
    journalChunks.map (.nsDel cp) ++ tags.map (.markerDel cp) ++ slotChunks.map (.nsDel cp) ++ [.rootDel cp]
  | .resetStartPoint cp hdels recs idx tags =>
    hdels.map (.rootHdel cp) ++
      (recs.map (fun r => .journalDel cp r.1 r.2) ++ idx.map (fun i => .indexRem cp i.1 i.2) ++ [.frontierDel cp]) ++
      tags.map (.latestDel cp)
  | .hashSet runId name nx => [.cpHashSet runId name nx]
  | .hashDel runId => [.cpHashDel runId]
  | .rootWrites cp ops => ops.map (fun o => match o with | .inl f => .rootSet cp f | .inr f => .rootHdel cp f)

/-- the namespace name is a generated one; the chunks of a clean-up are
    non-empty lists of latest / index / journal keys of that namespace (how
    `cleanupBisyncNamespace` assembles them: `loadBisyncCommitRecordKeys`,
    `BisyncLatestCheckpointKey`, `BisyncCommitIndexKey`; `deleteBisyncKeysInChunks`
    sends no empty chunk) -/
def Writer.Ok : Writer → Prop
  | .frontierFlush cp _ _ _ => GenCp cp
  | .purge cp _ _ => GenCp cp
  | .seedNamespace cp _ _ => GenCp cp
  | .saveMode cp _ => GenCp cp
  | .cleanupNamespace cp jc _ sc =>
    GenCp cp ∧ (∀ ch ∈ jc, ch ≠ [] ∧ ∀ k ∈ ch, PlainNsKey cp k) ∧ (∀ ch ∈ sc, ch ≠ [] ∧ ∀ k ∈ ch, PlainNsKey cp k)
  | .resetStartPoint cp _ _ _ _ => GenCp cp
  | .hashSet _ _ _ => True
  | .hashDel _ => True
  | .rootWrites cp _ => GenCp cp

/-- **Every request of every writer is a bookkeeping request as the tool issues
    it** (stand-alone, generated name, no key with an expiry beside another key). -/
theorem writer_requests_fromTool (w : Writer) (hw : w.Ok) : ∀ bk ∈ w.requests, bk.FromTool := by
  intro bk hbk
  cases w with
  | frontierFlush cp fields recs idx =>
    simp only [Writer.requests, List.mem_append, List.mem_cons, List.not_mem_nil, or_false, List.mem_map] at hbk
    rcases hbk with (rfl | ⟨r, _, rfl⟩) | ⟨i, _, rfl⟩ <;> exact hw
  | purge cp recs idx =>
    simp only [Writer.requests, List.mem_append, List.mem_cons, List.not_mem_nil, or_false, List.mem_map] at hbk
    rcases hbk with (⟨r, _, rfl⟩ | ⟨i, _, rfl⟩) | rfl <;> exact hw
  | seedNamespace cp seed modeFields =>
    simp only [Writer.requests, List.mem_append, List.mem_cons, List.not_mem_nil, or_false] at hbk
    rcases hbk with hbk | rfl
    · cases seed with
      | none => cases hbk
      | some s =>
        simp only [List.mem_cons, List.not_mem_nil, or_false] at hbk
        rcases hbk with rfl | rfl
        · exact hw
        · cases hst : s.state with
          | inl f => exact hw
          | inr p => obtain ⟨tag, f⟩ := p; exact hw
    · exact hw
  | saveMode cp modeFields =>
    simp only [Writer.requests, List.mem_cons, List.not_mem_nil, or_false] at hbk
    rw [hbk]; exact hw
  | cleanupNamespace cp jc tags sc =>
    obtain ⟨hcp, hj, hs⟩ := hw
    simp only [Writer.requests, List.mem_append, List.mem_cons, List.not_mem_nil, or_false, List.mem_map] at hbk
    rcases hbk with ((⟨ch, hch, rfl⟩ | ⟨t, _, rfl⟩) | ⟨ch, hch, rfl⟩) | rfl
    · exact ⟨hcp, hj ch hch⟩
    · exact hcp
    · exact ⟨hcp, hs ch hch⟩
    · exact hcp
  | resetStartPoint cp hdels recs idx tags =>
    simp only [Writer.requests, List.mem_append, List.mem_cons, List.not_mem_nil, or_false, List.mem_map] at hbk
    rcases hbk with (⟨f, _, rfl⟩ | ((⟨r, _, rfl⟩ | ⟨i, _, rfl⟩) | rfl)) | ⟨t, _, rfl⟩ <;> exact hw
  | hashSet runId name nx =>
    simp only [Writer.requests, List.mem_cons, List.not_mem_nil, or_false] at hbk
    rw [hbk]; trivial
  | hashDel runId =>
    simp only [Writer.requests, List.mem_cons, List.not_mem_nil, or_false] at hbk
    rw [hbk]; trivial
  | rootWrites cp ops =>
    simp only [Writer.requests, List.mem_map] at hbk
    obtain ⟨o, _, rfl⟩ := hbk
    cases o <;> exact hw

/-- a history step: one event, or one run of a writer procedure of the link from `src` -/
inductive Step where
  | ev (e : Ev)
  | writer (src : SiteId) (w : Writer)

def Step.events : Step → List Ev
  | .ev e => [e]
  | .writer src w => w.requests.map (.book src)

def Step.Ok (cfg : WCfg) : Step → Prop
  | .ev e => EvGen cfg e
  | .writer _ w => w.Ok

def flattenSteps (ss : List Step) : List Ev := ss.flatMap Step.events

theorem steps_good (cfg : WCfg) (ss : List Step) (h : ∀ s ∈ ss, s.Ok cfg) : GoodEvents cfg (flattenSteps ss) := by
  intro e he
  unfold flattenSteps at he
  obtain ⟨s, hs, hes⟩ := List.mem_flatMap.mp he
  have hok := h s hs
  cases s with
  | ev e' =>
    simp only [Step.events, List.mem_cons, List.not_mem_nil, or_false] at hes
    rw [hes]; exact evGen_ok cfg e' hok
  | writer src w =>
    simp only [Step.events, List.mem_map] at hes
    obtain ⟨bk, hbk, rfl⟩ := hes
    exact fromTool_ok bk (writer_requests_fromTool w hok bk hbk)

/-- no step ever is the "raw" event -/
theorem steps_never_raw (cfg : WCfg) (ss : List Step) (h : ∀ s ∈ ss, s.Ok cfg) :
    ∀ e ∈ flattenSteps ss, ∀ src isTxn cmds, e ≠ .toolRaw src isTxn cmds := by
  intro e he src isTxn cmds heq
  have := steps_good cfg ss h e he
  rw [heq] at this
  exact this

end GunYu.Bisync
