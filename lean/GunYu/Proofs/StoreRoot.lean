/-
  C08 — above one directory: whatever the id-level operations (SetRunId with the
  rename of `changeReplId`, VerifyRunId among several ids, DelRunId = RemoveAll in any
  order) and the writers' lives (Proofs/StoreFsXResume.lean) do to the base
  directory, and wherever the process dies, every directory stays one whose files hold
  the bytes of ITS replication id.
-/
import GunYu.Proofs.StoreFsXResume

namespace GunYu.StoreFsX
open GunYu GunYu.Store GunYu.StoreFs

/-- a directory a new process can start from: its stream files hold the source's
    bytes, no name twice, committed snapshots complete -/
def DirOk (src : Nat → UInt8) (fs : FS) : Prop := FsTrue src fs ∧ NodupNames fs ∧ SnapOk fs

/-- every directory holds the bytes of its own replication id -/
def RootOk (srcOf : String → Nat → UInt8) (r : Root) : Prop := ∀ e ∈ r, DirOk (srcOf e.1) e.2

theorem dirOk_nil (src : Nat → UInt8) : DirOk src [] :=
  ⟨fsTrue_nil src, List.nodup_nil, by intro e he; cases he⟩

theorem DirOk.del {src : Nat → UInt8} {fs : FS} (h : DirOk src fs) (n : FName) : DirOk src (fs.del n) :=
  ⟨FsTrue_del h.1 n, nodup_del h.2.1 n, RdbOkP_del h.2.2 n⟩

/-! ### the base directory as a list -/

theorem Root.get_some_mem {r : Root} {id : String} {fs : FS} (h : r.get id = some fs) : (id, fs) ∈ r := by
  unfold Root.get at h
  cases hf : r.find? (fun e => e.1 == id) with
  | none => simp [hf] at h
  | some e =>
    simp [hf] at h
    have h1 := List.mem_of_find?_eq_some hf
    have h2 := List.find?_some hf
    simp at h2
    rw [← h, ← h2]; exact h1

theorem Root.mem_set {r : Root} {id : String} {fs : FS} {e : String × FS} (he : e ∈ r.set id fs) :
    e = (id, fs) ∨ e ∈ r := by
  unfold Root.set at he
  split at he
  · obtain ⟨x, hx, rfl⟩ := List.mem_map.mp he
    split
    · left; rfl
    · right; exact hx
  · rcases List.mem_append.mp he with h | h
    · right; exact h
    · left; simpa using h

theorem RootOk.set {srcOf : String → Nat → UInt8} {r : Root} (h : RootOk srcOf r) (id : String) (fs : FS)
    (hfs : DirOk (srcOf id) fs) : RootOk srcOf (r.set id fs) := by
  intro e he
  rcases Root.mem_set he with rfl | h'
  · exact hfs
  · exact h e h'

theorem RootOk.del {srcOf : String → Nat → UInt8} {r : Root} (h : RootOk srcOf r) (id : String) :
    RootOk srcOf (r.del id) :=
  fun e he => h e (List.mem_filter.mp he).1

theorem RootOk.get {srcOf : String → Nat → UInt8} {r : Root} (h : RootOk srcOf r) {id : String} {fs : FS}
    (hg : r.get id = some fs) : DirOk (srcOf id) fs :=
  h (id, fs) (Root.get_some_mem hg)

/-! ### directory-level syscalls -/

/-- a rename is allowed when the directory's content is truthful under the new id
    (the callers switch the id when the source continues the same history under a new
    replication id — the offsets held are offsets of both, C06) -/
def RenOk1 (srcOf : String → Nat → UInt8) (r : Root) : RSys → Prop
  | .renameDir a b => ∀ fs, r.get a = some fs → FsTrue (srcOf b) fs
  | _ => True

def RenOk (srcOf : String → Nat → UInt8) : Root → List RSys → Prop
  | _, [] => True
  | r, s :: rest => RenOk1 srcOf r s ∧ RenOk srcOf (r.applySys s) rest

theorem applySys_ok {srcOf : String → Nat → UInt8} {r : Root} (h : RootOk srcOf r) (s : RSys)
    (hren : RenOk1 srcOf r s) : RootOk srcOf (r.applySys s) := by
  cases s with
  | mkdir id =>
    simp only [Root.applySys]
    split
    · exact h
    · exact h.set id [] (dirOk_nil _)
  | renameDir a b =>
    simp only [Root.applySys]
    cases hg : r.get a with
    | none => exact h
    | some fs =>
      simp only []
      split
      · exact h
      · have hd := h.get hg
        exact (h.del a).set b fs ⟨hren fs hg, hd.2.1, hd.2.2⟩
  | unlink id n =>
    simp only [Root.applySys]
    cases hg : r.get id with
    | none => exact h
    | some fs => exact h.set id _ ((h.get hg).del n)
  | rmdir id =>
    simp only [Root.applySys]
    split
    · exact h.del id
    · exact h

theorem applyAllSys_ok {srcOf : String → Nat → UInt8} : ∀ (l : List RSys) (r : Root), RootOk srcOf r → RenOk srcOf r l →
    RootOk srcOf (r.applyAllSys l) := by
  intro l
  induction l with
  | nil => intro r h _; exact h
  | cons s rest ih =>
    intro r h hren
    exact ih _ (applySys_ok h s hren.1) hren.2

theorem renOk_take {srcOf : String → Nat → UInt8} : ∀ (l : List RSys) (r : Root) (n : Nat), RenOk srcOf r l →
    RenOk srcOf r (l.take n) := by
  intro l
  induction l with
  | nil => intro r n _; simp [RenOk]
  | cons s rest ih =>
    intro r n h
    cases n with
    | zero => simp [RenOk]
    | succ n => exact ⟨h.1, ih _ n h.2⟩

/-- **death at any syscall of any id-level operation** -/
theorem sys_crash_ok {srcOf : String → Nat → UInt8} (r : Root) (h : RootOk srcOf r) (l : List RSys)
    (hren : RenOk srcOf r l) (n : Nat) : RootOk srcOf (r.applyAllSys (l.take n)) :=
  applyAllSys_ok _ r h (renOk_take l r n hren)

/-- lists without a rename need no hypothesis -/
theorem renOk_of_no_rename {srcOf : String → Nat → UInt8} : ∀ (l : List RSys) (r : Root),
    (∀ s ∈ l, ∀ a b, s ≠ .renameDir a b) → RenOk srcOf r l := by
  intro l
  induction l with
  | nil => intro r _; trivial
  | cons s rest ih =>
    intro r h
    refine ⟨?_, ih _ (fun x hx => h x (List.mem_cons_of_mem _ hx))⟩
    cases s with
    | renameDir a b => exact absurd rfl (h _ (by simp) a b)
    | mkdir id => trivial
    | unlink id n => trivial
    | rmdir id => trivial

theorem newRunIdSys_no_rename (r : Root) (cur id : String) : ∀ s ∈ newRunIdSys r cur id, ∀ a b, s ≠ .renameDir a b := by
  intro s hs a b e
  subst e
  unfold newRunIdSys at hs
  split at hs
  · cases hs
  · simp only [] at hs
    split at hs
    · split at hs <;> simp at hs
    · rcases List.mem_append.mp hs with h | h
      · split at h <;> simp at h
      · simp at h

/-- `DelRunId` (RemoveAll in ANY order) and `SetRunId` on an existing directory never rename -/
theorem delRunIdSys_no_rename (r : Root) (id : String) (order : List FName) :
    ∀ s ∈ delRunIdSys r id order, ∀ a b, s ≠ .renameDir a b := by
  intro s hs a b e
  subst e
  unfold delRunIdSys at hs
  split at hs
  · cases hs
  · simp at hs

theorem setRunIdSys_no_rename (r : Root) (cur new : String) (hex : r.has new = true) :
    ∀ s ∈ setRunIdSys r cur new, ∀ a b, s ≠ .renameDir a b := by
  unfold setRunIdSys
  split
  · intro s hs; cases hs
  split
  · exact newRunIdSys_no_rename r cur new
  · split
    · exact newRunIdSys_no_rename r cur new
    · rename_i h2
      simp [hex] at h2

/-- **RootOk after DelRunId, death anywhere, whatever order the entries are unlinked in** -/
theorem delRunId_crash_ok {srcOf : String → Nat → UInt8} (r : Root) (h : RootOk srcOf r) (id : String)
    (order : List FName) (n : Nat) : RootOk srcOf (r.applyAllSys ((delRunIdSys r id order).take n)) :=
  sys_crash_ok r h _ (renOk_of_no_rename _ _ (delRunIdSys_no_rename r id order)) n

/-- `SetRunId(new)` renames the current directory: there is one, and the new id has none -/
def setRunIdRenames (r : Root) (cur new : String) : Bool :=
  !(cur == "" || !r.has cur) && !(new == "" || r.has new)

theorem setRunIdSys_no_rename' (r : Root) (cur new : String) (h : setRunIdRenames r cur new = false) :
    ∀ s ∈ setRunIdSys r cur new, ∀ a b, s ≠ .renameDir a b := by
  unfold setRunIdSys
  split
  · intro s hs; cases hs
  split
  · exact newRunIdSys_no_rename r cur new
  · split
    · exact newRunIdSys_no_rename r cur new
    · rename_i h1 h2
      simp [setRunIdRenames, h1, h2] at h

/-- **RootOk after SetRunId, death anywhere; the rename of `changeReplId` needs the
    new id to continue the old one's history on what the directory holds** -/
theorem setRunId_crash_ok {srcOf : String → Nat → UInt8} (r : Root) (h : RootOk srcOf r) (cur new : String)
    (hcont : setRunIdRenames r cur new = true → ∀ fs, r.get cur = some fs → FsTrue (srcOf new) fs) (n : Nat) :
    RootOk srcOf (r.applyAllSys ((setRunIdSys r cur new).take n)) := by
  apply sys_crash_ok r h
  unfold setRunIdSys
  split
  · exact renOk_of_no_rename _ _ (by intro s hs; cases hs)
  split
  · exact renOk_of_no_rename _ _ (newRunIdSys_no_rename r cur new)
  · split
    · exact renOk_of_no_rename _ _ (newRunIdSys_no_rename r cur new)
    · rename_i h1 h2
      exact ⟨hcont (by simp [setRunIdRenames, h1, h2]), renOk_of_no_rename _ _ (newRunIdSys_no_rename _ cur new)⟩

/-- every stream byte a directory holds lies below offset `x` -/
def HeldBelow (x : Nat) (fs : FS) : Prop :=
  ∀ e ∈ fs, ∀ l, parseAofName e.1 = some l → l + (e.2.length - headerSize) ≤ x

/-- how the rename hypothesis is discharged: PSYNC2's `Agree` (C06, Model/Psync.lean: the new
    id's history equals the old one's below the switch offset `x`) and the directory holding
    nothing at or beyond `x` (C06 `cache_consistent_after` / `Holds`: the cache labelled with an
    id holds only bytes of that id's history) -/
theorem renOk_of_agree {srcOld srcNew : Nat → UInt8} {fs : FS} (x : Nat) (h : FsTrue srcOld fs)
    (hag : ∀ n, n < x → srcNew n = srcOld n) (hb : HeldBelow x fs) : FsTrue srcNew fs := by
  intro e he l hp i b hbyte
  have hi : i < (e.2.drop headerSize).length := (List.getElem?_eq_some_iff.mp hbyte).1
  rw [List.length_drop] at hi
  have := hb e he l hp
  rw [hag (l + i) (by omega)]
  exact h e he l hp i b hbyte

/-- `VerifyRunId`: what it does is a list of syscalls without a rename, and the id it
    takes is one of those asked for whose directory exists -/
theorem verifyRunId_spec : ∀ (ids : List String) (r : Root) (cur : String),
    (∀ s ∈ (verifyRunId r cur ids).1, ∀ a b, s ≠ .renameDir a b) ∧
    (verifyRunId r cur ids).2.1 = r.applyAllSys (verifyRunId r cur ids).1 ∧
    (∀ id, (verifyRunId r cur ids).2.2.2 = some id → id ∈ ids ∧ realId id = true) := by
  intro ids
  induction ids with
  | nil =>
    intro r cur
    refine ⟨?_, rfl, ?_⟩
    · intro s hs; simp [verifyRunId] at hs
    · intro id h; simp [verifyRunId] at h
  | cons id rest ih =>
    intro r cur
    simp only [verifyRunId]
    split
    · obtain ⟨h1, h2, h3⟩ := ih r cur
      exact ⟨h1, h2, fun x hx => ⟨List.mem_cons_of_mem _ (h3 x hx).1, (h3 x hx).2⟩⟩
    · rename_i hcond
      simp only [Bool.or_eq_true, Bool.not_eq_true', not_or, Bool.not_eq_false] at hcond
      have hreal : realId id = true := by
        cases hr : realId id <;> simp_all
      have hhas : r.has id = true := by
        cases hr : r.has id <;> simp_all
      split
      · obtain ⟨h1, h2, h3⟩ := ih (r.applyAllSys (setRunIdSys r cur id)) (setRunIdCur cur id)
        refine ⟨?_, ?_, fun x hx => ⟨List.mem_cons_of_mem _ (h3 x hx).1, (h3 x hx).2⟩⟩
        · intro s hs
          rcases List.mem_append.mp hs with h | h
          · exact setRunIdSys_no_rename r cur id hhas s h
          · exact h1 s h
        · show _ = r.applyAllSys (_ ++ _)
          unfold Root.applyAllSys
          rw [List.foldl_append]
          exact h2
      · exact ⟨setRunIdSys_no_rename r cur id hhas, rfl, fun x hx => by
          simp at hx; subst hx; exact ⟨by simp, hreal⟩⟩

/-- `VerifyRunId`'s choice, as a rule: ids that are not real or have no directory are skipped;
    a real id with a directory is entered (`SetRunId`: re-scan) and taken unless its newest
    offset is 0, in which case the search goes on from the state that `SetRunId` left -/
inductive Chosen : Root → String → List String → String → Prop
  | take (r : Root) (cur id : String) (rest : List String) : realId id = true → r.has id = true →
      latestOf (((r.applyAllSys (setRunIdSys r cur id)).get id).getD []) ≠ 0 → Chosen r cur (id :: rest) id
  | skip (r : Root) (cur j id : String) (rest : List String) : (realId j = false ∨ r.has j = false) →
      Chosen r cur rest id → Chosen r cur (j :: rest) id
  | zero (r : Root) (cur j id : String) (rest : List String) : realId j = true → r.has j = true →
      latestOf (((r.applyAllSys (setRunIdSys r cur j)).get j).getD []) = 0 →
      Chosen (r.applyAllSys (setRunIdSys r cur j)) (setRunIdCur cur j) rest id → Chosen r cur (j :: rest) id

theorem verifyRunId_rule : ∀ (ids : List String) (r : Root) (cur id : String),
    (verifyRunId r cur ids).2.2.2 = some id ↔ Chosen r cur ids id := by
  intro ids
  induction ids with
  | nil =>
    intro r cur id
    constructor
    · intro h; simp [verifyRunId] at h
    · intro h; cases h
  | cons j rest ih =>
    intro r cur id
    simp only [verifyRunId]
    by_cases hc : (!realId j || !r.has j) = true
    · rw [if_pos hc]
      have hc' : realId j = false ∨ r.has j = false := by
        simp only [Bool.or_eq_true, Bool.not_eq_true'] at hc; exact hc
      constructor
      · intro h; exact Chosen.skip r cur j id rest hc' ((ih r cur id).mp h)
      · intro h
        cases h with
        | take _ _ _ _ h1 h2 _ => rcases hc' with h' | h' <;> simp_all
        | skip _ _ _ _ _ _ h3 => exact (ih r cur id).mpr h3
        | zero _ _ _ _ _ h1 h2 _ _ => rcases hc' with h' | h' <;> simp_all
    · rw [if_neg hc]
      have hreal : realId j = true := by cases hr : realId j <;> simp_all
      have hhas : r.has j = true := by cases hr : r.has j <;> simp_all
      by_cases hz : latestOf (((r.applyAllSys (setRunIdSys r cur j)).get j).getD []) = 0
      · have hz' : (latestOf (((r.applyAllSys (setRunIdSys r cur j)).get j).getD []) == 0) = true := by simp [hz]
        simp only [hz', if_true]
        constructor
        · intro h; exact Chosen.zero r cur j id rest hreal hhas hz ((ih _ _ id).mp h)
        · intro h
          cases h with
          | take _ _ _ _ _ _ h3 => exact absurd hz h3
          | skip _ _ _ _ _ h1 _ => rcases h1 with h' | h' <;> simp_all
          | zero _ _ _ _ _ _ _ _ h4 => exact (ih _ _ id).mpr h4
      · have hz' : (latestOf (((r.applyAllSys (setRunIdSys r cur j)).get j).getD []) == 0) = false := by simp [hz]
        simp only [hz']
        constructor
        · intro h
          simp at h; subst h
          exact Chosen.take r cur j rest hreal hhas hz
        · intro h
          cases h with
          | take _ _ _ _ _ _ _ => simp
          | skip _ _ _ _ _ h1 _ => rcases h1 with h' | h' <;> simp_all
          | zero _ _ _ _ _ _ _ h3 _ => exact absurd h3 hz

/-! ### everything that can happen to the base directory -/

/-- the base directories reachable by: id-level operations cut at any syscall, and
    lives of the writers (re-opening of a directory, any script with faults, death at
    any instant, the last write torn) -/
inductive RootReach (srcOf : String → Nat → UInt8) : Root → Prop
  | empty : RootReach srcOf []
  | sys (r : Root) (l : List RSys) (n : Nat) : RootReach srcOf r → RenOk srcOf r l →
      RootReach srcOf (r.applyAllSys (l.take n))
  | life (r : Root) (id : String) (l m : Nat) (xs : List XOp) (n k : Nat) : RootReach srcOf r →
      wfX (XDisk.reopened ((r.get id).getD []) l m id) xs →
      SrcOkX (srcOf id) (XDisk.reopened ((r.get id).getD []) l m id) xs →
      RootReach srcOf (r.set id (crashImageX (reopenFs ((r.get id).getD []))
        (xScriptOps (XDisk.reopened ((r.get id).getD []) l m id) xs) n k))

theorem rootReach_ok {srcOf : String → Nat → UInt8} {r : Root} (h : RootReach srcOf r) : RootOk srcOf r := by
  induction h with
  | empty => intro e he; cases he
  | sys r l n _ hren ih => exact sys_crash_ok r ih l hren n
  | life r id l m xs n k _ hwf hsrc ih =>
    have hd : DirOk (srcOf id) ((r.get id).getD []) := by
      cases hg : r.get id with
      | none => exact dirOk_nil _
      | some fs => exact ih.get hg
    exact ih.set id _ (resume_closed _ hd.1 hd.2.1 hd.2.2 l m id xs hwf hsrc n k)

end GunYu.StoreFsX
