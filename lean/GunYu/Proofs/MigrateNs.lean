/-
  C17 — the recovery-format switch with the recovery state of the namespaces (Model/MigrateNs.lean):
  helper lemmas for Props/C17Migrate.lean. Core only.

  Part 1: the checkpoint-level projection (`cpPart`) of the request list is `Migrate.migrateReqs`.
  Part 2: what a start reads on a freshly seeded namespace (`seeded_start`).
  Part 3: what the start in the CURRENT mode read on the old namespace is the seed offset (`old_start`).
-/
import GunYu.Model.MigrateNs
import GunYu.Proofs.CheckpointMigrate

namespace GunYu.MigrateNs
open GunYu GunYu.Checkpoint GunYu.Migrate

set_option linter.unusedSimpArgs false
set_option linter.unusedVariables false

/-! ## Part 1 — projection -/

theorem applyAllB_t (rs : List BReq) : ∀ b : BT, (applyAllB b rs).t = applyAll b.t (rs.filterMap cpPart) := by
  induction rs with
  | nil => intro b; rfl
  | cons q rs ih =>
    intro b
    simp only [applyAllB, List.foldl_cons]
    have := ih (applyB b q)
    simp only [applyAllB] at this
    rw [this]
    cases q <;> simp [applyB, cpPart, applyAll, setNs, List.filterMap_cons]

theorem cpPart_core (ver : Bytes) (ids : List Bytes) (cpName cpRunId : Bytes) (cur desired : BMode)
    (seed : Option Seed) (root : Option (CpInfo × Int)) (newName : Bytes) (nows : List Int) (mt : Int) :
    (migrateCoreB ver ids cpName cpRunId cur desired seed root newName nows mt).filterMap cpPart =
      migrateCore ver ids cpName cpRunId desired seed root newName nows := by
  unfold migrateCoreB migrateCore
  cases seed with
  | none => rfl
  | some sd =>
    cases root with
    | none => rfl
    | some rc =>
      obtain ⟨rootCp, _⟩ := rc
      cases ids with
      | nil => rfl
      | cons id1 rest =>
        simp only
        by_cases h1 : desired.usesFrontier = true <;> by_cases h2 : cpRunId ≠ [] ∧ cpRunId ≠ id1 <;>
          by_cases h3 : cur.usesFrontier = true <;> simp [h1, h2, h3, cpPart, List.filterMap_cons, List.filterMap_nil]

/-- **the checkpoint-level requests of the switch with namespace state are those of `Migrate.migrateReqs`**
    (the list the correspondence run compares with the real code, op c17m) -/
theorem cpPart_migrateReqsB (ver : Bytes) (b : BT) (ids : List Bytes) (desired : BMode) (newName : Bytes)
    (nows : List Int) (order : List Nat) (mt : Int) (cpName r : Bytes)
    (hh : getHash b.t.hash ids = some (cpName, r)) :
    (migrateReqsB ver b ids desired newName nows order mt).filterMap cpPart =
      migrateReqs ver b.t (b.ns cpName) ids desired newName nows order := by
  unfold migrateReqsB migrateReqs
  cases ids with
  | nil => rfl
  | cons id1 rest =>
    simp only [hh]
    by_cases hc : cpName = []
    · simp only [hc, if_true]
      split <;> simp [cpPart, List.filterMap_cons]
    · simp only [hc, if_false]
      cases loadMode b.t cpName with
      | some m =>
        cases m with
        | none => rfl
        | some cur =>
          simp only
          by_cases h1 : cur = desired
          · simp [h1]
          · rw [if_neg h1, if_neg h1]
            by_cases h2 : sameFamily cur desired = true
            · rw [if_pos h2, if_pos h2]; simp [cpPart, List.filterMap_cons]
            · rw [if_neg h2, if_neg h2]
              exact cpPart_core ..
      | none =>
        simp only
        cases inferMode (b.ns cpName) (id1 :: rest) with
        | none => simp [cpPart, List.filterMap_cons]
        | some cur =>
          simp only [List.filterMap_cons, cpPart]
          by_cases h1 : cur = desired
          · simp [h1]
          · rw [if_neg h1, if_neg h1]
            by_cases h2 : sameFamily cur desired = true
            · rw [if_pos h2, if_pos h2]; simp [cpPart, List.filterMap_cons]
            · rw [if_neg h2, if_neg h2, cpPart_core]

/-! ## Part 2 — a start on a freshly seeded namespace -/

theorem matchRun_first (id1 id2 : Bytes) (h1 : id1 ≠ []) : Frontier.matchRun id1 [id1, id2] = true := by
  simp [Frontier.matchRun, h1]

/-- pipeline / parallel: root checkpoint `S`, frontier snapshot with offset `S` labelled with the first
    id, no journal: the start resumes at `S` -/
theorem seeded_start_frontier (ver : Bytes) (id1 id2 : Bytes) (h1 : id1 ≠ []) (ns : Frontier.NS)
    (root : Bytes × Int × Nat) (s : Frontier.Snap) (hf : ns.frontier = some s) (hj : ns.index = [])
    (hr : ns.root = some root) (hs : s.runId = id1) (ho : s.offset = root.2.1) :
    ∃ d rid seq, (Frontier.startFrontier ver ns [id1, id2]).1 = Frontier.Start.point d rid root.2.1 seq := by
  have hsnap : Frontier.loadSnapshot ns [id1, id2] = some s := by
    simp [Frontier.loadSnapshot, hf, hs, matchRun_first id1 id2 h1]
  have hrec : Frontier.startRecords ns [id1, id2] = [] := by
    simp [Frontier.startRecords, Frontier.loadRecords, hj, Frontier.idxSort]
  unfold Frontier.startFrontier
  simp only [hr, hsnap, hrec, List.map_nil, Frontier.rebuild, List.isEmpty_nil, if_true]
  by_cases hseq : s.seq > 0
  · simp only [hseq, if_true]
    have hnn : Frontier.rootNewer root s.offset [id1, id2] = false := by
      unfold Frontier.rootNewer
      rw [ho]; simp
    simp only [hnn, Bool.false_eq_true, if_false]
    exact ⟨0, _, s.seq, by rw [ho]⟩
  · simp only [hseq, if_false, Frontier.restartFromRoot, Frontier.rootPoint]
    exact ⟨_, _, 0, rfl⟩

/-- sync: root checkpoint `S`, latest record ending at `S` labelled with the first id -/
theorem seeded_start_latest (id1 id2 : Bytes) (h1 : id1 ≠ []) (ns : Frontier.NS)
    (root : Bytes × Int × Nat) (r : Frontier.Rec) (hl : ns.latest = some r)
    (hr : ns.root = some root) (hs : r.runId = id1) (ho : r.endOff = root.2.1) :
    ∃ d rid seq, Frontier.startLatest ns [id1, id2] = Frontier.Start.point d rid root.2.1 seq := by
  unfold Frontier.startLatest
  simp only [hr, hl, hs, matchRun_first id1 id2 h1, if_true]
  have hnn : Frontier.rootNewer root r.endOff [id1, id2] = false := by
    unfold Frontier.rootNewer
    rw [ho]; simp
  simp only [hnn, Bool.false_eq_true, if_false]
  exact ⟨0, _, r.seq, by rw [ho]⟩

/-! ## Part 3 — the start in the current mode on the old namespace -/

/-- a run id that matches one of the ids is not empty -/
theorem matchRun_ne_nil {rid : Bytes} {ids : List Bytes} (h : Frontier.matchRun rid ids = true) : rid ≠ [] := by
  unfold Frontier.matchRun at h
  obtain ⟨i, _, hi⟩ := List.any_eq_true.mp h
  simp only [ne_eq, decide_not, Bool.and_eq_true, Bool.not_eq_eq_eq_not, Bool.not_true,
    decide_eq_false_iff_not, decide_eq_true_eq] at hi
  intro hc; exact hi.1 (hi.2.trans hc)

/-- the root is "newer" for `bisyncStartPoint` exactly when the seed takes its offset over -/
theorem rootNewer_iff (rootCp : CpInfo) (db : Nat) (sel : Int) (ids : List Bytes) (hq : rootCp.runId ≠ qmark) :
    Frontier.rootNewer (rootCp.runId, rootCp.offset, db) sel ids = true ↔
      (rootCp.runId ≠ qmark ∧ rootCp.offset > sel ∧ Frontier.matchRun rootCp.runId ids = true) := by
  unfold Frontier.rootNewer
  rw [decide_eq_true_eq]
  constructor
  · rintro ⟨_, h2, h3⟩; exact ⟨hq, h2, h3⟩
  · rintro ⟨_, h2, h3⟩; exact ⟨matchRun_ne_nil h3, h2, h3⟩

theorem loadSnapshot_root (ns : Frontier.NS) (x : Option (Bytes × Int × Nat)) (ids : List Bytes) :
    Frontier.loadSnapshot { ns with root := x } ids = Frontier.loadSnapshot ns ids := rfl

theorem startRecords_root (ns : Frontier.NS) (x : Option (Bytes × Int × Nat)) (ids : List Bytes) :
    Frontier.startRecords { ns with root := x } ids = Frontier.startRecords ns ids := rfl

/-- the frontier branch of `old_start` -/
theorem old_start_frontier (ver : Bytes) (ns : Frontier.NS) (ids : List Bytes) (sd : Seed)
    (hsd : (match Frontier.rebuild ver (Frontier.loadSnapshot ns ids) ((Frontier.startRecords ns ids).map (·.r)) with
      | .ok (some f) => if f.seq > 0 then some (⟨f.runId, f.seq, f.offset, f.mtime⟩ : Seed) else none
      | _ => none) = some sd) (rootCp : CpInfo) (db : Nat) (hq : rootCp.runId ≠ qmark) :
    ∃ d rid seq, (Frontier.startFrontier ver { ns with root := some (rootCp.runId, rootCp.offset, db) } ids).1
      = Frontier.Start.point d rid (seedOffset sd rootCp ids) seq := by
  have hnewer := rootNewer_iff rootCp db
  unfold Frontier.startFrontier
  simp only [loadSnapshot_root, startRecords_root]
  generalize Frontier.rebuild ver (Frontier.loadSnapshot ns ids) ((Frontier.startRecords ns ids).map (·.r)) = R at hsd
  cases R with
  | error e => simp at hsd
  | ok o =>
    cases o with
    | none => simp at hsd
    | some f =>
      simp only at hsd ⊢
      by_cases hseq : f.seq > 0
      · rw [if_pos hseq] at hsd
        injection hsd with hsd
        subst hsd
        rw [if_pos hseq]
        unfold seedOffset
        by_cases hn : Frontier.rootNewer (rootCp.runId, rootCp.offset, db) f.offset ids = true
        · rw [if_pos hn, if_pos ((hnewer f.offset ids hq).mp hn)]
          exact ⟨_, _, _, rfl⟩
        · rw [if_neg hn, if_neg (fun h => hn ((hnewer f.offset ids hq).mpr h))]
          exact ⟨_, _, _, rfl⟩
      · rw [if_neg hseq] at hsd; cases hsd

/-- **what the start in the CURRENT mode reads on the old namespace is the offset the new namespace is
    seeded with**, whenever the switch finds an authoritative seed -/
theorem old_start (ver : Bytes) (ns : Frontier.NS) (ids : List Bytes) (cur : BMode) (sd : Seed)
    (hsd : loadSeed ver ns ids cur = some sd) (rootCp : CpInfo) (db : Nat) (hq : rootCp.runId ≠ qmark) :
    ∃ d rid seq,
      (if cur.usesFrontier then (Frontier.startFrontier ver { ns with root := some (rootCp.runId, rootCp.offset, db) } ids).1
       else Frontier.startLatest { ns with root := some (rootCp.runId, rootCp.offset, db) } ids)
      = Frontier.Start.point d rid (seedOffset sd rootCp ids) seq := by
  have hnewer := rootNewer_iff rootCp db
  cases cur with
  | sync =>
    simp only [BMode.usesFrontier, Bool.false_eq_true, if_false]
    unfold loadSeed at hsd
    simp only at hsd
    cases hl : ns.latest with
    | none => rw [hl] at hsd; cases hsd
    | some r =>
      rw [hl] at hsd
      simp only at hsd
      split at hsd
      · rename_i hm
        injection hsd with hsd
        subst hsd
        unfold Frontier.startLatest seedOffset
        simp only [hl, hm, if_true]
        by_cases hn : Frontier.rootNewer (rootCp.runId, rootCp.offset, db) r.endOff ids = true
        · rw [if_pos hn, if_pos ((hnewer r.endOff ids hq).mp hn)]
          exact ⟨_, _, _, rfl⟩
        · rw [if_neg hn, if_neg (fun h => hn ((hnewer r.endOff ids hq).mpr h))]
          exact ⟨_, _, _, rfl⟩
      · cases hsd
  | pipeline =>
    simp only [BMode.usesFrontier, if_true]
    exact old_start_frontier ver ns ids sd hsd rootCp db hq
  | parallel =>
    simp only [BMode.usesFrontier, if_true]
    exact old_start_frontier ver ns ids sd hsd rootCp db hq

end GunYu.MigrateNs
