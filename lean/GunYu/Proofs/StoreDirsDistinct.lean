/-
  C05, several run-id directories — two PARKED directories never carry the same id.

  `parkCur` puts the current id in front of the list and `dirLookup` takes the first
  entry: a duplicate would SHADOW an older directory of the same id. The invariant
  `DistinctIds` (the keys of `dirs` are pairwise different) holds in every state reachable
  from the empty store — for ALL operation lists, no protocol hypothesis: the current id
  is never a key (`KeysInv`), so parking it keeps the keys distinct; `dirErase` only
  removes entries; a rename relabels the CURRENT index only after `dirLookup` found no
  directory of the new id.
-/
import GunYu.Proofs.StoreDirsCaller

namespace GunYu.Store
open GunYu

def DistinctIds (x : DiskD) : Prop := (x.dirs.map (·.1)).Nodup

theorem DistinctIds.init (l m : Nat) : DistinctIds (DiskD.init l m) := by
  simp [DistinctIds, DiskD.init]

theorem dirErase_nodup {dirs : List (String × Disk)} (h : (dirs.map (·.1)).Nodup) (id : String) :
    ((dirErase dirs id).map (·.1)).Nodup := by
  unfold dirErase
  exact List.Pairwise.sublist ((List.filter_sublist (l := dirs)).map _) h

theorem parkCur_nodup {x : DiskD} (hk : KeysInv x) (h : DistinctIds x) : (x.parkCur.map (·.1)).Nodup := by
  unfold DiskD.parkCur
  split
  · exact h
  · simp only [List.map_cons, List.nodup_cons]
    refine ⟨?_, h⟩
    intro hm
    obtain ⟨e, he, heq⟩ := List.mem_map.mp hm
    exact (hk.keys e he).2.2 heq

theorem DistinctIds.setRunId {x : DiskD} (hk : KeysInv x) (h : DistinctIds x) (new : String) :
    DistinctIds (x.setRunId new) := by
  unfold DiskD.setRunId
  split
  · exact h
  · split
    · cases hl : dirLookup x.dirs new with
      | some img => exact dirErase_nodup h new
      | none => exact h
    · split
      · exact h
      · cases hl : dirLookup x.dirs new with
        | some img => exact dirErase_nodup (parkCur_nodup hk h) new
        | none => exact h

theorem DistinctIds.delRunId {x : DiskD} (hk : KeysInv x) (h : DistinctIds x) (id : String) :
    DistinctIds (x.delRunId id) := by
  unfold DiskD.delRunId
  split
  · exact h
  · split
    · exact h
    · cases hl : dirLookup x.dirs id with
      | none => exact h
      | some img => exact dirErase_nodup (parkCur_nodup hk h) id

theorem DistinctIds.verifyRunId : ∀ (ids : List String) {x : DiskD}, KeysInv x → DistinctIds x →
    DistinctIds (x.verifyRunId ids).1 := by
  intro ids
  induction ids with
  | nil => intro x _ h; exact h
  | cons id rest ih =>
    intro x hk h
    simp only [DiskD.verifyRunId]
    split
    · exact ih hk h
    · split
      · exact ih hk h
      · split
        · exact ih (hk.setRunId id) (h.setRunId hk id)
        · exact h.setRunId hk id

theorem DistinctIds.restart {x : DiskD} (hk : KeysInv x) (h : DistinctIds x) : DistinctIds x.restart :=
  parkCur_nodup hk h

theorem DistinctIds.step {x : DiskD} (hk : KeysInv x) (h : DistinctIds x) (op : XOp) :
    DistinctIds (x.step op).1 := by
  cases op with
  | base o =>
    cases o with
    | setRunId id => exact h.setRunId hk id
    | delRunId => exact h.delRunId hk _
    | newRdbWriter off size => exact h
    | newAofWriter off => exact h
    | rdbAppend chunk => exact h
    | rdbClose => exact h
    | aofAppend chunk => exact h
    | aofClose => exact h
    | gc => exact h
    | openReader rid off crcOk => exact h
    | read rid n => exact h
    | advAcquire rid => exact h
    | advRelease rid => exact h
    | closeReader rid => exact h
  | setRunId id => exact h.setRunId hk id
  | delRunId id => exact h.delRunId hk id
  | verifyRunId ids => exact h.verifyRunId ids hk
  | restart => exact h.restart hk

theorem DistinctIds.run : ∀ (ops : List XOp) {x : DiskD}, KeysInv x → DistinctIds x →
    KeysInv (x.run ops) ∧ DistinctIds (x.run ops)
  | [], _, hk, h => ⟨hk, h⟩
  | op :: rest, _, hk, h => DistinctIds.run rest (hk.step op) (h.step hk op)

/-- with distinct keys `dirLookup` finds THE directory filed under an id: no entry is
    shadowed by another one -/
theorem dirLookup_of_mem {dirs : List (String × Disk)} (h : (dirs.map (·.1)).Nodup) {e : String × Disk}
    (he : e ∈ dirs) : dirLookup dirs e.1 = some e.2 := by
  induction dirs with
  | nil => cases he
  | cons d t ih =>
    simp only [List.map_cons, List.nodup_cons] at h
    unfold dirLookup
    simp only [List.find?_cons]
    rcases List.mem_cons.mp he with rfl | he'
    · simp
    · have hne : (d.1 == e.1) = false := by
        have : d.1 ≠ e.1 := fun heq => h.1 (List.mem_map.mpr ⟨e, he', heq.symm⟩)
        simpa using this
      simp only [hne]
      exact ih h.2 he'

end GunYu.Store
