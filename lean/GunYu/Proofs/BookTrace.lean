/-
  C17 / Model/BookSys.lean — the bookkeeping trace of a sender log and the sender model's abstract
  target (`Target.TState.cps`): the abstract records after a log are the fold of the trace
  (`logTrace_cps`); the trace only depends on the connection state (`logTrace_congr`). Core only.
-/
import GunYu.Model.BookSys

namespace GunYu.BookSys
open GunYu GunYu.Sender GunYu.Target

/-- what a bookkeeping write does to the abstract per-database records -/
def absW (cps : List (Int × CpRec)) (w : Int × BkW) : List (Int × CpRec) :=
  match w.2 with
  | .rmeta => setCp cps w.1 { getCp cps w.1 with hasRunId := true }
  | .off o => setCp cps w.1 { getCp cps w.1 with offset := some o }

theorem execReq_cps (t : TState) (r : Sender.Req) : (execReq t r).cps = (execW t r).foldl absW t.cps := by
  cases r with
  | cmd name args off =>
    simp only [execReq, execW, List.foldl_nil]
    split
    · split
      · split <;> rfl
      · rfl
    · split <;> rfl
  | multi => rfl
  | exec => rfl
  | cpMeta => rfl
  | cpOffset o => rfl

theorem execTrace_cps (q : List Sender.Req) : ∀ t : TState,
    (q.foldl execReq t).cps = (execTrace t q).foldl absW t.cps := by
  induction q with
  | nil => intro t; rfl
  | cons r rs ih =>
    intro t
    simp only [List.foldl_cons, execTrace, List.foldl_append]
    rw [ih, execReq_cps]

theorem applyReq_cps (t : TState) (r : Sender.Req) :
    (Target.applyReq t r).cps = (stepTrace t r).foldl absW t.cps := by
  unfold Target.applyReq stepTrace
  cases hq : t.queued with
  | some q =>
    cases r with
    | exec => simp only; rw [execTrace_cps]
    | cmd n a o => rfl
    | multi => rfl
    | cpMeta => rfl
    | cpOffset o => rfl
  | none =>
    cases r with
    | multi => rfl
    | exec => simp only; exact execReq_cps t _
    | cmd n a o => simp only; exact execReq_cps t _
    | cpMeta => simp only; exact execReq_cps t _
    | cpOffset o => simp only; exact execReq_cps t _

/-- the abstract records after a wire log = the fold of its bookkeeping trace -/
theorem logTrace_cps (log : List Sender.Req) : ∀ t : TState,
    (applyLog t log).cps = (logTrace t log).foldl absW t.cps := by
  induction log with
  | nil => intro t; rfl
  | cons r rs ih =>
    intro t
    simp only [applyLog, List.foldl_cons, logTrace, List.foldl_append]
    have := ih (Target.applyReq t r)
    simp only [applyLog] at this
    rw [this, applyReq_cps]

/-! ### the trace depends on the connection state only -/

def SameConn (t t' : TState) : Prop := t.cur = t'.cur ∧ t.queued = t'.queued

theorem execReq_sameConn {t t' : TState} (h : SameConn t t') (r : Sender.Req) :
    SameConn (execReq t r) (execReq t' r) := by
  obtain ⟨hc, hq⟩ := h
  cases r with
  | cmd name args off =>
    simp only [execReq]
    split
    · split
      · split
        · exact ⟨rfl, hq⟩
        · exact ⟨hc, hq⟩
      · exact ⟨hc, hq⟩
    · split
      · exact ⟨hc, hq⟩
      · exact ⟨hc, hq⟩
  | multi => exact ⟨hc, hq⟩
  | exec => exact ⟨hc, hq⟩
  | cpMeta => exact ⟨hc, hq⟩
  | cpOffset o => exact ⟨hc, hq⟩

theorem execW_congr {t t' : TState} (h : SameConn t t') (r : Sender.Req) : execW t r = execW t' r := by
  cases r <;> simp [execW, h.1]

theorem execTrace_congr (q : List Sender.Req) : ∀ {t t' : TState}, SameConn t t' →
    execTrace t q = execTrace t' q ∧ SameConn (q.foldl execReq t) (q.foldl execReq t') := by
  induction q with
  | nil => intro t t' h; exact ⟨rfl, h⟩
  | cons r rs ih =>
    intro t t' h
    obtain ⟨h1, h2⟩ := ih (execReq_sameConn h r)
    simp only [execTrace, List.foldl_cons]
    exact ⟨by rw [execW_congr h r, h1], h2⟩

theorem applyReq_sameConn {t t' : TState} (h : SameConn t t') (r : Sender.Req) :
    stepTrace t r = stepTrace t' r ∧ SameConn (Target.applyReq t r) (Target.applyReq t' r) := by
  obtain ⟨hc, hq⟩ := h
  unfold Target.applyReq stepTrace
  rw [← hq]
  cases hq' : t.queued with
  | some q =>
    have hs : SameConn { t with queued := none } { t' with queued := none } := ⟨hc, rfl⟩
    cases r with
    | exec => simp only; exact execTrace_congr q hs
    | cmd n a o => exact ⟨rfl, hc, rfl⟩
    | multi => exact ⟨rfl, hc, rfl⟩
    | cpMeta => exact ⟨rfl, hc, rfl⟩
    | cpOffset o => exact ⟨rfl, hc, rfl⟩
  | none =>
    have hs : SameConn t t' := ⟨hc, hq⟩
    cases r with
    | multi => exact ⟨rfl, hc, rfl⟩
    | exec => simp only; exact ⟨execW_congr hs _, execReq_sameConn hs _⟩
    | cmd n a o => simp only; exact ⟨execW_congr hs _, execReq_sameConn hs _⟩
    | cpMeta => simp only; exact ⟨execW_congr hs _, execReq_sameConn hs _⟩
    | cpOffset o => simp only; exact ⟨execW_congr hs _, execReq_sameConn hs _⟩

theorem logTrace_congr (log : List Sender.Req) : ∀ {t t' : TState}, SameConn t t' →
    logTrace t log = logTrace t' log := by
  induction log with
  | nil => intro t t' _; rfl
  | cons r rs ih =>
    intro t t' h
    obtain ⟨h1, h2⟩ := applyReq_sameConn h r
    simp only [logTrace]
    rw [h1, ih h2]

end GunYu.BookSys
