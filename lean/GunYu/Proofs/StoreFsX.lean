/-
  C08, extended operation set (Model/StoreFsX.lean): generic part.

  * `Pos P fs ops`  : every operation of the list satisfies `P` at the directory it is applied to
  * `OpTrueX`       : `OpTrue` with header rewrites of ANY length ≤ 16 (torn rewrites)
  * crash images with the last write torn — append or header rewrite — keep
    `FsTrue` and `RdbOkP`
-/
import GunYu.Model.StoreFsX
import GunYu.Proofs.StoreFs
import GunYu.Proofs.StoreFsTrue
import GunYu.Proofs.StoreFsSnap

namespace GunYu.StoreFsX
open GunYu GunYu.Store GunYu.StoreFs

/-! ### positions -/

def Pos (P : FS → FsOp → Prop) (fs : FS) (ops : List FsOp) : Prop :=
  ∀ pre op post, ops = pre ++ op :: post → P (fs.applyAll pre) op

theorem Pos.nil {P : FS → FsOp → Prop} {fs : FS} : Pos P fs [] := by
  intro pre op post he; simp at he

theorem Pos.single {P : FS → FsOp → Prop} {fs : FS} {o : FsOp} (h : P fs o) : Pos P fs [o] :=
  single_op_positions h

theorem Pos.append {P : FS → FsOp → Prop} {fs : FS} {A B : List FsOp}
    (hA : Pos P fs A) (hB : Pos P (fs.applyAll A) B) : Pos P fs (A ++ B) :=
  positions_append hA hB

theorem Pos.left {P : FS → FsOp → Prop} {fs : FS} {A B : List FsOp} (h : Pos P fs (A ++ B)) : Pos P fs A := by
  intro pre op post he
  exact h pre op (post ++ B) (by rw [he]; simp)

theorem Pos.right {P : FS → FsOp → Prop} {fs : FS} {A B : List FsOp} (h : Pos P fs (A ++ B)) :
    Pos P (fs.applyAll A) B := by
  intro pre op post he
  have := h (A ++ pre) op post (by rw [he]; simp)
  rw [applyAll_append] at this
  exact this

theorem Pos.take {P : FS → FsOp → Prop} {fs : FS} {ops : List FsOp} (h : Pos P fs ops) (n : Nat) :
    Pos P fs (ops.take n) := by
  have : Pos P fs (ops.take n ++ ops.drop n) := by rw [List.take_append_drop]; exact h
  exact this.left

theorem Pos.mono {P Q : FS → FsOp → Prop} {fs : FS} {ops : List FsOp} (hpq : ∀ fs o, P fs o → Q fs o)
    (h : Pos P fs ops) : Pos Q fs ops :=
  fun pre op post he => hpq _ _ (h pre op post he)

theorem Pos.ofAll {P : FS → FsOp → Prop} {fs : FS} {ops : List FsOp} (h : ∀ o ∈ ops, ∀ fs', P fs' o) :
    Pos P fs ops :=
  fun pre op post he => h op (by rw [he]; simp) _

theorem Pos.and {P Q : FS → FsOp → Prop} {fs : FS} {ops : List FsOp} (hp : Pos P fs ops) (hq : Pos Q fs ops) :
    Pos (fun f o => P f o ∧ Q f o) fs ops :=
  fun pre op post he => ⟨hp pre op post he, hq pre op post he⟩

/-! ### truthful operations, torn header rewrites included -/

/-- like `OpTrue`, but a header rewrite may be cut short: it overwrites at most
    the first `headerSize` bytes of a file that already has its header -/
def OpTrueX (src : Nat → UInt8) (fs : FS) : FsOp → Prop
  | .create _ => True
  | .remove _ => True
  | .pwriteHdr n hdr => hdr.length ≤ headerSize ∧ ∀ c, fs.get n = some c → headerSize ≤ c.length
  | .append n bs => ∀ c, fs.get n = some c → ContentTrue src n (c ++ bs)
  | .rename a b => ∀ c, fs.get a = some c → ContentTrue src b c

theorem OpTrueX_of_OpTrue {src : Nat → UInt8} (fs : FS) (o : FsOp) (h : OpTrue src fs o) : OpTrueX src fs o := by
  cases o with
  | create n => trivial
  | remove n => trivial
  | append n bs => exact h
  | rename a b => exact h
  | pwriteHdr n hdr => exact ⟨by rw [h.1]; exact Nat.le_refl _, h.2⟩

theorem drop_hdr_rewrite (hdr c : Bytes) (h1 : hdr.length ≤ headerSize) (h2 : headerSize ≤ c.length) :
    (hdr ++ c.drop hdr.length).drop headerSize = c.drop headerSize := by
  rw [List.drop_append]
  have : List.drop headerSize hdr = [] := List.drop_of_length_le h1
  rw [this, List.nil_append, List.drop_drop]
  congr 1
  omega

theorem FsTrue_applyX {src : Nat → UInt8} {fs : FS} (h : FsTrue src fs) (op : FsOp) (hop : OpTrueX src fs op) :
    FsTrue src (fs.apply op) := by
  cases op with
  | create n => exact FsTrue_apply h (.create n) trivial
  | remove n => exact FsTrue_apply h (.remove n) trivial
  | append n bs => exact FsTrue_apply h (.append n bs) hop
  | rename a b => exact FsTrue_apply h (.rename a b) hop
  | pwriteHdr n hdr =>
    simp only [FS.apply]
    cases hg : fs.get n with
    | none => exact h
    | some c =>
      apply FsTrue_set h
      obtain ⟨hl, hc⟩ := hop
      have hlen := hc c hg
      have hold : ContentTrue src n c := h (n, c) (get_some_mem hg)
      intro l hp i b hb
      apply hold l hp i b
      rw [drop_hdr_rewrite hdr c hl hlen] at hb
      exact hb

theorem FsTrue_applyAllX {src : Nat → UInt8} (ops : List FsOp) :
    ∀ (fs : FS), FsTrue src fs → Pos (OpTrueX src) fs ops → FsTrue src (fs.applyAll ops) := by
  induction ops with
  | nil => intro fs h _; exact h
  | cons op rest ih =>
    intro fs h hall
    show FsTrue src ((fs.apply op).applyAll rest)
    apply ih _ (FsTrueX_step h hall)
    intro pre op' post he
    exact hall (op :: pre) op' post (by simp [he])
where
  FsTrueX_step {src : Nat → UInt8} {fs : FS} {op : FsOp} {rest : List FsOp} (h : FsTrue src fs)
      (hall : Pos (OpTrueX src) fs (op :: rest)) : FsTrue src (fs.apply op) :=
    FsTrue_applyX h op (hall [] op rest rfl)

/-- tearing an operation keeps it truthful -/
theorem OpTrueX_torn_append {src : Nat → UInt8} {fs : FS} {n : FName} {bs : Bytes} (k : Nat)
    (h : OpTrueX src fs (.append n bs)) : OpTrueX src fs (.append n (bs.take k)) :=
  OpTrue_torn (src := src) k h

theorem OpTrueX_torn_hdr {src : Nat → UInt8} {fs : FS} {n : FName} {hdr : Bytes} (k : Nat)
    (h : OpTrueX src fs (.pwriteHdr n hdr)) : OpTrueX src fs (.pwriteHdr n (hdr.take k)) := by
  refine ⟨?_, h.2⟩
  have := h.1
  simp only [List.length_take]
  omega

theorem getLast_split {ops : List FsOp} {a : FsOp} (h : ops.getLast? = some a) : ops = ops.dropLast ++ [a] :=
  (dropLast_concat_of_getLast? h).symm

/-- **every crash image of a truthful run is truthful, whatever write is torn** -/
theorem FsTrue_tornLastX {src : Nat → UInt8} {fs : FS} (h : FsTrue src fs) (xs : List FsOp)
    (hx : Pos (OpTrueX src) fs xs) (k : Nat) : FsTrue src (fs.applyAll (tornLastX xs k)) := by
  unfold tornLastX
  cases hl : xs.getLast? with
  | none => exact FsTrue_applyAllX xs fs h hx
  | some last =>
    have hxs := getLast_split hl
    have hpre : Pos (OpTrueX src) fs xs.dropLast := by
      have : Pos (OpTrueX src) fs (xs.dropLast ++ [last]) := by rw [← hxs]; exact hx
      exact this.left
    have hlast : OpTrueX src (fs.applyAll xs.dropLast) last := hx xs.dropLast last [] hxs
    cases last with
    | append nm bs =>
      simp only []
      rw [applyAll_append]
      exact FsTrue_applyX (FsTrue_applyAllX _ fs h hpre) _ (OpTrueX_torn_append k hlast)
    | pwriteHdr nm hd =>
      simp only []
      rw [applyAll_append]
      exact FsTrue_applyX (FsTrue_applyAllX _ fs h hpre) _ (OpTrueX_torn_hdr k hlast)
    | create nm => exact FsTrue_applyAllX xs fs h hx
    | rename a b => exact FsTrue_applyAllX xs fs h hx
    | remove nm => exact FsTrue_applyAllX xs fs h hx

theorem crashImageX_true {src : Nat → UInt8} {fs : FS} (h : FsTrue src fs) (ops : List FsOp)
    (hx : Pos (OpTrueX src) fs ops) (n k : Nat) : FsTrue src (crashImageX fs ops n k) :=
  FsTrue_tornLastX h _ (hx.take n) k

/-! ### committed snapshots -/

theorem RdbSafeP_torn {P : Nat → Nat → Bytes → Prop} {fs : FS} {n : FName} :
    (∀ bs k, RdbSafeP P fs (.append n bs) → RdbSafeP P fs (.append n (bs.take k))) ∧
    (∀ hd k, RdbSafeP P fs (.pwriteHdr n hd) → RdbSafeP P fs (.pwriteHdr n (hd.take k))) :=
  ⟨fun _ _ h => h, fun _ _ h => h⟩

theorem RdbOkP_tornLastX {P : Nat → Nat → Bytes → Prop} {fs : FS} (h : RdbOkP P fs) (xs : List FsOp)
    (hx : Pos (RdbSafeP P) fs xs) (k : Nat) : RdbOkP P (fs.applyAll (tornLastX xs k)) := by
  unfold tornLastX
  cases hl : xs.getLast? with
  | none => exact RdbOkP_applyAll xs fs h hx
  | some last =>
    have hxs := getLast_split hl
    have hpre : Pos (RdbSafeP P) fs xs.dropLast := by
      have : Pos (RdbSafeP P) fs (xs.dropLast ++ [last]) := by rw [← hxs]; exact hx
      exact this.left
    have hlast : RdbSafeP P (fs.applyAll xs.dropLast) last := hx xs.dropLast last [] hxs
    cases last with
    | append nm bs =>
      simp only []
      rw [applyAll_append]
      exact RdbOkP_apply (RdbOkP_applyAll _ fs h hpre) _ (RdbSafeP_torn.1 bs k hlast)
    | pwriteHdr nm hd =>
      simp only []
      rw [applyAll_append]
      exact RdbOkP_apply (RdbOkP_applyAll _ fs h hpre) _ (RdbSafeP_torn.2 hd k hlast)
    | create nm => exact RdbOkP_applyAll xs fs h hx
    | rename a b => exact RdbOkP_applyAll xs fs h hx
    | remove nm => exact RdbOkP_applyAll xs fs h hx

theorem crashImageX_rdbOkP {P : Nat → Nat → Bytes → Prop} {fs : FS} (h : RdbOkP P fs) (ops : List FsOp)
    (hx : Pos (RdbSafeP P) fs ops) (n k : Nat) : RdbOkP P (crashImageX fs ops n k) :=
  RdbOkP_tornLastX h _ (hx.take n) k

/-- for everything but a rename, `RdbSafe` and `RdbSafeP` say the same -/
theorem RdbSafeP_of_RdbSafe {P : Nat → Nat → Bytes → Prop} {fs : FS} {o : FsOp} (hn : ∀ a b, o ≠ .rename a b)
    (h : RdbSafe fs o) : RdbSafeP P fs o := by
  cases o with
  | create n => exact h
  | append n bs => exact h
  | pwriteHdr n hd => exact h
  | remove n => trivial
  | rename a b => exact absurd rfl (hn a b)

/-! ### attempted operations -/

theorem okOps_allOk (ops : List FsOp) : okOps (allOk ops) = ops := by
  unfold okOps allOk
  induction ops with
  | nil => rfl
  | cons a t ih => simp [List.filter, ih]

theorem okOps_allFail (ops : List FsOp) : okOps (allFail ops) = [] := by
  unfold okOps allFail
  induction ops with
  | nil => rfl
  | cons a t ih => simp [List.filter, ih]

theorem okOps_append (a b : List Att) : okOps (a ++ b) = okOps a ++ okOps b := by
  unfold okOps; simp

theorem mem_okOps_map {ops : List FsOp} {f : FsOp → Bool} {o : FsOp}
    (h : o ∈ okOps (ops.map (fun x => (⟨x, f x⟩ : Att)))) : o ∈ ops := by
  unfold okOps at h
  obtain ⟨a, ha, rfl⟩ := List.mem_map.mp h
  obtain ⟨x, hx, rfl⟩ := List.mem_map.mp (List.mem_filter.mp ha).1
  exact hx

theorem okOps_fail1 (o : FsOp) : okOps [⟨o, false⟩] = [] := rfl

end GunYu.StoreFsX
