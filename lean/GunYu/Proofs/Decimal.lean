/-
  Decimal rendering / parsing round trip for `GunYu.natToDec` / `GunYu.decToNat?`
  (Basic/Bytes.lean). Core only.
-/
import GunYu.Basic.Bytes

namespace GunYu.Decimal
open GunYu

/-- the decimal digits of `n`, least significant first (at least one digit) -/
def digitsLE : Nat → Nat → Bytes
  | 0, _ => []
  | fuel+1, n => UInt8.ofNat (48 + n % 10) :: (if n / 10 = 0 then [] else digitsLE fuel (n / 10))

theorem natToDecAux_eq (fuel n : Nat) (acc : Bytes) :
    natToDecAux fuel n acc = (digitsLE fuel n).reverse ++ acc := by
  induction fuel generalizing n acc with
  | zero => simp [natToDecAux, digitsLE]
  | succ f ih =>
    simp only [natToDecAux, digitsLE]
    split
    · simp
    · rw [ih]; simp

def digitVal (b : UInt8) : Nat := b.toNat - 48

/-- value of a little-endian digit list -/
def valLE : Bytes → Nat
  | [] => 0
  | b :: bs => valLE bs * 10 + digitVal b

theorem digitVal_ofNat (d : Nat) (h : d < 10) : digitVal (UInt8.ofNat (48 + d)) = d := by
  simp only [digitVal, UInt8.toNat_ofNat']
  omega

theorem isDigit_ofNat (d : Nat) (h : d < 10) : isDigit (UInt8.ofNat (48 + d)) = true := by
  simp only [isDigit, Bool.and_eq_true, decide_eq_true_eq, UInt8.le_iff_toNat_le, UInt8.toNat_ofNat']
  have : (48 + d) % 2 ^ 8 = 48 + d := by omega
  rw [this]
  constructor
  · show (48 : UInt8).toNat ≤ 48 + d; simp
  · show 48 + d ≤ (57 : UInt8).toNat; simp; omega

theorem valLE_digitsLE (fuel n : Nat) (h : n < fuel) : valLE (digitsLE fuel n) = n := by
  induction fuel generalizing n with
  | zero => omega
  | succ f ih =>
    simp only [digitsLE, valLE]
    rw [digitVal_ofNat _ (Nat.mod_lt _ (by decide))]
    split
    · simp only [valLE]; omega
    · rw [ih (n / 10) (by omega)]; omega

theorem digitsLE_all (fuel n : Nat) : ∀ b ∈ digitsLE fuel n, isDigit b = true := by
  induction fuel generalizing n with
  | zero => simp [digitsLE]
  | succ f ih =>
    intro b hb
    simp only [digitsLE, List.mem_cons] at hb
    rcases hb with rfl | hb
    · exact isDigit_ofNat _ (Nat.mod_lt _ (by decide))
    · split at hb
      · simp at hb
      · exact ih _ b hb

theorem foldl_reverse_valLE (ds : Bytes) :
    ds.reverse.foldl (fun acc b => acc * 10 + (b.toNat - 48)) 0 = valLE ds := by
  induction ds with
  | nil => rfl
  | cons b bs ih => simp [List.foldl_append, ih, valLE, digitVal]

theorem natToDec_eq (n : Nat) : natToDec n = (digitsLE (n+1) n).reverse := by
  simp [natToDec, natToDecAux_eq]

theorem natToDec_ne_nil (n : Nat) : natToDec n ≠ [] := by
  simp [natToDec_eq, digitsLE]

/-- every byte of a rendered number is an ASCII digit -/
theorem natToDec_all_digit (n : Nat) : ∀ b ∈ natToDec n, isDigit b = true := by
  intro b hb
  rw [natToDec_eq, List.mem_reverse] at hb
  exact digitsLE_all _ _ b hb

/-- decimal round trip, every natural number -/
theorem decToNat?_natToDec (n : Nat) : decToNat? (natToDec n) = some n := by
  unfold decToNat?
  have hne := natToDec_ne_nil n
  have hall : (natToDec n).all isDigit = true := by
    rw [List.all_eq_true]; exact natToDec_all_digit n
  simp only [List.isEmpty_iff, hne, if_false, hall, if_true]
  rw [natToDec_eq, foldl_reverse_valLE, valLE_digitsLE _ _ (by omega)]

theorem isDigit_iff (b : UInt8) : isDigit b = true ↔ 48 ≤ b.toNat ∧ b.toNat ≤ 57 := by
  simp only [isDigit, Bool.and_eq_true, decide_eq_true_eq, UInt8.le_iff_toNat_le]
  constructor <;> intro ⟨a, c⟩ <;> exact ⟨a, c⟩

end GunYu.Decimal
