/-
  C20 — whole runs WITHOUT the assumption that the groups' cells are pairwise distinct.

  1. `seqW`: the effects of the key groups applied one after the other, each evaluated on the
     keyspace AS IT IS WHEN THE GROUP IS REACHED; `Runner.seqW_spec`: that is what the worker loop
     with DB selection does, for any list of good groups (outcome and whole keyspace).
  2. `polSeq`: the key-exists policy applied literally, group after group (`polEff`): a key created by an
     earlier group of the same run is an existing key for a later group that is replayed to the same cell.
     Consequences for cells that several groups are replayed to: `replace` — the LAST group wins; `ignore` —
     the FIRST group wins where the target held nothing, the target's own value stays otherwise; `error` —
     the run stops at the first group whose cell the target held or an earlier group wrote.

  Core Lean only.
-/
import GunYu.Proofs.RestoreRun

namespace GunYu.Restore
open GunYu

/-- the groups' effects in order, each on the keyspace as it is when the group is reached -/
def seqW (eff : Target → KGroup → Eff) : Target → List KGroup → Outcome × KS
  | t, [] => (.ok, t.ks)
  | t, g :: gs =>
    match eff (t.inDb g.dbn) g with
    | .keep => seqW eff t gs
    | .set o => seqW eff { t with ks := t.ks.set g.dbn g.key (some o) } gs
    | .stop out => (out, t.ks)

theorem Runner.seqW_spec {run : RState → Target → List Entry → Run} {eff : Target → KGroup → Eff} {good : KGroup → Prop}
    (R : Runner run eff good) :
    ∀ (gs : List KGroup) (c : Nat) (st : RState) (t ts : Target), t.cur = c → t.ks = ts.ks → t.now = ts.now →
      t.bad = ts.bad → (∀ g ∈ gs, good g ∧ g.oneDb) →
      (runWG run c st t (flat gs)).1.out = (seqW eff ts gs).1 ∧
      (runWG run c st t (flat gs)).1.tgt.ks = (seqW eff ts gs).2
  | [], c, st, t, ts, _, hks, _, _, _ => by simp [flat, runWG, seqW, hks]
  | g :: gs, c, st, t, ts, hc, hks, hnow, hbad, hgood => by
    have hg : good g := (hgood g (List.mem_cons_self ..)).1
    have hdb : ∀ e ∈ g.1 :: g.2, e.db = Int.ofNat g.dbn := (hgood g (List.mem_cons_self ..)).2
    have hgs : ∀ x ∈ gs, good x ∧ x.oneDb := fun x hx => hgood x (List.mem_cons_of_mem _ hx)
    obtain ⟨s1, s2, s3, s4⟩ := applySel t c g.dbn hc
    have hW := R.runWG_group c g.dbn st t g.1 g.2 hdb
    have hent : g.entries = g.1 :: g.2 := rfl
    rw [flat_cons, runWG_split, hent, hW]
    generalize applyReqs t (if g.dbn ≠ c then [Req.select g.dbn] else []) = t1 at s1 s2 s3 s4
    generalize (if g.dbn ≠ c then [Req.select g.dbn] else []) = sel
    obtain ⟨icur, inow, ibad⟩ := R.inv (g.1 :: g.2) st t1
    have heffg : eff t1 g = eff (ts.inDb g.dbn) g := by
      refine R.loc (ts.inDb g.dbn) t1 g (by rw [s3, hnow]; rfl) (by rw [s4, hbad]; rfl) ?_
      simp only [Target.get, Target.inDb, s1, s2, hks]
    have hk := R.keep st t1 g hg
    have hs := R.set st t1 g
    have hst := R.stop st t1 g
    rw [heffg, hent] at hk hst
    simp only [heffg, hent] at hs
    generalize run st t1 (g.1 :: g.2) = r1 at icur inow ibad hk hs hst
    simp only [seqW]
    cases he : eff (ts.inDb g.dbn) g with
    | stop out =>
      obtain ⟨hne, hout, hks'⟩ := hst out hg he
      simp only [wResume, hout, hne, if_false]
      refine ⟨?_, ?_⟩
      · first | trivial | rfl
      funext d k
      rw [hks' d k, s2, hks]
    | keep =>
      obtain ⟨ho, hks'⟩ := hk he
      simp only [wResume, ho, if_true]
      have hk1 : r1.tgt.ks = ts.ks := by funext d k; rw [hks' d k, s2, hks]
      exact Runner.seqW_spec R gs g.dbn r1.st r1.tgt ts (icur.trans s1) hk1 (by rw [inow, s3, hnow]) (by rw [ibad, s4, hbad]) hgs
    | set o =>
      obtain ⟨ho, hkk, hks'⟩ := hs o hg he
      simp only [wResume, ho, if_true]
      have hk1 : r1.tgt.ks = ts.ks.set g.dbn g.key (some o) := by
        funext d k
        by_cases hdk : d = g.dbn ∧ k = g.key
        · obtain ⟨rfl, rfl⟩ := hdk
          have : r1.tgt.ks r1.tgt.cur g.key = some o := hkk
          rw [icur, s1] at this
          simp [KS.set, this]
        · rw [hks' d k (by rw [s1]; exact hdk), s2, hks]
          simp [KS.set, hdk]
      exact Runner.seqW_spec R gs g.dbn r1.st r1.tgt { ts with ks := ts.ks.set g.dbn g.key (some o) } (icur.trans s1) hk1
        (by rw [inow, s3, hnow]) (by rw [ibad, s4, hbad]) hgs

/-- whatever the effects are: a cell that no group is replayed to is untouched -/
theorem seqW_frame (eff : Target → KGroup → Eff) :
    ∀ (gs : List KGroup) (t : Target) (d : Nat) (k : Bytes), (d, k) ∉ gs.map KGroup.cell → (seqW eff t gs).2 d k = t.ks d k
  | [], _, _, _, _ => rfl
  | g :: gs, t, d, k, h => by
    have h1 : ¬ (d = g.dbn ∧ k = g.key) := fun hh => h (by simp [KGroup.cell, hh.1, hh.2])
    have h2 : (d, k) ∉ gs.map KGroup.cell := fun hh => h (List.mem_cons_of_mem _ hh)
    simp only [seqW]
    cases eff (t.inDb g.dbn) g with
    | keep => exact seqW_frame eff gs t d k h2
    | set o =>
      rw [seqW_frame eff gs _ d k h2]
      simp [KS.set, h1]
    | stop out => rfl

/-- effects that write only where nothing is (`ignore`, `error`): what the target held at the start is never changed -/
theorem seqW_keeps_held (eff : Target → KGroup → Eff) (hset : ∀ (t : Target) (g : KGroup) (o : Obj), eff t g = .set o → t.get g.key = none) :
    ∀ (gs : List KGroup) (t : Target) (d : Nat) (k : Bytes) (v : Obj), t.ks d k = some v → (seqW eff t gs).2 d k = some v
  | [], _, _, _, _, h => h
  | g :: gs, t, d, k, v, h => by
    simp only [seqW]
    cases he : eff (t.inDb g.dbn) g with
    | keep => exact seqW_keeps_held eff hset gs t d k v h
    | stop out => exact h
    | set o =>
      have hn : t.ks g.dbn g.key = none := hset (t.inDb g.dbn) g o he
      refine seqW_keeps_held eff hset gs _ d k v ?_
      have : ¬ (d = g.dbn ∧ k = g.key) := by rintro ⟨rfl, rfl⟩; rw [hn] at h; cases h
      simp [KS.set, this, h]

/-! ### the policy, literally -/

/-- what the key-exists policy says for a key that holds `was` when its group is reached (`o` = the snapshot's object) -/
def polEff (pol : Policy) (o : Obj) (was : Option Obj) : Eff :=
  match pol, was with
  | .replace, _ => .set o
  | _, none => .set o
  | .ignore, some _ => .keep
  | .error, some _ => .stop .errExists

/-- the policy applied group after group to the keyspace as it is when the group is reached -/
def polSeq (pol : Policy) (obj : KGroup → Obj) : KS → List KGroup → Outcome × KS
  | ks, [] => (.ok, ks)
  | ks, g :: gs =>
    match polEff pol (obj g) (ks g.dbn g.key) with
    | .keep => polSeq pol obj ks gs
    | .set o => polSeq pol obj (ks.set g.dbn g.key (some o)) gs
    | .stop out => (out, ks)

theorem seqW_eq_polSeq (pol : Policy) (obj : KGroup → Obj) (eff : Target → KGroup → Eff) :
    ∀ (gs : List KGroup) (t : Target),
      (∀ g ∈ gs, ∀ t' : Target, t'.now = t.now → t'.bad = t.bad → eff t' g = polEff pol (obj g) (t'.get g.key)) →
      seqW eff t gs = polSeq pol obj t.ks gs
  | [], t, _ => rfl
  | g :: gs, t, h => by
    have hg := h g (List.mem_cons_self ..) (t.inDb g.dbn) rfl rfl
    have hrest : ∀ t' : Target, t'.now = t.now → t'.bad = t.bad →
        ∀ x ∈ gs, ∀ t'' : Target, t''.now = t'.now → t''.bad = t'.bad → eff t'' x = polEff pol (obj x) (t''.get x.key) :=
      fun t' h1 h2 x hx t'' h3 h4 => h x (List.mem_cons_of_mem _ hx) t'' (h3.trans h1) (h4.trans h2)
    simp only [seqW, polSeq, hg]
    have hget : (t.inDb g.dbn).get g.key = t.ks g.dbn g.key := rfl
    rw [hget]
    cases polEff pol (obj g) (t.ks g.dbn g.key) with
    | keep => exact seqW_eq_polSeq pol obj eff gs t (hrest t rfl rfl)
    | set o => exact seqW_eq_polSeq pol obj eff gs { t with ks := t.ks.set g.dbn g.key (some o) } (hrest _ rfl rfl)
    | stop out => rfl

theorem KS.set_same (ks : KS) (d : Nat) (k : Bytes) (o : Option Obj) : (ks.set d k o) d k = o := by simp [KS.set]

theorem KS.set_other (ks : KS) (d d' : Nat) (k k' : Bytes) (o : Option Obj) (h : ¬ (d' = d ∧ k' = k)) :
    (ks.set d k o) d' k' = ks d' k' := by simp [KS.set, h]

/-- cells that no group is replayed to are untouched -/
theorem polSeq_frame (pol : Policy) (obj : KGroup → Obj) :
    ∀ (gs : List KGroup) (ks : KS) (d : Nat) (k : Bytes), (d, k) ∉ gs.map KGroup.cell → (polSeq pol obj ks gs).2 d k = ks d k
  | [], _, _, _, _ => rfl
  | g :: gs, ks, d, k, h => by
    have h1 : ¬ (d = g.dbn ∧ k = g.key) := fun hh => h (by simp [KGroup.cell, hh.1, hh.2])
    have h2 : (d, k) ∉ gs.map KGroup.cell := fun hh => h (List.mem_cons_of_mem _ hh)
    simp only [polSeq]
    cases polEff pol (obj g) (ks g.dbn g.key) with
    | keep => exact polSeq_frame pol obj gs ks d k h2
    | set o => rw [polSeq_frame pol obj gs _ d k h2, KS.set_other _ _ _ _ _ _ h1]
    | stop out => rfl

theorem polSeq_cons (pol : Policy) (obj : KGroup → Obj) (ks : KS) (g : KGroup) (gs : List KGroup) :
    polSeq pol obj ks (g :: gs) =
      match pol, ks g.dbn g.key with
      | .replace, _ => polSeq pol obj (ks.set g.dbn g.key (some (obj g))) gs
      | _, none => polSeq pol obj (ks.set g.dbn g.key (some (obj g))) gs
      | .ignore, some _ => polSeq pol obj ks gs
      | .error, some _ => (.errExists, ks) := by
  cases pol <;> cases h : ks g.dbn g.key <;> simp [polSeq, polEff, h]

theorem polSeq_append (pol : Policy) (obj : KGroup → Obj) :
    ∀ (a b : List KGroup) (ks : KS),
      polSeq pol obj ks (a ++ b) =
        if (polSeq pol obj ks a).1 = .ok then polSeq pol obj (polSeq pol obj ks a).2 b else polSeq pol obj ks a
  | [], b, ks => by simp [polSeq]
  | g :: a, b, ks => by
    have ih := polSeq_append pol obj a b
    rw [List.cons_append, polSeq_cons, polSeq_cons]
    cases pol <;> cases h : ks g.dbn g.key <;> simp [ih]

/-- `replace` and `ignore` never stop -/
theorem polSeq_ok (pol : Policy) (obj : KGroup → Obj) (hp : pol ≠ .error) :
    ∀ (gs : List KGroup) (ks : KS), (polSeq pol obj ks gs).1 = .ok
  | [], _ => rfl
  | g :: gs, ks => by
    have ih := polSeq_ok pol obj hp gs
    rw [polSeq_cons]
    cases pol <;> cases h : ks g.dbn g.key <;> simp [ih] at hp ⊢

/-- **replace**: a cell ends with the object of the LAST group that is replayed to it -/
theorem polSeq_replace_last (obj : KGroup → Obj) (pre post : List KGroup) (g : KGroup) (ks : KS)
    (hlast : g.cell ∉ post.map KGroup.cell) :
    (polSeq .replace obj ks (pre ++ g :: post)).2 g.dbn g.key = some (obj g) := by
  rw [polSeq_append, polSeq_ok .replace obj (by simp), if_pos rfl, polSeq_cons]
  simp only
  rw [polSeq_frame .replace obj post _ g.dbn g.key hlast, KS.set_same]

/-- **ignore**: what the target held at the start is never changed … -/
theorem polSeq_ignore_keeps (obj : KGroup → Obj) :
    ∀ (gs : List KGroup) (ks : KS) (d : Nat) (k : Bytes) (o : Obj), ks d k = some o → (polSeq .ignore obj ks gs).2 d k = some o
  | [], _, _, _, _, h => h
  | g :: gs, ks, d, k, o, h => by
    rw [polSeq_cons]
    cases hg : ks g.dbn g.key with
    | some x => exact polSeq_ignore_keeps obj gs ks d k o h
    | none =>
      simp only
      refine polSeq_ignore_keeps obj gs _ d k o ?_
      rw [KS.set_other _ _ _ _ _ _ (by rintro ⟨rfl, rfl⟩; rw [hg] at h; cases h)]
      exact h

/-- … and a cell the target did not hold ends with the object of the FIRST group that is replayed to it
    (the later groups of the same cell are dropped) -/
theorem polSeq_ignore_first (obj : KGroup → Obj) (pre post : List KGroup) (g : KGroup) (ks : KS)
    (hfirst : g.cell ∉ pre.map KGroup.cell) (hnone : ks g.dbn g.key = none) :
    (polSeq .ignore obj ks (pre ++ g :: post)).2 g.dbn g.key = some (obj g) := by
  rw [polSeq_append, polSeq_ok .ignore obj (by simp), if_pos rfl, polSeq_cons]
  have : (polSeq .ignore obj ks pre).2 g.dbn g.key = none := by rw [polSeq_frame .ignore obj pre ks g.dbn g.key hfirst, hnone]
  simp only [this]
  exact polSeq_ignore_keeps obj post _ g.dbn g.key (obj g) (KS.set_same _ _ _ _)

/-- groups with pairwise distinct cells none of which the target holds: every policy writes them all -/
theorem polSeq_clean (pol : Policy) (obj : KGroup → Obj) :
    ∀ (gs : List KGroup) (ks : KS), (gs.map KGroup.cell).Nodup → (∀ g ∈ gs, ks g.dbn g.key = none) →
      (polSeq pol obj ks gs).1 = .ok ∧ ∀ g ∈ gs, (polSeq pol obj ks gs).2 g.dbn g.key = some (obj g)
  | [], _, _, _ => ⟨rfl, by simp⟩
  | g :: gs, ks, hnd, hnone => by
    have hnd' : (gs.map KGroup.cell).Nodup := (List.nodup_cons.mp (by simpa using hnd)).2
    have hnotin : g.cell ∉ gs.map KGroup.cell := (List.nodup_cons.mp (by simpa using hnd)).1
    have hg := hnone g (List.mem_cons_self ..)
    have hrest : ∀ x ∈ gs, (ks.set g.dbn g.key (some (obj g))) x.dbn x.key = none := by
      intro x hx
      rw [KS.set_other _ _ _ _ _ _ (by
        rintro ⟨h1, h2⟩
        exact hnotin (by
          have : x.cell = g.cell := by simp [KGroup.cell, h1, h2]
          rw [← this]; exact List.mem_map_of_mem (f := KGroup.cell) hx))]
      exact hnone x (List.mem_cons_of_mem _ hx)
    obtain ⟨i1, i2⟩ := polSeq_clean pol obj gs (ks.set g.dbn g.key (some (obj g))) hnd' hrest
    have hc : polSeq pol obj ks (g :: gs) = polSeq pol obj (ks.set g.dbn g.key (some (obj g))) gs := by
      rw [polSeq_cons]; cases pol <;> simp [hg]
    rw [hc]
    refine ⟨i1, ?_⟩
    intro x hx
    rcases List.mem_cons.mp hx with rfl | hx
    · rw [polSeq_frame pol obj gs _ x.dbn x.key hnotin, KS.set_same]
    · exact i2 x hx

/-- **error**: the run stops with the key-exists error at the first group whose cell the target held at the start
    OR an earlier group of this run wrote; the groups before it are written, every other cell is untouched -/
theorem polSeq_error_stops (obj : KGroup → Obj) (pre post : List KGroup) (g : KGroup) (ks : KS)
    (hnd : (pre.map KGroup.cell).Nodup) (hnone : ∀ p ∈ pre, ks p.dbn p.key = none)
    (hheld : ks g.dbn g.key ≠ none ∨ g.cell ∈ pre.map KGroup.cell) :
    (polSeq .error obj ks (pre ++ g :: post)).1 = .errExists ∧
    (∀ p ∈ pre, (polSeq .error obj ks (pre ++ g :: post)).2 p.dbn p.key = some (obj p)) ∧
    (∀ d k, (d, k) ∉ pre.map KGroup.cell → (polSeq .error obj ks (pre ++ g :: post)).2 d k = ks d k) := by
  obtain ⟨c1, c2⟩ := polSeq_clean .error obj pre ks hnd hnone
  have hsome : (polSeq .error obj ks pre).2 g.dbn g.key ≠ none := by
    by_cases hin : g.cell ∈ pre.map KGroup.cell
    · obtain ⟨p, hp, hpc⟩ := List.mem_map.mp hin
      have h1 : p.dbn = g.dbn := congrArg Prod.fst hpc
      have h2 : p.key = g.key := congrArg Prod.snd hpc
      rw [← h1, ← h2, c2 p hp]; simp
    · rw [polSeq_frame .error obj pre ks g.dbn g.key hin]
      rcases hheld with h | h
      · exact h
      · exact absurd h hin
  have hall : polSeq .error obj ks (pre ++ g :: post) = (.errExists, (polSeq .error obj ks pre).2) := by
    rw [polSeq_append, c1, if_pos rfl, polSeq_cons]
    cases h : (polSeq .error obj ks pre).2 g.dbn g.key with
    | none => exact absurd h hsome
    | some x => rfl
  rw [hall]
  exact ⟨rfl, c2, fun d k h => polSeq_frame .error obj pre ks d k h⟩

/-- `replace` / `ignore`: what a cell ends with depends only on the groups that are replayed to THAT cell — dropping any
    set of other groups (those of the other workers) changes nothing there -/
theorem polSeq_cell_filter (pol : Policy) (hp : pol ≠ .error) (obj : KGroup → Obj) (P : KGroup → Bool) (d : Nat) (k : Bytes)
    (hP : ∀ g : KGroup, g.dbn = d → g.key = k → P g = true) :
    ∀ (gs : List KGroup) (ks ks' : KS), ks d k = ks' d k →
      (polSeq pol obj ks gs).2 d k = (polSeq pol obj ks' (gs.filter P)).2 d k
  | [], _, _, h => h
  | g :: gs, ks, ks', h => by
    have ih := polSeq_cell_filter pol hp obj P d k hP gs
    by_cases hc : g.dbn = d ∧ g.key = k
    · obtain ⟨rfl, rfl⟩ := hc
      rw [List.filter_cons, hP g rfl rfl, if_pos rfl, polSeq_cons, polSeq_cons, ← h]
      cases pol with
      | error => exact absurd rfl hp
      | replace => exact ih _ _ (by rw [KS.set_same, KS.set_same])
      | ignore =>
        cases hv : ks g.dbn g.key with
        | none => exact ih _ _ (by rw [KS.set_same, KS.set_same])
        | some x => exact ih _ _ h
    · have hne : ¬ (d = g.dbn ∧ k = g.key) := fun hh => hc ⟨hh.1.symm, hh.2.symm⟩
      -- left side: one step on another cell
      have hleft : ∃ ks1 : KS, ks1 d k = ks d k ∧ polSeq pol obj ks (g :: gs) = polSeq pol obj ks1 gs := by
        rw [polSeq_cons]
        cases pol with
        | error => exact absurd rfl hp
        | replace => exact ⟨_, KS.set_other _ _ _ _ _ _ hne, rfl⟩
        | ignore =>
          cases hv : ks g.dbn g.key with
          | none => exact ⟨_, KS.set_other _ _ _ _ _ _ hne, rfl⟩
          | some x => exact ⟨ks, rfl, rfl⟩
      obtain ⟨ks1, h1, e1⟩ := hleft
      rw [e1, List.filter_cons]
      cases hPg : P g with
      | false => simp only [Bool.false_eq_true, if_false]; exact ih ks1 ks' (h1.trans h)
      | true =>
        simp only [if_true]
        have hright : ∃ ks2 : KS, ks2 d k = ks' d k ∧ polSeq pol obj ks' (g :: gs.filter P) = polSeq pol obj ks2 (gs.filter P) := by
          rw [polSeq_cons]
          cases pol with
          | error => exact absurd rfl hp
          | replace => exact ⟨_, KS.set_other _ _ _ _ _ _ hne, rfl⟩
          | ignore =>
            cases hv : ks' g.dbn g.key with
            | none => exact ⟨_, KS.set_other _ _ _ _ _ _ hne, rfl⟩
            | some x => exact ⟨ks', rfl, rfl⟩
        obtain ⟨ks2, h2, e2⟩ := hright
        rw [e2]
        exact ih ks1 ks2 (h1.trans (h.trans h2.symm))

end GunYu.Restore
