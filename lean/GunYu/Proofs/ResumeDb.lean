/-
  C02: which database the next start resumes in. After executing any prefix `E`
  of the (ordered) batch bodies on a target without earlier checkpoints, the
  largest stored offset sits in exactly one database — the one the connection was
  in when it was written — and every other database holds a strictly smaller one.
  (`GetCheckpoint` picks the largest offset, so the resume DB is that DB.)
-/
import GunYu.Proofs.Crash

namespace GunYu.Target
open GunYu GunYu.Sender

/-- every stored offset has key ≤ b -/
def AllBelow (t : TState) (b : Int) : Prop :=
  ∀ d o, (getCp t.cps d).offset = some o → 2 * o + 1 ≤ b

/-- every offset stored in a database other than the current one has key ≤ s -/
def OthersBelow (t : TState) (s : Int) : Prop :=
  ∀ d, d ≠ t.cur → ∀ o, (getCp t.cps d).offset = some o → 2 * o + 1 ≤ s

theorem execReq_cps_of_noncp (t : TState) (r : Req) (h : cpOfReq r = none) (hm : r ≠ .cpMeta) :
    (execReq t r).cps = t.cps := by
  cases r with
  | cmd n a off =>
    simp only [execReq]; split
    · split
      · split <;> rfl
      · rfl
    · split <;> rfl
  | cpOffset o => simp [cpOfReq] at h
  | cpMeta => exact absurd rfl hm
  | multi => rfl
  | exec => rfl

theorem getCp_offset_cpMeta (t : TState) (d : Int) :
    (getCp (execReq t .cpMeta).cps d).offset = (getCp t.cps d).offset := by
  simp only [execReq]
  by_cases hd : d = t.cur
  · subst hd; rw [getCp_setCp_eq]
  · rw [getCp_setCp_ne _ _ _ _ hd]

theorem execReq_cur_of_nonselect (t : TState) (r : Req) (h : ∀ a off, r ≠ .cmd bSelect a off) :
    (execReq t r).cur = t.cur := by
  cases r with
  | cmd n a off =>
    simp only [execReq]
    by_cases hs : n = bSelect
    · subst hs; exact absurd rfl (h a off)
    · simp only [hs, ↓reduceIte]; split <;> rfl
  | cpOffset o => rfl
  | cpMeta => rfl
  | multi => rfl
  | exec => rfl

/-- one request keeps the invariant: with `k` the key of the request (if any),
    `b ≤ k`: afterwards everything stored is ≤ `max b k` and the other DBs are
    below `s'`, where `s'` is `k` when the request is a SELECT and `s` otherwise -/
theorem step_inv (t : TState) (r : Req) (b s : Int) (hA : AllBelow t b) (hO : OthersBelow t s)
    (hsb : s ≤ b) (hk : ∀ k, keyOfReq r = some k → b ≤ k) :
    ∃ b' s', AllBelow (execReq t r) b' ∧ OthersBelow (execReq t r) s' ∧ s' ≤ b' ∧ b ≤ b' ∧
      (∀ k, keyOfReq r = some k → b' = k) ∧ (keyOfReq r = none → b' = b) ∧
      (s' = s ∨ (∃ a off, r = .cmd bSelect a off ∧ s' = 2 * off)) := by
  cases r with
  | cpOffset o =>
    have hb : b ≤ 2 * o + 1 := hk _ rfl
    refine ⟨2 * o + 1, s, ?_, ?_, by omega, hb, ?_, ?_, Or.inl rfl⟩
    · intro d o' h
      simp only [execReq] at h
      by_cases hd : d = t.cur
      · subst hd; rw [getCp_setCp_eq] at h; simp at h; omega
      · rw [getCp_setCp_ne _ _ _ _ hd] at h; have := hA d o' h; omega
    · intro d hd o' h
      simp only [execReq] at h hd
      rw [getCp_setCp_ne _ _ _ _ hd] at h; exact hO d hd o' h
    · intro k hk'; simp [keyOfReq] at hk'; omega
    · intro h; simp [keyOfReq] at h
  | cpMeta =>
    refine ⟨b, s, ?_, ?_, hsb, Int.le_refl _, ?_, fun _ => rfl, Or.inl rfl⟩
    · intro d o h; rw [getCp_offset_cpMeta] at h; exact hA d o h
    · intro d hd o h; rw [getCp_offset_cpMeta] at h; exact hO d hd o h
    · intro k hk'; simp [keyOfReq] at hk'
  | multi =>
    exact ⟨b, s, hA, hO, hsb, Int.le_refl _, by intro k hk'; simp [keyOfReq] at hk', fun _ => rfl, Or.inl rfl⟩
  | exec =>
    exact ⟨b, s, hA, hO, hsb, Int.le_refl _, by intro k hk'; simp [keyOfReq] at hk', fun _ => rfl, Or.inl rfl⟩
  | cmd n a off =>
    have hcps : (execReq t (.cmd n a off)).cps = t.cps :=
      execReq_cps_of_noncp t _ rfl (by intro h; cases h)
    by_cases hs : n = bSelect
    · subst hs
      have hne : bSelect ≠ bPing := by decide
      have hb : b ≤ 2 * off := hk _ (by simp [keyOfReq, hne])
      refine ⟨2 * off, 2 * off, ?_, ?_, Int.le_refl _, hb, ?_, ?_, Or.inr ⟨a, off, rfl, rfl⟩⟩
      · intro d o h; rw [hcps] at h; have := hA d o h; omega
      · intro d _ o h; rw [hcps] at h; have := hA d o h; omega
      · intro k hk'; simp [keyOfReq, hne] at hk'; omega
      · intro h; simp [keyOfReq, hne] at h
    · have hcur : (execReq t (.cmd n a off)).cur = t.cur :=
        execReq_cur_of_nonselect t _ (by intro a' off' h; injection h with h1; exact hs h1)
      by_cases hp : n = bPing
      · refine ⟨b, s, ?_, ?_, hsb, Int.le_refl _, ?_, fun _ => rfl, Or.inl rfl⟩
        · intro d o h; rw [hcps] at h; exact hA d o h
        · intro d hd o h; rw [hcps] at h; rw [hcur] at hd; exact hO d hd o h
        · intro k hk'; simp [keyOfReq, hp] at hk'
      · have hb : b ≤ 2 * off := hk _ (by simp [keyOfReq, hp])
        refine ⟨2 * off, s, ?_, ?_, by omega, hb, ?_, ?_, Or.inl rfl⟩
        · intro d o h; rw [hcps] at h; have := hA d o h; omega
        · intro d hd o h; rw [hcps] at h; rw [hcur] at hd; exact hO d hd o h
        · intro k hk'; simp [keyOfReq, hp] at hk'; omega
        · intro h; simp [keyOfReq, hp] at h

def Inv (t : TState) (b s : Int) : Prop :=
  AllBelow t b ∧ OthersBelow t s ∧ s ≤ b ∧ ∃ n : Int, s = 2 * n

theorem keysB_cons (r : Req) (E : List Req) :
    keysB (r :: E) = (match keyOfReq r with | some k => [k] | none => []) ++ keysB E := by
  simp only [keysB, List.filterMap_cons]
  cases keyOfReq r <;> rfl

theorem fold_inv (E : List Req) (t : TState) (b s : Int) (hI : Inv t b s)
    (hlow : ∀ k ∈ keysB E, b ≤ k) (hs : (keysB E).Pairwise (· ≤ ·)) :
    ∃ b' s', Inv (E.foldl execReq t) b' s' ∧ b ≤ b' ∧
      (∀ u, b ≤ u → (∀ k ∈ keysB E, k ≤ u) → b' ≤ u) := by
  induction E generalizing t b s with
  | nil => exact ⟨b, s, hI, Int.le_refl _, fun u hu _ => hu⟩
  | cons r E ih =>
    obtain ⟨hA, hO, hsb, n, hn⟩ := hI
    rw [keysB_cons] at hlow hs
    have hk : ∀ k, keyOfReq r = some k → b ≤ k := by
      intro k hk'; apply hlow; rw [hk']; simp
    obtain ⟨b1, s1, hA1, hO1, hs1b1, hbb1, hkey, hnokey, hs1⟩ := step_inv t r b s hA hO hsb hk
    have hev : ∃ n1 : Int, s1 = 2 * n1 := by
      rcases hs1 with h | ⟨a, off, _, h⟩
      · exact ⟨n, by rw [h, hn]⟩
      · exact ⟨off, h⟩
    have hlow1 : ∀ k ∈ keysB E, b1 ≤ k := by
      intro k hkE
      cases hr : keyOfReq r with
      | none =>
        rw [hnokey hr]; apply hlow; rw [hr]; simpa using hkE
      | some k0 =>
        rw [hkey k0 hr]
        rw [hr] at hs
        simp only [List.singleton_append, List.pairwise_cons] at hs
        exact hs.1 k hkE
    have hsE : (keysB E).Pairwise (· ≤ ·) := by
      cases hr : keyOfReq r with
      | none => rw [hr] at hs; simpa using hs
      | some k0 => rw [hr] at hs; simp only [List.singleton_append, List.pairwise_cons] at hs; exact hs.2
    obtain ⟨b2, s2, hI2, hb12, hub2⟩ := ih (execReq t r) b1 s1 ⟨hA1, hO1, hs1b1, hev⟩ hlow1 hsE
    refine ⟨b2, s2, hI2, by omega, ?_⟩
    intro u hu hku
    apply hub2 u
    · cases hr : keyOfReq r with
      | none => rw [hnokey hr]; exact hu
      | some k0 =>
        rw [hkey k0 hr]; apply hku; rw [keysB_cons, hr]; simp
    · intro k hkE; apply hku; rw [keysB_cons]; exact List.mem_append_right _ hkE

theorem fold_no_cp_offsets (E : List Req) (hE : cpOffsetsB E = []) (t : TState) (d : Int) :
    (getCp (E.foldl execReq t).cps d).offset = (getCp t.cps d).offset := by
  induction E generalizing t with
  | nil => rfl
  | cons r E ih =>
    have hr : cpOfReq r = none := by
      simp only [cpOffsetsB, List.filterMap_cons] at hE
      cases h : cpOfReq r with
      | none => rfl
      | some o => rw [h] at hE; simp at hE
    have hE' : cpOffsetsB E = [] := by
      simp only [cpOffsetsB, List.filterMap_cons, hr] at hE; exact hE
    rw [List.foldl_cons, ih hE']
    by_cases hm : r = .cpMeta
    · subst hm; exact getCp_offset_cpMeta t d
    · rw [execReq_cps_of_noncp t r hr hm]

/-- **The database of the largest stored offset is the database it was written
    in**, general form: execute, on a target whose stored offsets all have key
    `≤ b` and, outside the connection's database, key `≤ s` (`Inv t b s`), any
    request list with ordered keys all `≥ b` whose last checkpoint write is
    `<rid>_offset o`. Then `o` sits in the database `d` the connection was in at
    that write, and every other database holds a strictly smaller offset. -/
theorem resume_db_unique_from (E1 E2 : List Req) (o : Int) (t : TState) (b s : Int)
    (hI0 : Inv t b s)
    (hsorted : (keysB (E1 ++ Req.cpOffset o :: E2)).Pairwise (· ≤ ·))
    (hnn : ∀ k ∈ keysB (E1 ++ Req.cpOffset o :: E2), b ≤ k)
    (hlast : cpOffsetsB E2 = []) :
    let d := (E1.foldl execReq t).cur
    let t' := (E1 ++ Req.cpOffset o :: E2).foldl execReq t
    (getCp t'.cps d).offset = some o ∧
    ∀ d', d' ≠ d → ∀ o', (getCp t'.cps d').offset = some o' → o' < o := by
  simp only
  rw [List.foldl_append, List.foldl_cons]
  rw [keysB_append] at hsorted hnn
  have hs1 : (keysB E1).Pairwise (· ≤ ·) := (List.pairwise_append.mp hsorted).1
  obtain ⟨b1, s1, ⟨hA1, hO1, hs1b1, n1, hn1⟩, _, hub1⟩ :=
    fold_inv E1 t b s hI0 (fun k hk => hnn k (List.mem_append_left _ hk)) hs1
  -- the checkpoint key dominates everything before it
  have hkey : 2 * o + 1 ∈ keysB (Req.cpOffset o :: E2) := by rw [keysB_cons]; simp [keyOfReq]
  have hb1 : b1 ≤ 2 * o + 1 :=
    hub1 (2 * o + 1) (hnn _ (List.mem_append_right _ hkey))
      (fun k hk => (List.pairwise_append.mp hsorted).2.2 k hk _ hkey)
  refine ⟨?_, ?_⟩
  · rw [fold_no_cp_offsets E2 hlast]
    simp only [execReq]; rw [getCp_setCp_eq]
  · intro d' hd' o' h
    rw [fold_no_cp_offsets E2 hlast] at h
    simp only [execReq] at h
    rw [getCp_setCp_ne _ _ _ _ hd'] at h
    have := hO1 d' hd' o' h
    omega

/-- the same on a target without earlier checkpoints -/
theorem resume_db_unique (E1 E2 : List Req) (o : Int) (t : TState) (hfresh : t.cps = [])
    (hsorted : (keysB (E1 ++ Req.cpOffset o :: E2)).Pairwise (· ≤ ·))
    (lo : Int) (hnn : ∀ k ∈ keysB (E1 ++ Req.cpOffset o :: E2), 2 * lo ≤ k)
    (hlast : cpOffsetsB E2 = []) :
    let d := (E1.foldl execReq t).cur
    let t' := (E1 ++ Req.cpOffset o :: E2).foldl execReq t
    (getCp t'.cps d).offset = some o ∧
    ∀ d', d' ≠ d → ∀ o', (getCp t'.cps d').offset = some o' → o' < o :=
  resume_db_unique_from E1 E2 o t (2 * lo) (2 * lo)
    ⟨by intro d o' h; simp [hfresh, getCp] at h, by intro d _ o' h; simp [hfresh, getCp] at h,
      Int.le_refl _, lo, rfl⟩ hsorted hnn hlast

end GunYu.Target
