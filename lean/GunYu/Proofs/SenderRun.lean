/-
  Run-level lemmas shared by C01/C02/C09: the whole loop over any event list.
-/
import GunYu.Proofs.SenderData
import GunYu.Proofs.SenderCp
import GunYu.Proofs.TargetExec

namespace GunYu.Sender
open GunYu.Target

/-- the forwarded stream of a schedule: what the documented removals leave
    (keep-alives, transaction brackets); the loop stops at `done` -/
def fwd (t : Txn) : List Ev → List Cmd
  | [] => []
  | ev :: rest => (fwd1 t ev).1 ++ (if ev = .done then [] else fwd (fwd1 t ev).2 rest)

theorem run_data (c : SCfg) (s : SState) (evs : List Ev) :
    dataOut (run c s evs).2 ++ qd (run c s evs).1 = qd s ++ fwd s.txn evs := by
  induction evs generalizing s with
  | nil => simp [run, fwd]
  | cons ev rest ih =>
    obtain ⟨h1, ht⟩ := step_data c s ev
    simp only [run, fwd]
    split
    · simp only [List.append_nil]; exact h1
    · rw [dataOut_append, List.append_assoc, ih, ht, ← List.append_assoc, h1, List.append_assoc]

/-! every batch the loop emits is well formed (plain body, optionally bracketed) -/

def AllWF (out : List Batch) : Prop := ∀ b ∈ out, WFBatch b

theorem allWF_nil : AllWF [] := by intro b hb; cases hb
theorem allWF_append {a b : List Batch} (ha : AllWF a) (hb : AllWF b) : AllWF (a ++ b) := by
  intro x hx; rcases List.mem_append.mp hx with h | h
  · exact ha x h
  · exact hb x h

theorem sendOnce_wf (c : SCfg) (s : SState) (tb up : Bool) (off : Int) :
    AllWF (optToList (sendOnce c s tb up off).2) := by
  unfold sendOnce
  simp only
  split
  · exact allWF_nil
  · split
    · exact allWF_nil
    · intro b hb
      simp [optToList] at hb
      subst hb
      exact wf_sendReqs ..

theorem tail_wf (c : SCfg) (s : SState) (tb up : Bool) (out : List Batch) (h : AllWF out) :
    AllWF (tail c s tb up out).2 := by
  unfold tail
  simp only
  split
  · simp only [↓reduceIte]; exact allWF_append h (sendOnce_wf _ _ _ _ _)
  · split
    · exact allWF_append h (sendOnce_wf _ _ _ _ _)
    · exact h

theorem preFlush_wf (c : SCfg) (s : SState) (t : Txn) (nf : Bool) (prev : Int) :
    AllWF (preFlush c s t nf prev).2 := by
  unfold preFlush
  split
  · exact sendOnce_wf _ _ _ _ _
  · exact allWF_nil

theorem step_wf (c : SCfg) (s : SState) (ev : Ev) : AllWF (step c s ev).2 := by
  cases ev with
  | item it =>
    simp only [step]
    split
    · exact allWF_nil
    · unfold stepItem
      simp only
      split
      · unfold stepItemTxn; exact tail_wf _ _ _ _ _ (preFlush_wf _ _ _ _ _)
      · unfold stepItemPlain
        split
        · exact allWF_nil
        · split <;> exact tail_wf _ _ _ _ _ allWF_nil
  | batchTick => simp only [step]; split <;> exact tail_wf _ _ _ _ _ allWF_nil
  | keepaliveTick =>
    simp only [step]
    split
    · split <;> exact tail_wf _ _ _ _ _ allWF_nil
    · exact tail_wf _ _ _ _ _ allWF_nil
  | cpTick => simp only [step]; split <;> exact tail_wf _ _ _ _ _ allWF_nil
  | done => simp only [step]; split <;> exact tail_wf _ _ _ _ _ allWF_nil

theorem run_wf (c : SCfg) (s : SState) (evs : List Ev) : AllWF (run c s evs).2 := by
  induction evs generalizing s with
  | nil => exact allWF_nil
  | cons ev rest ih =>
    simp only [run]
    split
    · exact step_wf c s ev
    · exact allWF_append (step_wf c s ev) (ih _)

theorem sendOnce_queue_nil (c : SCfg) (s : SState) (tb up : Bool) (off : Int) :
    (sendOnce c s tb up off).1.queue = [] := by
  unfold sendOnce
  simp only
  split
  · rename_i h
    simp only [Bool.and_eq_true] at h
    simpa using h.1.1
  · split
    · rename_i h
      unfold sendReqs at h
      have : s.queue.map (fun i => Req.cmd i.cmd i.args i.offset) = [] := by
        cases tb <;> simp_all
      simpa using this
    · rfl

theorem tail_forced_queue_nil (c : SCfg) (s : SState) (tb up : Bool) (out : List Batch)
    (h : s.needFlush = true) : (tail c s tb up out).1.queue = [] := by
  unfold tail
  simp only [h, Bool.not_true, Bool.false_and, Bool.false_eq_true, ↓reduceIte]
  exact sendOnce_queue_nil ..


theorem tail_quiet (c : SCfg) (s : SState) (tb up : Bool) (out : List Batch)
    (h1 : s.inTxn = true) (h2 : s.needFlush = false) : tail c s tb up out = (s, out) := by
  unfold tail
  simp [h1, h2]

/-- a forced in-item flush leaves an empty queue and resets the flags -/
theorem preFlush_forced (c : SCfg) (s : SState) (t : Txn) (prev : Int) :
    (preFlush c s t true prev).1.queue = [] ∧ (preFlush c s t true prev).1.needFlush = false ∧
    (preFlush c s t true prev).1.inTxn = false ∧ (preFlush c s t true prev).1.txn = s.txn ∧
    (preFlush c s t true prev).1.lastOffset = s.lastOffset := by
  unfold preFlush
  rw [if_pos rfl]
  refine ⟨?_, rfl, rfl, ?_, ?_⟩
  · exact sendOnce_queue_nil _ _ _ _ _
  · exact (sendOnce_data _ _ _ _ _).2
  · exact (sendOnce_cp _ _ _ _ _).1

end GunYu.Sender
