/-
  C08 — what the size/CRC check of a segment file accepts, as an algebraic fact about
  the 16 header bytes: a file `hdr ++ data` passes iff header bytes 1..12 (CRC64, 8 bytes
  LE; data size, 4 bytes LE) are exactly those `closeAof` writes for `data`. Byte 0
  (version) and bytes 13..15 (reserved) are looked at by nobody.
-/
import GunYu.Proofs.StoreFs

namespace GunYu.StoreFs
open GunYu GunYu.Store

theorem ofLE_lt : ∀ (bs : Bytes), ofLE bs < 256 ^ bs.length := by
  intro bs
  induction bs with
  | nil => simp [ofLE]
  | cons b t ih =>
    simp only [ofLE, List.length_cons, Nat.pow_succ]
    have := b.toNat_lt
    omega

theorem leBytes_ofLE : ∀ (bs : Bytes), leBytes bs.length (ofLE bs) = bs := by
  intro bs
  induction bs with
  | nil => rfl
  | cons b t ih =>
    simp only [List.length_cons, leBytes, ofLE]
    have hb := b.toNat_lt
    have h1 : (b.toNat + 256 * ofLE t) % 256 = b.toNat := by omega
    have h2 : (b.toNat + 256 * ofLE t) / 256 = ofLE t := by omega
    rw [h1, h2, ih]
    simp

theorem leBytes_inj {k a b : Nat} (ha : a < 256 ^ k) (hb : b < 256 ^ k) (h : leBytes k a = leBytes k b) : a = b := by
  have := congrArg ofLE h
  rw [ofLE_leBytes, ofLE_leBytes, Nat.mod_eq_of_lt ha, Nat.mod_eq_of_lt hb] at this
  exact this

/-- header bytes 1..12: the recorded CRC64 and data size -/
def hdrFields (hdr : Bytes) : Bytes := (hdr.drop 1).take 12

theorem hdrFields_closed (data : Bytes) :
    hdrFields (closedHeader data) = leBytes 8 (crc64 data) ++ leBytes 4 (data.length % 4294967296) := by
  unfold hdrFields closedHeader
  simp only [List.drop_succ_cons, List.drop_zero]
  rw [List.take_append_of_le_length (by simp [leBytes_length])]
  rw [List.take_of_length_le (by simp [leBytes_length])]

theorem hdrFields_split (hdr : Bytes) :
    hdrFields hdr = (hdr.drop 1).take 8 ++ (hdr.drop 9).take 4 := by
  unfold hdrFields
  have : (12 : Nat) = 8 + 4 := rfl
  rw [this, List.take_add, List.drop_drop]

/-- the check reads the file through its length, header bytes 1..8 and 9..12, and the data -/
theorem segVerifyOk_hdr_data (hdr data : Bytes) (hl : hdr.length = headerSize) :
    segVerifyOk (hdr ++ data) =
      ((ofLE ((hdr.drop 9).take 4) == data.length) && (ofLE ((hdr.drop 1).take 8) == crc64 data)) := by
  unfold segVerifyOk
  have hl16 : hdr.length = 16 := hl
  have h16 : headerSize = 16 := rfl
  have h1 : ((hdr ++ data).drop 9).take 4 = (hdr.drop 9).take 4 := by
    rw [List.drop_append_of_le_length (by omega), List.take_append_of_le_length (by simp [List.length_drop]; omega)]
  have h2 : ((hdr ++ data).drop 1).take 8 = (hdr.drop 1).take 8 := by
    rw [List.drop_append_of_le_length (by omega), List.take_append_of_le_length (by simp [List.length_drop]; omega)]
  have h3 : (hdr ++ data).drop headerSize = data := by
    rw [List.drop_append_of_le_length (by omega), List.drop_of_length_le (by omega)]; rfl
  have h4 : (hdr ++ data).length - headerSize = data.length := by simp; omega
  have h5 : decide (headerSize ≤ (hdr ++ data).length) = true := by simp; omega
  rw [h1, h2, h3, h4, h5]
  simp

/-- **a file passes the check iff its header fields are those `closeAof` writes for its data** -/
theorem accepted_iff_consistent (hdr data : Bytes) (hl : hdr.length = headerSize) (h32 : data.length < 4294967296) :
    segVerifyOk (hdr ++ data) = true ↔ hdrFields hdr = hdrFields (closedHeader data) := by
  rw [segVerifyOk_hdr_data hdr data hl, hdrFields_closed, hdrFields_split hdr, Nat.mod_eq_of_lt h32]
  have hl16 : hdr.length = 16 := hl
  have hA : ((hdr.drop 1).take 8).length = 8 := by simp [List.length_take, List.length_drop]; omega
  have hB : ((hdr.drop 9).take 4).length = 4 := by simp [List.length_take, List.length_drop]; omega
  simp only [Bool.and_eq_true, beq_iff_eq]
  constructor
  · rintro ⟨h1, h2⟩
    have eA := leBytes_ofLE ((hdr.drop 1).take 8)
    have eB := leBytes_ofLE ((hdr.drop 9).take 4)
    rw [hA, h2] at eA
    rw [hB, h1] at eB
    rw [eA, eB]
  · intro h
    obtain ⟨e1, e2⟩ := List.append_inj h (by rw [hA, leBytes_length])
    constructor
    · rw [e2, ofLE_leBytes]; exact Nat.mod_eq_of_lt (by omega)
    · rw [e1, ofLE_leBytes]; exact Nat.mod_eq_of_lt (crc64_lt data)

/-- the version byte and the reserved bytes are read by nobody: two headers with the same
    bytes 1..12 give the same verdict -/
theorem version_reserved_ignored (hdr hdr' data : Bytes) (hl : hdr.length = headerSize) (hl' : hdr'.length = headerSize)
    (h : hdrFields hdr = hdrFields hdr') : segVerifyOk (hdr ++ data) = segVerifyOk (hdr' ++ data) := by
  rw [segVerifyOk_hdr_data hdr data hl, segVerifyOk_hdr_data hdr' data hl']
  rw [hdrFields_split hdr, hdrFields_split hdr'] at h
  have hl16 : hdr.length = 16 := hl
  have hl16' : hdr'.length = 16 := hl'
  obtain ⟨e1, e2⟩ := List.append_inj h (by simp [List.length_take, List.length_drop]; omega)
  rw [e1, e2]

/-- **every accepted file that differs from the one `closeAof` wrote**: if its data is the
    same, only the version / reserved bytes differ; if its data differs, then either size
    and CRC64 of the new data coincide with the old ones (a collision) or header bytes 1..12
    were rewritten as well — to exactly the fields of the new data (a consistent
    replacement: inherent, the file carries no secret) -/
theorem accepted_alteration_cases (data hdr' data' : Bytes) (hl' : hdr'.length = headerSize)
    (h32 : data.length < 4294967296) (h32' : data'.length < 4294967296)
    (hacc : segVerifyOk (hdr' ++ data') = true) :
    hdrFields hdr' = hdrFields (closedHeader data') ∧
    (data' = data → hdrFields hdr' = hdrFields (closedHeader data)) ∧
    (data' ≠ data → (data'.length = data.length ∧ crc64 data' = crc64 data) ∨
      hdrFields hdr' ≠ hdrFields (closedHeader data)) := by
  have hc := (accepted_iff_consistent hdr' data' hl' h32').mp hacc
  refine ⟨hc, fun e => by rw [hc, e], fun _ => ?_⟩
  by_cases hm : hdrFields hdr' = hdrFields (closedHeader data)
  · left
    rw [hc, hdrFields_closed, hdrFields_closed, Nat.mod_eq_of_lt h32, Nat.mod_eq_of_lt h32'] at hm
    obtain ⟨e1, e2⟩ := List.append_inj hm (by rw [leBytes_length, leBytes_length])
    exact ⟨leBytes_inj (by omega) (by omega) e2, leBytes_inj (crc64_lt _) (crc64_lt _) e1⟩
  · right; exact hm

end GunYu.StoreFs
