/-
  C05, memory backend — the catch-up step: a started copy loop that holds an indexed
  segment and stands below the writer's end delivers at least one byte within two
  iterations (`Mem.pump2`), in every state satisfying `MemInv` and `TailInv`.
-/
import GunYu.Proofs.StoreMemTail
import GunYu.Proofs.StoreMemSnap

namespace GunYu.Store
open GunYu

theorem mFindReader_mSetReader {rs : List MReader} {rid : Nat} {r r' : MReader}
    (hf : mFindReader rs rid = some r) (hid : r'.id = rid) : mFindReader (mSetReader rs r') rid = some r' := by
  unfold mFindReader mSetReader at *
  induction rs with
  | nil => simp at hf
  | cons a t ih =>
    simp only [List.map_cons, List.find?_cons] at hf ⊢
    by_cases ha : (a.id == rid) = true
    · have : (a.id == r'.id) = true := by rw [hid]; exact ha
      simp only [this, if_true]
      have : (r'.id == rid) = true := by simp [hid]
      simp [this]
    · have ha' : (a.id == rid) = false := by simpa using ha
      have : (a.id == r'.id) = false := by rw [hid]; exact ha'
      simp only [this, Bool.false_eq_true, if_false, ha']
      rw [ha'] at hf
      exact ih hf

/-- an iteration of a copy loop never takes back what it wrote to the pipe -/
theorem copyStep_out_grows (s : Mem) (rid : Nat) (r : MReader) (hf : mFindReader s.readers rid = some r) :
    ∃ r', mFindReader (s.copyStep rid).1.readers rid = some r' ∧ r.out.length ≤ r'.out.length := by
  have hid : r.id = rid := by
    have := List.find?_some hf
    simpa using this
  simp only [Mem.copyStep, hf]
  repeat' split
  all_goals first
    | exact ⟨r, hf, Nat.le_refl _⟩
    | exact ⟨_, mFindReader_mSetReader hf hid, Nat.le_refl _⟩
    | exact ⟨_, mFindReader_mSetReader hf hid, by simp⟩

theorem mem_not_last_split : ∀ (l : List MSeg) (g : MSeg), g ∈ l → l.getLast? ≠ some g →
    ∃ pre nx post, l = pre ++ g :: nx :: post := by
  intro l
  induction l with
  | nil => intro g hg; cases hg
  | cons a t ih =>
    intro g hg hnl
    cases t with
    | nil =>
      simp at hg; subst hg
      simp at hnl
    | cons b u =>
      rcases List.mem_cons.mp hg with h | h
      · subst h; exact ⟨[], b, u, rfl⟩
      · have hnl' : (b :: u).getLast? ≠ some g := by
          intro e; apply hnl
          rw [List.getLast?_cons_cons]; exact e
        obtain ⟨pre, nx, post, e⟩ := ih g h hnl'
        exact ⟨a :: pre, nx, post, by rw [e]; rfl⟩

theorem mNextOf_mid : ∀ (pre : List MSeg) (g nx : MSeg) (post : List MSeg),
    ((pre ++ g :: nx :: post).map (·.sid)).Nodup → mNextOf (pre ++ g :: nx :: post) g.sid = some nx := by
  intro pre
  induction pre with
  | nil => intro g nx post _; simp [mNextOf]
  | cons a t ih =>
    intro g nx post hn
    have hne : a.sid ≠ g.sid := by
      intro e
      simp only [List.cons_append, List.map_cons, List.nodup_cons] at hn
      apply hn.1
      rw [e]
      simp
    have hn' : ((t ++ g :: nx :: post).map (·.sid)).Nodup := by
      simp only [List.cons_append, List.map_cons, List.nodup_cons] at hn; exact hn.2
    cases ht : t ++ g :: nx :: post with
    | nil => simp at ht
    | cons b u =>
      simp only [List.cons_append, ht, mNextOf]
      have : (a.sid == g.sid) = false := by simpa using hne
      simp only [this, Bool.false_eq_true, if_false]
      rw [← ht]
      exact ih g nx post hn'

/-- **catch-up step (memory).** -/
theorem pump2_delivers {s : Mem} (hi : MemInv s) (ht : TailInv s) {rid : Nat} {r : MReader}
    (hf : mFindReader s.readers rid = some r) (ha : r.isAof = true) (hst : r.started = true)
    (hrel : r.released = false) (hcu : r.closedByUser = false) {g : MSeg} (hg : g ∈ s.segs) (hs : g.sid = r.seg)
    (hlt : r.pos < s.hbase + s.hist.length) :
    ∃ r', mFindReader (s.pump2 rid).readers rid = some r' ∧ r.out.length < r'.out.length := by
  have hid : r.id = rid := by
    have := List.find?_some hf
    simpa using this
  have hst' := hi.stream
  have hr : r ∈ s.readers := mFindReader_mem hf
  have hok : MAofOk s.hbase s.hist r g := (hst'.readers r hr ha).2 hrel g hg hs
  have hlook : s.lookup r.seg = some g := by rw [← hs]; exact lookup_of_indexed hst'.nodup hg
  have hnl : ¬ r.pos < g.left := by have := hok.inl; omega
  unfold Mem.pump2
  by_cases hne : (g.data.drop (r.pos - g.left)) = []
  · -- at the end of its segment, which is not the last one
    have hpe : r.pos = g.right := hok.drained hne
    have hglast : s.segs.getLast? ≠ some g := by
      intro e
      have := hst'.lastEnd g e
      omega
    have hgw : s.aofW ≠ some g.sid := by
      intro e
      obtain ⟨last, hlast, hls⟩ := hst'.writer g.sid e
      have : g = last := sid_unique hst'.nodup hg (List.mem_of_getLast? hlast) hls.symm
      rw [this] at hglast; exact hglast hlast
    obtain ⟨hgc, _⟩ := ht g hg hgw
    obtain ⟨pre, nx, post, hsplit⟩ := mem_not_last_split s.segs g hg hglast
    have hnext : mNextOf s.segs g.sid = some nx := by
      rw [hsplit]; apply mNextOf_mid; rw [← hsplit]; exact hst'.nodup
    have hnxm : nx ∈ s.segs := by rw [hsplit]; simp
    have hadj : g.right = nx.left := by
      have := hst'.contig; rw [hsplit] at this; exact mcontig_adjacent this
    -- the successor holds at least one byte
    have hnxne : nx.data ≠ [] := by
      intro he
      by_cases hw : s.aofW = some nx.sid
      · obtain ⟨last, hlast, hls⟩ := hst'.writer nx.sid hw
        have : nx = last := sid_unique hst'.nodup hnxm (List.mem_of_getLast? hlast) hls.symm
        have hend := hst'.lastEnd nx (this ▸ hlast)
        simp only [MSeg.right, he, List.length_nil] at hend
        omega
      · exact (ht nx hnxm hw).2 he
    have h1 : s.copyStep rid = ({ s with readers := mSetReader s.readers { r with seg := nx.sid } }, true) := by
      have hbe : (g.data.drop (r.pos - g.left)).isEmpty = true := by simp [hne]
      simp [Mem.copyStep, hf, hrel, hst, hcu, hlook, ha, hnl, hbe, hgc, hnext]
    rw [h1]
    dsimp only
    have hf1 : mFindReader (mSetReader s.readers { r with seg := nx.sid }) rid = some { r with seg := nx.sid } :=
      mFindReader_mSetReader hf hid
    have hlook1 : ({ s with readers := mSetReader s.readers { r with seg := nx.sid } } : Mem).lookup nx.sid = some nx :=
      lookup_of_indexed (s := { s with readers := mSetReader s.readers { r with seg := nx.sid } }) hst'.nodup hnxm
    have hnl1 : ¬ r.pos < nx.left := by omega
    have hz : r.pos - nx.left = 0 := by omega
    have hbe1 : (nx.data.drop (r.pos - nx.left)).isEmpty = false := by
      rw [hz]; simp [hnxne]
    let ra : MReader := { r with seg := nx.sid }
    have hfa : mFindReader ({ s with readers := mSetReader s.readers ra } : Mem).readers rid = some ra := hf1
    have h2 := copyStep_aof_faithful ({ s with readers := mSetReader s.readers ra } : Mem) rid ra nx hfa hrel hst hcu ha
      hlook1 (by show nx.left ≤ r.pos; omega) (by
        show nx.data.drop (r.pos - nx.left) ≠ []
        rw [hz]; simpa using hnxne)
    let rb : MReader := { ra with pos := ra.pos + (nx.data.drop (ra.pos - nx.left)).length,
                                  buf := ra.buf ++ nx.data.drop (ra.pos - nx.left),
                                  out := ra.out ++ nx.data.drop (ra.pos - nx.left) }
    refine ⟨rb, ?_, ?_⟩
    · show mFindReader (({ s with readers := mSetReader s.readers ra } : Mem).copyStep rid).1.readers rid = some rb
      rw [h2]
      exact mFindReader_mSetReader hfa hid
    · show r.out.length < (r.out ++ nx.data.drop (r.pos - nx.left)).length
      rw [hz]
      have : 0 < nx.data.length := List.length_pos_iff.mpr hnxne
      simp; omega
  · -- inside its segment: the first iteration delivers; the second never takes anything back
    have hbe : (g.data.drop (r.pos - g.left)).isEmpty = false := by simp [hne]
    let r1 : MReader := { r with pos := r.pos + (g.data.drop (r.pos - g.left)).length,
                                 buf := r.buf ++ g.data.drop (r.pos - g.left),
                                 out := r.out ++ g.data.drop (r.pos - g.left) }
    have h1 : (s.copyStep rid).1 = { s with readers := mSetReader s.readers r1 } := by
      simp [Mem.copyStep, hf, hrel, hst, hcu, hlook, ha, hnl, hbe, r1]
    have hf1 : mFindReader (s.copyStep rid).1.readers rid = some r1 := by
      rw [h1]; exact mFindReader_mSetReader hf hid
    obtain ⟨r2, hf2, hle⟩ := copyStep_out_grows _ rid _ hf1
    refine ⟨r2, hf2, ?_⟩
    have : 0 < (g.data.drop (r.pos - g.left)).length := List.length_pos_iff.mpr hne
    have hle' : (r.out ++ g.data.drop (r.pos - g.left)).length ≤ r2.out.length := hle
    rw [List.length_append] at hle'
    omega

end GunYu.Store
