/-
  Helper lemmas for C14, part 5: the split-queue replay system (Model/FrontierTraffic.lean) —
  the point a fresh start would resume from never moves backwards along an execution with
  traffic. Core only.
-/
import GunYu.Model.FrontierTraffic
import GunYu.Proofs.FrontierSys
import GunYu.Proofs.FrontierRestart
import GunYu.Proofs.FrontierMax

namespace GunYu.Frontier
open GunYu

set_option linter.unusedSimpArgs false
set_option linter.unusedVariables false

/-! ### every execution of the split-queue system is one of the one-queue system -/

theorem tstep_sim (W : World) (s : TSys) (st : Step) :
    (tstep W s st).toSys = step W s.toSys st ∨ tstep W s st = s := by
  cases st with
  | start =>
    cases hr : s.run with
    | some r => right; simp [tstep, hr]
    | none =>
      left
      simp only [tstep, hr, step, TSys.toSys, tstartRun, startRun]
      cases hst : startFrontier W.ver s.ns W.ids with
      | mk p reqs =>
        cases p with
        | empty => simp [hr]
        | point db rid off seq => simp
  | commit i mt =>
    cases hr : s.run with
    | none => right; simp [tstep, hr]
    | some r =>
      by_cases hc : s.rq = [] ∧ r.startSeq < i
      · left; simp [tstep, hr, step, TSys.toSys, hc, hc.2]
      · right; simp [tstep, hr, hc]
  | report i mt now =>
    cases hr : s.run with
    | none => right; simp [tstep, hr]
    | some r =>
      by_cases hc : s.rq = [] ∧ i ∈ s.committed ∧ r.startSeq < i
      · left; simp [tstep, hr, step, TSys.toSys, hc, hc.2.1, hc.2.2, hc.1]
      · right; simp [tstep, hr, hc]
  | tick now =>
    cases hr : s.run with
    | none => right; simp [tstep, hr]
    | some r =>
      by_cases hc : s.rq = []
      · left; simp [tstep, hr, step, TSys.toSys, hc]
      · right; simp [tstep, hr, hc]
  | apply =>
    cases hq : s.rq with
    | cons q rest => left; simp [tstep, hq, step, TSys.toSys]
    | nil =>
      cases hc : s.cq with
      | nil => right; simp [tstep, hq, hc]
      | cons q rest => left; simp [tstep, hq, hc, step, TSys.toSys]
  | crash => left; simp [tstep, step, TSys.toSys]

theorem tstep_inv {W : World} {s : TSys} (hi : SysInv W s.toSys) (st : Step) :
    SysInv W (tstep W s st).toSys := by
  rcases tstep_sim W s st with h | h
  · rw [h]; exact step_inv hi st
  · rw [h]; exact hi

/-! ### what a start can see -/

theorem mem_idxInsert (x y : Int × Int) (l : List (Int × Int)) : y ∈ idxInsert x l ↔ y = x ∨ y ∈ l := by
  induction l with
  | nil => simp [idxInsert]
  | cons z l ih =>
    unfold idxInsert
    split
    · simp
    · simp only [List.mem_cons, ih]
      constructor
      · rintro (h | h | h)
        · exact Or.inr (Or.inl h)
        · exact Or.inl h
        · exact Or.inr (Or.inr h)
      · rintro (h | h | h)
        · exact Or.inr (Or.inl h)
        · exact Or.inl h
        · exact Or.inr (Or.inr h)

theorem mem_idxSort (y : Int × Int) (l : List (Int × Int)) : y ∈ idxSort l ↔ y ∈ l := by
  induction l with
  | nil => simp [idxSort]
  | cons x l ih =>
    have : idxSort (x :: l) = idxInsert x (idxSort l) := rfl
    rw [this, mem_idxInsert, ih]; simp

/-- a journal record is loaded iff an index member with a large enough score names its key and
    its run id matches -/
theorem mem_loadRecords_iff (ns : NS) (ids : List Bytes) (m : Int) (j : JRec) :
    j ∈ loadRecords ns ids m ↔
      ∃ p ∈ ns.index, p.1 ≥ m ∧ ns.journal.find? (fun x => x.kseq = p.2) = some j ∧
        matchRun j.r.runId ids = true := by
  unfold loadRecords
  rw [List.mem_filterMap]
  constructor
  · rintro ⟨p, hp, hj⟩
    rw [mem_idxSort, List.mem_filter] at hp
    refine ⟨p, hp.1, by simpa using hp.2, ?_⟩
    split at hj
    · exact absurd hj (by simp)
    · rename_i j' hf
      split at hj
      · rename_i hm
        simp only [Option.some.injEq] at hj; subst hj
        exact ⟨hf, hm⟩
      · exact absurd hj (by simp)
  · rintro ⟨p, hp, hge, hf, hm⟩
    refine ⟨p, ?_, ?_⟩
    · rw [mem_idxSort, List.mem_filter]; exact ⟨hp, by simpa using hge⟩
    · simp only [hf, hm, if_true]

/-- sequence number of the visible frontier snapshot (0: none) -/
def snapSeq (ns : NS) (ids : List Bytes) : Int := baseSeq (loadSnapshot ns ids)

/-- a journal record with number `m` is among those a start loads -/
def Vis (ns : NS) (ids : List Bytes) (m : Int) : Prop := ∃ j ∈ startRecords ns ids, j.r.seq = m

/-- number `m` is covered: by the snapshot or by a visible journal record -/
def Cov (ns : NS) (ids : List Bytes) (m : Int) : Prop := m ≤ snapSeq ns ids ∨ Vis ns ids m

theorem minSeqFor_eq (ns : NS) (ids : List Bytes) (h0 : 0 ≤ snapSeq ns ids) :
    minSeqFor (loadSnapshot ns ids) = snapSeq ns ids + 1 := by
  unfold minSeqFor snapSeq baseSeq at *
  cases h : loadSnapshot ns ids with
  | none => rfl
  | some f =>
    rw [h] at h0; simp only at h0 ⊢
    split
    · rfl
    · omega

/-- what a namespace must satisfy for the characterisation: the numbering is monotone, stored
    offsets follow it, the visible snapshot is at a number ≥ 0 -/
structure NsOk (W : World) (ns : NS) : Prop where
  cons : Consistent W ns
  snap0 : 0 ≤ snapSeq ns W.ids

/-- the number a start resumes after is covered up to it … -/
theorem cov_of_le_startSeq (ver : Bytes) (ns : NS) (ids : List Bytes) (m : Int) (h0 : 0 < m)
    (hm : m ≤ startSeqOf ver ns ids) : Cov ns ids m := by
  unfold startSeqOf at hm
  rcases startFrontier_cases ver ns ids with ⟨_, hst⟩ | ⟨root, reqs, _, hst, _⟩ | ⟨root, f, _, hrb, _, _, hst⟩
  · rw [hst] at hm; simp only at hm; omega
  · rw [hst] at hm; simp only [rootPoint] at hm; omega
  · rw [hst] at hm; simp only at hm
    obtain ⟨_, hb2, _, _⟩ := rebuild_spec ver _ _ f hrb
    by_cases hle : m ≤ snapSeq ns ids
    · exact Or.inl hle
    · right
      obtain ⟨r, hr, hs, _⟩ := hb2 m (by unfold snapSeq at hle; omega) hm
      obtain ⟨j, hj, rfl⟩ := List.mem_map.mp hr
      exact ⟨j, hj, hs⟩

/-- … and the next number is not: the start does not stop early -/
theorem not_cov_succ_startSeq {W : World} {ns : NS} (hk : NsOk W ns) {root0 : Bytes × Int × Nat}
    (hr : ns.root = some root0) :
    ¬ Cov ns W.ids (startSeqOf W.ver ns W.ids + 1) := by
  have hzero : ∀ (h : (∃ m, rebuild W.ver (loadSnapshot ns W.ids) ((startRecords ns W.ids).map (·.r)) = .error m) ∨
      rebuild W.ver (loadSnapshot ns W.ids) ((startRecords ns W.ids).map (·.r)) = .ok none ∨
      ∃ f, rebuild W.ver (loadSnapshot ns W.ids) ((startRecords ns W.ids).map (·.r)) = .ok (some f) ∧ f.seq ≤ 0),
      ¬ Cov ns W.ids (0 + 1) := by
    intro h hc
    obtain ⟨hb, hno⟩ := rebuild_zero W.ver _ _ hk.snap0 h
    rcases hc with hc | ⟨j, hj, hs⟩
    · unfold snapSeq at hc; omega
    · exact hno j.r (List.mem_map.mpr ⟨j, hj, rfl⟩) (by omega)
  unfold startSeqOf startFrontier
  cases hroot : ns.root with
  | none => rw [hroot] at hr; exact absurd hr (by simp)
  | some root =>
    dsimp only
    cases hrb : rebuild W.ver (loadSnapshot ns W.ids) ((startRecords ns W.ids).map (·.r)) with
    | error m => 
      simp only [restartFromRoot, rootPoint]
      exact hzero (Or.inl ⟨m, hrb⟩)
    | ok res =>
      cases res with
      | none =>
        simp only [restartFromRoot, rootPoint]
        exact hzero (Or.inr (Or.inl hrb))
      | some f =>
        dsimp only
        by_cases hpos : f.seq > 0
        · rw [if_pos hpos]
          obtain ⟨hfe, _⟩ := selected_consistent hk.cons f hrb hpos
          have hnew : rootNewer root f.offset W.ids = false := by
            unfold rootNewer
            rw [Bool.eq_false_iff]
            intro hb
            simp only [decide_eq_true_eq] at hb
            have h1 := hk.cons.root root hroot
            have h2 := hk.cons.mono 0 f.seq (by omega)
            omega
          rw [hnew]
          simp only [Bool.false_eq_true, if_false]
          intro hc
          obtain ⟨hb1, _, _, _⟩ := rebuild_spec W.ver _ _ f hrb
          rcases hc with hc | ⟨j, hj, hs⟩
          · unfold snapSeq at hc; omega
          · have := rebuild_maximal W.ver _ _ f hrb j.r (List.mem_map.mpr ⟨j, hj, rfl⟩) hs
            omega
        · rw [if_neg hpos]
          simp only [restartFromRoot, rootPoint]
          exact hzero (Or.inr (Or.inr ⟨f, hrb, by omega⟩))

theorem startSeqOf_nonneg (ver : Bytes) (ns : NS) (ids : List Bytes) : 0 ≤ startSeqOf ver ns ids := by
  unfold startSeqOf
  rcases startFrontier_cases ver ns ids with ⟨_, hst⟩ | ⟨root, reqs, _, hst, _⟩ | ⟨root, f, _, _, hpos, _, hst⟩
  · rw [hst]; simp
  · rw [hst]; simp [rootPoint]
  · rw [hst]; simp only; omega

/-- if everything the first state covers up to its start number is covered in the second, the
    second does not start earlier -/
theorem startSeq_mono {W : World} {ns ns' : NS} (hk' : NsOk W ns') {root' : Bytes × Int × Nat}
    (hr' : ns'.root = some root')
    (hcov : ∀ m, 0 < m → m ≤ startSeqOf W.ver ns W.ids → Cov ns' W.ids m) :
    startSeqOf W.ver ns W.ids ≤ startSeqOf W.ver ns' W.ids := by
  by_cases h : startSeqOf W.ver ns W.ids ≤ startSeqOf W.ver ns' W.ids
  · exact h
  · exfalso
    have h0 := startSeqOf_nonneg W.ver ns' W.ids
    exact not_cov_succ_startSeq hk' hr' (hcov _ (by omega) (by omega))

theorem startOff_eq {W : World} {ns : NS} (hc : Consistent W ns) {root : Bytes × Int × Nat}
    (hr : ns.root = some root) : startOffOf W.ver ns W.ids = W.e (startSeqOf W.ver ns W.ids) := by
  obtain ⟨db, rid, seq, h, _⟩ := start_point_of_consistent hc root hr
  simp only [startOffOf, startSeqOf, h]

/-! ### single requests: what stays covered -/

theorem find?_filter_of_imp {α : Type} (p q : α → Bool) (l : List α) (h : ∀ x, p x = true → q x = true) :
    (l.filter q).find? p = l.find? p := by
  induction l with
  | nil => rfl
  | cons x l ih =>
    by_cases hq : q x = true
    · simp only [List.filter_cons, hq, if_true, List.find?_cons]
      rw [ih]
    · have hp : p x = false := by
        cases hpx : p x with
        | false => rfl
        | true => exact absurd (h x hpx) hq
      have hq' : q x = false := by simpa using hq
      simp only [List.filter_cons, hq', List.find?_cons, hp]
      exact ih

/-- journal keys carry their record's number; index members are scored with their key's number -/
structure Keyed (ns : NS) : Prop where
  jr : ∀ j ∈ ns.journal, j.r.seq = j.kseq
  ix : ∀ p ∈ ns.index, p.1 = p.2

theorem vis_elim {ns : NS} {ids : List Bytes} {m : Int} (h : Vis ns ids m) :
    ∃ p j, p ∈ ns.index ∧ p.1 ≥ minSeqFor (loadSnapshot ns ids) ∧
      ns.journal.find? (fun x => x.kseq = p.2) = some j ∧ matchRun j.r.runId ids = true ∧
      j.kseq = p.2 ∧ j ∈ ns.journal ∧ j.r.seq = m := by
  obtain ⟨j, hj, hs⟩ := h
  unfold startRecords at hj
  obtain ⟨p, hp, hge, hf, hm⟩ := (mem_loadRecords_iff ns ids _ j).mp hj
  refine ⟨p, j, hp, hge, hf, hm, ?_, List.mem_of_find?_eq_some hf, hs⟩
  simpa using List.find?_some hf

theorem vis_intro {ns : NS} {ids : List Bytes} {m : Int} (p : Int × Int) (j : JRec) (hp : p ∈ ns.index)
    (hge : p.1 ≥ minSeqFor (loadSnapshot ns ids))
    (hf : ns.journal.find? (fun x => x.kseq = p.2) = some j) (hm : matchRun j.r.runId ids = true)
    (hs : j.r.seq = m) : Vis ns ids m :=
  ⟨j, (mem_loadRecords_iff ns ids _ j).mpr ⟨p, hp, hge, hf, hm⟩, hs⟩

/-- a unit's transaction adds its record: nothing covered is lost -/
theorem cov_commit {ns : NS} {ids : List Bytes} (hk : Keyed ns) (h0 : 0 ≤ snapSeq ns ids) (r : Rec)
    (hr : matchRun r.runId ids = true) (m : Int) (h : Cov ns ids m) :
    Cov (applyReq ns (.commit r)) ids m := by
  have hsnap : loadSnapshot (applyReq ns (.commit r)) ids = loadSnapshot ns ids := rfl
  rcases h with h | h
  · left; unfold snapSeq at h ⊢; rw [hsnap]; exact h
  · obtain ⟨p, j, hp, hge, hf, hm, hjk, hjm, hs⟩ := vis_elim h
    by_cases hpi : p.2 = r.seq
    · -- the record with this key is replaced by the new one
      have hmi : m = r.seq := by rw [← hs, hk.jr j hjm, hjk, hpi]
      by_cases hle : m ≤ snapSeq ns ids
      · left; unfold snapSeq at hle ⊢; rw [hsnap]; exact hle
      · right
        refine vis_intro (ns := applyReq ns (.commit r)) (r.seq, r.seq) ⟨r.seq, r⟩ ?_ ?_ ?_ hr hmi.symm
        · simp [applyReq]
        · rw [hsnap, minSeqFor_eq ns ids h0]; simp only; omega
        · show (ns.journal.filter (fun (j : JRec) => decide (j.kseq ≠ r.seq)) ++ [(⟨r.seq, r⟩ : JRec)]).find?
              (fun (x : JRec) => decide (x.kseq = r.seq)) = some (⟨r.seq, r⟩ : JRec)
          have : (ns.journal.filter (fun j => decide (j.kseq ≠ r.seq))).find? (fun x => decide (x.kseq = r.seq)) = none := by
            apply List.find?_eq_none.mpr
            intro x hx
            have := (List.mem_filter.mp hx).2
            simpa using this
          rw [List.find?_append, this]; simp
    · right
      refine vis_intro (ns := applyReq ns (.commit r)) p j ?_ ?_ ?_ hm hs
      · simp only [applyReq, List.mem_append, List.mem_filter]
        left; exact ⟨hp, by simpa using hpi⟩
      · rw [hsnap]; exact hge
      · show (ns.journal.filter (fun (j : JRec) => decide (j.kseq ≠ r.seq)) ++ [(⟨r.seq, r⟩ : JRec)]).find?
            (fun (x : JRec) => decide (x.kseq = p.2)) = some j
        have : (ns.journal.filter (fun j => decide (j.kseq ≠ r.seq))).find? (fun x => decide (x.kseq = p.2)) = some j := by
          rw [find?_filter_of_imp]
          · exact hf
          · intro x hx
            simp only [decide_eq_true_eq] at hx ⊢
            rw [hx]; exact hpi
        rw [List.find?_append, this]; rfl

/-- saving a visible frontier at or above the stored one -/
theorem cov_save {ns : NS} {ids : List Bytes} (hk : Keyed ns) (f : Snap) (hv : matchRun f.runId ids = true)
    (hge : snapSeq ns ids ≤ f.seq) (h0 : 0 ≤ snapSeq ns ids) (m : Int) (h : Cov ns ids m) :
    Cov (applyReq ns (.saveFrontier f)) ids m := by
  have hsnap : loadSnapshot (applyReq ns (.saveFrontier f)) ids = some f :=
    loadSnapshot_of_frontier rfl hv
  have hss : snapSeq (applyReq ns (.saveFrontier f)) ids = f.seq := by unfold snapSeq; rw [hsnap]; rfl
  by_cases hle : m ≤ f.seq
  · left; rw [hss]; exact hle
  · rcases h with h | h
    · omega
    · right
      obtain ⟨p, j, hp, hge', hf, hm, hjk, hjm, hs⟩ := vis_elim h
      refine vis_intro (ns := applyReq ns (.saveFrontier f)) p j hp ?_ hf hm hs
      have hpm : p.1 = m := by rw [hk.ix p hp, ← hjk, ← hk.jr j hjm, hs]
      have := minSeqFor_eq (applyReq ns (.saveFrontier f)) ids (by rw [hss]; omega)
      rw [this, hss]; omega

/-- deleting a journal record the snapshot covers -/
theorem cov_delRec {ns : NS} {ids : List Bytes} (hk : Keyed ns) (k : Int) (hle : k ≤ snapSeq ns ids)
    (m : Int) (h : Cov ns ids m) : Cov (applyReq ns (.delRec k)) ids m := by
  have hsnap : loadSnapshot (applyReq ns (.delRec k)) ids = loadSnapshot ns ids := rfl
  rcases h with h | h
  · left; unfold snapSeq at h ⊢; rw [hsnap]; exact h
  · obtain ⟨p, j, hp, hge, hf, hm, hjk, hjm, hs⟩ := vis_elim h
    by_cases hpk : p.2 = k
    · left
      have : m = k := by rw [← hs, hk.jr j hjm, hjk, hpk]
      unfold snapSeq at hle ⊢; rw [hsnap]; omega
    · right
      refine vis_intro (ns := applyReq ns (.delRec k)) p j hp (by rw [hsnap]; exact hge) ?_ hm hs
      show (ns.journal.filter (fun j => decide (j.kseq ≠ k))).find? (fun x => decide (x.kseq = p.2)) = some j
      rw [find?_filter_of_imp]
      · exact hf
      · intro x hx
        simp only [decide_eq_true_eq] at hx ⊢
        rw [hx]; exact hpk

/-- removing index members the snapshot covers -/
theorem cov_zrem {ns : NS} {ids : List Bytes} (hk : Keyed ns) (ks : List Int)
    (hle : ∀ k ∈ ks, k ≤ snapSeq ns ids) (m : Int) (h : Cov ns ids m) :
    Cov (applyReq ns (.zrem ks)) ids m := by
  have hsnap : loadSnapshot (applyReq ns (.zrem ks)) ids = loadSnapshot ns ids := rfl
  rcases h with h | h
  · left; unfold snapSeq at h ⊢; rw [hsnap]; exact h
  · obtain ⟨p, j, hp, hge, hf, hm, hjk, hjm, hs⟩ := vis_elim h
    by_cases hpk : p.2 ∈ ks
    · left
      have : m = p.2 := by rw [← hs, hk.jr j hjm, hjk]
      have := hle p.2 hpk
      unfold snapSeq at this ⊢; rw [hsnap]; omega
    · right
      refine vis_intro (ns := applyReq ns (.zrem ks)) p j ?_ (by rw [hsnap]; exact hge) hf hm hs
      simp only [applyReq, List.mem_filter]
      exact ⟨hp, by simpa using hpk⟩

/-- deletions alone never make anything covered that was not -/
theorem cov_shrink_delRec {ns : NS} {ids : List Bytes} (k : Int) (m : Int)
    (h : Cov (applyReq ns (.delRec k)) ids m) : Cov ns ids m := by
  have hsnap : loadSnapshot (applyReq ns (.delRec k)) ids = loadSnapshot ns ids := rfl
  rcases h with h | h
  · left; unfold snapSeq at h ⊢; rw [hsnap] at h; exact h
  · right
    obtain ⟨p, j, hp, hge, hf, hm, hjk, hjm, hs⟩ := vis_elim h
    simp only [applyReq] at hf hjm
    refine vis_intro (ns := ns) p j hp (by rw [hsnap] at hge; exact hge) ?_ hm hs
    have hjne : j.kseq ≠ k := by simpa using (List.mem_filter.mp hjm).2
    rw [find?_filter_of_imp] at hf
    · exact hf
    · intro x hx
      simp only [decide_eq_true_eq] at hx ⊢
      rw [hx, ← hjk]; exact hjne

theorem cov_shrink_zrem {ns : NS} {ids : List Bytes} (ks : List Int) (m : Int)
    (h : Cov (applyReq ns (.zrem ks)) ids m) : Cov ns ids m := by
  have hsnap : loadSnapshot (applyReq ns (.zrem ks)) ids = loadSnapshot ns ids := rfl
  rcases h with h | h
  · left; unfold snapSeq at h ⊢; rw [hsnap] at h; exact h
  · right
    obtain ⟨p, j, hp, hge, hf, hm, hjk, hjm, hs⟩ := vis_elim h
    simp only [applyReq] at hp
    exact vis_intro (ns := ns) p j (List.mem_filter.mp hp).1 (by rw [hsnap] at hge; exact hge) hf hm hs

/-! ### queued requests -/

/-- a queue of coordinator / clean-up requests is safe w.r.t. bound `b` (the number of the visible
    snapshot): every save is visible and not below the bound in force, every delete names numbers
    the bound in force covers; a save raises the bound for what follows -/
def QSafe (ids : List Bytes) : Int → List Req → Prop
  | _, [] => True
  | b, .saveFrontier f :: rest => matchRun f.runId ids = true ∧ b ≤ f.seq ∧ QSafe ids f.seq rest
  | b, .delRec k :: rest => k ≤ b ∧ QSafe ids b rest
  | b, .zrem ks :: rest => (∀ k ∈ ks, k ≤ b) ∧ QSafe ids b rest
  | _, _ :: _ => False

/-- the bound in force after the queue -/
def lastBound : Int → List Req → Int
  | b, [] => b
  | _, .saveFrontier f :: rest => lastBound f.seq rest
  | b, _ :: rest => lastBound b rest

theorem QSafe_append (ids : List Bytes) (q q' : List Req) :
    ∀ b, QSafe ids b q → QSafe ids (lastBound b q) q' → QSafe ids b (q ++ q') := by
  induction q with
  | nil => intro b _ h; exact h
  | cons x q ih =>
    intro b h h'
    cases x with
    | saveFrontier f => exact ⟨h.1, h.2.1, ih _ h.2.2 h'⟩
    | delRec k => exact ⟨h.1, ih _ h.2 h'⟩
    | zrem ks => exact ⟨h.1, ih _ h.2 h'⟩
    | delFrontier => exact h.elim
    | commit r => exact h.elim
    | commitLatest r => exact h.elim

theorem lastBound_append (q q' : List Req) : ∀ b, lastBound b (q ++ q') = lastBound (lastBound b q) q' := by
  induction q with
  | nil => intro b; rfl
  | cons x q ih => intro b; cases x <;> simp only [List.cons_append, lastBound, ih]

theorem QSafe_dels (ids : List Bytes) (b : Int) (keys : List Int) (h : ∀ k ∈ keys, k ≤ b) :
    QSafe ids b (keys.map Req.delRec ++ [Req.zrem keys]) ∧
    lastBound b (keys.map Req.delRec ++ [Req.zrem keys]) = b := by
  have aux : ∀ (l : List Int), (∀ k ∈ l, k ≤ b) →
      QSafe ids b (l.map Req.delRec ++ [Req.zrem keys]) ∧ lastBound b (l.map Req.delRec ++ [Req.zrem keys]) = b := by
    intro l
    induction l with
    | nil => intro _; exact ⟨⟨h, trivial⟩, rfl⟩
    | cons k l ih =>
      intro hl
      obtain ⟨a, c⟩ := ih (fun k' hk' => hl k' (List.mem_cons_of_mem _ hk'))
      exact ⟨⟨hl k (List.mem_cons_self ..), a⟩, c⟩
  exact aux keys h

/-- a purge still to be applied: deletes, then the snapshot -/
def PurgeQ (q : List Req) : Prop :=
  ∃ dels, q = dels ++ [Req.delFrontier] ∧ ∀ x ∈ dels, (∃ k, x = Req.delRec k) ∨ (∃ ks, x = Req.zrem ks)

theorem purgeReqs_purgeQ (ns : NS) (ids : List Bytes) : PurgeQ (purgeReqs ns ids) := by
  unfold purgeReqs
  refine ⟨_, rfl, ?_⟩
  intro x hx
  rcases List.mem_append.mp hx with hx | hx
  · obtain ⟨k, _, rfl⟩ := List.mem_map.mp hx; exact Or.inl ⟨k, rfl⟩
  · split at hx
    · simp at hx
    · have := List.mem_singleton.mp hx; exact Or.inr ⟨_, this⟩

/-! ### the coordinator -/

theorem coordAdvance_bound (rid : Bytes) :
    ∀ (fuel : Nat) (c : Coord),
      c.frontier.seq ≤ (coordAdvance fuel c).1.frontier.seq ∧
      (∀ a ∈ (coordAdvance fuel c).2, a.seq ≤ (coordAdvance fuel c).1.frontier.seq) ∧
      (coordAdvance fuel c).1.advanced = c.advanced ∧
      (∀ p ∈ (coordAdvance fuel c).1.pending, p ∈ c.pending) ∧
      ((coordAdvance fuel c).2 = [] → (coordAdvance fuel c).1.frontier = c.frontier) ∧
      ((∀ p ∈ c.pending, p.runId = rid) → (coordAdvance fuel c).2 ≠ [] →
        (coordAdvance fuel c).1.frontier.runId = rid) := by
  intro fuel
  induction fuel with
  | zero => intro c; simp [coordAdvance]
  | succ fuel ih =>
    intro c
    unfold coordAdvance
    cases hg : pendingGet c.pending (c.frontier.seq + 1) with
    | none => simp
    | some r =>
      simp only
      obtain ⟨hmem, hseq⟩ := pendingGet_some hg
      obtain ⟨h1, h2, h3, h4, h5, h6⟩ := ih
        { c with pending := c.pending.filter (fun x => x.seq ≠ r.seq),
                 frontier := { c.frontier with runId := r.runId, seq := r.seq, offset := r.endOff, mtime := r.mtime } }
      simp only at h1 h2 h3 h4 h5 h6
      refine ⟨by omega, ?_, h3, ?_, by simp, ?_⟩
      · intro a ha
        rcases List.mem_cons.mp ha with rfl | ha
        · exact h1
        · exact h2 a ha
      · intro p hp; exact (List.mem_filter.mp (h4 p hp)).1
      · intro hall _
        by_cases hadv : (coordAdvance fuel
            { c with pending := c.pending.filter (fun x => x.seq ≠ r.seq),
                     frontier := { c.frontier with runId := r.runId, seq := r.seq, offset := r.endOff, mtime := r.mtime } }).2 = []
        · rw [h5 hadv]; exact hall r hmem
        · exact h6 (fun p hp => hall p (List.mem_filter.mp hp).1) hadv

/-- what the coordinator must satisfy w.r.t. the bound `B` in force at the end of the queues -/
structure CoordOk (W : World) (c : Coord) (B : Int) : Prop where
  cb : B ≤ c.frontier.seq
  adv : ∀ a ∈ c.advanced, a.seq ≤ c.frontier.seq
  vis : c.advanced ≠ [] → matchRun c.frontier.runId W.ids = true
  pend : ∀ p ∈ c.pending, p.runId = W.rid

theorem coordFlush_q {W : World} (c : Coord) (now : Int) (B : Int) (h : CoordOk W c B) :
    QSafe W.ids B (coordFlush c now).2 ∧
    CoordOk W (coordFlush c now).1 (lastBound B (coordFlush c now).2) := by
  unfold coordFlush
  by_cases he : c.advanced.isEmpty = true
  · rw [if_pos he]; exact ⟨trivial, h⟩
  · rw [if_neg he]
    have hne : c.advanced ≠ [] := by intro h'; rw [h'] at he; exact he rfl
    have hk : ∀ k ∈ c.advanced.map (·.seq), k ≤ c.frontier.seq := by
      intro k hk
      obtain ⟨a, ha, rfl⟩ := List.mem_map.mp hk
      exact h.adv a ha
    obtain ⟨hq, hl⟩ := QSafe_dels W.ids c.frontier.seq (c.advanced.map (·.seq)) hk
    refine ⟨⟨h.vis hne, h.cb, hq⟩, ?_⟩
    simp only [lastBound]
    rw [hl]
    exact ⟨Int.le_refl _, by simp, by simp, h.pend⟩

theorem coordOnCommitted_q {W : World} (hvis : matchRun W.rid W.ids = true) (c : Coord) (r : Rec) (now : Int)
    (B : Int) (h : CoordOk W c B) (hr : r.runId = W.rid) :
    QSafe W.ids B (coordOnCommitted c r now W.pol).2 ∧
    CoordOk W (coordOnCommitted c r now W.pol).1 (lastBound B (coordOnCommitted c r now W.pol).2) := by
  unfold coordOnCommitted
  have hp1 : ∀ p ∈ c.pending.filter (fun x => x.seq ≠ r.seq) ++ [r], p.runId = W.rid := by
    intro p hp
    rcases List.mem_append.mp hp with hp | hp
    · exact h.pend p (List.mem_filter.mp hp).1
    · have : p = r := by simpa using hp
      rw [this]; exact hr
  generalize hc1 : ({ c with pending := c.pending.filter (fun x => x.seq ≠ r.seq) ++ [r] } : Coord) = c1
  have hc1f : c1.frontier = c.frontier := by rw [← hc1]
  have hc1a : c1.advanced = c.advanced := by rw [← hc1]
  have hc1p : ∀ p ∈ c1.pending, p.runId = W.rid := by rw [← hc1]; exact hp1
  obtain ⟨h1, h2, h3, h4, h5, h6⟩ := coordAdvance_bound W.rid c1.pending.length c1
  simp only
  cases hadv : coordAdvance c1.pending.length c1 with
  | mk c2 adv =>
    rw [hadv] at h1 h2 h3 h4 h5 h6
    simp only at h1 h2 h3 h4 h5 h6 ⊢
    have hpend2 : ∀ p ∈ c2.pending, p.runId = W.rid := fun p hp => hc1p p (h4 p hp)
    by_cases hae : adv.isEmpty = true
    · rw [if_pos hae]
      have : adv = [] := by simpa using hae
      have hf := h5 this
      refine ⟨trivial, ?_⟩
      simp only [lastBound]
      exact ⟨by rw [hf, hc1f]; exact h.cb, by rw [h3, hc1a, hf, hc1f]; exact h.adv,
        by rw [h3, hc1a, hf, hc1f]; exact h.vis, hpend2⟩
    · rw [if_neg hae]
      have hne : adv ≠ [] := by intro h'; rw [h'] at hae; exact hae rfl
      have hok3 : CoordOk W { c2 with advanced := c2.advanced ++ adv } B := by
        refine ⟨by simp only; rw [hc1f] at h1; have := h.cb; omega, ?_, ?_, hpend2⟩
        · intro a ha
          simp only at ha ⊢
          rcases List.mem_append.mp ha with ha | ha
          · rw [h3, hc1a] at ha
            have := h.adv a ha
            rw [hc1f] at h1; omega
          · exact h2 a ha
        · intro _
          simp only
          rw [h6 hc1p hne]; exact hvis
      split
      · exact coordFlush_q _ now B hok3
      · exact ⟨trivial, hok3⟩

/-! ### the invariant of the split-queue system -/

theorem applyReq_root (ns : NS) (q : Req) : (applyReq ns q).root = ns.root := by
  cases q <;> rfl

theorem restartFromRoot_cases (ns : NS) (ids : List Bytes) (root : Bytes × Int × Nat) :
    ∃ reqs, restartFromRoot ns ids root = (rootPoint root, reqs) ∧
      (PurgeQ reqs ∨ (reqs = [] ∧ loadSnapshot ns ids = none)) := by
  unfold restartFromRoot
  by_cases hc : (loadSnapshot ns ids).isSome = true ∨ ¬ (startRecords ns ids).isEmpty = true
  · rw [if_pos hc]; exact ⟨_, rfl, Or.inl (purgeReqs_purgeQ ns ids)⟩
  · rw [if_neg hc]
    refine ⟨[], rfl, Or.inr ⟨rfl, ?_⟩⟩
    cases h : loadSnapshot ns ids with
    | none => rfl
    | some f => exact absurd (Or.inl (by rw [h]; rfl)) hc

/-- a start falls back to the root (purging, or with nothing to purge) or selects the rebuilt frontier -/
theorem startFrontier_cases2 (ver : Bytes) (ns : NS) (ids : List Bytes) (root : Bytes × Int × Nat)
    (hroot : ns.root = some root) :
    (∃ reqs, startFrontier ver ns ids = (rootPoint root, reqs) ∧
      (PurgeQ reqs ∨ (reqs = [] ∧ loadSnapshot ns ids = none))) ∨
    (∃ f, rebuild ver (loadSnapshot ns ids) ((startRecords ns ids).map (·.r)) = .ok (some f) ∧
      f.seq > 0 ∧
      startFrontier ver ns ids =
        (.point 0 (if f.runId = [] then ids.headD [] else f.runId) f.offset f.seq,
         recoveryReqs (startRecords ns ids) f)) := by
  unfold startFrontier
  rw [hroot]
  dsimp only
  cases hrb : rebuild ver (loadSnapshot ns ids) ((startRecords ns ids).map (·.r)) with
  | error m => left; exact restartFromRoot_cases ns ids root
  | ok res =>
    cases res with
    | none => left; exact restartFromRoot_cases ns ids root
    | some f =>
      dsimp only
      by_cases hpos : f.seq > 0
      · rw [if_pos hpos]
        by_cases hnew : rootNewer root f.offset ids = true
        · rw [if_pos hnew]; left; exact restartFromRoot_cases ns ids root
        · rw [if_neg hnew]; right; exact ⟨f, rfl, hpos, rfl⟩
      · rw [if_neg hpos]; left; exact restartFromRoot_cases ns ids root

/-- the coordinator / recovery phase of a running process -/
def Phase (W : World) (s : TSys) (r : Run) : Prop :=
  (PurgeQ s.rq ∧ s.cq = [] ∧ startSeqOf W.ver s.ns W.ids = 0 ∧ r.coord.frontier.seq = 0 ∧
     r.coord.advanced = [] ∧ r.coord.pending = []) ∨
  (QSafe W.ids (snapSeq s.ns W.ids) (s.rq ++ s.cq) ∧
     CoordOk W r.coord (lastBound (snapSeq s.ns W.ids) (s.rq ++ s.cq)))

structure TInv (W : World) (s : TSys) : Prop where
  hi : SysInv W s.toSys
  ix : ∀ p ∈ s.ns.index, p.1 = p.2
  root : ∃ root, s.ns.root = some root
  idle : s.run = none → s.rq = [] ∧ s.cq = []
  phase : ∀ r, s.run = some r → Phase W s r

theorem consistent_of_sysInv {W : World} {s : Sys} (hm : ∀ i j, i ≤ j → W.e i ≤ W.e j) (hi : SysInv W s) :
    Consistent W s.ns :=
  ⟨hm, fun j hj => (hi.jr j hj).2.1, fun f hf => (hi.fr f hf).2.1, hi.root⟩

theorem snap0_of_sysInv {W : World} {s : Sys} (hi : SysInv W s) : 0 ≤ snapSeq s.ns W.ids := by
  unfold snapSeq baseSeq
  cases h : loadSnapshot s.ns W.ids with
  | none => simp
  | some f => exact (hi.fr f (loadSnapshot_some h)).1

theorem nsOk_of_sysInv {W : World} {s : Sys} (hm : ∀ i j, i ≤ j → W.e i ≤ W.e j) (hi : SysInv W s) :
    NsOk W s.ns := ⟨consistent_of_sysInv hm hi, snap0_of_sysInv hi⟩

theorem TInv.keyed {W : World} {s : TSys} (h : TInv W s) : Keyed s.ns :=
  ⟨fun j hj => (h.hi.jr j hj).1, h.ix⟩

/-- applying the head of a safe queue: the rest stays safe, the coordinator's bound stays, nothing
    covered is lost -/
theorem apply_safe {W : World} {ns : NS} (hk : Keyed ns) (h0 : 0 ≤ snapSeq ns W.ids) (q : Req)
    (rest : List Req) (c : Coord) (hq : QSafe W.ids (snapSeq ns W.ids) (q :: rest))
    (hc : CoordOk W c (lastBound (snapSeq ns W.ids) (q :: rest))) :
    QSafe W.ids (snapSeq (applyReq ns q) W.ids) rest ∧
    CoordOk W c (lastBound (snapSeq (applyReq ns q) W.ids) rest) ∧
    (∀ m, Cov ns W.ids m → Cov (applyReq ns q) W.ids m) ∧
    (∀ p ∈ (applyReq ns q).index, p.1 = p.2) := by
  cases q with
  | saveFrontier f =>
    obtain ⟨hv, hge, hr⟩ := hq
    have hss : snapSeq (applyReq ns (.saveFrontier f)) W.ids = f.seq := by
      unfold snapSeq; rw [loadSnapshot_of_frontier (ns := applyReq ns (.saveFrontier f)) rfl hv]; rfl
    rw [hss]
    exact ⟨hr, hc, fun m hm => cov_save hk f hv hge h0 m hm, hk.ix⟩
  | delRec k =>
    obtain ⟨hle, hr⟩ := hq
    have hss : snapSeq (applyReq ns (.delRec k)) W.ids = snapSeq ns W.ids := rfl
    rw [hss]
    exact ⟨hr, hc, fun m hm => cov_delRec hk k hle m hm, hk.ix⟩
  | zrem ks =>
    obtain ⟨hle, hr⟩ := hq
    have hss : snapSeq (applyReq ns (.zrem ks)) W.ids = snapSeq ns W.ids := rfl
    rw [hss]
    refine ⟨hr, hc, fun m hm => cov_zrem hk ks hle m hm, ?_⟩
    intro p hp
    simp only [applyReq] at hp
    exact hk.ix p (List.mem_filter.mp hp).1
  | delFrontier => exact hq.elim
  | commit r => exact hq.elim
  | commitLatest r => exact hq.elim

theorem recoveryReqs_safe {W : World} {s : Sys} (hm : ∀ i j, i ≤ j → W.e i ≤ W.e j) (hi : SysInv W s) (f : Snap)
    (hrb : rebuild W.ver (loadSnapshot s.ns W.ids) ((startRecords s.ns W.ids).map (·.r)) = .ok (some f))
    (hpos : f.seq > 0) :
    QSafe W.ids (snapSeq s.ns W.ids) (recoveryReqs (startRecords s.ns W.ids) f) ∧
    lastBound (snapSeq s.ns W.ids) (recoveryReqs (startRecords s.ns W.ids) f) ≤ f.seq := by
  obtain ⟨hb1, _, _, _⟩ := rebuild_spec W.ver _ _ f hrb
  obtain ⟨_, hv⟩ := selected_consistent (consistent_of_sysInv hm hi) f hrb hpos
  unfold recoveryReqs
  split
  · exact ⟨trivial, hb1⟩
  · have hk : ∀ k ∈ cleanupKeys (startRecords s.ns W.ids) f.seq, k ≤ f.seq := by
      intro k hk
      unfold cleanupKeys at hk
      rw [List.mem_eraseDups] at hk
      obtain ⟨j, hj, rfl⟩ := List.mem_map.mp hk
      obtain ⟨hjm, hc⟩ := List.mem_filter.mp hj
      have := (hi.jr j (mem_loadRecords hjm)).1
      simp only [decide_eq_true_eq] at hc
      omega
    obtain ⟨hq, hl⟩ := QSafe_dels W.ids f.seq _ hk
    refine ⟨⟨hv, hb1, hq⟩, ?_⟩
    simp only [lastBound]; rw [hl]; exact Int.le_refl _

theorem tstep_tinv {W : World} (hm : ∀ i j, i ≤ j → W.e i ≤ W.e j) (hvis : matchRun W.rid W.ids = true)
    {s : TSys} (h : TInv W s) (st : Step) :
    TInv W (tstep W s st) ∧
      startSeqOf W.ver s.ns W.ids ≤ startSeqOf W.ver (tstep W s st).ns W.ids := by
  have hi' := tstep_inv h.hi st
  obtain ⟨root, hroot⟩ := h.root
  have hsame : tstep W s st = s → TInv W (tstep W s st) ∧
      startSeqOf W.ver s.ns W.ids ≤ startSeqOf W.ver (tstep W s st).ns W.ids := by
    intro e; rw [e]; exact ⟨h, Int.le_refl _⟩
  -- a step that leaves the namespace as it is
  have hns : (tstep W s st).ns = s.ns → (∀ p ∈ (tstep W s st).ns.index, p.1 = p.2) ∧
      (∃ root, (tstep W s st).ns.root = some root) ∧
      startSeqOf W.ver s.ns W.ids ≤ startSeqOf W.ver (tstep W s st).ns W.ids := by
    intro e; rw [e]; exact ⟨h.ix, ⟨root, hroot⟩, Int.le_refl _⟩
  -- a step that applies a request keeping everything covered
  have hgrow : ∀ q, (tstep W s st).ns = applyReq s.ns q →
      (∀ m, Cov s.ns W.ids m → Cov (applyReq s.ns q) W.ids m) →
      startSeqOf W.ver s.ns W.ids ≤ startSeqOf W.ver (tstep W s st).ns W.ids := by
    intro q e hc
    rw [e]
    have hok : NsOk W (applyReq s.ns q) := by
      have := nsOk_of_sysInv hm hi'
      rw [show (tstep W s st).toSys.ns = (tstep W s st).ns from rfl, e] at this
      exact this
    apply startSeq_mono hok (root' := root) (by rw [applyReq_root]; exact hroot)
    intro m h0 hle
    exact hc m (cov_of_le_startSeq W.ver s.ns W.ids m h0 hle)
  cases st with
  | start =>
    cases hr : s.run with
    | some r => exact hsame (by simp [tstep, hr])
    | none =>
      rcases startFrontier_cases2 W.ver s.ns W.ids root hroot with ⟨reqs, hst, hp⟩ | ⟨f, hrb, hpos, hst⟩
      · have e : tstep W s .start = { s with
            run := some { startSeq := 0,
                          coord := { frontier := { runId := root.1, seq := 0, offset := root.2.1, mtime := 0, version := W.ver },
                                     lastFlush := 0 } },
            rq := reqs, cq := [] } := by
          simp only [tstep, hr, tstartRun, hst, rootPoint]
        rw [e] at hi' ⊢
        refine ⟨⟨hi', h.ix, ⟨root, hroot⟩, fun hn => by simp at hn, ?_⟩, Int.le_refl _⟩
        intro r hr'
        simp only [Option.some.injEq] at hr'
        subst hr'
        rcases hp with hp | ⟨hnil, hnone⟩
        · left
          refine ⟨hp, rfl, ?_, rfl, rfl, rfl⟩
          simp only [startSeqOf, hst, rootPoint]
        · right
          subst hnil
          refine ⟨trivial, ?_⟩
          simp only [List.append_nil, lastBound]
          refine ⟨?_, by simp, by simp, by simp⟩
          show snapSeq s.ns W.ids ≤ 0
          unfold snapSeq; rw [hnone]; simp [baseSeq]
      · have e : tstep W s .start = { s with
            run := some { startSeq := f.seq,
                          coord := { frontier := { runId := (if f.runId = [] then W.ids.headD [] else f.runId), seq := f.seq,
                                                   offset := f.offset, mtime := 0, version := W.ver },
                                     lastFlush := 0 } },
            rq := recoveryReqs (startRecords s.ns W.ids) f, cq := [] } := by
          simp only [tstep, hr, tstartRun, hst]
        rw [e] at hi' ⊢
        refine ⟨⟨hi', h.ix, ⟨root, hroot⟩, fun hn => by simp at hn, ?_⟩, Int.le_refl _⟩
        intro r hr'
        simp only [Option.some.injEq] at hr'
        subst hr'
        right
        obtain ⟨hq, hl⟩ := recoveryReqs_safe hm h.hi f hrb hpos
        simp only [List.append_nil]
        exact ⟨hq, hl, by simp, by simp, by simp⟩
  | commit i mt =>
    cases hr : s.run with
    | none => exact hsame (by simp [tstep, hr])
    | some r =>
      by_cases hc : s.rq = [] ∧ r.startSeq < i
      · have e : tstep W s (.commit i mt) =
            { s with ns := applyReq s.ns (Req.commit (unitRec W i mt)), committed := i :: s.committed } := by
          simp [tstep, hr, hc]
        have hcov := cov_commit (ids := W.ids) h.keyed (snap0_of_sysInv h.hi) (unitRec W i mt) hvis
        have hmono := hgrow (.commit (unitRec W i mt)) (by rw [e]) hcov
        rw [e] at hi' hmono ⊢
        refine ⟨⟨hi', ?_, ⟨root, hroot⟩, fun hn => by rw [hr] at hn; exact absurd hn (by simp), ?_⟩, hmono⟩
        · intro p hp
          simp only [applyReq] at hp
          rcases List.mem_append.mp hp with hp | hp
          · exact h.ix p (List.mem_filter.mp hp).1
          · have : p = ((unitRec W i mt).seq, (unitRec W i mt).seq) := by simpa using hp
            rw [this]
        · intro r' hr'
          have hph := h.phase r' hr'
          have hss : snapSeq (applyReq s.ns (.commit (unitRec W i mt))) W.ids = snapSeq s.ns W.ids := rfl
          rcases hph with ⟨⟨dels, hd, _⟩, _⟩ | hph
          · rw [hc.1] at hd; exact absurd hd (by simp)
          · right
            show QSafe W.ids (snapSeq (applyReq s.ns (.commit (unitRec W i mt))) W.ids) (s.rq ++ s.cq) ∧ _
            rw [hss]; exact hph
      · exact hsame (by simp [tstep, hr, hc])
  | report i mt now =>
    cases hr : s.run with
    | none => exact hsame (by simp [tstep, hr])
    | some r =>
      by_cases hc : s.rq = [] ∧ i ∈ s.committed ∧ r.startSeq < i
      · have e : tstep W s (.report i mt now) = { s with
            run := some { r with coord := (coordOnCommitted r.coord (unitRec W i mt) now W.pol).1 },
            cq := s.cq ++ (coordOnCommitted r.coord (unitRec W i mt) now W.pol).2 } := by
          simp [tstep, hr, hc]
        obtain ⟨hix, hrt, hmono⟩ := hns (by rw [e])
        rw [e] at hi' hmono ⊢
        refine ⟨⟨hi', h.ix, ⟨root, hroot⟩, fun hn => by simp at hn, ?_⟩, hmono⟩
        intro r' hr'
        simp only [Option.some.injEq] at hr'
        subst hr'
        rcases h.phase r hr with ⟨⟨dels, hd, _⟩, _⟩ | ⟨hq, hco⟩
        · rw [hc.1] at hd; exact absurd hd (by simp)
        · right
          rw [hc.1] at hq hco
          simp only [List.nil_append] at hq hco
          obtain ⟨h1, h2⟩ := coordOnCommitted_q hvis r.coord (unitRec W i mt) now _ hco rfl
          show QSafe W.ids (snapSeq s.ns W.ids) (s.rq ++ (s.cq ++ _)) ∧ CoordOk W _ (lastBound _ (s.rq ++ (s.cq ++ _)))
          rw [hc.1]
          simp only [List.nil_append]
          exact ⟨QSafe_append W.ids _ _ _ hq h1, by rw [lastBound_append]; exact h2⟩
      · exact hsame (by simp [tstep, hr, hc])
  | tick now =>
    cases hr : s.run with
    | none => exact hsame (by simp [tstep, hr])
    | some r =>
      by_cases hc : s.rq = []
      · have e : tstep W s (.tick now) = { s with
            run := some { r with coord := (coordFlush r.coord now).1 },
            cq := s.cq ++ (coordFlush r.coord now).2 } := by
          simp [tstep, hr, hc]
        obtain ⟨hix, hrt, hmono⟩ := hns (by rw [e])
        rw [e] at hi' hmono ⊢
        refine ⟨⟨hi', h.ix, ⟨root, hroot⟩, fun hn => by simp at hn, ?_⟩, hmono⟩
        intro r' hr'
        simp only [Option.some.injEq] at hr'
        subst hr'
        rcases h.phase r hr with ⟨⟨dels, hd, _⟩, _⟩ | ⟨hq, hco⟩
        · rw [hc] at hd; exact absurd hd (by simp)
        · right
          rw [hc] at hq hco
          simp only [List.nil_append] at hq hco
          obtain ⟨h1, h2⟩ := coordFlush_q r.coord now _ hco
          show QSafe W.ids (snapSeq s.ns W.ids) (s.rq ++ (s.cq ++ _)) ∧ CoordOk W _ (lastBound _ (s.rq ++ (s.cq ++ _)))
          rw [hc]
          simp only [List.nil_append]
          exact ⟨QSafe_append W.ids _ _ _ hq h1, by rw [lastBound_append]; exact h2⟩
      · exact hsame (by simp [tstep, hr, hc])
  | apply =>
    cases hr : s.run with
    | none =>
      obtain ⟨h1, h2⟩ := h.idle hr
      exact hsame (by simp [tstep, h1, h2])
    | some r =>
      have h0 := snap0_of_sysInv h.hi
      cases hq : s.rq with
      | cons q rest =>
        have e : tstep W s .apply = { s with ns := applyReq s.ns q, rq := rest } := by simp [tstep, hq]
        rcases h.phase r hr with ⟨⟨dels, hd, hdels⟩, hcq, hz, hf0, ha0, hp0⟩ | ⟨hqs, hco⟩
        · -- a purge is being applied: the start number is 0
          have hmono : startSeqOf W.ver s.ns W.ids ≤ startSeqOf W.ver (applyReq s.ns q) W.ids := by
            rw [hz]; exact startSeqOf_nonneg _ _ _
          rw [e] at hi' ⊢
          rw [hq] at hd
          cases dels with
          | nil =>
            simp only [List.nil_append, List.cons.injEq] at hd
            obtain ⟨rfl, rfl⟩ := hd
            refine ⟨⟨hi', h.ix, ⟨root, hroot⟩, fun hn => by rw [hr] at hn; exact absurd hn (by simp), ?_⟩, hmono⟩
            intro r' hr'
            rw [hr] at hr'; simp only [Option.some.injEq] at hr'; subst hr'
            right
            show QSafe W.ids (snapSeq (applyReq s.ns .delFrontier) W.ids) ([] ++ s.cq) ∧ _
            rw [hcq]
            refine ⟨trivial, ?_⟩
            simp only [List.append_nil, lastBound]
            refine ⟨?_, by rw [ha0]; simp, by rw [ha0]; simp, by rw [hp0]; simp⟩
            show snapSeq (applyReq s.ns .delFrontier) W.ids ≤ r.coord.frontier.seq
            rw [hf0]
            simp [snapSeq, loadSnapshot, applyReq, baseSeq]
          | cons d dels' =>
            simp only [List.cons_append, List.cons.injEq] at hd
            obtain ⟨rfl, hrest⟩ := hd
            have hdq := hdels q (List.mem_cons_self ..)
            -- deleting shrinks what is covered: the start number stays 0
            have hz' : startSeqOf W.ver (applyReq s.ns q) W.ids = 0 := by
              have hle : startSeqOf W.ver (applyReq s.ns q) W.ids ≤ startSeqOf W.ver s.ns W.ids := by
                apply startSeq_mono (nsOk_of_sysInv hm h.hi) (root' := root) hroot
                intro m hm0 hle
                have := cov_of_le_startSeq W.ver (applyReq s.ns q) W.ids m hm0 hle
                rcases hdq with ⟨k, rfl⟩ | ⟨ks, rfl⟩
                · exact cov_shrink_delRec k m this
                · exact cov_shrink_zrem ks m this
              have := startSeqOf_nonneg W.ver (applyReq s.ns q) W.ids
              omega
            refine ⟨⟨hi', ?_, ⟨root, by rw [applyReq_root]; exact hroot⟩,
              fun hn => by rw [hr] at hn; exact absurd hn (by simp), ?_⟩, hmono⟩
            · intro p hp
              rcases hdq with ⟨k, rfl⟩ | ⟨ks, rfl⟩
              · exact h.ix p hp
              · simp only [applyReq] at hp; exact h.ix p (List.mem_filter.mp hp).1
            · intro r' hr'
              rw [hr] at hr'; simp only [Option.some.injEq] at hr'; subst hr'
              left
              exact ⟨⟨dels', hrest, fun x hx => hdels x (List.mem_cons_of_mem _ hx)⟩, hcq, hz', hf0, ha0, hp0⟩
        · rw [hq] at hqs hco
          simp only [List.cons_append] at hqs hco
          obtain ⟨a, b, c, d⟩ := apply_safe h.keyed h0 q (rest ++ s.cq) r.coord hqs hco
          have hmono := hgrow q (by rw [e]) c
          rw [e] at hi' hmono ⊢
          refine ⟨⟨hi', d, ⟨root, by rw [applyReq_root]; exact hroot⟩,
            fun hn => by rw [hr] at hn; exact absurd hn (by simp), ?_⟩, hmono⟩
          intro r' hr'
          rw [hr] at hr'; simp only [Option.some.injEq] at hr'; subst hr'
          right; exact ⟨a, b⟩
      | nil =>
        cases hcq : s.cq with
        | nil => exact hsame (by simp [tstep, hq, hcq])
        | cons q rest =>
          have e : tstep W s .apply = { s with ns := applyReq s.ns q, cq := rest } := by simp [tstep, hq, hcq]
          rcases h.phase r hr with ⟨⟨dels, hd, _⟩, _⟩ | ⟨hqs, hco⟩
          · rw [hq] at hd; exact absurd hd (by simp)
          · rw [hq, hcq] at hqs hco
            simp only [List.nil_append] at hqs hco
            obtain ⟨a, b, c, d⟩ := apply_safe h.keyed h0 q rest r.coord hqs hco
            have hmono := hgrow q (by rw [e]) c
            rw [e] at hi' hmono ⊢
            refine ⟨⟨hi', d, ⟨root, by rw [applyReq_root]; exact hroot⟩,
              fun hn => by rw [hr] at hn; exact absurd hn (by simp), ?_⟩, hmono⟩
            intro r' hr'
            rw [hr] at hr'; simp only [Option.some.injEq] at hr'; subst hr'
            right
            show QSafe W.ids _ (s.rq ++ rest) ∧ CoordOk W _ (lastBound _ (s.rq ++ rest))
            rw [hq]; exact ⟨a, b⟩
  | crash =>
    have e : tstep W s .crash = { s with run := none, rq := [], cq := [] } := rfl
    rw [e] at hi' ⊢
    exact ⟨⟨hi', h.ix, ⟨root, hroot⟩, fun _ => ⟨rfl, rfl⟩, fun r hr => by simp at hr⟩, Int.le_refl _⟩

theorem trunSteps_tinv {W : World} (hm : ∀ i j, i ≤ j → W.e i ≤ W.e j) (hvis : matchRun W.rid W.ids = true)
    (steps : List Step) :
    ∀ {s : TSys}, TInv W s → TInv W (trunSteps W s steps) ∧
      startSeqOf W.ver s.ns W.ids ≤ startSeqOf W.ver (trunSteps W s steps).ns W.ids := by
  induction steps with
  | nil => intro s h; exact ⟨h, Int.le_refl _⟩
  | cons st rest ih =>
    intro s h
    obtain ⟨h1, h2⟩ := tstep_tinv hm hvis h st
    obtain ⟨h3, h4⟩ := ih h1
    exact ⟨h3, Int.le_trans h2 h4⟩

theorem trunSteps_append (W : World) (s : TSys) (a b : List Step) :
    trunSteps W s (a ++ b) = trunSteps W (trunSteps W s a) b := by
  simp [trunSteps, List.foldl_append]

end GunYu.Frontier
