/-
  Helper lemmas for C13: what exactly one link step does to the world
  (`link_step_shape`), that streams only grow, that every emitted unit holds
  the commands of a block of the source stream, and the drain: link steps
  alone consume the pending client blocks one commit each and reach a state
  where nothing is pending.
-/
import GunYu.Proofs.BisyncWorld

namespace GunYu.Bisync
open GunYu GunYu.BisyncUnit

/-- the four things a link step can do -/
inductive LinkShape (cfg : WCfg) (w : World) (src : SiteId) (arg : CommitArg) : World → Prop where
  | stay (h : (w.link src).halted.isSome = true ∨ (w.site src).stream[(w.link src).pos]? = none) :
      LinkShape cfg w src arg w
  | skip (tb : TBlock) (pst' : PState) (hget : (w.site src).stream[(w.link src).pos]? = some tb)
      (hd : due tb = false) :
      LinkShape cfg w src arg (w.setLink src { (w.link src) with pos := (w.link src).pos + 1, pst := pst' })
  | halt (tb : TBlock) (e : BuildErr) (hget : (w.site src).stream[(w.link src).pos]? = some tb)
      (hd : due tb = true) (hlive : (w.link src).halted = none) :
      LinkShape cfg w src arg (w.setLink src { (w.link src) with halted := some (.build e) })
  | emit (tb : TBlock) (pst' : PState) (e : Emit) (hget : (w.site src).stream[(w.link src).pos]? = some tb)
      (hd : due tb = true) (hcmds : e.unit.cmds = tb.block.body.map norm) (hlive : (w.link src).halted = none) :
      LinkShape cfg w src arg
        { (execAt cfg (w.setLink src (linkAfter (w.link src) pst' tb.tag e)) src.other true
            (commitCmds (w.link src).cp arg.kind e.unit ⟨arg.markerValue, arg.recordFields, e.seq⟩)
            (.tool (tagId tb.tag))) with
          commits := (execAt cfg (w.setLink src (linkAfter (w.link src) pst' tb.tag e)) src.other true
            (commitCmds (w.link src).cp arg.kind e.unit ⟨arg.markerValue, arg.recordFields, e.seq⟩)
            (.tool (tagId tb.tag))).commits ++ [(tb.tag, src.other)] }

theorem link_step_shape (cfg : WCfg) (hf : FOK cfg.parser.filter) (w : World) (hinv : WInv cfg w)
    (src : SiteId) (arg : CommitArg) : LinkShape cfg w src arg (stepWorld cfg w (.link src arg)) := by
  unfold stepWorld
  simp only
  by_cases hh : (w.link src).halted.isSome = true
  · rw [if_pos hh]; exact .stay (Or.inl hh)
  rw [if_neg hh]
  have hlive : (w.link src).halted = none := by
    cases hx : (w.link src).halted with
    | none => rfl
    | some e => rw [hx] at hh; exact absurd rfl hh
  cases hget : (w.site src).stream[(w.link src).pos]? with
  | none => exact .stay (Or.inr hget)
  | some tb =>
    simp only
    obtain ⟨hmem, _⟩ := mem_of_getElem? _ _ _ hget
    have hbok := hinv.blocks src tb hmem
    have hidle := hinv.idle src
    unfold BlockOK at hbok
    by_cases hfor : isForeign tb.tag = true
    · rw [if_pos hfor] at hbok
      by_cases hemp : tb.block.body = []
      · have hq : QuietB cfg.parser tb.block := by
          cases hb : tb.block with
          | single c => rw [hb] at hemp; simp [Block.body] at hemp
          | multi cs =>
            rw [hb] at hemp
            have : cs = [] := hemp
            rw [this]; exact quiet_multi_nil _
        obtain ⟨pst', hp, _, _⟩ := hq _ hidle
        rw [hp]
        exact .skip tb pst' hget (by unfold due; rw [hemp]; simp)
      · have hdue : due tb = true := by
          unfold due
          rw [hfor]
          cases hb : tb.block.body with
          | nil => exact absurd hb hemp
          | cons _ _ => rfl
        rcases foreign_block cfg.parser hf tb.block hbok hemp _ hidle with
          ⟨pst', e, hp, _, _, _, hcmds, _⟩ | ⟨pst', e, hp, _⟩
        · rw [hp]
          exact .emit tb pst' e hget hdue hcmds hlive
        · rw [hp]
          exact .halt tb e hget hdue hlive
    · have hfor' : isForeign tb.tag = false := by
        cases hx : isForeign tb.tag with
        | true => exact absurd hx hfor
        | false => rfl
      rw [if_neg hfor] at hbok
      obtain ⟨pst', hp, _, _⟩ := hbok _ hidle
      rw [hp]
      exact .skip tb pst' hget (by unfold due; rw [hfor']; rfl)

/-! ### streams only grow; links change only by link steps -/

theorem stream_execAt (cfg : WCfg) (w : World) (s t : SiteId) (isTxn : Bool) (cmds : List Cmd) (tag : Tag) :
    ∃ ext, ((execAt cfg w s isTxn cmds tag).site t).stream = (w.site t).stream ++ ext ∧
      ∀ tb ∈ ext, tb.tag = tag := by
  unfold execAt
  rcases eq_or_other' s t with rfl | rfl
  · rw [site_setSite_same]
    refine ⟨_, rfl, ?_⟩
    intro tb htb
    obtain ⟨b, _, rfl⟩ := List.mem_map.mp htb
    rfl
  · rw [site_setSite_other]
    exact ⟨[], by simp, by intro tb h; cases h⟩

theorem tagIds_foreign (n : Nat) (bs : List Block) : ∀ tb ∈ tagIds n bs, isForeign tb.tag = true := by
  induction bs generalizing n with
  | nil => intro tb h; cases h
  | cons b bs ih =>
    intro tb h
    simp only [tagIds, List.mem_cons] at h
    rcases h with rfl | h
    · rfl
    · exact ih _ tb h

theorem site_nextId (W : World) (n : Nat) (t : SiteId) : ({ W with nextId := n } : World).site t = W.site t := by
  cases t <;> rfl
theorem link_nextId (W : World) (n : Nat) (t : SiteId) : ({ W with nextId := n } : World).link t = W.link t := by
  cases t <;> rfl
theorem site_commits (W : World) (c : List (Tag × SiteId)) (t : SiteId) :
    ({ W with commits := c } : World).site t = W.site t := by
  cases t <;> rfl
theorem link_commits (W : World) (c : List (Tag × SiteId)) (t : SiteId) :
    ({ W with commits := c } : World).link t = W.link t := by
  cases t <;> rfl

/-- every event appends (possibly nothing) to each stream -/
theorem step_stream_grows (cfg : WCfg) (hf : FOK cfg.parser.filter) (w : World) (hinv : WInv cfg w) (e : Ev)
    (t : SiteId) : ∃ ext, ((stepWorld cfg w e).site t).stream = (w.site t).stream ++ ext := by
  cases e with
  | client s isTxn cmds =>
    unfold stepWorld
    simp only
    rw [site_nextId]
    rcases eq_or_other' s t with rfl | rfl
    · rw [site_setSite_same]; exact ⟨_, rfl⟩
    · rw [site_setSite_other]; exact ⟨[], by simp⟩
  | tick s dt =>
    unfold stepWorld
    refine ⟨[], ?_⟩
    rw [List.append_nil]
    rcases eq_or_other' s t with rfl | rfl
    · rw [site_setSite_same]
    · rw [site_setSite_other]
  | expire s k =>
    unfold stepWorld
    simp only
    split
    · rcases eq_or_other' s t with rfl | rfl
      · rw [site_setSite_same]; exact ⟨_, rfl⟩
      · rw [site_setSite_other]; exact ⟨[], by simp⟩
    · rw [site_nextId]
      rcases eq_or_other' s t with rfl | rfl
      · rw [site_setSite_same]; exact ⟨_, rfl⟩
      · rw [site_setSite_other]; exact ⟨[], by simp⟩
  | link src arg =>
    have hs := link_step_shape cfg hf w hinv src arg
    generalize stepWorld cfg w (.link src arg) = w' at hs
    cases hs with
    | stay _ => exact ⟨[], by simp⟩
    | skip tb pst' _ _ => rw [site_setLink]; exact ⟨[], by simp⟩
    | halt tb e _ _ _ => rw [site_setLink]; exact ⟨[], by simp⟩
    | emit tb pst' e _ _ _ _ =>
      obtain ⟨ext, hext, _⟩ := stream_execAt cfg (w.setLink src (linkAfter (w.link src) pst' tb.tag e)) src.other t true
        (commitCmds (w.link src).cp arg.kind e.unit ⟨arg.markerValue, arg.recordFields, e.seq⟩) (.tool (tagId tb.tag))
      rw [site_setLink] at hext
      refine ⟨ext, ?_⟩
      rw [site_commits, hext]
  | snapshot src cmds arg =>
    unfold stepWorld
    simp only
    split
    · exact ⟨[], by simp⟩
    · obtain ⟨ext, hext, _⟩ := stream_execAt cfg w src.other t true _ .snapshot
      exact ⟨ext, hext⟩
  | book src bk =>
    unfold stepWorld
    obtain ⟨ext, hext, _⟩ := stream_execAt cfg w src.other t false [bk.toCmd] .book
    exact ⟨ext, hext⟩
  | toolRaw src isTxn cmds =>
    unfold stepWorld
    obtain ⟨ext, hext, _⟩ := stream_execAt cfg w src.other t isTxn cmds .book
    exact ⟨ext, hext⟩
  | restart src p sq =>
    unfold stepWorld
    simp only
    split
    · rw [site_setLink]; exact ⟨[], by simp⟩
    · exact ⟨[], by simp⟩

def Ev.isRestart : Ev → Prop
  | .restart _ _ _ => True
  | _ => False

theorem step_link_same (cfg : WCfg) (w : World) (e : Ev) (hne : ¬ e.isLink) (hnr : ¬ e.isRestart) (t : SiteId) :
    (stepWorld cfg w e).link t = w.link t := by
  cases e with
  | link _ _ => exact absurd trivial hne
  | restart _ _ _ => exact absurd trivial hnr
  | client s isTxn cmds =>
    unfold stepWorld
    simp only
    rw [link_nextId, link_setSite]
  | tick s dt => unfold stepWorld; rw [link_setSite]
  | expire s k =>
    unfold stepWorld
    simp only
    split
    · rw [link_setSite]
    · rw [link_nextId, link_setSite]
  | snapshot src cmds arg =>
    unfold stepWorld
    simp only
    split
    · rfl
    · rw [link_execAt]
  | book src bk => unfold stepWorld; rw [link_execAt]
  | toolRaw src isTxn cmds => unfold stepWorld; rw [link_execAt]

/-! ### every emitted unit holds exactly the commands of a block of the source stream -/

def Content (w : World) : Prop :=
  ∀ s, ∀ p ∈ (w.link s).emitted, ∃ tb ∈ (w.site s).stream, tb.tag = p.1 ∧ p.2.unit.cmds = tb.block.body.map norm

theorem content_step (cfg : WCfg) (hf : FOK cfg.parser.filter) (w : World) (hinv : WInv cfg w) (hc : Content w)
    (e : Ev) : Content (stepWorld cfg w e) := by
  intro s p hp
  obtain ⟨ext, hext⟩ := step_stream_grows cfg hf w hinv e s
  have lift : (∃ tb ∈ (w.site s).stream, tb.tag = p.1 ∧ p.2.unit.cmds = tb.block.body.map norm) →
      ∃ tb ∈ ((stepWorld cfg w e).site s).stream, tb.tag = p.1 ∧ p.2.unit.cmds = tb.block.body.map norm := by
    rintro ⟨tb, htb, h⟩
    exact ⟨tb, by rw [hext]; exact List.mem_append.mpr (Or.inl htb), h⟩
  by_cases hl : e.isLink
  · cases e with
    | link src arg =>
      have hs := link_step_shape cfg hf w hinv src arg
      generalize hw' : stepWorld cfg w (.link src arg) = w' at hs hp lift ⊢
      cases hs with
      | stay _ => exact lift (hc s p hp)
      | skip tb pst' _ _ =>
        apply lift
        rcases eq_or_other' src s with rfl | rfl
        · rw [link_setLink_same] at hp; exact hc _ p hp
        · rw [link_setLink_other] at hp; exact hc _ p hp
      | halt tb e _ _ _ =>
        apply lift
        rcases eq_or_other' src s with rfl | rfl
        · rw [link_setLink_same] at hp; exact hc _ p hp
        · rw [link_setLink_other] at hp; exact hc _ p hp
      | emit tb pst' em hget _ hcmds _ =>
        have hlink : ∀ t, ({ (execAt cfg (w.setLink src (linkAfter (w.link src) pst' tb.tag em)) src.other true
            (commitCmds (w.link src).cp arg.kind em.unit ⟨arg.markerValue, arg.recordFields, em.seq⟩)
            (.tool (tagId tb.tag))) with
          commits := (execAt cfg (w.setLink src (linkAfter (w.link src) pst' tb.tag em)) src.other true
            (commitCmds (w.link src).cp arg.kind em.unit ⟨arg.markerValue, arg.recordFields, em.seq⟩)
            (.tool (tagId tb.tag))).commits ++ [(tb.tag, src.other)] } : World).link t =
            (w.setLink src (linkAfter (w.link src) pst' tb.tag em)).link t := by
          intro t
          rw [link_commits, link_execAt]
        rw [hlink] at hp
        rcases eq_or_other' src s with rfl | rfl
        · rw [link_setLink_same] at hp
          simp only [linkAfter, List.mem_append, List.mem_singleton] at hp
          rcases hp with hp | rfl
          · exact lift (hc _ p hp)
          · apply lift
            exact ⟨tb, (mem_of_getElem? _ _ _ hget).1, rfl, hcmds⟩
        · rw [link_setLink_other] at hp
          exact lift (hc _ p hp)
    | client _ _ _ => exact absurd hl (by simp [Ev.isLink])
    | tick _ _ => exact absurd hl (by simp [Ev.isLink])
    | expire _ _ => exact absurd hl (by simp [Ev.isLink])
    | snapshot _ _ _ => exact absurd hl (by simp [Ev.isLink])
    | book _ _ => exact absurd hl (by simp [Ev.isLink])
    | toolRaw _ _ _ => exact absurd hl (by simp [Ev.isLink])
    | restart _ _ _ => exact absurd hl (by simp [Ev.isLink])
  · by_cases hr : e.isRestart
    · cases e with
      | restart src q sq =>
        apply lift
        unfold stepWorld at hp
        simp only at hp
        split at hp
        · rcases eq_or_other' src s with rfl | rfl
          · rw [link_setLink_same] at hp; exact hc _ p hp
          · rw [link_setLink_other] at hp; exact hc _ p hp
        · exact hc s p hp
      | client _ _ _ => exact absurd hr (by simp [Ev.isRestart])
      | tick _ _ => exact absurd hr (by simp [Ev.isRestart])
      | expire _ _ => exact absurd hr (by simp [Ev.isRestart])
      | link _ _ => exact absurd hr (by simp [Ev.isRestart])
      | snapshot _ _ _ => exact absurd hr (by simp [Ev.isRestart])
      | book _ _ => exact absurd hr (by simp [Ev.isRestart])
      | toolRaw _ _ _ => exact absurd hr (by simp [Ev.isRestart])
    · rw [step_link_same cfg w e hl hr] at hp
      exact lift (hc s p hp)

theorem content_run (cfg : WCfg) (hf : FOK cfg.parser.filter) (evs : List Ev) (w : World) (hinv : WInv cfg w)
    (hc : Content w) (hgood : GoodRun cfg w evs) : Content (runWorld cfg w evs) := by
  induction evs generalizing w with
  | nil => exact hc
  | cons e es ih =>
    exact ih _ (step_preserves cfg hf w hinv e hgood.1) (content_step cfg hf w hinv hc e) hgood.2

theorem content_init (cpAB cpBA : Bytes) : Content (World.init cpAB cpBA) := by
  intro s p hp; cases s <;> cases hp


/-! ### the drain -/

/-- client blocks a link has not read yet -/
def dueRest (w : World) (s : SiteId) : Nat :=
  (((w.site s).stream.drop (w.link s).pos).filter due).length

/-- … over both links -/
def pendingDue (w : World) : Nat := dueRest w .A + dueRest w .B

theorem drop_of_get {α : Type} (l : List α) (n : Nat) (x : α) (h : l[n]? = some x) :
    l.drop n = x :: l.drop (n + 1) := by
  obtain ⟨_, hlt⟩ := mem_of_getElem? l n x h
  rw [List.getElem?_eq_getElem hlt] at h
  injection h with h
  rw [← h]
  exact List.drop_eq_getElem_cons hlt

theorem tool_not_due (tag : Tag) (htag : isForeign tag = false) (ext : List TBlock) (h : ∀ tb ∈ ext, tb.tag = tag) :
    ∀ tb ∈ ext, due tb = false := by
  intro tb htb
  unfold due
  rw [h tb htb, htag]
  rfl

/-- what an emitting step leaves behind, field by field -/
theorem emit_world (cfg : WCfg) (w : World) (src : SiteId) (l' : LinkSt) (txn : List Cmd) (tag : Tag)
    (ctag : Tag) :
    let w' : World := { (execAt cfg (w.setLink src l') src.other true txn tag) with
      commits := (execAt cfg (w.setLink src l') src.other true txn tag).commits ++ [(ctag, src.other)] }
    w'.link src = l' ∧ w'.link src.other = w.link src.other ∧ w'.site src = w.site src ∧
    (∃ ext, (w'.site src.other).stream = (w.site src.other).stream ++ ext ∧ ∀ tb ∈ ext, tb.tag = tag) ∧
    w'.commits = w.commits ++ [(ctag, src.other)] := by
  intro w'
  refine ⟨?_, ?_, ?_, ?_, ?_⟩
  · show ({ (execAt cfg (w.setLink src l') src.other true txn tag) with commits := _ } : World).link src = l'
    rw [link_commits, link_execAt, link_setLink_same]
  · show ({ (execAt cfg (w.setLink src l') src.other true txn tag) with commits := _ } : World).link src.other = _
    rw [link_commits, link_execAt, link_setLink_other]
  · show ({ (execAt cfg (w.setLink src l') src.other true txn tag) with commits := _ } : World).site src = _
    rw [site_commits, site_execAt_other, site_setLink]
  · obtain ⟨ext, h1, h2⟩ := stream_execAt cfg (w.setLink src l') src.other src.other true txn tag
    rw [site_setLink] at h1
    refine ⟨ext, ?_, h2⟩
    show (({ (execAt cfg (w.setLink src l') src.other true txn tag) with commits := _ } : World).site src.other).stream = _
    rw [site_commits, h1]
  · show (execAt cfg (w.setLink src l') src.other true txn tag).commits ++ _ = _
    rw [commits_execAt, commits_setLink]

theorem dueRest_two (w : World) (src : SiteId) : pendingDue w = dueRest w src + dueRest w src.other := by
  unfold pendingDue
  cases src
  · rfl
  · exact Nat.add_comm _ _

/-- one link step: a commit is paid for by exactly one pending client block -/
theorem link_step_count (cfg : WCfg) (hf : FOK cfg.parser.filter) (w : World) (hinv : WInv cfg w)
    (src : SiteId) (arg : CommitArg) :
    pendingDue (stepWorld cfg w (.link src arg)) + (stepWorld cfg w (.link src arg)).commits.length =
      pendingDue w + w.commits.length := by
  have hs := link_step_shape cfg hf w hinv src arg
  generalize stepWorld cfg w (.link src arg) = w' at hs
  cases hs with
  | stay _ => rfl
  | skip tb pst' hget hd =>
    rw [dueRest_two _ src, dueRest_two w src, commits_setLink]
    unfold dueRest
    rw [site_setLink, site_setLink, link_setLink_same, link_setLink_other]
    show (List.filter due (List.drop ((w.link src).pos + 1) _)).length + _ + _ = _
    rw [drop_of_get _ _ tb hget, List.filter_cons, hd]
    simp
  | halt tb e hget hd _ =>
    rw [dueRest_two _ src, dueRest_two w src, commits_setLink]
    unfold dueRest
    rw [site_setLink, site_setLink, link_setLink_same, link_setLink_other]
  | emit tb pst' e hget hd _ _ =>
    obtain ⟨h1, h2, h3, ⟨ext, h4, h5⟩, h6⟩ := emit_world cfg w src (linkAfter (w.link src) pst' tb.tag e)
      (commitCmds (w.link src).cp arg.kind e.unit ⟨arg.markerValue, arg.recordFields, e.seq⟩) (.tool (tagId tb.tag)) tb.tag
    rw [dueRest_two _ src, dueRest_two w src]
    unfold dueRest
    rw [h1, h2, h3, h4, h6]
    have hnd := tool_not_due (.tool (tagId tb.tag)) rfl ext h5
    have hpos := hinv.pos src.other
    rw [List.drop_append_of_le_length hpos, List.filter_append]
    have hext : List.filter due ext = [] := by
      rw [List.filter_eq_nil_iff]
      intro tb' htb'
      rw [hnd tb' htb']
      simp
    rw [hext, List.append_nil]
    show (List.filter due (List.drop ((w.link src).pos + 1) _)).length + _ + _ = _
    rw [drop_of_get _ _ tb hget, List.filter_cons, hd]
    simp only [↓reduceIte, List.length_cons, List.length_append, List.length_nil]
    omega

/-- **Drain bound.** Over any sequence of link steps, every commit consumes one
    pending client block and no new pending block appears. -/
theorem drain_count (cfg : WCfg) (hf : FOK cfg.parser.filter) (more : List Ev) (w : World) (hinv : WInv cfg w)
    (hl : ∀ e ∈ more, e.isLink) :
    pendingDue (runWorld cfg w more) + (runWorld cfg w more).commits.length = pendingDue w + w.commits.length := by
  induction more generalizing w with
  | nil => rfl
  | cons e es ih =>
    have he := hl e (by simp)
    cases e with
    | link src arg =>
      have hrun : runWorld cfg w (Ev.link src arg :: es) = runWorld cfg (stepWorld cfg w (.link src arg)) es := rfl
      rw [hrun, ih _ (step_link cfg hf w hinv src arg) (fun e' he' => hl e' (List.mem_cons_of_mem _ he'))]
      exact link_step_count cfg hf w hinv src arg
    | client _ _ _ => exact absurd he (by simp [Ev.isLink])
    | tick _ _ => exact absurd he (by simp [Ev.isLink])
    | expire _ _ => exact absurd he (by simp [Ev.isLink])
    | snapshot _ _ _ => exact absurd he (by simp [Ev.isLink])
    | book _ _ => exact absurd he (by simp [Ev.isLink])
    | toolRaw _ _ _ => exact absurd he (by simp [Ev.isLink])
    | restart _ _ _ => exact absurd he (by simp [Ev.isLink])

/-! ### the drain reaches a state with nothing pending -/

/-- distance from the front of a block list to just past its last due block -/
def need : List TBlock → Nat
  | [] => 0
  | tb :: rest => if need rest > 0 then need rest + 1 else if due tb then 1 else 0

theorem need_eq_zero (l : List TBlock) : need l = 0 ↔ ∀ tb ∈ l, due tb = false := by
  induction l with
  | nil => simp [need]
  | cons tb rest ih =>
    rw [need]
    constructor
    · intro h
      by_cases hr : need rest > 0
      · rw [if_pos hr] at h; omega
      · rw [if_neg hr] at h
        have hr0 : need rest = 0 := by omega
        intro x hx
        rcases List.mem_cons.mp hx with rfl | hx
        · cases hd : due x with
          | false => rfl
          | true => rw [hd] at h; simp at h
        · exact ih.mp hr0 x hx
    · intro h
      have hr0 : need rest = 0 := ih.mpr (fun x hx => h x (List.mem_cons_of_mem _ hx))
      rw [hr0, h tb (by simp)]
      simp

theorem need_append (l t : List TBlock) (ht : ∀ tb ∈ t, due tb = false) : need (l ++ t) = need l := by
  induction l with
  | nil =>
    simp only [List.nil_append]
    rw [(need_eq_zero t).mpr ht]
    rfl
  | cons tb rest ih =>
    simp only [List.cons_append, need, ih]

theorem need_cons (tb : TBlock) (rest : List TBlock) (h : need (tb :: rest) > 0) :
    need rest + 1 = need (tb :: rest) := by
  rw [need] at h ⊢
  by_cases hr : need rest > 0
  · rw [if_pos hr]
  · rw [if_neg hr] at h ⊢
    have : need rest = 0 := by omega
    rw [this]
    by_cases hd : due tb = true
    · rw [if_pos hd]
    · rw [if_neg hd] at h; omega

/-- work a live link still has before it is past its last pending client block -/
def needOf (w : World) (s : SiteId) : Nat :=
  if (w.link s).halted.isSome then 0 else need ((w.site s).stream.drop (w.link s).pos)

/-- nothing pending for a link: it has stopped, or no unread block is owed a commit -/
def Settled (w : World) (s : SiteId) : Prop :=
  (w.link s).halted.isSome = true ∨ ∀ tb ∈ (w.site s).stream.drop (w.link s).pos, due tb = false

theorem settled_of_needOf (w : World) (s : SiteId) (h : needOf w s = 0) : Settled w s := by
  unfold needOf at h
  by_cases hh : (w.link s).halted.isSome = true
  · exact Or.inl hh
  · rw [if_neg hh] at h
    exact Or.inr ((need_eq_zero _).mp h)

theorem progress_of_facts (w W' : World) (src : SiteId) (tb : TBlock) (l' : LinkSt) (ext : List TBlock)
    (hlive : ¬ (w.link src).halted.isSome = true)
    (hget : (w.site src).stream[(w.link src).pos]? = some tb)
    (hneed : need ((w.site src).stream.drop (w.link src).pos) > 0)
    (hpos : (w.link src.other).pos ≤ (w.site src.other).stream.length)
    (h1 : W'.link src = l') (hp : l'.pos = (w.link src).pos + 1) (hh : l'.halted = (w.link src).halted)
    (h2 : W'.link src.other = w.link src.other) (h3 : W'.site src = w.site src)
    (h4 : (W'.site src.other).stream = (w.site src.other).stream ++ ext) (hnd : ∀ tb ∈ ext, due tb = false) :
    needOf W' src + needOf W' src.other < needOf w src + needOf w src.other := by
  have e1 : needOf W' src.other = needOf w src.other := by
    unfold needOf
    rw [h2, h4, List.drop_append_of_le_length hpos, need_append _ _ hnd]
  have e2 : needOf W' src + 1 = needOf w src := by
    unfold needOf
    rw [h1, h3, hh, hp, if_neg hlive, if_neg hlive]
    rw [drop_of_get _ _ tb hget] at hneed ⊢
    exact need_cons tb _ hneed
  omega

/-- a link step on a link with work left strictly reduces the total work -/
theorem link_step_progress (cfg : WCfg) (hf : FOK cfg.parser.filter) (w : World) (hinv : WInv cfg w)
    (src : SiteId) (arg : CommitArg) (hwork : needOf w src > 0) :
    needOf (stepWorld cfg w (.link src arg)) src + needOf (stepWorld cfg w (.link src arg)) src.other <
      needOf w src + needOf w src.other := by
  have hlive : ¬ (w.link src).halted.isSome = true := by
    intro h; unfold needOf at hwork; rw [if_pos h] at hwork; omega
  have hneed : need ((w.site src).stream.drop (w.link src).pos) > 0 := by
    unfold needOf at hwork; rw [if_neg hlive] at hwork; exact hwork
  have hs := link_step_shape cfg hf w hinv src arg
  generalize stepWorld cfg w (.link src arg) = w' at hs
  cases hs with
  | stay h =>
    exfalso
    rcases h with h | h
    · exact hlive h
    · have : (w.site src).stream.drop (w.link src).pos = [] := by
        rw [List.drop_eq_nil_iff]
        rcases Nat.lt_or_ge (w.link src).pos (w.site src).stream.length with h1 | h1
        · rw [List.getElem?_eq_getElem h1] at h; cases h
        · exact h1
      rw [this] at hneed
      simp [need] at hneed
  | skip tb pst' hget hd =>
    have e1 : needOf (w.setLink src { (w.link src) with pos := (w.link src).pos + 1, pst := pst' }) src.other =
        needOf w src.other := by
      unfold needOf; rw [link_setLink_other, site_setLink]
    have e2 : needOf (w.setLink src { (w.link src) with pos := (w.link src).pos + 1, pst := pst' }) src + 1 =
        needOf w src := by
      unfold needOf
      rw [link_setLink_same, site_setLink]
      show (if (w.link src).halted.isSome = true then 0 else need (List.drop ((w.link src).pos + 1) _)) + 1 = _
      rw [if_neg hlive, if_neg hlive]
      rw [drop_of_get _ _ tb hget] at hneed ⊢
      exact need_cons tb _ hneed
    omega
  | halt tb e hget hd _ =>
    have e1 : needOf (w.setLink src { (w.link src) with halted := some (.build e) }) src.other = needOf w src.other := by
      unfold needOf; rw [link_setLink_other, site_setLink]
    have e2 : needOf (w.setLink src { (w.link src) with halted := some (.build e) }) src = 0 := by
      unfold needOf; rw [link_setLink_same]; rfl
    omega
  | emit tb pst' e hget hd _ _ =>
    obtain ⟨h1, h2, h3, ⟨ext, h4, h5⟩, _⟩ := emit_world cfg w src (linkAfter (w.link src) pst' tb.tag e)
      (commitCmds (w.link src).cp arg.kind e.unit ⟨arg.markerValue, arg.recordFields, e.seq⟩) (.tool (tagId tb.tag)) tb.tag
    have hnd := tool_not_due (.tool (tagId tb.tag)) rfl ext h5
    exact progress_of_facts w _ src tb _ ext hlive hget hneed (hinv.pos src.other) h1 rfl rfl h2 h3 h4 hnd

/-- **The drain reaches quiescence.** From any reachable world there is a
    finite sequence of link steps after which, for each link, either it has
    stopped (on a builder error) or nothing it still has to read is owed a
    commit. -/
theorem drain_reaches (cfg : WCfg) (hf : FOK cfg.parser.filter) (w : World) (hinv : WInv cfg w) :
    ∃ more, (∀ e ∈ more, e.isLink) ∧ WInv cfg (runWorld cfg w more) ∧
      ∀ s, Settled (runWorld cfg w more) s := by
  generalize hn : needOf w .A + needOf w .B = n
  induction n using Nat.strongRecOn generalizing w with
  | _ n ih =>
    by_cases hz : needOf w .A = 0 ∧ needOf w .B = 0
    · refine ⟨[], by simp, hinv, ?_⟩
      intro s
      cases s
      · exact settled_of_needOf w .A hz.1
      · exact settled_of_needOf w .B hz.2
    · have hsrc : ∃ src : SiteId, needOf w src > 0 := by
        by_cases ha : needOf w .A = 0
        · exact ⟨.B, by have : ¬ needOf w .B = 0 := fun hb => hz ⟨ha, hb⟩; omega⟩
        · exact ⟨.A, by omega⟩
      obtain ⟨src, hwork⟩ := hsrc
      let arg : CommitArg := ⟨.latest, [], []⟩
      have hprog := link_step_progress cfg hf w hinv src arg hwork
      have hinv' := step_link cfg hf w hinv src arg
      have hsum : ∀ W : World, needOf W .A + needOf W .B = needOf W src + needOf W src.other := by
        intro W
        cases src
        · rfl
        · exact Nat.add_comm _ _
      obtain ⟨more, hm1, hm2, hm3⟩ := ih (needOf (stepWorld cfg w (.link src arg)) .A + needOf (stepWorld cfg w (.link src arg)) .B)
        (by rw [hsum, ← hn, hsum w]; exact hprog) _ hinv' rfl
      refine ⟨.link src arg :: more, ?_, hm2, hm3⟩
      intro e he
      rcases List.mem_cons.mp he with rfl | he
      · trivial
      · exact hm1 e he


/-! ### once settled, link steps change nothing -/

theorem mem_drop_of_get {α : Type} (l : List α) (n : Nat) (x : α) (h : l[n]? = some x) : x ∈ l.drop n := by
  rw [drop_of_get l n x h]; simp

/-- a link step of a settled link only moves that link's read position -/
theorem link_step_settled (cfg : WCfg) (hf : FOK cfg.parser.filter) (w : World) (hinv : WInv cfg w)
    (src : SiteId) (arg : CommitArg) (hs : Settled w src) :
    ∃ l', stepWorld cfg w (.link src arg) = w.setLink src l' ∧ l'.emitted = (w.link src).emitted ∧
      l'.halted = (w.link src).halted ∧ (w.link src).pos ≤ l'.pos := by
  have hsh := link_step_shape cfg hf w hinv src arg
  generalize stepWorld cfg w (.link src arg) = w' at hsh
  have hcontra : ∀ tb, (w.site src).stream[(w.link src).pos]? = some tb → due tb = true →
      (w.link src).halted = none → False := by
    intro tb hget hd hlive
    rcases hs with h | h
    · rw [hlive] at h; cases h
    · have := h tb (mem_drop_of_get _ _ tb hget)
      rw [hd] at this; cases this
  cases hsh with
  | stay _ => exact ⟨w.link src, (setLink_self w src).symm, rfl, rfl, Nat.le_refl _⟩
  | skip tb pst' _ _ => exact ⟨_, rfl, rfl, rfl, Nat.le_succ _⟩
  | halt tb e hget hd hlive => exact (hcontra tb hget hd hlive).elim
  | emit tb pst' e hget hd _ hlive => exact (hcontra tb hget hd hlive).elim

/-- **Once settled, nothing moves.** If every link has stopped or has no pending
    client block left, any further sequence of link steps leaves both streams,
    the commit log and the emitted units unchanged. -/
theorem quiesce_settled (cfg : WCfg) (hf : FOK cfg.parser.filter) (more : List Ev) (w : World) (hinv : WInv cfg w)
    (hs : ∀ s, Settled w s) (hl : ∀ e ∈ more, e.isLink) :
    (runWorld cfg w more).a.stream = w.a.stream ∧ (runWorld cfg w more).b.stream = w.b.stream ∧
    (runWorld cfg w more).commits = w.commits ∧
    (∀ s, ((runWorld cfg w more).link s).emitted = (w.link s).emitted) := by
  induction more generalizing w with
  | nil => exact ⟨rfl, rfl, rfl, fun _ => rfl⟩
  | cons e es ih =>
    have he := hl e (by simp)
    cases e with
    | link src arg =>
      obtain ⟨l', hstep, hem, hhalt, hpos⟩ := link_step_settled cfg hf w hinv src arg (hs src)
      have hinv' : WInv cfg (stepWorld cfg w (.link src arg)) := step_link cfg hf w hinv src arg
      have hs' : ∀ s, Settled (stepWorld cfg w (.link src arg)) s := by
        rw [hstep]
        intro s
        unfold Settled
        rw [site_setLink]
        rcases eq_or_other' src s with rfl | rfl
        · rw [link_setLink_same, hhalt]
          rcases hs src with h | h
          · exact Or.inl h
          · right
            intro tb htb
            apply h tb
            have : l'.pos = (w.link src).pos + (l'.pos - (w.link src).pos) := by omega
            rw [this, ← List.drop_drop] at htb
            exact List.mem_of_mem_drop htb
        · rw [link_setLink_other]; exact hs _
      obtain ⟨h1, h2, h3, h4⟩ := ih _ hinv' hs' (fun e' he' => hl e' (List.mem_cons_of_mem _ he'))
      have hrun : runWorld cfg w (Ev.link src arg :: es) = runWorld cfg (stepWorld cfg w (.link src arg)) es := rfl
      rw [hrun]
      refine ⟨?_, ?_, ?_, ?_⟩
      · rw [h1, hstep]; exact congrArg SiteSt.stream (site_setLink w src .A l')
      · rw [h2, hstep]; exact congrArg SiteSt.stream (site_setLink w src .B l')
      · rw [h3, hstep]; exact commits_setLink _ _ _
      · intro s
        rw [h4, hstep]
        rcases eq_or_other' src s with rfl | rfl
        · rw [link_setLink_same]; exact hem
        · rw [link_setLink_other]
    | client _ _ _ => exact absurd he (by simp [Ev.isLink])
    | tick _ _ => exact absurd he (by simp [Ev.isLink])
    | expire _ _ => exact absurd he (by simp [Ev.isLink])
    | snapshot _ _ _ => exact absurd he (by simp [Ev.isLink])
    | book _ _ => exact absurd he (by simp [Ev.isLink])
    | toolRaw _ _ _ => exact absurd he (by simp [Ev.isLink])
    | restart _ _ _ => exact absurd he (by simp [Ev.isLink])

end GunYu.Bisync
