/-
  C02 (transactional mode): every batch that carries data is ONE MULTI/EXEC
  block whose last keyed request is a checkpoint write. Together with the wire
  order (SenderWire) and "crash = whole batches" this gives: whatever a crashed
  target has executed is covered by a checkpoint write it has executed too.
-/
import GunYu.Proofs.Crash

namespace GunYu.Sender
open GunYu.Target

/-- a batch of transactional+resumable mode: no data, or one block ending
    (before EXEC) with the checkpoint write -/
def TxnShape (b : Batch) : Prop :=
  dataB b = [] ∨
  ((∃ body, (∀ r ∈ body, Plain r = true) ∧ b = [Req.multi] ++ body ++ [Req.exec]) ∧
    (∃ K o, keysB b = K ++ [2 * o + 1]))

def AllShape (out : List Batch) : Prop := ∀ b ∈ out, TxnShape b

theorem allShape_nil : AllShape [] := by intro b hb; cases hb
theorem allShape_append {a b : List Batch} (ha : AllShape a) (hb : AllShape b) : AllShape (a ++ b) := by
  intro x hx; rcases List.mem_append.mp hx with h | h
  · exact ha x h
  · exact hb x h

theorem qd_nil_iff (s : SState) : qd s = [] ↔ qkeys s.queue = [] := by
  unfold qd qkeys
  induction s.queue with
  | nil => simp
  | cons i q ih =>
    simp only [List.filterMap_cons, itemCmd]
    by_cases hp : i.cmd = bPing <;> simp [hp, ih]

/-- one flush in transactional+resumable mode -/
theorem sendOnce_shape (c : SCfg) (hres : c.resume = true) (s : SState) (tb up : Bool) (off : Int)
    (h : (tb = true ∧ up = true ∧ (qkeys s.queue ≠ [] → 0 ≤ off)) ∨ qkeys s.queue = []) :
    AllShape (optToList (sendOnce c s tb up off).2) := by
  unfold sendOnce
  simp only
  split
  · exact allShape_nil
  · split
    · exact allShape_nil
    · intro b hb
      simp [optToList] at hb
      subst hb
      by_cases hq : qkeys s.queue = []
      · left; rw [dataB_sendReqs]; exact (qd_nil_iff s).mpr hq
      · rcases h with ⟨htb, hup, hoff⟩ | hq'
        · right
          subst htb; subst hup
          have h0 : 0 ≤ off := hoff hq
          have hu : (true && decide (0 ≤ off) && c.resume) = true := by simp [h0, hres]
          refine ⟨⟨sendBody c s (true && decide (0 ≤ off)) off, plain_sendBody _ _ _ _, ?_⟩,
            qkeys s.queue, off, ?_⟩
          · rw [sendReqs_eq]; simp
          · rw [keysB_sendReqs]; simp only [hu, ↓reduceIte]
        · exact absurd hq' hq

theorem tail_shape (c : SCfg) (hres : c.resume = true) (s : SState) (tb up : Bool) (out : List Batch)
    (h : (tb = true ∧ up = true ∧ (qkeys s.queue ≠ [] → 0 ≤ s.lastOffset)) ∨ qkeys s.queue = [])
    (hout : AllShape out) : AllShape (tail c s tb up out).2 := by
  unfold tail
  simp only
  split
  · rw [if_pos rfl]
    exact allShape_append hout (sendOnce_shape c hres { s with needFlush := true } tb up _ h)
  · split
    · exact allShape_append hout (sendOnce_shape c hres s tb up _ h)
    · exact hout

/-- the loop state invariant needed: nothing keyed is queued before the first
    item arrived (`lastOffset` still negative) -/
def I0 (s : SState) : Prop := qkeys s.queue = [] ∨ 0 ≤ s.lastOffset

theorem tail_queue (c : SCfg) (s : SState) (tb up : Bool) (out : List Batch) :
    (tail c s tb up out).1.queue = s.queue ∨ (tail c s tb up out).1.queue = [] := by
  unfold tail
  simp only
  split
  · right; rw [if_pos rfl]; exact sendOnce_queue_nil _ _ _ _ _
  · split
    · right; exact sendOnce_queue_nil _ _ _ _ _
    · left; rfl

/-- nonnegative item offsets -/
def NonNeg : List Ev → Prop
  | [] => True
  | .item it :: rest => 0 ≤ it.offset ∧ NonNeg rest
  | _ :: rest => NonNeg rest

theorem step_shape_txn (c : SCfg) (hc : c.txnMode = true) (hres : c.resume = true) (s : SState)
    (hI : I0 s) (ev : Ev) (hnn : ∀ it, ev = .item it → 0 ≤ it.offset) :
    AllShape (step c s ev).2 ∧ I0 (step c s ev).1 := by
  have hup : (c.resume && c.txnMode) = true := by simp [hc, hres]
  -- I0 after an event that does not touch lastOffset: queue unchanged or emptied
  have keepI : ∀ (s0 : SState) tb up, s0.queue = s.queue → s0.lastOffset = s.lastOffset →
      I0 (tail c s0 tb up []).1 := by
    intro s0 tb up hq hl
    have hlast : (tail c s0 tb up []).1.lastOffset = s.lastOffset := by
      rw [(tail_cp c s0 tb up []).1, hl]
    rcases tail_queue c s0 tb up [] with h | h
    · rcases hI with h1 | h1
      · left; rw [h, hq]; exact h1
      · right; rw [hlast]; exact h1
    · left; rw [h]; rfl
  have hH : ∀ (s0 : SState), s0.queue = s.queue → s0.lastOffset = s.lastOffset →
      (qkeys s0.queue ≠ [] → 0 ≤ s0.lastOffset) := by
    intro s0 hq hl hne
    rcases hI with h1 | h1
    · rw [hq] at hne; exact absurd h1 hne
    · rw [hl]; exact h1
  cases ev with
  | item it =>
    have h0 := hnn it rfl
    simp only [step]
    split
    · refine ⟨allShape_nil, ?_⟩
      right; exact h0
    · rename_i hp
      unfold stepItem
      simp only [hc, ↓reduceIte]
      unfold stepItemTxn
      simp only [hc, hres, Bool.and_self]
      generalize hs1 : ({ s with lastOffset := it.offset, txn := (txnStatus it.cmd s.txn).1,
                                  needFlush := (txnStatus it.cmd s.txn).2 } : SState) = s1
      have hq1 : s1.queue = s.queue := by rw [← hs1]
      have hl1 : s1.lastOffset = it.offset := by rw [← hs1]
      -- the pre-flush
      have hpf : AllShape (preFlush c s1 (txnStatus it.cmd s.txn).1 (txnStatus it.cmd s.txn).2 s.lastOffset).2 := by
        unfold preFlush
        split
        · simp only [hc, hres, Bool.and_self]
          refine sendOnce_shape c hres s1 true true _ (Or.inl ⟨rfl, rfl, ?_⟩)
          intro hne
          split
          · rw [hl1]; exact h0
          · rw [hq1] at hne
            rcases hI with h1 | h1
            · exact absurd h1 hne
            · exact h1
        · exact allShape_nil
      have hlast3 := (tail_cp c (absorb (preFlush c s1 (txnStatus it.cmd s.txn).1
        (txnStatus it.cmd s.txn).2 s.lastOffset).1 (txnStatus it.cmd s.txn).1 it) true true
        (preFlush c s1 (txnStatus it.cmd s.txn).1 (txnStatus it.cmd s.txn).2 s.lastOffset).2).1
      have hlast2 : (absorb (preFlush c s1 (txnStatus it.cmd s.txn).1
          (txnStatus it.cmd s.txn).2 s.lastOffset).1 (txnStatus it.cmd s.txn).1 it).lastOffset = it.offset := by
        rw [absorb_last, (preFlush_cp _ _ _ _ _).1, hl1]
      refine ⟨tail_shape c hres _ true true _ (Or.inl ⟨rfl, rfl, fun _ => by rw [hlast2]; exact h0⟩) hpf, ?_⟩
      right; rw [hlast3, hlast2]; exact h0
  | batchTick =>
    simp only [step, hc, hres, Bool.and_self]
    split
    · exact ⟨tail_shape c hres _ true true [] (Or.inl ⟨rfl, rfl, hH _ rfl rfl⟩) allShape_nil,
        keepI _ _ _ rfl rfl⟩
    · exact ⟨tail_shape c hres _ true true [] (Or.inl ⟨rfl, rfl, hH _ rfl rfl⟩) allShape_nil,
        keepI _ _ _ rfl rfl⟩
  | keepaliveTick =>
    simp only [step, hc, hres, Bool.and_self]
    split
    · split
      · refine ⟨tail_shape c hres _ false true [] (Or.inr (by simp [qkeys, pingItem])) allShape_nil, ?_⟩
        rcases tail_queue c { s with queue := [pingItem s.lastOffset], needFlush := true } false true [] with h | h
        · left; rw [h]; simp [qkeys, pingItem]
        · left; rw [h]; rfl
      · exact ⟨tail_shape c hres _ true true [] (Or.inl ⟨rfl, rfl, hH _ rfl rfl⟩) allShape_nil,
          keepI _ _ _ rfl rfl⟩
    · exact ⟨tail_shape c hres _ true true [] (Or.inl ⟨rfl, rfl, hH _ rfl rfl⟩) allShape_nil,
        keepI _ _ _ rfl rfl⟩
  | cpTick =>
    simp only [step, hc, hres, Bool.and_self, Bool.not_true, Bool.and_false, Bool.false_eq_true, ↓reduceIte]
    exact ⟨tail_shape c hres _ true true [] (Or.inl ⟨rfl, rfl, hH _ rfl rfl⟩) allShape_nil,
      keepI _ _ _ rfl rfl⟩
  | done =>
    simp only [step, hc, hres, Bool.and_self, Bool.not_true, Bool.and_false, Bool.false_eq_true, ↓reduceIte]
    exact ⟨tail_shape c hres _ true true [] (Or.inl ⟨rfl, rfl, hH _ rfl rfl⟩) allShape_nil,
      keepI _ _ _ rfl rfl⟩

theorem run_shape_txn (c : SCfg) (hc : c.txnMode = true) (hres : c.resume = true) (s : SState)
    (hI : I0 s) (evs : List Ev) (hnn : NonNeg evs) : AllShape (run c s evs).2 := by
  induction evs generalizing s with
  | nil => exact allShape_nil
  | cons ev rest ih =>
    have hev : ∀ it, ev = .item it → 0 ≤ it.offset := by
      intro it h; subst h; exact hnn.1
    have hrest : NonNeg rest := by cases ev <;> first | exact hnn.2 | exact hnn
    obtain ⟨h1, h2⟩ := step_shape_txn c hc hres s hI ev hev
    simp only [run]
    split
    · exact h1
    · exact allShape_append h1 (ih _ h2 hrest)

end GunYu.Sender

namespace GunYu.Target
open GunYu GunYu.Sender

/-- **Crash = whole batches (+ part of an unbracketed one).** Refinement of
    `crash_executes_body_prefix`: the executed requests are the bodies of the
    first `m` batches, followed by a prefix of the next batch only if that batch
    is not a MULTI/EXEC block. -/
theorem crash_whole_batches_prefix (out : List Batch) (hwf : AllWF out) (t : TState)
    (hq : t.queued = none) (k : Nat) :
    ∃ m E', SameData (applyLog t (out.flatten.take k)) ((bodies (out.take m) ++ E').foldl execReq t) ∧
      (E' = [] ∨ ∃ b, b ∈ out ∧ stripB b = b ∧ E' <+: b) ∧
      bodies (out.take m) ++ E' <+: bodies out := by
  induction out generalizing t k with
  | nil => exact ⟨0, [], by simp [applyLog, SameData, bodies], Or.inl rfl, by simp [bodies]⟩
  | cons b rest ih =>
    obtain ⟨body, hp, hstrip, hshape⟩ := stripB_wf b (hwf b (List.mem_cons_self ..))
    have hrest : AllWF rest := fun x hx => hwf x (List.mem_cons_of_mem _ hx)
    by_cases hk : b.length ≤ k
    · have htk : (b :: rest).flatten.take k = b ++ rest.flatten.take (k - b.length) := by
        simp only [List.flatten_cons, List.take_append]
        rw [List.take_of_length_le hk]
      have hb : applyLog t b = body.foldl execReq t := by
        rcases hshape with h | h
        · rw [h]; exact applyLog_plain body hp t hq
        · rw [h]; exact applyLog_block body hp t hq
      have hq1 : (body.foldl execReq t).queued = none := by rw [foldl_execReq_queued, hq]
      obtain ⟨m, E', hs, hE', hpre⟩ := ih hrest (body.foldl execReq t) hq1 (k - b.length)
      refine ⟨m + 1, E', ?_, ?_, ?_⟩
      · rw [htk, applyLog_append, hb]
        have : bodies ((b :: rest).take (m + 1)) = body ++ bodies (rest.take m) := by
          simp [bodies, hstrip]
        rw [this, List.append_assoc, List.foldl_append]
        exact hs
      · rcases hE' with h | ⟨b', hb', h1, h2⟩
        · exact Or.inl h
        · exact Or.inr ⟨b', List.mem_cons_of_mem _ hb', h1, h2⟩
      · have h1 : bodies ((b :: rest).take (m + 1)) = body ++ bodies (rest.take m) := by
          simp [bodies, hstrip]
        have h2 : bodies (b :: rest) = body ++ bodies rest := by simp [bodies, hstrip]
        rw [h1, h2, List.append_assoc]
        exact (List.prefix_append_right_inj body).mpr hpre
    · have hlt : k < b.length := Nat.lt_of_not_le hk
      have htk : (b :: rest).flatten.take k = b.take k := by
        simp only [List.flatten_cons, List.take_append]
        have : k - b.length = 0 := by omega
        simp [this]
      rw [htk]
      rcases hshape with h | h
      · refine ⟨0, body.take k, ?_, Or.inr ⟨b, List.mem_cons_self .., ?_, ?_⟩, ?_⟩
        · rw [h, take_prefix_plain body hp t hq k]; simp [bodies, SameData]
        · rw [hstrip, h]
        · rw [h]; exact List.take_prefix k body
        · have h2 : bodies (b :: rest) = body ++ bodies rest := by simp [bodies, hstrip]
          rw [h2]
          simp only [List.take_zero, bodies, List.flatMap_nil, List.nil_append]
          exact (List.take_prefix k body).trans (List.prefix_append _ _)
      · refine ⟨0, [], ?_, Or.inl rfl, by simp [bodies]⟩
        cases k with
        | zero => simp [applyLog, SameData, bodies]
        | succ j =>
          have hj : j ≤ body.length := by
            rw [h] at hlt; simp at hlt; omega
          have htake : b.take (j + 1) = [Req.multi] ++ body.take j := by
            rw [h]
            simp only [List.cons_append, List.take_succ_cons, List.nil_append]
            rw [List.take_append_of_le_length hj]
          rw [htake]
          unfold applyLog
          rw [List.foldl_append]
          have h1 : [Req.multi].foldl applyReq t = { t with queued := some [] } := by
            simp [applyReq, hq]
          rw [h1]
          have h2 := applyLog_queue (body.take j) (fun r hr => hp r (List.mem_of_mem_take hr))
            { t with queued := some [] } [] rfl
          unfold applyLog at h2
          rw [h2]
          simp [bodies, SameData]


theorem crash_whole_batches (out : List Batch) (hwf : AllWF out) (t : TState)
    (hq : t.queued = none) (k : Nat) :
    ∃ m E', SameData (applyLog t (out.flatten.take k)) ((bodies (out.take m) ++ E').foldl execReq t) ∧
      (E' = [] ∨ ∃ b, b ∈ out ∧ stripB b = b ∧ E' <+: b) := by
  obtain ⟨m, E', h1, h2, _⟩ := crash_whole_batches_prefix out hwf t hq k
  exact ⟨m, E', h1, h2⟩

end GunYu.Target
