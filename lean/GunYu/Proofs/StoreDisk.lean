/-
  Helper lemmas for C05 (disk backend): the invariant `DInv` of the step-level
  model `GunYu.Store.Disk` and its preservation by every operation that
  respects the callers' protocol (`Disk.okOp`).
-/
import GunYu.Model.Store

namespace GunYu.Store
open GunYu

/-! ### contiguity -/

/-- consecutive segments: each one starts where the previous one ends -/
def Contig : List DSeg → Prop
  | [] => True
  | [_] => True
  | g :: h :: rest => g.right = h.left ∧ Contig (h :: rest)

theorem Contig.tail {g : DSeg} {l : List DSeg} (h : Contig (g :: l)) : Contig l := by
  cases l with
  | nil => trivial
  | cons a t => exact h.2

theorem contig_suffix (pre l : List DSeg) (h : Contig (pre ++ l)) : Contig l := by
  induction pre with
  | nil => simpa using h
  | cons a t ih => exact ih (Contig.tail h)

theorem lastRight_cons_cons (a b : DSeg) (t : List DSeg) : lastRight (a :: b :: t) = lastRight (b :: t) := rfl

theorem lastRight_append_single (l : List DSeg) (x : DSeg) : lastRight (l ++ [x]) = some x.right := by
  induction l with
  | nil => rfl
  | cons a t ih =>
    cases t with
    | nil => rfl
    | cons b u =>
      show lastRight (a :: b :: (u ++ [x])) = _
      rw [lastRight_cons_cons]
      exact ih

theorem lastRight_suffix (pre l : List DSeg) (hl : l ≠ []) : lastRight (pre ++ l) = lastRight l := by
  induction pre with
  | nil => rfl
  | cons a t ih =>
    cases hm : t ++ l with
    | nil => simp at hm; exact absurd hm.2 hl
    | cons b u =>
      show lastRight (a :: (t ++ l)) = _
      rw [hm, lastRight_cons_cons, ← hm, ih]

theorem lastRight_eq_none {l : List DSeg} : lastRight l = none ↔ l = [] := by
  induction l with
  | nil => simp [lastRight]
  | cons a t ih =>
    cases t with
    | nil => simp [lastRight]
    | cons b u => rw [lastRight_cons_cons]; simp [ih]

theorem contig_append_single (l : List DSeg) (x : DSeg) :
    Contig (l ++ [x]) ↔ Contig l ∧ (∀ r, lastRight l = some r → r = x.left) := by
  induction l with
  | nil => simp [Contig, lastRight]
  | cons a t ih =>
    cases t with
    | nil => simp [Contig, lastRight]
    | cons b u =>
      show (a.right = b.left ∧ Contig (b :: u ++ [x])) ↔ _
      rw [ih]
      simp only [Contig, lastRight_cons_cons]
      constructor
      · rintro ⟨h1, h2, h3⟩; exact ⟨⟨h1, h2⟩, h3⟩
      · rintro ⟨⟨h1, h2⟩, h3⟩; exact ⟨h1, h2, h3⟩

/-- in a contiguous list every right end is at most the last right end and
    every left end at least the first -/
theorem contig_right_le_last {l : List DSeg} (hc : Contig l) {g : DSeg} (hg : g ∈ l) {r : Nat}
    (hr : lastRight l = some r) : g.right ≤ r := by
  induction l generalizing g with
  | nil => cases hg
  | cons a t ih =>
    cases t with
    | nil =>
      simp at hg; subst hg
      simp [lastRight] at hr; omega
    | cons b u =>
      rw [lastRight_cons_cons] at hr
      rcases List.mem_cons.mp hg with h | h
      · subst h
        have hb : b.right ≤ r := ih hc.2 (List.mem_cons_self) hr
        have := hc.1
        simp only [DSeg.right] at *
        omega
      · exact ih hc.2 h hr

theorem contig_first_le {l : List DSeg} (hc : Contig l) {g : DSeg} (hg : g ∈ l) {f : Nat}
    (hf : firstLeft l = some f) : f ≤ g.left := by
  induction l generalizing f g with
  | nil => cases hg
  | cons a t ih =>
    simp [firstLeft] at hf; subst hf
    rcases List.mem_cons.mp hg with h | h
    · subst h; exact Nat.le_refl _
    · cases t with
      | nil => cases h
      | cons b u =>
        have := ih hc.2 h (f := b.left) rfl
        have := hc.1
        simp only [DSeg.right] at *
        omega

/-- every offset between the first left end and the last right end lies in
    some segment -/
theorem contig_cover {l : List DSeg} (hc : Contig l) {f r off : Nat}
    (hf : firstLeft l = some f) (hr : lastRight l = some r) (h1 : f ≤ off) (h2 : off ≤ r) :
    ∃ g ∈ l, g.left ≤ off ∧ off ≤ g.right := by
  induction l generalizing f with
  | nil => simp [firstLeft] at hf
  | cons a t ih =>
    simp [firstLeft] at hf; subst hf
    cases t with
    | nil =>
      simp [lastRight] at hr; subst hr
      exact ⟨a, List.mem_cons_self, h1, h2⟩
    | cons b u =>
      rw [lastRight_cons_cons] at hr
      by_cases hoff : off ≤ a.right
      · exact ⟨a, List.mem_cons_self, h1, hoff⟩
      · have hb : b.left ≤ off := by have := hc.1; omega
        obtain ⟨g, hg, hg1, hg2⟩ := ih hc.2 (f := b.left) rfl hr hb
        exact ⟨g, List.mem_cons_of_mem _ hg, hg1, hg2⟩

/-! ### strictly increasing left ends -/

/-- all segments but the last are non-empty -/
def InitNonempty (l : List DSeg) : Prop := ∀ g ∈ l.dropLast, g.data ≠ []

theorem InitNonempty.tail {a : DSeg} {l : List DSeg} (h : InitNonempty (a :: l)) : InitNonempty l := by
  intro g hg
  cases l with
  | nil => simp at hg
  | cons b t =>
    apply h
    simp only [List.dropLast_cons_cons]
    exact List.mem_cons_of_mem _ hg

theorem contig_head_lt {a : DSeg} {l : List DSeg} (hc : Contig (a :: l)) (hn : InitNonempty (a :: l))
    {g : DSeg} (hg : g ∈ l) : a.left < g.left := by
  induction l generalizing a g with
  | nil => cases hg
  | cons b t ih =>
    have ha : a.data ≠ [] := hn a (by simp)
    have hlen : 0 < a.data.length := List.length_pos_iff.mpr ha
    have hab : a.left < b.left := by have := hc.1; simp only [DSeg.right] at this; omega
    rcases List.mem_cons.mp hg with h | h
    · subst h; exact hab
    · have := ih hc.2 hn.tail h
      omega

theorem lefts_unique {l : List DSeg} (hc : Contig l) (hn : InitNonempty l) {g h : DSeg}
    (hg : g ∈ l) (hh : h ∈ l) (e : g.left = h.left) : g = h := by
  induction l with
  | nil => cases hg
  | cons a t ih =>
    rcases List.mem_cons.mp hg with h1 | h1 <;> rcases List.mem_cons.mp hh with h2 | h2
    · rw [h1, h2]
    · subst h1; have := contig_head_lt hc hn h2; omega
    · subst h2; have := contig_head_lt hc hn h1; omega
    · exact ih hc.tail hn.tail h1 h2

theorem findSeg_of_mem {l : List DSeg} (hc : Contig l) (hn : InitNonempty l) {g : DSeg} (hg : g ∈ l) :
    findSeg l g.left = some g := by
  unfold findSeg
  cases hf : l.find? (fun x => x.left == g.left) with
  | none =>
    have := List.find?_eq_none.mp hf g hg
    simp at this
  | some x =>
    have hx := List.find?_some hf
    have hxm := List.mem_of_find?_eq_some hf
    simp at hx
    rw [lefts_unique hc hn hxm hg hx]

theorem findSeg_some {l : List DSeg} {c : Nat} {g : DSeg} (h : findSeg l c = some g) : g ∈ l ∧ g.left = c := by
  unfold findSeg at h
  have h1 := List.mem_of_find?_eq_some h
  have h2 := List.find?_some h
  simp at h2
  exact ⟨h1, h2⟩

/-! ### bytes of the history -/

theorem take_drop_append_of_le {α} (l m : List α) (i j : Nat) (h : i + j ≤ l.length) :
    ((l ++ m).drop i).take j = (l.drop i).take j := by
  rw [List.drop_append_of_le_length (by omega)]
  rw [List.take_append_of_le_length (by simp; omega)]

theorem take_eq_take_length {α} (m : Nat) (X : List α) : X.take m = X.take (X.take m).length := by
  rw [List.length_take]
  exact List.take_eq_take_min

theorem take_drop_glue {α} (l : List α) (i j k : Nat) :
    (l.drop i).take j ++ (l.drop (i + j)).take k = (l.drop i).take (j + k) := by
  rw [List.take_add, List.drop_drop]

/-! ### the invariant -/

def AofOk (s : Disk) (r : DReader) : Prop :=
  (∃ g ∈ s.all, g.left = r.cur ∧ g.left ≤ r.pos ∧ r.pos ≤ g.right) ∧
  (∀ p, r.prev = some p → ∃ g ∈ s.all, g.left = p) ∧
  s.hbase ≤ r.start ∧ r.start ≤ r.pos ∧
  r.out = (s.hist.drop (r.start - s.hbase)).take (r.pos - r.start)

def RdbOk (s : Disk) (r : DReader) : Prop :=
  ∃ rd, s.rdb = some rd ∧ r.pos ≤ rd.data.length ∧ r.out = rd.data.take r.pos

def ROk (s : Disk) (r : DReader) : Prop :=
  r.isOpen = true → (r.isAof = true → AofOk s r) ∧ (r.isAof = false → RdbOk s r)

structure DInv (s : Disk) : Prop where
  contig : Contig s.all
  nonempty : ∀ g ∈ s.segs, g.data ≠ []
  embed : ∀ g ∈ s.all, s.hbase ≤ g.left ∧ g.right ≤ s.hbase + s.hist.length ∧
            g.data = (s.hist.drop (g.left - s.hbase)).take g.data.length
  lastEnd : ∀ r, lastRight s.all = some r → r = s.hbase + s.hist.length
  rdbAlign : ∀ r l, s.rdb = some r → firstLeft s.all = some l → r.left = l
  rdbShape : ∀ r, s.rdb = some r → 0 < r.size ∧
      (r.writing = true → r.final = false ∧ r.data.length < r.size) ∧
      (r.writing = false → r.final = true ∧ r.data.length = r.size)
  ids : (s.readers.map (·.id)).Nodup
  readersOk : ∀ r ∈ s.readers, ROk s r

theorem all_initNonempty {s : Disk} (h : ∀ g ∈ s.segs, g.data ≠ []) : InitNonempty s.all := by
  intro g hg
  apply h
  unfold Disk.all at hg
  cases hl : s.live with
  | none => rw [hl] at hg; simp at hg; exact List.dropLast_subset _ hg
  | some x =>
    rw [hl] at hg
    simp only [Option.toList_some] at hg
    rw [List.dropLast_concat] at hg
    exact hg

theorem DInv.init (l m : Nat) : DInv (Disk.init l m) := by
  constructor <;> simp [Disk.init, Disk.all, Contig, lastRight, firstLeft]

/-! ### reader-list helpers -/

theorem ROk_of_closed {s : Disk} {r : DReader} (h : r.isOpen = false) : ROk s r := by
  intro ho; rw [h] at ho; cases ho

theorem close_isOpen (r : DReader) : r.close.isOpen = false := rfl
theorem close_id (r : DReader) : r.close.id = r.id := rfl

theorem map_ids_of_id_pres (rs : List DReader) (f : DReader → DReader) (hf : ∀ r, (f r).id = r.id) :
    (rs.map f).map (·.id) = rs.map (·.id) := by
  induction rs with
  | nil => rfl
  | cons a t ih => simp [hf, ih]

theorem setReader_ids (rs : List DReader) (r : DReader) :
    (setReader rs r).map (·.id) = rs.map (·.id) := by
  unfold setReader
  induction rs with
  | nil => rfl
  | cons a t ih =>
    simp only [List.map_cons, ih]
    by_cases h : a.id == r.id
    · simp [h]; exact (beq_iff_eq.mp h).symm
    · simp [h]

theorem mem_setReader {rs : List DReader} {r x : DReader} (h : x ∈ setReader rs r) :
    x = r ∨ (x ∈ rs ∧ x.id ≠ r.id) := by
  unfold setReader at h
  obtain ⟨y, hy, rfl⟩ := List.mem_map.mp h
  by_cases hid : y.id == r.id
  · left; simp [hid]
  · right; simp [hid]; exact ⟨hy, by simpa using hid⟩

theorem findReader_some {rs : List DReader} {rid : Nat} {r : DReader} (h : findReader rs rid = some r) :
    r ∈ rs ∧ r.id = rid := by
  unfold findReader at h
  have h1 := List.mem_of_find?_eq_some h
  have h2 := List.find?_some h
  simp at h2
  exact ⟨h1, h2⟩

theorem findReader_none {rs : List DReader} {rid : Nat} (h : findReader rs rid = none) :
    rid ∉ rs.map (·.id) := by
  unfold findReader at h
  intro hm
  obtain ⟨y, hy, rfl⟩ := List.mem_map.mp hm
  have := List.find?_eq_none.mp h y hy
  simp at this

/-- `ROk` only depends on the index part of the state -/
theorem ROk_congr {s s' : Disk} {r : DReader} (hall : s'.all = s.all) (hrdb : s'.rdb = s.rdb)
    (hb : s'.hbase = s.hbase) (hh : s'.hist = s.hist) (h : ROk s r) : ROk s' r := by
  intro ho
  obtain ⟨h1, h2⟩ := h ho
  refine ⟨fun ha => ?_, fun ha => ?_⟩
  · have := h1 ha
    unfold AofOk at *
    rw [hall, hb, hh]; exact this
  · have := h2 ha
    unfold RdbOk at *
    rw [hrdb]; exact this

/-! ### resets -/

theorem DInv.reset {s : Disk} (h : DInv s) : DInv s.reset := by
  constructor
  · simp [Disk.reset, Disk.all, Contig]
  · simp [Disk.reset]
  · simp [Disk.reset, Disk.all]
  · simp [Disk.reset, Disk.all, lastRight]
  · simp [Disk.reset]
  · simp [Disk.reset]
  · show ((closeAllReaders s.readers).map (·.id)).Nodup
    unfold closeAllReaders
    rw [map_ids_of_id_pres _ _ close_id]; exact h.ids
  · intro r hr
    simp only [Disk.reset, closeAllReaders] at hr
    obtain ⟨y, _, rfl⟩ := List.mem_map.mp hr
    exact ROk_of_closed (close_isOpen y)

theorem DInv.with_runId {s : Disk} (h : DInv s) (id : String) : DInv { s with runId := id } := by
  constructor
  · exact h.contig
  · exact h.nonempty
  · exact h.embed
  · exact h.lastEnd
  · exact h.rdbAlign
  · exact h.rdbShape
  · exact h.ids
  · intro r hr; exact ROk_congr rfl rfl rfl rfl (h.readersOk r hr)

theorem DInv.newRdbWriter {s : Disk} (h : DInv s) (off size : Nat) (hs : 0 < size) :
    DInv (s.step (.newRdbWriter off size)).1 := by
  have hr := h.reset
  show DInv { s.reset with rdb := some { left := off, size := size, data := [], writing := true, final := false } }
  constructor
  · exact hr.contig
  · exact hr.nonempty
  · exact hr.embed
  · exact hr.lastEnd
  · intro r l _ hl; simp [Disk.reset, Disk.all, firstLeft] at hl
  · intro r hr'; simp at hr'; subst hr'; simp; exact hs
  · exact hr.ids
  · intro r hr'
    simp only [Disk.reset, closeAllReaders] at hr'
    obtain ⟨y, _, rfl⟩ := List.mem_map.mp hr'
    exact ROk_of_closed (close_isOpen y)

/-! ### snapshot writer -/

theorem AofOk_congr {s s' : Disk} {r : DReader} (hall : s'.all = s.all)
    (hb : s'.hbase = s.hbase) (hh : s'.hist = s.hist) (h : AofOk s r) : AofOk s' r := by
  unfold AofOk at *
  rw [hall, hb, hh]; exact h

theorem DInv.rdbAppend {s : Disk} (h : DInv s) (chunk : Bytes)
    (hok : s.okOp (.rdbAppend chunk)) : DInv (s.step (.rdbAppend chunk)).1 := by
  obtain ⟨hne, hsz⟩ := hok
  simp only [Disk.step]
  cases hr : s.rdb with
  | none => simpa using h
  | some r =>
    simp only []
    by_cases hw : r.writing = true
    · simp only [hw, if_true]
      have hshape := h.rdbShape r hr
      have hlen : r.data.length + chunk.length ≤ r.size := by
        rw [hr] at hsz; exact hsz hw
      have hclen : 0 < chunk.length := List.length_pos_iff.mpr hne
      -- the two outcomes share everything but the flags
      have key : ∀ (r2 : DRdb), r2.left = r.left → r2.data = r.data ++ chunk →
          (0 < r2.size ∧ (r2.writing = true → r2.final = false ∧ r2.data.length < r2.size) ∧
            (r2.writing = false → r2.final = true ∧ r2.data.length = r2.size)) →
          DInv { s with rdb := some r2 } := by
        intro r2 hl hd hsh
        constructor
        · exact h.contig
        · exact h.nonempty
        · exact h.embed
        · exact h.lastEnd
        · intro r' l hr' hl'
          simp at hr'; subst hr'
          rw [hl]; exact h.rdbAlign r l hr hl'
        · intro r' hr'; simp at hr'; subst hr'; exact hsh
        · exact h.ids
        · intro x hx ho
          obtain ⟨h1, h2⟩ := h.readersOk x hx ho
          refine ⟨fun ha => AofOk_congr rfl rfl rfl (h1 ha), fun ha => ?_⟩
          obtain ⟨rd, hrd, hp, hout⟩ := h2 ha
          rw [hr] at hrd; cases hrd
          refine ⟨r2, rfl, ?_, ?_⟩
          · rw [hd]; simp; omega
          · rw [hd, List.take_append_of_le_length hp]; exact hout
      split
      · rename_i heq
        apply key
        · rfl
        · rfl
        · simp at heq ⊢
          exact ⟨hshape.1, heq⟩
      · rename_i hneq
        apply key
        · rfl
        · rfl
        · simp at hneq ⊢
          exact ⟨hshape.1, (hshape.2.1 hw).1, by omega⟩
    · simp only [hw]
      simpa using h

theorem DInv.rdbClose {s : Disk} (h : DInv s) : DInv (s.step .rdbClose).1 := by
  simp only [Disk.step]
  cases hr : s.rdb with
  | none => simpa using h
  | some r =>
    simp only []
    by_cases hw : r.writing = true
    · simp only [hw, if_true]
      constructor
      · exact h.contig
      · exact h.nonempty
      · exact h.embed
      · exact h.lastEnd
      · intro r' l hr'; simp at hr'
      · intro r' hr'; simp at hr'
      · show ((closeRdbReaders s.readers).map (·.id)).Nodup
        unfold closeRdbReaders
        rw [map_ids_of_id_pres]; exact h.ids
        intro x; split <;> rfl
      · intro x hx
        simp only [closeRdbReaders] at hx
        obtain ⟨y, hy, rfl⟩ := List.mem_map.mp hx
        by_cases ha : y.isAof = true
        · simp only [ha, if_true]
          intro ho
          obtain ⟨h1, _⟩ := h.readersOk y hy ho
          exact ⟨fun _ => AofOk_congr rfl rfl rfl (h1 ha), fun hf => by rw [ha] at hf; cases hf⟩
        · simp only [ha]
          exact ROk_of_closed (close_isOpen y)
    · simp only [hw]
      simpa using h

/-! ### stream writer -/

theorem firstLeft_append_of_ne {l : List DSeg} (m : List DSeg) (h : l ≠ []) :
    firstLeft (l ++ m) = firstLeft l := by
  cases l with
  | nil => exact absurd rfl h
  | cons a t => rfl

theorem holds_of_cur {r : DReader} (ho : r.isOpen = true) (ha : r.isAof = true) :
    r.holds r.cur = true := by simp [DReader.holds, ho, ha]

theorem holds_of_prev {r : DReader} {p : Nat} (ho : r.isOpen = true) (ha : r.isAof = true)
    (hp : r.prev = some p) : r.holds p = true := by simp [DReader.holds, ho, ha, hp]

theorem DInv.closeLive {s : Disk} (h : DInv s) : DInv s.closeLive := by
  unfold Disk.closeLive
  cases hl : s.live with
  | none => simpa [hl] using h
  | some g =>
    simp only []
    have hall : s.all = s.segs ++ [g] := by simp [Disk.all, hl]
    by_cases he : g.data.isEmpty = true
    · simp only [he, if_true]
      have hge : g.data = [] := List.isEmpty_iff.mp he
      have hcs : Contig s.segs := by
        have := h.contig; rw [hall] at this
        exact ((contig_append_single _ _).mp this).1
      have hlast : ∀ r, lastRight s.segs = some r → r = g.left := by
        have := h.contig; rw [hall] at this
        exact ((contig_append_single _ _).mp this).2
      have hgend : g.right = s.hbase + s.hist.length := by
        apply h.lastEnd; rw [hall, lastRight_append_single]
      constructor
      · simpa [Disk.all] using hcs
      · exact h.nonempty
      · intro x hx
        apply h.embed; rw [hall]; simp [Disk.all] at hx; simp [hx]
      · intro r hr
        simp [Disk.all] at hr
        have := hlast r hr
        simp only [DSeg.right, hge, List.length_nil] at hgend
        dsimp only
        omega
      · intro r l hr hfl
        apply h.rdbAlign r l hr
        simp [Disk.all] at hfl
        rw [hall, firstLeft_append_of_ne]; exact hfl
        intro hnil; rw [hnil] at hfl; simp [firstLeft] at hfl
      · exact h.rdbShape
      · show ((closeReadersOn g.left s.readers).map (·.id)).Nodup
        unfold closeReadersOn
        rw [map_ids_of_id_pres]; exact h.ids
        intro x; split <;> rfl
      · intro x hx
        simp only [closeReadersOn] at hx
        obtain ⟨y, hy, rfl⟩ := List.mem_map.mp hx
        by_cases hh : y.holds g.left = true
        · simp only [hh, if_true]; exact ROk_of_closed (close_isOpen y)
        · simp only [hh]
          intro ho
          obtain ⟨h1, h2⟩ := h.readersOk y hy ho
          refine ⟨fun ha => ?_, fun ha => ?_⟩
          · obtain ⟨⟨g0, hg0, hc0, hb0⟩, hprev, hrest⟩ := h1 ha
            refine ⟨⟨g0, ?_, hc0, hb0⟩, ?_, hrest⟩
            · rw [hall] at hg0
              rcases List.mem_append.mp hg0 with hm | hm
              · simpa [Disk.all] using hm
              · simp at hm; subst hm
                exact absurd (hc0 ▸ holds_of_cur ho ha) hh
            · intro p hp
              obtain ⟨g1, hg1, hl1⟩ := hprev p hp
              refine ⟨g1, ?_, hl1⟩
              rw [hall] at hg1
              rcases List.mem_append.mp hg1 with hm | hm
              · simpa [Disk.all] using hm
              · simp at hm; subst hm
                exact absurd (hl1 ▸ holds_of_prev ho ha hp) hh
          · exact h2 ha
    · simp only [he, Bool.false_eq_true, if_false]
      have hgne : g.data ≠ [] := by
        intro hh; rw [hh] at he; simp at he
      have hall' : ({ s with segs := s.segs ++ [g], live := none } : Disk).all = s.all := by
        simp [Disk.all, hl]
      constructor
      · rw [hall']; exact h.contig
      · intro x hx
        simp at hx
        rcases hx with hx | hx
        · exact h.nonempty x hx
        · subst hx; exact hgne
      · rw [hall']; exact h.embed
      · rw [hall']; exact h.lastEnd
      · rw [hall']; exact h.rdbAlign
      · exact h.rdbShape
      · exact h.ids
      · intro x hx; exact ROk_congr hall' rfl rfl rfl (h.readersOk x hx)

theorem closeLive_live (s : Disk) : s.closeLive.live = none := by
  unfold Disk.closeLive
  cases hl : s.live with
  | none => simp [hl]
  | some g => simp only []; split <;> rfl

theorem closeLive_hist (s : Disk) : s.closeLive.hbase = s.hbase ∧ s.closeLive.hist = s.hist ∧
    s.closeLive.rdb = s.rdb := by
  unfold Disk.closeLive
  cases hl : s.live with
  | none => simp
  | some g => simp only []; split <;> simp

theorem DInv.newAofWriter {s : Disk} (h : DInv s) (off : Nat) (hok : s.okOp (.newAofWriter off)) :
    DInv (s.step (.newAofWriter off)).1 := by
  have h1 := h.closeLive
  have hlive := closeLive_live s
  obtain ⟨hhb, hhh, hhr⟩ := closeLive_hist s
  have hall1 : s.closeLive.all = s.closeLive.segs := by simp [Disk.all, hlive]
  simp only [Disk.okOp] at hok
  simp only [Disk.step]
  -- the new state
  generalize hs1 : s.closeLive = s1 at *
  cases hlr : lastRight s1.segs with
  | some r =>
    -- continuing the held stream
    rw [hlr] at hok
    have hro : r = off := by simpa using hok.symm
    subst hro
    have hne : s1.segs ≠ [] := by intro hh; rw [hh] at hlr; simp [lastRight] at hlr
    simp only [beq_self_eq_true, if_true]
    have hend : r = s1.hbase + s1.hist.length := h1.lastEnd r (by rw [hall1]; exact hlr)
    constructor
    · show Contig (s1.segs ++ [({ left := r, data := [] } : DSeg)])
      rw [contig_append_single]
      refine ⟨by rw [← hall1]; exact h1.contig, ?_⟩
      intro r' hr'; rw [hlr] at hr'; cases hr'; rfl
    · exact h1.nonempty
    · intro g hg
      have hg' : g ∈ s1.segs ++ [({ left := r, data := [] } : DSeg)] := hg
      show s.hbase ≤ g.left ∧ g.right ≤ s.hbase + s.hist.length ∧
        g.data = (s.hist.drop (g.left - s.hbase)).take g.data.length
      rw [← hhb, ← hhh]
      rcases List.mem_append.mp hg' with hm | hm
      · exact h1.embed g (by rw [hall1]; exact hm)
      · simp at hm; subst hm
        simp [DSeg.right]; omega
    · intro r' hr'
      have : lastRight (s1.segs ++ [({ left := r, data := [] } : DSeg)]) = some r' := hr'
      rw [lastRight_append_single] at this
      simp [DSeg.right] at this
      show r' = s.hbase + s.hist.length
      rw [← hhb, ← hhh]; omega
    · intro rd l hrd hfl
      have hfl' : firstLeft (s1.segs ++ [({ left := r, data := [] } : DSeg)]) = some l := hfl
      rw [firstLeft_append_of_ne _ hne] at hfl'
      exact h1.rdbAlign rd l hrd (by rw [hall1]; exact hfl')
    · exact h1.rdbShape
    · show ((closeAofReaders s1.readers).map (·.id)).Nodup
      unfold closeAofReaders
      rw [map_ids_of_id_pres]; exact h1.ids
      intro x; split <;> rfl
    · intro x hx
      have hx' : x ∈ closeAofReaders s1.readers := hx
      simp only [closeAofReaders] at hx'
      obtain ⟨y, hy, rfl⟩ := List.mem_map.mp hx'
      by_cases ha : y.isAof = true
      · simp only [ha, if_true]; exact ROk_of_closed (close_isOpen y)
      · simp only [ha]
        intro ho
        obtain ⟨_, h2⟩ := h1.readersOk y hy ho
        refine ⟨fun hf => absurd hf ha, fun hf => ?_⟩
        exact h2 hf
  | none =>
    -- nothing held: a new history starts at `off`
    rw [hlr] at hok
    have hnil : s1.segs = [] := lastRight_eq_none.mp hlr
    simp only [Bool.false_eq_true, if_false]
    constructor
    · show Contig (s1.segs ++ [({ left := off, data := [] } : DSeg)])
      rw [hnil]; trivial
    · exact h1.nonempty
    · intro g hg
      have hg' : g ∈ s1.segs ++ [({ left := off, data := [] } : DSeg)] := hg
      rw [hnil] at hg'; simp at hg'; subst hg'
      simp [DSeg.right]
    · intro r' hr'
      have : lastRight (s1.segs ++ [({ left := off, data := [] } : DSeg)]) = some r' := hr'
      rw [lastRight_append_single] at this
      simp [DSeg.right] at this
      show r' = off + ([] : Bytes).length
      simp; omega
    · intro rd l hrd hfl
      have hfl' : firstLeft (s1.segs ++ [({ left := off, data := [] } : DSeg)]) = some l := hfl
      rw [hnil] at hfl'; simp [firstLeft] at hfl'
      have hrd' : s.rdb = some rd := by rw [← hhr]; exact hrd
      rw [hrd'] at hok
      simp at hok; omega
    · exact h1.rdbShape
    · show ((closeAofReaders s1.readers).map (·.id)).Nodup
      unfold closeAofReaders
      rw [map_ids_of_id_pres]; exact h1.ids
      intro x; split <;> rfl
    · intro x hx
      have hx' : x ∈ closeAofReaders s1.readers := hx
      simp only [closeAofReaders] at hx'
      obtain ⟨y, hy, rfl⟩ := List.mem_map.mp hx'
      by_cases ha : y.isAof = true
      · simp only [ha, if_true]; exact ROk_of_closed (close_isOpen y)
      · simp only [ha]
        intro ho
        obtain ⟨_, h2⟩ := h1.readersOk y hy ho
        refine ⟨fun hf => absurd hf ha, fun hf => ?_⟩
        exact h2 hf

/-- what an append does to a reader's obligations: the history only grows -/
theorem AofOk_append {s s' : Disk} {r : DReader} (chunk : Bytes)
    (hb : s'.hbase = s.hbase) (hh : s'.hist = s.hist ++ chunk)
    (hsegs : ∀ g ∈ s.all, ∃ g' ∈ s'.all, g'.left = g.left ∧ g.right ≤ g'.right)
    (hbound : ∀ g ∈ s.all, g.right ≤ s.hbase + s.hist.length)
    (h : AofOk s r) : AofOk s' r := by
  obtain ⟨⟨g, hg, hc, hl, hr⟩, hprev, hs, hp, hout⟩ := h
  refine ⟨?_, ?_, by rw [hb]; exact hs, hp, ?_⟩
  · obtain ⟨g', hg', hl', hr'⟩ := hsegs g hg
    exact ⟨g', hg', by rw [hl']; exact hc, by rw [hl']; exact hl, by omega⟩
  · intro p hp'
    obtain ⟨g1, hg1, hl1⟩ := hprev p hp'
    obtain ⟨g', hg', hl', _⟩ := hsegs g1 hg1
    exact ⟨g', hg', by rw [hl']; exact hl1⟩
  · rw [hb, hh, take_drop_append_of_le]
    · exact hout
    · have := hbound g hg; omega

theorem DInv.appendLive {s : Disk} (h : DInv s) (chunk : Bytes) (hcne : chunk ≠ []) :
    DInv (s.appendLive chunk).1 := by
  unfold Disk.appendLive
  split
  · exact h
  · rename_i g hl
    have hall : s.all = s.segs ++ [g] := by simp [Disk.all, hl]
    have hgend : g.right = s.hbase + s.hist.length := by
      apply h.lastEnd; rw [hall, lastRight_append_single]
    have hgemb := h.embed g (by rw [hall]; simp)
    have hcs : Contig s.segs ∧ (∀ r, lastRight s.segs = some r → r = g.left) := by
      have := h.contig; rw [hall] at this
      exact (contig_append_single _ _).mp this
    -- the grown segment is embedded in the grown history
    have hgrow : (g.data ++ chunk) =
        ((s.hist ++ chunk).drop (g.left - s.hbase)).take (g.data ++ chunk).length := by
      have h1 : g.left - s.hbase + g.data.length = s.hist.length := by
        simp only [DSeg.right] at hgend; omega
      have h2 : g.data = s.hist.drop (g.left - s.hbase) := by
        rw [hgemb.2.2, List.take_of_length_le]
        simp; omega
      rw [List.drop_append_of_le_length (by omega), ← h2, List.take_of_length_le (by simp)]
    have hold : ∀ x ∈ s.segs, s.hbase ≤ x.left ∧ x.right ≤ s.hbase + (s.hist ++ chunk).length ∧
        x.data = ((s.hist ++ chunk).drop (x.left - s.hbase)).take x.data.length := by
      intro x hx
      obtain ⟨e1, e2, e3⟩ := h.embed x (by rw [hall]; simp [hx])
      refine ⟨e1, by simp; omega, ?_⟩
      rw [take_drop_append_of_le]
      · exact e3
      · simp only [DSeg.right] at e2; omega
    have hbound : ∀ x ∈ s.all, x.right ≤ s.hbase + s.hist.length := fun x hx => (h.embed x hx).2.1
    simp only []
    split
    · -- rotation
      rename_i hrot
      simp only []
      constructor
      · show Contig ((s.segs ++ [{ g with data := g.data ++ chunk }]) ++
            [({ left := ({ g with data := g.data ++ chunk } : DSeg).right, data := [] } : DSeg)])
        rw [contig_append_single, contig_append_single]
        refine ⟨⟨hcs.1, hcs.2⟩, ?_⟩
        intro r hr; rw [lastRight_append_single] at hr; cases hr; rfl
      · intro x hx
        have hx' : x ∈ s.segs ++ [{ g with data := g.data ++ chunk }] := hx
        rcases List.mem_append.mp hx' with hm | hm
        · exact h.nonempty x hm
        · simp at hm; subst hm
          simp; intro _; exact hcne
      · intro x hx
        have hx' : x ∈ (s.segs ++ [{ g with data := g.data ++ chunk }]) ++
            [({ left := ({ g with data := g.data ++ chunk } : DSeg).right, data := [] } : DSeg)] := hx
        show s.hbase ≤ x.left ∧ x.right ≤ s.hbase + (s.hist ++ chunk).length ∧
          x.data = ((s.hist ++ chunk).drop (x.left - s.hbase)).take x.data.length
        rcases List.mem_append.mp hx' with hm | hm
        · rcases List.mem_append.mp hm with hm | hm
          · exact hold x hm
          · simp at hm; subst hm
            refine ⟨hgemb.1, ?_, hgrow⟩
            simp only [DSeg.right] at hgend ⊢
            simp; omega
        · simp at hm; subst hm
          simp only [DSeg.right] at hgend ⊢
          simp; omega
      · intro r hr
        have hr' : lastRight ((s.segs ++ [{ g with data := g.data ++ chunk }]) ++
            [({ left := ({ g with data := g.data ++ chunk } : DSeg).right, data := [] } : DSeg)]) = some r := hr
        rw [lastRight_append_single] at hr'
        show r = s.hbase + (s.hist ++ chunk).length
        simp only [DSeg.right] at hgend hr'
        simp at hr' ⊢; omega
      · intro rd l hrd hfl
        apply h.rdbAlign rd l hrd
        have hfl' : firstLeft ((s.segs ++ [{ g with data := g.data ++ chunk }]) ++
            [({ left := ({ g with data := g.data ++ chunk } : DSeg).right, data := [] } : DSeg)]) = some l := hfl
        rw [hall]
        cases hsg : s.segs with
        | nil => rw [hsg] at hfl'; simpa [firstLeft] using hfl'
        | cons a t => rw [hsg] at hfl'; simpa [firstLeft] using hfl'
      · exact h.rdbShape
      · exact h.ids
      · intro x hx ho
        obtain ⟨h1, h2⟩ := h.readersOk x hx ho
        refine ⟨fun ha => ?_, fun ha => h2 ha⟩
        refine AofOk_append (s := s) chunk ?_ ?_ ?_ hbound (h1 ha)
        · rfl
        · rfl
        intro y hy
        rw [hall] at hy
        rcases List.mem_append.mp hy with hm | hm
        · exact ⟨y, by simp [Disk.all]; left; exact hm, rfl, Nat.le_refl _⟩
        · simp at hm; subst hm
          refine ⟨{ y with data := y.data ++ chunk }, by simp [Disk.all], rfl, ?_⟩
          simp [DSeg.right]
    · -- no rotation
      simp only []
      constructor
      · show Contig (s.segs ++ [{ g with data := g.data ++ chunk }])
        rw [contig_append_single]
        exact ⟨hcs.1, hcs.2⟩
      · exact h.nonempty
      · intro x hx
        have hx' : x ∈ s.segs ++ [{ g with data := g.data ++ chunk }] := hx
        show s.hbase ≤ x.left ∧ x.right ≤ s.hbase + (s.hist ++ chunk).length ∧
          x.data = ((s.hist ++ chunk).drop (x.left - s.hbase)).take x.data.length
        rcases List.mem_append.mp hx' with hm | hm
        · exact hold x hm
        · simp at hm; subst hm
          refine ⟨hgemb.1, ?_, hgrow⟩
          simp only [DSeg.right] at hgend ⊢
          simp; omega
      · intro r hr
        have hr' : lastRight (s.segs ++ [{ g with data := g.data ++ chunk }]) = some r := hr
        rw [lastRight_append_single] at hr'
        show r = s.hbase + (s.hist ++ chunk).length
        simp only [DSeg.right] at hgend hr'
        simp at hr' ⊢; omega
      · intro rd l hrd hfl
        apply h.rdbAlign rd l hrd
        have hfl' : firstLeft (s.segs ++ [{ g with data := g.data ++ chunk }]) = some l := hfl
        rw [hall]
        cases hsg : s.segs with
        | nil => rw [hsg] at hfl'; simpa [firstLeft] using hfl'
        | cons a t => rw [hsg] at hfl'; simpa [firstLeft] using hfl'
      · exact h.rdbShape
      · exact h.ids
      · intro x hx ho
        obtain ⟨h1, h2⟩ := h.readersOk x hx ho
        refine ⟨fun ha => ?_, fun ha => h2 ha⟩
        refine AofOk_append (s := s) chunk ?_ ?_ ?_ hbound (h1 ha)
        · rfl
        · rfl
        intro y hy
        rw [hall] at hy
        rcases List.mem_append.mp hy with hm | hm
        · exact ⟨y, by simp [Disk.all]; left; exact hm, rfl, Nat.le_refl _⟩
        · simp at hm; subst hm
          refine ⟨{ y with data := y.data ++ chunk }, by simp [Disk.all], rfl, ?_⟩
          simp [DSeg.right]

theorem DInv.aofAppend {s : Disk} (h : DInv s) (chunk : Bytes) (hok : s.okOp (.aofAppend chunk)) :
    DInv (s.step (.aofAppend chunk)).1 := by
  have hcne : chunk ≠ [] := hok
  have := h.appendLive chunk hcne
  simp only [Disk.step]
  cases hp : s.appendLive chunk with
  | mk s' ok =>
    rw [hp] at this
    cases ok with
    | true => simpa using this
    | false => simpa using h

/-! ### collector -/

theorem dropUnref_suffix (rs : List DReader) (k : Nat) (segs : List DSeg) :
    ∃ pre, segs = pre ++ dropUnref rs k segs ∧ ∀ g ∈ pre, readerRefs rs g.left = 0 := by
  induction segs generalizing k with
  | nil => exact ⟨[], by cases k <;> simp [dropUnref], by simp⟩
  | cons a t ih =>
    cases k with
    | zero => exact ⟨[], by simp [dropUnref], by simp⟩
    | succ k =>
      simp only [dropUnref]
      by_cases href : readerRefs rs a.left > 0
      · simp only [href, if_true]; exact ⟨[], by simp, by simp⟩
      · simp only [href]
        obtain ⟨pre, hp, hz⟩ := ih k
        refine ⟨a :: pre, by simp; exact hp, ?_⟩
        intro g hg
        rcases List.mem_cons.mp hg with h | h
        · subst h; omega
        · exact hz g h

theorem gcScanRev_pos (max : Nat) (l : List DSeg) (size : Nat) :
    (gcScanRev max l size).1 > 0 → (gcScanRev max l size).2 > max := by
  induction l generalizing size with
  | nil => simp [gcScanRev]
  | cons a t ih =>
    simp only [gcScanRev]
    split
    · intro _; assumption
    · exact ih _

theorem readerRefs_pos_of_cur {rs : List DReader} {r : DReader} (hr : r ∈ rs) (ho : r.isOpen = true)
    (ha : r.isAof = true) : readerRefs rs r.cur > 0 := by
  unfold readerRefs
  have : 0 < (rs.filter (fun x => x.isOpen && x.isAof && x.cur == r.cur)).length :=
    List.length_filter_pos_iff.mpr ⟨r, hr, by simp [ho, ha]⟩
  omega

theorem readerRefs_pos_of_prev {rs : List DReader} {r : DReader} {p : Nat} (hr : r ∈ rs)
    (ho : r.isOpen = true) (ha : r.isAof = true) (hp : r.prev = some p) : readerRefs rs p > 0 := by
  unfold readerRefs
  have : 0 < (rs.filter (fun x => x.isOpen && x.isAof && x.prev == some p)).length :=
    List.length_filter_pos_iff.mpr ⟨r, hr, by simp [ho, ha, hp]⟩
  omega

/-- dropping an unreferenced prefix of the closed segments keeps the invariant -/
theorem DInv.dropPrefix {s : Disk} (h : DInv s) (pre segs' : List DSeg) (rdb' : Option DRdb)
    (hsegs : s.segs = pre ++ segs') (hz : ∀ g ∈ pre, readerRefs s.readers g.left = 0)
    (hrdb : rdb' = s.rdb ∨ (rdb' = none ∧ ∀ r, s.rdb = some r → rdbReaderRefs s.readers = 0))
    (halign : rdb' = none ∨ pre = []) :
    DInv { s with segs := segs', rdb := rdb' } := by
  have hall : s.all = pre ++ ({ s with segs := segs', rdb := rdb' } : Disk).all := by
    simp [Disk.all, hsegs]
  constructor
  · exact contig_suffix pre _ (hall ▸ h.contig)
  · intro g hg; exact h.nonempty g (by rw [hsegs]; simp; right; exact hg)
  · intro g hg; exact h.embed g (by rw [hall]; simp; right; exact hg)
  · intro r hr
    apply h.lastEnd
    rw [hall, lastRight_suffix]
    · exact hr
    · intro hnil; rw [hnil] at hr; simp [lastRight] at hr
  · intro r l hr hfl
    rcases halign with hn | hp
    · rw [hn] at hr; simp at hr
    · subst hp
      simp at hall hsegs
      rcases hrdb with hr1 | hr1
      · apply h.rdbAlign r l (by rw [← hr1]; exact hr)
        rw [hall]; exact hfl
      · rw [hr1.1] at hr; simp at hr
  · intro r hr
    rcases hrdb with hr1 | hr1
    · exact h.rdbShape r (by rw [← hr1]; exact hr)
    · rw [hr1.1] at hr; simp at hr
  · exact h.ids
  · intro x hx ho
    obtain ⟨h1, h2⟩ := h.readersOk x hx ho
    refine ⟨fun ha => ?_, fun ha => ?_⟩
    · obtain ⟨⟨g0, hg0, hc0, hb0⟩, hprev, hrest⟩ := h1 ha
      have keep : ∀ g1 ∈ s.all, readerRefs s.readers g1.left > 0 →
          g1 ∈ ({ s with segs := segs', rdb := rdb' } : Disk).all := by
        intro g1 hg1 hpos
        rw [hall] at hg1
        rcases List.mem_append.mp hg1 with hm | hm
        · have := hz g1 hm; omega
        · exact hm
      refine ⟨⟨g0, keep g0 hg0 ?_, hc0, hb0⟩, ?_, hrest⟩
      · rw [hc0]; exact readerRefs_pos_of_cur hx ho ha
      · intro p hp
        obtain ⟨g1, hg1, hl1⟩ := hprev p hp
        exact ⟨g1, keep g1 hg1 (by rw [hl1]; exact readerRefs_pos_of_prev hx ho ha hp), hl1⟩
    · obtain ⟨rd, hrd, hrest⟩ := h2 ha
      rcases hrdb with hr1 | hr1
      · exact ⟨rd, by rw [hr1]; exact hrd, hrest⟩
      · have hzero := hr1.2 rd hrd
        unfold rdbReaderRefs at hzero
        have : 0 < (s.readers.filter (fun r => r.isOpen && !r.isAof)).length :=
          List.length_filter_pos_iff.mpr ⟨x, hx, by simp [ho, ha]⟩
        omega

theorem DInv.gc {s : Disk} (h : DInv s) : DInv s.gc := by
  unfold Disk.gc
  by_cases hm : s.maxSize = 0
  · simp only [hm, if_true]; exact h
  · simp only [hm, if_false]
    generalize hk : gcScanRev s.maxSize s.all.reverse 0 = ks
    obtain ⟨k, size⟩ := ks
    simp only []
    obtain ⟨pre, hp, hz⟩ := dropUnref_suffix s.readers k s.segs
    cases hr : s.rdb with
    | none =>
      simp only []
      exact h.dropPrefix pre (dropUnref s.readers k s.segs) none hp hz (Or.inl hr.symm) (Or.inl rfl)
    | some r =>
      simp only []
      by_cases hbig : size + r.size > s.maxSize
      · simp only [hbig, if_true]
        by_cases href : rdbRef s.readers r = 0
        · simp only [href, if_true]
          have := h.dropPrefix pre (dropUnref s.readers k s.segs) none hp hz
            (Or.inr ⟨rfl, fun r' hr' => by
              rw [hr] at hr'; cases hr'
              unfold rdbRef at href; omega⟩) (Or.inl rfl)
          exact this
        · simp only [href, if_false]; exact h
      · simp only [hbig, if_false]
        -- nothing was over the limit: the scan selected no segment
        have hk0 : k = 0 := by
          have := gcScanRev_pos s.maxSize s.all.reverse 0
          rw [hk] at this
          simp only [] at this
          by_cases hkz : k = 0
          · exact hkz
          · have := this (by omega); omega
        subst hk0
        have hd : dropUnref s.readers 0 s.segs = s.segs := by
          cases s.segs <;> rfl
        rw [hd]
        exact h.dropPrefix [] s.segs (some r) (by simp) (by simp) (Or.inl hr.symm) (Or.inr rfl)

/-! ### readers -/

theorem indexAof_some {segs : List DSeg} {off : Nat} {g : DSeg} (h : indexAof segs off = some g) :
    g ∈ segs ∧ g.left ≤ off ∧ off ≤ g.right := by
  unfold indexAof at h
  have h1 := List.mem_of_find?_eq_some h
  have h2 := List.find?_some h
  simp at h1 h2
  exact ⟨h1, h2.1, h2.2⟩

/-- adding a reader that satisfies its obligations -/
theorem DInv.pushReader {s : Disk} (h : DInv s) (r : DReader) (hid : r.id ∉ s.readers.map (·.id))
    (hr : ROk s r) : DInv { s with readers := s.readers ++ [r] } := by
  constructor
  · exact h.contig
  · exact h.nonempty
  · exact h.embed
  · exact h.lastEnd
  · exact h.rdbAlign
  · exact h.rdbShape
  · show ((s.readers ++ [r]).map (·.id)).Nodup
    rw [List.map_append, List.nodup_append]
    refine ⟨h.ids, by simp, ?_⟩
    intro a ha b hb
    simp at hb; subst hb
    intro e; subst e; exact hid ha
  · intro x hx
    have hx' : x ∈ s.readers ++ [r] := hx
    rcases List.mem_append.mp hx' with hm | hm
    · exact ROk_congr rfl rfl rfl rfl (h.readersOk x hm)
    · simp at hm; subst hm; exact ROk_congr rfl rfl rfl rfl hr

theorem DInv.openReader {s : Disk} (h : DInv s) (rid off : Nat) (crcOk : Bool) :
    DInv (s.open rid off crcOk).1 := by
  unfold Disk.open
  cases hf : findReader s.readers rid with
  | some r0 => simpa using h
  | none =>
    have hid := findReader_none hf
    simp only [Option.isSome_none, Bool.false_eq_true, if_false]
    split
    · exact h
    · cases hi : indexAof s.all off with
      | some g =>
        simp only []
        obtain ⟨hg, hl, hr⟩ := indexAof_some hi
        apply h.pushReader _ hid
        intro _
        refine ⟨fun _ => ?_, fun hf => by simp at hf⟩
        refine ⟨⟨g, hg, rfl, hl, hr⟩, by simp, ?_, Nat.le_refl _, by simp⟩
        have := (h.embed g hg).1
        show s.hbase ≤ off
        omega
      | none =>
        simp only []
        cases hrd : s.rdb with
        | none => simpa using h
        | some rd =>
          simp only []
          split
          · split
            · exact h
            · show DInv { s with rdb := some rd, readers := s.readers ++ [_] }
              rw [← hrd]
              apply h.pushReader _ hid
              intro _
              refine ⟨fun hf => by simp at hf, fun _ => ?_⟩
              exact ⟨rd, hrd, by simp, by simp⟩
          · exact h

/-- replacing reader `r0` by an updated version that satisfies its obligations -/
theorem DInv.replaceReader {s : Disk} (h : DInv s) (r0 r : DReader) (hm : r0 ∈ s.readers)
    (hid : r.id = r0.id) (hr : ROk s r) : DInv { s with readers := setReader s.readers r } := by
  constructor
  · exact h.contig
  · exact h.nonempty
  · exact h.embed
  · exact h.lastEnd
  · exact h.rdbAlign
  · exact h.rdbShape
  · show ((setReader s.readers r).map (·.id)).Nodup
    rw [setReader_ids]; exact h.ids
  · intro x hx
    rcases mem_setReader hx with he | ⟨hx', _⟩
    · subst he; exact ROk_congr rfl rfl rfl rfl hr
    · exact ROk_congr rfl rfl rfl rfl (h.readersOk x hx')

theorem DInv.closeReader {s : Disk} (h : DInv s) (rid : Nat) : DInv (s.closeReader rid).1 := by
  unfold Disk.closeReader
  cases hf : findReader s.readers rid with
  | none => simpa using h
  | some r =>
    simp only []
    obtain ⟨hm, _⟩ := findReader_some hf
    exact h.replaceReader r r.close hm rfl (ROk_of_closed rfl)

theorem DInv.advRelease {s : Disk} (h : DInv s) (rid : Nat) : DInv (s.advRelease rid).1 := by
  unfold Disk.advRelease
  cases hf : findReader s.readers rid with
  | none => simpa using h
  | some r =>
    simp only []
    obtain ⟨hm, _⟩ := findReader_some hf
    split
    · refine h.replaceReader r _ hm ?_ ?_
      · rfl
      intro ho
      have ho : r.isOpen = true := ho
      obtain ⟨h1, h2⟩ := h.readersOk r hm ho
      refine ⟨fun ha => ?_, fun ha => h2 ha⟩
      obtain ⟨hc, _, hrest⟩ := h1 ha
      exact ⟨hc, by simp, hrest⟩
    · exact h

theorem DInv.advAcquire {s : Disk} (h : DInv s) (rid : Nat) : DInv (s.advAcquire rid).1 := by
  unfold Disk.advAcquire
  cases hf : findReader s.readers rid with
  | none => simpa using h
  | some r =>
    simp only []
    obtain ⟨hm, _⟩ := findReader_some hf
    split
    · rename_i hca
      unfold Disk.canAdvance at hca
      simp only [Bool.and_eq_true] at hca
      obtain ⟨⟨⟨⟨ho, ha⟩, _⟩, hcur⟩, hnext⟩ := hca
      refine h.replaceReader r _ hm ?_ ?_
      · rfl
      intro _
      obtain ⟨h1, _⟩ := h.readersOk r hm ho
      obtain ⟨⟨g0, hg0, hc0, hb0⟩, _, hs, hp, hout⟩ := h1 ha
      refine ⟨fun _ => ?_, fun hf' => by rw [ha] at hf'; cases hf'⟩
      cases hn : findSeg s.all r.pos with
      | none => rw [hn] at hnext; simp at hnext
      | some g2 =>
        obtain ⟨hg2, hl2⟩ := findSeg_some hn
        refine ⟨⟨g2, hg2, hl2, by show g2.left ≤ r.pos; omega, by show r.pos ≤ g2.right; simp only [DSeg.right]; omega⟩, ?_, hs, hp, hout⟩
        intro p hp'
        simp at hp'; subst hp'
        exact ⟨g0, hg0, hc0⟩
    · exact h

theorem DInv.read {s : Disk} (h : DInv s) (rid n : Nat) : DInv (s.read rid n).1 := by
  unfold Disk.read
  cases hf : findReader s.readers rid with
  | none => simpa using h
  | some r =>
    simp only []
    obtain ⟨hm, _⟩ := findReader_some hf
    by_cases ho : r.isOpen = true
    · simp only [ho, Bool.not_true, Bool.false_eq_true, if_false]
      obtain ⟨h1, h2⟩ := h.readersOk r hm ho
      by_cases ha : r.isAof = true
      · simp only [ha, if_true]
        obtain ⟨⟨g0, hg0, hc0, hl0, hr0⟩, hprev, hs, hp, hout⟩ := h1 ha
        have hfs : findSeg s.all r.cur = some g0 := by
          rw [← hc0]; exact findSeg_of_mem h.contig (all_initNonempty h.nonempty) hg0
        simp only [hfs]
        split
        · exact h
        · refine h.replaceReader r _ hm ?_ ?_
          · rfl
          intro _
          refine ⟨fun _ => ?_, fun hf' => by simp [ha] at hf'⟩
          obtain ⟨e1, e2, e3⟩ := h.embed g0 hg0
          have hlen : ((g0.data.drop (r.pos - g0.left)).take n).length ≤ g0.data.length - (r.pos - g0.left) := by
            simp; omega
          refine ⟨⟨g0, hg0, hc0, ?_, ?_⟩, hprev, hs, ?_, ?_⟩
          · show g0.left ≤ r.pos + _; omega
          · show r.pos + _ ≤ g0.right
            simp only [DSeg.right] at hr0 ⊢; omega
          · show r.start ≤ r.pos + _; omega
          · show r.out ++ _ = _
            -- the bytes read are the history's bytes at `pos`
            have hdrop : g0.data.drop (r.pos - g0.left) =
                (s.hist.drop (r.pos - s.hbase)).take (g0.data.length - (r.pos - g0.left)) := by
              conv => lhs; rw [e3]
              rw [List.drop_take, List.drop_drop]
              congr 2
              omega
            have hbs : (g0.data.drop (r.pos - g0.left)).take n =
                (s.hist.drop (r.pos - s.hbase)).take ((g0.data.drop (r.pos - g0.left)).take n).length := by
              rw [hdrop, List.take_take]
              exact take_eq_take_length _ _
            generalize hk : ((g0.data.drop (r.pos - g0.left)).take n).length = k at hbs ⊢
            rw [hout, hbs]
            have hidx : r.pos - s.hbase = (r.start - s.hbase) + (r.pos - r.start) := by omega
            rw [hidx, take_drop_glue]
            congr 1
            show r.pos - r.start + k = r.pos + k - r.start
            omega
      · have ha' : r.isAof = false := by simpa using ha
        simp only [ha', Bool.false_eq_true, if_false]
        obtain ⟨rd, hrd, hp, hout⟩ := h2 ha'
        simp only [hrd]
        split
        · exact h
        · show DInv { s with rdb := some rd, readers := setReader s.readers _ }
          rw [← hrd]
          refine h.replaceReader r _ hm ?_ ?_
          · rfl
          intro _
          refine ⟨fun hf' => by simp [ha'] at hf', fun _ => ?_⟩
          refine ⟨rd, hrd, ?_, ?_⟩
          · show r.pos + _ ≤ rd.data.length
            simp; omega
          · show r.out ++ (rd.data.drop r.pos).take n =
              rd.data.take (r.pos + ((rd.data.drop r.pos).take n).length)
            rw [hout, List.take_add]
            congr 1
            exact take_eq_take_length _ _
    · have ho' : r.isOpen = false := by simpa using ho
      simp only [ho', Bool.not_false, if_true]; exact h

/-! ### re-scan -/

theorem contigRun_of_contig {l : List DSeg} (hc : Contig l) : contigRun l = l := by
  induction l with
  | nil => rfl
  | cons a t ih =>
    cases t with
    | nil => rfl
    | cons b u =>
      have := ih hc.2
      simp only [contigRun, this]
      simp [hc.1]

theorem contigRun_suffix (l : List DSeg) : ∃ pre, l = pre ++ contigRun l := by
  induction l with
  | nil => exact ⟨[], rfl⟩
  | cons a t ih =>
    cases t with
    | nil => exact ⟨[], rfl⟩
    | cons b u =>
      obtain ⟨pre, hp⟩ := ih
      simp only [contigRun]
      split
      · rename_i hcond
        -- the whole tail was kept
        have hlen := hcond.1
        have : pre = [] := by
          have h2 := congrArg List.length hp
          rw [List.length_append] at h2
          exact List.eq_nil_of_length_eq_zero (by omega)
        subst this
        simp at hp
        exact ⟨[], by simp; exact hp⟩
      · exact ⟨a :: pre, by simp; exact hp⟩

theorem contigRun_contig (l : List DSeg) : Contig (contigRun l) := by
  induction l with
  | nil => trivial
  | cons a t ih =>
    cases t with
    | nil => trivial
    | cons b u =>
      simp only [contigRun]
      split
      · rename_i hcond
        -- kept everything: the run is `b :: u`
        obtain ⟨pre, hp⟩ := contigRun_suffix (b :: u)
        have : pre = [] := by
          have h2 := congrArg List.length hp
          rw [List.length_append] at h2
          have h3 := hcond.1
          exact List.eq_nil_of_length_eq_zero (by omega)
        subst this
        simp at hp
        rw [← hp]
        exact ⟨hcond.2, hp ▸ ih⟩
      · exact ih

theorem insertSeg_le_head (g : DSeg) (l : List DSeg) (h : ∀ x ∈ l, g.left ≤ x.left) :
    insertSeg g l = g :: l := by
  cases l with
  | nil => rfl
  | cons a t => simp [insertSeg, h a (by simp)]

theorem sortSegs_of_sorted {l : List DSeg} (hc : Contig l) (hn : InitNonempty l) : sortSegs l = l := by
  induction l with
  | nil => rfl
  | cons a t ih =>
    show insertSeg a (sortSegs t) = a :: t
    rw [ih hc.tail hn.tail]
    apply insertSeg_le_head
    intro x hx
    exact Nat.le_of_lt (contig_head_lt hc hn hx)

theorem rescan_eq_self {s : Disk} (h : DInv s) (hlive : s.live = none)
    (hrdb : ∀ r, s.rdb = some r → r.writing = false) : s.rescan = s := by
  have hall : s.all = s.segs := by simp [Disk.all, hlive]
  have hcs : Contig s.segs := hall ▸ h.contig
  have hin : InitNonempty s.segs := hall ▸ all_initNonempty h.nonempty
  have hfil : s.all.filter (fun g => !g.data.isEmpty) = s.segs := by
    rw [hall]
    apply List.filter_eq_self.mpr
    intro g hg
    have := h.nonempty g hg
    simp [List.isEmpty_iff]; exact this
  unfold Disk.rescan truncateGap
  simp only [hfil, sortSegs_of_sorted hcs hin, contigRun_of_contig hcs, Nat.lt_irrefl, if_false]
  cases hr : s.rdb with
  | none =>
    simp only []
    cases s; simp_all
  | some r =>
    have hw := hrdb r hr
    have hf := ((h.rdbShape r hr).2.2 hw).1
    simp only [hf, if_true]
    have hr' : ({ left := r.left, size := r.size, data := r.data, writing := false, final := true } : DRdb) = r := by
      cases r; simp_all
    rw [hr']
    cases hsg : s.segs with
    | nil =>
      simp only []
      cases s; simp_all
    | cons f t =>
      have : r.left = f.left := h.rdbAlign r f.left hr (by rw [hall, hsg]; rfl)
      simp only [this, if_true]
      cases s; simp_all

/-! ### replication-id switch -/

theorem DInv.closeReadersAll {s : Disk} (h : DInv s) : DInv { s with readers := closeAllReaders s.readers } := by
  constructor
  · exact h.contig
  · exact h.nonempty
  · exact h.embed
  · exact h.lastEnd
  · exact h.rdbAlign
  · exact h.rdbShape
  · show ((closeAllReaders s.readers).map (·.id)).Nodup
    unfold closeAllReaders
    rw [map_ids_of_id_pres _ _ close_id]; exact h.ids
  · intro r hr
    have hr' : r ∈ closeAllReaders s.readers := hr
    simp only [closeAllReaders] at hr'
    obtain ⟨y, _, rfl⟩ := List.mem_map.mp hr'
    exact ROk_of_closed (close_isOpen y)

theorem dropWritingRdb_fields (s : Disk) :
    s.dropWritingRdb.hbase = s.hbase ∧ s.dropWritingRdb.hist = s.hist ∧
    s.dropWritingRdb.readers = s.readers ∧ s.dropWritingRdb.segs = s.segs ∧ s.dropWritingRdb.live = s.live ∧
    (∀ r, s.dropWritingRdb.rdb = some r → r.writing = false) := by
  unfold Disk.dropWritingRdb
  cases hr : s.rdb with
  | none => simp [hr]
  | some r =>
    simp only []
    by_cases hw : r.writing = true
    · simp [hw]
    · have hw' : r.writing = false := by simpa using hw
      simp [hw', hr]

theorem closeAllForSwitch_hist (s : Disk) :
    s.closeAllForSwitch.hbase = s.hbase ∧ s.closeAllForSwitch.hist = s.hist := by
  unfold Disk.closeAllForSwitch
  obtain ⟨c1, c2, _⟩ := closeLive_hist ({ s with readers := closeAllReaders s.readers } : Disk).dropWritingRdb
  obtain ⟨d1, d2, _⟩ := dropWritingRdb_fields ({ s with readers := closeAllReaders s.readers } : Disk)
  exact ⟨by rw [c1, d1], by rw [c2, d2]⟩

theorem rescan_hist (s : Disk) : s.rescan.hbase = s.hbase ∧ s.rescan.hist = s.hist ∧ s.rescan.readers = s.readers := by
  simp only [Disk.rescan, truncateGap]
  repeat' split
  all_goals simp

theorem DInv.dropWritingRdb {s : Disk} (h : DInv s) (hro : ∀ r ∈ s.readers, r.isOpen = false) :
    DInv s.dropWritingRdb := by
  unfold Disk.dropWritingRdb
  cases hr : s.rdb with
  | none => simpa using h
  | some r =>
    simp only []
    by_cases hw : r.writing = true
    · simp only [hw, if_true]
      constructor
      · exact h.contig
      · exact h.nonempty
      · exact h.embed
      · exact h.lastEnd
      · intro r' l hr'; simp at hr'
      · intro r' hr'; simp at hr'
      · exact h.ids
      · intro x hx; exact ROk_of_closed (hro x hx)
    · simp only [hw]; exact h

theorem closeLive_readers_closed (s : Disk) (h : ∀ r ∈ s.readers, r.isOpen = false) :
    ∀ r ∈ s.closeLive.readers, r.isOpen = false := by
  intro r hr
  unfold Disk.closeLive at hr
  split at hr
  · exact h r hr
  · split at hr
    · simp only [closeReadersOn] at hr
      obtain ⟨y, hy, rfl⟩ := List.mem_map.mp hr
      split
      · rfl
      · exact h y hy
    · exact h r hr

theorem closeAllForSwitch_spec {s : Disk} (h : DInv s) :
    DInv s.closeAllForSwitch ∧ s.closeAllForSwitch.live = none ∧
      (∀ r, s.closeAllForSwitch.rdb = some r → r.writing = false) ∧
      s.closeAllForSwitch.hbase = s.hbase ∧ s.closeAllForSwitch.hist = s.hist ∧
      (∀ r ∈ s.closeAllForSwitch.readers, r.isOpen = false) := by
  unfold Disk.closeAllForSwitch
  generalize hs0 : ({ s with readers := closeAllReaders s.readers } : Disk) = s0
  have h0 : DInv s0 := hs0 ▸ h.closeReadersAll
  have hro : ∀ r ∈ s0.readers, r.isOpen = false := by
    rw [← hs0]
    intro r hr
    have hr' : r ∈ closeAllReaders s.readers := hr
    simp only [closeAllReaders] at hr'
    obtain ⟨y, _, rfl⟩ := List.mem_map.mp hr'
    rfl
  have hb : s0.hbase = s.hbase ∧ s0.hist = s.hist := by rw [← hs0]; exact ⟨rfl, rfl⟩
  obtain ⟨d1, d2, d3, _, _, d6⟩ := dropWritingRdb_fields s0
  have h1 := h0.dropWritingRdb hro
  obtain ⟨c1, c2, c3⟩ := closeLive_hist s0.dropWritingRdb
  refine ⟨h1.closeLive, closeLive_live _, ?_, by rw [c1, d1, hb.1], by rw [c2, d2, hb.2], ?_⟩
  · intro r hr; exact d6 r (c3 ▸ hr)
  · exact closeLive_readers_closed _ (by rw [d3]; exact hro)

/-! ### every step keeps the invariant -/

theorem DInv.step {s : Disk} (h : DInv s) (op : DOp) (hok : s.okOp op) : DInv (s.step op).1 := by
  cases op with
  | setRunId id =>
    simp only [Disk.step]
    split
    · exact h.reset.with_runId id
    · split
      · exact h
      · obtain ⟨hd, hl, hr, _, _, _⟩ := closeAllForSwitch_spec h
        rw [rescan_eq_self hd hl hr]
        exact hd.with_runId id
  | delRunId =>
    simp only [Disk.step]
    split
    · exact h
    · exact h.reset.with_runId ""
  | newRdbWriter off size => exact h.newRdbWriter off size hok
  | rdbAppend chunk => exact h.rdbAppend chunk hok
  | rdbClose => exact h.rdbClose
  | newAofWriter off => exact h.newAofWriter off hok
  | aofAppend chunk => exact h.aofAppend chunk hok
  | aofClose => exact h.closeLive
  | gc => exact h.gc
  | openReader rid off crcOk => exact h.openReader rid off crcOk
  | read rid n => exact h.read rid n
  | advAcquire rid => exact h.advAcquire rid
  | advRelease rid => exact h.advRelease rid
  | closeReader rid => exact h.closeReader rid

theorem DInv.run {s : Disk} (h : DInv s) (ops : List DOp) (hwf : s.wf ops) : DInv (s.run ops) := by
  induction ops generalizing s with
  | nil => exact h
  | cons op rest ih => exact ih (h.step op hwf.1) hwf.2

/-! ### the ghost history -/

theorem appendLive_spec (s : Disk) (chunk : Bytes) :
    (s.appendLive chunk = (s, false)) ∨
    ((s.appendLive chunk).2 = true ∧ (s.appendLive chunk).1.hbase = s.hbase ∧
      (s.appendLive chunk).1.hist = s.hist ++ chunk) := by
  unfold Disk.appendLive
  split
  · left; rfl
  · right; simp only []; split <;> simp

theorem appendLive_readers (s : Disk) (chunk : Bytes) : (s.appendLive chunk).1.readers = s.readers := by
  unfold Disk.appendLive
  split
  · rfl
  · simp only []; split <;> rfl

theorem hist_step (s : Disk) (op : DOp) :
    ((s.step op).1.hbase = s.hbase ∧ (s.step op).1.hist = s.hist) ∨
    (∃ chunk, op = .aofAppend chunk ∧ (s.step op).2 = .ok ∧
        (s.step op).1.hbase = s.hbase ∧ (s.step op).1.hist = s.hist ++ chunk) ∨
    (s.step op).1.hist = [] := by
  cases op with
  | aofAppend chunk =>
    rcases appendLive_spec s chunk with h | ⟨h1, h2, h3⟩
    · left; simp [Disk.step, h]
    · right; left
      refine ⟨chunk, rfl, ?_⟩
      simp only [Disk.step]
      cases hp : s.appendLive chunk with
      | mk s' ok =>
        rw [hp] at h1 h2 h3
        simp only [] at h1 h2 h3
        subst h1
        simp [h2, h3]
  | setRunId id =>
    simp only [Disk.step]
    split
    · right; right; rfl
    · split
      · left; simp
      · left
        obtain ⟨r1, r2, _⟩ := rescan_hist s.closeAllForSwitch
        obtain ⟨c1, c2⟩ := closeAllForSwitch_hist s
        exact ⟨by show s.closeAllForSwitch.rescan.hbase = _; rw [r1, c1], by show s.closeAllForSwitch.rescan.hist = _; rw [r2, c2]⟩
  | delRunId => simp only [Disk.step]; split; (left; simp); (right; right; rfl)
  | newRdbWriter off size => right; right; rfl
  | rdbAppend chunk => left; simp only [Disk.step]; repeat' split
                       all_goals simp
  | rdbClose => left; simp only [Disk.step]; repeat' split
                all_goals simp
  | newAofWriter off =>
    simp only [Disk.step]
    obtain ⟨h1, h2, _⟩ := closeLive_hist s
    split
    · rename_i r hr
      by_cases he : r = off
      · left; simp [he]
      · right; right; simp [he]
    · right; right; simp
  | aofClose => obtain ⟨h1, h2, _⟩ := closeLive_hist s; left; simp [Disk.step, h1, h2]
  | gc => left; simp only [Disk.step, Disk.gc]; repeat' split
          all_goals simp
  | openReader rid off crcOk => left; simp only [Disk.step, Disk.open]; repeat' split
                                all_goals simp
  | read rid n => left; simp only [Disk.step, Disk.read]; repeat' split
                  all_goals simp
  | advAcquire rid => left; simp only [Disk.step, Disk.advAcquire]; repeat' split
                      all_goals simp
  | advRelease rid => left; simp only [Disk.step, Disk.advRelease]; repeat' split
                      all_goals simp
  | closeReader rid => left; simp only [Disk.step, Disk.closeReader]; repeat' split
                       all_goals simp

/-! ### valid offsets are readable, offered snapshots are complete -/

theorem inRange_iff_open {s : Disk} (h : DInv s) (rid off : Nat) (hfresh : findReader s.readers rid = none) :
    s.inRange off = true ↔ (s.open rid off true).2 ≠ Out.notExist := by
  unfold Disk.open
  simp only [hfresh, Option.isSome_none, Bool.false_eq_true, if_false]
  constructor
  · intro hin
    simp only [hin, Bool.not_true, Bool.false_eq_true, if_false]
    cases hi : indexAof s.all off with
    | some g => simp
    | none =>
      simp only []
      -- no segment covers `off`: then the snapshot must
      unfold Disk.inRange Disk.range at hin
      cases hr : s.rdb with
      | none =>
        exfalso
        rw [hr] at hin
        cases hfl : firstLeft s.all with
        | none => simp [hfl] at hin
        | some ll =>
          cases hlr : lastRight s.all with
          | none =>
            have := lastRight_eq_none.mp hlr
            rw [this] at hfl; simp [firstLeft] at hfl
          | some rr =>
            simp only [hfl, hlr] at hin
            have hcov : ll ≤ off ∧ off ≤ rr := by
              simp at hin; omega
            obtain ⟨g, hg, hg1, hg2⟩ := contig_cover h.contig hfl hlr hcov.1 hcov.2
            unfold indexAof at hi
            have := List.find?_eq_none.mp hi g (by simpa using hg)
            simp [hg1, hg2] at this
      | some rd =>
        simp only []
        rw [hr] at hin
        by_cases hle : off ≤ rd.left
        · simp [hle]
        · exfalso
          cases hfl : firstLeft s.all with
          | none =>
            have : lastRight s.all = none := by
              cases hlr : lastRight s.all with
              | none => rfl
              | some rr =>
                have hne : s.all ≠ [] := by intro hh; rw [hh] at hlr; simp [lastRight] at hlr
                cases hall : s.all with
                | nil => exact absurd hall hne
                | cons a t => rw [hall] at hfl; simp [firstLeft] at hfl
            simp only [hfl, this] at hin
            simp at hin
            omega
          | some ll =>
            cases hlr : lastRight s.all with
            | none =>
              have := lastRight_eq_none.mp hlr
              rw [this] at hfl; simp [firstLeft] at hfl
            | some rr =>
              have hal := h.rdbAlign rd ll hr hfl
              simp only [hfl, hlr] at hin
              have hcov : ll ≤ off ∧ off ≤ rr := by
                simp at hin
                omega
              obtain ⟨g, hg, hg1, hg2⟩ := contig_cover h.contig hfl hlr hcov.1 hcov.2
              unfold indexAof at hi
              have := List.find?_eq_none.mp hi g (by simpa using hg)
              simp [hg1, hg2] at this
  · intro hne
    by_cases hin : s.inRange off = true
    · exact hin
    · simp [hin] at hne

theorem getRdb_iff {s : Disk} (h : DInv s) :
    s.getRdb ≠ (-1, -1) ↔
      ∃ r, s.rdb = some r ∧ ((r.final = true ∧ r.data.length = r.size) ∨ r.writing = true) := by
  unfold Disk.getRdb
  cases hr : s.rdb with
  | none => simp
  | some r =>
    simp only []
    constructor
    · intro _
      refine ⟨r, rfl, ?_⟩
      have := h.rdbShape r hr
      cases hw : r.writing with
      | true => right; rfl
      | false => left; exact this.2.2 hw
    · intro _ hc
      have : (r.left : Int) = -1 := by
        have := congrArg Prod.fst hc
        simpa using this
      omega

/-! ### an invalidated reader never delivers again -/

theorem mem_map_close {rs : List DReader} {f : DReader → DReader} {r : DReader}
    (hf : ∀ x, f x = x ∨ f x = x.close) (hr : r ∈ rs) (hc : r.isOpen = false) :
    ∃ r' ∈ rs.map f, r'.id = r.id ∧ r'.isOpen = false ∧ r'.out = r.out := by
  refine ⟨f r, List.mem_map_of_mem hr, ?_⟩
  rcases hf r with h | h <;> rw [h]
  · exact ⟨rfl, hc, rfl⟩
  · exact ⟨rfl, rfl, rfl⟩

theorem mem_setReader_other {rs : List DReader} {r x : DReader} (hx : x ∈ rs) (hne : x.id ≠ r.id) :
    x ∈ setReader rs r := by
  unfold setReader
  refine List.mem_map.mpr ⟨x, hx, ?_⟩
  have : (x.id == r.id) = false := by simpa using hne
  simp [this]

theorem eq_of_mem_of_id {rs : List DReader} (hn : (rs.map (·.id)).Nodup) {a b : DReader}
    (ha : a ∈ rs) (hb : b ∈ rs) (e : a.id = b.id) : a = b := by
  induction rs with
  | nil => cases ha
  | cons x t ih =>
    simp only [List.map_cons, List.nodup_cons] at hn
    rcases List.mem_cons.mp ha with h1 | h1 <;> rcases List.mem_cons.mp hb with h2 | h2
    · rw [h1, h2]
    · subst h1; exact absurd (List.mem_map.mpr ⟨b, h2, e.symm⟩) hn.1
    · subst h2; exact absurd (List.mem_map.mpr ⟨a, h1, e⟩) hn.1
    · exact ih hn.2 h1 h2

theorem closed_reader_frozen {s : Disk} (h : DInv s) (op : DOp) {r : DReader} (hr : r ∈ s.readers)
    (hc : r.isOpen = false) :
    ∃ r' ∈ (s.step op).1.readers, r'.id = r.id ∧ r'.isOpen = false ∧ r'.out = r.out := by
  have same : ∀ s' : Disk, s'.readers = s.readers →
      ∃ r' ∈ s'.readers, r'.id = r.id ∧ r'.isOpen = false ∧ r'.out = r.out :=
    fun s' e => ⟨r, e ▸ hr, rfl, hc, rfl⟩
  have viaSet : ∀ (r0 r1 : DReader), r0 ∈ s.readers → r1.id = r0.id →
      (r0.isOpen = false → r1.isOpen = false ∧ r1.out = r0.out) →
      ∃ r' ∈ setReader s.readers r1, r'.id = r.id ∧ r'.isOpen = false ∧ r'.out = r.out := by
    intro r0 r1 h0 hid hpres
    by_cases e : r.id = r0.id
    · have : r = r0 := eq_of_mem_of_id h.ids hr h0 e
      subst this
      refine ⟨r1, ?_, hid, (hpres hc).1, (hpres hc).2⟩
      unfold setReader
      exact List.mem_map.mpr ⟨r, hr, by simp [hid]⟩
    · exact ⟨r, mem_setReader_other hr (by rw [hid]; exact e), rfl, hc, rfl⟩
  cases op with
  | setRunId id =>
    simp only [Disk.step]
    split
    · exact mem_map_close (fun x => Or.inr rfl) hr hc
    · split
      · exact same _ rfl
      · -- id switch: every reader is closed, then (possibly) once more with the trimmed segment
        have h1 := mem_map_close (f := DReader.close) (fun x => Or.inr rfl) hr hc
        obtain ⟨r1, hr1, hid1, hc1, hout1⟩ := h1
        have hs0 : r1 ∈ (({ s with readers := closeAllReaders s.readers } : Disk).dropWritingRdb).readers := by
          rw [(dropWritingRdb_fields _).2.2.1]; exact hr1
        have h2 : ∃ r2 ∈ s.closeAllForSwitch.readers, r2.id = r1.id ∧ r2.isOpen = false ∧ r2.out = r1.out := by
          unfold Disk.closeAllForSwitch Disk.closeLive
          split
          · exact ⟨r1, hs0, rfl, hc1, rfl⟩
          · rename_i g _
            split
            · exact mem_map_close (f := fun x => if x.holds g.left then x.close else x)
                (fun x => by by_cases hx : x.holds g.left = true <;> simp [hx]) hs0 hc1
            · exact ⟨r1, hs0, rfl, hc1, rfl⟩
        obtain ⟨r2, hr2, hid2, hc2, hout2⟩ := h2
        refine ⟨r2, ?_, by rw [hid2, hid1], hc2, by rw [hout2, hout1]⟩
        show r2 ∈ s.closeAllForSwitch.rescan.readers
        rw [(rescan_hist _).2.2]; exact hr2
  | delRunId =>
    simp only [Disk.step]
    split
    · exact same _ rfl
    · exact mem_map_close (fun x => Or.inr rfl) hr hc
  | newRdbWriter off size => exact mem_map_close (fun x => Or.inr rfl) hr hc
  | rdbAppend chunk =>
    apply same; simp only [Disk.step]; repeat' split
    all_goals rfl
  | rdbClose =>
    simp only [Disk.step]
    split
    · split
      · exact mem_map_close (f := fun x => if x.isAof then x else x.close)
          (fun x => by by_cases hx : x.isAof = true <;> simp [hx]) hr hc
      · exact same _ rfl
    · exact same _ rfl
  | newAofWriter off =>
    simp only [Disk.step]
    have h1 : ∃ r1 ∈ s.closeLive.readers, r1.id = r.id ∧ r1.isOpen = false ∧ r1.out = r.out := by
      unfold Disk.closeLive
      split
      · exact same _ rfl
      · rename_i g _
        split
        · exact mem_map_close (f := fun x => if x.holds g.left then x.close else x)
            (fun x => by by_cases hx : x.holds g.left = true <;> simp [hx]) hr hc
        · exact same _ rfl
    obtain ⟨r1, hr1, hid1, hc1, hout1⟩ := h1
    obtain ⟨r2, hr2, hid2, hc2, hout2⟩ :=
      mem_map_close (f := fun x => if x.isAof then x.close else x)
        (fun x => by by_cases hx : x.isAof = true <;> simp [hx]) hr1 hc1
    exact ⟨r2, hr2, by rw [hid2, hid1], hc2, by rw [hout2, hout1]⟩
  | aofAppend chunk =>
    apply same
    simp only [Disk.step]
    have := appendLive_readers s chunk
    cases hp : s.appendLive chunk with
    | mk s' ok =>
      rw [hp] at this
      cases ok
      · simp
      · simpa using this
  | aofClose =>
    simp only [Disk.step]
    unfold Disk.closeLive
    split
    · exact same _ rfl
    · rename_i g _
      split
      · exact mem_map_close (f := fun x => if x.holds g.left then x.close else x)
          (fun x => by by_cases hx : x.holds g.left = true <;> simp [hx]) hr hc
      · exact same _ rfl
  | gc =>
    apply same; simp only [Disk.step, Disk.gc]; repeat' split
    all_goals rfl
  | openReader rid off crcOk =>
    simp only [Disk.step, Disk.open]
    repeat' split
    all_goals first
      | exact same _ rfl
      | exact ⟨r, by simp; left; exact hr, rfl, hc, rfl⟩
  | read rid n =>
    simp only [Disk.step, Disk.read]
    cases hf : findReader s.readers rid with
    | none => exact same _ rfl
    | some r0 =>
      obtain ⟨h0, _⟩ := findReader_some hf
      simp only []
      by_cases ho : r0.isOpen = true
      · simp only [ho, Bool.not_true, Bool.false_eq_true, if_false]
        repeat' split
        all_goals first
          | exact same _ rfl
          | exact viaSet r0 _ h0 rfl (fun hcl => by rw [ho] at hcl; cases hcl)
      · have : r0.isOpen = false := by simpa using ho
        simp only [this, Bool.not_false, if_true]
        exact same _ rfl
  | advAcquire rid =>
    simp only [Disk.step, Disk.advAcquire]
    cases hf : findReader s.readers rid with
    | none => exact same _ rfl
    | some r0 =>
      obtain ⟨h0, _⟩ := findReader_some hf
      simp only []
      split
      · rename_i hca
        have ho : r0.isOpen = true := by
          unfold Disk.canAdvance at hca; simp only [Bool.and_eq_true] at hca; exact hca.1.1.1.1
        exact viaSet r0 _ h0 rfl (fun hcl => by rw [ho] at hcl; cases hcl)
      · exact same _ rfl
  | advRelease rid =>
    simp only [Disk.step, Disk.advRelease]
    cases hf : findReader s.readers rid with
    | none => exact same _ rfl
    | some r0 =>
      obtain ⟨h0, _⟩ := findReader_some hf
      simp only []
      split
      · rename_i hca
        have ho : r0.isOpen = true := by simp only [Bool.and_eq_true] at hca; exact hca.1
        exact viaSet r0 _ h0 rfl (fun hcl => by rw [ho] at hcl; cases hcl)
      · exact same _ rfl
  | closeReader rid =>
    simp only [Disk.step, Disk.closeReader]
    cases hf : findReader s.readers rid with
    | none => exact same _ rfl
    | some r0 =>
      obtain ⟨h0, _⟩ := findReader_some hf
      simp only []
      exact viaSet r0 r0.close h0 rfl (fun _ => ⟨rfl, rfl⟩)

/-! ### a valid reader keeps following the writer -/

theorem findReader_of_mem {rs : List DReader} (hn : (rs.map (·.id)).Nodup) {r : DReader} (hr : r ∈ rs) :
    findReader rs r.id = some r := by
  unfold findReader
  cases hf : rs.find? (fun x => x.id == r.id) with
  | none =>
    have := List.find?_eq_none.mp hf r hr
    simp at this
  | some x =>
    have hx := List.find?_some hf
    have hxm := List.mem_of_find?_eq_some hf
    simp at hx
    rw [eq_of_mem_of_id hn hxm hr hx]

theorem contig_next {l : List DSeg} (hc : Contig l) {g : DSeg} (hg : g ∈ l) {r : Nat}
    (hr : lastRight l = some r) (hlt : g.right < r) : ∃ nx ∈ l, nx.left = g.right := by
  induction l generalizing g with
  | nil => cases hg
  | cons a t ih =>
    cases t with
    | nil =>
      simp at hg; subst hg
      simp [lastRight] at hr; omega
    | cons b u =>
      rw [lastRight_cons_cons] at hr
      rcases List.mem_cons.mp hg with h | h
      · subst h
        exact ⟨b, by simp, hc.1.symm⟩
      · obtain ⟨nx, hnx, hl⟩ := ih hc.2 h hr hlt
        exact ⟨nx, List.mem_cons_of_mem _ hnx, hl⟩

theorem reader_progress {s : Disk} (h : DInv s) {r : DReader} (hr : r ∈ s.readers)
    (ho : r.isOpen = true) (ha : r.isAof = true) (hprev : r.prev = none)
    (hlt : r.pos < s.hbase + s.hist.length) (n : Nat) (hn : 0 < n) :
    (∃ bs, (s.read r.id n).2 = Out.data bs ∧ bs ≠ []) ∨ s.canAdvance r = true := by
  obtain ⟨⟨g0, hg0, hc0, hl0, hr0⟩, _, _, _, _⟩ := (h.readersOk r hr ho).1 ha
  have hfs : findSeg s.all r.cur = some g0 := by
    rw [← hc0]; exact findSeg_of_mem h.contig (all_initNonempty h.nonempty) hg0
  by_cases hin : r.pos < g0.right
  · left
    unfold Disk.read
    rw [findReader_of_mem h.ids hr]
    simp only [ho, Bool.not_true, Bool.false_eq_true, if_false, ha, if_true, hfs]
    have hne : ((g0.data.drop (r.pos - g0.left)).take n) ≠ [] := by
      intro he
      have := congrArg List.length he
      simp only [DSeg.right] at hin
      simp at this
      omega
    have : ((g0.data.drop (r.pos - g0.left)).take n).isEmpty = false := by
      simpa [List.isEmpty_iff] using hne
    simp only [this, Bool.false_eq_true, if_false]
    exact ⟨_, rfl, hne⟩
  · right
    have hpe : r.pos = g0.right := by omega
    cases hlr : lastRight s.all with
    | none =>
      have := lastRight_eq_none.mp hlr
      rw [this] at hg0; cases hg0
    | some rr =>
      have hend := h.lastEnd rr hlr
      obtain ⟨nx, hnx, hnl⟩ := contig_next h.contig hg0 hlr (by omega)
      have hfn : findSeg s.all r.pos = some nx := by
        rw [hpe, ← hnl]; exact findSeg_of_mem h.contig (all_initNonempty h.nonempty) hnx
      unfold Disk.canAdvance
      rw [hpe] at hfn
      simp [ho, ha, hprev, hfs, hfn, hpe]

/-! ### the abstraction: the index holds a suffix of the written history -/

theorem flatMap_eq_hist_drop (hbase : Nat) (hist : Bytes) :
    ∀ (l : List DSeg), l ≠ [] → Contig l →
      (∀ g ∈ l, hbase ≤ g.left ∧ g.right ≤ hbase + hist.length ∧
          g.data = (hist.drop (g.left - hbase)).take g.data.length) →
      lastRight l = some (hbase + hist.length) →
      ∀ f, firstLeft l = some f → l.flatMap (·.data) = hist.drop (f - hbase) := by
  intro l
  induction l with
  | nil => intro h; exact absurd rfl h
  | cons g t ih =>
    intro _ hc he hl f hf
    simp [firstLeft] at hf; subst hf
    obtain ⟨e1, e2, e3⟩ := he g (by simp)
    cases t with
    | nil =>
      simp [lastRight] at hl
      simp only [List.flatMap_cons, List.flatMap_nil, List.append_nil]
      rw [e3, List.take_of_length_le]
      simp only [DSeg.right] at hl
      simp; omega
    | cons h rest =>
      rw [lastRight_cons_cons] at hl
      have ih' := ih (by simp) hc.2 (fun x hx => he x (List.mem_cons_of_mem _ hx)) hl h.left rfl
      simp only [List.flatMap_cons] at ih' ⊢
      rw [ih', e3]
      have hgh : g.left - hbase + g.data.length = h.left - hbase := by
        have := hc.1
        simp only [DSeg.right] at this
        omega
      rw [← hgh, ← List.drop_drop]
      exact List.take_append_drop _ _

theorem abs_bytes_eq {s : Disk} (h : DInv s) (hne : s.all ≠ []) :
    s.hbase ≤ s.abs.base ∧ s.abs.bytes = s.hist.drop (s.abs.base - s.hbase) := by
  cases hfl : firstLeft s.all with
  | none =>
    cases hall : s.all with
    | nil => exact absurd hall hne
    | cons a t => rw [hall] at hfl; simp [firstLeft] at hfl
  | some f =>
    have hlr : lastRight s.all = some (s.hbase + s.hist.length) := by
      cases hl : lastRight s.all with
      | none => exact absurd (lastRight_eq_none.mp hl) hne
      | some r => rw [h.lastEnd r hl]
    have hb : s.abs.base = f := by simp [Disk.abs, hfl]
    have hfm : ∃ g ∈ s.all, g.left = f := by
      cases hall : s.all with
      | nil => exact absurd hall hne
      | cons a t =>
        rw [hall] at hfl
        simp [firstLeft] at hfl
        exact ⟨a, by simp, hfl⟩
    obtain ⟨g, hg, hgl⟩ := hfm
    refine ⟨by rw [hb, ← hgl]; exact (h.embed g hg).1, ?_⟩
    rw [hb]
    exact flatMap_eq_hist_drop s.hbase s.hist s.all hne h.contig h.embed hlr f hfl

/-! ### which operations may close a reader -/

/-- the operations that close readers: the property's invalidation events
    (reset by a new snapshot or an id delete, replication-id switch, writer
    replacement), the end of a writer (a snapshot writer ending early takes its
    readers with it; a stream writer closing on an EMPTY live segment takes the
    readers tailing that segment), and the reader's own close -/
def closesReaders : DOp → Bool
  | .setRunId _ | .delRunId | .newRdbWriter _ _ | .rdbClose | .newAofWriter _ | .aofClose
  | .closeReader _ => true
  | _ => false

theorem mem_setReader_same {rs : List DReader} {r0 r1 : DReader} (h0 : r0 ∈ rs) (hid : r1.id = r0.id) :
    r1 ∈ setReader rs r1 := by
  unfold setReader
  exact List.mem_map.mpr ⟨r0, h0, by simp [hid]⟩

theorem reader_stays_open {s : Disk} (h : DInv s) (op : DOp) {r : DReader} (hr : r ∈ s.readers)
    (ho : r.isOpen = true) (hop : closesReaders op = false) :
    ∃ r' ∈ (s.step op).1.readers, r'.id = r.id ∧ r'.isOpen = true := by
  have same : ∀ s' : Disk, s'.readers = s.readers → ∃ r' ∈ s'.readers, r'.id = r.id ∧ r'.isOpen = true :=
    fun s' e => ⟨r, e ▸ hr, rfl, ho⟩
  have viaSet : ∀ (r0 r1 : DReader), r0 ∈ s.readers → r1.id = r0.id → (r0.isOpen = true → r1.isOpen = true) →
      ∃ r' ∈ setReader s.readers r1, r'.id = r.id ∧ r'.isOpen = true := by
    intro r0 r1 h0 hid hpres
    by_cases e : r.id = r0.id
    · have : r = r0 := eq_of_mem_of_id h.ids hr h0 e
      subst this
      exact ⟨r1, mem_setReader_same hr hid, hid, hpres ho⟩
    · exact ⟨r, mem_setReader_other hr (by rw [hid]; exact e), rfl, ho⟩
  cases op with
  | setRunId id => simp [closesReaders] at hop
  | delRunId => simp [closesReaders] at hop
  | newRdbWriter off size => simp [closesReaders] at hop
  | rdbClose => simp [closesReaders] at hop
  | newAofWriter off => simp [closesReaders] at hop
  | aofClose => simp [closesReaders] at hop
  | closeReader rid => simp [closesReaders] at hop
  | rdbAppend chunk =>
    apply same; simp only [Disk.step]; repeat' split
    all_goals rfl
  | aofAppend chunk =>
    apply same
    simp only [Disk.step]
    have := appendLive_readers s chunk
    cases hp : s.appendLive chunk with
    | mk s' ok =>
      rw [hp] at this
      cases ok
      · simp
      · simpa using this
  | gc =>
    apply same; simp only [Disk.step, Disk.gc]; repeat' split
    all_goals rfl
  | openReader rid off crcOk =>
    simp only [Disk.step, Disk.open]
    repeat' split
    all_goals first
      | exact same _ rfl
      | exact ⟨r, by simp; left; exact hr, rfl, ho⟩
  | read rid n =>
    simp only [Disk.step, Disk.read]
    cases hf : findReader s.readers rid with
    | none => exact same _ rfl
    | some r0 =>
      obtain ⟨h0, _⟩ := findReader_some hf
      simp only []
      repeat' split
      all_goals first
        | exact same _ rfl
        | exact viaSet r0 _ h0 rfl (fun h' => h')
  | advAcquire rid =>
    simp only [Disk.step, Disk.advAcquire]
    cases hf : findReader s.readers rid with
    | none => exact same _ rfl
    | some r0 =>
      obtain ⟨h0, _⟩ := findReader_some hf
      simp only []
      split
      · exact viaSet r0 _ h0 rfl (fun h' => h')
      · exact same _ rfl
  | advRelease rid =>
    simp only [Disk.step, Disk.advRelease]
    cases hf : findReader s.readers rid with
    | none => exact same _ rfl
    | some r0 =>
      obtain ⟨h0, _⟩ := findReader_some hf
      simp only []
      split
      · exact viaSet r0 _ h0 rfl (fun h' => h')
      · exact same _ rfl

/-! ### the snapshot → stream junction, the collector's snapshot branch -/

theorem snapshot_hands_over {s : Disk} (h : DInv s) (r : DRdb) (hr : s.rdb = some r) (hne : s.all ≠ []) :
    (indexAof s.all r.left).isSome = true := by
  cases hfl : firstLeft s.all with
  | none =>
    cases hall : s.all with
    | nil => exact absurd hall hne
    | cons a t => rw [hall] at hfl; simp [firstLeft] at hfl
  | some f =>
    have hal := h.rdbAlign r f hr hfl
    cases hall : s.all with
    | nil => exact absurd hall hne
    | cons a t =>
      rw [hall] at hfl; simp [firstLeft] at hfl
      -- the first segment covers its own left end
      unfold indexAof
      rw [Option.isSome_iff_exists]
      have hm : a ∈ (a :: t).reverse := by simp
      have hp : (fun g : DSeg => decide (g.left ≤ r.left) && decide (r.left ≤ g.right)) a = true := by
        have : r.left = a.left := by rw [hal]; exact hfl.symm
        simp [DSeg.right, this]
      cases hfd : (a :: t).reverse.find? (fun g => decide (g.left ≤ r.left) && decide (r.left ≤ g.right)) with
      | some x => exact ⟨x, rfl⟩
      | none => exact absurd hp (by simpa using List.find?_eq_none.mp hfd a hm)

theorem gc_snapshot_branch (s : Disk) (r : DRdb) (hr : s.rdb = some r) (hg : s.gc.rdb = none) :
    rdbRef s.readers r = 0 := by
  unfold Disk.gc at hg
  split at hg
  · rw [hr] at hg; cases hg
  · generalize gcScanRev s.maxSize s.all.reverse 0 = ks at hg
    obtain ⟨k, size⟩ := ks
    simp only [hr] at hg
    split at hg
    · split at hg
      · assumption
      · rw [hr] at hg; cases hg
    · simp at hg

end GunYu.Store
