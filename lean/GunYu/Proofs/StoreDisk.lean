/-
  Helper lemmas for C05 (disk backend): the invariant `DInv` of the step-level
  model `GunYu.Store.Disk` and its preservation by every operation that
  respects the callers' protocol (`Disk.okOp`).
-/
import GunYu.Model.Store

namespace GunYu.Store
open GunYu

/-! ### contiguity -/

/-- consecutive segments: each one starts where the previous one ends -/
def Contig : List DSeg → Prop
  | [] => True
  | [_] => True
  | g :: h :: rest => g.right = h.left ∧ Contig (h :: rest)

theorem Contig.tail {g : DSeg} {l : List DSeg} (h : Contig (g :: l)) : Contig l := by
  cases l with
  | nil => trivial
  | cons a t => exact h.2

theorem contig_suffix (pre l : List DSeg) (h : Contig (pre ++ l)) : Contig l := by
  induction pre with
  | nil => simpa using h
  | cons a t ih => exact ih (Contig.tail h)

theorem lastRight_cons_cons (a b : DSeg) (t : List DSeg) : lastRight (a :: b :: t) = lastRight (b :: t) := rfl

theorem lastRight_append_single (l : List DSeg) (x : DSeg) : lastRight (l ++ [x]) = some x.right := by
  induction l with
  | nil => rfl
  | cons a t ih =>
    cases t with
    | nil => rfl
    | cons b u =>
      show lastRight (a :: b :: (u ++ [x])) = _
      rw [lastRight_cons_cons]
      exact ih

theorem lastRight_suffix (pre l : List DSeg) (hl : l ≠ []) : lastRight (pre ++ l) = lastRight l := by
  induction pre with
  | nil => rfl
  | cons a t ih =>
    cases hm : t ++ l with
    | nil => simp at hm; exact absurd hm.2 hl
    | cons b u =>
      show lastRight (a :: (t ++ l)) = _
      rw [hm, lastRight_cons_cons, ← hm, ih]

theorem lastRight_eq_none {l : List DSeg} : lastRight l = none ↔ l = [] := by
  induction l with
  | nil => simp [lastRight]
  | cons a t ih =>
    cases t with
    | nil => simp [lastRight]
    | cons b u => rw [lastRight_cons_cons]; simp [ih]

theorem contig_append_single (l : List DSeg) (x : DSeg) :
    Contig (l ++ [x]) ↔ Contig l ∧ (∀ r, lastRight l = some r → r = x.left) := by
  induction l with
  | nil => simp [Contig, lastRight]
  | cons a t ih =>
    cases t with
    | nil => simp [Contig, lastRight]
    | cons b u =>
      show (a.right = b.left ∧ Contig (b :: u ++ [x])) ↔ _
      rw [ih]
      simp only [Contig, lastRight_cons_cons]
      constructor
      · rintro ⟨h1, h2, h3⟩; exact ⟨⟨h1, h2⟩, h3⟩
      · rintro ⟨⟨h1, h2⟩, h3⟩; exact ⟨h1, h2, h3⟩

/-- in a contiguous list every right end is at most the last right end and
    every left end at least the first -/
theorem contig_right_le_last {l : List DSeg} (hc : Contig l) {g : DSeg} (hg : g ∈ l) {r : Nat}
    (hr : lastRight l = some r) : g.right ≤ r := by
  induction l generalizing g with
  | nil => cases hg
  | cons a t ih =>
    cases t with
    | nil =>
      simp at hg; subst hg
      simp [lastRight] at hr; omega
    | cons b u =>
      rw [lastRight_cons_cons] at hr
      rcases List.mem_cons.mp hg with h | h
      · subst h
        have hb : b.right ≤ r := ih hc.2 (List.mem_cons_self) hr
        have := hc.1
        simp only [DSeg.right] at *
        omega
      · exact ih hc.2 h hr

theorem contig_first_le {l : List DSeg} (hc : Contig l) {g : DSeg} (hg : g ∈ l) {f : Nat}
    (hf : firstLeft l = some f) : f ≤ g.left := by
  induction l generalizing f g with
  | nil => cases hg
  | cons a t ih =>
    simp [firstLeft] at hf; subst hf
    rcases List.mem_cons.mp hg with h | h
    · subst h; exact Nat.le_refl _
    · cases t with
      | nil => cases h
      | cons b u =>
        have := ih hc.2 h (f := b.left) rfl
        have := hc.1
        simp only [DSeg.right] at *
        omega

/-- every offset between the first left end and the last right end lies in
    some segment -/
theorem contig_cover {l : List DSeg} (hc : Contig l) {f r off : Nat}
    (hf : firstLeft l = some f) (hr : lastRight l = some r) (h1 : f ≤ off) (h2 : off ≤ r) :
    ∃ g ∈ l, g.left ≤ off ∧ off ≤ g.right := by
  induction l generalizing f with
  | nil => simp [firstLeft] at hf
  | cons a t ih =>
    simp [firstLeft] at hf; subst hf
    cases t with
    | nil =>
      simp [lastRight] at hr; subst hr
      exact ⟨a, List.mem_cons_self, h1, h2⟩
    | cons b u =>
      rw [lastRight_cons_cons] at hr
      by_cases hoff : off ≤ a.right
      · exact ⟨a, List.mem_cons_self, h1, hoff⟩
      · have hb : b.left ≤ off := by have := hc.1; omega
        obtain ⟨g, hg, hg1, hg2⟩ := ih hc.2 (f := b.left) rfl hr hb
        exact ⟨g, List.mem_cons_of_mem _ hg, hg1, hg2⟩

/-! ### strictly increasing left ends -/

/-- all segments but the last are non-empty -/
def InitNonempty (l : List DSeg) : Prop := ∀ g ∈ l.dropLast, g.data ≠ []

theorem InitNonempty.tail {a : DSeg} {l : List DSeg} (h : InitNonempty (a :: l)) : InitNonempty l := by
  intro g hg
  cases l with
  | nil => simp at hg
  | cons b t =>
    apply h
    simp only [List.dropLast_cons_cons]
    exact List.mem_cons_of_mem _ hg

theorem contig_head_lt {a : DSeg} {l : List DSeg} (hc : Contig (a :: l)) (hn : InitNonempty (a :: l))
    {g : DSeg} (hg : g ∈ l) : a.left < g.left := by
  induction l generalizing a g with
  | nil => cases hg
  | cons b t ih =>
    have ha : a.data ≠ [] := hn a (by simp)
    have hlen : 0 < a.data.length := List.length_pos_iff.mpr ha
    have hab : a.left < b.left := by have := hc.1; simp only [DSeg.right] at this; omega
    rcases List.mem_cons.mp hg with h | h
    · subst h; exact hab
    · have := ih hc.2 hn.tail h
      omega

theorem lefts_unique {l : List DSeg} (hc : Contig l) (hn : InitNonempty l) {g h : DSeg}
    (hg : g ∈ l) (hh : h ∈ l) (e : g.left = h.left) : g = h := by
  induction l with
  | nil => cases hg
  | cons a t ih =>
    rcases List.mem_cons.mp hg with h1 | h1 <;> rcases List.mem_cons.mp hh with h2 | h2
    · rw [h1, h2]
    · subst h1; have := contig_head_lt hc hn h2; omega
    · subst h2; have := contig_head_lt hc hn h1; omega
    · exact ih hc.tail hn.tail h1 h2

theorem findSeg_of_mem {l : List DSeg} (hc : Contig l) (hn : InitNonempty l) {g : DSeg} (hg : g ∈ l) :
    findSeg l g.left = some g := by
  unfold findSeg
  cases hf : l.find? (fun x => x.left == g.left) with
  | none =>
    have := List.find?_eq_none.mp hf g hg
    simp at this
  | some x =>
    have hx := List.find?_some hf
    have hxm := List.mem_of_find?_eq_some hf
    simp at hx
    rw [lefts_unique hc hn hxm hg hx]

theorem findSeg_some {l : List DSeg} {c : Nat} {g : DSeg} (h : findSeg l c = some g) : g ∈ l ∧ g.left = c := by
  unfold findSeg at h
  have h1 := List.mem_of_find?_eq_some h
  have h2 := List.find?_some h
  simp at h2
  exact ⟨h1, h2⟩

/-! ### bytes of the history -/

theorem take_drop_append_of_le {α} (l m : List α) (i j : Nat) (h : i + j ≤ l.length) :
    ((l ++ m).drop i).take j = (l.drop i).take j := by
  rw [List.drop_append_of_le_length (by omega)]
  rw [List.take_append_of_le_length (by simp; omega)]

theorem take_drop_glue {α} (l : List α) (i j k : Nat) :
    (l.drop i).take j ++ (l.drop (i + j)).take k = (l.drop i).take (j + k) := by
  rw [List.take_add, List.drop_drop]

/-! ### the invariant -/

def AofOk (s : Disk) (r : DReader) : Prop :=
  (∃ g ∈ s.all, g.left = r.cur ∧ g.left ≤ r.pos ∧ r.pos ≤ g.right) ∧
  (∀ p, r.prev = some p → ∃ g ∈ s.all, g.left = p) ∧
  s.hbase ≤ r.start ∧ r.start ≤ r.pos ∧
  r.out = (s.hist.drop (r.start - s.hbase)).take (r.pos - r.start)

def RdbOk (s : Disk) (r : DReader) : Prop :=
  ∃ rd, s.rdb = some rd ∧ r.pos ≤ rd.data.length ∧ r.out = rd.data.take r.pos

def ROk (s : Disk) (r : DReader) : Prop :=
  r.isOpen = true → (r.isAof = true → AofOk s r) ∧ (r.isAof = false → RdbOk s r)

structure DInv (s : Disk) : Prop where
  contig : Contig s.all
  nonempty : ∀ g ∈ s.segs, g.data ≠ []
  embed : ∀ g ∈ s.all, s.hbase ≤ g.left ∧ g.right ≤ s.hbase + s.hist.length ∧
            g.data = (s.hist.drop (g.left - s.hbase)).take g.data.length
  lastEnd : ∀ r, lastRight s.all = some r → r = s.hbase + s.hist.length
  rdbAlign : ∀ r l, s.rdb = some r → firstLeft s.all = some l → r.left = l
  rdbShape : ∀ r, s.rdb = some r → 0 < r.size ∧
      (r.writing = true → r.final = false ∧ r.data.length < r.size) ∧
      (r.writing = false → r.final = true ∧ r.data.length = r.size)
  ids : (s.readers.map (·.id)).Nodup
  readersOk : ∀ r ∈ s.readers, ROk s r

theorem all_initNonempty {s : Disk} (h : ∀ g ∈ s.segs, g.data ≠ []) : InitNonempty s.all := by
  intro g hg
  apply h
  unfold Disk.all at hg
  cases hl : s.live with
  | none => rw [hl] at hg; simp at hg; exact List.dropLast_subset _ hg
  | some x =>
    rw [hl] at hg
    simp only [Option.toList_some] at hg
    rw [List.dropLast_concat] at hg
    exact hg

theorem DInv.init (l m : Nat) : DInv (Disk.init l m) := by
  constructor <;> simp [Disk.init, Disk.all, Contig, lastRight, firstLeft]

/-! ### reader-list helpers -/

theorem ROk_of_closed {s : Disk} {r : DReader} (h : r.isOpen = false) : ROk s r := by
  intro ho; rw [h] at ho; cases ho

theorem close_isOpen (r : DReader) : r.close.isOpen = false := rfl
theorem close_id (r : DReader) : r.close.id = r.id := rfl

theorem map_ids_of_id_pres (rs : List DReader) (f : DReader → DReader) (hf : ∀ r, (f r).id = r.id) :
    (rs.map f).map (·.id) = rs.map (·.id) := by
  induction rs with
  | nil => rfl
  | cons a t ih => simp [hf, ih]

theorem setReader_ids (rs : List DReader) (r : DReader) :
    (setReader rs r).map (·.id) = rs.map (·.id) := by
  unfold setReader
  induction rs with
  | nil => rfl
  | cons a t ih =>
    simp only [List.map_cons, ih]
    by_cases h : a.id == r.id
    · simp [h]; exact (beq_iff_eq.mp h).symm
    · simp [h]

theorem mem_setReader {rs : List DReader} {r x : DReader} (h : x ∈ setReader rs r) :
    x = r ∨ (x ∈ rs ∧ x.id ≠ r.id) := by
  unfold setReader at h
  obtain ⟨y, hy, rfl⟩ := List.mem_map.mp h
  by_cases hid : y.id == r.id
  · left; simp [hid]
  · right; simp [hid]; exact ⟨hy, by simpa using hid⟩

theorem findReader_some {rs : List DReader} {rid : Nat} {r : DReader} (h : findReader rs rid = some r) :
    r ∈ rs ∧ r.id = rid := by
  unfold findReader at h
  have h1 := List.mem_of_find?_eq_some h
  have h2 := List.find?_some h
  simp at h2
  exact ⟨h1, h2⟩

theorem findReader_none {rs : List DReader} {rid : Nat} (h : findReader rs rid = none) :
    rid ∉ rs.map (·.id) := by
  unfold findReader at h
  intro hm
  obtain ⟨y, hy, rfl⟩ := List.mem_map.mp hm
  have := List.find?_eq_none.mp h y hy
  simp at this

/-- `ROk` only depends on the index part of the state -/
theorem ROk_congr {s s' : Disk} {r : DReader} (hall : s'.all = s.all) (hrdb : s'.rdb = s.rdb)
    (hb : s'.hbase = s.hbase) (hh : s'.hist = s.hist) (h : ROk s r) : ROk s' r := by
  intro ho
  obtain ⟨h1, h2⟩ := h ho
  refine ⟨fun ha => ?_, fun ha => ?_⟩
  · have := h1 ha
    unfold AofOk at *
    rw [hall, hb, hh]; exact this
  · have := h2 ha
    unfold RdbOk at *
    rw [hrdb]; exact this

/-! ### resets -/

theorem DInv.reset {s : Disk} (h : DInv s) : DInv s.reset := by
  constructor
  · simp [Disk.reset, Disk.all, Contig]
  · simp [Disk.reset]
  · simp [Disk.reset, Disk.all]
  · simp [Disk.reset, Disk.all, lastRight]
  · simp [Disk.reset]
  · simp [Disk.reset]
  · show ((closeAllReaders s.readers).map (·.id)).Nodup
    unfold closeAllReaders
    rw [map_ids_of_id_pres _ _ close_id]; exact h.ids
  · intro r hr
    simp only [Disk.reset, closeAllReaders] at hr
    obtain ⟨y, _, rfl⟩ := List.mem_map.mp hr
    exact ROk_of_closed (close_isOpen y)

theorem DInv.with_runId {s : Disk} (h : DInv s) (id : String) : DInv { s with runId := id } := by
  constructor
  · exact h.contig
  · exact h.nonempty
  · exact h.embed
  · exact h.lastEnd
  · exact h.rdbAlign
  · exact h.rdbShape
  · exact h.ids
  · intro r hr; exact ROk_congr rfl rfl rfl rfl (h.readersOk r hr)

theorem DInv.newRdbWriter {s : Disk} (h : DInv s) (off size : Nat) (hs : 0 < size) :
    DInv (s.step (.newRdbWriter off size)).1 := by
  have hr := h.reset
  show DInv { s.reset with rdb := some { left := off, size := size, data := [], writing := true, final := false } }
  constructor
  · exact hr.contig
  · exact hr.nonempty
  · exact hr.embed
  · exact hr.lastEnd
  · intro r l _ hl; simp [Disk.reset, Disk.all, firstLeft] at hl
  · intro r hr'; simp at hr'; subst hr'; simp; exact hs
  · exact hr.ids
  · intro r hr'
    simp only [Disk.reset, closeAllReaders] at hr'
    obtain ⟨y, _, rfl⟩ := List.mem_map.mp hr'
    exact ROk_of_closed (close_isOpen y)

/-! ### snapshot writer -/

theorem AofOk_congr {s s' : Disk} {r : DReader} (hall : s'.all = s.all)
    (hb : s'.hbase = s.hbase) (hh : s'.hist = s.hist) (h : AofOk s r) : AofOk s' r := by
  unfold AofOk at *
  rw [hall, hb, hh]; exact h

theorem DInv.rdbAppend {s : Disk} (h : DInv s) (chunk : Bytes)
    (hok : s.okOp (.rdbAppend chunk)) : DInv (s.step (.rdbAppend chunk)).1 := by
  obtain ⟨hne, hsz⟩ := hok
  simp only [Disk.step]
  cases hr : s.rdb with
  | none => simpa using h
  | some r =>
    simp only []
    by_cases hw : r.writing = true
    · simp only [hw, if_true]
      have hshape := h.rdbShape r hr
      have hlen := hsz r hr hw
      have hclen : 0 < chunk.length := List.length_pos_iff.mpr hne
      -- the two outcomes share everything but the flags
      have key : ∀ (r2 : DRdb), r2.left = r.left → r2.data = r.data ++ chunk →
          (0 < r2.size ∧ (r2.writing = true → r2.final = false ∧ r2.data.length < r2.size) ∧
            (r2.writing = false → r2.final = true ∧ r2.data.length = r2.size)) →
          DInv { s with rdb := some r2 } := by
        intro r2 hl hd hsh
        constructor
        · exact h.contig
        · exact h.nonempty
        · exact h.embed
        · exact h.lastEnd
        · intro r' l hr' hl'
          simp at hr'; subst hr'
          rw [hl]; exact h.rdbAlign r l hr hl'
        · intro r' hr'; simp at hr'; subst hr'; exact hsh
        · exact h.ids
        · intro x hx ho
          obtain ⟨h1, h2⟩ := h.readersOk x hx ho
          refine ⟨fun ha => AofOk_congr rfl rfl rfl (h1 ha), fun ha => ?_⟩
          obtain ⟨rd, hrd, hp, hout⟩ := h2 ha
          rw [hr] at hrd; cases hrd
          refine ⟨r2, rfl, ?_, ?_⟩
          · rw [hd]; simp; omega
          · rw [hd, List.take_append_of_le_length hp]; exact hout
      split
      · rename_i heq
        apply key
        · rfl
        · rfl
        · simp at heq ⊢
          exact ⟨hshape.1, heq⟩
      · rename_i hneq
        apply key
        · rfl
        · rfl
        · simp at hneq ⊢
          exact ⟨hshape.1, (hshape.2.1 hw).1, by omega⟩
    · simp only [hw]
      simpa using h

theorem DInv.rdbClose {s : Disk} (h : DInv s) : DInv (s.step .rdbClose).1 := by
  simp only [Disk.step]
  cases hr : s.rdb with
  | none => simpa using h
  | some r =>
    simp only []
    by_cases hw : r.writing = true
    · simp only [hw, if_true]
      constructor
      · exact h.contig
      · exact h.nonempty
      · exact h.embed
      · exact h.lastEnd
      · intro r' l hr'; simp at hr'
      · intro r' hr'; simp at hr'
      · show ((closeRdbReaders s.readers).map (·.id)).Nodup
        unfold closeRdbReaders
        rw [map_ids_of_id_pres]; exact h.ids
        intro x; split <;> rfl
      · intro x hx
        simp only [closeRdbReaders] at hx
        obtain ⟨y, hy, rfl⟩ := List.mem_map.mp hx
        by_cases ha : y.isAof = true
        · simp only [ha, if_true]
          intro ho
          obtain ⟨h1, _⟩ := h.readersOk y hy ho
          exact ⟨fun _ => AofOk_congr rfl rfl rfl (h1 ha), fun hf => by rw [ha] at hf; cases hf⟩
        · simp only [ha]
          exact ROk_of_closed (close_isOpen y)
    · simp only [hw]
      simpa using h

/-! ### stream writer -/

theorem firstLeft_append_of_ne {l : List DSeg} (m : List DSeg) (h : l ≠ []) :
    firstLeft (l ++ m) = firstLeft l := by
  cases l with
  | nil => exact absurd rfl h
  | cons a t => rfl

theorem holds_of_cur {r : DReader} (ho : r.isOpen = true) (ha : r.isAof = true) :
    r.holds r.cur = true := by simp [DReader.holds, ho, ha]

theorem holds_of_prev {r : DReader} {p : Nat} (ho : r.isOpen = true) (ha : r.isAof = true)
    (hp : r.prev = some p) : r.holds p = true := by simp [DReader.holds, ho, ha, hp]

theorem DInv.closeLive {s : Disk} (h : DInv s) : DInv s.closeLive := by
  unfold Disk.closeLive
  cases hl : s.live with
  | none => simpa [hl] using h
  | some g =>
    simp only []
    have hall : s.all = s.segs ++ [g] := by simp [Disk.all, hl]
    by_cases he : g.data.isEmpty = true
    · simp only [he, if_true]
      have hge : g.data = [] := List.isEmpty_iff.mp he
      have hcs : Contig s.segs := by
        have := h.contig; rw [hall] at this
        exact ((contig_append_single _ _).mp this).1
      have hlast : ∀ r, lastRight s.segs = some r → r = g.left := by
        have := h.contig; rw [hall] at this
        exact ((contig_append_single _ _).mp this).2
      have hgend : g.right = s.hbase + s.hist.length := by
        apply h.lastEnd; rw [hall, lastRight_append_single]
      constructor
      · simpa [Disk.all] using hcs
      · exact h.nonempty
      · intro x hx
        apply h.embed; rw [hall]; simp [Disk.all] at hx; simp [hx]
      · intro r hr
        simp [Disk.all] at hr
        have := hlast r hr
        simp only [DSeg.right, hge, List.length_nil] at hgend
        dsimp only
        omega
      · intro r l hr hfl
        apply h.rdbAlign r l hr
        simp [Disk.all] at hfl
        rw [hall, firstLeft_append_of_ne]; exact hfl
        intro hnil; rw [hnil] at hfl; simp [firstLeft] at hfl
      · exact h.rdbShape
      · show ((closeReadersOn g.left s.readers).map (·.id)).Nodup
        unfold closeReadersOn
        rw [map_ids_of_id_pres]; exact h.ids
        intro x; split <;> rfl
      · intro x hx
        simp only [closeReadersOn] at hx
        obtain ⟨y, hy, rfl⟩ := List.mem_map.mp hx
        by_cases hh : y.holds g.left = true
        · simp only [hh, if_true]; exact ROk_of_closed (close_isOpen y)
        · simp only [hh]
          intro ho
          obtain ⟨h1, h2⟩ := h.readersOk y hy ho
          refine ⟨fun ha => ?_, fun ha => ?_⟩
          · obtain ⟨⟨g0, hg0, hc0, hb0⟩, hprev, hrest⟩ := h1 ha
            refine ⟨⟨g0, ?_, hc0, hb0⟩, ?_, hrest⟩
            · rw [hall] at hg0
              rcases List.mem_append.mp hg0 with hm | hm
              · simpa [Disk.all] using hm
              · simp at hm; subst hm
                exact absurd (hc0 ▸ holds_of_cur ho ha) hh
            · intro p hp
              obtain ⟨g1, hg1, hl1⟩ := hprev p hp
              refine ⟨g1, ?_, hl1⟩
              rw [hall] at hg1
              rcases List.mem_append.mp hg1 with hm | hm
              · simpa [Disk.all] using hm
              · simp at hm; subst hm
                exact absurd (hl1 ▸ holds_of_prev ho ha hp) hh
          · exact h2 ha
    · simp only [he, Bool.false_eq_true, if_false]
      have hgne : g.data ≠ [] := by
        intro hh; rw [hh] at he; simp at he
      have hall' : ({ s with segs := s.segs ++ [g], live := none } : Disk).all = s.all := by
        simp [Disk.all, hl]
      constructor
      · rw [hall']; exact h.contig
      · intro x hx
        simp at hx
        rcases hx with hx | hx
        · exact h.nonempty x hx
        · subst hx; exact hgne
      · rw [hall']; exact h.embed
      · rw [hall']; exact h.lastEnd
      · rw [hall']; exact h.rdbAlign
      · exact h.rdbShape
      · exact h.ids
      · intro x hx; exact ROk_congr hall' rfl rfl rfl (h.readersOk x hx)

theorem closeLive_live (s : Disk) : s.closeLive.live = none := by
  unfold Disk.closeLive
  cases hl : s.live with
  | none => simp [hl]
  | some g => simp only []; split <;> rfl

theorem closeLive_hist (s : Disk) : s.closeLive.hbase = s.hbase ∧ s.closeLive.hist = s.hist ∧
    s.closeLive.rdb = s.rdb := by
  unfold Disk.closeLive
  cases hl : s.live with
  | none => simp
  | some g => simp only []; split <;> simp

theorem DInv.newAofWriter {s : Disk} (h : DInv s) (off : Nat) (hok : s.okOp (.newAofWriter off)) :
    DInv (s.step (.newAofWriter off)).1 := by
  have h1 := h.closeLive
  have hlive := closeLive_live s
  obtain ⟨hhb, hhh, hhr⟩ := closeLive_hist s
  have hall1 : s.closeLive.all = s.closeLive.segs := by simp [Disk.all, hlive]
  simp only [Disk.okOp] at hok
  simp only [Disk.step]
  -- the new state
  generalize hs1 : s.closeLive = s1 at *
  cases hlr : lastRight s1.segs with
  | some r =>
    -- continuing the held stream
    rw [hlr] at hok
    have hro : r = off := by simpa using hok.symm
    subst hro
    have hne : s1.segs ≠ [] := by intro hh; rw [hh] at hlr; simp [lastRight] at hlr
    simp only [beq_self_eq_true, if_true]
    have hend : r = s1.hbase + s1.hist.length := h1.lastEnd r (by rw [hall1]; exact hlr)
    constructor
    · show Contig (s1.segs ++ [({ left := r, data := [] } : DSeg)])
      rw [contig_append_single]
      refine ⟨by rw [← hall1]; exact h1.contig, ?_⟩
      intro r' hr'; rw [hlr] at hr'; cases hr'; rfl
    · exact h1.nonempty
    · intro g hg
      have hg' : g ∈ s1.segs ++ [({ left := r, data := [] } : DSeg)] := hg
      show s.hbase ≤ g.left ∧ g.right ≤ s.hbase + s.hist.length ∧
        g.data = (s.hist.drop (g.left - s.hbase)).take g.data.length
      rw [← hhb, ← hhh]
      rcases List.mem_append.mp hg' with hm | hm
      · exact h1.embed g (by rw [hall1]; exact hm)
      · simp at hm; subst hm
        simp [DSeg.right]; omega
    · intro r' hr'
      have : lastRight (s1.segs ++ [({ left := r, data := [] } : DSeg)]) = some r' := hr'
      rw [lastRight_append_single] at this
      simp [DSeg.right] at this
      show r' = s.hbase + s.hist.length
      rw [← hhb, ← hhh]; omega
    · intro rd l hrd hfl
      have hfl' : firstLeft (s1.segs ++ [({ left := r, data := [] } : DSeg)]) = some l := hfl
      rw [firstLeft_append_of_ne _ hne] at hfl'
      exact h1.rdbAlign rd l hrd (by rw [hall1]; exact hfl')
    · exact h1.rdbShape
    · show ((closeAofReaders s1.readers).map (·.id)).Nodup
      unfold closeAofReaders
      rw [map_ids_of_id_pres]; exact h1.ids
      intro x; split <;> rfl
    · intro x hx
      have hx' : x ∈ closeAofReaders s1.readers := hx
      simp only [closeAofReaders] at hx'
      obtain ⟨y, hy, rfl⟩ := List.mem_map.mp hx'
      by_cases ha : y.isAof = true
      · simp only [ha, if_true]; exact ROk_of_closed (close_isOpen y)
      · simp only [ha]
        intro ho
        obtain ⟨_, h2⟩ := h1.readersOk y hy ho
        refine ⟨fun hf => absurd hf ha, fun hf => ?_⟩
        exact h2 hf
  | none =>
    -- nothing held: a new history starts at `off`
    rw [hlr] at hok
    have hnil : s1.segs = [] := lastRight_eq_none.mp hlr
    simp only [Bool.false_eq_true, if_false]
    constructor
    · show Contig (s1.segs ++ [({ left := off, data := [] } : DSeg)])
      rw [hnil]; trivial
    · exact h1.nonempty
    · intro g hg
      have hg' : g ∈ s1.segs ++ [({ left := off, data := [] } : DSeg)] := hg
      rw [hnil] at hg'; simp at hg'; subst hg'
      simp [DSeg.right]
    · intro r' hr'
      have : lastRight (s1.segs ++ [({ left := off, data := [] } : DSeg)]) = some r' := hr'
      rw [lastRight_append_single] at this
      simp [DSeg.right] at this
      show r' = off + ([] : Bytes).length
      simp; omega
    · intro rd l hrd hfl
      have hfl' : firstLeft (s1.segs ++ [({ left := off, data := [] } : DSeg)]) = some l := hfl
      rw [hnil] at hfl'; simp [firstLeft] at hfl'
      have hrd' : s.rdb = some rd := by rw [← hhr]; exact hrd
      rw [hrd'] at hok
      simp at hok; omega
    · exact h1.rdbShape
    · show ((closeAofReaders s1.readers).map (·.id)).Nodup
      unfold closeAofReaders
      rw [map_ids_of_id_pres]; exact h1.ids
      intro x; split <;> rfl
    · intro x hx
      have hx' : x ∈ closeAofReaders s1.readers := hx
      simp only [closeAofReaders] at hx'
      obtain ⟨y, hy, rfl⟩ := List.mem_map.mp hx'
      by_cases ha : y.isAof = true
      · simp only [ha, if_true]; exact ROk_of_closed (close_isOpen y)
      · simp only [ha]
        intro ho
        obtain ⟨_, h2⟩ := h1.readersOk y hy ho
        refine ⟨fun hf => absurd hf ha, fun hf => ?_⟩
        exact h2 hf

/-- what an append does to a reader's obligations: the history only grows -/
theorem AofOk_append {s s' : Disk} {r : DReader} (chunk : Bytes)
    (hb : s'.hbase = s.hbase) (hh : s'.hist = s.hist ++ chunk)
    (hsegs : ∀ g ∈ s.all, ∃ g' ∈ s'.all, g'.left = g.left ∧ g.right ≤ g'.right)
    (hbound : ∀ g ∈ s.all, g.right ≤ s.hbase + s.hist.length)
    (h : AofOk s r) : AofOk s' r := by
  obtain ⟨⟨g, hg, hc, hl, hr⟩, hprev, hs, hp, hout⟩ := h
  refine ⟨?_, ?_, by rw [hb]; exact hs, hp, ?_⟩
  · obtain ⟨g', hg', hl', hr'⟩ := hsegs g hg
    exact ⟨g', hg', by rw [hl']; exact hc, by rw [hl']; exact hl, by omega⟩
  · intro p hp'
    obtain ⟨g1, hg1, hl1⟩ := hprev p hp'
    obtain ⟨g', hg', hl', _⟩ := hsegs g1 hg1
    exact ⟨g', hg', by rw [hl']; exact hl1⟩
  · rw [hb, hh, take_drop_append_of_le]
    · exact hout
    · have := hbound g hg; omega

theorem DInv.appendLive {s : Disk} (h : DInv s) (chunk : Bytes) (hcne : chunk ≠ []) :
    DInv (s.appendLive chunk).1 := by
  unfold Disk.appendLive
  split
  · exact h
  · rename_i g hl
    have hall : s.all = s.segs ++ [g] := by simp [Disk.all, hl]
    have hgend : g.right = s.hbase + s.hist.length := by
      apply h.lastEnd; rw [hall, lastRight_append_single]
    have hgemb := h.embed g (by rw [hall]; simp)
    have hcs : Contig s.segs ∧ (∀ r, lastRight s.segs = some r → r = g.left) := by
      have := h.contig; rw [hall] at this
      exact (contig_append_single _ _).mp this
    -- the grown segment is embedded in the grown history
    have hgrow : (g.data ++ chunk) =
        ((s.hist ++ chunk).drop (g.left - s.hbase)).take (g.data ++ chunk).length := by
      have h1 : g.left - s.hbase + g.data.length = s.hist.length := by
        simp only [DSeg.right] at hgend; omega
      have h2 : g.data = s.hist.drop (g.left - s.hbase) := by
        rw [hgemb.2.2, List.take_of_length_le]
        simp; omega
      rw [List.drop_append_of_le_length (by omega), ← h2, List.take_of_length_le (by simp)]
    have hold : ∀ x ∈ s.segs, s.hbase ≤ x.left ∧ x.right ≤ s.hbase + (s.hist ++ chunk).length ∧
        x.data = ((s.hist ++ chunk).drop (x.left - s.hbase)).take x.data.length := by
      intro x hx
      obtain ⟨e1, e2, e3⟩ := h.embed x (by rw [hall]; simp [hx])
      refine ⟨e1, by simp; omega, ?_⟩
      rw [take_drop_append_of_le]
      · exact e3
      · simp only [DSeg.right] at e2; omega
    have hbound : ∀ x ∈ s.all, x.right ≤ s.hbase + s.hist.length := fun x hx => (h.embed x hx).2.1
    simp only []
    split
    · -- rotation
      rename_i hrot
      simp only []
      constructor
      · show Contig ((s.segs ++ [{ g with data := g.data ++ chunk }]) ++
            [({ left := ({ g with data := g.data ++ chunk } : DSeg).right, data := [] } : DSeg)])
        rw [contig_append_single, contig_append_single]
        refine ⟨⟨hcs.1, hcs.2⟩, ?_⟩
        intro r hr; rw [lastRight_append_single] at hr; cases hr; rfl
      · intro x hx
        have hx' : x ∈ s.segs ++ [{ g with data := g.data ++ chunk }] := hx
        rcases List.mem_append.mp hx' with hm | hm
        · exact h.nonempty x hm
        · simp at hm; subst hm
          simp; intro _; exact hcne
      · intro x hx
        have hx' : x ∈ (s.segs ++ [{ g with data := g.data ++ chunk }]) ++
            [({ left := ({ g with data := g.data ++ chunk } : DSeg).right, data := [] } : DSeg)] := hx
        show s.hbase ≤ x.left ∧ x.right ≤ s.hbase + (s.hist ++ chunk).length ∧
          x.data = ((s.hist ++ chunk).drop (x.left - s.hbase)).take x.data.length
        rcases List.mem_append.mp hx' with hm | hm
        · rcases List.mem_append.mp hm with hm | hm
          · exact hold x hm
          · simp at hm; subst hm
            refine ⟨hgemb.1, ?_, hgrow⟩
            simp only [DSeg.right] at hgend ⊢
            simp; omega
        · simp at hm; subst hm
          simp only [DSeg.right] at hgend ⊢
          simp; omega
      · intro r hr
        have hr' : lastRight ((s.segs ++ [{ g with data := g.data ++ chunk }]) ++
            [({ left := ({ g with data := g.data ++ chunk } : DSeg).right, data := [] } : DSeg)]) = some r := hr
        rw [lastRight_append_single] at hr'
        show r = s.hbase + (s.hist ++ chunk).length
        simp only [DSeg.right] at hgend hr'
        simp at hr' ⊢; omega
      · intro rd l hrd hfl
        apply h.rdbAlign rd l hrd
        have hfl' : firstLeft ((s.segs ++ [{ g with data := g.data ++ chunk }]) ++
            [({ left := ({ g with data := g.data ++ chunk } : DSeg).right, data := [] } : DSeg)]) = some l := hfl
        rw [hall]
        cases hsg : s.segs with
        | nil => rw [hsg] at hfl'; simpa [firstLeft] using hfl'
        | cons a t => rw [hsg] at hfl'; simpa [firstLeft] using hfl'
      · exact h.rdbShape
      · exact h.ids
      · intro x hx ho
        obtain ⟨h1, h2⟩ := h.readersOk x hx ho
        refine ⟨fun ha => ?_, fun ha => h2 ha⟩
        refine AofOk_append (s := s) chunk ?_ ?_ ?_ hbound (h1 ha)
        · rfl
        · rfl
        intro y hy
        rw [hall] at hy
        rcases List.mem_append.mp hy with hm | hm
        · exact ⟨y, by simp [Disk.all]; left; exact hm, rfl, Nat.le_refl _⟩
        · simp at hm; subst hm
          refine ⟨{ y with data := y.data ++ chunk }, by simp [Disk.all], rfl, ?_⟩
          simp [DSeg.right]
    · -- no rotation
      simp only []
      constructor
      · show Contig (s.segs ++ [{ g with data := g.data ++ chunk }])
        rw [contig_append_single]
        exact ⟨hcs.1, hcs.2⟩
      · exact h.nonempty
      · intro x hx
        have hx' : x ∈ s.segs ++ [{ g with data := g.data ++ chunk }] := hx
        show s.hbase ≤ x.left ∧ x.right ≤ s.hbase + (s.hist ++ chunk).length ∧
          x.data = ((s.hist ++ chunk).drop (x.left - s.hbase)).take x.data.length
        rcases List.mem_append.mp hx' with hm | hm
        · exact hold x hm
        · simp at hm; subst hm
          refine ⟨hgemb.1, ?_, hgrow⟩
          simp only [DSeg.right] at hgend ⊢
          simp; omega
      · intro r hr
        have hr' : lastRight (s.segs ++ [{ g with data := g.data ++ chunk }]) = some r := hr
        rw [lastRight_append_single] at hr'
        show r = s.hbase + (s.hist ++ chunk).length
        simp only [DSeg.right] at hgend hr'
        simp at hr' ⊢; omega
      · intro rd l hrd hfl
        apply h.rdbAlign rd l hrd
        have hfl' : firstLeft (s.segs ++ [{ g with data := g.data ++ chunk }]) = some l := hfl
        rw [hall]
        cases hsg : s.segs with
        | nil => rw [hsg] at hfl'; simpa [firstLeft] using hfl'
        | cons a t => rw [hsg] at hfl'; simpa [firstLeft] using hfl'
      · exact h.rdbShape
      · exact h.ids
      · intro x hx ho
        obtain ⟨h1, h2⟩ := h.readersOk x hx ho
        refine ⟨fun ha => ?_, fun ha => h2 ha⟩
        refine AofOk_append (s := s) chunk ?_ ?_ ?_ hbound (h1 ha)
        · rfl
        · rfl
        intro y hy
        rw [hall] at hy
        rcases List.mem_append.mp hy with hm | hm
        · exact ⟨y, by simp [Disk.all]; left; exact hm, rfl, Nat.le_refl _⟩
        · simp at hm; subst hm
          refine ⟨{ y with data := y.data ++ chunk }, by simp [Disk.all], rfl, ?_⟩
          simp [DSeg.right]

theorem DInv.aofAppend {s : Disk} (h : DInv s) (chunk : Bytes) (hok : s.okOp (.aofAppend chunk)) :
    DInv (s.step (.aofAppend chunk)).1 := by
  have hcne : chunk ≠ [] := hok
  have := h.appendLive chunk hcne
  simp only [Disk.step]
  cases hp : s.appendLive chunk with
  | mk s' ok =>
    rw [hp] at this
    cases ok with
    | true => simpa using this
    | false => simpa using h

end GunYu.Store
