/-
  C17 — one sender life, on the sender model's abstract records, as a single statement collected
  from the sender's theorems (IMPORTED, not re-proved):
    Props.C02  crash_resume_db_resumed / resumed_wire   (the unique largest offset survives every
               crash point of a resumed run; the positions written are at or above the start),
    Props.C02Lives  crash_cut_resumed, Proofs.TwoRuns  (the database of the new position is a real one),
    Props.C07  cp_offset_has_runid                     (a stored offset is never without its run id).
-/
import GunYu.Props.C02Start

namespace GunYu.BookSys
open GunYu GunYu.Sender GunYu.Target GunYu.Props

/-- the hypotheses on the stream a life replays (those of `Props.C02.Lives`): the source stream
    after the start offset `X`, parsed by the real parser resumed in database `d` -/
structure LifeHyp (pc : PCfg) (sc : SCfg) (raws : List Raw) (X d : Int) (evs : List Ev) : Prop where
  items : itemsOf evs = parserItems { pc with startDbId := d } X raws
  sorted : (raws.map (·.off)).Pairwise (· < ·)
  above : ∀ r ∈ raws, X < r.off
  nodone : C01.NoDone evs
  nonest : ItemsNoNested false (parseAll pc { lastSent := X } raws)
  nofail : parseFails pc { lastSent := X } raws = false
  sel : ∀ x ∈ raws, x.cmd = bSelect → ∀ a n, x.args = [a] → atoi? a = some n → 0 ≤ n
  mapnn : ∀ n : Int, 0 ≤ n → 0 ≤ mapDb pc n

theorem life_abs (pc : PCfg) (sc : SCfg) (raws : List Raw) (X d : Int) (evs : List Ev)
    (H : LifeHyp pc sc raws X d evs) (hX : 0 ≤ X) (hd : 0 ≤ d)
    (T : TState) (hq : T.queued = none) (hcur : T.cur = 0) (hu : UniqueMax T.cps d X)
    (hr : RunIdInv T) (k : Nat) :
    ∃ d' Y, 0 ≤ d' ∧ X ≤ Y ∧
      UniqueMax (applyLog T ((run sc initS evs).2.flatten.take k)).cps d' Y ∧
      RunIdInv (applyLog T ((run sc initS evs).2.flatten.take k)) ∧
      (∀ o ∈ cpReqs ((run sc initS evs).2.flatten.take k), X ≤ o) := by
  have hrun : RunIdInv (applyLog T ((run sc initS evs).2.flatten.take k)) := by
    have hev := C07.parser_items_selOK _ X raws evs H.items H.sel
    exact C07.cp_offset_has_runid sc evs hev T hq hcur hr k
  have hlow : ∀ o ∈ cpReqs ((run sc initS evs).2.flatten.take k), X ≤ o := by
    intro o ho
    have hcp := (C02.resumed_wire sc _ raws X evs H.items H.sorted H.above hX).2.1
    rw [cpOffsetsB_bodies _ (run_wf sc initS evs)] at hcp
    have h1 := cpReqs_take_sub _ k o ho
    rw [cpReqs_flatten] at h1
    exact hcp o h1
  obtain ⟨E, hE, hsame, hcase⟩ := C02.crash_resume_db_resumed sc { pc with startDbId := d } raws X evs
    H.items H.sorted H.above hX hd T hq hcur hu k
  rcases hcase with ⟨_, hoff⟩ | ⟨E1, o, E2, hsplit, hlast, hXo, hum⟩
  · refine ⟨d, X, hd, Int.le_refl _, ?_, hrun, hlow⟩
    exact ⟨by rw [hoff]; exact hu.1, fun d' hd' o' h' => hu.2 d' hd' o' (by rw [← hoff]; exact h')⟩
  · refine ⟨_, o, ?_, hXo, hum, hrun, hlow⟩
    -- the database of the new position is a real one
    have hnn0 : ItemsNoNested false (parseAll { pc with startDbId := d } { lastSent := X } raws) := by
      rw [parseAll_setDb]; exact H.nonest
    have hnf0 : parseFails { pc with startDbId := d } { lastSent := X } raws = false := by
      rw [parseFails_setDb]; exact H.nofail
    obtain ⟨_, _, _, _, hd1, _⟩ := C02.crash_cut_resumed { pc with startDbId := d } sc raws X evs
      H.items H.sorted H.above hX H.nodone hnn0 hnf0 E E1 E2 o hE hsplit
    have hwf := run_wf sc initS evs
    have hplain1 : ∀ r ∈ E1, Plain r = true := fun r hr =>
      bodies_plain _ hwf r (hE.subset (by rw [hsplit]; exact List.mem_append_left _ hr))
    rw [(foldl_execReq_seq E1 hplain1 T).1, hcur, ← dataBO_proj, hd1, itemCmdsO_proj,
      seq_parserItems pc d X hd]
    apply seqApplied_db_nonneg _ _ hd
    apply parseAll_select_db_nonneg pc _ _ _ H.mapnn
    intro x hx
    exact H.sel x (List.mem_filter.mp hx).1

/-- the positions a session writes never decrease along the wire (imported: Props.C02 `wire_ordered`) -/
theorem cpReqs_sorted_of_keys : ∀ (l : List Sender.Req), (keysB l).Pairwise (· ≤ ·) → (cpReqs l).Pairwise (· ≤ ·) := by
  intro l
  induction l with
  | nil => intro _; exact List.Pairwise.nil
  | cons r rest ih =>
    intro h
    unfold keysB at h
    unfold cpReqs
    cases r with
    | cpOffset o =>
      simp only [List.filterMap_cons, keyOfReq, cpOfReq] at h ⊢
      rw [List.pairwise_cons] at h ⊢
      refine ⟨?_, ih h.2⟩
      intro o' ho'
      obtain ⟨x, hx, hxo⟩ := List.mem_filterMap.mp ho'
      cases x with
      | cpOffset o'' =>
        simp only [cpOfReq, Option.some.injEq] at hxo
        subst hxo
        have := h.1 (2 * o'' + 1) (List.mem_filterMap.mpr ⟨_, hx, rfl⟩)
        omega
      | cmd n a off => simp [cpOfReq] at hxo
      | multi => simp [cpOfReq] at hxo
      | exec => simp [cpOfReq] at hxo
      | cpMeta => simp [cpOfReq] at hxo
    | cmd n a off =>
      simp only [List.filterMap_cons, keyOfReq, cpOfReq] at h ⊢
      split at h
      · exact ih h
      · exact ih (List.Pairwise.of_cons h)
    | multi => simp only [List.filterMap_cons, keyOfReq, cpOfReq] at h ⊢; exact ih h
    | exec => simp only [List.filterMap_cons, keyOfReq, cpOfReq] at h ⊢; exact ih h
    | cpMeta => simp only [List.filterMap_cons, keyOfReq, cpOfReq] at h ⊢; exact ih h

theorem keys_flatten (out : List Batch) : keys out = keysB out.flatten := by
  induction out with
  | nil => rfl
  | cons b rest ih =>
    simp only [keys, List.flatMap_cons, List.flatten_cons] at ih ⊢
    rw [keysB_append, ← ih]

theorem life_sorted (pc : PCfg) (sc : SCfg) (raws : List Raw) (X d : Int) (evs : List Ev)
    (H : LifeHyp pc sc raws X d evs) (hX : 0 ≤ X) :
    (cpReqs (run sc initS evs).2.flatten).Pairwise (· ≤ ·) := by
  apply cpReqs_sorted_of_keys
  rw [← keys_flatten]
  exact C02.wire_ordered sc evs (C02.resumed_parser_feeds_smono _ raws X evs H.items H.sorted H.above hX)

end GunYu.BookSys
