/-
  C08 — verification with a live writer: closed segments are verified wherever the
  reader meets them, the segments `hasWriter` answers for are not; the reader delivers
  the bytes of the FILES; whatever it delivers from intact files is the source's.
-/
import GunYu.Model.StoreFsLive
import GunYu.Proofs.StoreFsXSafe

namespace GunYu.StoreFsX
open GunYu GunYu.Store GunYu.StoreFs

/-- the files of these segments are what the index believes: a 16-byte header, then the data -/
def Intact (fs : FS) (segs : List DSeg) : Prop :=
  ∀ g ∈ segs, ∃ hdr : Bytes, hdr.length = headerSize ∧ fs.get (aofName g.left) = some (hdr ++ g.data)

theorem Intact.tail {fs : FS} {g : DSeg} {l : List DSeg} (h : Intact fs (g :: l)) : Intact fs l :=
  fun x hx => h x (List.mem_cons_of_mem _ hx)

theorem drop_hdr {hdr d : Bytes} (hh : hdr.length = headerSize) : (hdr ++ d).drop headerSize = d := by
  rw [List.drop_append_of_le_length (by omega), List.drop_of_length_le (by omega)]; rfl

theorem right_ge_left (g : DSeg) : g.left ≤ g.right := by simp [DSeg.right]


theorem contig_right_le_left {a : DSeg} {l : List DSeg} (hc : Contig (a :: l)) {x : DSeg} (hx : x ∈ l) :
    a.right ≤ x.left := by
  induction l generalizing a with
  | nil => cases hx
  | cons b t ih =>
    have h1 : a.right = b.left := hc.1
    rcases List.mem_cons.mp hx with h | h
    · subst h; omega
    · have := ih hc.tail h
      have := right_ge_left b
      omega


theorem contig_before {A : List DSeg} {x : DSeg} {B : List DSeg} (hc : Contig (A ++ x :: B)) {g : DSeg} (hg : g ∈ A) :
    g.right ≤ x.left := by
  induction A with
  | nil => cases hg
  | cons a A' ih =>
    rcases List.mem_cons.mp hg with h | h
    · subst h
      exact contig_right_le_left (l := A' ++ x :: B) hc (by simp)
    · exact ih hc.tail h


theorem mem_takeWhile_p {α} {p : α → Bool} {l : List α} {x : α} (h : x ∈ l.takeWhile p) : p x = true := by
  induction l with
  | nil => cases h
  | cons a t ih =>
    simp only [List.takeWhile] at h
    cases hp : p a with
    | false => rw [hp] at h; cases h
    | true =>
      rw [hp] at h
      rcases List.mem_cons.mp h with h1 | h1
      · rw [h1]; exact hp
      · exact ih h1


/-- one step of the reader on an intact, contiguous chain -/
theorem serveFromL_cons_intact (fs : FS) (v : Bool) (unv : List Nat) (g h : DSeg) (rest : List DSeg) (off : Nat)
    (hdr : Bytes) (hh : hdr.length = headerSize) (hf : fs.get (aofName g.left) = some (hdr ++ g.data))
    (hnext : g.right = h.left) (hok : (v && !unv.contains g.left && !segVerifyOk (hdr ++ g.data)) = false) :
    serveFromL fs v unv (g :: h :: rest) off =
      (g.data.drop (off - g.left) ++ (serveFromL fs v unv (h :: rest) h.left).1, (serveFromL fs v unv (h :: rest) h.left).2) := by
  simp only [serveFromL, hf, hok, drop_hdr hh]
  have : h.left = g.left + g.data.length := by simp only [DSeg.right] at hnext; omega
  simp [this]

/-- after a restart (nothing live) on an intact chain the reader of Model/StoreFs.lean (`serveFrom`,
    which delivers what the index holds) and the file reader agree -/
theorem serveFromL_nil (fs : FS) (v : Bool) : ∀ (segs : List DSeg) (off : Nat), Contig segs → Intact fs segs →
    serveFromL fs v [] segs off = serveFrom fs v segs off := by
  intro segs
  induction segs with
  | nil => intro off _ _; rfl
  | cons g rest ih =>
    intro off hc hi
    obtain ⟨hdr, hh, hf⟩ := hi g (by simp)
    cases rest with
    | nil =>
      simp only [serveFromL, serveFrom, hf, drop_hdr hh, List.contains_nil, Bool.not_false, Bool.and_true]
      split <;> simp
    | cons h t =>
      have hnext : g.right = h.left := hc.1
      have ih' := ih h.left hc.tail hi.tail
      simp only [serveFrom, hf, List.contains_nil, Bool.not_false, Bool.and_true]
      by_cases hbad : (v && !segVerifyOk (hdr ++ g.data)) = true
      · simp only [serveFromL, hf, hbad, List.contains_nil, Bool.not_false, Bool.and_true, if_true]
      · have hok : (v && !([] : List Nat).contains g.left && !segVerifyOk (hdr ++ g.data)) = false := by
          simpa using hbad
        rw [serveFromL_cons_intact fs v [] g h t off hdr hh hf hnext hok, ih', hnext]
        simp only [hbad]
        rfl

/-- the writer's segment (the last one) is served without looking at its header -/
theorem serveFromL_live_accepted (fs : FS) (v : Bool) (unv : List Nat) (g : DSeg) (off : Nat)
    (file : Bytes) (hf : fs.get (aofName g.left) = some file) (hlive : unv.contains g.left = true) :
    serveFromL fs v unv [g] off = ((file.drop headerSize).drop (off - g.left), ServeEnd.eof) := by
  simp only [serveFromL, hf, hlive]
  simp

/-- following contiguous, intact, truthful segments yields the source's bytes, whatever is verified -/
theorem serveFromL_true (src : Nat → UInt8) (fs : FS) (v : Bool) (unv : List Nat) :
    ∀ (segs : List DSeg) (off : Nat), Contig segs → Intact fs segs → (∀ g ∈ segs, SegTrue src g) →
      (∀ g, segs.head? = some g → g.left ≤ off ∧ off ≤ g.right) →
      ∀ k b, (serveFromL fs v unv segs off).1[k]? = some b → b = src (off + k) := by
  intro segs
  induction segs with
  | nil => intro off _ _ _ _ k b hb; simp [serveFromL] at hb
  | cons g rest ih =>
    intro off hc hi ht hh k b hb
    obtain ⟨hl, hr⟩ := hh g rfl
    obtain ⟨hdr, hhd, hf⟩ := hi g (by simp)
    have hlen : (g.data.drop (off - g.left)).length = g.right - off := by
      simp [DSeg.right]; omega
    have hfirst : ∀ k b, (g.data.drop (off - g.left))[k]? = some b → b = src (off + k) := by
      intro k b hb
      rw [List.getElem?_drop] at hb
      have := ht g (List.mem_cons_self) _ b hb
      rw [this]; congr 1; omega
    cases rest with
    | nil =>
      simp only [serveFromL, hf, drop_hdr hhd] at hb
      split at hb
      · simp at hb
      · exact hfirst k b hb
    | cons h t =>
      have hnext : g.right = h.left := hc.1
      by_cases hbad : (v && !unv.contains g.left && !segVerifyOk (hdr ++ g.data)) = true
      · simp only [serveFromL, hf, hbad, if_true] at hb
        simp at hb
      · have hok : (v && !unv.contains g.left && !segVerifyOk (hdr ++ g.data)) = false := by simpa using hbad
        rw [serveFromL_cons_intact fs v unv g h t off hdr hhd hf hnext hok] at hb
        simp only [] at hb
        by_cases hk : k < g.right - off
        · rw [List.getElem?_append_left (by omega)] at hb
          exact hfirst k b hb
        · rw [List.getElem?_append_right (by omega)] at hb
          have hrest := ih h.left hc.tail hi.tail (fun x hx => ht x (List.mem_cons_of_mem _ hx))
            (by intro x hx; simp at hx; subst hx; exact ⟨Nat.le_refl _, right_ge_left _⟩) _ b hb
          rw [hrest]; congr 1
          rw [hlen]; omega

/-- every byte a verifying reader delivers lies BEFORE a closed segment whose file fails the
    check (the files before it intact), and the reader does not end normally -/
theorem serveFromL_before_corrupt (src : Nat → UInt8) (fs : FS) (unv : List Nat) (pre : List DSeg) (g : DSeg)
    (post : List DSeg) (file : Bytes) (hf : fs.get (aofName g.left) = some file) (hbad : segVerifyOk file = false)
    (hclosed : unv.contains g.left = false) :
    ∀ (off : Nat), Contig (pre ++ g :: post) → Intact fs pre → (∀ a ∈ pre, SegTrue src a) →
      (∀ a, (pre ++ g :: post).head? = some a → a.left ≤ off ∧ off ≤ a.right) →
      (∀ k b, (serveFromL fs true unv (pre ++ g :: post) off).1[k]? = some b → off + k < g.left ∧ b = src (off + k)) ∧
      (serveFromL fs true unv (pre ++ g :: post) off).2 ≠ ServeEnd.eof := by
  induction pre with
  | nil =>
    intro off _ _ _ _
    have : serveFromL fs true unv ([] ++ g :: post) off = ([], ServeEnd.corrupt) := by
      simp only [List.nil_append, serveFromL, hf, hbad, hclosed]
      simp
    rw [this]
    exact ⟨by intro k b hb; simp at hb, by simp⟩
  | cons a t ih =>
    intro off hc hi ht hh
    obtain ⟨hl, hr⟩ := hh a rfl
    obtain ⟨hdr, hhd, hfa⟩ := hi a (by simp)
    have hag : a.right ≤ g.left := contig_right_le_left (l := t ++ g :: post) hc (by simp)
    obtain ⟨h, rest', hm⟩ : ∃ h rest', t ++ g :: post = h :: rest' := by
      cases t with
      | nil => exact ⟨g, post, rfl⟩
      | cons x xs => exact ⟨x, xs ++ g :: post, rfl⟩
    have hnext : a.right = h.left := by
      have : Contig (a :: h :: rest') := by rw [← hm]; exact hc
      exact this.1
    have hrec := ih h.left hc.tail hi.tail (fun x hx => ht x (List.mem_cons_of_mem _ hx)) (by
      intro x hx; rw [hm] at hx; simp at hx; subst hx; exact ⟨Nat.le_refl _, right_ge_left _⟩)
    show (∀ k b, (serveFromL fs true unv (a :: (t ++ g :: post)) off).1[k]? = some b →
        off + k < g.left ∧ b = src (off + k)) ∧
      (serveFromL fs true unv (a :: (t ++ g :: post)) off).2 ≠ ServeEnd.eof
    rw [hm] at hrec ⊢
    by_cases hbada : (true && !unv.contains a.left && !segVerifyOk (hdr ++ a.data)) = true
    · have : serveFromL fs true unv (a :: h :: rest') off = ([], ServeEnd.corrupt) := by
        simp only [serveFromL, hfa, hbada, if_true]
      rw [this]
      exact ⟨by intro k b hb; simp at hb, by simp⟩
    · have hok : (true && !unv.contains a.left && !segVerifyOk (hdr ++ a.data)) = false := by simpa using hbada
      rw [serveFromL_cons_intact fs true unv a h rest' off hdr hhd hfa hnext hok]
      refine ⟨?_, hrec.2⟩
      intro k b hb
      simp only [] at hb
      have hlen : (a.data.drop (off - a.left)).length = a.right - off := by
        simp [DSeg.right]; omega
      by_cases hk : k < a.right - off
      · refine ⟨by omega, ?_⟩
        rw [List.getElem?_append_left (by omega), List.getElem?_drop] at hb
        have := ht a (List.mem_cons_self) _ b hb
        rw [this]; congr 1; omega
      · rw [List.getElem?_append_right (by omega)] at hb
        have := hrec.1 _ b hb
        rw [hlen] at this
        refine ⟨by omega, ?_⟩
        rw [this.2]; congr 1; omega

theorem intact_of_filesOk {s : Disk} {fs : FS} (h : FilesOk s fs) : Intact fs s.all := h

/-- the chain a reader opened at `off` follows on a live index: a suffix of the index that
    starts with the segment holding `off` -/
theorem live_chain {d : Disk} (hd : DInv d) {off : Nat} {x : DSeg} (hi : indexAof d.all off = some x) :
    ∃ A B, d.all = A ++ x :: B ∧ d.all.dropWhile (fun y => y.left != x.left) = x :: B ∧ x.left ≤ off ∧ off ≤ x.right := by
  obtain ⟨hx, hl, hr⟩ := indexAof_some hi
  have hsplit := (List.takeWhile_append_dropWhile (p := fun y : DSeg => y.left != x.left) (l := d.all)).symm
  have hxin : x ∈ d.all.dropWhile (fun y => y.left != x.left) := by
    rw [hsplit] at hx
    rcases List.mem_append.mp hx with h | h
    · have := mem_takeWhile_p h
      simp at this
    · exact h
  obtain ⟨B, hB⟩ : ∃ B, d.all.dropWhile (fun y => y.left != x.left) = x :: B := by
    cases hdw : d.all.dropWhile (fun y => y.left != x.left) with
    | nil => rw [hdw] at hxin; cases hxin
    | cons y ys =>
      have hy : y.left = x.left := by
        have := List.head?_dropWhile_not (fun y : DSeg => y.left != x.left) d.all
        rw [hdw] at this
        simpa using this
      have hym : y ∈ d.all := by rw [hsplit, hdw]; simp
      have := all_lefts_unique hd hym hx hy
      subst this
      exact ⟨ys, rfl⟩
  exact ⟨_, B, by rw [hB] at hsplit; exact hsplit, hB, hl, hr⟩

/-- a reader on the LIVE index of a store that satisfies the invariants delivers the
    source's bytes (read from the files) -/
theorem serveLive_true {src : Nat → UInt8} (s : XDisk) (hinv : XInv src s) (verify : Bool) (off : Nat)
    (bs : Bytes) (e : ServeEnd) (hs : serveLive s verify off = some (bs, e)) :
    ∀ k b, bs[k]? = some b → b = src (off + k) := by
  unfold serveLive at hs
  cases hi : indexAof s.d.all off with
  | none => simp [hi] at hs
  | some x =>
    simp only [hi, Option.some.injEq] at hs
    obtain ⟨A, B, hall, hdw, hl, hr⟩ := live_chain hinv.dinv hi
    rw [hdw] at hs
    have hsub : ∀ y ∈ x :: B, y ∈ s.d.all := by intro y hy; rw [hall]; simp at hy ⊢; right; exact hy
    have := serveFromL_true src s.fs verify (unverifiedOf s) (x :: B) off
      (contig_suffix A _ (hall ▸ hinv.dinv.contig))
      (fun y hy => hinv.files y (hsub y hy))
      (fun y hy => seg_true hinv.dinv hinv.hist (hsub y hy))
      (by intro y hy; simp at hy; subst hy; exact ⟨hl, hr⟩)
    intro k b hb
    apply this k b
    rw [hs]; exact hb

/-- **on the live index, ONE closed segment's file altered** (`fs'` is the directory with the
    file of `g` replaced by anything that fails the check, every other file as it was): a
    verifying reader opened before the end of `g` reads the intact files before it — the
    source's bytes — delivers nothing at or beyond `g`'s first offset, and does not end
    normally -/
theorem serveLive_altered_closed {src : Nat → UInt8} (s : XDisk) (hinv : XInv src s) (g : DSeg) (hg : g ∈ s.d.all)
    (hclosed : (unverifiedOf s).contains g.left = false) (fs' : FS)
    (hsame : ∀ l, l ≠ g.left → fs'.get (aofName l) = s.fs.get (aofName l)) (file : Bytes)
    (hf : fs'.get (aofName g.left) = some file) (hbad : segVerifyOk file = false) (off : Nat) (hoff : off < g.right)
    (bs : Bytes) (e : ServeEnd) (hs : serveLive ⟨s.d, fs', s.zombies⟩ true off = some (bs, e)) :
    (∀ k b, bs[k]? = some b → off + k < g.left ∧ b = src (off + k)) ∧ e ≠ ServeEnd.eof := by
  unfold serveLive at hs
  cases hi : indexAof s.d.all off with
  | none => simp [hi] at hs
  | some x =>
    simp only [hi, Option.some.injEq] at hs
    obtain ⟨A, B, hall, hdw, hl, hr⟩ := live_chain hinv.dinv hi
    rw [hdw] at hs
    have hcall : Contig (A ++ x :: B) := by rw [← hall]; exact hinv.dinv.contig
    have hgin : g ∈ x :: B := by
      rw [hall] at hg
      rcases List.mem_append.mp hg with h | h
      · have := contig_before hcall h
        omega
      · exact h
    obtain ⟨pre, post, hpp⟩ := List.append_of_mem hgin
    rw [hpp] at hs
    have hc : Contig (pre ++ g :: post) := by rw [← hpp]; exact contig_suffix _ _ hcall
    have hsubpre : ∀ y ∈ pre, y ∈ s.d.all := by
      intro y hy; rw [hall, hpp]; simp; right; left; exact hy
    have hpre_ne : ∀ y ∈ pre, y.left ≠ g.left := by
      intro y hy e'
      have hgall : g ∈ s.d.all := by rw [hall, hpp]; simp
      have := all_lefts_unique hinv.dinv (hsubpre y hy) hgall e'
      subst this
      -- g both in pre and after it: its right end would be ≤ its own left end
      have h1 := contig_before (A := pre) (x := y) (B := post) hc hy
      have h2 := hinv.dinv.nonempty
      have hne : y.data ≠ [] := by
        have hyd : y ∈ (pre ++ y :: post).dropLast ∨ True := Or.inr trivial
        by_cases hpost : post = []
        · -- y is then also the last element of pre ++ [y]: still y ∈ pre means it occurs earlier; earlier
          -- occurrences are never the last element of the index, so y is a closed (non-empty) segment
          have : y ∈ s.d.all.dropLast := by
            rw [hall, hpp, hpost]
            rw [← List.append_assoc, List.dropLast_concat]
            simp; right; exact hy
          exact all_initNonempty hinv.dinv.nonempty y this
        · have : y ∈ s.d.all.dropLast := by
            rw [hall, hpp]
            have : (A ++ (pre ++ y :: post)) = (A ++ pre ++ [y]) ++ post := by simp
            rw [this, List.dropLast_append_of_ne_nil hpost]
            simp
          exact all_initNonempty hinv.dinv.nonempty y this
      have : 0 < y.data.length := List.length_pos_iff.mpr hne
      simp only [DSeg.right] at h1
      omega
    have hint : Intact fs' pre := by
      intro y hy
      obtain ⟨hdr, hh, hget⟩ := hinv.files y (hsubpre y hy)
      exact ⟨hdr, hh, by rw [hsame _ (hpre_ne y hy)]; exact hget⟩
    have hhead : ∀ a, (pre ++ g :: post).head? = some a → a.left ≤ off ∧ off ≤ a.right := by
      intro a ha
      rw [← hpp] at ha
      simp at ha; subst ha
      exact ⟨hl, hr⟩
    have hun : unverifiedOf ⟨s.d, fs', s.zombies⟩ = unverifiedOf s := rfl
    rw [hun] at hs
    obtain ⟨h1, h2⟩ := serveFromL_before_corrupt src fs' (unverifiedOf s) pre g post file hf hbad hclosed off hc hint
      (fun y hy => seg_true hinv.dinv hinv.hist (hsubpre y hy)) hhead
    rw [hs] at h1 h2
    exact ⟨h1, h2⟩

/-- the invariants hold after every script with faults -/
theorem xfinal_inv {src : Nat → UInt8} : ∀ (xs : List XOp) (s : XDisk), wfX s xs → SrcOkX src s xs → XInv src s →
    XInv src (xfinal s xs) := by
  intro xs
  induction xs with
  | nil => intro s _ _ h; exact h
  | cons x rest ih =>
    intro s hwf hsrc hinv
    exact ih _ hwf.2 hsrc.2
      (xstep_ok (src := src) (P := fun _ _ _ => True) s x hinv hwf.1 hsrc.1 (fun _ _ _ _ _ _ => trivial)).inv


end GunYu.StoreFsX
