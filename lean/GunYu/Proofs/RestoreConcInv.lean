/-
  C20 — the invariant of the concurrent replay system (`Sys`, Model/RestoreWorker.lean) and what follows from it.

  Core Lean only.
-/
import GunYu.Proofs.RestoreConc

namespace GunYu.Restore
open GunYu

theorem tgt_applyReq (E : Env) (cur : Nat) (ks : KS) (q : Req) (h : noSel q) :
    applyReq (E.tgt cur ks) q = E.tgt cur (applyReq (E.tgt cur ks) q).ks := by
  apply target_ext
  · rw [applyReq_cur _ _ h]; rfl
  · rw [applyReq_now]; rfl
  · rfl
  · rw [applyReq_bad]; rfl

/-! ### the six kinds of step -/

theorem wstep_halted (E : Env) (c o : Bool) (W : WSt) (ks : KS) (h : W.halted = true) : wstep E c o W ks = (W, ks, false) := by
  simp [wstep, h]

theorem wstep_exec (E : Env) (c o : Bool) (W : WSt) (ks : KS) (q : Req) (qs : List Req) (h : W.halted = false)
    (hp : W.pend = q :: qs) : wstep E c o W ks = ({ W with pend := qs }, (applyReq (E.tgt W.cur ks) q).ks, false) := by
  simp [wstep, h, hp]

theorem wstep_fail (E : Env) (c o : Bool) (W : WSt) (ks : KS) (h : W.halted = false) (hp : W.pend = [])
    (ho : W.out ≠ .ok) : wstep E c o W ks = ({ W with halted := true }, ks, true) := by
  simp [wstep, h, hp, ho]

theorem wstep_observe (E : Env) (c o : Bool) (W : WSt) (ks : KS) (h : W.halted = false) (hp : W.pend = [])
    (ho : W.out = .ok) (hc : c = true ∧ o = true) : wstep E c o W ks = ({ W with halted := true }, ks, false) := by
  simp [wstep, h, hp, ho, hc.1, hc.2]

theorem wstep_drain (E : Env) (c o : Bool) (W : WSt) (ks : KS) (h : W.halted = false) (hp : W.pend = [])
    (ho : W.out = .ok) (hc : ¬ (c = true ∧ o = true)) (hq : W.queue = []) :
    wstep E c o W ks = ({ W with halted := true }, ks, false) := by
  simp only [wstep, h, hp, ho, hq]
  simp [hc]

theorem wstep_take (E : Env) (c o : Bool) (W : WSt) (ks : KS) (e : Entry) (rest : List Entry) (h : W.halted = false)
    (hp : W.pend = []) (ho : W.out = .ok) (hc : ¬ (c = true ∧ o = true)) (hq : W.queue = e :: rest) :
    wstep E c o W ks =
      ({ W with cur := (stepF E.w E.bisync E.pol E.cfg W.cur W.st (E.tgt W.cur ks) e).cur,
                st := (stepF E.w E.bisync E.pol E.cfg W.cur W.st (E.tgt W.cur ks) e).st,
                pend := (stepF E.w E.bisync E.pol E.cfg W.cur W.st (E.tgt W.cur ks) e).reqs,
                queue := rest,
                out := (stepF E.w E.bisync E.pol E.cfg W.cur W.st (E.tgt W.cur ks) e).out,
                done := W.done + 1 }, ks, false) := by
  simp only [wstep, h, hp, ho, hq]
  simp [hc]

theorem soloKs_pend_nil (E : Env) (W : WSt) (ks : KS) (hp : W.pend = []) : soloKs E 0 W ks = ks := by
  unfold soloKs
  rw [hp]
  split <;> simp [applyReqs_nil, List.take_zero, runWorkerF, workerTarget, Env.tgt]

/-- the entry just taken, seen from `soloKs`: replaying `m + 1` entries from before = finishing it and replaying `m` more -/
theorem soloKs_take (E : Env) (W : WSt) (ks : KS) (e : Entry) (rest : List Entry) (m : Nat)
    (hp : W.pend = []) (ho : W.out = .ok) (hq : W.queue = e :: rest) :
    soloKs E m
      { W with cur := (stepF E.w E.bisync E.pol E.cfg W.cur W.st (E.tgt W.cur ks) e).cur,
               st := (stepF E.w E.bisync E.pol E.cfg W.cur W.st (E.tgt W.cur ks) e).st,
               pend := (stepF E.w E.bisync E.pol E.cfg W.cur W.st (E.tgt W.cur ks) e).reqs,
               queue := rest,
               out := (stepF E.w E.bisync E.pol E.cfg W.cur W.st (E.tgt W.cur ks) e).out,
               done := W.done + 1 } ks
      = soloKs E (m + 1) W ks := by
  have hsel := stepF_sel E.w E.bisync E.pol E.cfg W.cur W.st (E.tgt W.cur ks) (E.tgt W.cur ks) e rfl
  have hun := stepF_unsent E.w E.bisync E.pol E.cfg W.cur W.st (E.tgt W.cur ks) e
  unfold soloKs
  simp only [hp, ho, hq, applyReqs_nil, List.take_succ_cons, if_true]
  simp only [runWorkerF]
  generalize stepF E.w E.bisync E.pol E.cfg W.cur W.st (E.tgt W.cur ks) e = r at hsel hun
  have htg : ({ E.tgt W.cur ks with cur := r.cur } : Target) = E.tgt r.cur ks := rfl
  cases hs : r.sent with
  | false =>
    obtain ⟨u1, u2, u3, u4, _⟩ := hun hs
    simp only [if_true, u1, u2, u3, u4, applyReqs_nil]
  | true =>
    simp only [Bool.true_eq_false, if_false]
    cases hout : r.out with
    | ok =>
      simp only [if_true, workerTarget_cons, applyReqs_append, hsel, htg]
    | errExists => simp [workerTarget, applyReqs_append, hsel, htg]
    | errModule => simp [workerTarget, applyReqs_append, hsel, htg]
    | errBad => simp [workerTarget, applyReqs_append, hsel, htg]

/-- everything the invariant needs to know about one step of a worker whose pending requests and pipe concern `K` -/
theorem wstep_facts (E : Env) (K : Bytes → Prop) (c o : Bool) (W : WSt) (ks : KS) (hw : WOK E K W) :
    WOK E K (wstep E c o W ks).1 ∧
    (∀ d k, ¬ K k → (wstep E c o W ks).2.1 d k = ks d k) ∧
    (W.done ≤ (wstep E c o W ks).1.done ∧
      ∀ n, (wstep E c o W ks).1.done ≤ n →
        soloKs E (n - (wstep E c o W ks).1.done) (wstep E c o W ks).1 (wstep E c o W ks).2.1 = soloKs E (n - W.done) W ks) ∧
    ((wstep E c o W ks).1.queue = W.queue.drop ((wstep E c o W ks).1.done - W.done)) ∧
    ((wstep E c o W ks).1.halted = true → (c || (wstep E c o W ks).2.2) = false →
      (W.halted = true → W.queue = [] ∧ W.out = .ok) → (wstep E c o W ks).1.queue = [] ∧ (wstep E c o W ks).1.out = .ok) ∧
    (W.halted = true → (wstep E c o W ks) = (W, ks, false)) ∧
    ((wstep E c o W ks).1.done + (wstep E c o W ks).1.queue.length = W.done + W.queue.length) := by
  cases hh : W.halted with
  | true =>
    rw [wstep_halted E c o W ks hh]
    exact ⟨hw, fun _ _ _ => rfl, ⟨Nat.le_refl _, fun _ _ => rfl⟩, by simp, fun _ _ h => h rfl, fun _ => rfl, rfl⟩
  | false =>
    cases hp : W.pend with
    | cons q qs =>
      rw [wstep_exec E c o W ks q qs hh hp]
      dsimp only
      have hq := hw.pend q (by rw [hp]; exact List.mem_cons_self ..)
      refine ⟨⟨fun r hr => hw.pend r (by rw [hp]; exact List.mem_cons_of_mem _ hr), hw.queue, fun h => ?_⟩, ?_,
        ⟨Nat.le_refl _, fun n _ => ?_⟩, by simp, fun h => ?_, (fun h => by cases h), rfl⟩
      · rw [hh] at h; cases h
      · intro d k hk
        rw [applyReq_ks _ _ hq.1]
        simp only [Env.tgt]
        by_cases hd : d = W.cur
        · simp only [hd, ↓reduceIte]
          unfold objStep
          by_cases hr : reqKey q = some k
          · exact absurd (hq.2 k hr) hk
          · rw [if_neg hr]
        · simp only [hd, ↓reduceIte]
      · have heq : applyReqs (E.tgt W.cur ks) (q :: qs) = applyReqs (E.tgt W.cur (applyReq (E.tgt W.cur ks) q).ks) qs :=
          congrArg (fun t => applyReqs t qs) (tgt_applyReq E W.cur ks q hq.1)
        unfold soloKs
        dsimp only
        rw [hp, heq]
      · rw [hh] at h; cases h
    | nil =>
      by_cases ho : W.out = .ok
      · by_cases hc : c = true ∧ o = true
        · rw [wstep_observe E c o W ks hh hp ho hc]
          refine ⟨⟨hw.pend, hw.queue, fun _ => hp⟩, fun _ _ _ => rfl, ⟨Nat.le_refl _, fun _ _ => rfl⟩, by simp, ?_, (fun h => by cases h), rfl⟩
          intro _ h2; simp [hc.1] at h2
        · cases hq : W.queue with
          | nil =>
            rw [wstep_drain E c o W ks hh hp ho hc hq]
            dsimp only
            exact ⟨⟨hw.pend, hw.queue, fun _ => hp⟩, fun _ _ _ => rfl, ⟨Nat.le_refl _, fun _ _ => rfl⟩, by simp [hq],
              fun _ _ _ => ⟨hq, ho⟩, (fun h => by cases h), by simp [hq]⟩
          | cons e rest =>
            rw [wstep_take E c o W ks e rest hh hp ho hc hq]
            dsimp only
            have he := hw.queue e (by rw [hq]; exact List.mem_cons_self ..)
            refine ⟨⟨?_, fun x hx => hw.queue x (by rw [hq]; exact List.mem_cons_of_mem _ hx), fun h => ?_⟩, fun _ _ _ => rfl,
              ⟨Nat.le_succ _, fun n hn => ?_⟩, by simp [hq], fun h => ?_, (fun h => by cases h), by simp [hq]; omega⟩
            · exact stepF_reqs E.w E.bisync E.pol E.cfg W.cur W.st (E.tgt W.cur ks) e K he
            · rw [hh] at h; cases h
            · have : n - W.done = (n - (W.done + 1)) + 1 := by omega
              rw [this]
              exact soloKs_take E W ks e rest _ hp ho hq
            · rw [hh] at h; cases h
      · rw [wstep_fail E c o W ks hh hp ho]
        refine ⟨⟨hw.pend, hw.queue, fun _ => hp⟩, fun _ _ _ => rfl, ⟨Nat.le_refl _, fun _ _ => rfl⟩, by simp, ?_, (fun h => by cases h), rfl⟩
        intro _ h2; simp at h2

/-! ### the invariant -/

/-- `K i` = the keys of worker `i`; `Q i` = what its pipe held at the start -/
structure Inv (E : Env) (K : Nat → Bytes → Prop) (ks0 : KS) (W0 : List WSt) (S : Sys) : Prop where
  len  : S.ws.length = W0.length
  wok  : ∀ (i : Nat) (W : WSt), S.ws[i]? = some W → WOK E (K i) W
  solo : ∀ (i : Nat) (W Wi : WSt), S.ws[i]? = some W → W0[i]? = some Wi → ∀ n, W.done ≤ n → n ≤ W.done + W.queue.length →
           AgreeOn (K i) (soloKs E (n - W.done) W S.ks) (soloKs E n Wi ks0)
  cnt  : S.cut = false → ∀ (i : Nat) (W Wi : WSt), S.ws[i]? = some W → W0[i]? = some Wi → W.queue = Wi.queue.drop W.done
  free : ∀ d k, (∀ i, i < W0.length → ¬ K i k) → S.ks d k = ks0 d k
  quiet : ∀ (i : Nat) (W : WSt), S.ws[i]? = some W → W.halted = true → S.cancel = false → W.queue = [] ∧ W.out = .ok

theorem Inv.init (E : Env) (K : Nat → Bytes → Prop) (ks0 : KS) (W0 : List WSt)
    (hw : ∀ (i : Nat) (W : WSt), W0[i]? = some W → WOK E (K i) W ∧ W.done = 0 ∧ W.halted = false) :
    Inv E K ks0 W0 { ks := ks0, ws := W0 } where
  len := rfl
  wok := fun i W h => (hw i W h).1
  solo := by
    intro i W Wi h1 h2 n _ _
    have : W = Wi := by rw [h1] at h2; exact Option.some.inj h2
    subst this
    rw [(hw i W h1).2.1]
    intro d k _; rfl
  cnt := by
    intro _ i W Wi h1 h2
    have : W = Wi := by rw [h1] at h2; exact Option.some.inj h2
    subst this
    rw [(hw i W h1).2.1]; rfl
  free := fun _ _ _ => rfl
  quiet := by
    intro i W h1 h2
    rw [(hw i W h1).2.2] at h2; cases h2

theorem Inv.step (E : Env) (K : Nat → Bytes → Prop) (hdis : ∀ i j k, K i k → K j k → i = j) (ks0 : KS) (W0 : List WSt)
    (S : Sys) (h : Inv E K ks0 W0 S) (j : Nat) (obs : Bool) : Inv E K ks0 W0 (Sys.step E S j obs) := by
  unfold Sys.step
  cases hj : S.ws[j]? with
  | none => exact h
  | some Wj =>
    simp only
    have hjlt : j < S.ws.length := by
      rcases List.getElem?_eq_some_iff.mp hj with ⟨hlt, _⟩; exact hlt
    obtain ⟨f1, f2, ⟨f3a, f3⟩, f4, f5, _, f7⟩ := wstep_facts E (K j) S.cancel obs Wj S.ks (h.wok j Wj hj)
    generalize wstep E S.cancel obs Wj S.ks = r at f1 f2 f3a f3 f4 f5 f7
    have hget : ∀ i, (S.ws.set j r.1)[i]? = if j = i then some r.1 else S.ws[i]? := by
      intro i
      rw [List.getElem?_set]
      by_cases hji : j = i
      · subst hji; simp [hjlt]
      · simp [hji]
    refine ⟨by simp [h.len], ?_, ?_, ?_, ?_, ?_⟩
    · intro i W hi
      rw [hget] at hi
      by_cases hji : j = i
      · subst hji; simp at hi; subst hi; exact f1
      · simp [hji] at hi; exact h.wok i W hi
    · intro i W Wi hi hi0 n hn hb
      rw [hget] at hi
      by_cases hji : j = i
      · subst hji
        simp at hi; subst hi
        simp only
        rw [f3 n hn]
        exact h.solo j Wj Wi hj hi0 n (Nat.le_trans f3a hn) (by omega)
      · simp [hji] at hi
        have hag : AgreeOn (K i) r.2.1 S.ks := by
          intro d k hk
          exact f2 d k (fun hkj => hji (hdis j i k hkj hk))
        intro d k hk
        rw [soloKs_local E (K i) (n - W.done) W (h.wok i W hi) r.2.1 S.ks hag d k hk]
        exact h.solo i W Wi hi hi0 n hn hb d k hk
    · intro hcut i W Wi hi hi0
      rw [hget] at hi
      by_cases hji : j = i
      · subst hji
        simp at hi; subst hi
        rw [f4, h.cnt hcut j Wj Wi hj hi0, List.drop_drop]
        congr 1; omega
      · simp [hji] at hi; exact h.cnt hcut i W Wi hi hi0
    · intro d k hfree
      simp only
      rw [f2 d k (hfree j (by rw [← h.len]; exact hjlt))]
      exact h.free d k hfree
    · intro i W hi hh hc
      rw [hget] at hi
      simp only at hc
      by_cases hji : j = i
      · subst hji
        simp at hi; subst hi
        exact f5 hh hc (fun hwh => h.quiet j Wj hj hwh (by
          cases hcc : S.cancel with
          | false => rfl
          | true => rw [hcc] at hc; simp at hc))
      · simp [hji] at hi
        exact h.quiet i W hi hh (by
          cases hcc : S.cancel with
          | false => rfl
          | true => rw [hcc] at hc; simp at hc)

theorem soloKs_trunc (E : Env) (m k : Nat) (W : WSt) (ks : KS) (h : m ≤ (W.queue.take k).length) :
    soloKs E m { W with queue := W.queue.take k } ks = soloKs E m W ks := by
  have hk : m ≤ k := Nat.le_trans h (by simp [List.length_take]; omega)
  unfold soloKs
  simp only [List.take_take, Nat.min_eq_left hk]

theorem move_close_none (E : Env) (S : Sys) (j k : Nat) (h : S.ws[j]? = none) : Sys.move E S (.close j k) = S := by
  simp [Sys.move, h]

theorem move_close_some (E : Env) (S : Sys) (j k : Nat) (W : WSt) (h : S.ws[j]? = some W) :
    Sys.move E S (.close j k) = { S with ws := S.ws.set j { W with queue := W.queue.take k }, cut := true } := by
  simp [Sys.move, h]

/-- the environment's moves keep the invariant: a cancel from outside, a pipe closed after a prefix -/
theorem Inv.move (E : Env) (K : Nat → Bytes → Prop) (hdis : ∀ i j k, K i k → K j k → i = j) (ks0 : KS) (W0 : List WSt)
    (S : Sys) (h : Inv E K ks0 W0 S) (m : Move) : Inv E K ks0 W0 (Sys.move E S m) := by
  cases m with
  | work i obs => exact Inv.step E K hdis ks0 W0 S h i obs
  | cancel =>
    exact ⟨h.len, h.wok, h.solo, h.cnt, h.free, fun _ _ _ _ hc => by cases hc⟩
  | close j k =>
    cases hj : S.ws[j]? with
    | none => rw [move_close_none E S j k hj]; exact h
    | some Wj =>
      rw [move_close_some E S j k Wj hj]
      have hjlt : j < S.ws.length := (List.getElem?_eq_some_iff.mp hj).1
      have hget : ∀ i, (S.ws.set j { Wj with queue := Wj.queue.take k })[i]? =
          if j = i then some { Wj with queue := Wj.queue.take k } else S.ws[i]? := by
        intro i
        rw [List.getElem?_set]
        by_cases hji : j = i
        · subst hji; simp [hjlt]
        · simp [hji]
      have hwj := h.wok j Wj hj
      refine ⟨by simp [h.len], ?_, ?_, ?_, h.free, ?_⟩
      · intro i W hi
        rw [hget] at hi
        by_cases hji : j = i
        · subst hji; simp at hi; subst hi
          exact ⟨hwj.pend, fun e he => hwj.queue e (List.mem_of_mem_take he), hwj.halt⟩
        · simp [hji] at hi; exact h.wok i W hi
      · intro i W Wi hi hi0 n hn hb
        rw [hget] at hi
        by_cases hji : j = i
        · subst hji; simp at hi; subst hi
          simp only at hn hb ⊢
          rw [soloKs_trunc E (n - Wj.done) k Wj S.ks (by omega)]
          refine h.solo j Wj Wi hj hi0 n hn ?_
          have : (Wj.queue.take k).length ≤ Wj.queue.length := by simp [List.length_take]; omega
          omega
        · simp [hji] at hi; exact h.solo i W Wi hi hi0 n hn hb
      · intro hc; cases hc
      · intro i W hi hh hc
        rw [hget] at hi
        by_cases hji : j = i
        · subst hji; simp at hi; subst hi
          obtain ⟨q1, q2⟩ := h.quiet j Wj hj hh hc
          exact ⟨by simp [q1], q2⟩
        · simp [hji] at hi; exact h.quiet i W hi hh hc

theorem Inv.run (E : Env) (K : Nat → Bytes → Prop) (hdis : ∀ i j k, K i k → K j k → i = j) (ks0 : KS) (W0 : List WSt) :
    ∀ (sched : List Move) (S : Sys), Inv E K ks0 W0 S → Inv E K ks0 W0 (Sys.run E S sched)
  | [], _, h => h
  | m :: rest, S, h => Inv.run E K hdis ks0 W0 rest _ (Inv.move E K hdis ks0 W0 S h m)

/-- at an entry boundary of worker `i` (nothing pending — in particular once it has halted, for whatever reason), the
    cells of ITS keys hold exactly what worker `i`, ALONE on the initial keyspace, makes of the entries it has taken -/
theorem Inv.boundary (E : Env) (K : Nat → Bytes → Prop) (ks0 : KS) (W0 : List WSt) (S : Sys) (h : Inv E K ks0 W0 S)
    (i : Nat) (W Wi : WSt) (hi : S.ws[i]? = some W) (hi0 : W0[i]? = some Wi) (hp : W.pend = []) :
    AgreeOn (K i) S.ks (soloKs E W.done Wi ks0) := by
  have := h.solo i W Wi hi hi0 W.done (Nat.le_refl _) (Nat.le_add_right _ _)
  rw [Nat.sub_self, soloKs_pend_nil E W S.ks hp] at this
  exact this

/-- what one move does to a halted worker and to the cells of its keys: nothing -/
theorem move_halted (E : Env) (K : Nat → Bytes → Prop) (hdis : ∀ i j k, K i k → K j k → i = j) (ks0 : KS) (W0 : List WSt)
    (S : Sys) (h : Inv E K ks0 W0 S) (m : Move) (i : Nat) (W : WSt) (hi : S.ws[i]? = some W) (hh : W.halted = true) :
    (∃ W', (Sys.move E S m).ws[i]? = some W' ∧ W'.halted = true) ∧ ∀ d k, K i k → (Sys.move E S m).ks d k = S.ks d k := by
  cases m with
  | cancel => exact ⟨⟨W, hi, hh⟩, fun _ _ _ => rfl⟩
  | close j k =>
    cases hj : S.ws[j]? with
    | none => rw [move_close_none E S j k hj]; exact ⟨⟨W, hi, hh⟩, fun _ _ _ => rfl⟩
    | some Wj =>
      rw [move_close_some E S j k Wj hj]
      have hjlt : j < S.ws.length := (List.getElem?_eq_some_iff.mp hj).1
      refine ⟨?_, fun _ _ _ => rfl⟩
      by_cases hji : j = i
      · subst hji
        have : Wj = W := by rw [hj] at hi; exact Option.some.inj hi
        subst this
        exact ⟨{ Wj with queue := Wj.queue.take k }, by rw [List.getElem?_set]; simp [hjlt], hh⟩
      · exact ⟨W, by rw [List.getElem?_set]; simp [hji, hi], hh⟩
  | work j obs =>
    show (∃ W', (Sys.step E S j obs).ws[i]? = some W' ∧ W'.halted = true) ∧ ∀ d k, K i k → (Sys.step E S j obs).ks d k = S.ks d k
    unfold Sys.step
    cases hj : S.ws[j]? with
    | none => exact ⟨⟨W, hi, hh⟩, fun _ _ _ => rfl⟩
    | some Wj =>
      simp only
      have hjlt : j < S.ws.length := (List.getElem?_eq_some_iff.mp hj).1
      obtain ⟨_, f2, _, _, _, f6, _⟩ := wstep_facts E (K j) S.cancel obs Wj S.ks (h.wok j Wj hj)
      by_cases hji : j = i
      · subst hji
        have : Wj = W := by rw [hj] at hi; exact Option.some.inj hi
        subst this
        rw [f6 hh]
        refine ⟨⟨Wj, ?_, hh⟩, ?_⟩
        · show (S.ws.set j Wj)[j]? = some Wj
          rw [List.getElem?_set]; simp [hjlt]
        · intro _ _ _; rfl
      · refine ⟨⟨W, ?_, hh⟩, ?_⟩
        · rw [List.getElem?_set]; simp [hji, hi]
        · intro d k hk
          exact f2 d k (fun hkj => hji (hdis j i k hkj hk))

/-- once a worker has halted, the cells of its keys never change again, whatever the others — and the environment — do -/
theorem halted_frozen (E : Env) (K : Nat → Bytes → Prop) (hdis : ∀ i j k, K i k → K j k → i = j) (ks0 : KS) (W0 : List WSt) :
    ∀ (sched : List Move) (S : Sys), Inv E K ks0 W0 S → ∀ (i : Nat) (W : WSt), S.ws[i]? = some W → W.halted = true →
      ∀ d k, K i k → (Sys.run E S sched).ks d k = S.ks d k
  | [], _, _, _, _, _, _ => fun _ _ _ => rfl
  | m :: rest, S, h, i, W, hi, hh => by
    obtain ⟨⟨W', k1, k1h⟩, k2⟩ := move_halted E K hdis ks0 W0 S h m i W hi hh
    have r2 := halted_frozen E K hdis ks0 W0 rest _ (Inv.move E K hdis ks0 W0 S h m) i W' k1 k1h
    exact fun d k hk => (r2 d k hk).trans (k2 d k hk)

end GunYu.Restore
