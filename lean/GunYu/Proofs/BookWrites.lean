/-
  C17 — `Good` is kept by the writers of fields: HSETs of fields of the master id under the current
  key (the sender, the first request of a relabel), `RedisOutput.SetRunId`'s UpdateCheckpoint and
  the start's UpdateCheckpoint (rename), each stopped after any number of requests; and `Good` holds
  after the first start + first SetCheckpoint on an empty target. Core only.
-/
import GunYu.Proofs.BookSteps
import GunYu.Model.BookSys

namespace GunYu.BookSys
open GunYu GunYu.Checkpoint

set_option linter.unusedSimpArgs false
set_option linter.unusedVariables false

/-! ### HSET of fields of the master id under the current key -/

def MasWrite (c : Ctl) (q : Req) : Prop :=
  ∃ db es, q = Req.hsetCp db c.key es ∧ ∀ e ∈ es, EntryOK e ∧ e.rid = c.mas

theorem pend_hset_other {t : Checkpoint.Target} {c : Ctl} {X : Int} {d : Nat} {p : Bytes}
    (P : PendOK t c p X d) (db : Nat) (name : Bytes) (es : List Entry) (hn : name ≠ p) :
    PendOK (applyReq t (Req.hsetCp db name es)) c p X d := by
  have hcp : ∀ db', (applyReq t (Req.hsetCp db name es)).cps db' p = t.cps db' p := by
    intro db'
    rw [applyReq_hsetCp_cps]
    have : ¬ (db' = db ∧ p = name) := fun hc => hn hc.2.symm
    simp [this]
  exact ⟨P.ne, P.p0, P.mem, P.ok.congr hcp, fun db' e he => P.rid db' e (by rw [hcp] at he; exact he), P.unm,
    fun db' => by rw [hcp]; exact P.hasrid db'⟩

theorem frameNR_masWrite {t : Checkpoint.Target} {c : Ctl} {X : Int} {d : Nat} (C : CtlOK c)
    (F : FrameNR t c X d) (q : Req) (hq : MasWrite c q) : FrameNR (applyReq t q) c X d := by
  obtain ⟨db, es, rfl, hes⟩ := hq
  refine ⟨F.hashL, F.hashM, ?_, ?_, ?_, ?_⟩
  · apply strA_applyReq F.str
    exact ⟨C.keyIn, fun e he => ⟨(hes e he).1, (hes e he).2 ▸ C.masIn⟩⟩
  · intro db'
    rw [applyReq_hsetCp_cps]
    split
    · apply NoAfter.hsetMany _ (F.ord db)
      intro e he hk
      exact C.hne ((hes e he).2.symm.trans (congrArg Prod.fst hk))
    · exact F.ord db'
  · intro db'
    rw [applyReq_hsetCp_cps]
    split
    · intro x hx hsx v hv
      rcases mem_hsetMany hx with hx' | hx'
      · rw [offSel_iff, matchId_one] at hsx
        exact absurd ((hes x hx').2.symm.trans hsx.1) C.hne
      · exact F.sle db x hx' hsx v hv
    · exact F.sle db'
  · intro p hp
    exact pend_hset_other (F.pend p hp) db c.key es (F.pend p hp).ne.symm

theorem old_of_masWrite {t : Checkpoint.Target} {c : Ctl} (q : Req) (hq : MasWrite c q) {db : Nat} {n : Bytes}
    {e : Entry} (he : e ∈ (applyReq t q).cps db n) (hr : e.rid ≠ c.mas) : e ∈ t.cps db n := by
  obtain ⟨db0, es, rfl, hes⟩ := hq
  rw [applyReq_hsetCp_cps] at he
  split at he
  · rename_i hc
    rcases mem_hsetMany he with he' | he'
    · exact absurd (hes e he').2 hr
    · rw [hc.1, hc.2]; exact he'
  · exact he

theorem hasKey_mono_hset {t : Checkpoint.Target} (db0 : Nat) (name : Bytes) (es : List Entry) {k : FKey}
    {db : Nat} {n : Bytes} (h : hasKey k (t.cps db n)) :
    hasKey k ((applyReq t (Req.hsetCp db0 name es)).cps db n) := by
  rw [applyReq_hsetCp_cps]
  split
  · rename_i hc
    rw [hasKey_hsetMany]; right; rw [← hc.1, ← hc.2]; exact h
  · exact h

theorem frameNR_masWrites {c : Ctl} {X : Int} {d : Nat} (C : CtlOK c) (rs : List Req) :
    ∀ {t : Checkpoint.Target}, FrameNR t c X d → (∀ q ∈ rs, MasWrite c q) →
      FrameNR (applyAll t rs) c X d ∧
      (∀ db n e, e ∈ (applyAll t rs).cps db n → e.rid ≠ c.mas → e ∈ t.cps db n) ∧
      (∀ db n k, hasKey k (t.cps db n) → hasKey k ((applyAll t rs).cps db n)) ∧
      (applyAll t rs).hash = t.hash := by
  induction rs with
  | nil => intro t F _; exact ⟨F, fun _ _ _ h _ => h, fun _ _ _ h => h, rfl⟩
  | cons q rs ih =>
    intro t F hq
    simp only [applyAll, List.foldl_cons]
    have hq0 := hq q (List.mem_cons_self ..)
    obtain ⟨h1, h2, h3, h4⟩ := ih (frameNR_masWrite C F q hq0)
      (fun q' hq' => hq q' (List.mem_cons_of_mem _ hq'))
    refine ⟨h1, fun db n e he hr => old_of_masWrite q hq0 (h2 db n e he hr) hr, ?_, ?_⟩
    · intro db n k hk
      apply h3
      obtain ⟨db0, es, rfl, _⟩ := hq0
      exact hasKey_mono_hset db0 _ es hk
    · rw [show (List.foldl applyReq (applyReq t q) rs).hash = (applyReq t q).hash from h4]
      obtain ⟨db0, es, rfl, _⟩ := hq0
      rfl

/-! ### the entries `UpdateCheckpoint` writes -/

theorem cpEntries_last (c : CpInfo) (now : Int) :
    ∃ pre, cpEntries c now = pre ++ [⟨c.runId, Kind.offset, intToDec c.offset⟩] := ⟨_, rfl⟩

theorem cpEntries_has_runid {c : CpInfo} {now : Int} (h : c.runId ≠ []) :
    ∃ e ∈ cpEntries c now, e.key = (c.runId, Kind.runid) := by
  refine ⟨⟨c.runId, .runid, c.runId⟩, ?_, rfl⟩
  unfold cpEntries
  simp [h]

theorem mem_hsetMany_last (fs : Cp) (pre : List Entry) (e : Entry) : e ∈ hsetMany fs (pre ++ [e]) := by
  rw [hsetMany_append]
  exact mem_hsetOne_self _ e

/-- all entries of a hash carry one id: no order constraint between two different ids is violated -/
theorem noAfter_of_uniform {N O ρ : Bytes} {fs : Cp} (hne : N ≠ O) (h : ∀ e ∈ fs, e.rid = ρ) :
    NoAfter N O fs := by
  unfold NoAfter
  apply List.pairwise_of_forall_mem_list
  intro a ha b hb hab
  have h1 : a.rid = N := congrArg Prod.fst hab.1
  have h2 : b.rid = O := congrArg Prod.fst hab.2
  exact hne (h1.symm.trans ((h a ha).trans ((h b hb).symm.trans h2)))

/-! ### RedisOutput.SetRunId: UpdateCheckpoint(key, [mas, lab]) -/

/-- the label after `k` requests of the relabel -/
def relabelCtl (c : Ctl) (k : Nat) : Ctl := if 2 ≤ k then { c with lab := c.mas } else c

theorem good_relabel (ver : Bytes) {t : Checkpoint.Target} {c : Ctl} {X : Int} {d : Nat} (G : Good t c X d)
    (hl : c.lab ≠ c.mas) (hp : c.pend = none) (o1 o2 : List Nat) (ho1 : d ∈ o1) (now : Int)
    (hnow : -(2^63 : Int) ≤ now ∧ now < 2^63) (k : Nat) :
    Good (applyAll t ((updateReqs ver t c.key [c.mas, c.sec] o1 o2 now).take k)) (relabelCtl c k) X d := by
  have P := G.updPre_relabel now hnow
  obtain ⟨cc, hgc, hcX, hcq, hfetch⟩ := getCheckpoint_of_holds ver P.holds o1 ho1
  have hshape := updateReqs_shape ver (loc := c.key) o1 o2 now P.hn P.hn0 hgc
  have hbr : c.key ≠ c.key ∨ c.mas ≠ c.lab := Or.inr (Ne.symm hl)
  rw [if_pos hbr] at hshape
  have hsem := update_prefix_inv'' ver P o1 o2 ho1 k
  rw [hshape] at hsem ⊢
  obtain ⟨C, F, hH, hC⟩ := G
  have hlsec : c.lab = c.sec := by rcases C.lab with h | h; exact absurd h hl; exact h
  -- the first request writes fields of the master id under the key
  have hXr : -(2^63 : Int) ≤ cc.offset ∧ cc.offset < 2^63 := by
    obtain ⟨c', hc', hoff', _⟩ := fetch_spec [c.mas, c.sec] (t.cps d c.key) (P.holds.parses d)
    rw [hfetch] at hc'; cases hc'
    rw [hoff']; exact offOf_range _ _
  have hes : ∀ e ∈ cpEntries { cc with runId := c.mas } now, EntryOK e ∧ e.rid = c.mas :=
    cpEntries_ok (c := { cc with runId := c.mas }) hXr hnow
  have hmw : MasWrite c (Req.hsetCp d c.key (cpEntries { cc with runId := c.mas } now)) := ⟨d, _, rfl, hes⟩
  have F1nr := frameNR_masWrite C F.nr _ hmw
  have hrid1 : ∀ db, hasKey (c.mas, Kind.offset)
        ((applyReq t (Req.hsetCp d c.key (cpEntries { cc with runId := c.mas } now))).cps db c.key) →
      hasKey (c.mas, Kind.runid)
        ((applyReq t (Req.hsetCp d c.key (cpEntries { cc with runId := c.mas } now))).cps db c.key) := by
    intro db
    rw [applyReq_hsetCp_cps]
    split
    · intro _
      rw [hasKey_hsetMany]; left
      exact cpEntries_has_runid (c := { cc with runId := c.mas }) C.m0
    · exact F.hasrid db
  have F1 := F1nr.withRid hrid1
  cases k with
  | zero =>
    simp only [List.take_zero, applyAll, List.foldl_nil, relabelCtl]
    exact ⟨C, F, hH, hC⟩
  | succ k =>
  cases k with
  | zero =>
    simp only [List.take_succ_cons, List.take_zero, applyAll, List.foldl_cons, List.foldl_nil, relabelCtl]
    rw [if_neg (by omega)]
    obtain ⟨n', r', _, hh, hH', _, _, _⟩ := hsem
    simp only [List.take_succ_cons, List.take_zero, applyAll, List.foldl_cons, List.foldl_nil] at hh hH'
    have hhash : (applyReq t (Req.hsetCp d c.key (cpEntries { cc with runId := c.mas } now))).hash = t.hash := rfl
    rw [hhash, P.hn] at hh
    have hn' : n' = c.key := by injection hh with hh; injection hh with h1 _; exact h1.symm
    subst hn'
    refine ⟨C, F1, hH', ?_⟩
    -- the label's own fields are untouched
    unfold Carrier
    rw [applyReq_hsetCp_cps]; simp only [and_self, if_true]
    have hns : ∀ e ∈ cpEntries { cc with runId := c.mas } now, matchId [c.lab] e.rid = false := by
      intro e he
      rw [(hes e he).2, ← Bool.not_eq_true, matchId_one]; exact Ne.symm hl
    rw [offOf_hsetMany_irrelevant _ _ _ (fun e he => by simp [offSel, hns e he]),
      ridOf_hsetMany_irrelevant _ _ _ (fun e he => by simp [ridSel, hns e he])]
    exact hC
  | succ k =>
    have h2 : 2 ≤ k + 1 + 1 := by omega
    simp only [relabelCtl, if_pos h2]
    obtain ⟨_, _, _, _, _, _, _, hinv⟩ := hsem
    have hI := hinv hbr h2
    simp only [List.take_succ_cons, applyAll, List.foldl_cons] at hI ⊢
    have C2 : CtlOK { c with lab := c.mas } :=
      ⟨C.hne, C.m0, C.mq, C.sq, Or.inl rfl, C.m0, C.key0, C.keyIn, C.masIn, C.secIn, C.upk, C.s0⟩
    refine ⟨C2, ?_, hI.holds, hI.carrier⟩
    -- the state after the second request
    have F2 : Frame (applyReq (applyReq t (Req.hsetCp d c.key (cpEntries { cc with runId := c.mas } now)))
        (Req.hsetHash c.mas c.key)) { c with lab := c.mas } X d := by
      refine ⟨hlookup_hashSet_self _ _ _, fun h => absurd rfl h,
        strA_applyReq F1.str _ ⟨C.masIn, C.keyIn⟩, F1.ord, F1.sle, F1.hasrid, ?_⟩
      intro p hp'; rw [show ({ c with lab := c.mas } : Ctl).pend = c.pend from rfl, hp] at hp'; cases hp'
    apply frame_dels _ F2
    intro q hq
    have hq' := mem_take hq
    unfold updRest at hq'
    split at hq'
    · rcases List.mem_append.mp hq' with hq' | hq'
      · obtain ⟨db, _, rfl⟩ := List.mem_map.mp hq'
        exact ⟨ksOK_fourKeys _, fun p hp' => by
          rw [show ({ c with lab := c.mas } : Ctl).pend = c.pend from rfl, hp] at hp'; cases hp'⟩
      · split at hq'
        · rename_i hne
          have : q = Req.hdelHash cc.runId := by simpa using hq'
          subst this
          exact hne
        · simp at hq'
    · simp at hq'

/-! ### the start: UpdateCheckpoint(loc, startIds …) — a rename when `loc` is not the current key -/

/-- the control state after `k` requests of a start whose UpdateCheckpoint issues `len` requests -/
def startCtl (c : Ctl) (loc : Bytes) (k len : Nat) : Ctl :=
  if len = 0 then { c with up := true, pend := none }
  else if k = 0 then { c with up := false }
  else if k = 1 then { c with up := false, pend := some loc, names := loc :: c.names }
  else { c with key := loc, up := decide (len ≤ k), pend := none, names := loc :: c.names }

theorem holds_pair {c : Ctl} {a b : Bytes} (hab : (a = c.mas ∧ b = c.sec) ∨ (a = c.sec ∧ b = c.mas))
    {t : Checkpoint.Target} {n : Bytes} {d : Nat} {X : Int} (h : Holds [a, b] t n d X) :
    Holds [c.mas, c.sec] t n d X := by
  rcases hab with ⟨rfl, rfl⟩ | ⟨rfl, rfl⟩
  · exact h
  · exact h.swap

theorem locOk_pair {c : Ctl} {a b : Bytes} (hab : (a = c.mas ∧ b = c.sec) ∨ (a = c.sec ∧ b = c.mas))
    {t : Checkpoint.Target} {n : Bytes} {d : Nat} {X : Int} (h : LocOk [a, b] t n d X) :
    LocOk [c.mas, c.sec] t n d X := by
  rcases hab with ⟨rfl, rfl⟩ | ⟨rfl, rfl⟩
  · exact h
  · exact h.swap

theorem good_start_core (ver : Bytes) {t : Checkpoint.Target} {c : Ctl} {X : Int} {d : Nat} (G : Good t c X d)
    (a b : Bytes) (hab : (a = c.mas ∧ b = c.sec) ∨ (a = c.sec ∧ b = c.mas)) (hal : a = c.lab)
    (loc : Bytes) (hloc : loc = c.key ∨ c.pend = some loc ∨ loc ∉ c.names) (now : Int)
    (P : UpdPre a b loc t c.key a d X now) (o1 o2 : List Nat) (ho1 : d ∈ o1) (k : Nat) :
    Good (applyAll t ((updateReqs ver t loc [a, b] o1 o2 now).take k))
      (startCtl c loc k (updateReqs ver t loc [a, b] o1 o2 now).length) X d := by
  obtain ⟨C, F, hH, hC⟩ := G
  have haIn : a ∈ c.ids := by rcases hab with ⟨rfl, _⟩ | ⟨rfl, _⟩; exact C.masIn; exact C.secIn
  by_cases hk : c.key = loc
  · -- nothing to do: the hash maps the label to the configured key
    have hnoop := updateReqs_noop ver o1 o2 now (show getHash t.hash [a, b] = some (loc, a) from hk ▸ P.hn)
    rw [hnoop]
    simp only [List.take_nil, applyAll, List.foldl_nil, List.length_nil, startCtl, if_true]
    exact ⟨⟨C.hne, C.m0, C.mq, C.sq, C.lab, C.l0, C.key0, C.keyIn, C.masIn, C.secIn, fun _ => rfl, C.s0⟩,
      ⟨F.hashL, F.hashM, F.str, F.ord, F.sle, F.hasrid, fun p hp => by cases hp⟩, hH, hC⟩
  obtain ⟨cc, hgc, hcX, hcq, hfetch⟩ := getCheckpoint_of_holds ver P.holds o1 ho1
  have hshape := updateReqs_shape ver (loc := loc) o1 o2 now P.hn P.hn0 hgc
  have hbr : c.key ≠ loc ∨ a ≠ a := Or.inl hk
  rw [if_pos hbr] at hshape
  have hsem := update_prefix_inv'' ver P o1 o2 ho1 k
  rw [hshape] at hsem ⊢
  have hlen : (Req.hsetCp d loc (cpEntries { cc with runId := a } now) :: Req.hsetHash a loc ::
      updRest c.key cc.runId a loc o2).length ≠ 0 := by simp
  generalize (Req.hsetCp d loc (cpEntries { cc with runId := a } now) :: Req.hsetHash a loc ::
      updRest c.key cc.runId a loc o2).length = L at hlen ⊢
  have hXr : -(2^63 : Int) ≤ cc.offset ∧ cc.offset < 2^63 := by
    obtain ⟨c', hc', hoff', _⟩ := fetch_spec [a, b] (t.cps d c.key) (P.holds.parses d)
    rw [hfetch] at hc'; cases hc'
    rw [hoff']; exact offOf_range _ _
  have hes : ∀ e ∈ cpEntries { cc with runId := a } now, EntryOK e ∧ e.rid = a :=
    cpEntries_ok (c := { cc with runId := a }) hXr P.hnow
  -- what the new key held before: fields of the label only
  have hlocP : c.pend = some loc ∨ loc ∉ c.names := by
    rcases hloc with h | h | h
    · exact absurd h.symm hk
    · exact Or.inl h
    · exact Or.inr h
  have hold : ∀ db, ∀ e ∈ t.cps db loc, e.rid = c.lab := by
    rcases hlocP with h | h
    · exact (F.pend loc h).rid
    · intro db e he; rw [(F.str.names loc h).1 db] at he; cases he
  have hunm : ∀ q ∈ t.hash, q.2 ≠ loc := by
    rcases hlocP with h | h
    · exact (F.pend loc h).unm
    · exact (F.str.names loc h).2
  have holdrid : ∀ db, hasKey (c.mas, Kind.offset) (t.cps db loc) → hasKey (c.mas, Kind.runid) (t.cps db loc) := by
    rcases hlocP with h | h
    · exact (F.pend loc h).hasrid
    · rintro db ⟨e, he, _⟩; rw [(F.str.names loc h).1 db] at he; cases he
  -- the state after the first request
  have hcps1 : ∀ db n, (applyReq t (Req.hsetCp d loc (cpEntries { cc with runId := a } now))).cps db n =
      if db = d ∧ n = loc then hsetMany (t.cps d loc) (cpEntries { cc with runId := a } now) else t.cps db n :=
    fun db n => applyReq_hsetCp_cps t d loc _ db n
  have hkey1 : ∀ db, (applyReq t (Req.hsetCp d loc (cpEntries { cc with runId := a } now))).cps db c.key
      = t.cps db c.key := by
    intro db; rw [hcps1]
    have : ¬ (db = d ∧ c.key = loc) := fun h => hk h.2
    simp [this]
  have hU : ∀ db, ∀ e ∈ (applyReq t (Req.hsetCp d loc (cpEntries { cc with runId := a } now))).cps db loc,
      e.rid = c.lab := by
    intro db e he
    rw [hcps1] at he
    split at he
    · rcases mem_hsetMany he with he' | he'
      · rw [(hes e he').2]; exact hal
      · exact hold d e he'
    · exact hold db e he
  have hL1 : LocOk [a, b] (applyReq t (Req.hsetCp d loc (cpEntries { cc with runId := a } now))) loc d X :=
    (first_facts P hfetch hcX).locok hk
  have hrid1 : ∀ db, hasKey (c.mas, Kind.offset)
        ((applyReq t (Req.hsetCp d loc (cpEntries { cc with runId := a } now))).cps db loc) →
      hasKey (c.mas, Kind.runid)
        ((applyReq t (Req.hsetCp d loc (cpEntries { cc with runId := a } now))).cps db loc) := by
    intro db
    rw [hcps1]
    split
    · rintro ⟨e, he, hke⟩
      have hm : c.mas = c.lab := by
        have h1 : e.rid = c.mas := congrArg Prod.fst hke
        have h2 := hU d e (by rw [hcps1]; simp only [and_self, if_true]; exact he)
        exact h1.symm.trans h2
      rw [hasKey_hsetMany]; left
      obtain ⟨e', he', hke'⟩ := cpEntries_has_runid (c := { cc with runId := a }) (now := now) P.h1
      exact ⟨e', he', by rw [hke']; show (a, Kind.runid) = _; rw [hal, ← hm]⟩
    · exact holdrid db
  have hstr1 : StrA (applyReq t (Req.hsetCp d loc (cpEntries { cc with runId := a } now))) (loc :: c.names) c.ids := by
    apply strA_applyReq (F.str.weaken (fun _ h => List.mem_cons_of_mem _ h) (fun _ h => h))
    exact ⟨List.mem_cons_self .., fun e he => ⟨(hes e he).1, (hes e he).2 ▸ haIn⟩⟩
  cases k with
  | zero =>
    have hctl : startCtl c loc 0 L = { c with up := false } := by
      unfold startCtl; rw [if_neg hlen, if_pos rfl]
    rw [hctl]
    simp only [List.take_zero, applyAll, List.foldl_nil]
    exact good_crash ⟨C, F, hH, hC⟩
  | succ k =>
  cases k with
  | zero =>
    have hctl : startCtl c loc (0 + 1) L = { c with up := false, pend := some loc, names := loc :: c.names } := by
      unfold startCtl; rw [if_neg hlen, if_neg (by omega), if_pos rfl]
    rw [hctl]
    simp only [List.take_succ_cons, List.take_zero, applyAll, List.foldl_cons, List.foldl_nil]
    refine ⟨⟨C.hne, C.m0, C.mq, C.sq, C.lab, C.l0, C.key0, List.mem_cons_of_mem _ C.keyIn, C.masIn, C.secIn,
      (fun h => by cases h), C.s0⟩, ?_, hH.congr hkey1, ?_⟩
    · refine ⟨F.hashL, F.hashM, hstr1, fun db => by rw [hkey1]; exact F.ord db,
        fun db => by rw [hkey1]; exact F.sle db, fun db => by rw [hkey1]; exact F.hasrid db, ?_⟩
      intro p hp
      have : p = loc := by injection hp with hp; exact hp.symm
      subst this
      exact ⟨fun h => hk h.symm, P.hloc, List.mem_cons_self .., locOk_pair hab hL1, hU, hunm, hrid1⟩
    · unfold Carrier; rw [hkey1]; exact hC
  | succ k =>
    have h2 : 2 ≤ k + 1 + 1 := by omega
    have hctl : startCtl c loc (k + 1 + 1) L =
        { c with key := loc, up := decide (L ≤ k + 1 + 1), pend := none, names := loc :: c.names } := by
      unfold startCtl; rw [if_neg hlen, if_neg (by omega), if_neg (by omega)]
    rw [hctl]
    obtain ⟨_, _, _, _, _, _, _, hinv⟩ := hsem
    have hI := hinv hbr h2
    simp only [List.take_succ_cons, applyAll, List.foldl_cons] at hI ⊢
    refine ⟨⟨C.hne, C.m0, C.mq, C.sq, C.lab, C.l0, P.hloc, List.mem_cons_self .., C.masIn, C.secIn, fun _ => rfl, C.s0⟩,
      ?_, holds_pair hab hI.holds, hal ▸ hI.carrier⟩
    -- the state after the second request
    have F2 : Frame (applyReq (applyReq t (Req.hsetCp d loc (cpEntries { cc with runId := a } now)))
        (Req.hsetHash a loc))
        { c with key := loc, up := decide (L ≤ k + 1 + 1), pend := none, names := loc :: c.names } X d := by
      refine ⟨?_, ?_, strA_applyReq hstr1 _ ⟨haIn, List.mem_cons_self ..⟩, ?_, ?_, hrid1, fun p hp => by cases hp⟩
      · show hlookup (hashSet t.hash a loc) c.lab = some loc
        rw [← hal]; exact hlookup_hashSet_self _ _ _
      · intro h
        show Unmapped (hashSet t.hash a loc) c.mas
        exact (F.hashM h).hashSet (fun h' => h (hal ▸ h'.symm))
      · intro db
        exact noAfter_of_uniform C.hne (hU db)
      · intro db x hx hsx v hv
        rw [offSel_iff, matchId_one] at hsx
        have hxl : c.lab = c.sec := (hU db x hx).symm.trans hsx.1
        have hm2 : matchId [a, b] x.rid = true := by
          rw [matchId_pair, hU db x hx, ← hal]; exact Or.inl rfl
        by_cases hdb : db = d
        · subst hdb
          rcases hL1.atd with hat | hat
          · have hcg : offOf [a, b] ((applyReq t (Req.hsetCp db loc (cpEntries { cc with runId := a } now))).cps db loc)
                = offOf [c.sec] ((applyReq t (Req.hsetCp db loc (cpEntries { cc with runId := a } now))).cps db loc) := by
              apply offOf_congr
              intro e he
              apply offSel_of_match
              have he1 : e.rid = a := (hU db e he).trans hal.symm
              have he2 : e.rid = c.sec := (hU db e he).trans hxl
              rw [Bool.eq_iff_iff, matchId_pair, matchId_one]
              exact ⟨fun _ => he2, fun _ => Or.inl he1⟩
            have := offOf_one_of_mem (hstr1.nodup db loc) hx
              (show x.key = (c.sec, Kind.offset) by show (x.rid, x.kind) = _; rw [hsx.1, hsx.2]) hv
            rw [← hcg, hat] at this; omega
          · rw [hat x hx] at hm2; cases hm2
        · have := hL1.below db hdb x hx (by rw [offSel_iff]; exact ⟨hm2, hsx.2⟩) v hv
          omega
    apply frame_dels _ F2
    intro q hq
    have hq' := mem_take hq
    unfold updRest at hq'
    split at hq'
    · rcases List.mem_append.mp hq' with hq' | hq'
      · obtain ⟨db, _, rfl⟩ := List.mem_map.mp hq'
        exact ⟨ksOK_fourKeys _, fun p hp' => by cases hp'⟩
      · split at hq'
        · rename_i hne
          have : q = Req.hdelHash cc.runId := by simpa using hq'
          subst this
          show cc.runId ≠ c.lab
          rw [← hal]; exact hne
        · simp at hq'
    · simp at hq'

/-- **the start** (`syncer.updateCheckpoint`): `UpdateCheckpoint(loc, ids ordered by the hash)`, stopped
    after any number `k` of its requests; `loc` is the current key, the key a cut rename wrote to, or a
    name not used before -/
theorem good_start (ver : Bytes) {t : Checkpoint.Target} {c : Ctl} {X : Int} {d : Nat} (G : Good t c X d)
    (loc : Bytes) (hloc0 : loc ≠ []) (hloc : loc = c.key ∨ c.pend = some loc ∨ loc ∉ c.names)
    (o1 o2 : List Nat) (ho1 : d ∈ o1) (now : Int) (hnow : -(2^63 : Int) ≤ now ∧ now < 2^63) (k : Nat) :
    Good (applyAll t ((updateReqs ver t loc (startIds t.hash [c.mas, c.sec]) o1 o2 now).take k))
      (startCtl c loc k (updateReqs ver t loc (startIds t.hash [c.mas, c.sec]) o1 o2 now).length) X d := by
  rw [G.startIdsEq]
  obtain ⟨P1, P2⟩ := G.updPre_start loc hloc0 hloc now hnow
  by_cases hl : c.lab = c.sec
  · rw [if_pos hl]
    have P := P2 hl
    rw [hl] at P
    exact good_start_core ver G c.sec c.mas (Or.inr ⟨rfl, rfl⟩) hl.symm loc hloc now P o1 o2 ho1 k
  · rw [if_neg hl]
    have hlm : c.lab = c.mas := by rcases G.ctl.lab with h | h; exact h; exact absurd h hl
    have P := P1 hl
    rw [hlm] at P
    exact good_start_core ver G c.mas c.sec (Or.inl ⟨rfl, rfl⟩) hlm.symm loc hloc now P o1 o2 ho1 k

/-! ### the first position: the first start on an EMPTY target, then the first SetCheckpoint -/

def emptyT : Checkpoint.Target := { hash := [], cps := fun _ _ => [] }

/-- `UpdateCheckpoint(loc, [A, z])` on the empty target (nothing stored: a placeholder entry with offset −1 in
    database 0 and the hash entry), then `setCheckpoint(A, X0)` after the snapshot replay -/
def seedTarget (ver loc A z : Bytes) (o1 o2 : List Nat) (now now' X0 : Int) : Checkpoint.Target :=
  applyReq (applyAll emptyT (updateReqs ver emptyT loc [A, z] o1 o2 now)) (seedReq loc A ver X0 now')

def seedCtl (loc A z : Bytes) : Ctl :=
  { key := loc, lab := A, mas := A, sec := z, up := true, pend := none, names := [loc], ids := [A, z] }

theorem boot_reqs (ver loc A z : Bytes) (hloc : loc ≠ []) (o1 o2 : List Nat) (now : Int) :
    updateReqs ver emptyT loc [A, z] o1 o2 now =
      [Req.hsetCp 0 loc (cpEntries { runId := A, offset := -1, version := ver } now), Req.hsetHash A loc] := by
  have hl : ([] : Bytes) ≠ loc := fun h => hloc h.symm
  simp [updateReqs, getHash, hlookup, emptyT, hl, qmark]

theorem good_seed (ver loc A z : Bytes) (hA0 : A ≠ []) (hAq : A ≠ qmark) (hz : A ≠ z) (hzq : z ≠ qmark) (hz0 : z ≠ [])
    (hloc : loc ≠ []) (o1 o2 : List Nat) (now now' X0 : Int)
    (hnow : -(2^63 : Int) ≤ now ∧ now < 2^63) (hnow' : -(2^63 : Int) ≤ now' ∧ now' < 2^63)
    (hX0 : 0 ≤ X0 ∧ X0 < 2^63) :
    Good (seedTarget ver loc A z o1 o2 now now' X0) (seedCtl loc A z) X0 0 := by
  unfold seedTarget
  rw [boot_reqs ver loc A z hloc]
  have hes1 := cpEntries_ok (c := { runId := A, offset := -1, version := ver }) (now := now)
    (show -(2^63 : Int) ≤ (-1 : Int) ∧ (-1 : Int) < 2^63 by decide) hnow
  have hes2 := cpEntries_ok (c := { runId := A, offset := X0, version := ver }) (now := now')
    (show -(2^63 : Int) ≤ X0 ∧ X0 < 2^63 from ⟨by omega, hX0.2⟩) hnow'
  have hstr0 : StrA emptyT [loc] [A, z] := by
    refine ⟨?_, ?_, ⟨[], fun _ _ _ => rfl⟩, ?_, ?_⟩
    · intro db n e he; simp [emptyT] at he
    · intro db n; exact List.nodup_nil
    · intro n _; exact ⟨fun _ => rfl, fun p hp => by simp [emptyT] at hp⟩
    · intro ρ _; exact ⟨fun db n e he => by simp [emptyT] at he, rfl⟩
  have hstr : StrA (applyReq (applyAll emptyT
      [Req.hsetCp 0 loc (cpEntries { runId := A, offset := -1, version := ver } now), Req.hsetHash A loc])
      (seedReq loc A ver X0 now')) [loc] [A, z] := by
    apply strA_applyReq
    · apply strA_applyAll _ hstr0
      intro q hq
      simp only [List.mem_cons, List.not_mem_nil, or_false] at hq
      rcases hq with rfl | rfl
      · exact ⟨by simp, fun e he => ⟨(hes1 e he).1, by rw [(hes1 e he).2]; simp⟩⟩
      · exact ⟨by simp, by simp⟩
    · exact ⟨by simp, fun e he => ⟨(hes2 e he).1, by rw [(hes2 e he).2]; simp⟩⟩
  generalize hs : applyReq (applyAll emptyT
      [Req.hsetCp 0 loc (cpEntries { runId := A, offset := -1, version := ver } now), Req.hsetHash A loc])
      (seedReq loc A ver X0 now') = s at hstr
  have hcps : ∀ db n, s.cps db n = if db = 0 ∧ n = loc then
      hsetMany (hsetMany [] (cpEntries { runId := A, offset := -1, version := ver } now))
        (cpEntries { runId := A, offset := X0, version := ver } now') else [] := by
    intro db n
    rw [← hs]
    unfold seedReq
    rw [applyReq_hsetCp_cps]
    simp only [applyAll, List.foldl_cons, List.foldl_nil]
    have h1 : ∀ db' n', (applyReq (applyReq emptyT
        (Req.hsetCp 0 loc (cpEntries { runId := A, offset := -1, version := ver } now))) (Req.hsetHash A loc)).cps db' n'
        = if db' = 0 ∧ n' = loc then hsetMany [] (cpEntries { runId := A, offset := -1, version := ver } now) else [] := by
      intro db' n'
      show (applyReq emptyT (Req.hsetCp 0 loc (cpEntries { runId := A, offset := -1, version := ver } now))).cps db' n' = _
      rw [applyReq_hsetCp_cps]; rfl
    rw [h1, h1]
    by_cases hc : db = 0 ∧ n = loc
    · simp [hc]
    · simp [hc]
  have hhash : s.hash = hashSet [] A loc := by rw [← hs]; rfl
  have hrid : ∀ db n, ∀ e ∈ s.cps db n, e.rid = A := by
    intro db n e he
    rw [hcps] at he
    split at he
    · rcases mem_hsetMany he with he' | he'
      · exact (hes2 e he').2
      · rcases mem_hsetMany he' with he'' | he''
        · exact (hes1 e he'').2
        · cases he''
    · cases he
  have hzf : NoField z s := fun db n e he h => hz ((hrid db n e he).symm.trans h)
  have hoffmem : (⟨A, Kind.offset, intToDec X0⟩ : Entry) ∈ s.cps 0 loc := by
    rw [hcps]; simp only [and_self, if_true]
    obtain ⟨pre, hpre⟩ := cpEntries_last { runId := A, offset := X0, version := ver } now'
    rw [hpre]; exact mem_hsetMany_last _ _ _
  have hridkey : hasKey (A, Kind.runid) (s.cps 0 loc) := by
    rw [hcps]; simp only [and_self, if_true]
    rw [hasKey_hsetMany]; left
    exact cpEntries_has_runid (c := { runId := A, offset := X0, version := ver }) hA0
  have hcarr : Carrier A s loc 0 X0 := by
    constructor
    · exact offOf_one_of_mem (hstr.nodup 0 loc) hoffmem rfl (Resp.parseInt64_intToDec X0 (by omega) hX0.2)
    · apply ridOf_ne_of_hasKey ((matchId_one A A).mpr rfl) hridkey
      intro x hx hsx
      rw [ridSel_iff] at hsx
      rw [(hstr.ok 0 loc x hx).2 hsx.2, hrid 0 loc x hx]; exact hAq
  have hbelow : ∀ db, db ≠ 0 → OffBelow [A] (s.cps db loc) X0 := by
    intro db hdb x hx
    rw [hcps] at hx
    simp only [hdb, false_and, if_false] at hx
    cases hx
  refine ⟨⟨hz, hA0, hAq, hzq, Or.inl rfl, hA0, hloc, by simp [seedCtl], by simp [seedCtl], by simp [seedCtl],
    fun _ => rfl, hz0⟩, ?_, (holds_fresh hstr hX0.1 hcarr hbelow hzf).swap, hcarr⟩
  refine ⟨?_, fun h => absurd rfl h, hstr, ?_, ?_, ?_, fun p hp => by cases hp⟩
  · show hlookup s.hash A = some loc
    rw [hhash]; exact hlookup_hashSet_self _ _ _
  · intro db
    exact noAfter_of_uniform hz (hrid db loc)
  · intro db x hx hsx
    rw [offSel_iff, matchId_one] at hsx
    exact absurd hsx.1 (hzf db loc x hx)
  · intro db hk
    by_cases hdb : db = 0
    · subst hdb; exact hridkey
    · obtain ⟨e, he, _⟩ := hk
      rw [hcps] at he
      simp only [hdb, false_and, if_false] at he
      cases he

/-- what the seeded target holds: the one entry in database 0 under the key -/
theorem seedTarget_cps (ver loc A z : Bytes) (hloc : loc ≠ []) (o1 o2 : List Nat) (now now' X0 : Int)
    (db : Nat) (n : Bytes) :
    (seedTarget ver loc A z o1 o2 now now' X0).cps db n = if db = 0 ∧ n = loc then
      hsetMany (hsetMany [] (cpEntries { runId := A, offset := -1, version := ver } now))
        (cpEntries { runId := A, offset := X0, version := ver } now') else [] := by
  unfold seedTarget
  rw [boot_reqs ver loc A z hloc]
  unfold seedReq
  rw [applyReq_hsetCp_cps]
  simp only [applyAll, List.foldl_cons, List.foldl_nil]
  have h1 : ∀ db' n', (applyReq (applyReq emptyT
      (Req.hsetCp 0 loc (cpEntries { runId := A, offset := -1, version := ver } now))) (Req.hsetHash A loc)).cps db' n'
      = if db' = 0 ∧ n' = loc then hsetMany [] (cpEntries { runId := A, offset := -1, version := ver } now) else [] := by
    intro db' n'
    show (applyReq emptyT (Req.hsetCp 0 loc (cpEntries { runId := A, offset := -1, version := ver } now))).cps db' n' = _
    rw [applyReq_hsetCp_cps]; rfl
  rw [h1, h1]
  by_cases hc : db = 0 ∧ n = loc
  · simp [hc]
  · simp [hc]

end GunYu.BookSys
