/-
  Helper lemmas for C14, part 4: RebuildBisyncFrontier does not stop early — the rebuilt
  sequence number is the LARGEST one reachable without passing a missing number. Core only.
-/
import GunYu.Proofs.Frontier

namespace GunYu.Frontier
open GunYu

set_option linter.unusedSimpArgs false
set_option linter.unusedVariables false

/-! ### pick -/

theorem pickStep_isSome (n : Int) (acc : Option Rec) (x : Rec) (h : acc.isSome = true) :
    (pickStep n acc x).isSome = true := by
  unfold pickStep
  split
  · exact h
  · split
    · exact h
    · cases acc with
      | none => simp at h
      | some e => simp only; split <;> rfl

theorem pick_foldl_isSome (n : Int) (recs : List Rec) :
    ∀ acc : Option Rec, acc.isSome = true → (recs.foldl (pickStep n) acc).isSome = true := by
  induction recs with
  | nil => intro acc h; exact h
  | cons x recs ih => intro acc h; exact ih _ (pickStep_isSome n acc x h)

theorem pick_foldl_mem (n : Int) (recs : List Rec) (r : Rec) (hr : r ∈ recs) (hs : r.seq = n) (hp : 0 < n) :
    ∀ acc : Option Rec, (recs.foldl (pickStep n) acc).isSome = true := by
  induction recs with
  | nil => exact absurd hr (List.not_mem_nil)
  | cons x recs ih =>
    intro acc
    simp only [List.foldl_cons]
    rcases List.mem_cons.mp hr with rfl | hr'
    · apply pick_foldl_isSome
      unfold pickStep
      have h1 : ¬ r.seq ≤ 0 := by omega
      have h2 : ¬ r.seq ≠ n := fun h => h hs
      rw [if_neg h1, if_neg h2]
      cases acc with
      | none => rfl
      | some e => simp only; split <;> rfl
    · exact ih hr' _

/-- a record with sequence number `n > 0` in the list: `seqMap[n]` is set -/
theorem pick_isSome_of_mem {recs : List Rec} {n : Int} {r : Rec} (hr : r ∈ recs) (hs : r.seq = n)
    (hp : 0 < n) : (pick recs n).isSome = true :=
  pick_foldl_mem n recs r hr hs hp none

/-! ### the advancing loop has fuel enough -/

/-- records with a sequence number beyond `k` -/
def beyond (recs : List Rec) (k : Int) : Nat := (recs.filter (fun r => k < r.seq)).length

theorem beyond_lt {recs : List Rec} {k : Int} {r : Rec} (hr : r ∈ recs) (hs : r.seq = k + 1) :
    beyond recs (k + 1) < beyond recs k := by
  unfold beyond
  induction recs with
  | nil => exact absurd hr (List.not_mem_nil)
  | cons x recs ih =>
    have hle : ∀ l : List Rec, (l.filter (fun r => k + 1 < r.seq)).length ≤ (l.filter (fun r => k < r.seq)).length := by
      intro l
      induction l with
      | nil => simp
      | cons y l ihl =>
        simp only [List.filter_cons]
        by_cases h1 : k + 1 < y.seq
        · have h2 : k < y.seq := by omega
          simp [h1, h2]; exact ihl
        · by_cases h2 : k < y.seq
          · simp [h1, h2]; omega
          · simp [h1, h2]; exact ihl
    simp only [List.filter_cons]
    rcases List.mem_cons.mp hr with rfl | hr'
    · have h1 : ¬ (k + 1 < r.seq) := by omega
      have h2 : k < r.seq := by omega
      simp [h1, h2]
      have := hle recs; omega
    · have := ih hr'
      by_cases h1 : k + 1 < x.seq
      · have h2 : k < x.seq := by omega
        simp [h1, h2]; exact this
      · by_cases h2 : k < x.seq
        · simp [h1, h2]; omega
        · simp [h1, h2]; exact this

theorem beyond_le_length (recs : List Rec) (k : Int) : beyond recs k ≤ recs.length := by
  unfold beyond; exact List.length_filter_le _ _

/-- with fuel for every record beyond the start the loop ends because the next number is missing -/
theorem advance_complete (recs : List Rec) :
    ∀ (fuel : Nat) (cur : Snap), beyond recs cur.seq ≤ fuel →
      pick recs ((advance fuel recs cur).seq + 1) = none := by
  intro fuel
  induction fuel with
  | zero =>
    intro cur hb
    simp only [advance]
    cases hp : pick recs (cur.seq + 1) with
    | none => rfl
    | some r =>
      obtain ⟨hs, _, hm⟩ := pick_some hp
      have := beyond_lt hm hs
      omega
  | succ fuel ih =>
    intro cur hb
    unfold advance
    cases hp : pick recs (cur.seq + 1) with
    | none => simp only; exact hp
    | some r =>
      simp only
      obtain ⟨hs, _, hm⟩ := pick_some hp
      apply ih
      have := beyond_lt hm hs
      have hss : (stepSnap cur r).seq = cur.seq + 1 := by simp [stepSnap, hs]
      rw [hss]; omega

/-! ### minSeq -/

def MinInv (seen : List Rec) (m : Int) : Prop :=
  (m = 0 → ∀ r ∈ seen, r.seq ≤ 0) ∧ (m ≠ 0 → 0 < m ∧ (∃ r ∈ seen, r.seq = m) ∧ ∀ r ∈ seen, 0 < r.seq → m ≤ r.seq)

theorem minSeq_foldl (recs : List Rec) :
    ∀ (seen : List Rec) (m : Int), MinInv seen m →
      MinInv (seen ++ recs)
        (recs.foldl (fun m r => if r.seq ≤ 0 then m else if m = 0 ∨ r.seq < m then r.seq else m) m) := by
  induction recs with
  | nil => intro seen m h; simpa using h
  | cons x recs ih =>
    intro seen m h
    simp only [List.foldl_cons]
    have := ih (seen ++ [x]) (if x.seq ≤ 0 then m else if m = 0 ∨ x.seq < m then x.seq else m) ?_
    · simpa using this
    · obtain ⟨h0, h1⟩ := h
      by_cases hx : x.seq ≤ 0
      · rw [if_pos hx]
        refine ⟨?_, ?_⟩
        · intro hm r hr
          rcases List.mem_append.mp hr with hr | hr
          · exact h0 hm r hr
          · have : r = x := by simpa using hr
            rw [this]; exact hx
        · intro hm
          obtain ⟨a, ⟨r, hr, hrs⟩, c⟩ := h1 hm
          refine ⟨a, ⟨r, List.mem_append_left _ hr, hrs⟩, ?_⟩
          intro r' hr' hp
          rcases List.mem_append.mp hr' with hr' | hr'
          · exact c r' hr' hp
          · have : r' = x := by simpa using hr'
            rw [this] at hp; omega
      · rw [if_neg hx]
        by_cases hc : m = 0 ∨ x.seq < m
        · rw [if_pos hc]
          refine ⟨fun h => by omega, ?_⟩
          intro _
          refine ⟨by omega, ⟨x, by simp, rfl⟩, ?_⟩
          intro r' hr' hp
          rcases List.mem_append.mp hr' with hr' | hr'
          · rcases hc with hc | hc
            · have := h0 hc r' hr'; omega
            · have hm : m ≠ 0 := by
                intro hm; have := h0 hm; omega
              have := (h1 hm).2.2 r' hr' hp; omega
          · have : r' = x := by simpa using hr'
            rw [this]; omega
        · rw [if_neg hc]
          have hm : m ≠ 0 := fun h => hc (Or.inl h)
          refine ⟨fun h => absurd h hm, ?_⟩
          intro _
          obtain ⟨a, ⟨r, hr, hrs⟩, c⟩ := h1 hm
          refine ⟨a, ⟨r, List.mem_append_left _ hr, hrs⟩, ?_⟩
          intro r' hr' hp
          rcases List.mem_append.mp hr' with hr' | hr'
          · exact c r' hr' hp
          · have : r' = x := by simpa using hr'
            rw [this]
            have : ¬ x.seq < m := fun h => hc (Or.inr h)
            omega

/-- `minSeq`: 0 when no record has a positive number, otherwise the smallest positive one -/
theorem minSeq_spec (recs : List Rec) :
    (minSeq recs = 0 → ∀ r ∈ recs, r.seq ≤ 0) ∧
    (minSeq recs ≠ 0 → 0 < minSeq recs ∧ (∃ r ∈ recs, r.seq = minSeq recs) ∧
      ∀ r ∈ recs, 0 < r.seq → minSeq recs ≤ r.seq) := by
  have := minSeq_foldl recs [] 0 ⟨fun _ r hr => absurd hr (List.not_mem_nil), fun h => absurd rfl h⟩
  simp only [List.nil_append] at this
  exact this

theorem minSeq_eq_one_of_mem {recs : List Rec} {r : Rec} (hr : r ∈ recs) (hs : r.seq = 1) :
    minSeq recs = 1 := by
  obtain ⟨h0, h1⟩ := minSeq_spec recs
  by_cases hm : minSeq recs = 0
  · have := h0 hm r hr; omega
  · obtain ⟨a, _, c⟩ := h1 hm
    have := c r hr (by omega); omega

/-! ### rebuild is maximal -/

/-- the frontier a rebuild starts from -/
def baseOf (ver : Bytes) (snap : Option Snap) : Snap :=
  match snap with
  | some s => s
  | none => { runId := [], seq := 0, offset := 0, mtime := 0, version := ver }

theorem baseOf_seq (ver : Bytes) (snap : Option Snap) : (baseOf ver snap).seq = baseSeq snap := by
  cases snap <;> rfl

theorem rebuild_empty (ver : Bytes) (snap : Option Snap) (recs : List Rec) (he : recs.isEmpty = true) :
    rebuild ver snap recs = .ok snap := by
  unfold rebuild; rw [if_pos he]

theorem rebuild_nonempty (ver : Bytes) (snap : Option Snap) (recs : List Rec) (he : ¬ recs.isEmpty = true) :
    rebuild ver snap recs =
      if (baseOf ver snap).seq = 0 ∧ minSeq recs ≠ 1 then .error (minSeq recs)
      else .ok (some (advance recs.length recs (baseOf ver snap))) := by
  unfold rebuild; rw [if_neg he]; cases snap <;> rfl

/-- the rebuilt frontier cannot be advanced: no record carries the next number -/
theorem rebuild_maximal (ver : Bytes) (snap : Option Snap) (recs : List Rec) (res : Snap)
    (h : rebuild ver snap recs = .ok (some res)) : ∀ r ∈ recs, r.seq = res.seq + 1 → res.seq + 1 ≤ 0 := by
  intro r hr hs
  by_cases he : recs.isEmpty = true
  · have : recs = [] := by simpa using he
    rw [this] at hr; exact absurd hr (List.not_mem_nil)
  · rw [rebuild_nonempty ver snap recs he] at h
    split at h
    · exact absurd h (by simp)
    · simp only [Except.ok.injEq, Option.some.injEq] at h
      by_cases hpos : res.seq + 1 ≤ 0
      · exact hpos
      · have hc := advance_complete recs recs.length (baseOf ver snap) (beyond_le_length _ _)
        rw [h] at hc
        have := pick_isSome_of_mem hr hs (by omega)
        rw [hc] at this; exact absurd this (by simp)

/-- when the rebuild reports a gap or nothing, or stays at 0, no record carries number 1 and the
    snapshot (if any) is at sequence 0 -/
theorem rebuild_zero (ver : Bytes) (snap : Option Snap) (recs : List Rec) (hb : 0 ≤ baseSeq snap)
    (h : (∃ m, rebuild ver snap recs = .error m) ∨ rebuild ver snap recs = .ok none ∨
      ∃ f, rebuild ver snap recs = .ok (some f) ∧ f.seq ≤ 0) :
    baseSeq snap = 0 ∧ ∀ r ∈ recs, r.seq ≠ 1 := by
  by_cases he : recs.isEmpty = true
  · have hnil : recs = [] := by simpa using he
    rw [rebuild_empty ver snap recs he] at h
    refine ⟨?_, by rw [hnil]; intro r hr; exact absurd hr (List.not_mem_nil)⟩
    rcases h with ⟨m, h⟩ | h | ⟨f, h, hf⟩
    · exact absurd h (by simp)
    · simp only [Except.ok.injEq] at h; rw [h]; rfl
    · simp only [Except.ok.injEq] at h; rw [h] at hb ⊢; simp only [baseSeq] at hb ⊢; omega
  · rw [rebuild_nonempty ver snap recs he] at h
    by_cases hg : (baseOf ver snap).seq = 0 ∧ minSeq recs ≠ 1
    · refine ⟨by rw [← baseOf_seq ver]; exact hg.1, ?_⟩
      intro r hr hs
      exact hg.2 (minSeq_eq_one_of_mem hr hs)
    · rw [if_neg hg] at h
      rcases h with ⟨m, h⟩ | h | ⟨f, h, hf⟩
      · exact absurd h (by simp)
      · exact absurd h (by simp)
      · simp only [Except.ok.injEq, Option.some.injEq] at h
        obtain ⟨h1, _, _, _, _⟩ := advance_spec recs recs.length (baseOf ver snap)
        rw [h, baseOf_seq] at h1
        have hb0 : baseSeq snap = 0 := by omega
        have hf0 : f.seq = 0 := by omega
        refine ⟨hb0, ?_⟩
        intro r hr hs
        have hc := advance_complete recs recs.length (baseOf ver snap) (beyond_le_length _ _)
        rw [h, hf0] at hc
        have := pick_isSome_of_mem hr hs (by omega)
        simp only [Int.zero_add] at hc
        rw [hc] at this; exact absurd this (by simp)

end GunYu.Frontier
