/-
  C18 — helper lemmas for Model/ClusterNodes.lean: what a successful Put
  sequence guarantees whatever each node answers, the builder's iteration over
  the nodes, and the transaction flag on commands that are not MULTI / EXEC.
-/
import GunYu.Model.ClusterNodes
import GunYu.Proofs.BisyncTxn
import GunYu.Proofs.BisyncCommit

namespace GunYu.BisyncUnit
open GunYu GunYu.Slot

/-! ### one Put -/

theorem txnPut_inv (cv : ClusterView) (anyNode : Option Nat) (t t' : Txn) (c : Cmd)
    (h : txnPut cv anyNode t c = .ok t') :
    (∀ s, t.slot = some s → t'.slot = some s) ∧
    (∀ s, t'.slot = some s → ∀ key ∈ putKeys cv anyNode c, clusterHash key = s) ∧
    (t'.cmds = t.cmds ∨ (t'.cmds = t.cmds ++ [c] ∧ t'.slot.isSome = true)) := by
  unfold txnPut at h
  unfold putKeys
  cases hc : chooseNode cv anyNode c with
  | error e => rw [hc] at h; cases h
  | ok ch =>
    rw [hc] at h
    cases ch with
    | skip =>
      simp only at h
      injection h with h
      subst h
      exact ⟨fun s hs => hs, fun s _ key hk => (by cases hk), Or.inl rfl⟩
    | route node keys =>
      simp only at h ⊢
      cases keys with
      | nil => cases h
      | cons k ks =>
        simp only at h
        split at h
        · cases h
        · rename_i hany
          have hall : ∀ key ∈ k :: ks, clusterHash key = clusterHash k := by
            intro key hk
            rcases List.mem_cons.mp hk with rfl | hk
            · rfl
            · have := hany
              simp only [List.any_eq_true, not_exists, not_and, bne_iff_ne, ne_eq, Decidable.not_not] at this
              exact this key hk
          cases hts : t.slot with
          | some s0 =>
            rw [hts] at h
            simp only at h
            split at h
            · cases h
            · rename_i hs
              split at h
              · cases h
              · injection h with h
                subst h
                have hs' : s0 = clusterHash k := by simpa using hs
                refine ⟨fun s hs2 => (by injection hs2 with hs2; rw [← hs2]), ?_, Or.inr ⟨rfl, rfl⟩⟩
                intro s hs2 key hk
                simp only at hs2
                injection hs2 with hs2
                rw [← hs2, hs']; exact hall key hk
          | none =>
            rw [hts] at h
            simp only at h
            split at h
            · cases h
            · injection h with h
              subst h
              refine ⟨fun s hs2 => (by cases hs2), ?_, Or.inr ⟨rfl, rfl⟩⟩
              intro s hs2 key hk
              simp only at hs2
              injection hs2 with hs2
              rw [← hs2]; exact hall key hk

/-- an accepted Put either skipped the command (nothing validated, batcher
    unchanged) or appended it and holds a slot -/
theorem txnPut_skip_or_slot (cv : ClusterView) (anyNode : Option Nat) (t t' : Txn) (c : Cmd)
    (h : txnPut cv anyNode t c = .ok t') :
    (t' = t ∧ putKeys cv anyNode c = []) ∨ (t'.cmds = t.cmds ++ [c] ∧ t'.slot.isSome = true) := by
  unfold txnPut at h
  unfold putKeys
  cases hc : chooseNode cv anyNode c with
  | error e => rw [hc] at h; cases h
  | ok ch =>
    rw [hc] at h
    cases ch with
    | skip =>
      simp only at h
      injection h with h
      exact Or.inl ⟨h.symm, rfl⟩
    | route node keys =>
      right
      simp only at h
      cases keys with
      | nil => cases h
      | cons k ks =>
        simp only at h
        split at h
        · cases h
        · cases hts : t.slot with
          | some s0 =>
            rw [hts] at h
            simp only at h
            split at h
            · cases h
            · split at h
              · cases h
              · injection h with h
                subst h
                exact ⟨rfl, rfl⟩
          | none =>
            rw [hts] at h
            simp only at h
            split at h
            · cases h
            · injection h with h
              subst h
              exact ⟨rfl, rfl⟩

/-! ### a Put sequence with a node per command -/

theorem txnPutAllN_inv (owner : Nat → Option Nat) (ans : NodeAns) (anyNode : Option Nat)
    (l : List (Cmd × Nat)) (t t' : Txn) (h : txnPutAllN owner ans anyNode t l = .ok t') :
    (∀ s, t.slot = some s → t'.slot = some s) ∧
    (∀ s, t'.slot = some s → ∀ p ∈ l, ∀ key ∈ putKeys ⟨owner, ans p.2⟩ anyNode p.1, clusterHash key = s) ∧
    (∀ c ∈ t'.cmds, c ∈ t.cmds ∨ c ∈ l.map (·.1)) ∧ (∃ ext, t'.cmds = t.cmds ++ ext) := by
  induction l generalizing t with
  | nil =>
    simp only [txnPutAllN] at h
    injection h with h
    subst h
    exact ⟨fun s hs => hs, fun s _ p hp => (by cases hp), fun c hc => Or.inl hc, ⟨[], by simp⟩⟩
  | cons p ps ih =>
    obtain ⟨c, n⟩ := p
    simp only [txnPutAllN] at h
    cases h1 : txnPut ⟨owner, ans n⟩ anyNode t c with
    | error e => rw [h1] at h; cases h
    | ok t1 =>
      rw [h1] at h
      simp only at h
      obtain ⟨a1, a2, _⟩ := txnPut_inv _ anyNode t t1 c h1
      have a3 := txnPut_skip_or_slot _ anyNode t t1 c h1
      obtain ⟨b1, b2, b3, ext, b4⟩ := ih t1 h
      refine ⟨fun s hs => b1 s (a1 s hs), ?_, ?_, ?_⟩
      · intro s hs q hq key hk
        rcases List.mem_cons.mp hq with rfl | hq
        · rcases a3 with ⟨_, a3⟩ | ⟨_, a3⟩
          · rw [a3] at hk; cases hk
          · cases ht1 : t1.slot with
            | none => rw [ht1] at a3; cases a3
            | some s1 =>
              have : t'.slot = some s1 := b1 s1 ht1
              rw [hs] at this
              injection this with this
              rw [this]
              exact a2 s1 ht1 key hk
        · exact b2 s hs q hq key hk
      · intro c' hc'
        rcases b3 c' hc' with hc' | hc'
        · rcases a3 with ⟨a3, _⟩ | ⟨a3, _⟩
          · rw [a3] at hc'; exact Or.inl hc'
          · rw [a3] at hc'
            rcases List.mem_append.mp hc' with hc' | hc'
            · exact Or.inl hc'
            · rw [List.mem_singleton.mp hc']; exact Or.inr (by simp)
        · exact Or.inr (by simp only [List.map_cons, List.mem_cons]; exact Or.inr hc')
      · rcases a3 with ⟨a3, _⟩ | ⟨a3, _⟩
        · exact ⟨ext, by rw [b4, a3]⟩
        · exact ⟨c :: ext, by rw [b4, a3]; simp⟩

/-! ### the builder's iteration -/

theorem iterStep_found (st : IterSt) (a : Fb) (h : st.found = true) : iterStep st a = st := by
  unfold iterStep; rw [h]; rfl

theorem foldl_found (ans : NodeAns) (nodes : List Nat) (cmd : Bytes) (args : List Bytes) (st : IterSt)
    (h : st.found = true) : nodes.foldl (fun st n => iterStep st (ans n cmd args)) st = st := by
  induction nodes with
  | nil => rfl
  | cons n ns ih => simp only [List.foldl_cons, iterStep_found st _ h]; exact ih

/-- invariant of the iteration: what is resolved was named, non-empty, by a node of `all` -/
def IterInv (ans : NodeAns) (all : List Nat) (cmd : Bytes) (args : List Bytes) (st : IterSt) : Prop :=
  st.found = true → ∃ n ∈ all, ans n cmd args = .keys st.resolved ∧ st.resolved ≠ []

theorem iterStep_inv (ans : NodeAns) (all : List Nat) (cmd : Bytes) (args : List Bytes) (n : Nat) (hn : n ∈ all)
    (st : IterSt) (h : IterInv ans all cmd args st) : IterInv ans all cmd args (iterStep st (ans n cmd args)) := by
  unfold iterStep
  by_cases hf : st.found = true
  · rw [if_pos hf]; exact h
  · rw [if_neg hf]
    cases ha : ans n cmd args with
    | err => intro h'; exact absurd h' hf
    | none => exact h
    | keys ks =>
      simp only
      by_cases hk : ks.isEmpty = true
      · rw [if_pos hk]; exact h
      · rw [if_neg hk]
        intro _
        exact ⟨n, hn, ha, by intro e; simp only at e; rw [e] at hk; exact hk rfl⟩

theorem foldl_inv (ans : NodeAns) (all : List Nat) (cmd : Bytes) (args : List Bytes) (l : List Nat)
    (hl : ∀ n ∈ l, n ∈ all) (st : IterSt) (h : IterInv ans all cmd args st) :
    IterInv ans all cmd args (l.foldl (fun st n => iterStep st (ans n cmd args)) st) := by
  induction l generalizing st with
  | nil => exact h
  | cons n ns ih =>
    simp only [List.foldl_cons]
    exact ih (fun m hm => hl m (List.mem_cons_of_mem _ hm)) _ (iterStep_inv ans all cmd args n (hl n (by simp)) st h)

/-- **The builder's answer is some visited node's answer.** When the iteration
    returns keys, a node among those visited named exactly these keys (and they
    are not empty). -/
theorem builderFb_keys (ans : NodeAns) (nodes : List Nat) (cmd : Bytes) (args ks : List Bytes)
    (h : builderFb ans nodes cmd args = .keys ks) : ∃ n ∈ nodes, ans n cmd args = .keys ks ∧ ks ≠ [] := by
  have hinv := foldl_inv ans nodes cmd args nodes (fun n hn => hn) {} (by intro h0; cases h0)
  unfold builderFb iterResult at h
  split at h
  · rename_i hf
    injection h with h
    obtain ⟨n, hn, h1, h2⟩ := hinv hf
    exact ⟨n, hn, by rw [← h]; exact h1, by rw [← h]; exact h2⟩
  · split at h <;> cases h

/-- an empty key list counts as "nothing" (as the resolver takes it) -/
def normFb : Fb → Fb
  | .keys ks => if ks.isEmpty then .none else .keys ks
  | .none => .none
  | .err => .err

/-- uniform nodes: the iteration over a non-empty node list answers what every
    node answers -/
theorem builderFb_uniform (ans : NodeAns) (nodes : List Nat) (hne : nodes ≠ []) (cmd : Bytes) (args : List Bytes)
    (a : Fb) (h : ∀ n ∈ nodes, ans n cmd args = a) :
    builderFb ans nodes cmd args = normFb a := by
  unfold builderFb normFb
  cases nodes with
  | nil => exact absurd rfl hne
  | cons n ns =>
    have hn := h n (by simp)
    simp only [List.foldl_cons]
    cases a with
    | err =>
      have e : iterStep {} (ans n cmd args) = { firstErr := true } := by rw [hn]; rfl
      rw [e]
      have : ∀ (l : List Nat), (∀ m ∈ l, ans m cmd args = .err) →
          l.foldl (fun st m => iterStep st (ans m cmd args)) ({ firstErr := true } : IterSt) = { firstErr := true } := by
        intro l
        induction l with
        | nil => intro _; rfl
        | cons m ms ih =>
          intro hm
          simp only [List.foldl_cons]
          have : iterStep ({ firstErr := true } : IterSt) (ans m cmd args) = { firstErr := true } := by
            rw [hm m (by simp)]; rfl
          rw [this]
          exact ih (fun x hx => hm x (List.mem_cons_of_mem _ hx))
      rw [this ns (fun m hm => h m (List.mem_cons_of_mem _ hm))]
      rfl
    | none =>
      have e : iterStep {} (ans n cmd args) = {} := by rw [hn]; rfl
      rw [e]
      have : ∀ (l : List Nat), (∀ m ∈ l, ans m cmd args = .none) →
          l.foldl (fun st m => iterStep st (ans m cmd args)) ({} : IterSt) = {} := by
        intro l
        induction l with
        | nil => intro _; rfl
        | cons m ms ih =>
          intro hm
          simp only [List.foldl_cons]
          have : iterStep ({} : IterSt) (ans m cmd args) = {} := by rw [hm m (by simp)]; rfl
          rw [this]
          exact ih (fun x hx => hm x (List.mem_cons_of_mem _ hx))
      rw [this ns (fun m hm => h m (List.mem_cons_of_mem _ hm))]
      rfl
    | keys ks =>
      by_cases hk : ks.isEmpty = true
      · have e : iterStep {} (ans n cmd args) = {} := by rw [hn]; unfold iterStep; simp [hk]
        rw [e]
        have : ∀ (l : List Nat), (∀ m ∈ l, ans m cmd args = .keys ks) →
            l.foldl (fun st m => iterStep st (ans m cmd args)) ({} : IterSt) = {} := by
          intro l
          induction l with
          | nil => intro _; rfl
          | cons m ms ih =>
            intro hm
            simp only [List.foldl_cons]
            have : iterStep ({} : IterSt) (ans m cmd args) = {} := by
              rw [hm m (by simp)]; unfold iterStep; simp [hk]
            rw [this]
            exact ih (fun x hx => hm x (List.mem_cons_of_mem _ hx))
        rw [this ns (fun m hm => h m (List.mem_cons_of_mem _ hm))]
        simp [iterResult, hk]
      · have e : iterStep {} (ans n cmd args) = { resolved := ks, found := true } := by
          rw [hn]; unfold iterStep; simp [hk]
        rw [e, foldl_found ans ns cmd args _ rfl]
        simp [iterResult, hk]

/-! ### the transaction flag -/

/-- a command that is neither MULTI nor EXEC -/
def NotBracket (c : Cmd) : Prop := upperName c.name ≠ uMulti ∧ upperName c.name ≠ uExec

theorem chooseNodeF_clear (cv : ClusterView) (anyNode : Option Nat) (c : Cmd) (hc : NotBracket c) :
    chooseNodeF cv anyNode {} c = (chooseNode cv anyNode c).map (fun ch => (ch, {})) := by
  obtain ⟨h1, h2⟩ := hc
  unfold chooseNodeF
  have e1 : (upperName c.name == uMulti) = false := by simpa using h1
  have e2 : (upperName c.name == uExec) = false := by simpa using h2
  simp only [e1, e2, Bool.false_eq_true, ↓reduceIte]
  cases chooseNode cv anyNode c with
  | error e => rfl
  | ok ch =>
    cases ch with
    | skip => rfl
    | route n ks => simp [Except.map]

theorem txnPut_eq_route (cv : ClusterView) (anyNode : Option Nat) (t : Txn) (c : Cmd) :
    txnPut cv anyNode t c =
      match chooseNode cv anyNode c with
      | .error e => .error e
      | .ok .skip => .ok t
      | .ok (.route node keys) => txnPutRoute t c node keys := by
  unfold txnPut txnPutRoute
  cases chooseNode cv anyNode c with
  | error e => rfl
  | ok ch =>
    cases ch with
    | skip => rfl
    | route node keys => rfl

theorem txnPutF_clear (cv : ClusterView) (anyNode : Option Nat) (t : Txn) (c : Cmd) (hc : NotBracket c) :
    txnPutF cv anyNode t {} c = (txnPut cv anyNode t c, {}) := by
  unfold txnPutF
  rw [chooseNodeF_clear cv anyNode c hc, txnPut_eq_route]
  cases chooseNode cv anyNode c with
  | error e => rfl
  | ok ch =>
    cases ch with
    | skip => rfl
    | route node keys => rfl

theorem txnPutAllF_clear (cv : ClusterView) (anyNode : Option Nat) (cmds : List Cmd) (t : Txn)
    (hc : ∀ c ∈ cmds, NotBracket c) :
    txnPutAllF cv anyNode t {} cmds = (txnPutAll cv anyNode t cmds, {}) := by
  induction cmds generalizing t with
  | nil => rfl
  | cons c cs ih =>
    simp only [txnPutAllF, txnPutAll]
    rw [txnPutF_clear cv anyNode t c (hc c (by simp))]
    cases txnPut cv anyNode t c with
    | error e => rfl
    | ok t' =>
      simp only
      exact ih t' (fun c' hc' => hc c' (List.mem_cons_of_mem _ hc'))

end GunYu.BisyncUnit
