/-
  Helper lemmas for the two-run theorem of C02 (Props/C02TwoRuns.lean): the
  forwarded stream WITH offsets as a function of the parser's items, where item
  offsets come from, and the unique split of an offset-ordered list at a stored
  position.
-/
import GunYu.Proofs.ResumedWire
import GunYu.Proofs.Restart
import GunYu.Proofs.Nested
import GunYu.Proofs.RunId
import GunYu.Proofs.TxnShape

namespace GunYu.Sender
open GunYu GunYu.Target

/-- the forwarded, non-bracket, non-ping commands of an item list, offsets included -/
def itemCmdsO (items : List Item) : List CmdO :=
  items.filterMap (fun i => if itemCmds.isBracketOrPingB i.cmd then none else some (i.cmd, i.args, i.offset))

def dropOff (x : CmdO) : Cmd := (x.1, x.2.1)

theorem itemCmdsO_proj (items : List Item) : (itemCmdsO items).map dropOff = itemCmds items := by
  induction items with
  | nil => rfl
  | cons i rest ih =>
    simp only [itemCmdsO, itemCmds, List.filterMap_cons] at ih ⊢
    by_cases hb : itemCmds.isBracketOrPingB i.cmd = true
    · simp [hb, ih]
    · simp [hb, ih, dropOff]

theorem itemCmdsO_append (x y : List Item) : itemCmdsO (x ++ y) = itemCmdsO x ++ itemCmdsO y := by
  simp [itemCmdsO, List.filterMap_append]

theorem dataBO_proj (b : Batch) : (dataBO b).map dropOff = dataB b := by
  induction b with
  | nil => rfl
  | cons r rest ih =>
    simp only [dataBO, dataB, List.filterMap_cons] at ih ⊢
    cases r with
    | cmd n a off =>
      simp only [cmdOfReqO, cmdOfReq]
      by_cases hp : n = bPing
      · simp [hp, ih]
      · simp [hp, ih, dropOff]
    | cpOffset o => simpa [cmdOfReqO, cmdOfReq] using ih
    | multi => simpa [cmdOfReqO, cmdOfReq] using ih
    | exec => simpa [cmdOfReqO, cmdOfReq] using ih
    | cpMeta => simpa [cmdOfReqO, cmdOfReq] using ih

/-- for well-bracketed items the forwarded stream (offsets included) is every item
    that is not a keep-alive or a transaction bracket, in order -/
theorem fwdItemsO_eq (t : Txn) (items : List Item) (hnn : ItemsNoNested (inT t) items) :
    fwdItemsO t items = itemCmdsO items := by
  induction items generalizing t with
  | nil => rfl
  | cons it rest ih =>
    simp only [fwdItemsO, fwd1O, itemCmdsO, List.filterMap_cons]
    by_cases hp : it.cmd = bPing
    · have hnn' : ItemsNoNested (inT t) rest := by
        have h1 : bPing ≠ bMulti := by decide
        have h2 : bPing ≠ bExec := by decide
        simpa [ItemsNoNested, hp, h1, h2] using hnn
      simp only [hp, ↓reduceIte, itemCmds.isBracketOrPingB, beq_self_eq_true, Bool.true_or,
        List.nil_append]
      exact ih t hnn'
    · by_cases hm : it.cmd = bMulti
      · have hnn' : inT t = false ∧ ItemsNoNested true rest := by simpa [ItemsNoNested, hm] using hnn
        have hst : txnStatus bMulti t = (Txn.begin_, true) := by
          cases t <;> simp_all [inT, txnStatus, cmdClass, bMulti, bSelect]
        have hpm : bMulti ≠ bPing := by decide
        simp only [hm, hpm, ↓reduceIte, hst, forwards, itemCmds.isBracketOrPingB]
        simp only [bne_self_eq_false, Bool.false_and, Bool.false_eq_true, ↓reduceIte,
          List.nil_append, beq_self_eq_true, Bool.or_true, Bool.true_or]
        exact ih _ (by simpa [inT] using hnn'.2)
      · by_cases he : it.cmd = bExec
        · have hem : bExec ≠ bMulti := by decide
          have hnn' : ItemsNoNested false rest := by simpa [ItemsNoNested, he, hem] using hnn
          have hst : (txnStatus bExec t).1 = Txn.commit := by
            cases t <;> simp [txnStatus, cmdClass, bMulti, bSelect, bExec]
          have hpe : bExec ≠ bPing := by decide
          simp only [he, hpe, ↓reduceIte, hst, forwards, itemCmds.isBracketOrPingB]
          simp only [bne_self_eq_false, Bool.and_false, Bool.false_eq_true, ↓reduceIte,
            List.nil_append, beq_self_eq_true, Bool.or_true]
          exact ih _ (by simpa [inT] using hnn')
        · have hnn' : ItemsNoNested (inT t) rest := by simpa [ItemsNoNested, hm, he] using hnn
          have hcls : cmdClass it.cmd = none ∨ cmdClass it.cmd = some Txn.barrier := by
            unfold cmdClass; simp only [hm, he, ↓reduceIte]
            by_cases hs : it.cmd = bSelect <;> simp [hs]
          have hst : forwards (txnStatus it.cmd t).1 = true ∧ inT (txnStatus it.cmd t).1 = inT t := by
            rcases hcls with h | h <;> cases t <;> simp [txnStatus, h, forwards, inT]
          have hb : itemCmds.isBracketOrPingB it.cmd = false := by
            simp [itemCmds.isBracketOrPingB, hp, hm, he]
          simp only [hp, ↓reduceIte, hst.1, hb, Bool.false_eq_true]
          rw [List.singleton_append]
          congr 1
          exact ih _ (by rw [hst.2]; exact hnn')

/-- a forwarded non-bracket command carries the END OFFSET OF ITS OWN source command -/
theorem itemCmdsO_own (c : PCfg) (s : PState) (raws : List Raw) :
    ∀ x ∈ itemCmdsO (parseAll c s raws), ∃ r ∈ raws, x.2.2 = r.off := by
  induction raws generalizing s with
  | nil => intro x hx; simp [parseAll, itemCmdsO] at hx
  | cons r rest ih =>
    intro x hx
    simp only [parseAll] at hx
    cases hps : parseStep c s r with
    | mk s' o =>
      rw [hps] at hx
      cases o with
      | fail => simp [itemCmdsO] at hx
      | skip =>
        obtain ⟨r', hr', h⟩ := ih s' x hx
        exact ⟨r', List.mem_cons_of_mem _ hr', h⟩
      | emit i =>
        simp only at hx
        have hemit : (parseStep c s r).2 = POut.emit i := by rw [hps]
        have hoff := (parseStep_emit_off c s r i hemit).1
        rw [show i :: parseAll c s' rest = [i] ++ parseAll c s' rest from rfl, itemCmdsO_append] at hx
        rcases List.mem_append.mp hx with h1 | h2
        · by_cases hb : itemCmds.isBracketOrPingB i.cmd = true
          · simp [itemCmdsO, hb] at h1
          · simp only [itemCmdsO, List.filterMap_cons, List.filterMap_nil, hb, Bool.false_eq_true,
              ↓reduceIte, List.mem_singleton] at h1
            have hx2 : x.2.2 = i.offset := by rw [h1]
            refine ⟨r, List.mem_cons_self .., ?_⟩
            rcases hoff with h | ⟨_, ⟨hm, _⟩ | ⟨he, _⟩⟩
            · rw [hx2]; exact h
            · simp [itemCmds.isBracketOrPingB, hm] at hb
            · simp [itemCmds.isBracketOrPingB, he] at hb
        · obtain ⟨r', hr', h⟩ := ih s' x h2
          exact ⟨r', List.mem_cons_of_mem _ hr', h⟩

/-- two splits of one list into a part satisfying `p` everywhere and a part
    satisfying it nowhere are the same split -/
theorem split_unique {α} (p : α → Prop) {L M L' M' : List α} (h : L ++ M = L' ++ M')
    (hL : ∀ x ∈ L, p x) (hM : ∀ x ∈ M, ¬ p x) (hL' : ∀ x ∈ L', p x) (hM' : ∀ x ∈ M', ¬ p x) :
    L = L' ∧ M = M' := by
  induction L generalizing L' with
  | nil =>
    cases L' with
    | nil => exact ⟨rfl, by simpa using h⟩
    | cons y L' =>
      exfalso
      simp only [List.nil_append, List.cons_append] at h
      exact hM y (by rw [h]; exact List.mem_cons_self ..) (hL' y (List.mem_cons_self ..))
  | cons x L ih =>
    cases L' with
    | nil =>
      exfalso
      simp only [List.nil_append, List.cons_append] at h
      exact hM' x (by rw [← h]; exact List.mem_cons_self ..) (hL x (List.mem_cons_self ..))
    | cons y L' =>
      simp only [List.cons_append, List.cons.injEq] at h
      obtain ⟨hxy, hrest⟩ := h
      obtain ⟨h1, h2⟩ := ih hrest (fun z hz => hL z (List.mem_cons_of_mem _ hz))
        (fun z hz => hL' z (List.mem_cons_of_mem _ hz))
      exact ⟨by rw [hxy, h1], h2⟩


/-- a bracket handed over from inside a filtered database carries `lastSent` -/
theorem emit_passBracket_off (c : PCfg) (s : PState) (r : Raw) (i : Item)
    (h : (parseStep c s r).2 = POut.emit i) (hpb : passBracket s r.cmd = true) :
    i.offset = s.lastSent := by
  have hcmd : r.cmd = bMulti ∨ r.cmd = bExec := by
    unfold passBracket at hpb
    simp only [Bool.and_eq_true, Bool.or_eq_true, decide_eq_true_eq] at hpb
    rcases hpb.2 with ⟨h1, _⟩ | ⟨h1, _⟩
    · exact Or.inl h1
    · exact Or.inr h1
  have hp : r.cmd ≠ bPing := by
    rcases hcmd with h1 | h1 <;> rw [h1] <;> decide
  have hs : r.cmd ≠ bSelect := by
    rcases hcmd with h1 | h1 <;> rw [h1] <;> decide
  rw [parseStep_data c s r hp hs] at h
  by_cases h1 : c.filterCmd r.cmd = true
  · simp [h1] at h
  · by_cases h2 : r.cmd = bPublish ∧ (r.args.head?.map lower) = some bSentinelHello
    · simp [h1, h2] at h
    · by_cases h3 : s.bypass = true ∧ passBracket s r.cmd = false
      · simp [h1, h2, h3] at h
      · simp only [h1, h2, h3, Bool.false_eq_true, ↓reduceIte] at h
        cases hf : c.filterCmdKey r.cmd r.args with
        | none => rw [hf] at h; simp at h
        | some a =>
          rw [hf] at h
          simp only [hpb, ↓reduceIte, POut.emit.injEq] at h
          rw [← h]

/-- **Every offset the parser hands over is a safe place to cut.** An item's offset
    is the parser's starting `lastSent`, or the end offset of a source command `r`
    after which the parser is outside every filtered database. -/
theorem offset_cut_unbypassed (c : PCfg) (raws : List Raw) (s : PState)
    (hraw : (raws.map (·.off)).Pairwise (· < ·)) (hlo : ∀ r ∈ raws, s.lastSent < r.off) :
    ∀ i ∈ parseAll c s raws, i.offset = s.lastSent ∨
      ∃ pre r post, raws = pre ++ r :: post ∧ r.off = i.offset ∧
        parseFails c s (pre ++ [r]) = false ∧ (parseState c s (pre ++ [r])).bypass = false := by
  induction raws generalizing s with
  | nil => intro i hi; simp [parseAll] at hi
  | cons r rest ih =>
    intro i hi
    have hr : s.lastSent < r.off := hlo r (List.mem_cons_self ..)
    simp only [List.map_cons, List.pairwise_cons] at hraw
    have hrest : ∀ r' ∈ rest, r.off < r'.off := fun r' hr' => hraw.1 _ (List.mem_map.mpr ⟨r', hr', rfl⟩)
    simp only [parseAll] at hi
    cases hps : parseStep c s r with
    | mk s' o =>
      rw [hps] at hi
      -- lift a cut found in `rest` (from state s') to `r :: rest`
      have lift : ∀ (hok : parseFails c s [r] = false) (hst : parseState c s [r] = s'),
          (∃ pre r1 post, rest = pre ++ r1 :: post ∧ r1.off = i.offset ∧
            parseFails c s' (pre ++ [r1]) = false ∧ (parseState c s' (pre ++ [r1])).bypass = false) →
          ∃ pre r1 post, r :: rest = pre ++ r1 :: post ∧ r1.off = i.offset ∧
            parseFails c s (pre ++ [r1]) = false ∧ (parseState c s (pre ++ [r1])).bypass = false := by
        intro hok hst ⟨pre, r1, post, he, ho, hf, hb⟩
        refine ⟨r :: pre, r1, post, by rw [he]; rfl, ho, ?_, ?_⟩
        · have : r :: pre ++ [r1] = [r] ++ (pre ++ [r1]) := rfl
          rw [this]
          simp only [List.singleton_append, parseFails, hps]
          cases o with
          | fail => simp [parseFails, hps] at hok
          | skip => simpa [parseState, hps] using hf
          | emit _ => simpa [parseState, hps] using hf
        · have : r :: pre ++ [r1] = [r] ++ (pre ++ [r1]) := rfl
          rw [this, parseState_append c s [r] _ hok, hst]; exact hb
      cases o with
      | fail => simp at hi
      | skip =>
        simp only at hi
        have hls : s'.lastSent = s.lastSent := parseStep_skip_lastSent c s r s' hps
        have hok : parseFails c s [r] = false := by simp [parseFails, hps]
        have hst : parseState c s [r] = s' := by simp [parseState, hps]
        rcases ih s' hraw.2 (fun r' hr' => by rw [hls]; have := hrest r' hr'; omega) i hi with h | h
        · exact Or.inl (by rw [h, hls])
        · exact Or.inr (lift hok hst h)
      | emit i0 =>
        simp only at hi
        have hemit : (parseStep c s r).2 = POut.emit i0 := by rw [hps]
        obtain ⟨hoff, hls, _⟩ := parseStep_emit_off c s r i0 hemit
        rw [hps] at hls
        simp only at hls
        have hok : parseFails c s [r] = false := by simp [parseFails, hps]
        have hst : parseState c s [r] = s' := by simp [parseState, hps]
        -- the emitted item itself: own offset (then unbypassed) or `lastSent`
        have hself : i0.offset = s.lastSent ∨
            ∃ pre r1 post, r :: rest = pre ++ r1 :: post ∧ r1.off = i0.offset ∧
              parseFails c s (pre ++ [r1]) = false ∧ (parseState c s (pre ++ [r1])).bypass = false := by
          by_cases hpb : passBracket s r.cmd = true
          · exact Or.inl (emit_passBracket_off c s r i0 hemit hpb)
          · right
            have hpb' : passBracket s r.cmd = false := by simpa using hpb
            have hown : i0.offset = r.off := by
              rcases hoff with h | ⟨_, ⟨hm, ht⟩ | ⟨he, ht⟩⟩
              · exact h
              · -- a bracket outside a filtered database: passBracket false means bypass false,
                -- then the offset is its own
                exfalso
                have hp : r.cmd ≠ bPing := by
                  rw [← parseStep_emit_cmd c s r i0 hemit, hm]; decide
                have hs : r.cmd ≠ bSelect := by
                  rw [← parseStep_emit_cmd c s r i0 hemit, hm]; decide
                have h2 := hemit
                rw [parseStep_data c s r hp hs] at h2
                by_cases h1 : c.filterCmd r.cmd = true
                · simp [h1] at h2
                · by_cases h2' : r.cmd = bPublish ∧ (r.args.head?.map lower) = some bSentinelHello
                  · simp [h1, h2'] at h2
                  · by_cases h3 : s.bypass = true ∧ passBracket s r.cmd = false
                    · simp [h1, h2', h3] at h2
                    · simp only [h1, h2', h3, Bool.false_eq_true, ↓reduceIte] at h2
                      cases hf : c.filterCmdKey r.cmd r.args with
                      | none => rw [hf] at h2; simp at h2
                      | some a =>
                        rw [hf] at h2
                        simp only [hpb', Bool.false_eq_true, ↓reduceIte, POut.emit.injEq] at h2
                        have : i0.offset = r.off := by rw [← h2]
                        omega
              · exfalso
                have hp : r.cmd ≠ bPing := by
                  rw [← parseStep_emit_cmd c s r i0 hemit, he]; decide
                have hs : r.cmd ≠ bSelect := by
                  rw [← parseStep_emit_cmd c s r i0 hemit, he]; decide
                have h2 := hemit
                rw [parseStep_data c s r hp hs] at h2
                by_cases h1 : c.filterCmd r.cmd = true
                · simp [h1] at h2
                · by_cases h2' : r.cmd = bPublish ∧ (r.args.head?.map lower) = some bSentinelHello
                  · simp [h1, h2'] at h2
                  · by_cases h3 : s.bypass = true ∧ passBracket s r.cmd = false
                    · simp [h1, h2', h3] at h2
                    · simp only [h1, h2', h3, Bool.false_eq_true, ↓reduceIte] at h2
                      cases hf : c.filterCmdKey r.cmd r.args with
                      | none => rw [hf] at h2; simp at h2
                      | some a =>
                        rw [hf] at h2
                        simp only [hpb', Bool.false_eq_true, ↓reduceIte, POut.emit.injEq] at h2
                        have : i0.offset = r.off := by rw [← h2]
                        omega
            refine ⟨[], r, rest, rfl, hown.symm, hok, ?_⟩
            rw [List.nil_append, hst]
            have := emit_own_offset_unbypassed c s r i0 hemit hpb'
            rw [hps] at this; exact this
        rcases List.mem_cons.mp hi with rfl | hi'
        · exact hself
        · have hlo' : ∀ r' ∈ rest, s'.lastSent < r'.off := by
            intro r' hr'
            rw [hls]
            have := hrest r' hr'
            rcases hoff with h | ⟨h, _⟩ <;> omega
          rcases ih s' hraw.2 hlo' i hi' with h | h
          · rw [hls] at h
            rcases hself with h0 | h0
            · exact Or.inl (by rw [h, h0])
            · right
              obtain ⟨pre, r1, post, he, ho, hf, hb⟩ := h0
              exact ⟨pre, r1, post, he, by rw [ho, h], hf, hb⟩
          · exact Or.inr (lift hok hst h)

/-- `restart_completes_spec` for any cut that leaves the parser outside every
    filtered database (`offset_cut_unbypassed`: every handed-over offset is one) -/
theorem restart_completes_spec_gen (c : PCfg) (s0 : PState) (cur0 : Int) (A r2 : List Raw) (o : Int)
    (hnf : parseFails c s0 A = false)
    (hb1 : (parseState c s0 A).bypass = false)
    (hinv0 : s0.currentDB = cur0 ∨ s0.currentDB = -1)
    (hsel : ∀ x ∈ A ++ r2, x.cmd = bSelect → ∀ a n, x.args = [a] → atoi? a = some n → 0 ≤ n)
    (hmap : ∀ n : Int, 0 ≤ n → mapDb c n ≠ -1)
    (hd : c.startDbId = (seqApplied cur0 (itemCmds (parseAll c s0 A))).1)
    (hd0 : 0 ≤ c.startDbId) :
    specStream c s0.bypass cur0 (A ++ r2) =
      (seqApplied cur0 (itemCmds (parseAll c s0 A))).2 ++
      (seqApplied 0 (itemCmds (parserItems c o r2))).2 ∧
    (seqApplied c.startDbId (itemCmds (parseAll c (parseState c s0 A) r2))).2 =
      (seqApplied 0 (itemCmds (parserItems c o r2))).2 := by
  have hsel1 : ∀ x ∈ A, x.cmd = bSelect → ∀ a n, x.args = [a] → atoi? a = some n → 0 ≤ n :=
    fun x hx => hsel x (List.mem_append_left _ hx)
  have hsel2 : ∀ x ∈ r2, x.cmd = bSelect → ∀ a n, x.args = [a] → atoi? a = some n → 0 ≤ n :=
    fun x hx => hsel x (List.mem_append_right _ hx)
  have hinv1 := parseAll_inv c A s0 cur0 hinv0 hsel1
  rw [← hd] at hinv1
  -- resumed run = continuing run
  have hres : (seqApplied c.startDbId (itemCmds (parseAll c (parseState c s0 A) r2))).2 =
      (seqApplied 0 (itemCmds (parserItems c o r2))).2 := by
    rw [parser_refines_spec c r2 _ c.startDbId hinv1 hsel2 hmap, hb1]
    unfold parserItems
    by_cases hpos : c.startDbId > 0
    · simp only [hpos, ↓reduceIte]
      have hnb : itemCmds.isBracketOrPingB bSelect = false := by decide
      rw [List.singleton_append, itemCmds_cons_data _ _ (by simpa [selectItem] using hnb)]
      simp only [selectItem, seqApplied, ↓reduceIte]
      have hsa : selArg 0 [intToDec c.startDbId] = c.startDbId := by simp [selArg, atoi?_intToDec]
      rw [hsa]
      exact (parser_refines_spec c r2 { lastSent := o } c.startDbId (Or.inr rfl) hsel2 hmap).symm
    · have hz : c.startDbId = 0 := by omega
      simp only [hpos, ↓reduceIte, List.nil_append]
      have := parser_refines_spec c r2 { lastSent := o } 0 (Or.inr rfl) hsel2 hmap
      rw [hz]; exact this.symm
  refine ⟨?_, hres⟩
  rw [← parser_refines_spec c _ s0 cur0 hinv0 hsel hmap, parseAll_append c s0 _ r2 hnf,
    itemCmds_append, seqApplied_append]
  simp only
  rw [← hd, hres]

/-- a sorted stream splits at any offset -/
theorem sorted_split (raws : List Raw) (o : Int) (hraw : (raws.map (·.off)).Pairwise (· < ·)) :
    raws = raws.filter (fun r => decide (r.off ≤ o)) ++ raws.filter (fun r => decide (o < r.off)) := by
  induction raws with
  | nil => rfl
  | cons r rest ih =>
    simp only [List.map_cons, List.pairwise_cons] at hraw
    by_cases h : r.off ≤ o
    · have h' : ¬ o < r.off := by omega
      simp only [List.filter_cons, h, h', decide_true, decide_false, ↓reduceIte, List.cons_append,
        Bool.false_eq_true]
      congr 1
      exact ih hraw.2
    · have h' : o < r.off := by omega
      have hnone : rest.filter (fun r => decide (r.off ≤ o)) = [] := by
        apply List.filter_eq_nil_iff.mpr
        intro x hx
        have := hraw.1 _ (List.mem_map.mpr ⟨x, hx, rfl⟩)
        simp only [decide_eq_true_eq]; omega
      have hall : rest.filter (fun r => decide (o < r.off)) = rest := by
        apply List.filter_eq_self.mpr
        intro x hx
        have := hraw.1 _ (List.mem_map.mpr ⟨x, hx, rfl⟩)
        simp only [decide_eq_true_eq]; omega
      simp only [List.filter_cons, h, h', decide_true, decide_false, ↓reduceIte, Bool.false_eq_true,
        hnone, hall, List.nil_append]


/-- decidable form of "SELECT arguments are non-negative" -/
def selOK (raws : List Raw) : Bool :=
  raws.all (fun x => !(x.cmd == bSelect) ||
    (match x.args with
     | [a] => (match atoi? a with | some n => decide (0 ≤ n) | none => true)
     | _ => true))

theorem selOK_spec (raws : List Raw) (h : selOK raws = true) :
    ∀ x ∈ raws, x.cmd = bSelect → ∀ a n, x.args = [a] → atoi? a = some n → 0 ≤ n := by
  intro x hx hs a n ha hn
  have := List.all_eq_true.mp h x hx
  simp only [hs, beq_self_eq_true, Bool.not_true, Bool.false_or, ha, hn, decide_eq_true_eq] at this
  exact this

theorem lookup_mem (l : List (Int × Int)) (n t : Int) (h : l.lookup n = some t) : (n, t) ∈ l := by
  induction l with
  | nil => simp [List.lookup] at h
  | cons p rest ih =>
    obtain ⟨a, b⟩ := p
    by_cases hab : n = a
    · subst hab
      simp only [List.lookup, beq_self_eq_true] at h
      injection h with h
      subst h
      exact List.mem_cons_self ..
    · have : (n == a) = false := by simpa using hab
      simp only [List.lookup, this] at h
      exact List.mem_cons_of_mem _ (ih h)

/-- without a forced target database, a mapping table into real databases maps
    every non-negative database to a real one -/
theorem mapDb_ok (c : PCfg) (ht : c.targetDb = -1) (hm : ∀ p ∈ c.dbMap, p.2 ≠ -1) :
    ∀ n : Int, 0 ≤ n → mapDb c n ≠ -1 := by
  intro n hn
  unfold mapDb
  simp only [ht, ne_eq, not_true_eq_false, ↓reduceIte]
  cases hl : c.dbMap.lookup n with
  | none => show n ≠ -1; omega
  | some t =>
    show t ≠ -1
    have : (n, t) ∈ c.dbMap := lookup_mem _ _ _ hl
    exact hm _ this


/-- decidable form of `NonNeg` -/
def nonNegB (evs : List Ev) : Bool :=
  evs.all (fun e => match e with | .item it => decide (0 ≤ it.offset) | _ => true)

theorem nonNegB_spec (evs : List Ev) (h : nonNegB evs = true) : NonNeg evs := by
  induction evs with
  | nil => trivial
  | cons e rest ih =>
    simp only [nonNegB, List.all_cons, Bool.and_eq_true] at h
    cases e with
    | item it => exact ⟨by simpa using h.1, ih h.2⟩
    | batchTick => exact ih h.2
    | keepaliveTick => exact ih h.2
    | cpTick => exact ih h.2
    | done => exact ih h.2


/-! ### the configuration's `startDbId` only matters for the initial select -/

theorem parseStep_setDb (c : PCfg) (d : Int) (s : PState) (r : Raw) :
    parseStep { c with startDbId := d } s r = parseStep c s r := rfl

theorem parseAll_setDb (c : PCfg) (d : Int) (s : PState) (raws : List Raw) :
    parseAll { c with startDbId := d } s raws = parseAll c s raws := by
  induction raws generalizing s with
  | nil => rfl
  | cons r rest ih => simp only [parseAll, parseStep_setDb, ih]

theorem parseState_setDb (c : PCfg) (d : Int) (s : PState) (raws : List Raw) :
    parseState { c with startDbId := d } s raws = parseState c s raws := by
  induction raws generalizing s with
  | nil => rfl
  | cons r rest ih => simp only [parseState, parseStep_setDb, ih]

theorem parseFails_setDb (c : PCfg) (d : Int) (s : PState) (raws : List Raw) :
    parseFails { c with startDbId := d } s raws = parseFails c s raws := by
  induction raws generalizing s with
  | nil => rfl
  | cons r rest ih => simp only [parseFails, parseStep_setDb, ih]

theorem specStream_setDb (c : PCfg) (d : Int) (b : Bool) (cur : Int) (raws : List Raw) :
    specStream { c with startDbId := d } b cur raws = specStream c b cur raws := by
  induction raws generalizing b cur with
  | nil => rfl
  | cons r rest ih => unfold specStream; simp only [ih]; rfl

theorem mapDb_setDb (c : PCfg) (d : Int) (n : Int) : mapDb { c with startDbId := d } n = mapDb c n := rfl

theorem parserItems_append (c : PCfg) (o : Int) (x y : List Raw)
    (h : parseFails c { lastSent := o } x = false) :
    parserItems c o (x ++ y) = parserItems c o x ++ parseAll c (parseState c { lastSent := o } x) y := by
  unfold parserItems
  rw [parseAll_append c _ x y h, List.append_assoc]

/-- a new connection executing a resumed parser's items is the connection in the
    resume database executing the parser's items -/
theorem seq_parserItems (c : PCfg) (d o : Int) (hd : 0 ≤ d) (R : List Raw) :
    seqApplied 0 (itemCmds (parserItems { c with startDbId := d } o R)) =
      seqApplied d (itemCmds (parseAll c { lastSent := o } R)) := by
  unfold parserItems
  rw [parseAll_setDb]
  by_cases hpos : d > 0
  · simp only [hpos, ↓reduceIte]
    have hnb : itemCmds.isBracketOrPingB bSelect = false := by decide
    rw [List.singleton_append, itemCmds_cons_data _ _ (by simpa [selectItem] using hnb)]
    simp only [selectItem, seqApplied, ↓reduceIte]
    have hsa : selArg 0 [intToDec d] = d := by simp [selArg, atoi?_intToDec]
    rw [hsa]
  · have hz : d = 0 := by omega
    subst hz
    simp

/-- forwarded commands of a resumed parser's items for commands ending at or
    before `o` end at or before `o` (the initial select carries the start offset) -/
theorem itemCmdsO_parserItems_le (c : PCfg) (start o : Int) (A : List Raw) (hso : start ≤ o)
    (hA : ∀ r ∈ A, r.off ≤ o) : ∀ x ∈ itemCmdsO (parserItems c start A), x.2.2 ≤ o := by
  intro x hx
  unfold parserItems at hx
  rw [itemCmdsO_append] at hx
  rcases List.mem_append.mp hx with h | h
  · split at h
    · have hnb : itemCmds.isBracketOrPingB bSelect = false := by decide
      simp only [itemCmdsO, List.filterMap_cons, List.filterMap_nil, selectItem, hnb,
        Bool.false_eq_true, ↓reduceIte, List.mem_singleton] at h
      rw [h]; exact hso
    · simp [itemCmdsO] at h
  · obtain ⟨r, hr, hxr⟩ := itemCmdsO_own c _ A x h
    have := hA r hr; omega

/-- the split of a request list at its LAST position write is unique -/
theorem last_cp_unique {E1 E2 E1' E2' : List Req} {o o' : Int}
    (h : E1 ++ Req.cpOffset o :: E2 = E1' ++ Req.cpOffset o' :: E2')
    (h2 : cpOffsetsB E2 = []) (h2' : cpOffsetsB E2' = []) : E1 = E1' ∧ o = o' ∧ E2 = E2' := by
  induction E1 generalizing E1' with
  | nil =>
    cases E1' with
    | nil =>
      simp only [List.nil_append, List.cons.injEq, Req.cpOffset.injEq] at h
      exact ⟨rfl, h.1, h.2⟩
    | cons y E1'' =>
      exfalso
      simp only [List.nil_append, List.cons_append, List.cons.injEq] at h
      have : o' ∈ cpOffsetsB E2 := by
        rw [h.2, cpOffsetsB_append]; apply List.mem_append_right; simp [cpOffsetsB, cpOfReq]
      rw [h2] at this; cases this
  | cons x E1r ih =>
    cases E1' with
    | nil =>
      exfalso
      simp only [List.nil_append, List.cons_append, List.cons.injEq] at h
      have : o ∈ cpOffsetsB E2' := by
        rw [← h.2, cpOffsetsB_append]; apply List.mem_append_right; simp [cpOffsetsB, cpOfReq]
      rw [h2'] at this; cases this
    | cons y E1r' =>
      simp only [List.cons_append, List.cons.injEq] at h
      obtain ⟨h1, h3, h4⟩ := ih h.2
      exact ⟨by rw [h.1, h1], h3, h4⟩


/-! ### a parser failure is a property of the command, not of the parser state -/

/-- a SELECT the parser cannot read: not exactly one argument, or not a number -/
def badSelect (r : Raw) : Bool :=
  decide (r.cmd = bSelect) &&
    (match r.args with
     | [a] => (atoi? a).isNone
     | _ => true)

theorem parseStep_fail_iff (c : PCfg) (s : PState) (r : Raw) :
    ((parseStep c s r).2 = POut.fail) ↔ badSelect r = true := by
  by_cases hp : r.cmd = bPing
  · have hne : bPing ≠ bSelect := by decide
    unfold parseStep badSelect
    simp only [hp, ↓reduceIte, hne, decide_false, Bool.false_and, Bool.false_eq_true, iff_false]
    cases c.filterCmdKey bPing r.args with
    | none => simp
    | some a => cases s.bypass <;> simp
  · by_cases hs : r.cmd = bSelect
    · have hne : bSelect ≠ bPing := by decide
      unfold parseStep badSelect
      simp only [hs, hne, ↓reduceIte, decide_true, Bool.true_and]
      cases ha : r.args with
      | nil => simp
      | cons a rest =>
        cases rest with
        | cons _ _ => simp
        | nil =>
          simp only
          cases hn : atoi? a with
          | none => simp
          | some n =>
            simp only [Option.isNone_some, Bool.false_eq_true, iff_false]
            cases c.filterDb n
            · simp only [Bool.false_eq_true, ↓reduceIte]
              cases c.filterCmdKey bSelect [a] with
              | none => simp
              | some x =>
                simp only
                by_cases h0 : n ≥ 0
                · simp only [h0, ↓reduceIte]
                  cases (selectDB c s.currentDB n).2 <;> simp
                · simp [h0]
            · simp
    · rw [parseStep_data c s r hp hs]
      unfold badSelect
      simp only [hs, decide_false, Bool.false_and, Bool.false_eq_true, iff_false]
      by_cases h1 : c.filterCmd r.cmd = true
      · simp [h1]
      · by_cases h2 : r.cmd = bPublish ∧ (r.args.head?.map lower) = some bSentinelHello
        · simp [h1, h2]
        · by_cases h3 : s.bypass = true ∧ passBracket s r.cmd = false
          · simp [h1, h2, h3]
          · simp only [h1, h2, h3, Bool.false_eq_true, ↓reduceIte]
            cases c.filterCmdKey r.cmd r.args <;> simp

theorem parseFails_eq_any (c : PCfg) (s : PState) (raws : List Raw) :
    parseFails c s raws = raws.any badSelect := by
  induction raws generalizing s with
  | nil => rfl
  | cons r rest ih =>
    simp only [parseFails, List.any_cons]
    have hiff := parseStep_fail_iff c s r
    cases hps : parseStep c s r with
    | mk s' o =>
      rw [hps] at hiff
      cases o with
      | fail =>
        have : badSelect r = true := hiff.mp rfl
        simp [this]
      | skip =>
        have : badSelect r = false := by
          cases hb : badSelect r with
          | false => rfl
          | true => have := hiff.mpr hb; cases this
        simp only [this, Bool.false_or]; exact ih s'
      | emit i =>
        have : badSelect r = false := by
          cases hb : badSelect r with
          | false => rfl
          | true => have := hiff.mpr hb; cases this
        simp only [this, Bool.false_or]; exact ih s'

/-- a stream the parser reads without failure is read without failure from any
    state, and so is every part of it -/
theorem parseFails_sublist (c : PCfg) (s s' : PState) {x y : List Raw} (h : List.Sublist y x)
    (hx : parseFails c s x = false) : parseFails c s' y = false := by
  rw [parseFails_eq_any] at hx ⊢
  cases hy : y.any badSelect with
  | false => rfl
  | true =>
    obtain ⟨r, hr, hb⟩ := List.any_eq_true.mp hy
    have : x.any badSelect = true := List.any_eq_true.mpr ⟨r, h.subset hr, hb⟩
    rw [hx] at this; cases this

theorem dataB_stripB (b : Batch) (h : WFBatch b) : dataB (stripB b) = dataB b := by
  obtain ⟨body, _, hs, hsh⟩ := stripB_wf b h
  rw [hs]
  rcases hsh with e | e
  · rw [e]
  · rw [e]; simp [dataB, cmdOfReq, List.filterMap_append, List.filterMap]

theorem dataB_bodies (out : List Batch) (hwf : AllWF out) : dataB (bodies out) = dataOut out := by
  induction out with
  | nil => rfl
  | cons b rest ih =>
    simp only [bodies, List.flatMap_cons, dataOut, dataB_append] at ih ⊢
    rw [dataB_stripB b (hwf b (List.mem_cons_self ..)),
      ih (fun x hx => hwf x (List.mem_cons_of_mem _ hx))]


/-! ### the database of a stored position is a real (non-negative) database -/

/-- a `select` the parser hands over selects a mapped database -/
theorem parseStep_emit_select_db (c : PCfg) (s : PState) (r : Raw) (i : Item)
    (hsel : r.cmd = bSelect → ∀ a n, r.args = [a] → atoi? a = some n → 0 ≤ n)
    (hmapnn : ∀ n : Int, 0 ≤ n → 0 ≤ mapDb c n)
    (h : (parseStep c s r).2 = POut.emit i) (hi : i.cmd = bSelect) : 0 ≤ i.db := by
  have hcmd := parseStep_emit_cmd c s r i h
  have hs : r.cmd = bSelect := by rw [← hcmd]; exact hi
  have hne : bSelect ≠ bPing := by decide
  unfold parseStep at h
  simp only [hs, hne, ↓reduceIte] at h
  cases ha : r.args with
  | nil => simp [ha] at h
  | cons a rest =>
    cases rest with
    | cons _ _ => simp [ha] at h
    | nil =>
      simp only [ha] at h
      cases hn : atoi? a with
      | none => simp [hn] at h
      | some n =>
        simp only [hn] at h
        have h0 : 0 ≤ n := hsel hs a n ha hn
        cases hdb : c.filterDb n
        · simp only [hdb, Bool.false_eq_true, ↓reduceIte] at h
          cases hf : c.filterCmdKey bSelect [a] with
          | none => simp [hf] at h
          | some x =>
            simp only [hf, ge_iff_le, h0, ↓reduceIte] at h
            by_cases hch : (selectDB c s.currentDB n).2 = true
            · simp only [hch, ↓reduceIte, POut.emit.injEq] at h
              rw [← h]
              have hn1 : n ≠ -1 := by omega
              simp only [selectItem, selectDB, hn1, ↓reduceIte]
              exact hmapnn n h0
            · simp [hch] at h
        · simp [hdb] at h

theorem parseAll_select_db_nonneg (c : PCfg) (raws : List Raw) (s : PState)
    (hsel : ∀ r ∈ raws, r.cmd = bSelect → ∀ a n, r.args = [a] → atoi? a = some n → 0 ≤ n)
    (hmapnn : ∀ n : Int, 0 ≤ n → 0 ≤ mapDb c n) :
    ∀ i ∈ parseAll c s raws, SelOK i ∧ (i.cmd = bSelect → 0 ≤ i.db) := by
  induction raws generalizing s with
  | nil => intro i hi; simp [parseAll] at hi
  | cons r rest ih =>
    intro i hi
    simp only [parseAll] at hi
    have hselr := hsel r (List.mem_cons_self ..)
    have hsel' : ∀ r' ∈ rest, r'.cmd = bSelect → ∀ a n, r'.args = [a] → atoi? a = some n → 0 ≤ n :=
      fun r' hr' => hsel r' (List.mem_cons_of_mem _ hr')
    cases hps : parseStep c s r with
    | mk s' o =>
      rw [hps] at hi
      cases o with
      | fail => simp at hi
      | skip => exact ih s' hsel' i hi
      | emit i0 =>
        simp only at hi
        have hemit : (parseStep c s r).2 = POut.emit i0 := by rw [hps]
        rcases List.mem_cons.mp hi with rfl | hi'
        · exact ⟨parseStep_emit_selOK c s r _ hselr hemit,
            parseStep_emit_select_db c s r _ hselr hmapnn hemit⟩
        · exact ih s' hsel' i hi'

/-- executing items whose selects select non-negative databases, from a
    non-negative database, ends in a non-negative database -/
theorem seqApplied_db_nonneg (items : List Item) (cur : Int) (hcur : 0 ≤ cur)
    (h : ∀ i ∈ items, SelOK i ∧ (i.cmd = bSelect → 0 ≤ i.db)) :
    0 ≤ (seqApplied cur (itemCmds items)).1 := by
  induction items generalizing cur with
  | nil => simpa [itemCmds, seqApplied] using hcur
  | cons i rest ih =>
    have hrest := fun j hj => h j (List.mem_cons_of_mem _ hj)
    by_cases hb : itemCmds.isBracketOrPingB i.cmd = true
    · rw [itemCmds_cons_bracket i rest hb]; exact ih cur hcur hrest
    · have hb' : itemCmds.isBracketOrPingB i.cmd = false := by simpa using hb
      rw [itemCmds_cons_data i rest hb']
      simp only [seqApplied]
      split
      · rename_i hs
        obtain ⟨hok, hnn⟩ := h i (List.mem_cons_self ..)
        have : selArg cur i.args = i.db := hok hs cur
        rw [this]
        exact ih _ (hnn hs) hrest
      · exact ih cur hcur hrest

theorem mapDb_nonneg (c : PCfg) (ht : c.targetDb = -1) (hm : ∀ p ∈ c.dbMap, 0 ≤ p.2) :
    ∀ n : Int, 0 ≤ n → 0 ≤ mapDb c n := by
  intro n hn
  unfold mapDb
  simp only [ht, ne_eq, not_true_eq_false, ↓reduceIte]
  cases hl : c.dbMap.lookup n with
  | none => show 0 ≤ n; exact hn
  | some t =>
    show 0 ≤ t
    exact hm _ (lookup_mem _ _ _ hl)

theorem mapDb_ne_of_nonneg (c : PCfg) (h : ∀ n : Int, 0 ≤ n → 0 ≤ mapDb c n) :
    ∀ n : Int, 0 ≤ n → mapDb c n ≠ -1 := by
  intro n hn; have := h n hn; omega

/-- offsets of a resumed parser's items are non-negative when the start is -/
theorem nonNeg_of_items (evs : List Ev) (h : ∀ i ∈ itemsOf evs, 0 ≤ i.offset) : NonNeg evs := by
  induction evs with
  | nil => trivial
  | cons e rest ih =>
    cases e with
    | item it =>
      exact ⟨h it (by simp [itemsOf]), ih (fun i hi => h i (by simp [itemsOf, hi]))⟩
    | batchTick => exact ih (fun i hi => h i (by simpa [itemsOf] using hi))
    | keepaliveTick => exact ih (fun i hi => h i (by simpa [itemsOf] using hi))
    | cpTick => exact ih (fun i hi => h i (by simpa [itemsOf] using hi))
    | done => exact ih (fun i hi => h i (by simpa [itemsOf] using hi))

/-- every request of the stripped wire is plain -/
theorem bodies_plain (out : List Batch) (hwf : AllWF out) : ∀ r ∈ bodies out, Plain r = true := by
  intro r hr
  unfold bodies at hr
  obtain ⟨b, hb, hrb⟩ := List.mem_flatMap.mp hr
  obtain ⟨body, hp, hs, _⟩ := stripB_wf b (hwf b hb)
  rw [hs] at hrb
  exact hp r hrb

end GunYu.Sender
