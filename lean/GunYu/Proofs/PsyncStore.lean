/-
  C06 ↔ C05 bridge: the concrete collectors of C05's cache models are instances
  of `Psync.Collected`, for every state satisfying C05's invariants (`DInv`,
  `MemInv`: all states reachable by C05's operation lists, `disk_refines` /
  `mem_invariant`). Imports C05's proofs; copies nothing.
-/
import GunYu.Model.PsyncStore
import GunYu.Proofs.StoreDisk
import GunYu.Proofs.StoreMemInv
import GunYu.Proofs.PsyncRun

namespace GunYu.Psync
open GunYu GunYu.Store

/-! ### disk -/

def aofOfD (l : List DSeg) : Option (Int × Int) :=
  match firstLeft l, lastRight l with
  | some a, some b => some ((a : Int), (b : Int))
  | _, _ => none

theorem ofDisk_aof (s : Disk) : (ofDisk s).aof = aofOfD s.all := rfl

/-- removing a prefix of a contiguous segment list: the range keeps its right end
    and its left end moves forward, or nothing is left -/
theorem aofOfD_suffix (pre l' : List DSeg) (hc : Contig (pre ++ l')) :
    match aofOfD (pre ++ l') with
    | none => aofOfD l' = none
    | some (l, r) => aofOfD l' = none ∨ ∃ l'', aofOfD l' = some (l'', r) ∧ l ≤ l'' ∧ l'' ≤ r := by
  cases l' with
  | nil =>
    cases h : aofOfD (pre ++ []) with
    | none => rfl
    | some p => exact Or.inl rfl
  | cons g t =>
    have hne : g :: t ≠ [] := by simp
    have hlr : lastRight (pre ++ g :: t) = lastRight (g :: t) := lastRight_suffix pre (g :: t) hne
    obtain ⟨r, hr⟩ : ∃ r, lastRight (g :: t) = some r := by
      cases h : lastRight (g :: t) with
      | none => exact absurd (lastRight_eq_none.mp h) hne
      | some r => exact ⟨r, rfl⟩
    obtain ⟨f, hf⟩ : ∃ f, firstLeft (pre ++ g :: t) = some f := by
      cases pre with
      | nil => exact ⟨g.left, rfl⟩
      | cons a p => exact ⟨a.left, rfl⟩
    have hmem : g ∈ pre ++ g :: t := by simp
    have h1 : f ≤ g.left := contig_first_le hc hmem hf
    have h2 : g.right ≤ r := contig_right_le_last (contig_suffix pre (g :: t) hc) (by simp) hr
    have h3 : g.left ≤ g.right := Nat.le_add_right _ _
    have e1 : aofOfD (pre ++ g :: t) = some ((f : Int), (r : Int)) := by
      simp only [aofOfD, hf, hlr, hr]
    have e2 : aofOfD (g :: t) = some ((g.left : Int), (r : Int)) := by
      simp only [aofOfD, firstLeft, hr]
    rw [e1]
    simp only
    exact Or.inr ⟨g.left, e2, by omega, by omega⟩

/-- **the disk collector is a `Collected` step** (the snapshot goes first: whenever a
    log segment is removed the snapshot is gone) -/
theorem disk_gc_collected {s : Disk} (h : DInv s) : Collected (ofDisk s) (ofDisk s.gc) := by
  have hsame : Collected (ofDisk s) (ofDisk s) := by
    refine ⟨rfl, rfl, Or.inl rfl, ?_, fun _ hne => absurd rfl hne⟩
    cases ha : (ofDisk s).aof with
    | none => rfl
    | some p =>
      obtain ⟨l, r⟩ := p
      have hw := aofOfD_suffix [] s.all (by simpa using h.contig)
      simp only [List.nil_append, ← ofDisk_aof, ha] at hw
      rcases hw with e | ⟨l', e, h1, h2⟩
      · cases e
      · cases e; exact Or.inr ⟨l, rfl, h1, h2⟩
  unfold Disk.gc
  by_cases hm : s.maxSize = 0
  · simp only [hm, if_true]; exact hsame
  · simp only [hm, if_false]
    generalize hk : gcScanRev s.maxSize s.all.reverse 0 = ks
    obtain ⟨k, size⟩ := ks
    simp only []
    obtain ⟨pre, hp, _⟩ := dropUnref_suffix s.readers k s.segs
    -- what removing the prefix `pre` of the closed segments does to the description
    have hdrop : ∀ rdb' : Option DRdb, (rdb' = s.rdb ∨ rdb' = none) →
        (dropUnref s.readers k s.segs ≠ s.segs → rdb' = none) →
        Collected (ofDisk s) (ofDisk { s with rdb := rdb', segs := dropUnref s.readers k s.segs }) := by
      intro rdb' hr hord
      have hall : s.all = pre ++ (dropUnref s.readers k s.segs ++ s.live.toList) := by
        unfold Disk.all; rw [← List.append_assoc, ← hp]
      refine ⟨rfl, rfl, ?_, ?_, ?_⟩
      · rcases hr with e | e <;> subst e
        · exact Or.inl rfl
        · exact Or.inr rfl
      · have hw := aofOfD_suffix pre (dropUnref s.readers k s.segs ++ s.live.toList) (by rw [← hall]; exact h.contig)
        rw [← hall] at hw
        exact hw
      · intro _ hne
        show (match rdb' with | some r => some ((r.left : Int), (r.size : Int)) | none => none) = none
        rw [hord ?_]
        intro heq
        apply hne
        show aofOfD (Disk.all { s with rdb := rdb', segs := dropUnref s.readers k s.segs }) = aofOfD s.all
        unfold Disk.all
        simp only [heq]
    cases hr : s.rdb with
    | none =>
      simp only []
      have := hdrop none (Or.inr rfl) (fun _ => rfl)
      simpa [hr] using this
    | some r =>
      simp only []
      by_cases hbig : size + r.size > s.maxSize
      · simp only [hbig, if_true]
        by_cases href : rdbRef s.readers r = 0
        · simp only [href, if_true]
          exact hdrop none (Or.inr rfl) (fun _ => rfl)
        · simp only [href, if_false]; exact hsame
      · simp only [hbig, if_false]
        have hk0 : k = 0 := by
          have := gcScanRev_pos s.maxSize s.all.reverse 0
          rw [hk] at this
          simp only [] at this
          by_cases hkz : k = 0
          · exact hkz
          · have := this (by omega); omega
        subst hk0
        have hd : dropUnref s.readers 0 s.segs = s.segs := by
          cases s.segs <;> rfl
        have := hdrop (some r) (Or.inl hr.symm) (fun hne => absurd hd hne)
        simpa [hr, hd] using this

/-- on every state of C05's disk model that satisfies its invariant the log starts
    at the snapshot's offset (`DInv.rdbAlign`): `CacheWF.contig` for the disk backend
    is a theorem about the cache, not an assumption -/
theorem disk_contig {s : Disk} (h : DInv s) :
    match (ofDisk s).rdb, (ofDisk s).aof with
    | some (left, _), some (l, _) => l = left
    | _, _ => True := by
  cases hr : s.rdb with
  | none => simp [ofDisk, hr]
  | some r =>
    cases hf : firstLeft s.all with
    | none => simp [ofDisk, hr, hf]
    | some l =>
      cases hl : lastRight s.all with
      | none => simp [ofDisk, hr, hf, hl]
      | some rr =>
        have := h.rdbAlign r l hr hf
        simp [ofDisk, hr, hf, hl, this]

/-! ### memory -/

def aofOfM (l : List MSeg) : Option (Int × Int) :=
  match l.head?, l.getLast? with
  | some a, some b => some ((a.left : Int), (b.right : Int))
  | _, _ => none

theorem mcontig_head_le {a : MSeg} {t : List MSeg} (hc : MContig (a :: t)) : ∀ g ∈ a :: t, a.left ≤ g.left := by
  induction t generalizing a with
  | nil => intro g hg; simp at hg; subst hg; exact Nat.le_refl _
  | cons b t ih =>
    intro g hg
    rcases List.mem_cons.mp hg with e | e
    · subst e; exact Nat.le_refl _
    · have h1 : a.right = b.left := hc.1
      have h2 := ih hc.2 g e
      have h3 : a.left ≤ a.right := Nat.le_add_right _ _
      omega

theorem mcontig_le_last {l : List MSeg} (hc : MContig l) {z : MSeg} (hz : l.getLast? = some z) :
    ∀ g ∈ l, g.right ≤ z.right := by
  induction l with
  | nil => intro g hg; cases hg
  | cons a t ih =>
    cases t with
    | nil =>
      intro g hg
      simp at hz hg
      subst hz; subst hg; exact Nat.le_refl _
    | cons b t =>
      intro g hg
      have hz' : (b :: t).getLast? = some z := by simpa [List.getLast?_cons_cons] using hz
      rcases List.mem_cons.mp hg with e | e
      · subst e
        have h1 : g.right = b.left := hc.1
        have h2 := ih hc.2 hz' b (by simp)
        have h3 : b.left ≤ b.right := Nat.le_add_right _ _
        omega
      · exact ih hc.2 hz' g e

theorem ofMem_aof {s : Mem} (hc : MContig s.segs) : (ofMem s).aof = aofOfM s.segs := by
  have hrun : s.runRev = s.segs.reverse := by
    unfold Mem.runRev; rw [mContigRun_of_contig _ hc]
  simp only [ofMem, aofOfM, hrun, List.getLast?_reverse, List.head?_reverse]
  rfl

theorem aofOfM_suffix (pre l' : List MSeg) (hc : MContig (pre ++ l')) :
    match aofOfM (pre ++ l') with
    | none => aofOfM l' = none
    | some (l, r) => aofOfM l' = none ∨ ∃ l'', aofOfM l' = some (l'', r) ∧ l ≤ l'' ∧ l'' ≤ r := by
  cases l' with
  | nil =>
    cases h : aofOfM (pre ++ []) with
    | none => rfl
    | some p => exact Or.inl rfl
  | cons g t =>
    obtain ⟨z, hz⟩ : ∃ z, (g :: t).getLast? = some z := by
      cases h : (g :: t).getLast? with
      | none => simp at h
      | some z => exact ⟨z, rfl⟩
    have hzz : (pre ++ g :: t).getLast? = some z := by
      rw [getLast?_append_cons']; exact hz
    obtain ⟨f, hf, hfm⟩ : ∃ f, (pre ++ g :: t).head? = some f ∧ ∀ x ∈ pre ++ g :: t, f.left ≤ x.left := by
      cases pre with
      | nil => exact ⟨g, rfl, mcontig_head_le (by simpa using hc)⟩
      | cons a p => exact ⟨a, rfl, mcontig_head_le (by simpa using hc)⟩
    have h1 : f.left ≤ g.left := hfm g (by simp)
    have h2 : g.right ≤ z.right := mcontig_le_last (mcontig_suffix pre (g :: t) hc) hz g (by simp)
    have h3 : g.left ≤ g.right := Nat.le_add_right _ _
    have e1 : aofOfM (pre ++ g :: t) = some ((f.left : Int), (z.right : Int)) := by
      simp only [aofOfM, hf, hzz]
    have e2 : aofOfM (g :: t) = some ((g.left : Int), (z.right : Int)) := by
      simp only [aofOfM, List.head?_cons, hz]
    rw [e1]
    simp only
    exact Or.inr ⟨g.left, e2, by omega, by omega⟩

/-- **the memory collector is a `Collected` step** (it removes a prefix of the
    indexed log segments; the snapshot stays, disappears or stops being offered) -/
theorem mem_gc_collected {s : Mem} (h : MemInv s) (need : Nat) :
    Collected (ofMem s) (ofMem (s.gc need)) := by
  obtain ⟨hi', fr⟩ := gc_inv s need h
  obtain ⟨pre, hp⟩ := fr.segs
  refine ⟨rfl, ?_, ?_, ?_, fun hd => by cases hd⟩
  · simp only [ofMem, fr.runId]
  · -- snapshot: unchanged, gone, or no longer replayable (= not offered)
    rcases fr.rdb with e | e | ⟨r, r', e1, e2, hrep, _⟩
    · left; simp only [ofMem, Mem.rdbOffered, e]
    · right; simp only [ofMem, Mem.rdbOffered, e]
    · right; simp only [ofMem, Mem.rdbOffered, e2, hrep]; rfl
  · rw [ofMem_aof h.stream.contig, ofMem_aof hi'.stream.contig, hp]
    exact aofOfM_suffix pre (s.gc need).segs (by rw [← hp]; exact h.stream.contig)

/-- the collectors keep the hypotheses of the C06 theorems, including the
    snapshot/log relation `contig` (disk: equality; memory: the log may start later) -/
theorem disk_gc_keeps {w : World} {src : Source} {s : Disk} {d : CData} (h : DInv s)
    (hc : CacheWF (ofDisk s)) (hok : CacheOK w src (ofDisk s) d) :
    CacheWF (ofDisk s.gc) ∧ CacheOK w src (ofDisk s.gc) d :=
  ⟨collected_wf hc (disk_gc_collected h), collected_ok hok (disk_gc_collected h)⟩

theorem mem_gc_keeps {w : World} {src : Source} {s : Mem} {d : CData} (h : MemInv s) (need : Nat)
    (hc : CacheWF (ofMem s)) (hok : CacheOK w src (ofMem s) d) :
    CacheWF (ofMem (s.gc need)) ∧ CacheOK w src (ofMem (s.gc need)) d :=
  ⟨collected_wf hc (mem_gc_collected h need), collected_ok hok (mem_gc_collected h need)⟩

end GunYu.Psync
