/-
  C13, the global invariant. `GInv` = the block invariant `WInv`
  + `NsTtl` for both stores (the only keys of the reserved namespace that
    carry an expiry are marker keys of brace-free checkpoint names)
  + `RInv` for both links (the resume position `cpos` lies at or before the
    read position and no block between them is owed a commit).
  With it, `BookClean` — assumed per event by `GoodRun` — is DERIVED
  (`bookClean_of_nsTtl`), and restarts of either syncer are covered.
-/
import GunYu.Proofs.BisyncTtl
import GunYu.Proofs.BisyncDrain

namespace GunYu.Bisync
open GunYu GunYu.BisyncUnit

/-! ### key forms -/

/-- a marker key of a brace-free checkpoint name -/
def MarkerForm (k : Bytes) : Prop := ∃ cp tag, Slot.lbrace ∉ cp ∧ k = Gen.markerKey cp tag

theorem first_split {α : Type} (x : α) (a a' r r' : List α) (ha : x ∉ a) (ha' : x ∉ a')
    (h : a ++ x :: r = a' ++ x :: r') : a = a' := by
  induction a generalizing a' with
  | nil =>
    cases a' with
    | nil => rfl
    | cons y ys =>
      simp only [List.nil_append, List.cons_append] at h
      injection h with h1 _
      exact absurd (by rw [h1]; simp) ha'
  | cons y ys ih =>
    cases a' with
    | nil =>
      simp only [List.nil_append, List.cons_append] at h
      injection h with h1 _
      exact absurd (by rw [h1]; simp) ha
    | cons y' ys' =>
      simp only [List.cons_append] at h
      injection h with h1 h2
      rw [h1, ih ys' (fun hm => ha (List.mem_cons_of_mem _ hm)) (fun hm => ha' (List.mem_cons_of_mem _ hm)) h2]

def markerLit : Bytes := [58,109,97,114,107,101,114,58]      -- ":marker:"
def latestLit : Bytes := [58,108,97,116,101,115,116,58]      -- ":latest:"
def commitLit : Bytes := [58,99,111,109,109,105,116,58]      -- ":commit:"
def indexLit : Bytes := [58,105,110,100,101,120,58]          -- ":index:"

theorem markerKey_split (cp tag : Bytes) :
    Gen.markerKey cp tag = (Gen.bisyncKeyPrefix ++ [58] ++ cp ++ markerLit) ++ Slot.lbrace :: (tag ++ [125]) := by
  unfold Gen.markerKey markerLit Slot.lbrace
  simp [List.append_assoc]

theorem nobrace_pre (cp lit : Bytes) (hcp : Slot.lbrace ∉ cp) (hlit : Slot.lbrace ∉ lit) :
    Slot.lbrace ∉ Gen.bisyncKeyPrefix ++ [58] ++ cp ++ lit := by
  intro h
  simp only [List.mem_append] at h
  rcases h with ((h | h) | h) | h
  · revert h; decide
  · revert h; decide
  · exact hcp h
  · exact hlit h

/-- a key `prefix : cp lit { …` with `lit` of the marker literal's length but different from it
    (or ":index:") is no marker key -/
theorem not_marker_of_lit (cp lit rest : Bytes) (hcp : Slot.lbrace ∉ cp) (hlit : Slot.lbrace ∉ lit)
    (hdiff : ∀ s s' : Bytes, s ++ lit = s' ++ markerLit → False) :
    ¬ MarkerForm ((Gen.bisyncKeyPrefix ++ [58] ++ cp ++ lit) ++ Slot.lbrace :: rest) := by
  rintro ⟨cp', tag, hcp', heq⟩
  rw [markerKey_split] at heq
  have hp := first_split Slot.lbrace _ _ _ _ (nobrace_pre cp lit hcp hlit)
    (nobrace_pre cp' markerLit hcp' (by decide)) heq
  exact hdiff _ _ hp

theorem lit_diff8 (lit : Bytes) (hl : lit.length = 8) (hne : lit ≠ markerLit) :
    ∀ s s' : Bytes, s ++ lit = s' ++ markerLit → False := by
  intro s s' h
  have := (List.append_inj' h (by rw [hl]; rfl)).2
  exact hne this

theorem index_diff : ∀ s s' : Bytes, s ++ indexLit = s' ++ markerLit → False := by
  intro s s' h
  have h' : s ++ indexLit = (s' ++ [58]) ++ [109,97,114,107,101,114,58] := by
    rw [h]; simp [markerLit]
  have := (List.append_inj' h' (by decide)).2
  revert this; decide

theorem latestKey_not_marker (cp tag : Bytes) (hcp : Slot.lbrace ∉ cp) : ¬ MarkerForm (Gen.latestKey cp tag) := by
  have : Gen.latestKey cp tag = (Gen.bisyncKeyPrefix ++ [58] ++ cp ++ latestLit) ++ Slot.lbrace :: (tag ++ [125]) := by
    unfold Gen.latestKey latestLit Slot.lbrace; simp [List.append_assoc]
  rw [this]
  exact not_marker_of_lit cp latestLit _ hcp (by decide) (lit_diff8 _ (by decide) (by decide))

theorem commitRecordKey_not_marker (cp tag : Bytes) (seq : Nat) (hcp : Slot.lbrace ∉ cp) :
    ¬ MarkerForm (Gen.commitRecordKey cp tag seq) := by
  have : Gen.commitRecordKey cp tag seq =
      (Gen.bisyncKeyPrefix ++ [58] ++ cp ++ commitLit) ++ Slot.lbrace :: (tag ++ [125,58] ++ Gen.pad20 seq) := by
    unfold Gen.commitRecordKey commitLit Slot.lbrace; simp [List.append_assoc]
  rw [this]
  exact not_marker_of_lit cp commitLit _ hcp (by decide) (lit_diff8 _ (by decide) (by decide))

theorem commitIndexKey_not_marker (cp tag : Bytes) (hcp : Slot.lbrace ∉ cp) :
    ¬ MarkerForm (Gen.commitIndexKey cp tag) := by
  have : Gen.commitIndexKey cp tag = (Gen.bisyncKeyPrefix ++ [58] ++ cp ++ indexLit) ++ Slot.lbrace :: (tag ++ [125]) := by
    unfold Gen.commitIndexKey indexLit Slot.lbrace; simp [List.append_assoc]
  rw [this]
  exact not_marker_of_lit cp indexLit _ hcp (by decide) index_diff

/-- nothing under `redis-gunyu-checkpoint…` is a marker key -/
theorem cpRooted_not_marker (k : Bytes) (h : Gen.checkpointKey <+: k) : ¬ MarkerForm k := by
  rintro ⟨cp', tag, _, heq⟩
  have hp : Gen.bisyncKeyPrefix <+: k := by
    rw [heq]; unfold Gen.markerKey
    simp only [List.append_assoc]
    exact List.prefix_append _ _
  have := List.prefix_of_prefix_length_le hp h (by decide)
  revert this; decide

theorem ns_of_nsPrefix (x : Bytes) : isNamespaceKey (Gen.bisyncKeyPrefix ++ [58] ++ x) = true := by
  unfold isNamespaceKey hasPrefix nsPrefix
  rw [Bool.or_eq_true]
  left
  exact List.isPrefixOf_iff_prefix.mpr (List.prefix_append _ _)

theorem ns_of_cpRooted (k : Bytes) (h : Gen.checkpointKey <+: k) : isNamespaceKey k = true := by
  unfold isNamespaceKey hasPrefix
  rw [Bool.or_eq_true]
  right
  exact List.isPrefixOf_iff_prefix.mpr h

/-! ### the store invariant -/

def NsTtl (st : Store) : Prop :=
  ∀ k e, st.get k = some e → e.expireAt.isSome = true → isNamespaceKey k = true → MarkerForm k

theorem nsTtl_frame (P : Bytes → Prop) (st st' : Store) (h : NsTtl st) (hf : TtlFrame P st st')
    (hp : ∀ k, P k → isNamespaceKey k = true → MarkerForm k) : NsTtl st' := by
  intro k e' hg hs hns
  rcases hf k e' hg hs with ⟨e, he, hx⟩ | hpk
  · exact h k e he (by rw [hx]; exact hs) hns
  · exact hp k hpk hns

theorem nsTtl_exec (cfg : RedisCfg) (now : Nat) (st : Store) (cs : List Cmd) (h : NsTtl st)
    (hc : ∀ c ∈ cs, ∀ k, TtlAt c k → isNamespaceKey k = true → MarkerForm k) :
    NsTtl (execCmds cfg now st cs).1 :=
  nsTtl_frame _ st _ h (frame_execCmds cfg now cs st) (fun k ⟨c, hcm, hk⟩ hns => hc c hcm k hk hns)

/-- a namespace key that is no marker key carries no expiry -/
theorem nsTtl_clean (st : Store) (h : NsTtl st) (k : Bytes) (hns : isNamespaceKey k = true) (hm : ¬ MarkerForm k) :
    ∀ e, st.get k = some e → e.expireAt = none := by
  intro e he
  cases hx : e.expireAt with
  | none => rfl
  | some t => exact absurd (h k e he (by rw [hx]; rfl) hns) hm

theorem lazyExpire_clean (cfg : RedisCfg) (now : Nat) (st : Store) (k : Bytes)
    (h : ∀ e, st.get k = some e → e.expireAt = none) : lazyExpire cfg now st k = (st, []) := by
  unfold lazyExpire
  cases hg : st.get k with
  | none => rfl
  | some e => simp only [h e hg]

theorem lazyExpireAll_clean (cfg : RedisCfg) (now : Nat) (st : Store) (ks : List Bytes)
    (h : ∀ k ∈ ks, ∀ e, st.get k = some e → e.expireAt = none) : lazyExpireAll cfg now st ks = (st, []) := by
  induction ks with
  | nil => rfl
  | cons k ks ih =>
    simp only [lazyExpireAll, lazyExpire_clean cfg now st k (h k (by simp))]
    rw [ih (fun k' hk' => h k' (List.mem_cons_of_mem _ hk'))]
    rfl

/-! ### the bookkeeping requests the tool issues -/

/-- the requests the tool itself issues (a marker's expiry is Redis's doing:
    `Ev.expire`), with the checkpoint names the tool generates (brace-free) -/
def Bookkeeping.Issued : Bookkeeping → Prop
  | .markerExpiry _ _ _ => False
  | .journalDel cp _ _ => Slot.lbrace ∉ cp
  | .indexRem cp _ _ => Slot.lbrace ∉ cp
  | .latestSeed cp _ _ => Slot.lbrace ∉ cp
  | .latestDel cp _ => Slot.lbrace ∉ cp
  | .markerDel cp _ => Slot.lbrace ∉ cp
  | .nsDel cp _ => Slot.lbrace ∉ cp
  | _ => True

/-- effects of a command that is propagated as itself or not at all -/
def SelfOrNothing (eff : List Cmd) (c : Cmd) : Prop := eff = [] ∨ eff = [c]

theorem execCmds_single (cfg : RedisCfg) (now : Nat) (st : Store) (c : Cmd) :
    (execCmds cfg now st [c]).2 = (propagate cfg now st c).2 := by
  simp [execCmds]

theorem propAdd_clean (cfg : RedisCfg) (now : Nat) (st : Store) (kind : Kind) (members : List Bytes → List Bytes)
    (name k : Bytes) (rest : List Bytes) (h : ∀ e, st.get k = some e → e.expireAt = none) :
    SelfOrNothing (propAdd cfg now st kind members ⟨name, k :: rest⟩).2 ⟨name, k :: rest⟩ := by
  unfold propAdd
  simp only [lazyExpire_clean cfg now st k h]
  cases touchKind st kind k (members rest) with
  | none => left; rfl
  | some st2 => right; rfl

theorem remMembers_clean (st : Store) (kind : Kind) (c : Cmd) (k : Bytes) (ms : List Bytes) :
    SelfOrNothing (remMembers st kind c k ms []).2 c := by
  unfold remMembers
  cases st.get k with
  | none => left; rfl
  | some e =>
    simp only
    split
    · left; rfl
    · split
      · left; rfl
      · split <;> (right; rfl)

theorem propRem_clean (cfg : RedisCfg) (now : Nat) (st : Store) (kind : Kind) (name k : Bytes) (ms : List Bytes)
    (h : ∀ e, st.get k = some e → e.expireAt = none) :
    SelfOrNothing (propRem cfg now st kind ⟨name, k :: ms⟩).2 ⟨name, k :: ms⟩ := by
  unfold propRem
  simp only [lazyExpire_clean cfg now st k h]
  exact remMembers_clean st kind _ k ms

theorem propDel_clean (cfg : RedisCfg) (now : Nat) (st : Store) (c : Cmd)
    (h : ∀ k ∈ c.args, ∀ e, st.get k = some e → e.expireAt = none) :
    SelfOrNothing (propDel cfg now st c).2 c := by
  unfold propDel
  simp only [lazyExpireAll_clean cfg now st c.args h]
  split
  · left; rfl
  · right; rfl

theorem propOther_clean (cfg : RedisCfg) (now : Nat) (st : Store) (c : Cmd) (k : Bytes)
    (hk : commandKeys c.name c.args = some [k]) (h : ∀ e, st.get k = some e → e.expireAt = none) :
    SelfOrNothing (propOther cfg now st c).2 c := by
  unfold propOther
  simp only [hk, Option.getD_some]
  rw [lazyExpireAll_clean cfg now st [k] (by intro k' hk'; rw [List.mem_singleton.mp hk']; exact h)]
  right; rfl

theorem hsetnx_keys (key : Bytes) (rest : List Bytes) : commandKeys wHsetnx (key :: rest) = some [key] :=
  commandKeys_generic wHsetnx key rest (by decide +kernel) (by decide +kernel)

theorem lazyExpire_cases (cfg : RedisCfg) (now : Nat) (st : Store) (k : Bytes) :
    lazyExpire cfg now st k = (st, []) ∨ lazyExpire cfg now st k = (Store.del st k, [delCmd cfg k]) := by
  unfold lazyExpire
  cases hg : st.get k with
  | none => left; rfl
  | some e =>
    cases hx : e.expireAt with
    | none => left; simp [hx]
    | some t =>
      by_cases hle : t ≤ now
      · right; simp [hx, hle]
      · left; simp [hx, hle]

/-- `DEL k` of one key propagates as nothing (key absent), as itself (key alive)
    or as the one DEL / UNLINK of the key's expiry (expired, not reaped) -/
theorem delOne_effects (rc : RedisCfg) (now : Nat) (st : Store) (k : Bytes) :
    (propagate rc now st ⟨wDel, [k]⟩).2 = [] ∨ (propagate rc now st ⟨wDel, [k]⟩).2 = [⟨wDel, [k]⟩] ∨
    (propagate rc now st ⟨wDel, [k]⟩).2 = [delCmd rc k] := by
  have hp : propagate rc now st ⟨wDel, [k]⟩ = propDel rc now st ⟨wDel, [k]⟩ := by
    rw [propagate_eq]
    have e1 : lower wDel = wDel := by decide
    simp only [e1]
    rfl
  rw [hp]
  rcases lazyExpire_cases rc now st k with h | h
  · cases hg : st.get k with
    | some e =>
      right; left
      simp [propDel, lazyExpireAll, h, hg]
    | none =>
      left
      simp [propDel, lazyExpireAll, h, hg]
  · right; right
    simp [propDel, lazyExpireAll, h, get_del_same]

/-- the DEL of a marker ALONE propagates as nothing, as itself, or as the one
    DEL / UNLINK of the marker's expiry — whatever the store holds: each a
    stand-alone marker deletion -/
theorem markerDel_effects (rc : RedisCfg) (now : Nat) (st : Store) (cp tag : Bytes) :
    (propagate rc now st (Bookkeeping.markerDel cp tag).toCmd).2 = [] ∨
    (propagate rc now st (Bookkeeping.markerDel cp tag).toCmd).2 = [(Bookkeeping.markerDel cp tag).toCmd] ∨
    (propagate rc now st (Bookkeeping.markerDel cp tag).toCmd).2 = [(Bookkeeping.markerExpiry cp tag rc.lazyUnlink).toCmd] :=
  delOne_effects rc now st (Gen.markerKey cp tag)

theorem bookClean_of_self (cfg : WCfg) (w : World) (src : SiteId) (bk : Bookkeeping) (hv : bk.Valid)
    (h : SelfOrNothing (execCmds (cfg.redis src.other) (w.site src.other).now (w.site src.other).store [bk.toCmd]).2
      bk.toCmd) : BookClean cfg w src bk := by
  unfold BookClean
  rcases h with h | h
  · exact Or.inl h
  · exact Or.inr ⟨bk, hv, h⟩

/-- every request other than the DEL of a marker alone propagates as itself or not at all -/
theorem bookSelf_of_nsTtl (cfg : WCfg) (w : World) (src : SiteId) (bk : Bookkeeping) (hv : bk.Valid)
    (hi : bk.Issued) (hnm : ∀ cp tag, bk ≠ .markerDel cp tag) (hst : NsTtl (w.site src.other).store) :
    SelfOrNothing (execCmds (cfg.redis src.other) (w.site src.other).now (w.site src.other).store [bk.toCmd]).2
      bk.toCmd := by
  unfold SelfOrNothing
  rw [execCmds_single]
  generalize (w.site src.other).store = st at hst ⊢
  generalize (w.site src.other).now = now
  generalize cfg.redis src.other = rc
  have hhash : Gen.checkpointKey <+: checkpointHashKey := List.prefix_append _ _
  have clean_cp : ∀ k, Gen.checkpointKey <+: k → ∀ e, st.get k = some e → e.expireAt = none :=
    fun k hk => nsTtl_clean st hst k (ns_of_cpRooted k hk) (cpRooted_not_marker k hk)
  have front : ∀ cp, Gen.checkpointKey <+: cp → Gen.checkpointKey <+: Gen.frontierKey cp :=
    fun cp h => h.trans (List.prefix_append _ _)
  have nsform : ∀ x, isNamespaceKey (Gen.bisyncKeyPrefix ++ [58] ++ x) = true := ns_of_nsPrefix
  have hsetC : ∀ k rest, (∀ e, st.get k = some e → e.expireAt = none) →
      SelfOrNothing (propagate rc now st ⟨wHset, k :: rest⟩).2 ⟨wHset, k :: rest⟩ := by
    intro k rest h
    have : propagate rc now st ⟨wHset, k :: rest⟩ = propAdd rc now st .hash fieldNames ⟨wHset, k :: rest⟩ := by
      rw [propagate_eq]
      have e1 : lower wHset = wHset := by decide
      simp only [e1]
      rfl
    rw [this]; exact propAdd_clean rc now st _ _ wHset k rest h
  have hdelC : ∀ name k ms, name = wHdel → (∀ e, st.get k = some e → e.expireAt = none) →
      SelfOrNothing (propagate rc now st ⟨name, k :: ms⟩).2 ⟨name, k :: ms⟩ := by
    intro name k ms hn h
    subst hn
    have : propagate rc now st ⟨wHdel, k :: ms⟩ = propRem rc now st .hash ⟨wHdel, k :: ms⟩ := by
      rw [propagate_eq]
      have e1 : lower wHdel = wHdel := by decide
      simp only [e1]
      rfl
    rw [this]; exact propRem_clean rc now st _ wHdel k ms h
  have delC : ∀ ks, (∀ k ∈ ks, ∀ e, st.get k = some e → e.expireAt = none) →
      SelfOrNothing (propagate rc now st ⟨wDel, ks⟩).2 ⟨wDel, ks⟩ := by
    intro ks h
    have : propagate rc now st ⟨wDel, ks⟩ = propDel rc now st ⟨wDel, ks⟩ := by
      rw [propagate_eq]
      have e1 : lower wDel = wDel := by decide
      simp only [e1]
      rfl
    rw [this]; exact propDel_clean rc now st _ h
  cases bk with
  | frontierSave cp fields => exact hsetC _ _ (clean_cp _ (front cp hv))
  | journalDel cp tag seq =>
    apply delC
    intro k hk
    rw [List.mem_singleton.mp hk]
    refine nsTtl_clean st hst _ ?_ (commitRecordKey_not_marker cp tag seq hi)
    unfold Gen.commitRecordKey
    simp only [List.append_assoc]
    have := nsform (cp ++ ([58,99,111,109,109,105,116,58,123] ++ (tag ++ ([125,58] ++ Gen.pad20 seq))))
    simpa [List.append_assoc] using this
  | indexRem cp tag members =>
    have hclean : ∀ e, st.get (Gen.commitIndexKey cp tag) = some e → e.expireAt = none := by
      refine nsTtl_clean st hst _ ?_ (commitIndexKey_not_marker cp tag hi)
      unfold Gen.commitIndexKey
      have := nsform (cp ++ ([58,105,110,100,101,120,58,123] ++ (tag ++ [125])))
      simpa [List.append_assoc] using this
    have : propagate rc now st ⟨wZrem, Gen.commitIndexKey cp tag :: members⟩ =
        propRem rc now st .zset ⟨wZrem, Gen.commitIndexKey cp tag :: members⟩ := by
      rw [propagate_eq]
      have e1 : lower wZrem = wZrem := by decide
      simp only [e1]
      rfl
    show SelfOrNothing (propagate rc now st ⟨wZrem, Gen.commitIndexKey cp tag :: members⟩).2 _
    rw [this]; exact propRem_clean rc now st _ wZrem _ members hclean
  | markerExpiry cp tag unlink => exact hi.elim
  | cpHashSet runId cpName nx =>
    cases nx with
    | false => exact hsetC _ _ (clean_cp _ hhash)
    | true =>
      have : propagate rc now st ⟨wHsetnx, [checkpointHashKey, runId, cpName]⟩ =
          propOther rc now st ⟨wHsetnx, [checkpointHashKey, runId, cpName]⟩ := by
        rw [propagate_eq]
        have e1 : lower wHsetnx = wHsetnx := by decide
        simp only [e1]
        rfl
      show SelfOrNothing (propagate rc now st ⟨wHsetnx, [checkpointHashKey, runId, cpName]⟩).2 _
      rw [this]
      exact propOther_clean rc now st _ checkpointHashKey (hsetnx_keys _ _) (clean_cp _ hhash)
  | cpHashDel runId => exact hdelC _ _ _ rfl (clean_cp _ hhash)
  | rootSet cp fields => exact hsetC _ _ (clean_cp _ hv)
  | rootHdel cp fields => exact hdelC _ _ _ rfl (clean_cp _ hv)
  | latestSeed cp tag fields =>
    apply hsetC
    refine nsTtl_clean st hst _ ?_ (latestKey_not_marker cp tag hi)
    unfold Gen.latestKey
    have := nsform (cp ++ ([58,108,97,116,101,115,116,58,123] ++ (tag ++ [125])))
    simpa [List.append_assoc] using this
  | latestDel cp tag =>
    apply delC
    intro k hk
    rw [List.mem_singleton.mp hk]
    refine nsTtl_clean st hst _ ?_ (latestKey_not_marker cp tag hi)
    unfold Gen.latestKey
    have := nsform (cp ++ ([58,108,97,116,101,115,116,58,123] ++ (tag ++ [125])))
    simpa [List.append_assoc] using this
  | rootDel cp =>
    apply delC
    intro k hk
    simp only [List.mem_cons, List.not_mem_nil, or_false] at hk
    rcases hk with rfl | rfl
    · exact clean_cp _ hv
    · exact clean_cp _ (front cp hv)
  | frontierDel cp =>
    apply delC
    intro k hk
    rw [List.mem_singleton.mp hk]
    exact clean_cp _ (front cp hv)
  | markerDel cp tag => exact absurd rfl (hnm cp tag)
  | nsDel cp keys =>
    apply delC
    intro k hk
    obtain ⟨tag, h | h | ⟨seq, h⟩⟩ := hv.2 k hk
    · rw [h]
      refine nsTtl_clean st hst _ ?_ (latestKey_not_marker cp tag hi)
      unfold Gen.latestKey
      have := nsform (cp ++ ([58,108,97,116,101,115,116,58,123] ++ (tag ++ [125])))
      simpa [List.append_assoc] using this
    · rw [h]
      refine nsTtl_clean st hst _ ?_ (commitIndexKey_not_marker cp tag hi)
      unfold Gen.commitIndexKey
      have := nsform (cp ++ ([58,105,110,100,101,120,58,123] ++ (tag ++ [125])))
      simpa [List.append_assoc] using this
    · rw [h]
      refine nsTtl_clean st hst _ ?_ (commitRecordKey_not_marker cp tag seq hi)
      unfold Gen.commitRecordKey
      simp only [List.append_assoc]
      have := nsform (cp ++ ([58,99,111,109,109,105,116,58,123] ++ (tag ++ ([125,58] ++ Gen.pad20 seq))))
      simpa [List.append_assoc] using this

/-- **`BookClean` is a consequence of the store invariant.** -/
theorem bookClean_of_nsTtl (cfg : WCfg) (w : World) (src : SiteId) (bk : Bookkeeping) (hv : bk.Valid)
    (hi : bk.Issued) (hst : NsTtl (w.site src.other).store) : BookClean cfg w src bk := by
  by_cases hm : ∃ cp tag, bk = .markerDel cp tag
  · obtain ⟨cp, tag, rfl⟩ := hm
    unfold BookClean
    simp only
    rw [execCmds_single]
    rcases markerDel_effects (cfg.redis src.other) (w.site src.other).now (w.site src.other).store cp tag with h | h | h
    · exact Or.inl h
    · exact Or.inr ⟨_, hv, h⟩
    · exact Or.inr ⟨.markerExpiry cp tag (cfg.redis src.other).lazyUnlink, trivial, h⟩
  · exact bookClean_of_self cfg w src bk hv
      (bookSelf_of_nsTtl cfg w src bk hv hi (fun cp tag h => hm ⟨cp, tag, h⟩) hst)

/-! ### which commands of an execution can put an expiry on a namespace key -/

/-- no command of the list can give a namespace key an expiry, except a marker key -/
def TtlSafe (c : Cmd) : Prop := ∀ k, TtlAt c k → isNamespaceKey k = true → MarkerForm k

theorem head_mem (c : Cmd) (k : Bytes) (h : HeadIs c k) : ∃ rest, c.args = k :: rest := by
  unfold HeadIs at h
  cases hargs : c.args with
  | nil => rw [hargs] at h; cases h
  | cons a rest =>
    rw [hargs] at h
    simp only [List.head?_cons, Option.some.injEq] at h
    exact ⟨rest, by rw [h]⟩

theorem ttlSafe_client (pc : PCfg) (c : Cmd) (hc : ClientOK pc c) : TtlSafe c := by
  intro k ⟨_, hh⟩ hns
  obtain ⟨rest, hargs⟩ := head_mem c k hh
  exact absurd (Or.inl hns) (hc.args k (by rw [hargs]; simp))

theorem ttlSafe_noName (c : Cmd) (h : ttlName (lower c.name) = false) : TtlSafe c := by
  intro k ⟨hn, _⟩ _
  rw [h] at hn; cases hn

theorem ttlSafe_headOutside (c : Cmd) (h : isNamespaceKey (c.args.headD []) = false) : TtlSafe c := by
  intro k ⟨_, hh⟩ hns
  obtain ⟨rest, hargs⟩ := head_mem c k hh
  rw [hargs] at h
  simp only [List.headD_cons] at h
  rw [h] at hns; cases hns

theorem ttlSafe_outside (c : Cmd) (h : touchesNamespace c = false) : TtlSafe c := by
  intro k ⟨_, hh⟩ hns
  obtain ⟨rest, hargs⟩ := head_mem c k hh
  unfold touchesNamespace at h
  rw [hargs] at h
  simp only [List.isEmpty_cons, Bool.false_eq_true, ↓reduceIte, List.headD_cons] at h
  split at h
  · rw [List.any_eq_false] at h
    exact absurd hns (by simpa using h k (by simp))
  · rw [h] at hns; cases hns

theorem ttlSafe_marker (cp : Bytes) (u : RUnit) (p : Payload) (hcp : Slot.lbrace ∉ cp) : TtlSafe (markerCmd cp u p) := by
  intro k ⟨_, hh⟩ _
  have : k = Gen.markerKey cp u.slotTag := by
    unfold HeadIs markerCmd at hh
    simp only [List.head?_cons, Option.some.injEq] at hh
    exact hh.symm
  exact ⟨cp, u.slotTag, hcp, this⟩

theorem ttlSafe_commit (cp : Bytes) (k : CommitKind) (u : RUnit) (p : Payload) (hcp : Slot.lbrace ∉ cp)
    (hu : ∀ c ∈ u.cmds, TtlSafe c) : ∀ c ∈ commitCmds cp k u p, TtlSafe c := by
  have hh : ∀ args, TtlSafe ⟨wHset, args⟩ := fun _ => ttlSafe_noName _ (by show ttlName (lower wHset) = false; decide)
  have hz : ∀ args, TtlSafe ⟨wZadd, args⟩ := fun _ => ttlSafe_noName _ (by show ttlName (lower wZadd) = false; decide)
  intro c hc
  cases k with
  | rdb =>
    simp only [commitCmds, List.mem_cons] at hc
    rcases hc with rfl | hc
    · exact ttlSafe_marker cp u p hcp
    · exact hu c hc
  | latest =>
    simp only [commitCmds, List.mem_cons, List.mem_append, List.not_mem_nil, or_false] at hc
    rcases hc with (rfl | hc) | rfl
    · exact ttlSafe_marker cp u p hcp
    · exact hu c hc
    · exact hh _
  | journal =>
    simp only [commitCmds, List.mem_cons, List.mem_append, List.not_mem_nil, or_false] at hc
    rcases hc with (rfl | hc) | rfl | rfl
    · exact ttlSafe_marker cp u p hcp
    · exact hu c hc
    · exact hh _
    · exact hz _

theorem book_name (bk : Bookkeeping) :
    bk.toCmd.name = wHset ∨ bk.toCmd.name = wDel ∨ bk.toCmd.name = wUnlink ∨ bk.toCmd.name = wZrem ∨
    bk.toCmd.name = wHsetnx ∨ bk.toCmd.name = wHdel := by
  cases bk with
  | frontierSave _ _ => exact Or.inl rfl
  | journalDel _ _ _ => exact Or.inr (Or.inl rfl)
  | indexRem _ _ _ => exact Or.inr (Or.inr (Or.inr (Or.inl rfl)))
  | markerExpiry _ _ unlink =>
    cases unlink
    · exact Or.inr (Or.inl rfl)
    · exact Or.inr (Or.inr (Or.inl rfl))
  | cpHashSet _ _ nx =>
    cases nx
    · exact Or.inl rfl
    · exact Or.inr (Or.inr (Or.inr (Or.inr (Or.inl rfl))))
  | cpHashDel _ => exact Or.inr (Or.inr (Or.inr (Or.inr (Or.inr rfl))))
  | rootSet _ _ => exact Or.inl rfl
  | rootHdel _ _ => exact Or.inr (Or.inr (Or.inr (Or.inr (Or.inr rfl))))
  | latestSeed _ _ _ => exact Or.inl rfl
  | latestDel _ _ => exact Or.inr (Or.inl rfl)
  | rootDel _ => exact Or.inr (Or.inl rfl)
  | frontierDel _ => exact Or.inr (Or.inl rfl)
  | markerDel _ _ => exact Or.inr (Or.inl rfl)
  | nsDel _ _ => exact Or.inr (Or.inl rfl)

theorem ttlSafe_book (bk : Bookkeeping) : TtlSafe bk.toCmd := by
  apply ttlSafe_noName
  rcases book_name bk with h | h | h | h | h | h <;> rw [h] <;> decide

/-! ### the global invariant -/

/-- the resume position lies at or before the read position, and no block
    between the two is owed a commit -/
def RInv (w : World) : Prop :=
  ∀ s, (w.link s).cpos ≤ (w.link s).pos ∧
    dueTags (w.site s).stream (w.link s).cpos = dueTags (w.site s).stream (w.link s).pos

structure GInv (cfg : WCfg) (w : World) : Prop where
  winv : WInv cfg w
  ttl : ∀ s, NsTtl (w.site s).store
  resume : RInv w
  cps : ∀ s, Slot.lbrace ∉ (w.link s).cp

/-- the events of the global theorem: a condition on the EVENT alone (nothing
    about the state it meets) -/
def EvOK' (cfg : WCfg) : Ev → Prop
  | .client _ _ cmds => ∀ c ∈ cmds, ClientOK cfg.parser c
  | .tick _ _ => True
  | .expire _ k => ¬ FilterReserved k
  | .link _ _ => True
  | .snapshot _ cmds _ => ∀ c ∈ cmds, TxnSafe c ∧ isNamespaceKey (c.args.headD []) = false
  | .book _ bk => bk.Valid ∧ bk.Issued
  | .toolRaw _ _ _ => False
  | .restart _ _ _ => True

def GoodEvents (cfg : WCfg) (evs : List Ev) : Prop := ∀ e ∈ evs, EvOK' cfg e

theorem dueTags_le (s : List TBlock) (n m : Nat) (h : n ≤ m) : ∃ ext, dueTags s m = dueTags s n ++ ext := by
  unfold dueTags
  have : m = n + (m - n) := by omega
  rw [this, List.take_add, List.filter_append, List.map_append]
  exact ⟨_, rfl⟩

theorem dueTags_sandwich (s : List TBlock) (a b c : Nat) (hab : a ≤ b) (hbc : b ≤ c)
    (h : dueTags s a = dueTags s c) : dueTags s a = dueTags s b := by
  obtain ⟨x, hx⟩ := dueTags_le s a b hab
  obtain ⟨y, hy⟩ := dueTags_le s b c hbc
  rw [hy, hx, List.append_assoc] at h
  have : x ++ y = [] := by
    have := congrArg List.length h
    simp only [List.length_append] at this
    apply List.eq_nil_of_length_eq_zero
    simp only [List.length_append]
    omega
  have hx0 : x = [] := (List.append_eq_nil_iff.mp this).1
  rw [hx, hx0, List.append_nil]

theorem store_execAt_same (cfg : WCfg) (w : World) (s : SiteId) (isTxn : Bool) (cmds : List Cmd) (tag : Tag) :
    ((execAt cfg w s isTxn cmds tag).site s).store =
      (execCmds (cfg.redis s) (w.site s).now (w.site s).store cmds).1 := by
  unfold execAt; rw [site_setSite_same]

theorem site_execAt_other' (cfg : WCfg) (w : World) (s : SiteId) (isTxn : Bool) (cmds : List Cmd) (tag : Tag) :
    (execAt cfg w s isTxn cmds tag).site s.other = w.site s.other := by
  unfold execAt; rw [site_setSite_other]

theorem ttl_execAt (cfg : WCfg) (w : World) (h : ∀ t, NsTtl (w.site t).store) (s : SiteId) (isTxn : Bool)
    (cmds : List Cmd) (tag : Tag) (hc : ∀ c ∈ cmds, TtlSafe c) :
    ∀ t, NsTtl ((execAt cfg w s isTxn cmds tag).site t).store := by
  intro t
  rcases eq_or_other' s t with rfl | rfl
  · rw [store_execAt_same]; exact nsTtl_exec _ _ _ _ (h s) hc
  · rw [site_execAt_other']; exact h _

/-- a world that differs from `w` only in links, commit log and id counter,
    with streams extended: the part of `RInv`/`cps`/`ttl` that does not look at them -/
theorem rinv_grow (w w' : World) (h : RInv w) (hw : WInv cfg w)
    (hl : ∀ t, w'.link t = w.link t) (hs : ∀ t, ∃ ext, (w'.site t).stream = (w.site t).stream ++ ext) : RInv w' := by
  intro s
  obtain ⟨ext, hext⟩ := hs s
  have hpos := hw.pos s
  rw [hl, hext, dueTags_append _ _ _ (by have := (h s).1; omega), dueTags_append _ _ _ hpos]
  exact h s

theorem evOK_of (cfg : WCfg) (w : World) (hg : GInv cfg w) (e : Ev) (hok : EvOK' cfg e) (hnr : ¬ e.isRestart) :
    EvOK cfg w e := by
  cases e with
  | client s isTxn cmds => exact hok
  | tick s dt => trivial
  | expire s k => exact hok
  | link src arg => trivial
  | snapshot src cmds arg => exact fun c hc => (hok c hc).1
  | book src bk => exact ⟨hok.1, bookClean_of_nsTtl cfg w src bk hok.1 hok.2 (hg.ttl src.other)⟩
  | toolRaw _ _ _ => exact hok
  | restart _ _ _ => exact absurd trivial hnr

/-- the stores after a non-link, non-restart event -/
theorem ttl_step_other' (cfg : WCfg) (w : World) (httl : ∀ s, NsTtl (w.site s).store)
    (hcps : ∀ s, Slot.lbrace ∉ (w.link s).cp) (e : Ev) (hok : EvOK' cfg e)
    (hnl : ¬ e.isLink) (hnr : ¬ e.isRestart) : ∀ t, NsTtl ((stepWorld cfg w e).site t).store := by
  cases e with
  | link _ _ => exact absurd trivial hnl
  | restart _ _ _ => exact absurd trivial hnr
  | client s isTxn cmds =>
    intro t
    unfold stepWorld
    simp only
    rw [site_nextId]
    rcases eq_or_other' s t with rfl | rfl
    · rw [site_setSite_same]
      exact nsTtl_exec _ _ _ _ (httl s) (fun c hc => ttlSafe_client cfg.parser c (hok c hc))
    · rw [site_setSite_other]; exact httl _
  | tick s dt =>
    intro t
    unfold stepWorld
    rcases eq_or_other' s t with rfl | rfl
    · rw [site_setSite_same]; exact httl s
    · rw [site_setSite_other]; exact httl _
  | expire s k =>
    intro t
    have hst : NsTtl (activeExpire (cfg.redis s) (w.site s).now (w.site s).store k).1 := by
      unfold activeExpire
      simp only
      exact nsTtl_frame (fun _ => False) _ _ (httl s) (frame_lazyExpire _ _ _ _ _) (fun _ h => h.elim)
    unfold stepWorld
    simp only
    split
    · rcases eq_or_other' s t with rfl | rfl
      · rw [site_setSite_same]; exact hst
      · rw [site_setSite_other]; exact httl _
    · rw [site_nextId]
      rcases eq_or_other' s t with rfl | rfl
      · rw [site_setSite_same]; exact hst
      · rw [site_setSite_other]; exact httl _
  | snapshot src cmds arg =>
    unfold stepWorld
    simp only
    cases hb : buildUnit standaloneMode cfg.parser.resolver cmds with
    | error e => exact httl
    | ok u =>
      simp only
      have hu : u.cmds = cmds := buildUnit_cmds _ _ _ u hb
      apply ttl_execAt cfg w httl
      apply ttlSafe_commit _ _ _ _ (hcps src)
      rw [hu]
      exact fun c hc => ttlSafe_headOutside c (hok c hc).2
  | book src bk =>
    unfold stepWorld
    apply ttl_execAt cfg w httl
    intro c hc
    rw [List.mem_singleton.mp hc]
    exact ttlSafe_book bk
  | toolRaw _ _ _ => exact hok.elim

theorem ttl_step_other (cfg : WCfg) (w : World) (hg : GInv cfg w) (e : Ev) (hok : EvOK' cfg e)
    (hnl : ¬ e.isLink) (hnr : ¬ e.isRestart) : ∀ t, NsTtl ((stepWorld cfg w e).site t).store :=
  ttl_step_other' cfg w hg.ttl hg.cps e hok hnl hnr

theorem gstep_other (cfg : WCfg) (hf : FOK cfg.parser.filter) (w : World) (hg : GInv cfg w) (e : Ev)
    (hok : EvOK' cfg e) (hnl : ¬ e.isLink) (hnr : ¬ e.isRestart) : GInv cfg (stepWorld cfg w e) where
  winv := step_preserves cfg hf w hg.winv e (evOK_of cfg w hg e hok hnr)
  ttl := ttl_step_other cfg w hg e hok hnl hnr
  resume := rinv_grow (cfg := cfg) w _ hg.resume hg.winv (step_link_same cfg w e hnl hnr)
    (fun t => step_stream_grows cfg hf w hg.winv e t)
  cps := by intro s; rw [step_link_same cfg w e hnl hnr]; exact hg.cps s

/-- a restart that resumes at or behind the last committed unit (`cpos ≤ p`) -/
theorem gstep_restart (cfg : WCfg) (w : World) (hg : GInv cfg w) (src : SiteId) (p : Nat) (sq : Nat)
    (hex : (w.link src).cpos ≤ p) : GInv cfg (stepWorld cfg w (.restart src p sq)) := by
  unfold stepWorld
  simp only
  split
  · rename_i hguard
    have hr := hg.resume src
    have hsand : dueTags (w.site src).stream (w.link src).cpos = dueTags (w.site src).stream p :=
      dueTags_sandwich _ _ _ _ hex hguard hr.2
    have hmin : min (w.link src).cpos p = (w.link src).cpos := Nat.min_eq_left hex
    refine ⟨?_, ?_, ?_, ?_⟩
    · apply winv_setLink cfg w hg.winv src _ ⟨rfl, rfl⟩
      · show p ≤ _
        have := hg.winv.pos src; omega
      · show dueTags _ p = _
        rw [← hsand, hr.2]
      · intro e he; cases he
    · intro t; rw [site_setLink]; exact hg.ttl t
    · intro t
      rw [site_setLink]
      rcases eq_or_other' src t with rfl | rfl
      · rw [link_setLink_same]
        show min (w.link src).cpos p ≤ p ∧ dueTags _ (min (w.link src).cpos p) = dueTags _ p
        rw [hmin]
        exact ⟨hex, hsand⟩
      · rw [link_setLink_other]; exact hg.resume _
    · intro t
      rcases eq_or_other' src t with rfl | rfl
      · rw [link_setLink_same]; exact hg.cps _
      · rw [link_setLink_other]; exact hg.cps _
  · exact hg

theorem gstep_link (cfg : WCfg) (hf : FOK cfg.parser.filter) (w : World) (hg : GInv cfg w)
    (src : SiteId) (arg : CommitArg) : GInv cfg (stepWorld cfg w (.link src arg)) := by
  have hw' : WInv cfg (stepWorld cfg w (.link src arg)) := step_link cfg hf w hg.winv src arg
  have hs := link_step_shape cfg hf w hg.winv src arg
  generalize stepWorld cfg w (.link src arg) = w' at hs hw'
  cases hs with
  | stay _ => exact hg
  | skip tb pst' hget hd =>
    refine ⟨hw', ?_, ?_, ?_⟩
    · intro t; rw [site_setLink]; exact hg.ttl t
    · intro t
      rw [site_setLink]
      rcases eq_or_other' src t with rfl | rfl
      · rw [link_setLink_same]
        have hr := hg.resume src
        refine ⟨by show (w.link src).cpos ≤ (w.link src).pos + 1; omega, ?_⟩
        show _ = dueTags _ ((w.link src).pos + 1)
        rw [dueTags_succ _ _ tb hget, hd]
        simpa using hr.2
      · rw [link_setLink_other]; exact hg.resume _
    · intro t
      rcases eq_or_other' src t with rfl | rfl
      · rw [link_setLink_same]; exact hg.cps _
      · rw [link_setLink_other]; exact hg.cps _
  | halt tb e hget hd hlive =>
    refine ⟨hw', ?_, ?_, ?_⟩
    · intro t; rw [site_setLink]; exact hg.ttl t
    · intro t
      rw [site_setLink]
      rcases eq_or_other' src t with rfl | rfl
      · rw [link_setLink_same]; exact hg.resume _
      · rw [link_setLink_other]; exact hg.resume _
    · intro t
      rcases eq_or_other' src t with rfl | rfl
      · rw [link_setLink_same]; exact hg.cps _
      · rw [link_setLink_other]; exact hg.cps _
  | emit tb pst' em hget hd hcmds hlive =>
    obtain ⟨hmem, hlt⟩ := mem_of_getElem? _ _ _ hget
    have hfor : isForeign tb.tag = true := by
      unfold due at hd
      simp only [Bool.and_eq_true] at hd
      exact hd.1
    have hbok := hg.winv.blocks src tb hmem
    unfold BlockOK at hbok
    rw [if_pos hfor] at hbok
    have hu : ∀ c ∈ em.unit.cmds, TtlSafe c := by
      rw [hcmds]
      intro c hc
      obtain ⟨c0, hc0, rfl⟩ := List.mem_map.mp hc
      exact ttlSafe_outside _ (hbok c0 hc0).outside
    generalize hX : execAt cfg (w.setLink src (linkAfter (w.link src) pst' tb.tag em)) src.other true
      (commitCmds (w.link src).cp arg.kind em.unit ⟨arg.markerValue, arg.recordFields, em.seq⟩)
      (.tool (tagId tb.tag)) = X at hw' ⊢
    have hXttl : ∀ t, NsTtl (X.site t).store := by
      rw [← hX]
      apply ttl_execAt
      · intro t; rw [site_setLink]; exact hg.ttl t
      · exact ttlSafe_commit _ _ _ _ (hg.cps src) hu
    have hXlink : ∀ t, X.link t = (w.setLink src (linkAfter (w.link src) pst' tb.tag em)).link t := by
      intro t; rw [← hX, link_execAt]
    have hXsrc : X.site src = w.site src := by
      rw [← hX]
      have := site_execAt_other cfg (w.setLink src (linkAfter (w.link src) pst' tb.tag em)) src true
        (commitCmds (w.link src).cp arg.kind em.unit ⟨arg.markerValue, arg.recordFields, em.seq⟩) (.tool (tagId tb.tag))
      rw [this, site_setLink]
    have hXoth : ∃ ext, (X.site src.other).stream = (w.site src.other).stream ++ ext := by
      obtain ⟨ext, hext, _⟩ := stream_execAt cfg (w.setLink src (linkAfter (w.link src) pst' tb.tag em)) src.other src.other true
        (commitCmds (w.link src).cp arg.kind em.unit ⟨arg.markerValue, arg.recordFields, em.seq⟩) (.tool (tagId tb.tag))
      rw [hX, site_setLink] at hext
      exact ⟨ext, hext⟩
    refine ⟨hw', ?_, ?_, ?_⟩
    · intro t; rw [site_commits]; exact hXttl t
    · intro t
      rw [site_commits, link_commits, hXlink]
      rcases eq_or_other' src t with rfl | rfl
      · rw [link_setLink_same]
        exact ⟨Nat.le_refl _, rfl⟩
      · rw [link_setLink_other]
        obtain ⟨ext, hext⟩ := hXoth
        have hr := hg.resume src.other
        have hpos := hg.winv.pos src.other
        rw [hext, dueTags_append _ _ _ (by omega), dueTags_append _ _ _ hpos]
        exact hr
    · intro t
      rw [link_commits, hXlink]
      rcases eq_or_other' src t with rfl | rfl
      · rw [link_setLink_same]; exact hg.cps _
      · rw [link_setLink_other]; exact hg.cps _

/-- the restart of the event, if it is one, resumes at or behind the last unit its link committed -/
def ExactAt (w : World) : Ev → Prop
  | .restart src p _ => (w.link src).cpos ≤ p
  | _ => True

/-- every restart of the run is exact (what the commit records of SYNC mode give; pipeline and
    parallel mode may resume earlier, at the contiguous frontier) -/
def ExactRestarts (cfg : WCfg) : World → List Ev → Prop
  | _, [] => True
  | w, e :: es => ExactAt w e ∧ ExactRestarts cfg (stepWorld cfg w e) es

theorem gstep (cfg : WCfg) (hf : FOK cfg.parser.filter) (w : World) (hg : GInv cfg w) (e : Ev)
    (hok : EvOK' cfg e) (hex : ExactAt w e) : GInv cfg (stepWorld cfg w e) := by
  by_cases hl : e.isLink
  · cases e with
    | link src arg => exact gstep_link cfg hf w hg src arg
    | client _ _ _ => exact absurd hl (by simp [Ev.isLink])
    | tick _ _ => exact absurd hl (by simp [Ev.isLink])
    | expire _ _ => exact absurd hl (by simp [Ev.isLink])
    | snapshot _ _ _ => exact absurd hl (by simp [Ev.isLink])
    | book _ _ => exact absurd hl (by simp [Ev.isLink])
    | toolRaw _ _ _ => exact absurd hl (by simp [Ev.isLink])
    | restart _ _ _ => exact absurd hl (by simp [Ev.isLink])
  · by_cases hr : e.isRestart
    · cases e with
      | restart src p sq => exact gstep_restart cfg w hg src p sq hex
      | client _ _ _ => exact absurd hr (by simp [Ev.isRestart])
      | tick _ _ => exact absurd hr (by simp [Ev.isRestart])
      | expire _ _ => exact absurd hr (by simp [Ev.isRestart])
      | link _ _ => exact absurd hr (by simp [Ev.isRestart])
      | snapshot _ _ _ => exact absurd hr (by simp [Ev.isRestart])
      | book _ _ => exact absurd hr (by simp [Ev.isRestart])
      | toolRaw _ _ _ => exact absurd hr (by simp [Ev.isRestart])
    · exact gstep_other cfg hf w hg e hok hl hr

theorem grun (cfg : WCfg) (hf : FOK cfg.parser.filter) (evs : List Ev) (w : World) (hg : GInv cfg w)
    (hgood : GoodEvents cfg evs) (hex : ExactRestarts cfg w evs) : GInv cfg (runWorld cfg w evs) := by
  induction evs generalizing w with
  | nil => exact hg
  | cons e es ih =>
    exact ih _ (gstep cfg hf w hg e (hgood e (by simp)) hex.1) (fun e' he' => hgood e' (List.mem_cons_of_mem _ he')) hex.2

theorem ginv_init (cfg : WCfg) (cpAB cpBA : Bytes) (hab : Slot.lbrace ∉ cpAB) (hba : Slot.lbrace ∉ cpBA) :
    GInv cfg (World.init cpAB cpBA) where
  winv := winv_init cfg cpAB cpBA
  ttl := by intro s k e h; cases s <;> cases h
  resume := by intro s; cases s <;> exact ⟨Nat.le_refl _, rfl⟩
  cps := by intro s; cases s; exact hab; exact hba

/-- the emitted-content invariant over runs with restarts -/
theorem content_grun (cfg : WCfg) (hf : FOK cfg.parser.filter) (evs : List Ev) (w : World) (hg : GInv cfg w)
    (hc : Content w) (hgood : GoodEvents cfg evs) (hex : ExactRestarts cfg w evs) : Content (runWorld cfg w evs) := by
  induction evs generalizing w with
  | nil => exact hc
  | cons e es ih =>
    exact ih _ (gstep cfg hf w hg e (hgood e (by simp)) hex.1) (content_step cfg hf w hg.winv hc e)
      (fun e' he' => hgood e' (List.mem_cons_of_mem _ he')) hex.2

/-! ### quiescence, restarts included -/

def Ev.isLinkOrRestart : Ev → Prop
  | .link _ _ => True
  | .restart _ _ _ => True
  | _ => False

theorem dueTags_eq_nodue (s : List TBlock) (p q : Nat) (h : p ≤ q) (heq : dueTags s p = dueTags s q) :
    ∀ tb ∈ (s.drop p).take (q - p), due tb = false := by
  unfold dueTags at heq
  have hq : q = p + (q - p) := by omega
  rw [hq, List.take_add, List.filter_append, List.map_append] at heq
  have hnil : (((s.drop p).take (p + (q - p) - p)).filter due).map (·.tag) = [] := by
    have := congrArg List.length heq
    simp only [List.length_append] at this
    apply List.eq_nil_of_length_eq_zero
    have e : p + (q - p) - p = q - p := by omega
    rw [e]
    omega
  have e : p + (q - p) - p = q - p := by omega
  rw [e] at hnil
  have hf : ((s.drop p).take (q - p)).filter due = [] := List.map_eq_nil_iff.mp hnil
  intro tb htb
  cases hd : due tb with
  | false => rfl
  | true =>
    have : tb ∈ ((s.drop p).take (q - p)).filter due := List.mem_filter.mpr ⟨htb, hd⟩
    rw [hf] at this; cases this

theorem noPending_restart (cfg : WCfg) (w : World) (hg : GInv cfg w) (hnp : NoPending w) (src : SiteId) (p : Nat) (sq : Nat)
    (hex : (w.link src).cpos ≤ p) : NoPending (stepWorld cfg w (.restart src p sq)) := by
  unfold stepWorld
  simp only
  split
  · rename_i hguard
    intro s tb htb
    rw [site_setLink] at htb
    rcases eq_or_other' src s with rfl | rfl
    · rw [link_setLink_same] at htb
      have hr := hg.resume src
      have hsand : dueTags (w.site src).stream (w.link src).cpos = dueTags (w.site src).stream p :=
        dueTags_sandwich _ _ _ _ hex hguard hr.2
      have heq : dueTags (w.site src).stream p = dueTags (w.site src).stream (w.link src).pos := by
        rw [← hsand]; exact hr.2
      have hsplit : (w.site src).stream.drop p =
          ((w.site src).stream.drop p).take ((w.link src).pos - p) ++ (w.site src).stream.drop (w.link src).pos := by
        have h1 := (List.take_append_drop ((w.link src).pos - p) ((w.site src).stream.drop p)).symm
        rw [List.drop_drop] at h1
        have e : p + ((w.link src).pos - p) = (w.link src).pos := by omega
        rw [e] at h1
        exact h1
      show due tb = false
      have htb' : tb ∈ (w.site src).stream.drop p := htb
      rw [hsplit] at htb'
      rcases List.mem_append.mp htb' with h | h
      · exact dueTags_eq_nodue _ _ _ hguard heq tb h
      · exact hnp src tb h
    · rw [link_setLink_other] at htb
      exact hnp _ tb htb
  · exact hnp

theorem restart_same (cfg : WCfg) (w : World) (src : SiteId) (p : Nat) (sq : Nat) :
    (stepWorld cfg w (.restart src p sq)).a.stream = w.a.stream ∧ (stepWorld cfg w (.restart src p sq)).b.stream = w.b.stream ∧
    (stepWorld cfg w (.restart src p sq)).commits = w.commits ∧
    ∀ s, ((stepWorld cfg w (.restart src p sq)).link s).emitted = (w.link s).emitted := by
  unfold stepWorld
  simp only
  split
  · refine ⟨congrArg SiteSt.stream (site_setLink w src .A _), congrArg SiteSt.stream (site_setLink w src .B _),
      commits_setLink _ _ _, ?_⟩
    intro s
    rcases eq_or_other' src s with rfl | rfl
    · rw [link_setLink_same]
    · rw [link_setLink_other]
  · exact ⟨rfl, rfl, rfl, fun _ => rfl⟩

/-- once nothing a link still has to read is owed a commit, link steps AND
    restarts of either syncer change neither stream, nor the commit log, nor
    the emitted units -/
theorem gquiesce (cfg : WCfg) (hf : FOK cfg.parser.filter) (evs : List Ev) (w : World) (hg : GInv cfg w)
    (hnp : NoPending w) (hl : ∀ e ∈ evs, e.isLinkOrRestart) (hex : ExactRestarts cfg w evs) :
    (runWorld cfg w evs).a.stream = w.a.stream ∧ (runWorld cfg w evs).b.stream = w.b.stream ∧
    (runWorld cfg w evs).commits = w.commits ∧
    (∀ s, ((runWorld cfg w evs).link s).emitted = (w.link s).emitted) := by
  induction evs generalizing w with
  | nil => exact ⟨rfl, rfl, rfl, fun _ => rfl⟩
  | cons e es ih =>
    have he := hl e (by simp)
    have hrest : ∀ e' ∈ es, e'.isLinkOrRestart := fun e' he' => hl e' (List.mem_cons_of_mem _ he')
    have hrun : runWorld cfg w (e :: es) = runWorld cfg (stepWorld cfg w e) es := rfl
    cases e with
    | link src arg =>
      have hnd : ∀ tb, (w.site src).stream[(w.link src).pos]? = some tb → due tb = false := by
        intro tb hget
        apply hnp src tb
        rw [List.mem_iff_getElem?]
        refine ⟨0, ?_⟩
        rw [List.getElem?_drop]
        simpa using hget
      obtain ⟨l', hstep, hem, hpos⟩ := link_step_nodue cfg w hg.winv src arg hnd
      have hg' : GInv cfg (stepWorld cfg w (.link src arg)) := gstep_link cfg hf w hg src arg
      have hnp' : NoPending (stepWorld cfg w (.link src arg)) := by
        rw [hstep]
        intro s tb htb
        rw [site_setLink] at htb
        rcases eq_or_other' src s with rfl | rfl
        · rw [link_setLink_same] at htb
          apply hnp src tb
          have : l'.pos = (w.link src).pos + (l'.pos - (w.link src).pos) := by omega
          rw [this, ← List.drop_drop] at htb
          exact List.mem_of_mem_drop htb
        · rw [link_setLink_other] at htb
          exact hnp _ tb htb
      obtain ⟨h1, h2, h3, h4⟩ := ih _ hg' hnp' hrest hex.2
      rw [hrun]
      refine ⟨?_, ?_, ?_, ?_⟩
      · rw [h1, hstep]; exact congrArg SiteSt.stream (site_setLink w src .A l')
      · rw [h2, hstep]; exact congrArg SiteSt.stream (site_setLink w src .B l')
      · rw [h3, hstep]; exact commits_setLink _ _ _
      · intro s
        rw [h4, hstep]
        rcases eq_or_other' src s with rfl | rfl
        · rw [link_setLink_same]; exact hem
        · rw [link_setLink_other]
    | restart src p sq =>
      obtain ⟨r1, r2, r3, r4⟩ := restart_same cfg w src p sq
      obtain ⟨h1, h2, h3, h4⟩ := ih _ (gstep_restart cfg w hg src p sq hex.1) (noPending_restart cfg w hg hnp src p sq hex.1) hrest hex.2
      rw [hrun]
      exact ⟨h1.trans r1, h2.trans r2, h3.trans r3, fun s => (h4 s).trans (r4 s)⟩
    | client _ _ _ => exact absurd he (by simp [Ev.isLinkOrRestart])
    | tick _ _ => exact absurd he (by simp [Ev.isLinkOrRestart])
    | expire _ _ => exact absurd he (by simp [Ev.isLinkOrRestart])
    | snapshot _ _ _ => exact absurd he (by simp [Ev.isLinkOrRestart])
    | book _ _ => exact absurd he (by simp [Ev.isLinkOrRestart])
    | toolRaw _ _ _ => exact absurd he (by simp [Ev.isLinkOrRestart])

theorem goodEvents_nil (cfg : WCfg) : GoodEvents cfg [] := by intro e he; cases he

theorem goodEvents_cons (cfg : WCfg) (e : Ev) (es : List Ev) (h : EvOK' cfg e) (hs : GoodEvents cfg es) :
    GoodEvents cfg (e :: es) := by
  intro e' he'
  rcases List.mem_cons.mp he' with rfl | h'
  · exact h
  · exact hs e' h'

/-! ### sites that start with data -/

/-- both sites hold data (and their clocks any value) when the links start -/
def World.initWith (cpAB cpBA : Bytes) (sa sb : Store) (na nb : Nat) : World :=
  { a := { store := sa, now := na }, b := { store := sb, now := nb }, ab := { cp := cpAB }, ba := { cp := cpBA } }

theorem winv_initWith (cfg : WCfg) (cpAB cpBA : Bytes) (sa sb : Store) (na nb : Nat) :
    WInv cfg (World.initWith cpAB cpBA sa sb na nb) where
  blocks := by intro s tb h; cases s <;> cases h
  idle := by intro s; cases s <;> exact ⟨rfl, rfl⟩
  pos := by intro s; cases s <;> exact Nat.le_refl _
  once := by intro s; cases s <;> rfl
  halt := by intro s e h; cases s <;> cases h

theorem ginv_initWith (cfg : WCfg) (cpAB cpBA : Bytes) (sa sb : Store) (na nb : Nat)
    (hab : Slot.lbrace ∉ cpAB) (hba : Slot.lbrace ∉ cpBA) (ha : NsTtl sa) (hb : NsTtl sb) :
    GInv cfg (World.initWith cpAB cpBA sa sb na nb) where
  winv := winv_initWith cfg cpAB cpBA sa sb na nb
  ttl := by intro s; cases s; exact ha; exact hb
  resume := by intro s; cases s <;> exact ⟨Nat.le_refl _, rfl⟩
  cps := by intro s; cases s; exact hab; exact hba

theorem content_initWith (cpAB cpBA : Bytes) (sa sb : Store) (na nb : Nat) :
    Content (World.initWith cpAB cpBA sa sb na nb) := by
  intro s p hp
  cases s <;> cases hp

/-! ### what holds under ANY restart (also one that resumes before the last committed unit) -/

def World.core (w : World) : SiteSt × SiteSt × LinkSt × LinkSt × Nat := (w.a, w.b, w.ab, w.ba, w.nextId)

theorem step_core (cfg : WCfg) (w : World) (c : List (Tag × SiteId)) (e : Ev) :
    (stepWorld cfg { w with commits := c } e).core = (stepWorld cfg w e).core := by
  cases w with
  | mk a b ab ba n cm =>
  cases e with
  | client s isTxn cmds => cases s <;> rfl
  | tick s dt => cases s <;> rfl
  | expire s k => cases s <;> (simp only [stepWorld, World.site, World.setSite]; split <;> rfl)
  | link src arg =>
    cases src
    · simp only [stepWorld, World.link, World.site]
      by_cases hh : ab.halted.isSome = true
      · simp only [hh, ↓reduceIte]; rfl
      · simp only [hh, ↓reduceIte]
        cases hget : a.stream[ab.pos]? with
        | none => rfl
        | some tb =>
          simp only
          rcases hp : parseBlock cfg.parser ab.pst tb.block with ⟨ems, pst', err⟩
          cases err with
          | some e => rfl
          | none =>
            cases ems with
            | nil => rfl
            | cons em tl => rfl
    · simp only [stepWorld, World.link, World.site]
      by_cases hh : ba.halted.isSome = true
      · simp only [hh, ↓reduceIte]; rfl
      · simp only [hh, ↓reduceIte]
        cases hget : b.stream[ba.pos]? with
        | none => rfl
        | some tb =>
          simp only
          rcases hp : parseBlock cfg.parser ba.pst tb.block with ⟨ems, pst', err⟩
          cases err with
          | some e => rfl
          | none =>
            cases ems with
            | nil => rfl
            | cons em tl => rfl
  | snapshot src cmds arg => cases src <;> (simp only [stepWorld]; split <;> rfl)
  | book src bk => cases src <;> rfl
  | toolRaw src isTxn cmds => cases src <;> rfl
  | restart src p sq =>
    cases src
    · simp only [stepWorld, World.link]
      by_cases h : p ≤ ab.pos
      · simp only [h, ↓reduceIte]; rfl
      · simp only [h, ↓reduceIte]; rfl
    · simp only [stepWorld, World.link]
      by_cases h : p ≤ ba.pos
      · simp only [h, ↓reduceIte]; rfl
      · simp only [h, ↓reduceIte]; rfl

theorem site_of_core (w1 w2 : World) (h : w1.core = w2.core) (t : SiteId) : w1.site t = w2.site t := by
  unfold World.core at h
  injection h with h1 h
  injection h with h2 h
  cases t
  · exact h1
  · exact h2

theorem link_of_core (w1 w2 : World) (h : w1.core = w2.core) (t : SiteId) : w1.link t = w2.link t := by
  unfold World.core at h
  injection h with h1 h
  injection h with h2 h
  injection h with h3 h
  injection h with h4 h
  cases t
  · exact h3
  · exact h4

/-- the commit log is only ever appended to, by an amount that does not depend on it -/
theorem step_commits (cfg : WCfg) (w : World) (c : List (Tag × SiteId)) (e : Ev) :
    (stepWorld cfg { w with commits := c } e).commits = c ++ (stepWorld cfg { w with commits := [] } e).commits := by
  cases w with
  | mk a b ab ba n cm =>
  cases e with
  | client s isTxn cmds => cases s <;> simp [stepWorld, World.site, World.setSite]
  | tick s dt => cases s <;> simp [stepWorld, World.site, World.setSite]
  | expire s k => cases s <;> (simp only [stepWorld, World.site, World.setSite]; split <;> simp)
  | link src arg =>
    cases src
    · simp only [stepWorld, World.link, World.site]
      by_cases hh : ab.halted.isSome = true
      · simp [hh]
      · simp only [hh]
        cases hget : a.stream[ab.pos]? with
        | none => simp
        | some tb =>
          simp only
          rcases hp : parseBlock cfg.parser ab.pst tb.block with ⟨ems, pst', err⟩
          cases err with
          | some e => simp [World.setLink]
          | none =>
            cases ems with
            | nil => simp [World.setLink]
            | cons em tl => simp [World.setLink, execAt, World.site, World.setSite, SiteId.other]
    · simp only [stepWorld, World.link, World.site]
      by_cases hh : ba.halted.isSome = true
      · simp [hh]
      · simp only [hh]
        cases hget : b.stream[ba.pos]? with
        | none => simp
        | some tb =>
          simp only
          rcases hp : parseBlock cfg.parser ba.pst tb.block with ⟨ems, pst', err⟩
          cases err with
          | some e => simp [World.setLink]
          | none =>
            cases ems with
            | nil => simp [World.setLink]
            | cons em tl => simp [World.setLink, execAt, World.site, World.setSite, SiteId.other]
  | snapshot src cmds arg =>
    cases src <;> (simp only [stepWorld]; split <;> simp [execAt, World.site, World.setSite, SiteId.other])
  | book src bk => cases src <;> simp [stepWorld, execAt, World.site, World.setSite, SiteId.other]
  | toolRaw src isTxn cmds => cases src <;> simp [stepWorld, execAt, World.site, World.setSite, SiteId.other]
  | restart src p sq =>
    cases src
    · simp only [stepWorld, World.link]
      by_cases h : p ≤ ab.pos <;> simp [h, World.setLink]
    · simp only [stepWorld, World.link]
      by_cases h : p ≤ ba.pos <;> simp [h, World.setLink]

/-- the commit log the link positions alone account for -/
def normCommits (w : World) : List (Tag × SiteId) :=
  (dueTags w.a.stream w.ab.pos).map (fun t => (t, SiteId.B)) ++ (dueTags w.b.stream w.ba.pos).map (fun t => (t, SiteId.A))

def World.norm (w : World) : World := { w with commits := normCommits w }

theorem site_norm (w : World) (t : SiteId) : w.norm.site t = w.site t := site_commits w _ t
theorem link_norm (w : World) (t : SiteId) : w.norm.link t = w.link t := link_commits w _ t

theorem commitsAt_norm (w : World) (s : SiteId) :
    commitsAt w.norm s.other = dueTags (w.site s).stream (w.link s).pos := by
  unfold commitsAt World.norm normCommits
  have hAB : (SiteId.A == SiteId.B) = false := rfl
  have hBA : (SiteId.B == SiteId.A) = false := rfl
  have ftrue : ∀ l : List Tag, l.filter (fun _ => true) = l := fun l => List.filter_eq_self.mpr (fun _ _ => rfl)
  have ffalse : ∀ l : List Tag, l.filter (fun _ => false) = [] := fun l => List.filter_eq_nil_iff.mpr (fun _ _ => by simp)
  cases s <;> simp [SiteId.other, World.site, World.link, List.filter_map, Function.comp_def, hAB, hBA, ftrue, ffalse]

/-- the four state facts of `WInv` carry over to any world with the same sites and links;
    its `once` holds for the normalised log by construction -/
theorem winv_norm_of (cfg : WCfg) (w1 w2 : World) (h : WInv cfg w1) (hs : ∀ t, w2.site t = w1.site t)
    (hl : ∀ t, w2.link t = w1.link t) : WInv cfg w2.norm where
  blocks := by intro s tb htb; rw [site_norm, hs] at htb; exact h.blocks s tb htb
  idle := by intro s; rw [link_norm, hl]; exact h.idle s
  pos := by intro s; rw [link_norm, site_norm, hl, hs]; exact h.pos s
  once := by intro s; rw [commitsAt_norm, site_norm, link_norm]
  halt := by intro s e he; rw [link_norm, hl] at he; exact h.halt s e he

/-- **the invariant that survives every restart**: the state facts (every
    block the tool wrote is quiet for the opposite link, every client block is
    forwardable, parsers idle between blocks, stops only on the builder), all
    commits ever made come from client blocks, every client block a link has
    consumed has been committed at least once, the expiry invariant -/
structure LInv (cfg : WCfg) (w : World) : Prop where
  winv : WInv cfg w.norm
  foreign : ∀ t ∈ w.commits, isForeign t.1 = true
  sup : ∀ s, ∀ t ∈ dueTags (w.site s).stream (w.link s).pos, t ∈ commitsAt w s.other
  ttl : ∀ s, NsTtl (w.site s).store
  cps : ∀ s, Slot.lbrace ∉ (w.link s).cp
  content : Content w

theorem self_commits (w : World) : ({ w with commits := w.commits } : World) = w := rfl

theorem norm_as_with (w : World) : w.norm = { w with commits := normCommits w } := rfl

theorem core_norm_step (cfg : WCfg) (w : World) (e : Ev) :
    (stepWorld cfg w.norm e).core = (stepWorld cfg w e).core := step_core cfg w (normCommits w) e

theorem commits_step_eq (cfg : WCfg) (w : World) (e : Ev) :
    (stepWorld cfg w e).commits = w.commits ++ (stepWorld cfg { w with commits := [] } e).commits := by
  exact step_commits cfg w w.commits e

theorem commits_step_norm (cfg : WCfg) (w : World) (e : Ev) :
    (stepWorld cfg w.norm e).commits = normCommits w ++ (stepWorld cfg { w with commits := [] } e).commits :=
  step_commits cfg w (normCommits w) e

theorem evOK_of' (cfg : WCfg) (w : World) (httl : ∀ s, NsTtl (w.site s).store) (e : Ev) (hok : EvOK' cfg e)
    (hnr : ¬ e.isRestart) : EvOK cfg w e := by
  cases e with
  | client s isTxn cmds => exact hok
  | tick s dt => trivial
  | expire s k => exact hok
  | link src arg => trivial
  | snapshot src cmds arg => exact fun c hc => (hok c hc).1
  | book src bk => exact ⟨hok.1, bookClean_of_nsTtl cfg w src bk hok.1 hok.2 (httl src.other)⟩
  | toolRaw _ _ _ => exact hok
  | restart _ _ _ => exact absurd trivial hnr

theorem commitsAt_append_list (w : World) (d : List (Tag × SiteId)) (dst : SiteId) :
    commitsAt { w with commits := w.commits ++ d } dst =
      commitsAt w dst ++ (d.filter (fun p => p.2 == dst)).map (·.1) := by
  unfold commitsAt
  simp [List.filter_append]

/-- a non-restart event: everything through the normalised shadow world -/
theorem lstep_other (cfg : WCfg) (hf : FOK cfg.parser.filter) (w : World) (hl : LInv cfg w) (e : Ev)
    (hok : EvOK' cfg e) (hnr : ¬ e.isRestart) : LInv cfg (stepWorld cfg w e) := by
  have httl' : ∀ s, NsTtl (w.norm.site s).store := fun s => by rw [site_norm]; exact hl.ttl s
  have hw1 : WInv cfg (stepWorld cfg w.norm e) := step_preserves cfg hf w.norm hl.winv e (evOK_of' cfg w.norm httl' e hok hnr)
  have hcore := core_norm_step cfg w e
  have hs : ∀ t, (stepWorld cfg w e).site t = (stepWorld cfg w.norm e).site t := fun t => (site_of_core _ _ hcore t).symm
  have hlk : ∀ t, (stepWorld cfg w e).link t = (stepWorld cfg w.norm e).link t := fun t => (link_of_core _ _ hcore t).symm
  -- the appended commits, read off the shadow world where `once` holds before and after
  have hdelta : ∀ s, dueTags ((stepWorld cfg w e).site s).stream ((stepWorld cfg w e).link s).pos =
      dueTags (w.site s).stream (w.link s).pos ++
        (((stepWorld cfg { w with commits := [] } e).commits).filter (fun p => p.2 == s.other)).map (·.1) := by
    intro s
    have h1 := hw1.once s
    rw [← hs, ← hlk] at h1
    rw [← h1]
    have h2 : stepWorld cfg w.norm e = { stepWorld cfg w.norm e with commits := w.norm.commits ++ (stepWorld cfg { w with commits := [] } e).commits } := by
      have := commits_step_norm cfg w e
      cases hx : stepWorld cfg w.norm e with
      | mk a b ab ba n cm =>
        rw [hx] at this
        simp only at this
        rw [this]
        rfl
    have h3 : commitsAt (stepWorld cfg w.norm e) s.other =
        commitsAt w.norm s.other ++ (((stepWorld cfg { w with commits := [] } e).commits).filter (fun p => p.2 == s.other)).map (·.1) := by
      unfold commitsAt
      rw [commits_step_norm]
      simp [List.filter_append, World.norm]
    rw [h3, commitsAt_norm]
  have hnew_foreign : ∀ t ∈ (stepWorld cfg { w with commits := [] } e).commits, isForeign t.1 = true := by
    intro t ht
    have hmem : t.1 ∈ (((stepWorld cfg { w with commits := [] } e).commits).filter (fun p => p.2 == t.2)).map (·.1) :=
      List.mem_map.mpr ⟨t, List.mem_filter.mpr ⟨ht, by simp⟩, rfl⟩
    have hd := hdelta t.2.other
    rw [other_other] at hd
    have : t.1 ∈ dueTags ((stepWorld cfg w e).site t.2.other).stream ((stepWorld cfg w e).link t.2.other).pos := by
      rw [hd]; exact List.mem_append.mpr (Or.inr hmem)
    exact dueTags_foreign _ _ _ this
  refine ⟨winv_norm_of cfg _ _ hw1 hs hlk, ?_, ?_, ?_, ?_, ?_⟩
  · intro t ht
    rw [commits_step_eq] at ht
    rcases List.mem_append.mp ht with h | h
    · exact hl.foreign t h
    · exact hnew_foreign t h
  · intro s t ht
    rw [hdelta s] at ht
    have hc : commitsAt (stepWorld cfg w e) s.other =
        commitsAt w s.other ++ (((stepWorld cfg { w with commits := [] } e).commits).filter (fun p => p.2 == s.other)).map (·.1) := by
      unfold commitsAt
      rw [commits_step_eq]
      simp [List.filter_append]
    rw [hc]
    rcases List.mem_append.mp ht with h | h
    · exact List.mem_append.mpr (Or.inl (hl.sup s t h))
    · exact List.mem_append.mpr (Or.inr h)
  · intro s
    by_cases hlk' : e.isLink
    · cases e with
      | link src arg =>
        have hgl : GInv cfg w.norm → True := fun _ => trivial
        -- stores: through the shadow world's link step
        have hshape := link_step_shape cfg hf w.norm hl.winv src arg
        rw [hs]
        generalize hw' : stepWorld cfg w.norm (.link src arg) = w' at hshape
        cases hshape with
        | stay _ => rw [site_norm]; exact hl.ttl s
        | skip tb pst' _ _ => rw [site_setLink, site_norm]; exact hl.ttl s
        | halt tb e' _ _ _ => rw [site_setLink, site_norm]; exact hl.ttl s
        | emit tb pst' em hget hd hcmds hlive =>
          rw [site_commits]
          obtain ⟨hmem, _⟩ := mem_of_getElem? _ _ _ hget
          have hfor : isForeign tb.tag = true := by
            unfold due at hd
            simp only [Bool.and_eq_true] at hd
            exact hd.1
          have hbok := hl.winv.blocks src tb hmem
          unfold BlockOK at hbok
          rw [if_pos hfor] at hbok
          have hu : ∀ c ∈ em.unit.cmds, TtlSafe c := by
            rw [hcmds]
            intro c hc
            obtain ⟨c0, hc0, rfl⟩ := List.mem_map.mp hc
            exact ttlSafe_outside _ (hbok c0 hc0).outside
          apply ttl_execAt
          · intro t; rw [site_setLink]; exact httl' t
          · apply ttlSafe_commit _ _ _ _ _ hu
            rw [link_norm]; exact hl.cps src
      | client _ _ _ => exact absurd hlk' (by simp [Ev.isLink])
      | tick _ _ => exact absurd hlk' (by simp [Ev.isLink])
      | expire _ _ => exact absurd hlk' (by simp [Ev.isLink])
      | snapshot _ _ _ => exact absurd hlk' (by simp [Ev.isLink])
      | book _ _ => exact absurd hlk' (by simp [Ev.isLink])
      | toolRaw _ _ _ => exact absurd hlk' (by simp [Ev.isLink])
      | restart _ _ _ => exact absurd hlk' (by simp [Ev.isLink])
    · -- non-link, non-restart: the store lemma of the exact development needs only ttl and cps
      have hg' : GInv cfg w.norm → ∀ t, NsTtl ((stepWorld cfg w.norm e).site t).store :=
        fun hg => ttl_step_other cfg w.norm hg e hok hlk' hnr
      rw [hs]
      -- `ttl_step_other` reads `ttl`, `cps` of a `GInv` only; build one for the shadow world's stores
      exact ttl_step_other' cfg w.norm httl' (fun t => by rw [link_norm]; exact hl.cps t) e hok hlk' hnr s
  · intro s
    rw [hlk]
    by_cases hlk' : e.isLink
    · cases e with
      | link src arg =>
        have hshape := link_step_shape cfg hf w.norm hl.winv src arg
        generalize hw' : stepWorld cfg w.norm (.link src arg) = w' at hshape
        have base : Slot.lbrace ∉ (w.norm.link s).cp := by rw [link_norm]; exact hl.cps s
        cases hshape with
        | stay _ => exact base
        | skip tb pst' _ _ =>
          rcases eq_or_other' src s with rfl | rfl
          · rw [link_setLink_same]; exact base
          · rw [link_setLink_other]; exact base
        | halt tb e' _ _ _ =>
          rcases eq_or_other' src s with rfl | rfl
          · rw [link_setLink_same]; exact base
          · rw [link_setLink_other]; exact base
        | emit tb pst' em _ _ _ _ =>
          rw [link_commits, link_execAt]
          rcases eq_or_other' src s with rfl | rfl
          · rw [link_setLink_same]; exact base
          · rw [link_setLink_other]; exact base
      | client _ _ _ => exact absurd hlk' (by simp [Ev.isLink])
      | tick _ _ => exact absurd hlk' (by simp [Ev.isLink])
      | expire _ _ => exact absurd hlk' (by simp [Ev.isLink])
      | snapshot _ _ _ => exact absurd hlk' (by simp [Ev.isLink])
      | book _ _ => exact absurd hlk' (by simp [Ev.isLink])
      | toolRaw _ _ _ => exact absurd hlk' (by simp [Ev.isLink])
      | restart _ _ _ => exact absurd hlk' (by simp [Ev.isLink])
    · rw [step_link_same cfg w.norm e hlk' hnr, link_norm]; exact hl.cps s
  · -- emitted content: through the shadow world
    have hcn : Content w.norm := by
      intro s p hp
      rw [link_norm] at hp
      obtain ⟨tb, htb, h⟩ := hl.content s p hp
      exact ⟨tb, by rw [site_norm]; exact htb, h⟩
    have := content_step cfg hf w.norm hl.winv hcn e
    intro s p hp
    rw [hlk] at hp
    obtain ⟨tb, htb, h⟩ := this s p hp
    exact ⟨tb, by rw [hs]; exact htb, h⟩

/-- ANY restart: resume at any block already reached, also before the last committed unit -/
theorem lstep_restart (cfg : WCfg) (w : World) (hl : LInv cfg w) (src : SiteId) (p : Nat) (sq : Nat) :
    LInv cfg (stepWorld cfg w (.restart src p sq)) := by
  unfold stepWorld
  simp only
  split
  · rename_i hguard
    have hpos := hl.winv.pos src
    rw [link_norm, site_norm] at hpos
    refine ⟨?_, ?_, ?_, ?_, ?_, ?_⟩
    · refine ⟨?_, ?_, ?_, ?_, ?_⟩
      · intro s tb htb
        rw [site_norm, site_setLink] at htb
        exact hl.winv.blocks s tb (by rw [site_norm]; exact htb)
      · intro s
        rw [link_norm]
        rcases eq_or_other' src s with rfl | rfl
        · rw [link_setLink_same]; exact ⟨rfl, rfl⟩
        · rw [link_setLink_other]
          have := hl.winv.idle src.other
          rwa [link_norm] at this
      · intro s
        rw [link_norm, site_norm, site_setLink]
        rcases eq_or_other' src s with rfl | rfl
        · rw [link_setLink_same]
          show p ≤ _
          omega
        · rw [link_setLink_other]
          have := hl.winv.pos src.other
          rwa [link_norm, site_norm] at this
      · intro s; rw [commitsAt_norm, site_norm, link_norm]
      · intro s e he
        rw [link_norm] at he
        rcases eq_or_other' src s with rfl | rfl
        · rw [link_setLink_same] at he; cases he
        · rw [link_setLink_other] at he
          exact hl.winv.halt src.other e (by rw [link_norm]; exact he)
    · intro t ht
      rw [commits_setLink] at ht
      exact hl.foreign t ht
    · intro s t ht
      have hc : ∀ l, commitsAt (w.setLink src l) s.other = commitsAt w s.other := by
        intro l; unfold commitsAt; rw [commits_setLink]
      rw [hc]
      rw [site_setLink] at ht
      rcases eq_or_other' src s with rfl | rfl
      · rw [link_setLink_same] at ht
        obtain ⟨ext, hext⟩ := dueTags_le (w.site src).stream p (w.link src).pos hguard
        apply hl.sup src t
        rw [hext]
        exact List.mem_append.mpr (Or.inl ht)
      · rw [link_setLink_other] at ht
        exact hl.sup _ t ht
    · intro s; rw [site_setLink]; exact hl.ttl s
    · intro s
      rcases eq_or_other' src s with rfl | rfl
      · rw [link_setLink_same]; exact hl.cps _
      · rw [link_setLink_other]; exact hl.cps _
    · intro s q hq
      rw [site_setLink]
      rcases eq_or_other' src s with rfl | rfl
      · rw [link_setLink_same] at hq; exact hl.content _ q hq
      · rw [link_setLink_other] at hq; exact hl.content _ q hq
  · exact hl

theorem lstep (cfg : WCfg) (hf : FOK cfg.parser.filter) (w : World) (hl : LInv cfg w) (e : Ev)
    (hok : EvOK' cfg e) : LInv cfg (stepWorld cfg w e) := by
  by_cases hr : e.isRestart
  · cases e with
    | restart src p sq => exact lstep_restart cfg w hl src p sq
    | client _ _ _ => exact absurd hr (by simp [Ev.isRestart])
    | tick _ _ => exact absurd hr (by simp [Ev.isRestart])
    | expire _ _ => exact absurd hr (by simp [Ev.isRestart])
    | link _ _ => exact absurd hr (by simp [Ev.isRestart])
    | snapshot _ _ _ => exact absurd hr (by simp [Ev.isRestart])
    | book _ _ => exact absurd hr (by simp [Ev.isRestart])
    | toolRaw _ _ _ => exact absurd hr (by simp [Ev.isRestart])
  · exact lstep_other cfg hf w hl e hok hr

theorem lrun (cfg : WCfg) (hf : FOK cfg.parser.filter) (evs : List Ev) (w : World) (hl : LInv cfg w)
    (hgood : GoodEvents cfg evs) : LInv cfg (runWorld cfg w evs) := by
  induction evs generalizing w with
  | nil => exact hl
  | cons e es ih =>
    exact ih _ (lstep cfg hf w hl e (hgood e (by simp))) (fun e' he' => hgood e' (List.mem_cons_of_mem _ he'))

theorem linv_initWith (cfg : WCfg) (cpAB cpBA : Bytes) (sa sb : Store) (na nb : Nat)
    (hab : Slot.lbrace ∉ cpAB) (hba : Slot.lbrace ∉ cpBA) (ha : NsTtl sa) (hb : NsTtl sb) :
    LInv cfg (World.initWith cpAB cpBA sa sb na nb) where
  winv := winv_norm_of cfg _ _ (winv_initWith cfg cpAB cpBA sa sb na nb) (fun _ => rfl) (fun _ => rfl)
  foreign := by intro t ht; cases ht
  sup := by intro s t ht; cases s <;> cases ht
  ttl := by intro s; cases s; exact ha; exact hb
  cps := by intro s; cases s; exact hab; exact hba
  content := content_initWith cpAB cpBA sa sb na nb

theorem nsTtl_nil : NsTtl [] := by intro k e h; cases h

theorem initWith_nil (cpAB cpBA : Bytes) : World.initWith cpAB cpBA [] [] 0 0 = World.init cpAB cpBA := rfl

instance (w : World) (e : Ev) : Decidable (ExactAt w e) := by
  cases e <;> unfold ExactAt <;> infer_instance

instance decExactRestarts (cfg : WCfg) : ∀ (w : World) (evs : List Ev), Decidable (ExactRestarts cfg w evs)
  | _, [] => isTrue trivial
  | w, e :: es =>
    have := decExactRestarts cfg (stepWorld cfg w e) es
    show Decidable (ExactAt w e ∧ ExactRestarts cfg (stepWorld cfg w e) es) from inferInstance

end GunYu.Bisync
