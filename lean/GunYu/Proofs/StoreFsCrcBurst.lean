/-
  C08 — the burst fact for CRC-64/Jones as the repo computes it (table regenerated from
  pkg/digest/crc64.go): two byte strings of equal length whose differences are confined
  to a window of 8 consecutive bytes (64 bits, byte aligned — hence every burst of at most
  57 bits wherever it starts) have different checksums. GF(2)-linearity of the shift
  register (C03: Proofs/Rdb/Crc64.lean) + injectivity of a step (C04: Proofs/Crc64Burst.lean)
  + the classical folding identity: running the register from state `c ^ S w` over `|w| ≤ 8`
  zero bytes equals running it from `c` over the bytes `w` (`S w` = `w` as a little-endian number).
-/
import GunYu.Model.StoreFs
import GunYu.Proofs.Crc64Burst

namespace GunYu.StoreFs
open GunYu GunYu.Rdb

/-! ### the two renderings of the Go loop agree -/

theorem bv_ofNat_toNat (x : BitVec 64) : (x.toNat.toUInt64).toBitVec = x := by
  simp [Nat.toUInt64, UInt64.ofNat]

theorem u64_shr8 (c : UInt64) : (c >>> 8).toBitVec = c.toBitVec >>> 8 := by
  simp [UInt64.toBitVec_shiftRight]

theorem u64_idx (c : UInt64) (b : UInt8) :
    ((c ^^^ b.toUInt64) &&& 0xFF).toNat = ((c.toBitVec ^^^ b.toBitVec.setWidth 64) &&& 0xFF#64).toNat := by
  simp [← UInt64.toNat_toBitVec]

theorem crc64Step_toBitVec (c : UInt64) (b : UInt8) : (crc64Step c b).toBitVec = crc64TabStep c.toBitVec b := by
  unfold crc64Step crc64TabStep
  generalize Gen.crc64Table = T
  rw [UInt64.toBitVec_xor, bv_ofNat_toNat, u64_shr8, u64_idx]

theorem crc64_foldl_toBitVec (bs : Bytes) : ∀ c : UInt64,
    (bs.foldl crc64Step c).toBitVec = crc64TabFrom c.toBitVec bs := by
  induction bs with
  | nil => intro c; rfl
  | cons b t ih =>
    intro c
    simp only [List.foldl_cons, crc64TabFrom]
    rw [ih, crc64Step_toBitVec]
    rfl

/-- `crc64` of Model/StoreFs.lean (UInt64 arithmetic) is `crc64Tab` of Model/Rdb/Crc64.lean -/
theorem crc64_eq_tab (bs : Bytes) : crc64 bs = (crc64Tab bs).toNat := by
  unfold crc64 crc64Tab
  have := crc64_foldl_toBitVec bs 0
  rw [← UInt64.toNat_toBitVec, this]
  rfl

/-! ### linearity over byte strings -/

def xorBytes (a b : Bytes) : Bytes := List.zipWith (· ^^^ ·) a b

theorem byte_xor_bv (x y : UInt8) :
    (x ^^^ y).toBitVec.setWidth 64 = x.toBitVec.setWidth 64 ^^^ y.toBitVec.setWidth 64 := by
  rw [UInt8.toBitVec_xor, BitVec.setWidth_xor]

theorem specStep_xor (s s' : BitVec 64) (x y : UInt8) :
    crc64SpecStep (s ^^^ s') (x ^^^ y) = crc64SpecStep s x ^^^ crc64SpecStep s' y := by
  unfold crc64SpecStep
  rw [byte_xor_bv, ← crc64BitStep8_xor]
  congr 1
  ac_rfl

theorem tabStep_xor (s s' : BitVec 64) (x y : UInt8) :
    crc64TabStep (s ^^^ s') (x ^^^ y) = crc64TabStep s x ^^^ crc64TabStep s' y := by
  rw [crc64TabStep_eq_specStep, crc64TabStep_eq_specStep, crc64TabStep_eq_specStep]
  exact specStep_xor s s' x y

theorem tabFrom_xor : ∀ (a b : Bytes) (s s' : BitVec 64), a.length = b.length →
    crc64TabFrom (s ^^^ s') (xorBytes a b) = crc64TabFrom s a ^^^ crc64TabFrom s' b := by
  intro a
  induction a with
  | nil => intro b s s' h; cases b <;> simp_all [xorBytes, crc64TabFrom]
  | cons x t ih =>
    intro b s s' h
    cases b with
    | nil => simp at h
    | cons y u =>
      simp only [xorBytes, List.zipWith_cons_cons, crc64TabFrom, List.foldl_cons]
      rw [tabStep_xor]
      exact ih u _ _ (by simpa using h)

theorem xorBytes_zero : ∀ (a b : Bytes), a.length = b.length → (∀ x ∈ xorBytes a b, x = 0) → a = b := by
  intro a
  induction a with
  | nil => intro b h _; cases b <;> simp_all
  | cons x t ih =>
    intro b h hz
    cases b with
    | nil => simp at h
    | cons y u =>
      simp only [xorBytes, List.zipWith_cons_cons, List.mem_cons, forall_eq_or_imp] at hz
      have hxy : x = y := by
        have := hz.1
        have h2 : (x ^^^ y) ^^^ y = 0 ^^^ y := by rw [this]
        simpa [UInt8.xor_assoc] using h2
      rw [hxy, ih u (by simpa using h) hz.2]

/-! ### zero bytes -/

theorem bitStep_zero : crc64BitStep 0#64 = 0#64 := by decide

theorem tabStep_zero_byte (c : BitVec 64) : crc64TabStep c 0 = crc64BitStep8 c := by
  rw [crc64TabStep_eq_specStep]
  unfold crc64SpecStep
  congr 1
  simp

theorem tabFrom_zeros (n : Nat) : crc64TabFrom 0#64 (List.replicate n 0) = 0#64 := by
  induction n with
  | zero => rfl
  | succ k ih =>
    simp only [List.replicate_succ, crc64TabFrom, List.foldl_cons]
    rw [tabStep_zero_byte]
    have : crc64BitStep8 0#64 = 0#64 := by simp [crc64BitStep8, bitStep_zero]
    rw [this]; exact ih

/-! ### the folding identity -/

/-- a byte string as a little-endian number in the register -/
def leVal : Bytes → BitVec 64
  | [] => 0#64
  | b :: t => b.toBitVec.setWidth 64 ^^^ (leVal t <<< 8)

/-- the bits above the bytes of `w` are clear -/
theorem leVal_hi : ∀ (w : Bytes) (i : Nat), 8 * w.length ≤ i → (leVal w).getLsbD i = false := by
  intro w
  induction w with
  | nil => intro i _; simp [leVal]
  | cons b t ih =>
    intro i hi
    simp only [List.length_cons] at hi
    simp only [leVal, BitVec.getLsbD_xor, BitVec.getLsbD_setWidth, BitVec.getLsbD_shiftLeft]
    have h1 : b.toBitVec.getLsbD i = false := BitVec.getLsbD_of_ge _ _ (by omega)
    have h2 : (leVal t).getLsbD (i - 8) = false := ih _ (by omega)
    simp [h1, h2]

theorem shl8_shr8_of_hi (x : BitVec 64) (h : ∀ i, 56 ≤ i → x.getLsbD i = false) : (x <<< 8) >>> 8 = x := by
  apply BitVec.eq_of_getLsbD_eq
  intro i hi
  simp only [BitVec.getLsbD_ushiftRight, BitVec.getLsbD_shiftLeft]
  by_cases h56 : i < 56
  · have : 8 + i < 64 := by omega
    simp [this]
  · have := h i (by omega)
    rw [this]
    have : ¬ 8 + i < 64 := by omega
    simp [this]

/-- **folding**: from state `c ^ leVal w`, `|w| ≤ 8` zero bytes bring the register where
    the bytes `w` bring it from state `c` -/
theorem fold_zeros : ∀ (w : Bytes) (c : BitVec 64), w.length ≤ 8 →
    crc64TabFrom (c ^^^ leVal w) (List.replicate w.length 0) = crc64TabFrom c w := by
  intro w
  induction w with
  | nil => intro c _; simp [leVal, crc64TabFrom]
  | cons b t ih =>
    intro c h
    have ht : t.length ≤ 7 := by simp at h; omega
    simp only [List.length_cons, List.replicate_succ, crc64TabFrom, List.foldl_cons]
    rw [tabStep_zero_byte]
    have e : c ^^^ leVal (b :: t) = (c ^^^ b.toBitVec.setWidth 64) ^^^ (leVal t <<< 8) := by
      simp only [leVal]; ac_rfl
    rw [e, crc64BitStep8_xor, crc64BitStep8_shl8,
      shl8_shr8_of_hi _ (fun i hi => leVal_hi t i (by omega))]
    have e2 : crc64BitStep8 (c ^^^ b.toBitVec.setWidth 64) = crc64TabStep c b := by
      rw [crc64TabStep_eq_specStep]; rfl
    rw [e2]
    exact ih _ (by omega)

theorem byte_of_bits (b : UInt8) (h : ∀ i, i < 8 → b.toBitVec.getLsbD i = false) : b = 0 := by
  have : b.toBitVec = 0#8 := by
    apply BitVec.eq_of_getLsbD_eq
    intro i hi
    rw [h i hi]; simp
  exact UInt8.toBitVec_inj.mp this

theorem leVal_zero : ∀ (w : Bytes), w.length ≤ 8 → leVal w = 0#64 → ∀ x ∈ w, x = 0 := by
  intro w
  induction w with
  | nil => intro _ _ x hx; cases hx
  | cons b t ih =>
    intro h hz x hx
    have ht : t.length ≤ 7 := by simp at h; omega
    have hbit : ∀ i, (b.toBitVec.setWidth 64 ^^^ (leVal t <<< 8)).getLsbD i = false := by
      intro i
      have : leVal (b :: t) = b.toBitVec.setWidth 64 ^^^ (leVal t <<< 8) := rfl
      rw [← this, hz]; simp
    have hb : b = 0 := by
      apply byte_of_bits
      intro i hi
      have := hbit i
      simp only [BitVec.getLsbD_xor, BitVec.getLsbD_setWidth, BitVec.getLsbD_shiftLeft] at this
      have h8 : i < 8 := hi
      have h64 : i < 64 := by omega
      simpa [h8, h64] using this
    have ht0 : leVal t = 0#64 := by
      apply BitVec.eq_of_getLsbD_eq
      intro i hi
      simp only [BitVec.getLsbD_zero]
      by_cases h56 : i < 56
      · have := hbit (i + 8)
        simp only [BitVec.getLsbD_xor, BitVec.getLsbD_setWidth, BitVec.getLsbD_shiftLeft] at this
        have h1 : b.toBitVec.getLsbD (i + 8) = false := BitVec.getLsbD_of_ge _ _ (by omega)
        have h64 : i + 8 < 64 := by omega
        have h8 : ¬ i + 8 < 8 := by omega
        simpa [h1, h64, h8] using this
      · exact leVal_hi t i (by omega)
    rcases List.mem_cons.mp hx with h1 | h1
    · rw [h1]; exact hb
    · exact ih (by omega) ht0 x h1

/-- a non-zero string of at most 8 bytes does not bring the register from 0 to 0 -/
theorem tabFrom_short_zero (w : Bytes) (h : w.length ≤ 8) (hz : crc64TabFrom 0#64 w = 0#64) : ∀ x ∈ w, x = 0 := by
  have hf := fold_zeros w 0#64 h
  rw [hz, BitVec.zero_xor] at hf
  have : leVal w = 0#64 := crc64TabFrom_inj_state _ _ _ (by rw [hf, tabFrom_zeros])
  exact leVal_zero w h this

/-! ### the burst theorem -/

/-- **differences confined to 8 consecutive bytes are detected** -/
theorem crc64Tab_window8 (a e e' z : Bytes) (hlen : e.length = e'.length) (h8 : e.length ≤ 8) (hne : e ≠ e') :
    crc64Tab (a ++ e ++ z) ≠ crc64Tab (a ++ e' ++ z) := by
  intro h
  unfold crc64Tab at h
  rw [crc64TabFrom_append, crc64TabFrom_append, crc64TabFrom_append, crc64TabFrom_append] at h
  have h1 := crc64TabFrom_inj_state z _ _ h
  have hx := tabFrom_xor e e' (crc64TabFrom 0#64 a) (crc64TabFrom 0#64 a) hlen
  rw [BitVec.xor_self, h1, BitVec.xor_self] at hx
  have hz := tabFrom_short_zero (xorBytes e e') (by simp [xorBytes, List.length_zipWith]; omega) hx
  exact hne (xorBytes_zero e e' hlen hz)

/-- … for `crc64` of Model/StoreFs.lean -/
theorem crc64_window8 (a e e' z : Bytes) (hlen : e.length = e'.length) (h8 : e.length ≤ 8) (hne : e ≠ e') :
    crc64 (a ++ e ++ z) ≠ crc64 (a ++ e' ++ z) := by
  rw [crc64_eq_tab, crc64_eq_tab]
  intro h
  exact crc64Tab_window8 a e e' z hlen h8 hne (BitVec.eq_of_toNat_eq h)

end GunYu.StoreFs
