/-
  C17 — structural invariants of the bookkeeping on `Checkpoint.Target` that every writer keeps
  (sender, SetCheckpoint, UpdateCheckpoint, gc), request by request. Core only.

  * `StrA`: every stored field is well formed (numeric fields parse, `_runid` fields store their own
    id), field names are unique inside a hash, finitely many databases hold anything, key names /
    ids not used so far hold nothing (`names`, `ids`: the names / ids used so far).
  * `NoAfter N O`: inside one hash no `_offset` field of the older id `O` comes after the `_offset`
    field of the newer id `N` (HSET keeps the place of an existing field and appends a new one);
    with it `fetchCheckpoint`'s "last matching field wins" over both ids reads what `N` alone reads.
  * `OffLe`: bound on the `_offset` fields of some ids.
-/
import GunYu.Proofs.CheckpointRerun

namespace GunYu.Checkpoint
open GunYu

set_option linter.unusedSimpArgs false
set_option linter.unusedVariables false

/-! ### fields -/

def hasKey (k : FKey) (fs : Cp) : Prop := ∃ e ∈ fs, e.key = k

/-- field names are unique inside a hash -/
def FieldsNodup (fs : Cp) : Prop := (fs.map Entry.key).Nodup

/-- numeric fields are decimal int64, `_runid` fields store their own id -/
def EntryOK (e : Entry) : Prop :=
  ((e.kind = .offset ∨ e.kind = .mtime) → (Resp.parseInt64 e.val).isSome = true) ∧
  (e.kind = .runid → e.val = e.rid)

theorem rep_key (e x : Entry) : (rep e x).key = x.key := by
  unfold rep; split
  · rename_i h; exact h.symm
  · rfl

theorem map_key_rep (e : Entry) (fs : Cp) : (fs.map (rep e)).map Entry.key = fs.map Entry.key := by
  rw [List.map_map]
  apply List.map_congr_left
  intro x _; exact rep_key e x

theorem FieldsNodup.hsetOne {fs : Cp} (h : FieldsNodup fs) (e : Entry) : FieldsNodup (hsetOne fs e) := by
  unfold FieldsNodup at *
  rcases hsetOne_cases fs e with ⟨heq, _⟩ | ⟨heq, hno⟩
  · rw [heq, map_key_rep]; exact h
  · rw [heq, List.map_append]
    apply List.nodup_append.mpr
    refine ⟨h, by simp, ?_⟩
    intro a ha b hb
    simp only [List.map_cons, List.map_nil, List.mem_singleton] at hb
    obtain ⟨x, hx, rfl⟩ := List.mem_map.mp ha
    rw [hb]; exact hno x hx

theorem FieldsNodup.hsetMany {es : List Entry} : ∀ {fs : Cp}, FieldsNodup fs → FieldsNodup (hsetMany fs es) := by
  induction es with
  | nil => intro fs h; exact h
  | cons e es ih => intro fs h; simp only [Checkpoint.hsetMany, List.foldl_cons]; exact ih (h.hsetOne e)

theorem FieldsNodup.hdelMany {fs : Cp} (h : FieldsNodup fs) (ks : List FKey) : FieldsNodup (hdelMany fs ks) := by
  unfold FieldsNodup Checkpoint.hdelMany at *
  exact List.Nodup.sublist (List.Sublist.map _ List.filter_sublist) h

theorem eq_of_key : ∀ {fs : Cp}, FieldsNodup fs → ∀ {a b : Entry}, a ∈ fs → b ∈ fs → a.key = b.key → a = b := by
  intro fs
  induction fs with
  | nil => intro _ a b ha; cases ha
  | cons x fs ih =>
    intro h a b ha hb hk
    unfold FieldsNodup at h
    simp only [List.map_cons, List.nodup_cons] at h
    rcases List.mem_cons.mp ha with rfl | ha'
    · rcases List.mem_cons.mp hb with rfl | hb'
      · rfl
      · exact absurd (List.mem_map.mpr ⟨b, hb', hk.symm⟩) h.1
    · rcases List.mem_cons.mp hb with rfl | hb'
      · exact absurd (List.mem_map.mpr ⟨a, ha', hk⟩) h.1
      · exact ih h.2 ha' hb' hk

theorem hasKey_hsetOne {k : FKey} {fs : Cp} {e : Entry} :
    hasKey k (hsetOne fs e) ↔ k = e.key ∨ hasKey k fs := by
  constructor
  · rintro ⟨x, hx, hk⟩
    rcases mem_hsetOne hx with rfl | hx'
    · exact Or.inl hk.symm
    · exact Or.inr ⟨x, hx', hk⟩
  · rintro (rfl | ⟨x, hx, hk⟩)
    · exact ⟨e, mem_hsetOne_self fs e, rfl⟩
    · by_cases hxe : x.key = e.key
      · exact ⟨e, mem_hsetOne_self fs e, by rw [← hxe, hk]⟩
      · exact ⟨x, mem_hsetOne_of_ne hx hxe, hk⟩

theorem hasKey_hsetMany {k : FKey} {es : List Entry} : ∀ {fs : Cp},
    hasKey k (hsetMany fs es) ↔ (∃ e ∈ es, e.key = k) ∨ hasKey k fs := by
  induction es with
  | nil => intro fs; simp [Checkpoint.hsetMany]
  | cons e es ih =>
    intro fs
    simp only [Checkpoint.hsetMany, List.foldl_cons]
    have := ih (fs := hsetOne fs e)
    simp only [Checkpoint.hsetMany] at this
    rw [this, hasKey_hsetOne]
    constructor
    · rintro (⟨x, hx, hk⟩ | rfl | h)
      · exact Or.inl ⟨x, List.mem_cons_of_mem _ hx, hk⟩
      · exact Or.inl ⟨e, List.mem_cons_self .., rfl⟩
      · exact Or.inr h
    · rintro (⟨x, hx, hk⟩ | h)
      · rcases List.mem_cons.mp hx with rfl | hx'
        · exact Or.inr (Or.inl hk.symm)
        · exact Or.inl ⟨x, hx', hk⟩
      · exact Or.inr (Or.inr h)

theorem hasKey_hdelMany {k : FKey} {fs : Cp} {ks : List FKey} :
    hasKey k (hdelMany fs ks) ↔ hasKey k fs ∧ k ∉ ks := by
  unfold Checkpoint.hdelMany hasKey
  constructor
  · rintro ⟨x, hx, hk⟩
    obtain ⟨h1, h2⟩ := List.mem_filter.mp hx
    refine ⟨⟨x, h1, hk⟩, ?_⟩
    intro hin
    have h2' : ¬ (x.key ∈ ks) := by simpa using h2
    exact h2' (by rw [hk]; exact hin)
  · rintro ⟨⟨x, hx, hk⟩, hnot⟩
    refine ⟨x, List.mem_filter.mpr ⟨hx, ?_⟩, hk⟩
    have : ¬ ks.contains x.key = true := fun h => hnot (hk ▸ List.contains_iff_mem.mp h)
    simpa using this

theorem mem_hsetMany_of_ne {es : List Entry} : ∀ {fs : Cp} {x : Entry}, x ∈ fs →
    (∀ e ∈ es, x.key ≠ e.key) → x ∈ hsetMany fs es := by
  induction es with
  | nil => intro fs x h _; exact h
  | cons e es ih =>
    intro fs x h hne
    simp only [Checkpoint.hsetMany, List.foldl_cons]
    exact ih (mem_hsetOne_of_ne h (hne e (List.mem_cons_self ..)))
      (fun e' he' => hne e' (List.mem_cons_of_mem _ he'))

/-- the single `_offset` field of id `N` decides what `N` alone reads -/
theorem offOf_one_of_mem {N : Bytes} {fs : Cp} (hn : FieldsNodup fs) {e : Entry} (he : e ∈ fs)
    (hk : e.key = (N, Kind.offset)) {v : Int} (hv : Resp.parseInt64 e.val = some v) :
    offOf [N] fs = v := by
  apply foldl_offStep_all_eq [N] v fs (-1)
  · intro x hx hs
    rw [offSel_iff, matchId_one] at hs
    have : x.key = e.key := by rw [hk]; show (x.rid, x.kind) = _; rw [hs.1, hs.2]
    rw [eq_of_key hn hx he this]; exact hv
  · left
    refine ⟨e, he, ?_⟩
    rw [offSel_iff, matchId_one]
    have h1 : e.rid = N := congrArg Prod.fst hk
    have h2 : e.kind = Kind.offset := congrArg Prod.snd hk
    exact ⟨h1, h2⟩

/-- no `_offset` field of `N`: `N` alone reads −1 -/
theorem offOf_one_of_not {N : Bytes} {fs : Cp} (h : ¬ hasKey (N, Kind.offset) fs) : offOf [N] fs = -1 := by
  unfold offOf
  have : ∀ (l : Cp) (o : Int), (∀ x ∈ l, offSel [N] x = false) → l.foldl (offStep [N]) o = o := by
    intro l
    induction l with
    | nil => intro o _; rfl
    | cons y l ih =>
      intro o hall
      simp only [List.foldl_cons]
      have hy := hall y (List.mem_cons_self ..)
      have : offStep [N] o y = o := by simp [offStep, hy]
      rw [this]; exact ih o (fun x hx => hall x (List.mem_cons_of_mem _ hx))
  apply this
  intro x hx
  cases hs : offSel [N] x with
  | false => rfl
  | true =>
    exfalso; apply h
    rw [offSel_iff, matchId_one] at hs
    exact ⟨x, hx, by show (x.rid, x.kind) = _; rw [hs.1, hs.2]⟩

/-! ### order of the `_offset` fields of two ids -/

def NoAfter (N O : Bytes) (fs : Cp) : Prop :=
  fs.Pairwise (fun a b => ¬ (a.key = (N, Kind.offset) ∧ b.key = (O, Kind.offset)))

theorem NoAfter.hdelMany {N O : Bytes} {fs : Cp} (h : NoAfter N O fs) (ks : List FKey) :
    NoAfter N O (hdelMany fs ks) := by
  unfold NoAfter Checkpoint.hdelMany at *
  exact List.Pairwise.sublist List.filter_sublist h

theorem NoAfter.hsetOne {N O : Bytes} {fs : Cp} (h : NoAfter N O fs) (e : Entry)
    (he : e.key ≠ (O, Kind.offset) ∨ ¬ hasKey (N, Kind.offset) fs) : NoAfter N O (hsetOne fs e) := by
  unfold NoAfter at *
  rcases hsetOne_cases fs e with ⟨heq, _⟩ | ⟨heq, _⟩
  · rw [heq, List.pairwise_map]
    apply List.Pairwise.imp _ h
    intro a b hab
    rw [rep_key, rep_key]; exact hab
  · rw [heq]
    apply List.pairwise_append.mpr
    refine ⟨h, by simp, ?_⟩
    intro a ha b hb
    simp only [List.mem_singleton] at hb
    subst hb
    rintro ⟨h1, h2⟩
    rcases he with he | he
    · exact he h2
    · exact he ⟨a, ha, h1⟩

theorem NoAfter.hsetMany {N O : Bytes} {es : List Entry} (hes : ∀ e ∈ es, e.key ≠ (O, Kind.offset)) :
    ∀ {fs : Cp}, NoAfter N O fs → NoAfter N O (hsetMany fs es) := by
  induction es with
  | nil => intro fs h; exact h
  | cons e es ih =>
    intro fs h
    simp only [Checkpoint.hsetMany, List.foldl_cons]
    exact ih (fun e' he' => hes e' (List.mem_cons_of_mem _ he'))
      (h.hsetOne e (Or.inl (hes e (List.mem_cons_self ..))))

theorem noAfter_of_no {N O : Bytes} {fs : Cp} (h : ¬ hasKey (N, Kind.offset) fs) : NoAfter N O fs := by
  unfold NoAfter
  apply List.pairwise_of_forall_mem_list
  intro a ha b _ hab
  exact h ⟨a, ha, hab.1⟩

/-- with `N`'s `_offset` field after every `_offset` field of `O`, reading both ids reads what `N`
    alone reads -/
theorem offOf_pair_of_noAfter {N O : Bytes} : ∀ {fs : Cp}, NoAfter N O fs → Parses [N, O] fs →
    hasKey (N, Kind.offset) fs → ∀ o o' : Int,
    fs.foldl (offStep [N, O]) o = fs.foldl (offStep [N]) o' := by
  intro fs
  induction fs with
  | nil => intro _ _ h; obtain ⟨e, he, _⟩ := h; cases he
  | cons x fs ih =>
    intro hna hp hk o o'
    unfold NoAfter at hna
    rw [List.pairwise_cons] at hna
    simp only [List.foldl_cons]
    by_cases hx : x.key = (N, Kind.offset)
    · have h1 : x.rid = N := congrArg Prod.fst hx
      have h2 : x.kind = Kind.offset := congrArg Prod.snd hx
      have hsel2 : offSel [N, O] x = true := by rw [offSel_iff, matchId_pair]; exact ⟨Or.inl h1, h2⟩
      have hsel1 : offSel [N] x = true := by rw [offSel_iff, matchId_one]; exact ⟨h1, h2⟩
      obtain ⟨v, hv⟩ := Option.isSome_iff_exists.mp
        (hp x (List.mem_cons_self ..) ((matchId_pair N O _).mpr (Or.inl h1)) (Or.inl h2))
      have e2 : offStep [N, O] o x = v := by simp [offStep, hsel2, hv]
      have e1 : offStep [N] o' x = v := by simp [offStep, hsel1, hv]
      rw [e2, e1]
      -- the rest holds no `_offset` field of `O`: both folds select the same fields
      have hsame : ∀ y ∈ fs, offSel [N, O] y = offSel [N] y := by
        intro y hy
        have hno := hna.1 y hy
        rw [Bool.eq_iff_iff, offSel_iff, offSel_iff, matchId_pair, matchId_one]
        constructor
        · rintro ⟨hm | hm, hko⟩
          · exact ⟨hm, hko⟩
          · exact absurd ⟨hx, by show (y.rid, y.kind) = _; rw [hm, hko]⟩ hno
        · rintro ⟨hm, hko⟩; exact ⟨Or.inl hm, hko⟩
      have : ∀ (l : Cp) (a : Int), (∀ y ∈ l, offSel [N, O] y = offSel [N] y) →
          l.foldl (offStep [N, O]) a = l.foldl (offStep [N]) a := by
        intro l
        induction l with
        | nil => intro a _; rfl
        | cons y l ihl =>
          intro a hall
          simp only [List.foldl_cons]
          have : offStep [N, O] a y = offStep [N] a y := by
            simp only [offStep, hall y (List.mem_cons_self ..)]
          rw [this]; exact ihl _ (fun z hz => hall z (List.mem_cons_of_mem _ hz))
      exact this fs v hsame
    · have hk' : hasKey (N, Kind.offset) fs := by
        obtain ⟨e, he, hek⟩ := hk
        rcases List.mem_cons.mp he with rfl | he'
        · exact absurd hek hx
        · exact ⟨e, he', hek⟩
      exact ih hna.2 hp.tail hk' _ _

theorem offOf_pair_eq_one {N O : Bytes} {fs : Cp} (hna : NoAfter N O fs) (hp : Parses [N, O] fs)
    (hk : hasKey (N, Kind.offset) fs) : offOf [N, O] fs = offOf [N] fs :=
  offOf_pair_of_noAfter hna hp hk (-1) (-1)

/-! ### bounds -/

def OffLe (ids : List Bytes) (fs : Cp) (X : Int) : Prop :=
  ∀ x ∈ fs, offSel ids x = true → ∀ v, Resp.parseInt64 x.val = some v → v ≤ X

theorem OffLe.mono {ids : List Bytes} {fs : Cp} {X Y : Int} (h : OffLe ids fs X) (hxy : X ≤ Y) :
    OffLe ids fs Y := fun x hx hs v hv => Int.le_trans (h x hx hs v hv) hxy

theorem OffLe.hdelMany {ids : List Bytes} {fs : Cp} {X : Int} (h : OffLe ids fs X) (ks : List FKey) :
    OffLe ids (hdelMany fs ks) X := fun x hx => h x (List.mem_filter.mp hx).1

/-- a `_runid` field of one of the ids exists and none stores "?": a run id is read -/
theorem ridOf_ne_of_hasKey {ids : List Bytes} {fs : Cp} {ρ : Bytes} (hm : matchId ids ρ = true)
    (hk : hasKey (ρ, Kind.runid) fs) (hall : ∀ x ∈ fs, ridSel ids x = true → x.val ≠ qmark) :
    ridOf ids fs ≠ qmark := by
  apply foldl_ridStep_ne ids fs qmark hall
  left
  obtain ⟨e, he, hek⟩ := hk
  refine ⟨e, he, ?_⟩
  rw [ridSel_iff]
  have h1 : e.rid = ρ := congrArg Prod.fst hek
  have h2 : e.kind = Kind.runid := congrArg Prod.snd hek
  exact ⟨h1 ▸ hm, h2⟩

/-! ### the universal part: `StrA` -/

structure StrA (t : Target) (names ids : List Bytes) : Prop where
  ok : ∀ db n, ∀ e ∈ t.cps db n, EntryOK e
  nodup : ∀ db n, FieldsNodup (t.cps db n)
  fin : ∃ dbs : List Nat, ∀ db, db ∉ dbs → ∀ n, t.cps db n = []
  names : ∀ n, n ∉ names → (∀ db, t.cps db n = []) ∧ ∀ p ∈ t.hash, p.2 ≠ n
  ids : ∀ ρ, ρ ∉ ids → (∀ db n, ∀ e ∈ t.cps db n, e.rid ≠ ρ) ∧ hlookup t.hash ρ = none

/-- what a request has to respect -/
def ReqA (names ids : List Bytes) : Req → Prop
  | .hsetCp _ name es => name ∈ names ∧ ∀ e ∈ es, EntryOK e ∧ e.rid ∈ ids
  | .hdelCp _ _ _ => True
  | .delKeys _ _ => True
  | .hsetHash rid name => rid ∈ ids ∧ name ∈ names
  | .hsetnxHash rid name => rid ∈ ids ∧ name ∈ names
  | .hdelHash _ => True

theorem StrA.weaken {t : Target} {names ids names' ids' : List Bytes} (h : StrA t names ids)
    (hn : ∀ x ∈ names, x ∈ names') (hi : ∀ x ∈ ids, x ∈ ids') : StrA t names' ids' :=
  ⟨h.ok, h.nodup, h.fin, fun n hn' => h.names n (fun hc => hn' (hn n hc)),
    fun ρ hρ => h.ids ρ (fun hc => hρ (hi ρ hc))⟩

theorem mem_hashSet {h : List (Bytes × Bytes)} {k v : Bytes} {p : Bytes × Bytes}
    (hp : p ∈ hashSet h k v) : p = (k, v) ∨ p ∈ h := by
  unfold hashSet at hp
  split at hp
  · obtain ⟨q, hq, rfl⟩ := List.mem_map.mp hp
    split
    · left; rfl
    · right; exact hq
  · rcases List.mem_append.mp hp with hp | hp
    · right; exact hp
    · left; simpa using hp

theorem hlookup_none_of_not_mem {h : List (Bytes × Bytes)} {k : Bytes} (hk : ∀ p ∈ h, p.1 ≠ k) :
    hlookup h k = none := by
  unfold hlookup
  apply List.lookup_eq_none_iff.mpr
  intro p hp
  simp only [bne_iff_ne, ne_eq]
  exact fun h' => hk p hp h'.symm

theorem hlookup_hashDel_none {h : List (Bytes × Bytes)} {k a : Bytes} (hn : hlookup h a = none) :
    hlookup (hashDel h k) a = none := by
  by_cases hak : a = k
  · subst hak; exact hlookup_hashDel_self h a
  · rw [hlookup_hashDel_ne h k a hak]; exact hn

theorem strA_applyReq {t : Target} {names ids : List Bytes} (h : StrA t names ids) (q : Req)
    (hq : ReqA names ids q) : StrA (applyReq t q) names ids := by
  cases q with
  | hsetCp db name es =>
    obtain ⟨hname, hes⟩ := hq
    refine ⟨?_, ?_, ?_, ?_, ?_⟩
    · intro db' n' e he
      rw [applyReq_hsetCp_cps] at he
      split at he
      · rcases mem_hsetMany he with he' | he'
        · exact (hes e he').1
        · exact h.ok db name e he'
      · exact h.ok db' n' e he
    · intro db' n'
      rw [applyReq_hsetCp_cps]
      split
      · exact (h.nodup db name).hsetMany
      · exact h.nodup db' n'
    · obtain ⟨dbs, hd⟩ := h.fin
      refine ⟨db :: dbs, ?_⟩
      intro db' hdb' n'
      rw [applyReq_hsetCp_cps]
      have h1 : db' ≠ db := fun hc => hdb' (hc ▸ List.mem_cons_self ..)
      have h2 : db' ∉ dbs := fun hc => hdb' (List.mem_cons_of_mem _ hc)
      simp only [h1, false_and, if_false]
      exact hd db' h2 n'
    · intro n' hn'
      refine ⟨?_, (h.names n' hn').2⟩
      intro db'
      rw [applyReq_hsetCp_cps]
      have : ¬ (db' = db ∧ n' = name) := fun hc => hn' (by rw [hc.2]; exact hname)
      simp only [this, if_false]
      exact (h.names n' hn').1 db'
    · intro ρ hρ
      refine ⟨?_, (h.ids ρ hρ).2⟩
      intro db' n' e he
      rw [applyReq_hsetCp_cps] at he
      split at he
      · rcases mem_hsetMany he with he' | he'
        · intro hc; exact hρ (by rw [← hc]; exact (hes e he').2)
        · exact (h.ids ρ hρ).1 db name e he'
      · exact (h.ids ρ hρ).1 db' n' e he
  | hdelCp db name ks =>
    refine ⟨?_, ?_, ?_, ?_, ?_⟩
    · intro db' n' e he
      rw [applyReq_hdelCp_cps] at he
      split at he
      · exact h.ok db name e (List.mem_filter.mp he).1
      · exact h.ok db' n' e he
    · intro db' n'
      rw [applyReq_hdelCp_cps]
      split
      · exact (h.nodup db name).hdelMany ks
      · exact h.nodup db' n'
    · obtain ⟨dbs, hd⟩ := h.fin
      refine ⟨dbs, ?_⟩
      intro db' hdb' n'
      rw [applyReq_hdelCp_cps]
      split
      · rename_i hc
        rw [← hc.1, hd db' hdb' name]; rfl
      · exact hd db' hdb' n'
    · intro n' hn'
      refine ⟨?_, (h.names n' hn').2⟩
      intro db'
      rw [applyReq_hdelCp_cps]
      split
      · rename_i hc
        rw [← hc.1, ← hc.2, (h.names n' hn').1 db']; rfl
      · exact (h.names n' hn').1 db'
    · intro ρ hρ
      refine ⟨?_, (h.ids ρ hρ).2⟩
      intro db' n' e he
      rw [applyReq_hdelCp_cps] at he
      split at he
      · exact (h.ids ρ hρ).1 db name e (List.mem_filter.mp he).1
      · exact (h.ids ρ hρ).1 db' n' e he
  | delKeys db names' =>
    have hc : ∀ db' n', (applyReq t (Req.delKeys db names')).cps db' n'
        = if db' = db ∧ names'.contains n' then [] else t.cps db' n' := fun _ _ => rfl
    refine ⟨?_, ?_, ?_, ?_, ?_⟩
    · intro db' n' e he
      rw [hc] at he
      split at he
      · cases he
      · exact h.ok db' n' e he
    · intro db' n'
      rw [hc]
      split
      · exact List.nodup_nil
      · exact h.nodup db' n'
    · obtain ⟨dbs, hd⟩ := h.fin
      refine ⟨dbs, ?_⟩
      intro db' hdb' n'
      rw [hc]
      split
      · rfl
      · exact hd db' hdb' n'
    · intro n' hn'
      refine ⟨?_, (h.names n' hn').2⟩
      intro db'
      rw [hc]
      split
      · rfl
      · exact (h.names n' hn').1 db'
    · intro ρ hρ
      refine ⟨?_, (h.ids ρ hρ).2⟩
      intro db' n' e he
      rw [hc] at he
      split at he
      · cases he
      · exact (h.ids ρ hρ).1 db' n' e he
  | hsetHash rid name =>
    obtain ⟨hrid, hname⟩ := hq
    refine ⟨h.ok, h.nodup, h.fin, ?_, ?_⟩
    · intro n' hn'
      refine ⟨(h.names n' hn').1, ?_⟩
      intro p hp
      rcases mem_hashSet hp with rfl | hp'
      · exact fun hc => hn' (by rw [← hc]; exact hname)
      · exact (h.names n' hn').2 p hp'
    · intro ρ hρ
      refine ⟨(h.ids ρ hρ).1, ?_⟩
      show hlookup (hashSet t.hash rid name) ρ = none
      rw [hlookup_hashSet_ne _ _ _ _ (fun hc => hρ (by rw [hc]; exact hrid))]
      exact (h.ids ρ hρ).2
  | hsetnxHash rid name =>
    obtain ⟨hrid, hname⟩ := hq
    show StrA (if t.hash.any (fun p => p.1 = rid) then t else { t with hash := t.hash ++ [(rid, name)] }) names ids
    split
    · exact h
    · refine ⟨h.ok, h.nodup, h.fin, ?_, ?_⟩
      · intro n' hn'
        refine ⟨(h.names n' hn').1, ?_⟩
        intro p hp
        rcases List.mem_append.mp hp with hp' | hp'
        · exact (h.names n' hn').2 p hp'
        · have : p = (rid, name) := by simpa using hp'
          subst this
          exact fun hc => hn' (by rw [← hc]; exact hname)
      · intro ρ hρ
        refine ⟨(h.ids ρ hρ).1, ?_⟩
        show hlookup (t.hash ++ [(rid, name)]) ρ = none
        unfold hlookup
        rw [lookup_append_single]
        have h0 := (h.ids ρ hρ).2
        unfold hlookup at h0
        rw [h0]
        have : ρ ≠ rid := fun hc => hρ (by rw [hc]; exact hrid)
        simp [this]
  | hdelHash rid =>
    refine ⟨h.ok, h.nodup, h.fin, ?_, ?_⟩
    · intro n' hn'
      refine ⟨(h.names n' hn').1, ?_⟩
      intro p hp
      exact (h.names n' hn').2 p (List.mem_filter.mp hp).1
    · intro ρ hρ
      exact ⟨(h.ids ρ hρ).1, hlookup_hashDel_none (h.ids ρ hρ).2⟩

theorem strA_applyAll {names ids : List Bytes} (rs : List Req) : ∀ {t : Target}, StrA t names ids →
    (∀ q ∈ rs, ReqA names ids q) → StrA (applyAll t rs) names ids := by
  induction rs with
  | nil => intro t h _; exact h
  | cons q rs ih =>
    intro t h hq
    simp only [applyAll, List.foldl_cons]
    exact ih (strA_applyReq h q (hq q (List.mem_cons_self ..)))
      (fun q' hq' => hq q' (List.mem_cons_of_mem _ hq'))

/-- `cpEntries` of a well-formed record is well formed -/
theorem cpEntries_ok {c : CpInfo} {now : Int} (hoff : -(2^63 : Int) ≤ c.offset ∧ c.offset < 2^63)
    (hnow : -(2^63 : Int) ≤ now ∧ now < 2^63) : ∀ e ∈ cpEntries c now, EntryOK e ∧ e.rid = c.runId := by
  intro e he
  have hp1 : (Resp.parseInt64 (intToDec now)).isSome = true := by
    rw [Resp.parseInt64_intToDec now hnow.1 hnow.2]; rfl
  have hp2 : (Resp.parseInt64 (intToDec c.offset)).isSome = true := by
    rw [Resp.parseInt64_intToDec c.offset hoff.1 hoff.2]; rfl
  unfold cpEntries at he
  simp only [List.mem_append, List.mem_singleton] at he
  rcases he with ((rfl | he) | he) | rfl
  · exact ⟨⟨fun _ => hp1, fun h => by simp at h⟩, rfl⟩
  · split at he
    · have : e = ⟨c.runId, .runid, c.runId⟩ := by simpa using he
      subst this
      exact ⟨⟨fun h => by simp at h, fun _ => rfl⟩, rfl⟩
    · simp at he
  · split at he
    · have : e = ⟨c.runId, .version, c.version⟩ := by simpa using he
      subst this
      exact ⟨⟨fun h => by simp at h, fun h => by simp at h⟩, rfl⟩
    · simp at he
  · exact ⟨⟨fun _ => hp2, fun h => by simp at h⟩, rfl⟩

end GunYu.Checkpoint
