/-
  C19 — every run of the operational model (Model/ClusterExec.lean) is a run of the segment
  automaton (Model/ClusterSegments.lean) whose events satisfy AppOK / Complete (the guards),
  PrefixCut (`PrefixRun`) and, for the current sender (`split = true`), `Disciplined`.
-/
import GunYu.Model.ClusterExec
import GunYu.Proofs.ClusterSegments

namespace GunYu.ClusterExec
open GunYu.ClusterSegments

/-- a sorted list whose elements all lie in a sorted list `L` and which is downward closed in
    `L` is a prefix of `L` -/
theorem prefix_of_sorted_down : ∀ (l L : List Nat), l.Pairwise (· < ·) → L.Pairwise (· < ·) →
    (∀ x ∈ l, x ∈ L) → (∀ x ∈ l, ∀ y ∈ L, y < x → y ∈ l) → l <+: L := by
  intro l
  induction l with
  | nil => intro L _ _ _ _; exact List.nil_prefix
  | cons x l' ih =>
    intro L hl hL hsub hdown
    cases L with
    | nil => exact absurd (hsub x (by simp)) (by simp)
    | cons y L' =>
      rw [List.pairwise_cons] at hl hL
      have hxy : x = y := by
        have hx := hsub x (by simp)
        rw [List.mem_cons] at hx
        cases hx with
        | inl h => exact h
        | inr h =>
          have hlt : y < x := hL.1 x h
          have hy := hdown x (by simp) y (by simp) hlt
          rw [List.mem_cons] at hy
          cases hy with
          | inl h2 => omega
          | inr h2 => have := hl.1 y h2; omega
      subst hxy
      rw [List.cons_prefix_cons]
      refine ⟨rfl, ih L' hl.2 hL.2 ?_ ?_⟩
      · intro z hz
        have h1 := hsub z (by simp [hz])
        rw [List.mem_cons] at h1
        cases h1 with
        | inl h => have := hl.1 z hz; omega
        | inr h => exact h
      · intro z hz w hw hlt
        have h1 := hdown z (by simp [hz]) w (by simp [hw]) hlt
        rw [List.mem_cons] at h1
        cases h1 with
        | inl h => have := hL.1 w hw; omega
        | inr h => exact h

/-- a prefix of a strictly sorted list that contains all its elements is the list -/
theorem prefix_all_eq {l L : List Nat} (hL : L.Pairwise (· < ·)) (hp : l <+: L)
    (hall : ∀ x ∈ L, x ∈ l) : l = L := by
  obtain ⟨t, rfl⟩ := hp
  cases t with
  | nil => simp
  | cons z t' =>
    rw [List.pairwise_append] at hL
    have hz := hall z (by simp)
    have := hL.2.2 z hz z (by simp)
    omega

section
variable (n : Nat) (grp : Nat → Nat) (split : Bool)

/-- what holds of an open attempt on `[p, a.q)` -/
structure AInv (p : Nat) (a : Att) : Prop where
  hpq : p ≤ a.q
  hqn : a.q ≤ n
  hroute : RouteOK grp p a.q a.route
  nodup : a.app.Nodup
  appIn : ∀ i ∈ a.app, i ∈ rng p a.q
  redirIn : ∀ i ∈ a.redir, i ∈ rng p a.q
  disj : ∀ i ∈ a.redir, i ∉ a.app
  readApp : ∀ i ∈ a.read, i ∈ a.app
  down : ∀ i ∈ a.app, ∀ j ∈ rng p a.q, j < i → grp j = grp i → j ∈ a.app
  sorted : ∀ g, (a.app.filter (fun j => grp j == g)).Pairwise (· < ·)
  ackAll : a.acked = true → AllRead p a
  posSentAck : split = true → a.posSent = true → a.acked = true
  posAppSent : a.posApplied = true → a.posSent = true
  posRedirSent : a.posRedir = true → a.posSent = true
  goneRedir : split = true → ∀ c, a.gone = some c → c ≠ .other →
    a.posApplied = false ∧ (a.posSent = false ∨ a.posRedir = true)

theorem AInv_fresh {p q : Nat} {route : Nat → Node} {wp : Bool} (hpq : p ≤ q) (hqn : q ≤ n)
    (hr : RouteOK grp p q route) : AInv n grp split p (fresh split q route wp) := by
  refine ⟨hpq, hqn, hr, ?_, ?_, ?_, ?_, ?_, ?_, ?_, ?_, ?_, ?_, ?_, ?_⟩ <;> simp [fresh]
  · intro h; simp [h]

/-- executing `i` (at its queue's node, or by a followed redirect) when every earlier command of
    its key has executed keeps the per-key bookkeeping -/
theorem append_exec {p : Nat} {a : Att} (hi : AInv n grp split p a) {i : Nat}
    (hin : i ∈ rng p a.q) (hnot : i ∉ a.app)
    (hprev : ∀ j ∈ rng p a.q, j < i → grp j = grp i → j ∈ a.app) :
    (a.app ++ [i]).Nodup ∧ (∀ x ∈ a.app ++ [i], x ∈ rng p a.q) ∧
    (∀ x ∈ a.app ++ [i], ∀ j ∈ rng p a.q, j < x → grp j = grp x → j ∈ a.app ++ [i]) ∧
    (∀ g, ((a.app ++ [i]).filter (fun j => grp j == g)).Pairwise (· < ·)) := by
  refine ⟨?_, ?_, ?_, ?_⟩
  · rw [List.nodup_append]
    refine ⟨hi.nodup, by simp, ?_⟩
    intro x hx y hy
    simp only [List.mem_singleton] at hy
    subst hy
    intro h; subst h; exact hnot hx
  · intro x hx
    rw [List.mem_append, List.mem_singleton] at hx
    cases hx with
    | inl h => exact hi.appIn x h
    | inr h => subst h; exact hin
  · intro x hx j hj hlt hg
    rw [List.mem_append, List.mem_singleton] at hx
    rw [List.mem_append]
    cases hx with
    | inl h => exact Or.inl (hi.down x h j hj hlt hg)
    | inr h => subst h; exact Or.inl (hprev j hj hlt hg)
  · intro g
    rw [List.filter_append, List.pairwise_append]
    refine ⟨hi.sorted g, ?_, ?_⟩
    · simp only [List.filter_cons, List.filter_nil]
      split <;> simp
    · intro x hx y hy
      rw [List.mem_filter] at hx hy
      simp only [List.mem_singleton] at hy
      obtain ⟨hy1, hy2⟩ := hy
      subst hy1
      have hgx : grp x = g := by simpa using hx.2
      have hgy : grp y = g := by simpa using hy2
      have hne : x ≠ y := fun h => hnot (h ▸ hx.1)
      by_cases hlt : y < x
      · exact absurd (hi.down x hx.1 y hin hlt (by rw [hgx, hgy])) hnot
      · omega

/-- every event inside an attempt keeps `AInv` (the cluster hypothesis `QuietOK` is used by
    `nodeExec` only) -/
theorem AInv_attStep {p : Nat} {a a' : Att} {e : XEv} (hi : AInv n grp split p a)
    (hq : ∀ i, e = .nodeExec i → ∀ j ∈ a.redir, j < i → grp j ≠ grp i)
    (h : attStep split p a e = some a') : AInv n grp split p a' ∧ a'.q = a.q := by
  cases e with
  | nodeExec i =>
    simp only [attStep] at h
    split at h
    · rename_i hg
      obtain ⟨⟨hin, hna, hnr⟩, hf⟩ := hg
      simp only [Option.some.injEq] at h; subst h
      have hprev : ∀ j ∈ rng p a.q, j < i → grp j = grp i → j ∈ a.app := by
        intro j hj hlt hgj
        cases hf j hj hlt (hi.hroute j hj i hin hgj) with
        | inl h => exact h
        | inr h => exact absurd hgj (hq i rfl j h hlt)
      obtain ⟨h1, h2, h3, h4⟩ := append_exec n grp split hi hin hna hprev
      refine ⟨⟨hi.hpq, hi.hqn, hi.hroute, h1, h2, hi.redirIn, ?_, ?_, h3, h4, hi.ackAll,
        hi.posSentAck, hi.posAppSent, hi.posRedirSent, hi.goneRedir⟩, rfl⟩
      · intro x hx hxa
        rw [List.mem_append, List.mem_singleton] at hxa
        cases hxa with
        | inl h => exact hi.disj x hx h
        | inr h => subst h; exact hnr hx
      · intro x hx
        exact List.mem_append_left _ (hi.readApp x hx)
    · exact nomatch h
  | nodeRedirect i =>
    simp only [attStep] at h
    split at h
    · rename_i hg
      obtain ⟨⟨hin, hna, hnr⟩, _⟩ := hg
      simp only [Option.some.injEq] at h; subst h
      refine ⟨⟨hi.hpq, hi.hqn, hi.hroute, hi.nodup, hi.appIn, ?_, ?_, hi.readApp, hi.down, hi.sorted,
        hi.ackAll, hi.posSentAck, hi.posAppSent, hi.posRedirSent, hi.goneRedir⟩, rfl⟩
      · intro x hx
        rw [List.mem_append, List.mem_singleton] at hx
        cases hx with
        | inl h => exact hi.redirIn x h
        | inr h => subst h; exact hin
      · intro x hx
        rw [List.mem_append, List.mem_singleton] at hx
        cases hx with
        | inl h => exact hi.disj x h
        | inr h => subst h; exact hna
    · exact nomatch h
  | clientOk i =>
    simp only [attStep] at h
    split at h
    · rename_i hg
      obtain ⟨_, hia, _, _⟩ := hg
      simp only [Option.some.injEq] at h; subst h
      refine ⟨⟨hi.hpq, hi.hqn, hi.hroute, hi.nodup, hi.appIn, hi.redirIn, hi.disj, ?_, hi.down, hi.sorted,
        ?_, hi.posSentAck, hi.posAppSent, hi.posRedirSent, hi.goneRedir⟩, rfl⟩
      · intro x hx
        rw [List.mem_append, List.mem_singleton] at hx
        cases hx with
        | inl h => exact hi.readApp x h
        | inr h => subst h; exact hia
      · intro hk x hx
        exact List.mem_append_left _ (hi.ackAll hk x hx)
    · exact nomatch h
  | chaseExec i =>
    simp only [attStep] at h
    split at h
    · rename_i hg
      obtain ⟨_, _, hir, hrb⟩ := hg
      simp only [Option.some.injEq] at h; subst h
      have hin := hi.redirIn i hir
      have hna := hi.disj i hir
      have hprev : ∀ j ∈ rng p a.q, j < i → grp j = grp i → j ∈ a.app := by
        intro j hj hlt hgj
        exact hi.readApp j (hrb j hj hlt (hi.hroute j hj i hin hgj))
      obtain ⟨h1, h2, h3, h4⟩ := append_exec n grp split hi hin hna hprev
      refine ⟨⟨hi.hpq, hi.hqn, hi.hroute, h1, h2, ?_, ?_, ?_, h3, h4, ?_,
        hi.posSentAck, hi.posAppSent, hi.posRedirSent, hi.goneRedir⟩, rfl⟩
      · intro x hx
        rw [List.mem_filter] at hx
        exact hi.redirIn x hx.1
      · intro x hx hxa
        rw [List.mem_filter] at hx
        rw [List.mem_append, List.mem_singleton] at hxa
        cases hxa with
        | inl h => exact hi.disj x hx.1 h
        | inr h => subst h; simp at hx
      · intro x hx
        rw [List.mem_append, List.mem_singleton] at hx
        rw [List.mem_append, List.mem_singleton]
        cases hx with
        | inl h => exact Or.inl (hi.readApp x h)
        | inr h => exact Or.inr h
      · intro hk x hx
        exact List.mem_append_left _ (hi.ackAll hk x hx)
    · exact nomatch h
  | fail c =>
    simp only [attStep] at h
    split at h
    · rename_i hg
      obtain ⟨hgn, hc, hcs⟩ := hg
      simp only [Option.some.injEq] at h; subst h
      refine ⟨⟨hi.hpq, hi.hqn, hi.hroute, hi.nodup, hi.appIn, hi.redirIn, hi.disj, hi.readApp, hi.down,
        hi.sorted, hi.ackAll, hi.posSentAck, hi.posAppSent, hi.posRedirSent, ?_⟩, rfl⟩
      intro hs c' hc2 hne
      simp only [Option.some.injEq] at hc2
      subst hc2
      cases c with
      | other => exact absurd rfl hne
      | crossslot =>
        have h3 := (hcs rfl).2.2
        refine ⟨?_, Or.inl h3⟩
        cases hk : a.posApplied with
        | false => rfl
        | true => have := hi.posAppSent hk; rw [h3] at this; exact nomatch this
      | redirect =>
        cases hc rfl with
        | inl hne2 =>
          -- a refused, undelivered data command: the data batch was not acknowledged, hence (split)
          -- the position was not sent
          have hnack : a.acked = false := by
            cases hk : a.acked with
            | false => rfl
            | true =>
              exfalso
              cases hr : a.redir with
              | nil => exact hne2 hr
              | cons x t =>
                have hx : x ∈ a.redir := by rw [hr]; simp
                exact hi.disj x hx (hi.readApp x (hi.ackAll hk x (hi.redirIn x hx)))
          have hns : a.posSent = false := by
            cases hk : a.posSent with
            | false => rfl
            | true => have := hi.posSentAck hs hk; rw [hnack] at this; exact nomatch this
          refine ⟨?_, Or.inl hns⟩
          cases hk : a.posApplied with
          | false => rfl
          | true => have := hi.posAppSent hk; rw [hns] at this; exact nomatch this
        | inr h2 => exact ⟨h2.2, Or.inr h2.1⟩
    · exact nomatch h
  | ack =>
    simp only [attStep] at h
    split at h
    · rename_i hg
      simp only [Option.some.injEq] at h; subst h
      exact ⟨⟨hi.hpq, hi.hqn, hi.hroute, hi.nodup, hi.appIn, hi.redirIn, hi.disj, hi.readApp, hi.down,
        hi.sorted, fun _ => hg.2, fun _ _ => rfl, hi.posAppSent, hi.posRedirSent, hi.goneRedir⟩, rfl⟩
    · exact nomatch h
  | posSend =>
    simp only [attStep] at h
    split at h
    · rename_i hg
      obtain ⟨hgn, _, hsa⟩ := hg
      simp only [Option.some.injEq] at h; subst h
      refine ⟨⟨hi.hpq, hi.hqn, hi.hroute, hi.nodup, hi.appIn, hi.redirIn, hi.disj, hi.readApp, hi.down,
        hi.sorted, hi.ackAll, fun hs _ => hsa hs, fun _ => rfl, fun _ => rfl, ?_⟩, rfl⟩
      intro _ c hc2 _
      rw [hgn] at hc2
      exact nomatch hc2
    · exact nomatch h
  | posExec =>
    simp only [attStep] at h
    split at h
    · rename_i hg
      obtain ⟨hps, hpr, _⟩ := hg
      simp only [Option.some.injEq] at h; subst h
      refine ⟨⟨hi.hpq, hi.hqn, hi.hroute, hi.nodup, hi.appIn, hi.redirIn, hi.disj, hi.readApp, hi.down,
        hi.sorted, hi.ackAll, hi.posSentAck, fun _ => hps, hi.posRedirSent, ?_⟩, rfl⟩
      intro hs c hc2 hne
      cases (hi.goneRedir hs c hc2 hne).2 with
      | inl h => rw [hps] at h; exact nomatch h
      | inr h => rw [hpr] at h; exact nomatch h
    · exact nomatch h
  | posRedirect =>
    simp only [attStep] at h
    split at h
    · rename_i hg
      simp only [Option.some.injEq] at h; subst h
      refine ⟨⟨hi.hpq, hi.hqn, hi.hroute, hi.nodup, hi.appIn, hi.redirIn, hi.disj, hi.readApp, hi.down,
        hi.sorted, hi.ackAll, hi.posSentAck, hi.posAppSent, fun _ => hg.1, ?_⟩, rfl⟩
      intro hs c hc2 hne
      exact ⟨(hi.goneRedir hs c hc2 hne).1, Or.inr rfl⟩
    · exact nomatch h
  | posChaseExec =>
    simp only [attStep] at h
    split at h
    · rename_i hg
      obtain ⟨hg1, hg2, hpr, _⟩ := hg
      simp only [Option.some.injEq] at h; subst h
      refine ⟨⟨hi.hpq, hi.hqn, hi.hroute, hi.nodup, hi.appIn, hi.redirIn, hi.disj, hi.readApp, hi.down,
        hi.sorted, hi.ackAll, hi.posSentAck, fun _ => hi.posRedirSent hpr, hi.posRedirSent, ?_⟩, rfl⟩
      · intro _ c hc2 hne
        cases c with
        | other => exact absurd rfl hne
        | redirect => exact absurd hc2 hg1
        | crossslot => exact absurd hc2 hg2
    · exact nomatch h
  | begin q r w => exact nomatch h
  | done => exact nomatch h
  | restart => exact nomatch h

/-! ### what the attempt's bookkeeping gives: the guards and hypotheses of the segment automaton -/

theorem AInv_appOK {p : Nat} {a : Att} (hi : AInv n grp split p a) : AppOK p a.q a.app :=
  ⟨hi.nodup, fun i h => rng_mem.mp (hi.appIn i h)⟩

/-- per key, what an attempt has executed — at any moment, in any interleaving of the node
    queues — is a PREFIX of the key's part of the queue, in source order -/
theorem AInv_prefix {p : Nat} {a : Att} (hi : AInv n grp split p a) (g : Nat) :
    a.app.filter (fun j => grp j == g) <+: (rng p a.q).filter (fun j => grp j == g) := by
  apply prefix_of_sorted_down _ _ (hi.sorted g) (rng_filter_sorted grp p a.q g)
  · intro x hx
    rw [List.mem_filter] at hx ⊢
    exact ⟨hi.appIn x hx.1, hx.2⟩
  · intro x hx y hy hlt
    rw [List.mem_filter] at hx hy ⊢
    have hgx : grp x = g := by simpa using hx.2
    have hgy : grp y = g := by simpa using hy.2
    exact ⟨hi.down x hx.1 y hy.1 hlt (by rw [hgx, hgy]), hy.2⟩

theorem AInv_prefixCut {p : Nat} {a : Att} (hi : AInv n grp split p a) : PrefixCut grp p a.q a.app :=
  fun i _ => AInv_prefix n grp split hi (grp i)

theorem AInv_complete {p : Nat} {a : Att} (hi : AInv n grp split p a) (hd : AllDone p a) :
    Complete grp p a.q a.app := by
  intro i _
  apply prefix_all_eq (rng_filter_sorted grp p a.q (grp i)) (AInv_prefix n grp split hi (grp i))
  intro x hx
  rw [List.mem_filter] at hx ⊢
  exact ⟨hd x hx.1, hx.2⟩

/-- an acknowledged data batch executed everything -/
theorem AInv_acked_allDone {p : Nat} {a : Att} (hi : AInv n grp split p a) (hk : a.acked = true) :
    AllDone p a := fun i h => hi.readApp i (hi.ackAll hk i h)

/-- current sender: a stored position means the data batch was acknowledged -/
theorem AInv_pos_allDone {p : Nat} {a : Att} (hi : AInv n grp split p a) (hs : split = true)
    (hp : a.posApplied = true) : AllDone p a :=
  AInv_acked_allDone n grp split hi (hi.posSentAck hs (hi.posAppSent hp))

theorem seg_step_cut {b : Tgt} {q : Nat} {app : List Nat} {st : Bool} (h1 : b.cur ≤ q) (h2 : q ≤ n)
    (h3 : AppOK b.cur q app) :
    ClusterSegments.step n grp b (.batch q (.cut app st)) = some (after b (.batch q (.cut app st))) := by
  simp [ClusterSegments.step, after, h1, h2, h3]

theorem seg_step_ok {b : Tgt} {q : Nat} {app : List Nat} {st : Bool} (h1 : b.cur ≤ q) (h2 : q ≤ n)
    (h3 : AppOK b.cur q app) (h4 : Complete grp b.cur q app) :
    ClusterSegments.step n grp b (.batch q (.ok app st)) = some (after b (.batch q (.ok app st))) := by
  simp [ClusterSegments.step, after, h1, h2, h3, h4]

theorem seg_step_start (b : Tgt) : ClusterSegments.step n grp b .start = some (after b .start) := rfl

/-- the invariant of the operational state -/
def XInv (s : XSt) : Prop := ∀ a, s.att = some a → AInv n grp split s.base.cur a

theorem XInv_init : XInv n grp split {} := by
  intro a h
  exact nomatch h

/-- closing an attempt by `restart` is a step of the automaton; it never stores ahead when `split` -/
theorem closeRestart_step {b : Tgt} {a : Att} (hi : AInv n grp split b.cur a) :
    ClusterSegments.step n grp b (closeRestart b.cur a) = some (after b (closeRestart b.cur a)) ∧
    (match closeRestart b.cur a with
     | .batch q (.cut app _) => PrefixCut grp b.cur q app
     | _ => True) ∧
    (split = true → cutStoresNothing (closeRestart b.cur a)) := by
  unfold closeRestart
  split
  · rename_i hc
    exact ⟨seg_step_ok n grp hi.hpq hi.hqn (AInv_appOK n grp split hi) (AInv_complete n grp split hi hc.2),
      trivial, fun _ => trivial⟩
  · rename_i hc
    refine ⟨seg_step_cut n grp hi.hpq hi.hqn (AInv_appOK n grp split hi), AInv_prefixCut n grp split hi, ?_⟩
    intro hs
    simp only [cutStoresNothing]
    cases hp : a.posApplied with
    | false => rfl
    | true => exact absurd ⟨hp, AInv_pos_allDone n grp split hi hs hp⟩ hc

theorem stepInner_refines {s s' : XSt} {e : XEv} {o : List Ev} (hi : XInv n grp split s)
    (hq : QuietOK grp s e) (h : stepInner split s e = some (s', o)) :
    ClusterSegments.run n grp s.base o = some s'.base ∧ XInv n grp split s' ∧
    PrefixRun n grp s.base o ∧ (split = true → Disciplined o) := by
  unfold stepInner at h
  cases hatt : s.att with
  | none => rw [hatt] at h; exact nomatch h
  | some a =>
    rw [hatt] at h
    simp only at h
    cases hs : attStep split s.base.cur a e with
    | none => rw [hs] at h; exact nomatch h
    | some a' =>
      rw [hs] at h
      simp only [Option.some.injEq, Prod.mk.injEq] at h
      obtain ⟨rfl, rfl⟩ := h
      refine ⟨rfl, ?_, trivial, fun _ x hx => absurd hx List.not_mem_nil⟩
      intro a2 ha2
      simp only [Option.some.injEq] at ha2
      subst ha2
      refine (AInv_attStep n grp split (hi a hatt) ?_ hs).1
      intro i he j hj hlt
      subst he
      exact hq a hatt j hj hlt

/-- ONE STEP of the operational model = the closed segment events are steps of the automaton
    (their guards AppOK / Complete hold), cut events are prefix cuts, and with the current sender
    a cut event stores nothing -/
theorem step_refines {s s' : XSt} {e : XEv} {o : List Ev} (hi : XInv n grp split s)
    (hq : QuietOK grp s e) (h : step n grp split s e = some (s', o)) :
    ClusterSegments.run n grp s.base o = some s'.base ∧ XInv n grp split s' ∧
    PrefixRun n grp s.base o ∧ (split = true → Disciplined o) := by
  cases e with
  | begin q route wp =>
    simp only [step] at h
    cases hatt : s.att with
    | none =>
      rw [hatt] at h
      simp only at h
      split at h
      · rename_i hg
        simp only [Option.some.injEq, Prod.mk.injEq] at h
        obtain ⟨rfl, rfl⟩ := h
        refine ⟨rfl, ?_, trivial, fun _ x hx => absurd hx List.not_mem_nil⟩
        intro a2 ha2
        simp only [Option.some.injEq] at ha2
        subst ha2
        exact AInv_fresh n grp split hg.1 hg.2.1 hg.2.2
      · exact nomatch h
    | some a =>
      rw [hatt] at h
      simp only at h
      split at h
      · rename_i hg
        obtain ⟨hgone, hcq, hqn, hr⟩ := hg
        simp only [Option.some.injEq, Prod.mk.injEq] at h
        obtain ⟨rfl, rfl⟩ := h
        have ha := hi a hatt
        have hstep := seg_step_cut n grp (st := a.posApplied) ha.hpq ha.hqn (AInv_appOK n grp split ha)
        refine ⟨?_, ?_, ?_, ?_⟩
        · simp only [ClusterSegments.run, closeRetry, hstep]
        · intro a2 ha2
          simp only [Option.some.injEq] at ha2
          subst ha2
          exact AInv_fresh n grp split hcq hqn hr
        · exact ⟨AInv_prefixCut n grp split ha, fun _ _ => trivial⟩
        · intro hs x hx
          simp only [List.mem_singleton] at hx
          subst hx
          simp only [closeRetry, cutStoresNothing]
          cases hgone with
          | inl h1 => exact (ha.goneRedir hs _ h1 (by decide)).1
          | inr h1 => exact (ha.goneRedir hs _ h1 (by decide)).1
      · exact nomatch h
  | done =>
    simp only [step] at h
    cases hatt : s.att with
    | none => rw [hatt] at h; exact nomatch h
    | some a =>
      rw [hatt] at h
      simp only at h
      split at h
      · rename_i hg
        obtain ⟨_, hack, _⟩ := hg
        simp only [Option.some.injEq, Prod.mk.injEq] at h
        obtain ⟨rfl, rfl⟩ := h
        have ha := hi a hatt
        have hstep := seg_step_ok n grp (st := a.posApplied) ha.hpq ha.hqn (AInv_appOK n grp split ha)
          (AInv_complete n grp split ha (AInv_acked_allDone n grp split ha hack))
        refine ⟨?_, ?_, ?_, ?_⟩
        · simp only [ClusterSegments.run, hstep]
        · intro a2 ha2; exact nomatch ha2
        · exact ⟨trivial, fun _ _ => trivial⟩
        · intro _ x hx
          simp only [List.mem_singleton] at hx
          subst hx
          trivial
      · exact nomatch h
  | restart =>
    simp only [step] at h
    cases hatt : s.att with
    | none =>
      rw [hatt] at h
      simp only [Option.some.injEq, Prod.mk.injEq] at h
      obtain ⟨rfl, rfl⟩ := h
      refine ⟨?_, ?_, ?_, ?_⟩
      · simp only [ClusterSegments.run, seg_step_start]
      · intro a2 ha2; exact nomatch ha2
      · exact ⟨trivial, fun _ _ => trivial⟩
      · intro _ x hx
        simp only [List.mem_singleton] at hx
        subst hx
        trivial
    | some a =>
      rw [hatt] at h
      simp only [Option.some.injEq, Prod.mk.injEq] at h
      obtain ⟨rfl, rfl⟩ := h
      obtain ⟨h1, h2, h3⟩ := closeRestart_step n grp split (hi a hatt)
      refine ⟨?_, ?_, ?_, ?_⟩
      · simp only [ClusterSegments.run, h1, seg_step_start]
      · intro a2 ha2; exact nomatch ha2
      · refine ⟨h2, fun s1 _ => ⟨trivial, fun _ _ => trivial⟩⟩
      · intro hs x hx
        simp only [List.mem_cons, List.not_mem_nil, or_false] at hx
        cases hx with
        | inl hx => subst hx; exact h3 hs
        | inr hx => subst hx; trivial
  | nodeExec i => exact stepInner_refines n grp split hi hq (by simpa only [step] using h)
  | nodeRedirect i => exact stepInner_refines n grp split hi hq (by simpa only [step] using h)
  | clientOk i => exact stepInner_refines n grp split hi hq (by simpa only [step] using h)
  | chaseExec i => exact stepInner_refines n grp split hi hq (by simpa only [step] using h)
  | fail c => exact stepInner_refines n grp split hi hq (by simpa only [step] using h)
  | ack => exact stepInner_refines n grp split hi hq (by simpa only [step] using h)
  | posSend => exact stepInner_refines n grp split hi hq (by simpa only [step] using h)
  | posExec => exact stepInner_refines n grp split hi hq (by simpa only [step] using h)
  | posRedirect => exact stepInner_refines n grp split hi hq (by simpa only [step] using h)
  | posChaseExec => exact stepInner_refines n grp split hi hq (by simpa only [step] using h)

theorem PrefixRun_append : ∀ (a b : List Ev) (t : Tgt), PrefixRun n grp t a →
    (∀ t1, ClusterSegments.run n grp t a = some t1 → PrefixRun n grp t1 b) →
    PrefixRun n grp t (a ++ b) := by
  intro a
  induction a with
  | nil => intro b t _ h; exact h t rfl
  | cons e es ih =>
    intro b t hp h
    obtain ⟨hp1, hp2⟩ := hp
    refine ⟨hp1, ?_⟩
    intro t1 ht1
    apply ih b t1 (hp2 t1 ht1)
    intro t2 ht2
    apply h t2
    simp only [ClusterSegments.run, ht1]
    exact ht2

theorem Disciplined_append {a b : List Ev} (ha : Disciplined a) (hb : Disciplined b) :
    Disciplined (a ++ b) := by
  intro e he
  rw [List.mem_append] at he
  cases he with
  | inl h => exact ha e h
  | inr h => exact hb e h

/-- EVERY RUN of the operational model, from any state satisfying the invariant, under the
    cluster hypothesis `QuietRun`: the emitted events are a run of the segment automaton ending
    in the model's own target / sender state, every cut is a prefix cut, and with the current
    sender (`split`) no cut stores a position -/
theorem run_refines : ∀ (xevs : List XEv) (s s' : XSt) (o : List Ev), XInv n grp split s →
    QuietRun n grp split s xevs → run n grp split s xevs = some (s', o) →
    ClusterSegments.run n grp s.base o = some s'.base ∧ XInv n grp split s' ∧
    PrefixRun n grp s.base o ∧ (split = true → Disciplined o) := by
  intro xevs
  induction xevs with
  | nil =>
    intro s s' o hi _ h
    simp only [run, Option.some.injEq, Prod.mk.injEq] at h
    obtain ⟨rfl, rfl⟩ := h
    exact ⟨rfl, hi, trivial, fun _ x hx => absurd hx List.not_mem_nil⟩
  | cons e es ih =>
    intro s s' o hi hq h
    obtain ⟨hq1, hq2⟩ := hq
    simp only [run] at h
    cases hs : step n grp split s e with
    | none => rw [hs] at h; exact nomatch h
    | some r1 =>
      obtain ⟨s1, o1⟩ := r1
      rw [hs] at h
      simp only at h
      cases hr : run n grp split s1 es with
      | none => rw [hr] at h; exact nomatch h
      | some r2 =>
        obtain ⟨s2, o2⟩ := r2
        rw [hr] at h
        simp only [Option.some.injEq, Prod.mk.injEq] at h
        obtain ⟨rfl, rfl⟩ := h
        obtain ⟨a1, a2, a3, a4⟩ := step_refines n grp split hi hq1 hs
        obtain ⟨b1, b2, b3, b4⟩ := ih s1 s2 o2 a2 (hq2 s1 o1 hs) hr
        refine ⟨?_, b2, ?_, fun hsp => Disciplined_append (a4 hsp) (b4 hsp)⟩
        · rw [run_append, a1]; exact b1
        · apply PrefixRun_append n grp o1 o2 s.base a3
          intro t1 ht1
          rw [a1] at ht1
          simp only [Option.some.injEq] at ht1
          subst ht1
          exact b3

/-- closing the open attempt now (the run ends at this moment) gives the automaton exactly the
    target's REAL log and stored position -/
theorem restart_real {s s' : XSt} {o : List Ev} (h : step n grp split s .restart = some (s', o)) :
    s'.base.log = s.tlog ∧ s'.base.stored = s.tstored := by
  simp only [step] at h
  cases hatt : s.att with
  | none =>
    rw [hatt] at h
    simp only [Option.some.injEq, Prod.mk.injEq] at h
    obtain ⟨rfl, rfl⟩ := h
    simp [XSt.tlog, XSt.tstored, hatt, after]
  | some a =>
    rw [hatt] at h
    simp only [Option.some.injEq, Prod.mk.injEq] at h
    obtain ⟨rfl, rfl⟩ := h
    unfold closeRestart
    split
    · rename_i hc
      simp [XSt.tlog, XSt.tstored, hatt, after, hc.1]
    · simp [XSt.tlog, XSt.tstored, hatt, after]

theorem restart_enabled (s : XSt) : ∃ s' o, step n grp split s .restart = some (s', o) := by
  simp only [step]
  cases s.att with
  | none => exact ⟨_, _, rfl⟩
  | some a => exact ⟨_, _, rfl⟩

/-- the run, ended at this moment: one automaton run whose final log / stored position are the
    target's real ones -/
theorem run_refines_real (xevs : List XEv) (s : XSt) (o : List Ev)
    (hq : QuietRun n grp split {} xevs) (h : run n grp split {} xevs = some (s, o)) :
    ∃ (o2 : List Ev) (t : Tgt), ClusterSegments.run n grp {} (o ++ o2) = some t ∧
      t.log = s.tlog ∧ t.stored = s.tstored ∧ PrefixRun n grp {} (o ++ o2) ∧
      (split = true → Disciplined (o ++ o2)) := by
  obtain ⟨a1, a2, a3, a4⟩ := run_refines n grp split xevs {} s o (XInv_init n grp split) hq h
  obtain ⟨s2, o2, hs2⟩ := restart_enabled n grp split s
  obtain ⟨b1, _, b3, b4⟩ := step_refines n grp split (e := .restart) a2 trivial hs2
  obtain ⟨c1, c2⟩ := restart_real n grp split hs2
  refine ⟨o2, s2.base, ?_, c1, c2, ?_, fun hsp => Disciplined_append (a4 hsp) (b4 hsp)⟩
  · rw [run_append]
    have : ({} : XSt).base = ({} : Tgt) := rfl
    rw [this] at a1
    rw [a1]; exact b1
  · apply PrefixRun_append n grp o o2 _ a3
    intro t1 ht1
    have : ({} : XSt).base = ({} : Tgt) := rfl
    rw [this] at a1
    rw [a1] at ht1
    simp only [Option.some.injEq] at ht1
    subst ht1
    exact b3

theorem quietRun_of_B : ∀ (xevs : List XEv) (s : XSt), quietRunB n grp split s xevs = true →
    QuietRun n grp split s xevs := by
  intro xevs
  induction xevs with
  | nil => intro s _; trivial
  | cons e es ih =>
    intro s h
    simp only [quietRunB, Bool.and_eq_true] at h
    obtain ⟨h1, h2⟩ := h
    refine ⟨?_, ?_⟩
    · cases e with
      | nodeExec i =>
        intro a ha j hj hlt hg
        simp only [quietOKB, ha, List.all_eq_true] at h1
        have := h1 j hj
        simp [hlt, hg] at this
      | _ => trivial
    · intro s1 o1 hs
      rw [hs] at h2
      exact ih s1 h2

end

end GunYu.ClusterExec
