/-
  C20 — the worker loop with its filter branch and DB mapping (`runWorkerF`, Model/RestoreWorker.lean)
  IS the plain loop `runWorker` over the stream `es.filterMap (wmap w)`:
    * an entry of a black-listed DB is not there at all;
    * an entry whose key is filtered is a keyless entry without commands in the mapped DB (it costs the SELECT);
    * every other entry is the entry rewritten by replaceHashTag, in the mapped DB.
  So every theorem about `runWorker` over an arbitrary stream speaks about the real loop.

  Core Lean only.
-/
import GunYu.Model.RestoreWorker
import GunYu.Proofs.RestoreRun

namespace GunYu.Restore
open GunYu

/-- the DB an entry is replayed in (`selectDB`; −1 stays −1) -/
def WCfg.mapDbI (w : WCfg) (d : Int) : Int := if d ≥ 0 then Int.ofNat (w.mapDb d.toNat) else d

/-- what the loop body makes of a source entry before `Replay` sees it -/
def wmap (w : WCfg) (e : Entry) : Option Entry :=
  if e.db ≥ 0 ∧ w.filterDb e.db.toNat = true then none
  else if w.filterKey e.key = true then some { e with db := w.mapDbI e.db, otype := .aux, cmds := [] }
  else some { retag w.rht e with db := w.mapDbI e.db }

theorem replay_db (pol : Policy) (cfg : Cfg) (st : RState) (v : View) (e : Entry) (d : Int) :
    replay pol cfg st v { e with db := d } = replay pol cfg st v e := rfl

theorem buildUnit_db (pol : Policy) (cfg : Cfg) (st : RState) (v : View) (e : Entry) (d : Int) :
    buildUnit pol cfg st v { e with db := d } = buildUnit pol cfg st v e := rfl

theorem viewOf_db (t : Target) (e : Entry) (d : Int) : viewOf t { e with db := d } = viewOf t e := rfl

/-- a key-filtered entry as `Replay` would see it: nothing is sent, nothing is remembered -/
theorem replay_ghost (pol : Policy) (cfg : Cfg) (st : RState) (v : View) (e : Entry) (d : Int) :
    replay pol cfg st v { e with db := d, otype := .aux, cmds := [] } = ([], .ok, st) := by
  simp [replay]

theorem buildUnit_ghost (pol : Policy) (cfg : Cfg) (st : RState) (v : View) (e : Entry) (d : Int) :
    buildUnit pol cfg st v { e with db := d, otype := .aux, cmds := [] } = ([], [], .skip, st) := by
  simp [buildUnit, expandB]

theorem applyReqs_nil (t : Target) : applyReqs t [] = t := rfl

theorem sel_mapDbI (w : WCfg) (e : Entry) (cur : Nat) :
    (if w.mapDbI e.db ≥ 0 ∧ (w.mapDbI e.db).toNat ≠ cur then [Req.select (w.mapDbI e.db).toNat] else [])
      = (if e.db ≥ 0 ∧ w.mapDb e.db.toNat ≠ cur then [Req.select (w.mapDb e.db.toNat)] else []) ∧
    (if w.mapDbI e.db ≥ 0 then (w.mapDbI e.db).toNat else cur) = (if e.db ≥ 0 then w.mapDb e.db.toNat else cur) := by
  unfold WCfg.mapDbI
  by_cases h : e.db ≥ 0
  · simp [h]
  · simp [h]

theorem runWorkerF_eq (w : WCfg) (b : Bool) (pol : Policy) (cfg : Cfg) :
    ∀ (es : List Entry) (cur : Nat) (st : RState) (t : Target),
      runWorkerF w b pol cfg cur st t es = runWorker b pol cfg cur st t (es.filterMap (wmap w))
  | [], cur, st, t => by simp [runWorkerF, runWorker]
  | e :: rest, cur, st, t => by
    have ih := runWorkerF_eq w b pol cfg rest
    obtain ⟨hs, hc⟩ := sel_mapDbI w e cur
    by_cases hfd : e.db ≥ 0 ∧ w.filterDb e.db.toNat = true
    · have hm : wmap w e = none := by simp [wmap, hfd]
      rw [List.filterMap_cons, hm]
      simp only [runWorkerF, stepF, hfd, and_self, if_true]
      exact ih cur st t
    · by_cases hfk : w.filterKey e.key = true
      · have hm : wmap w e = some { e with db := w.mapDbI e.db, otype := .aux, cmds := [] } := by simp [wmap, hfd, hfk]
        rw [List.filterMap_cons, hm]
        simp only [runWorkerF, stepF, hfd, if_false, hfk, if_true, List.append_nil]
        cases b
        · simp only [runWorker, Bool.false_eq_true, if_false, replay_ghost, hs, hc, List.append_nil, applyReqs_append]
          simp [ih, applyReqs_nil]
        · simp only [runWorker, if_true, buildUnit_ghost, hs, hc, List.append_nil, applyReqs_append, bOut,
            reduceCtorEq, if_false]
          simp [ih, applyReqs_nil]
      · have hm : wmap w e = some { retag w.rht e with db := w.mapDbI e.db } := by simp [wmap, hfd, hfk]
        rw [List.filterMap_cons, hm]
        simp only [runWorkerF, stepF, hfd, if_false, hfk]
        cases b
        · simp only [runWorker, Bool.false_eq_true, if_false, replay_db, viewOf_db, hs, hc]
          cases hr : replay pol cfg st (viewOf (applyReqs t (if e.db ≥ 0 ∧ w.mapDb e.db.toNat ≠ cur
              then [Req.select (w.mapDb e.db.toNat)] else [])) (retag w.rht e)) (retag w.rht e) with
          | mk rs p =>
            obtain ⟨out, st'⟩ := p
            cases out <;> simp [applyReqs_append, ih]
        · simp only [runWorker, if_true, buildUnit_db, viewOf_db, hs, hc]
          cases hr : buildUnit pol cfg st (viewOf (applyReqs t (if e.db ≥ 0 ∧ w.mapDb e.db.toNat ≠ cur
              then [Req.select (w.mapDb e.db.toNat)] else [])) (retag w.rht e)) (retag w.rht e) with
          | mk direct p =>
            obtain ⟨cmds, out, st'⟩ := p
            cases out <;> simp [applyReqs_append, ih, bOut]

end GunYu.Restore
