/-
  Helper lemmas for C13: the shape of what `propagate` emits.
-/
import GunYu.Model.BisyncSite
import GunYu.Proofs.BisyncFilter
import GunYu.Proofs.Decimal

namespace GunYu.Bisync
open GunYu GunYu.BisyncUnit

/-- every way one effect of executing `c` can look -/
inductive EffShape (cfg : RedisCfg) (c : Cmd) : Cmd → Prop where
  | same : EffShape cfg c c
  | del (k : Bytes) (hk : k ∈ c.args) : EffShape cfg c (delCmd cfg k)
  | setPxat (k v : Bytes) (opts : List Bytes) (t : Nat) (h : c.args = k :: v :: opts) :
      EffShape cfg c ⟨wSet, [k, v, wPxat, natToDec t]⟩
  | setPlain (k v : Bytes) (opts : List Bytes) (h : c.args = k :: v :: opts) :
      EffShape cfg c ⟨c.name, k :: v :: dropGet opts⟩
  | pexpireat (k : Bytes) (t : Nat) (hk : k ∈ c.args) : EffShape cfg c ⟨wPexpireat, [k, natToDec t]⟩
  | restoreAbs (k tt payload : Bytes) (opts : List Bytes) (t : Nat) (h : c.args = k :: tt :: payload :: opts) :
      EffShape cfg c ⟨c.name, k :: natToDec t :: payload :: opts ++ [wAbsttl]⟩

theorem lazyExpire_eff (cfg : RedisCfg) (now : Nat) (st : Store) (k : Bytes) :
    (lazyExpire cfg now st k).2 = [] ∨ (lazyExpire cfg now st k).2 = [delCmd cfg k] := by
  unfold lazyExpire
  cases st.get k with
  | none => left; rfl
  | some e =>
    simp only
    cases e.expireAt with
    | none => left; rfl
    | some t =>
      simp only
      by_cases h : t ≤ now
      · right; rw [if_pos h]
      · left; rw [if_neg h]

theorem lazyExpire_shape (cfg : RedisCfg) (now : Nat) (st : Store) (c : Cmd) (k : Bytes) (hk : k ∈ c.args) :
    ∀ e ∈ (lazyExpire cfg now st k).2, EffShape cfg c e := by
  intro e he
  rcases lazyExpire_eff cfg now st k with h | h
  · rw [h] at he; cases he
  · rw [h] at he
    rw [List.mem_singleton.mp he]
    exact .del k hk

theorem lazyExpireAll_shape (cfg : RedisCfg) (now : Nat) (c : Cmd) (ks : List Bytes) (st : Store)
    (hks : ∀ k ∈ ks, k ∈ c.args) : ∀ e ∈ (lazyExpireAll cfg now st ks).2, EffShape cfg c e := by
  induction ks generalizing st with
  | nil => intro e he; cases he
  | cons k ks ih =>
    intro e he
    simp only [lazyExpireAll] at he
    rcases List.mem_append.mp he with h | h
    · exact lazyExpire_shape cfg now st c k (hks k (by simp)) e h
    · exact ih _ (fun k' hk' => hks k' (List.mem_cons_of_mem _ hk')) e h

theorem remMembers_shape (cfg : RedisCfg) (st : Store) (kind : Kind) (c : Cmd) (k : Bytes) (ms : List Bytes)
    (pre : List Cmd) (hpre : ∀ e ∈ pre, EffShape cfg c e) :
    ∀ e ∈ (remMembers st kind c k ms pre).2, EffShape cfg c e := by
  unfold remMembers
  intro e he
  cases hg : st.get k with
  | none => rw [hg] at he; exact hpre e he
  | some en =>
    rw [hg] at he
    simp only at he
    split at he
    · exact hpre e he
    · split at he
      · exact hpre e he
      · split at he <;>
        · rcases List.mem_append.mp he with h | h
          · exact hpre e h
          · rw [List.mem_singleton.mp h]; exact .same

theorem commandKeys_mem (name : Bytes) (args : List Bytes) (ks : List Bytes)
    (h : commandKeys name args = some ks) : ∀ k ∈ ks, k ∈ args := by
  unfold commandKeys at h
  cases hk : Filter.keyIndexes name args with
  | none => rw [hk] at h; cases h
  | some idx =>
    rw [hk] at h
    simp only at h
    split at h
    · cases h
    · split at h
      · cases h
      · injection h with h
        intro k hkm
        rw [← h] at hkm
        obtain ⟨i, hi, rfl⟩ := List.mem_map.mp hkm
        have hlt := (Filter.keyIndexes_inRange hk).2 i hi
        rw [List.getD_eq_getElem?_getD, List.getElem?_eq_getElem hlt]
        exact List.getElem_mem hlt

theorem propagate_eq (cfg : RedisCfg) (now : Nat) (st : Store) (c : Cmd) :
    propagate cfg now st c =
      if lower c.name == wSet then propSet cfg now st c
      else if lower c.name == wDel || lower c.name == wUnlink then propDel cfg now st c
      else if lower c.name == wExpire || lower c.name == wPexpire || lower c.name == wExpireat ||
          lower c.name == wPexpireat then propExpire cfg now st (lower c.name) c
      else if lower c.name == wPersist then propPersist cfg now st c
      else if lower c.name == wHset || lower c.name == wHmset then propAdd cfg now st .hash fieldNames c
      else if lower c.name == wHdel then propRem cfg now st .hash c
      else if lower c.name == wSadd then propSadd cfg now st c
      else if lower c.name == wSrem then propRem cfg now st .set c
      else if lower c.name == wZadd then propAdd cfg now st .zset oddPos c
      else if lower c.name == wZrem then propRem cfg now st .zset c
      else if lower c.name == wRestore then propRestore cfg now st c
      else propOther cfg now st c := rfl

theorem ite_snd_forall {p : Prop} [Decidable p] (a b : Store × List Cmd) (P : Cmd → Prop)
    (ha : ∀ e ∈ a.2, P e) (hb : ∀ e ∈ b.2, P e) : ∀ e ∈ (if p then a else b).2, P e := by
  split <;> assumption

theorem propSet_shape (cfg : RedisCfg) (now : Nat) (st : Store) (c : Cmd) :
    ∀ e ∈ (propSet cfg now st c).2, EffShape cfg c e := by
  unfold propSet
  split
  · rename_i k v opts hargs
    simp only
    split
    · intro e he; cases he
    · have hk : k ∈ c.args := by rw [hargs]; simp
      have hpre := lazyExpire_shape cfg now st c k hk
      split
      · exact hpre
      · split
        · intro e he
          rcases List.mem_append.mp he with h | h
          · exact hpre e h
          · rw [List.mem_singleton.mp h]
            split
            · exact .setPxat k v opts _ hargs
            · exact .setPlain k v opts hargs
        · intro e he
          rcases List.mem_append.mp he with h | h
          · exact hpre e h
          · rw [List.mem_singleton.mp h]
            exact .setPlain k v opts hargs
  · intro e he; cases he

theorem propDel_shape (cfg : RedisCfg) (now : Nat) (st : Store) (c : Cmd) :
    ∀ e ∈ (propDel cfg now st c).2, EffShape cfg c e := by
  unfold propDel
  simp only
  have hpre := lazyExpireAll_shape cfg now c c.args st (fun k hk => hk)
  split
  · exact hpre
  · intro e he
    rcases List.mem_append.mp he with h | h
    · exact hpre e h
    · rw [List.mem_singleton.mp h]; exact .same

theorem propExpire_shape (cfg : RedisCfg) (now : Nat) (st : Store) (n : Bytes) (c : Cmd) :
    ∀ e ∈ (propExpire cfg now st n c).2, EffShape cfg c e := by
  unfold propExpire
  split
  · rename_i k t hargs
    have hk : k ∈ c.args := by rw [hargs]; simp
    have hpre := lazyExpire_shape cfg now st c k hk
    split
    · intro e he; cases he
    · simp only
      split
      · exact hpre
      · apply ite_snd_forall
        · intro e he
          rcases List.mem_append.mp he with h | h
          · exact hpre e h
          · rw [List.mem_singleton.mp h]; exact .del k hk
        · intro e he
          rcases List.mem_append.mp he with h | h
          · exact hpre e h
          · rw [List.mem_singleton.mp h]; exact .pexpireat k _ hk
  · intro e he
    rw [List.mem_singleton.mp he]; exact .same

theorem propPersist_shape (cfg : RedisCfg) (now : Nat) (st : Store) (c : Cmd) :
    ∀ e ∈ (propPersist cfg now st c).2, EffShape cfg c e := by
  unfold propPersist
  split
  · rename_i k hargs
    have hk : k ∈ c.args := by rw [hargs]; simp
    have hpre := lazyExpire_shape cfg now st c k hk
    simp only
    split
    · split
      · intro e he
        rcases List.mem_append.mp he with h | h
        · exact hpre e h
        · rw [List.mem_singleton.mp h]; exact .same
      · exact hpre
    · exact hpre
  · intro e he; cases he

theorem propAdd_shape (cfg : RedisCfg) (now : Nat) (st : Store) (kind : Kind)
    (members : List Bytes → List Bytes) (c : Cmd) :
    ∀ e ∈ (propAdd cfg now st kind members c).2, EffShape cfg c e := by
  unfold propAdd
  split
  · rename_i k rest hargs
    have hk : k ∈ c.args := by rw [hargs]; simp
    have hpre := lazyExpire_shape cfg now st c k hk
    simp only
    split
    · exact hpre
    · intro e he
      rcases List.mem_append.mp he with h | h
      · exact hpre e h
      · rw [List.mem_singleton.mp h]; exact .same
  · intro e he; cases he

theorem propRem_shape (cfg : RedisCfg) (now : Nat) (st : Store) (kind : Kind) (c : Cmd) :
    ∀ e ∈ (propRem cfg now st kind c).2, EffShape cfg c e := by
  unfold propRem
  split
  · rename_i k ms hargs
    have hk : k ∈ c.args := by rw [hargs]; simp
    exact remMembers_shape cfg _ kind c k ms _ (lazyExpire_shape cfg now st c k hk)
  · intro e he; cases he

theorem propSadd_shape (cfg : RedisCfg) (now : Nat) (st : Store) (c : Cmd) :
    ∀ e ∈ (propSadd cfg now st c).2, EffShape cfg c e := by
  unfold propSadd
  split
  · rename_i k ms hargs
    have hk : k ∈ c.args := by rw [hargs]; simp
    have hpre := lazyExpire_shape cfg now st c k hk
    simp only
    split
    · exact hpre
    · apply ite_snd_forall
      · intro e he
        rcases List.mem_append.mp he with h | h
        · exact hpre e h
        · rw [List.mem_singleton.mp h]; exact .same
      · exact hpre
  · intro e he; cases he

theorem propRestore_shape (cfg : RedisCfg) (now : Nat) (st : Store) (c : Cmd) :
    ∀ e ∈ (propRestore cfg now st c).2, EffShape cfg c e := by
  unfold propRestore
  split
  · rename_i k t payload opts hargs
    have hk : k ∈ c.args := by rw [hargs]; simp
    have hpre := lazyExpire_shape cfg now st c k hk
    split
    · intro e he; cases he
    · simp only
      split
      · exact hpre
      · intro e he
        rcases List.mem_append.mp he with h | h
        · exact hpre e h
        · rw [List.mem_singleton.mp h]
          split
          · exact .same
          · exact .restoreAbs k t payload opts _ hargs
  · intro e he; cases he

theorem propOther_shape (cfg : RedisCfg) (now : Nat) (st : Store) (c : Cmd) :
    ∀ e ∈ (propOther cfg now st c).2, EffShape cfg c e := by
  unfold propOther
  simp only
  intro e he
  rcases List.mem_append.mp he with h | h
  · refine lazyExpireAll_shape cfg now c _ st ?_ e h
    cases hck : commandKeys c.name c.args with
    | none => intro k hk; simp at hk
    | some ks =>
      intro k hk
      exact commandKeys_mem c.name c.args ks hck k (by simpa using hk)
  · rw [List.mem_singleton.mp h]; exact .same

/-- every command `propagate` emits has one of the shapes of `EffShape` -/
theorem propagate_shape (cfg : RedisCfg) (now : Nat) (st : Store) (c : Cmd) :
    ∀ e ∈ (propagate cfg now st c).2, EffShape cfg c e := by
  rw [propagate_eq]
  by_cases h1 : (lower c.name == wSet) = true
  · rw [if_pos h1]; exact propSet_shape cfg now st c
  rw [if_neg h1]
  by_cases h2 : (lower c.name == wDel || lower c.name == wUnlink) = true
  · rw [if_pos h2]; exact propDel_shape cfg now st c
  rw [if_neg h2]
  by_cases h3 : (lower c.name == wExpire || lower c.name == wPexpire || lower c.name == wExpireat ||
      lower c.name == wPexpireat) = true
  · rw [if_pos h3]; exact propExpire_shape cfg now st _ c
  rw [if_neg h3]
  by_cases h4 : (lower c.name == wPersist) = true
  · rw [if_pos h4]; exact propPersist_shape cfg now st c
  rw [if_neg h4]
  by_cases h5 : (lower c.name == wHset || lower c.name == wHmset) = true
  · rw [if_pos h5]; exact propAdd_shape cfg now st _ _ c
  rw [if_neg h5]
  by_cases h6 : (lower c.name == wHdel) = true
  · rw [if_pos h6]; exact propRem_shape cfg now st _ c
  rw [if_neg h6]
  by_cases h7 : (lower c.name == wSadd) = true
  · rw [if_pos h7]; exact propSadd_shape cfg now st c
  rw [if_neg h7]
  by_cases h8 : (lower c.name == wSrem) = true
  · rw [if_pos h8]; exact propRem_shape cfg now st _ c
  rw [if_neg h8]
  by_cases h9 : (lower c.name == wZadd) = true
  · rw [if_pos h9]; exact propAdd_shape cfg now st _ _ c
  rw [if_neg h9]
  by_cases h10 : (lower c.name == wZrem) = true
  · rw [if_pos h10]; exact propRem_shape cfg now st _ c
  rw [if_neg h10]
  by_cases h11 : (lower c.name == wRestore) = true
  · rw [if_pos h11]; exact propRestore_shape cfg now st c
  rw [if_neg h11]
  exact propOther_shape cfg now st c

theorem execCmds_shape (cfg : RedisCfg) (now : Nat) (cs : List Cmd) (st : Store) :
    ∀ e ∈ (execCmds cfg now st cs).2, ∃ c ∈ cs, EffShape cfg c e := by
  induction cs generalizing st with
  | nil => intro e he; cases he
  | cons c cs ih =>
    intro e he
    simp only [execCmds] at he
    rcases List.mem_append.mp he with h | h
    · exact ⟨c, by simp, propagate_shape cfg now st c e h⟩
    · obtain ⟨c', hc', hs⟩ := ih _ e h
      exact ⟨c', List.mem_cons_of_mem _ hc', hs⟩

end GunYu.Bisync
