/-
  C08, extended operation set: whole scripts with faults, from ANY state that
  satisfies the invariants (an empty store, or a store re-opened on whatever a
  crash left — Proofs/StoreFsXResume.lean).
-/
import GunYu.Proofs.StoreFsXFault

namespace GunYu.StoreFsX
open GunYu GunYu.Store GunYu.StoreFs

/-- a snapshot `(L, S)` with content `c` was completely received at some point of
    the script, the ghost starting at `g0` -/
def RecvFrom (g0 : RecvG) (ops0 : List DOp) (L S : Nat) (c : Bytes) : Prop :=
  0 < S ∧ c.length = S ∧ ∃ j, j ≤ ops0.length ∧ (recvFrom g0 (ops0.take j)).cur = some ⟨L, S, c, false⟩

theorem recvFrom_snoc (g0 : RecvG) (pre : List DOp) (o : DOp) :
    recvFrom g0 (pre ++ [o]) = recvStep (recvFrom g0 pre) o := by
  unfold recvFrom; rw [List.foldl_append]; rfl

theorem recvFrom_init (ops : List DOp) : recvFrom ⟨"", none⟩ ops = recvRun ops := rfl

/-! ### the ghost follows every step -/

theorem gcZ_runId (s : Disk) (z : List Nat) : (gcZ s z).runId = s.runId := by
  obtain ⟨pre, segs', rdb', he, _⟩ := gcZ_cases s z
  rw [he]

theorem ginv_gcZ {s : Disk} {g : RecvG} (h : GInv s g) (z : List Nat) : GInv (gcZ s z) g := by
  obtain ⟨pre, segs', rdb', he, _, _, hrdb, _⟩ := gcZ_cases s z
  rw [he]
  rcases hrdb with h1 | ⟨h1, h2⟩
  · exact ⟨h.rid, (by rw [h1]; exact h.held), (by rw [h1]; exact h.gone)⟩
  · subst h1
    refine ⟨h.rid, (by intro r hr; cases hr), ?_⟩
    intro _ x hx
    cases hr : s.rdb with
    | none => exact h.gone hr x hx
    | some r =>
      have hz := h2 r hr
      obtain ⟨hc, _⟩ := h.held r hr
      rw [hc] at hx; cases hx
      show r.writing = false
      unfold rdbRef at hz
      by_cases hw : r.writing = true
      · simp [hw] at hz
      · simpa using hw

theorem step_aofAppend_frame (s : Disk) (chunk : Bytes) :
    (s.step (.aofAppend chunk)).1.rdb = s.rdb ∧ (s.step (.aofAppend chunk)).1.runId = s.runId := by
  cases hlv : s.live with
  | none => simp [Disk.step, Disk.appendLive, hlv]
  | some g =>
    simp only [Disk.step, Disk.appendLive, hlv]
    split <;> simp

theorem ginv_closeLive {s : Disk} {g : RecvG} (h : GInv s g) : GInv s.closeLive g :=
  h.frame (closeLive_rdb s) (closeLive_runId s)

theorem ginv_xbase (s : XDisk) (g : RecvG) (o : DOp) (h : GInv s.d g) (hok : s.d.okOp o) :
    GInv (xbase s o).1.d (recvStep g o) := by
  show GInv (baseDisk s o) (recvStep g o)
  by_cases h2 : o = .gc
  · subst h2
    simp only [baseDisk, recvStep]
    exact ginv_gcZ h _
  · have : baseDisk s o = (s.d.step o).1 := by
      cases o <;> first | rfl | exact absurd rfl h2
    rw [this]
    exact ginv_step s.d g o h hok

theorem ginv_xstep (s : XDisk) (g : RecvG) (x : XOp) (h : GInv s.d g) (hok : okX s x) :
    GInv (xstep s x).1.d (recvStep g (recvOp x)) := by
  have hclose : GInv (xbase s .aofClose).1.d g := ginv_xbase s g .aofClose h trivial
  have happ : ∀ chunk, chunk ≠ [] → GInv (xbase s (.aofAppend chunk)).1.d g :=
    fun chunk hc => ginv_xbase s g (.aofAppend chunk) h hc
  have hrot : ∀ chunk, GInv (s.d.step (.aofAppend chunk)).1.closeLive g := fun chunk =>
    ginv_closeLive (h.frame (step_aofAppend_frame s.d chunk).1 (step_aofAppend_frame s.d chunk).2)
  cases x with
  | op o => exact ginv_xbase s g o h hok
  | aofCloseHdrFail k =>
    simp only [xstep, recvOp, recvStep]
    cases hl : s.d.live with
    | none => exact hclose
    | some g' =>
      simp only []
      split
      · exact hclose
      · exact ginv_closeLive h
  | aofAppendHdrFail chunk k =>
    simp only [xstep, recvOp, recvStep]
    cases hl : s.d.live with
    | none => exact happ chunk hok.1
    | some g' =>
      simp only []
      split
      · exact hrot chunk
      · exact happ chunk hok.1
  | aofAppendOpenFail chunk =>
    simp only [xstep, recvOp, recvStep]
    cases hl : s.d.live with
    | none => exact happ chunk hok
    | some g' =>
      simp only []
      split
      · exact hrot chunk
      · exact happ chunk hok
  | aofAppendShort chunk k =>
    have hcne : chunk ≠ [] := by
      intro e; rw [e] at hok; simp [okX] at hok
    simp only [xstep, recvOp, recvStep]
    cases hl : s.d.live with
    | none => exact happ chunk hcne
    | some g' =>
      simp only []
      exact ginv_xbase ⟨_, _, _⟩ g .aofClose (h.frame rfl rfl) trivial
  | aofCloseRmFail =>
    simp only [xstep, recvOp, recvStep]
    cases hl : s.d.live with
    | none => exact hclose
    | some g' =>
      simp only []
      split
      · exact ginv_closeLive h
      · exact hclose
  | rdbCloseRmFail =>
    have hb : GInv (xbase s .rdbClose).1.d (recvStep g .rdbClose) := ginv_xbase s g .rdbClose h trivial
    simp only [xstep, recvOp]
    cases hr : s.d.rdb with
    | none => exact hb
    | some r =>
      simp only []
      split
      · exact ginv_step s.d g .rdbClose h trivial
      · exact hb
  | rdbCommitFail chunk ren rmOk =>
    have hb : GInv (xbase s (.rdbAppend chunk)).1.d (recvStep g (.rdbAppend chunk)) :=
      ginv_xbase s g (.rdbAppend chunk) h hok
    simp only [xstep, recvOp]
    cases hr : s.d.rdb with
    | none => exact hb
    | some r =>
      simp only []
      split
      · rename_i hc
        simp only [Bool.and_eq_true, decide_eq_true_eq] at hc
        obtain ⟨hw, hlen⟩ := hc
        have hcur := (h.held r hr).1
        refine ⟨?_, ?_, ?_⟩
        · rw [(show (s.d.step .rdbClose).1.runId = s.d.runId by simp only [Disk.step, hr, hw, if_true])]
          simp only [recvStep, hcur, hw, if_true]
          exact h.rid
        · intro r' hr'
          simp only [Disk.step, hr, hw, if_true] at hr'
          cases hr'
        · intro _ x hx
          simp only [recvStep, hcur, hw, if_true] at hx
          cases hx
          simp [hlen]
      · exact hb
  | gcRmFail stuck all =>
    simp only [xstep, recvOp, recvStep]
    exact ginv_gcZ h _

/-! ### whole scripts -/

theorem xScriptOps_cons (s : XDisk) (x : XOp) (rest : List XOp) :
    xScriptOps s (x :: rest) = okOps (xstep s x).2 ++ xScriptOps (xstep s x).1 rest := by
  unfold xScriptOps
  simp only [xrun, okOps_append]

/-- **every operation of a script with faults that takes effect is truthful and safe
    where it is applied** -/
theorem xrun_ok {src : Nat → UInt8} {P : Nat → Nat → Bytes → Prop} (g0 : RecvG) (xs0 : List XOp)
    (hP0 : ∀ L S c, RecvFrom g0 (xs0.map recvOp) L S c → P L S c) :
    ∀ (rest pre : List XOp) (s : XDisk), xs0 = pre ++ rest → wfX s rest → SrcOkX src s rest → XInv src s →
      GInv s.d (recvFrom g0 (pre.map recvOp)) →
      Pos (OpTrueX src) s.fs (xScriptOps s rest) ∧ Pos (RdbSafeP P) s.fs (xScriptOps s rest) := by
  intro rest
  induction rest with
  | nil => intro pre s _ _ _ _ _; exact ⟨Pos.nil, Pos.nil⟩
  | cons x rest ih =>
    intro pre s hxs hwf hsrc hinv hg
    have hstep := xstep_ok (src := src) (P := P) s x hinv hwf.1 hsrc.1 (by
      intro r chunk hx hrdb hw hc
      subst hx
      obtain ⟨hcur, hpos⟩ := hg.held r hrdb
      apply hP0
      refine ⟨hpos, by simp [hc], pre.length + 1, by rw [hxs]; simp, ?_⟩
      have htake : (xs0.map recvOp).take (pre.length + 1) = pre.map recvOp ++ [DOp.rdbAppend chunk] := by
        rw [hxs]
        have e : (pre ++ XOp.op (DOp.rdbAppend chunk) :: rest).map recvOp =
            (pre.map recvOp ++ [DOp.rdbAppend chunk]) ++ rest.map recvOp := by simp [recvOp]
        rw [e, List.take_left' (by simp)]
      rw [htake, recvFrom_snoc]
      simp only [recvStep, hcur, hw, if_true]
      have : (r.data ++ chunk).length = r.size := by simp [hc]
      simp [this])
    have hnext := ih (pre ++ [x]) (xstep s x).1 (by rw [hxs]; simp) hwf.2 hsrc.2 hstep.inv (by
      rw [List.map_append, List.map_singleton, recvFrom_snoc]
      exact ginv_xstep s _ x hg hwf.1)
    rw [xScriptOps_cons]
    rw [hstep.fsEq] at hnext
    exact ⟨Pos.append hstep.true hnext.1, Pos.append hstep.safe hnext.2⟩

/-! ### from the empty store -/

theorem xinv_init (src : Nat → UInt8) (l m : Nat) : XInv src (XDisk.init l m) :=
  ⟨DInv.init l m, histTrue_init src l m, filesOk_init l m [], tmpRel_init l m⟩

theorem xcrash_true (src : Nat → UInt8) (l m : Nat) (xs : List XOp) (hwf : wfX (XDisk.init l m) xs)
    (hsrc : SrcOkX src (XDisk.init l m) xs) (n k : Nat) :
    FsTrue src (crashImageX [] (xScriptOps (XDisk.init l m) xs) n k) := by
  have := (xrun_ok (src := src) (P := fun _ _ _ => True) ⟨"", none⟩ xs (fun _ _ _ _ => trivial) xs [] _ rfl hwf hsrc
    (xinv_init src l m) (GInv.init l m)).1
  exact crashImageX_true (fsTrue_nil src) _ this n k

/-! ### the executable checks are sound -/

theorem chunkOkFrom_sound (src : Nat → UInt8) : ∀ (c : Bytes) (o : Nat), chunkOkFrom src o c = true →
    ∀ i b, c[i]? = some b → b = src (o + i) := by
  intro c
  induction c with
  | nil => intro o _ i b hb; simp at hb
  | cons x t ih =>
    intro o h i b hb
    simp only [chunkOkFrom, Bool.and_eq_true, beq_iff_eq] at h
    cases i with
    | zero => simp at hb; rw [← hb, h.1]; rfl
    | succ j =>
      simp at hb
      have := ih (o + 1) h.2 j b hb
      rw [this]; congr 1; omega

theorem srcOkXB_sound (src : Nat → UInt8) : ∀ (xs : List XOp) (s : XDisk), srcOkXB src s xs = true → SrcOkX src s xs := by
  intro xs
  induction xs with
  | nil => intro s _; trivial
  | cons x rest ih =>
    intro s h
    simp only [srcOkXB, Bool.and_eq_true] at h
    refine ⟨?_, ih _ h.2⟩
    have h1 := h.1
    cases x with
    | op o =>
      cases o <;> try trivial
      rename_i c
      exact chunkOkFrom_sound src c _ h1
    | aofAppendHdrFail c k => exact chunkOkFrom_sound src c _ h1
    | aofAppendOpenFail c => exact chunkOkFrom_sound src c _ h1
    | aofAppendShort c k => exact chunkOkFrom_sound src c _ h1
    | aofCloseHdrFail k => trivial
    | aofCloseRmFail => trivial
    | rdbCloseRmFail => trivial
    | gcRmFail st al => trivial
    | rdbCommitFail c ren rm => trivial

theorem wfXB_sound (s : XDisk) (xs : List XOp) (h : wfXB s xs = true) : wfX s xs := by
  simpa [wfXB] using h

end GunYu.StoreFsX
