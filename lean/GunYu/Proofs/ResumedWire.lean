/-
  Sender-side facts for Props.C02.crash_resume_db_resumed: where the commands and
  the position writes on the wire of a run come from.
   * `run_cut`: the loop stops at `done`, so a schedule is its part up to there;
   * `run_cp_origin`: every position the loop writes is the offset of an item it
     consumed (or the one it started with, if that was not the `-1` placeholder);
   * `fwdO_cut_items`, `fwdItemsO_above`: the forwarded stream (offsets included)
     is a function of the items, and lies above the start for the parser's items;
   * `dataBO_bodies`, `cpOffsetsB_bodies`: stripping MULTI/EXEC keeps both.
-/
import GunYu.Proofs.SenderDataO
import GunYu.Proofs.SenderRun
import GunYu.Proofs.Crash
import GunYu.Proofs.Parser

namespace GunYu.Sender
open GunYu GunYu.Target

/-- the schedule up to (and including) the first `done` -/
def cut : List Ev → List Ev
  | [] => []
  | ev :: rest => if ev = .done then [ev] else ev :: cut rest

theorem run_cut (c : SCfg) (s : SState) (evs : List Ev) : run c s evs = run c s (cut evs) := by
  induction evs generalizing s with
  | nil => rfl
  | cons ev rest ih =>
    by_cases hd : ev = .done
    · simp [cut, hd, run]
    · simp only [cut, hd, ↓reduceIte, run]
      rw [ih]

theorem itemsOf_cut_prefix (evs : List Ev) : itemsOf (cut evs) <+: itemsOf evs := by
  induction evs with
  | nil => exact List.prefix_refl _
  | cons ev rest ih =>
    cases ev with
    | item it => simp only [cut, itemsOf]; simpa [itemsOf] using ih
    | batchTick => simpa [cut, itemsOf] using ih
    | keepaliveTick => simpa [cut, itemsOf] using ih
    | cpTick => simpa [cut, itemsOf] using ih
    | done => simp [cut, itemsOf]

theorem itemsMono_prefix {t : Txn} {last : Int} {l l' : List Item} (h : ItemsMono t last l)
    (hp : l' <+: l) : ItemsMono t last l' := by
  induction l' generalizing t last l with
  | nil => trivial
  | cons i l' ih =>
    cases l with
    | nil => exact absurd hp (by simp)
    | cons j l =>
      obtain ⟨rfl, hp'⟩ := List.cons_prefix_cons.mp hp
      exact ⟨h.1, h.2.1, ih h.2.2 hp'⟩

theorem itemsMono_ge {t : Txn} {last : Int} {l : List Item} (h : ItemsMono t last l) :
    ∀ i ∈ l, last ≤ i.offset := by
  induction l generalizing t last with
  | nil => intro i hi; cases hi
  | cons j l ih =>
    intro i hi
    rcases List.mem_cons.mp hi with rfl | hi'
    · exact h.1
    · have := ih h.2.2 i hi'
      have := h.1
      omega

/-- the forwarded stream of a list of items, offsets included -/
def fwdItemsO (t : Txn) : List Item → List CmdO
  | [] => []
  | it :: rest => (fwd1O t (.item it)).1 ++ fwdItemsO (fwd1O t (.item it)).2 rest

theorem fwdO_cut_items (t : Txn) (evs : List Ev) : fwdO t (cut evs) = fwdItemsO t (itemsOf (cut evs)) := by
  induction evs generalizing t with
  | nil => rfl
  | cons ev rest ih =>
    cases ev with
    | item it =>
      have hc : cut (Ev.item it :: rest) = Ev.item it :: cut rest := by simp [cut]
      rw [hc, fwdO, itemsOf, fwdItemsO, ih]; simp
    | batchTick =>
      have hc : cut (Ev.batchTick :: rest) = Ev.batchTick :: cut rest := by simp [cut]
      rw [hc, fwdO, itemsOf, ih]
      · simp [fwd1O]
      · intro it h; cases h
    | keepaliveTick =>
      have hc : cut (Ev.keepaliveTick :: rest) = Ev.keepaliveTick :: cut rest := by simp [cut]
      rw [hc, fwdO, itemsOf, ih]
      · simp [fwd1O]
      · intro it h; cases h
    | cpTick =>
      have hc : cut (Ev.cpTick :: rest) = Ev.cpTick :: cut rest := by simp [cut]
      rw [hc, fwdO, itemsOf, ih]
      · simp [fwd1O]
      · intro it h; cases h
    | done => simp [cut, fwdO, itemsOf, fwdItemsO, fwd1O]

theorem fwd1O_txn (t : Txn) (it : Item) : (fwd1O t (.item it)).2 = txnAfter t it := by
  simp only [fwd1O, txnAfter]; split <;> rfl

/-- every forwarded command of items that are `ItemsMono` above `last` ends above `last` -/
theorem fwdItemsO_above (t : Txn) (last : Int) (items : List Item) (h : ItemsMono t last items) :
    ∀ x ∈ fwdItemsO t items, last < x.2.2 := by
  induction items generalizing t last with
  | nil => intro x hx; cases hx
  | cons it rest ih =>
    intro x hx
    simp only [fwdItemsO] at hx
    rcases List.mem_append.mp hx with h1 | h2
    · simp only [fwd1O] at h1
      split at h1
      · cases h1
      · rename_i hp
        split at h1
        · rename_i hf
          simp only [List.mem_singleton] at h1
          subst h1
          exact h.2.1 hp hf
        · cases h1
    · rw [fwd1O_txn] at h2
      have := ih _ _ h.2.2 x h2
      have := h.1
      omega

/-- where a stored position comes from -/
theorem run_cp_origin (c : SCfg) (s : SState) (evs : List Ev) :
    ∀ o ∈ cpOffsets (run c s evs).2,
      (o = s.lastOffset ∧ 0 ≤ o) ∨ ∃ i ∈ itemsOf evs, o = i.offset := by
  induction evs generalizing s with
  | nil => intro o ho; simp [run] at ho
  | cons ev rest ih =>
    intro o ho
    obtain ⟨hl, l1, l2, hsplit, h1, h2⟩ := step_cp c s ev
    have hnew : ∀ o', o' = newLast s ev → 0 ≤ o' →
        (o' = s.lastOffset ∧ 0 ≤ o') ∨ ∃ i ∈ itemsOf (ev :: rest), o' = i.offset := by
      intro o' ho' hpos
      cases ev with
      | item it => exact Or.inr ⟨it, by simp [itemsOf], by simpa [newLast] using ho'⟩
      | batchTick => exact Or.inl ⟨by simpa [newLast] using ho', hpos⟩
      | keepaliveTick => exact Or.inl ⟨by simpa [newLast] using ho', hpos⟩
      | cpTick => exact Or.inl ⟨by simpa [newLast] using ho', hpos⟩
      | done => exact Or.inl ⟨by simpa [newLast] using ho', hpos⟩
    have hstep : ∀ o' ∈ cpOffsets (step c s ev).2,
        (o' = s.lastOffset ∧ 0 ≤ o') ∨ ∃ i ∈ itemsOf (ev :: rest), o' = i.offset := by
      intro o' ho'
      rw [hsplit] at ho'
      rcases List.mem_append.mp ho' with hm | hm
      · rcases h1 with h | ⟨h, hp⟩ | ⟨h, hp⟩
        · rw [h] at hm; cases hm
        · rw [h] at hm; simp only [List.mem_singleton] at hm; exact Or.inl ⟨hm, hm ▸ hp⟩
        · rw [h] at hm; simp only [List.mem_singleton] at hm; exact hnew o' hm (hm ▸ hp)
      · rcases h2 with h | ⟨h, hp⟩
        · rw [h] at hm; cases hm
        · rw [h] at hm; simp only [List.mem_singleton] at hm; exact hnew o' hm (hm ▸ hp)
    simp only [run] at ho
    split at ho
    · exact hstep o ho
    · rw [cpOffsets_append] at ho
      rcases List.mem_append.mp ho with hm | hm
      · exact hstep o hm
      · rcases ih (step c s ev).1 o hm with ⟨he, hp⟩ | ⟨i, hi, he⟩
        · rw [hl] at he; exact hnew o he hp
        · right
          refine ⟨i, ?_, he⟩
          cases ev <;> simp [itemsOf, hi]

theorem dataBO_stripB (b : Batch) (h : WFBatch b) : dataBO (stripB b) = dataBO b := by
  obtain ⟨body, _, hs, hsh⟩ := stripB_wf b h
  rw [hs]
  rcases hsh with e | e
  · rw [e]
  · rw [e]; simp [dataBO, cmdOfReqO, List.filterMap_append, List.filterMap]

theorem dataBO_bodies (out : List Batch) (hwf : AllWF out) : dataBO (bodies out) = dataOutO out := by
  induction out with
  | nil => rfl
  | cons b rest ih =>
    simp only [bodies, List.flatMap_cons, dataOutO, dataBO_append] at ih ⊢
    rw [dataBO_stripB b (hwf b (List.mem_cons_self ..)),
      ih (fun x hx => hwf x (List.mem_cons_of_mem _ hx))]

theorem cpOffsetsB_stripB (b : Batch) (h : WFBatch b) : cpOffsetsB (stripB b) = cpOffsetsB b := by
  obtain ⟨body, _, hs, hsh⟩ := stripB_wf b h
  rw [hs]
  rcases hsh with e | e
  · rw [e]
  · rw [e]; simp [cpOffsetsB, cpOfReq, List.filterMap_append, List.filterMap]

theorem cpOffsetsB_bodies (out : List Batch) (hwf : AllWF out) :
    cpOffsetsB (bodies out) = cpOffsets out := by
  induction out with
  | nil => rfl
  | cons b rest ih =>
    simp only [bodies, List.flatMap_cons, cpOffsets, cpOffsetsB_append] at ih ⊢
    rw [cpOffsetsB_stripB b (hwf b (List.mem_cons_self ..)),
      ih (fun x hx => hwf x (List.mem_cons_of_mem _ hx))]

/-- a queued command with a given offset is a queued item with that offset -/
theorem qdO_mem_offset {s : SState} {x : CmdO} (h : x ∈ qdO s) : ∃ i ∈ s.queue, i.offset = x.2.2 := by
  unfold qdO at h
  obtain ⟨i, hi, hx⟩ := List.mem_filterMap.mp h
  refine ⟨i, hi, ?_⟩
  simp only [itemCmdO] at hx
  split at hx
  · cases hx
  · injection hx with hx; rw [← hx]

end GunYu.Sender
