/-
  C08, extended operation set: one step of the writers WITH FAULTS keeps the
  invariants, and every operation that took effect is truthful / safe where it is
  applied (`StepOk`).
-/
import GunYu.Proofs.StoreFsX

namespace GunYu.StoreFsX
open GunYu GunYu.Store GunYu.StoreFs

/-- index, history ghost, files of the index, temporary snapshot: what every step keeps -/
structure XInv (src : Nat → UInt8) (s : XDisk) : Prop where
  dinv : DInv s.d
  hist : HistTrue src s.d
  files : FilesOk s.d s.fs
  tmp : TmpRel s.d s.fs

def ChunkOkX (src : Nat → UInt8) (s : XDisk) : XOp → Prop
  | .op o => ChunkOk src s.d o
  | .aofAppendHdrFail c _ => ChunkOk src s.d (.aofAppend c)
  | .aofAppendOpenFail c => ChunkOk src s.d (.aofAppend c)
  | .aofAppendShort c _ => ChunkOk src s.d (.aofAppend c)
  | _ => True

def SrcOkX (src : Nat → UInt8) (s : XDisk) : List XOp → Prop
  | [] => True
  | x :: rest => ChunkOkX src s x ∧ SrcOkX src (xstep s x).1 rest

structure StepOk (src : Nat → UInt8) (P : Nat → Nat → Bytes → Prop) (s : XDisk) (r : XDisk × List Att) : Prop where
  fsEq : r.1.fs = s.fs.applyAll (okOps r.2)
  true : Pos (OpTrueX src) s.fs (okOps r.2)
  safe : Pos (RdbSafeP P) s.fs (okOps r.2)
  inv : XInv src r.1

theorem StepOk.mk' {src : Nat → UInt8} {P : Nat → Nat → Bytes → Prop} {s : XDisk} {d' : Disk} {fs' : FS}
    {z' : List Nat} {atts : List Att} (hfs : fs' = s.fs.applyAll (okOps atts))
    (ht : Pos (OpTrueX src) s.fs (okOps atts)) (hs : Pos (RdbSafeP P) s.fs (okOps atts))
    (hi : XInv src ⟨d', fs', z'⟩) : StepOk src P s (⟨d', fs', z'⟩, atts) := ⟨hfs, ht, hs, hi⟩

/-! ### the collector with pinned segments -/

theorem dropUnrefZ_suffix (z : List Nat) (rs : List DReader) (k : Nat) (segs : List DSeg) :
    ∃ pre, segs = pre ++ dropUnrefZ z rs k segs ∧ ∀ g ∈ pre, readerRefs rs g.left = 0 := by
  induction segs generalizing k with
  | nil => exact ⟨[], by cases k <;> simp [dropUnrefZ], by simp⟩
  | cons a t ih =>
    cases k with
    | zero => exact ⟨[], by simp [dropUnrefZ], by simp⟩
    | succ k =>
      simp only [dropUnrefZ]
      by_cases href : (decide (readerRefs rs a.left > 0) || z.contains a.left) = true
      · simp only [href, if_true]; exact ⟨[], by simp, by simp⟩
      · simp only [href]
        obtain ⟨pre, hp, hz⟩ := ih k
        refine ⟨a :: pre, by simp; exact hp, ?_⟩
        intro g hg
        rcases List.mem_cons.mp hg with h | h
        · subst h
          simp only [Bool.or_eq_true, decide_eq_true_eq, not_or] at href
          omega
        · exact hz g h

/-- what one collector pass does to the index: nothing, or an unreferenced prefix
    of the closed segments is dropped, possibly with the (unreferenced) snapshot -/
theorem gcZ_cases (s : Disk) (z : List Nat) :
    ∃ pre segs' rdb', gcZ s z = { s with segs := segs', rdb := rdb' } ∧ s.segs = pre ++ segs' ∧
      (∀ g ∈ pre, readerRefs s.readers g.left = 0) ∧
      (rdb' = s.rdb ∨ (rdb' = none ∧ ∀ r, s.rdb = some r → rdbRef s.readers r = 0)) ∧
      (rdb' = none ∨ pre = []) := by
  unfold gcZ
  by_cases hm : s.maxSize = 0
  · rw [if_pos hm]
    exact ⟨[], s.segs, s.rdb, rfl, by simp, by simp, Or.inl rfl, Or.inr rfl⟩
  · rw [if_neg hm]
    generalize hk : gcScanRev s.maxSize s.all.reverse 0 = ks
    obtain ⟨k, size⟩ := ks
    simp only []
    obtain ⟨pre, hp, hz⟩ := dropUnrefZ_suffix z s.readers k s.segs
    cases hr : s.rdb with
    | none =>
      simp only []
      exact ⟨pre, _, none, rfl, hp, hz, Or.inl rfl, Or.inl rfl⟩
    | some r =>
      simp only []
      by_cases hbig : size + r.size > s.maxSize
      · simp only [hbig, if_true]
        by_cases href : rdbRef s.readers r = 0
        · simp only [href, if_true]
          exact ⟨pre, _, none, rfl, hp, hz, Or.inr ⟨rfl, fun r' hr' => by cases hr'; exact href⟩, Or.inl rfl⟩
        · simp only [href, if_false]
          exact ⟨[], s.segs, some r, by rw [← hr], by simp, by simp, Or.inl rfl, Or.inr rfl⟩
      · simp only [hbig, if_false]
        have hk0 : k = 0 := by
          have := gcScanRev_pos s.maxSize s.all.reverse 0
          rw [hk] at this
          simp only [] at this
          by_cases hkz : k = 0
          · exact hkz
          · have := this (by omega); omega
        subst hk0
        have hd : dropUnrefZ z s.readers 0 s.segs = s.segs := by
          cases s.segs <;> rfl
        rw [hd]
        exact ⟨[], s.segs, some r, by rw [← hr], by simp, by simp, Or.inl rfl, Or.inr rfl⟩

theorem dinv_gcZ {s : Disk} (h : DInv s) (z : List Nat) : DInv (gcZ s z) := by
  obtain ⟨pre, segs', rdb', he, hp, hz, hrdb, hal⟩ := gcZ_cases s z
  rw [he]
  refine h.dropPrefix pre segs' rdb' hp hz ?_ hal
  rcases hrdb with h1 | ⟨h1, h2⟩
  · exact Or.inl h1
  · refine Or.inr ⟨h1, fun r hr => ?_⟩
    have := h2 r hr
    unfold rdbRef at this
    omega

/-! ### files of the index -/

theorem closeLive_all_subset (s : Disk) : ∀ x ∈ s.closeLive.all, x ∈ s.all := by
  intro x hx
  unfold Disk.closeLive at hx
  cases hl : s.live with
  | none => rw [hl] at hx; simpa [hl] using hx
  | some g =>
    rw [hl] at hx
    simp only [] at hx
    split at hx
    · simp only [Disk.all, Option.toList_none, List.append_nil] at hx
      simp [Disk.all, hl, hx]
    · simpa [Disk.all, hl] using hx

theorem FilesOk.sub {s s' : Disk} {fs : FS} (hf : FilesOk s fs) (h : ∀ x ∈ s'.all, x ∈ s.all) : FilesOk s' fs :=
  fun g hg => hf g (h g hg)

/-- a header rewrite of any length ≤ 16 on the file of an indexed segment leaves every
    indexed segment's file a 16-byte header followed by its data -/
theorem filesOk_hdr {s : Disk} {fs : FS} (hd : DInv s) (hf : FilesOk s fs) {g : DSeg} (hg : g ∈ s.all)
    (h : Bytes) (hl : h.length ≤ headerSize) :
    FilesOk s (fs.apply (.pwriteHdr (aofName g.left) h)) := by
  obtain ⟨hdr0, hh0, hget0⟩ := hf g hg
  intro g' hg'
  by_cases e : g'.left = g.left
  · have := all_lefts_unique hd hg' hg e
    subst this
    refine ⟨h ++ hdr0.drop h.length, by simp [List.length_drop]; omega, ?_⟩
    rw [get_apply_pwrite_eq _ hget0]
    congr 1
    rw [List.drop_append_of_le_length (by omega), List.append_assoc]
  · obtain ⟨hdr, hh, hget⟩ := hf g' hg'
    refine ⟨hdr, hh, ?_⟩
    rw [get_apply_other _ _ _ (by simp only [FsOp.names, List.mem_singleton]; exact fun e' => e (aofName_inj e'))]
    exact hget

theorem tmpRel_frame {s s' : Disk} {fs : FS} {ops : List FsOp} (hr : TmpRel s fs)
    (hrdb : ∀ r, s'.rdb = some r → r.writing = true → s.rdb = some r)
    (hno : ∀ o ∈ ops, ∀ l sz, rdbTmpName l sz ∉ o.names) : TmpRel s' (fs.applyAll ops) := by
  intro r hr' hw
  rw [get_applyAll_other ops fs _ (fun op hop => hno op hop r.left r.size)]
  exact hr r (hrdb r hr' hw) hw

theorem hdrTornOps_mem {n : FName} {hdr : Bytes} {k : Nat} {o : FsOp} (h : o ∈ hdrTornOps n hdr k) :
    o = .pwriteHdr n (hdr.take k) := by
  unfold hdrTornOps at h
  split at h
  · cases h
  · simpa using h

theorem aof_op_safe {P : Nat → Nat → Bytes → Prop} (l : Nat) (o : FsOp)
    (h : (∃ bs, o = .append (aofName l) bs) ∨ (∃ hd, o = .pwriteHdr (aofName l) hd) ∨ o = .create (aofName l) ∨
      o = .remove (aofName l)) :
    (∀ fs, RdbSafeP P fs o) ∧ (∀ l' sz, rdbTmpName l' sz ∉ o.names) := by
  rcases h with ⟨bs, rfl⟩ | ⟨hd, rfl⟩ | rfl | rfl <;>
    exact ⟨by intro fs; simp [RdbSafeP, aofName, parseRdbName], by intro l' sz; simp [FsOp.names, aofName, rdbTmpName]⟩

/-! ### steps without fault -/

theorem base_generic (s : XDisk) (o : DOp) (h1 : ∀ off size, o ≠ .newRdbWriter off size) (h2 : o ≠ .gc) :
    baseOps s o = fsOps s.d o ∧ baseDisk s o = (s.d.step o).1 := by
  cases o <;> first | exact ⟨rfl, rfl⟩ | exact absurd rfl (h1 _ _) | exact absurd rfl h2

theorem xbase_generic {src : Nat → UInt8} {P : Nat → Nat → Bytes → Prop} (s : XDisk) (o : DOp)
    (h1 : ∀ off size, o ≠ .newRdbWriter off size) (h2 : o ≠ .gc)
    (hinv : XInv src s) (hok : s.d.okOp o) (hsrc : ChunkOk src s.d o)
    (hP : ∀ r chunk, o = .rdbAppend chunk → s.d.rdb = some r → r.writing = true →
      r.data.length + chunk.length = r.size → P r.left r.size (r.data ++ chunk)) :
    StepOk src P s (xbase s o) := by
  obtain ⟨e1, e2⟩ := base_generic s o h1 h2
  obtain ⟨ht, hfiles⟩ := fsOps_true_step (src := src) s.d s.fs o hinv.dinv hok hinv.hist hsrc hinv.files
  obtain ⟨_, htmp⟩ := fsOps_step s.d s.fs o hok hinv.tmp
  have hsafe := fsOps_stepP P s.d s.fs o hok hinv.tmp hP
  unfold xbase
  simp only [e1, e2]
  refine StepOk.mk' (by rw [okOps_allOk]) ?_ ?_ ⟨hinv.dinv.step o hok, HistTrue_step hinv.hist o hsrc, hfiles, htmp⟩
  · rw [okOps_allOk]; exact Pos.mono (fun fs o h => OpTrueX_of_OpTrue fs o h) ht
  · rw [okOps_allOk]; exact hsafe

theorem rdbCloseOps_mem {s : Disk} {o : FsOp} (h : o ∈ rdbCloseOps s) : ∃ l sz, o = .remove (rdbTmpName l sz) := by
  unfold rdbCloseOps at h
  split at h
  · split at h
    · simp at h; exact ⟨_, _, h⟩
    · cases h
  · cases h

theorem xbase_newRdbWriter {src : Nat → UInt8} {P : Nat → Nat → Bytes → Prop} (s : XDisk) (off size : Nat)
    (hinv : XInv src s) (hok : s.d.okOp (.newRdbWriter off size)) :
    StepOk src P s (xbase s (.newRdbWriter off size)) := by
  unfold xbase
  simp only [baseOps, baseDisk]
  -- the parts of the reset
  have hA : ∀ o ∈ rdbCloseOps s.d, ∃ l sz, o = .remove (rdbTmpName l sz) := fun o ho => rdbCloseOps_mem ho
  have hfA : FilesOk s.d (s.fs.applyAll (rdbCloseOps s.d)) := by
    apply filesOk_of_untouched hinv.files (fun g hg => hg)
    intro o ho g _
    obtain ⟨l, sz, rfl⟩ := hA o ho
    simp [FsOp.names, aofName, rdbTmpName]
  have hB := (closeLive_files (src := src) hinv.dinv hfA).1
  refine StepOk.mk' (by rw [okOps_allOk]) ?_ ?_ ?_
  · -- truthful
    rw [okOps_allOk]
    unfold xResetOps
    simp only []
    apply Pos.append
    · apply Pos.append
      · apply Pos.append
        · exact Pos.ofAll (fun o ho fs' => by obtain ⟨l, sz, rfl⟩ := hA o ho; trivial)
        · exact Pos.mono (fun fs o h => OpTrueX_of_OpTrue fs o h) hB
      · exact Pos.ofAll (fun o ho fs' => by obtain ⟨n, _, rfl⟩ := List.mem_map.mp ho; trivial)
    · exact Pos.single trivial
  · -- safe
    rw [okOps_allOk]
    apply Pos.ofAll
    intro o ho fs'
    unfold xResetOps at ho
    simp only [List.mem_append, List.mem_singleton] at ho
    rcases ho with ((ho | ho) | ho) | ho
    · obtain ⟨l, sz, rfl⟩ := hA o ho; trivial
    · exact RdbSafeP_of_RdbSafe (fun a b e => rename_not_mem_closeLiveOps s.d a b (e ▸ ho)) ((closeLiveOps_aof s.d o ho).2 fs')
    · obtain ⟨n, _, rfl⟩ := List.mem_map.mp ho; trivial
    · subst ho; simp [RdbSafeP, rdbTmpName, parseRdbName]
  · refine ⟨hinv.dinv.step _ hok, HistTrue_step hinv.hist _ trivial, ?_, ?_⟩
    · intro g hg
      simp [Disk.step, Disk.reset, Disk.all] at hg
    · intro r hr' hw
      simp only [Disk.step] at hr'
      simp at hr'; subst hr'
      rw [applyAll_append]
      show ((s.fs.applyAll (xResetOps s.d s.fs)).apply (.create (rdbTmpName off size))).get (rdbTmpName off size) = some []
      exact get_set_eq _ _ _

theorem gcOpsZ_mem {s : Disk} {z : List Nat} {o : FsOp} (h : o ∈ gcOpsZ s z) :
    (∃ l sz, o = .remove (rdbName l sz)) ∨
    (∃ g ∈ s.segs.take (s.segs.length - (gcZ s z).segs.length), o = .remove (aofName g.left)) := by
  unfold gcOpsZ at h
  rcases List.mem_append.mp h with h1 | h1
  · left
    split at h1
    · simp at h1; exact ⟨_, _, h1⟩
    · cases h1
  · right
    obtain ⟨g, hg, rfl⟩ := List.mem_map.mp h1
    exact ⟨g, hg, rfl⟩

/-- the index after a collector pass, whatever happened to the removals -/
theorem gcZ_inv {src : Nat → UInt8} (s : XDisk) (hinv : XInv src s) (fs' : FS)
    (hkeep : ∀ g ∈ (gcZ s.d s.zombies).all, fs'.get (aofName g.left) = s.fs.get (aofName g.left))
    (htmp : ∀ l sz, fs'.get (rdbTmpName l sz) = s.fs.get (rdbTmpName l sz)) (z' : List Nat) :
    XInv src ⟨gcZ s.d s.zombies, fs', z'⟩ := by
  obtain ⟨pre, segs', rdb', he, hp, hz, hrdb, hal⟩ := gcZ_cases s.d s.zombies
  have hsub : ∀ g ∈ (gcZ s.d s.zombies).all, g ∈ s.d.all := by
    intro g hg
    rw [he] at hg
    simp only [Disk.all] at hg ⊢
    rw [hp]
    rcases List.mem_append.mp hg with h | h
    · simp [h]
    · simp [h]
  refine ⟨dinv_gcZ hinv.dinv _, ?_, ?_, ?_⟩
  · intro i b hb
    rw [he] at hb ⊢
    exact hinv.hist i b hb
  · intro g hg
    obtain ⟨hdr, hh, hget⟩ := hinv.files g (hsub g hg)
    exact ⟨hdr, hh, by rw [hkeep g hg]; exact hget⟩
  · intro r hr hw
    show fs'.get _ = _
    rw [htmp]
    apply hinv.tmp r _ hw
    rw [he] at hr
    simp only [] at hr
    rcases hrdb with h1 | ⟨h1, _⟩
    · rw [← h1]; exact hr
    · rw [h1] at hr; cases hr

theorem gc_removed_ne {s : Disk} (hd : DInv s) (z : List Nat) {x g : DSeg}
    (hx : x ∈ s.segs.take (s.segs.length - (gcZ s z).segs.length)) (hg : g ∈ (gcZ s z).all) :
    aofName g.left ≠ aofName x.left := by
  obtain ⟨pre, segs', rdb', he, hp, _, _, _⟩ := gcZ_cases s z
  have hlen : s.segs.length - (gcZ s z).segs.length = pre.length := by
    rw [he]; simp only []
    have := congrArg List.length hp; simp at this; omega
  rw [hlen, hp, List.take_left' rfl] at hx
  rw [he] at hg
  have hall : s.all = pre ++ (segs' ++ s.live.toList) := by simp [Disk.all, hp]
  have hg' : g ∈ segs' ++ s.live.toList := by simpa [Disk.all] using hg
  have := lefts_lt_of_split (hall ▸ hd.contig) (hall ▸ all_initNonempty hd.nonempty) hx hg'
  intro e
  have := aofName_inj e
  omega

theorem xbase_gc {src : Nat → UInt8} {P : Nat → Nat → Bytes → Prop} (s : XDisk) (hinv : XInv src s) :
    StepOk src P s (xbase s .gc) := by
  unfold xbase
  simp only [baseOps, baseDisk]
  refine StepOk.mk' (by rw [okOps_allOk]) ?_ ?_ ?_
  · rw [okOps_allOk]
    exact Pos.ofAll (fun o ho fs' => by
      rcases gcOpsZ_mem ho with ⟨l, sz, rfl⟩ | ⟨g, _, rfl⟩ <;> trivial)
  · rw [okOps_allOk]
    exact Pos.ofAll (fun o ho fs' => by
      rcases gcOpsZ_mem ho with ⟨l, sz, rfl⟩ | ⟨g, _, rfl⟩ <;> trivial)
  · apply gcZ_inv s hinv
    · intro g hg
      apply get_applyAll_other
      intro o ho
      rcases gcOpsZ_mem ho with ⟨l, sz, rfl⟩ | ⟨x, hx, rfl⟩
      · simp [FsOp.names, aofName, rdbName]
      · simp only [FsOp.names, List.mem_singleton]
        exact gc_removed_ne hinv.dinv _ hx hg
    · intro l sz
      apply get_applyAll_other
      intro o ho
      rcases gcOpsZ_mem ho with ⟨l', sz', rfl⟩ | ⟨x, _, rfl⟩
      · simp [FsOp.names, rdbTmpName, rdbName]
      · simp [FsOp.names, rdbTmpName, aofName]

theorem xbase_ok {src : Nat → UInt8} {P : Nat → Nat → Bytes → Prop} (s : XDisk) (o : DOp)
    (hinv : XInv src s) (hok : s.d.okOp o) (hsrc : ChunkOk src s.d o)
    (hP : ∀ r chunk, o = .rdbAppend chunk → s.d.rdb = some r → r.writing = true →
      r.data.length + chunk.length = r.size → P r.left r.size (r.data ++ chunk)) :
    StepOk src P s (xbase s o) := by
  by_cases h2 : o = .gc
  · subst h2; exact xbase_gc s hinv
  · by_cases h1 : ∃ off size, o = .newRdbWriter off size
    · obtain ⟨off, size, rfl⟩ := h1
      exact xbase_newRdbWriter s off size hinv hok
    · exact xbase_generic s o (fun off size e => h1 ⟨off, size, e⟩) h2 hinv hok hsrc hP

end GunYu.StoreFsX
