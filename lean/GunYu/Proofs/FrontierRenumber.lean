/-
  Helper lemmas for C14, part 8: a numbering restart (Model/FrontierRenumber.lean). While anything of
  the OLD numbering is still readable, every start returns the new root with sequence 0 and purges;
  no unit of the new numbering commits before the purge is complete; after it the namespace is one
  the single-numbering invariant `TInv` holds for. Core only.
-/
import GunYu.Model.FrontierRenumber
import GunYu.Proofs.FrontierScrub

namespace GunYu.Frontier
open GunYu

set_option linter.unusedSimpArgs false
set_option linter.unusedVariables false

theorem matchRun_ne_nil {rid : Bytes} {ids : List Bytes} (h : matchRun rid ids = true) : rid ≠ [] := by
  unfold matchRun at h
  simp only [List.any_eq_true, decide_eq_true_eq] at h
  obtain ⟨i, _, hne, he⟩ := h
  rw [← he]; exact hne

/-- a start on a namespace whose recovery bookkeeping is all older than the (matching) root checkpoint
    returns that root with sequence 0 — whatever is stored: a snapshot, a journal with or without
    gaps, leftovers of a purge that stopped half-way, records nothing can read -/
theorem stale_start (ver : Bytes) (ns : NS) (ids : List Bytes) (root : Bytes × Int × Nat)
    (hroot : ns.root = some root) (hr1 : root.1 ≠ []) (hr2 : matchRun root.1 ids = true)
    (hst : StaleBelow root.2.1 ns) : startFrontier ver ns ids = restartFromRoot ns ids root := by
  unfold startFrontier
  rw [hroot]
  dsimp only
  cases hrb : rebuild ver (loadSnapshot ns ids) ((startRecords ns ids).map (·.r)) with
  | error m => rfl
  | ok res =>
    cases res with
    | none => rfl
    | some f =>
      dsimp only
      by_cases hpos : f.seq > 0
      · rw [if_pos hpos]
        have hoff : f.offset < root.2.1 := by
          obtain ⟨_, _, hb3, hb4⟩ := rebuild_spec ver _ _ f hrb
          by_cases hadv : baseSeq (loadSnapshot ns ids) < f.seq
          · obtain ⟨r, hr, _, hro, _⟩ := hb3 hadv
            obtain ⟨j, hj, rfl⟩ := List.mem_map.mp hr
            rw [← hro]
            exact hst.2 j (mem_loadRecords hj)
          · rcases hb4 (by omega) with h1 | ⟨_, h2⟩
            · exact hst.1 f (loadSnapshot_some h1)
            · omega
        have hnew : rootNewer root f.offset ids = true := by
          unfold rootNewer
          simp only [decide_eq_true_eq]
          exact ⟨hr1, hoff, hr2⟩
        rw [if_pos hnew]
      · rw [if_neg hpos]

theorem restartFromRoot_fst (ns : NS) (ids : List Bytes) (root : Bytes × Int × Nat) :
    (restartFromRoot ns ids root).1 = rootPoint root := rfl

theorem scrubF_some {ids : List Bytes} {o : Option Snap} {f : Snap} (h : scrubF ids o = some f) :
    o = some f ∧ matchRun f.runId ids = true := by
  cases o with
  | none => exact absurd h (by simp [scrubF])
  | some g =>
    by_cases hm : matchRun g.runId ids = true
    · simp only [scrubF, hm, if_true, Option.some.injEq] at h
      subst h; exact ⟨rfl, hm⟩
    · simp only [scrubF, hm, if_false] at h
      exact absurd h (by simp)

/-! ### deletes only remove -/

theorem applyAll_deletes (dels : List Req) (hd : ∀ q ∈ dels, isDelete q = true) :
    ∀ (ns : NS), (∀ j ∈ (applyAll ns dels).journal, j ∈ ns.journal) ∧
      (∀ f, (applyAll ns dels).frontier = some f → ns.frontier = some f) ∧
      (∀ p ∈ (applyAll ns dels).index, p ∈ ns.index) ∧ (applyAll ns dels).root = ns.root := by
  induction dels with
  | nil => intro ns; exact ⟨fun j h => h, fun f h => h, fun p h => h, rfl⟩
  | cons q rest ih =>
    intro ns
    have hq := hd q (List.mem_cons_self ..)
    obtain ⟨a, b, c, d⟩ := ih (fun x hx => hd x (List.mem_cons_of_mem _ hx)) (applyReq ns q)
    have e : applyAll ns (q :: rest) = applyAll (applyReq ns q) rest := rfl
    rw [e]
    cases q with
    | delRec k =>
      exact ⟨fun j h => (List.mem_filter.mp (a j h)).1, b, c, d⟩
    | zrem ks =>
      exact ⟨a, b, fun p h => (List.mem_filter.mp (c p h)).1, d⟩
    | delFrontier =>
      refine ⟨a, fun f h => ?_, c, d⟩
      have := b f h
      simp [applyReq] at this
    | saveFrontier f => simp [isDelete] at hq
    | commit r => simp [isDelete] at hq
    | commitLatest r => simp [isDelete] at hq

theorem applyAll_uniqueKeys (rs : List Req) : ∀ {ns : NS}, UniqueKeys ns → UniqueKeys (applyAll ns rs) := by
  induction rs with
  | nil => intro ns h; exact h
  | cons q rest ih => intro ns h; exact ih (uniqueKeys_applyReq h q)

/-! ### the phase in which leftovers of the old numbering are still readable -/

structure StalePh (W : World) (t : TSys) : Prop where
  root : ∃ root, t.ns.root = some root ∧ root.2.1 = W.e 0 ∧ root.1 ≠ [] ∧ matchRun root.1 W.ids = true
  com : t.committed = []
  stale : StaleBelow (W.e 0) t.ns
  ix : ∀ p ∈ t.ns.index, p.1 = p.2
  jr : ∀ j ∈ t.ns.journal, j.r.seq = j.kseq ∧ 0 < j.r.seq ∧ matchRun j.r.runId W.ids = true ∧
        ∃ p ∈ t.ns.index, p.2 = j.kseq
  uniq : UniqueKeys t.ns
  fr : ∀ f, t.ns.frontier = some f → matchRun f.runId W.ids = true
  ph : (t.run = none ∧ t.rq = [] ∧ t.cq = []) ∨
       (∃ (r : Run) (ks : List Int) (tail : List Req), t.run = some r ∧ r.startSeq = 0 ∧ r.coord.frontier.seq = 0 ∧
          r.coord.frontier.offset = W.e 0 ∧ r.coord.advanced = [] ∧ r.coord.pending = [] ∧ t.cq = [] ∧
          t.rq = ks.map Req.delRec ++ tail ∧
          (tail = [Req.delFrontier] ∨ ∃ K, tail = [Req.zrem K, Req.delFrontier]) ∧
          ∀ j ∈ t.ns.journal, j.kseq ∈ ks)

/-- in that phase a start returns the root: sequence 0, the offset of the root -/
theorem stalePh_start {W : World} {t : TSys} (h : StalePh W t) :
    ∃ root, t.ns.root = some root ∧ root.2.1 = W.e 0 ∧
      startFrontier W.ver t.ns W.ids = restartFromRoot t.ns W.ids root := by
  obtain ⟨root, hroot, h0, h1, h2⟩ := h.root
  exact ⟨root, hroot, h0, stale_start W.ver t.ns W.ids root hroot h1 h2 (by rw [h0]; exact h.stale)⟩

theorem stalePh_seq {W : World} {t : TSys} (h : StalePh W t) :
    startSeqOf W.ver t.ns W.ids = 0 ∧ startOffOf W.ver t.ns W.ids = W.e 0 := by
  obtain ⟨root, _, h0, hst⟩ := stalePh_start h
  unfold startSeqOf startOffOf
  rw [hst, restartFromRoot_fst]
  exact ⟨rfl, h0⟩

/-- the state once nothing of the old numbering is left: the single-numbering invariant holds -/
theorem tinv_of_clean {W : World} {t : TSys} (root : Bytes × Int × Nat) (hroot : t.ns.root = some root)
    (h0 : root.2.1 = W.e 0) (hj : t.ns.journal = []) (hf : t.ns.frontier = none)
    (hix : ∀ p ∈ t.ns.index, p.1 = p.2) (r : Run) (hrun : t.run = some r) (hs : r.startSeq = 0)
    (hfs : r.coord.frontier.seq = 0) (hfo : r.coord.frontier.offset = W.e 0) (ha : r.coord.advanced = [])
    (hp : r.coord.pending = []) (hrq : t.rq = []) (hcq : t.cq = []) : TInv W t := by
  refine ⟨⟨?_, ?_, ?_, ?_, ?_⟩, hix, ⟨root, hroot⟩, fun hn => by rw [hrun] at hn; exact absurd hn (by simp), ?_⟩
  · intro x hx
    have : t.ns.root = some x := hx
    rw [hroot] at this; simp only [Option.some.injEq] at this; rw [← this]; exact h0
  · intro j hjm
    have : j ∈ t.ns.journal := hjm
    rw [hj] at this; exact absurd this (List.not_mem_nil)
  · intro f hf'
    have : t.ns.frontier = some f := hf'
    rw [hf] at this; exact absurd this (by simp)
  · intro r' hr'
    have : t.run = some r' := hr'
    rw [hrun] at this; simp only [Option.some.injEq] at this; subst this
    refine ⟨⟨by omega, by rw [hfo, hfs], fun j h1 h2 => by omega⟩, by omega, ?_⟩
    rw [hp]; intro p hpm; exact absurd hpm (List.not_mem_nil)
  · intro q hq
    simp only [TSys.toSys, hrq, hcq, List.append_nil] at hq
    exact absurd hq (List.not_mem_nil)
  · intro r' hr'
    rw [hrun] at hr'; simp only [Option.some.injEq] at hr'; subst hr'
    right
    rw [hrq, hcq]
    refine ⟨trivial, ?_⟩
    simp only [List.append_nil, lastBound]
    have hs0 : snapSeq t.ns W.ids = 0 := by
      unfold snapSeq loadSnapshot; rw [hf]; rfl
    exact ⟨by rw [hs0, hfs]; exact Int.le_refl _, by rw [ha]; simp, by rw [ha]; simp, by rw [hp]; simp⟩

/-- every step from that phase stays in it or ends it with a clean namespace -/
theorem stale_step {W : World} {t : TSys} (h : StalePh W t) (st : Step) :
    StalePh W (tstep W t st) ∨ TInv W (tstep W t st) := by
  obtain ⟨root, hroot, h0, hr1, hr2⟩ := h.root
  have hsame : tstep W t st = t → StalePh W (tstep W t st) ∨ TInv W (tstep W t st) := by
    intro e; rw [e]; exact Or.inl h
  cases st with
  | crash =>
    left
    have e : tstep W t .crash = { t with run := none, rq := [], cq := [] } := rfl
    rw [e]
    exact ⟨h.root, h.com, h.stale, h.ix, h.jr, h.uniq, h.fr, Or.inl ⟨rfl, rfl, rfl⟩⟩
  | commit i mt =>
    rcases h.ph with ⟨hn, _, _⟩ | ⟨r, ks, tail, hrun, _, _, _, _, _, _, hrq, htail, _⟩
    · exact hsame (by simp [tstep, hn])
    · have hne : t.rq ≠ [] := by
        rw [hrq]; rcases htail with rfl | ⟨K, rfl⟩ <;> simp
      exact hsame (by simp [tstep, hrun, hne])
  | report i mt now =>
    rcases h.ph with ⟨hn, _, _⟩ | ⟨r, ks, tail, hrun, _, _, _, _, _, _, hrq, htail, _⟩
    · exact hsame (by simp [tstep, hn])
    · have hne : t.rq ≠ [] := by
        rw [hrq]; rcases htail with rfl | ⟨K, rfl⟩ <;> simp
      exact hsame (by simp [tstep, hrun, hne])
  | tick now =>
    rcases h.ph with ⟨hn, _, _⟩ | ⟨r, ks, tail, hrun, _, _, _, _, _, _, hrq, htail, _⟩
    · exact hsame (by simp [tstep, hn])
    · have hne : t.rq ≠ [] := by
        rw [hrq]; rcases htail with rfl | ⟨K, rfl⟩ <;> simp
      exact hsame (by simp [tstep, hrun, hne])
  | start =>
    rcases h.ph with ⟨hn, hq, hc⟩ | ⟨r, ks, tail, hrun, _⟩
    · -- a process starts: the root, and the purge of everything readable (or nothing to purge)
      obtain ⟨root', hroot', _, hst⟩ := stalePh_start h
      rw [hroot] at hroot'; simp only [Option.some.injEq] at hroot'; subst hroot'
      have e : tstep W t .start = { t with
          run := some { startSeq := 0,
                        coord := { frontier := { runId := root.1, seq := 0, offset := root.2.1, mtime := 0, version := W.ver },
                                   lastFlush := 0 } },
          rq := (restartFromRoot t.ns W.ids root).2, cq := [] } := by
        simp only [tstep, hn, tstartRun, hst, restartFromRoot, rootPoint]
      rw [e]
      -- every journal record is loaded by a start from sequence 1 and by the purge
      have hload : ∀ m : Int, m ≤ 1 → ∀ j ∈ t.ns.journal, j ∈ loadRecords t.ns W.ids m := by
        intro m hm1 j hj
        obtain ⟨hs, hpos, hmr, p, hp, hpk⟩ := h.jr j hj
        rw [mem_loadRecords_iff]
        refine ⟨p, hp, ?_, ?_, hmr⟩
        · have := h.ix p hp
          show m ≤ p.1
          omega
        · rw [hpk]; exact h.uniq j hj
      by_cases hc2 : (loadSnapshot t.ns W.ids).isSome = true ∨ ¬ (startRecords t.ns W.ids).isEmpty = true
      · left
        have erq : (restartFromRoot t.ns W.ids root).2 = purgeReqs t.ns W.ids := by
          unfold restartFromRoot; simp only; rw [if_pos hc2]
        rw [erq]
        refine ⟨h.root, h.com, h.stale, h.ix, h.jr, h.uniq, h.fr, Or.inr ?_⟩
        refine ⟨_, ((loadRecords t.ns W.ids (-(2^63 : Int))).map (·.kseq)).eraseDups,
          (if ((loadRecords t.ns W.ids (-(2^63 : Int))).map (·.kseq)).eraseDups.isEmpty then []
            else [Req.zrem ((loadRecords t.ns W.ids (-(2^63 : Int))).map (·.kseq)).eraseDups]) ++ [Req.delFrontier],
          rfl, rfl, rfl, h0, rfl, rfl, rfl, ?_, ?_, ?_⟩
        · unfold purgeReqs; simp only [List.append_assoc]
        · split
          · left; rfl
          · right; exact ⟨_, rfl⟩
        · intro j hj
          rw [List.mem_eraseDups]
          exact List.mem_map.mpr ⟨j, hload _ (by decide) j hj, rfl⟩
      · -- nothing readable: nothing stored
        right
        have erq : (restartFromRoot t.ns W.ids root).2 = [] := by
          unfold restartFromRoot; simp only; rw [if_neg hc2]
        rw [erq]
        have hsnone : loadSnapshot t.ns W.ids = none := by
          cases hs : loadSnapshot t.ns W.ids with
          | none => rfl
          | some f => exact absurd (Or.inl (by rw [hs]; rfl)) hc2
        have hfnone : t.ns.frontier = none := by
          cases hf : t.ns.frontier with
          | none => rfl
          | some f =>
            have := loadSnapshot_of_frontier (ids := W.ids) hf (h.fr f hf)
            rw [hsnone] at this; exact absurd this (by simp)
        have hjnil : t.ns.journal = [] := by
          cases hj : t.ns.journal with
          | nil => rfl
          | cons j rest =>
            exfalso
            apply hc2
            right
            have hmin : minSeqFor (loadSnapshot t.ns W.ids) = 1 := by rw [hsnone]; rfl
            have : j ∈ startRecords t.ns W.ids := by
              unfold startRecords; rw [hmin]
              exact hload 1 (Int.le_refl _) j (by rw [hj]; exact List.mem_cons_self ..)
            intro hemp
            have hnil : startRecords t.ns W.ids = [] := by simpa using hemp
            rw [hnil] at this; exact absurd this (List.not_mem_nil)
        exact tinv_of_clean root hroot h0 hjnil hfnone h.ix _ rfl rfl rfl h0 rfl rfl rfl rfl
    · exact hsame (by simp [tstep, hrun])
  | apply =>
    rcases h.ph with ⟨hn, hq, hc⟩ | ⟨r, ks, tail, hrun, hs, hfs, hfo, ha, hp, hcq, hrq, htail, hcov⟩
    · exact hsame (by simp [tstep, hq, hc])
    · cases ks with
      | cons k ks' =>
        -- one journal record of the old numbering is deleted
        left
        have hrq' : t.rq = Req.delRec k :: (ks'.map Req.delRec ++ tail) := by rw [hrq]; rfl
        have e : tstep W t .apply = { t with ns := applyReq t.ns (.delRec k), rq := ks'.map Req.delRec ++ tail } := by
          simp [tstep, hrq']
        rw [e]
        have hsub : ∀ j ∈ (applyReq t.ns (.delRec k)).journal, j ∈ t.ns.journal ∧ j.kseq ≠ k := by
          intro j hj
          simp only [applyReq] at hj
          obtain ⟨a, b⟩ := List.mem_filter.mp hj
          exact ⟨a, by simpa using b⟩
        refine ⟨⟨root, by rw [applyReq_root]; exact hroot, h0, hr1, hr2⟩, h.com,
          ⟨h.stale.1, fun j hj => h.stale.2 j (hsub j hj).1⟩, h.ix, fun j hj => h.jr j (hsub j hj).1,
          uniqueKeys_applyReq h.uniq _, h.fr, Or.inr ?_⟩
        refine ⟨r, ks', tail, hrun, hs, hfs, hfo, ha, hp, hcq, rfl, htail, ?_⟩
        intro j hj
        obtain ⟨hjm, hne⟩ := hsub j hj
        rcases List.mem_cons.mp (hcov j hjm) with hk | hk
        · exact absurd hk hne
        · exact hk
      | nil =>
        have hjnil : t.ns.journal = [] := by
          cases hj : t.ns.journal with
          | nil => rfl
          | cons j rest =>
            have := hcov j (by rw [hj]; exact List.mem_cons_self ..)
            exact absurd this (List.not_mem_nil)
        rcases htail with rfl | ⟨K, rfl⟩
        · -- the snapshot goes: nothing of the old numbering is left
          right
          have hrq' : t.rq = [Req.delFrontier] := by rw [hrq]; rfl
          have e : tstep W t .apply = { t with ns := applyReq t.ns .delFrontier, rq := [] } := by
            simp [tstep, hrq']
          rw [e]
          exact tinv_of_clean root (by rw [applyReq_root]; exact hroot) h0 hjnil rfl h.ix r hrun hs hfs hfo ha hp rfl hcq
        · -- the index members go
          left
          have hrq' : t.rq = Req.zrem K :: [Req.delFrontier] := by rw [hrq]; rfl
          have e : tstep W t .apply = { t with ns := applyReq t.ns (.zrem K), rq := [Req.delFrontier] } := by
            simp [tstep, hrq']
          rw [e]
          have hjn : (applyReq t.ns (.zrem K)).journal = [] := hjnil
          refine ⟨⟨root, by rw [applyReq_root]; exact hroot, h0, hr1, hr2⟩, h.com,
            ⟨h.stale.1, fun j hj => by rw [hjn] at hj; exact absurd hj (List.not_mem_nil)⟩,
            fun p hp' => by simp only [applyReq] at hp'; exact h.ix p (List.mem_filter.mp hp').1,
            fun j hj => by rw [hjn] at hj; exact absurd hj (List.not_mem_nil),
            uniqueKeys_applyReq h.uniq _, h.fr, Or.inr ?_⟩
          exact ⟨r, [], [Req.delFrontier], hrun, hs, hfs, hfo, ha, hp, hcq, rfl, Or.inl rfl,
            fun j hj => by rw [hjn] at hj; exact absurd hj (List.not_mem_nil)⟩

/-! ### both phases -/

/-- either leftovers of the old numbering are still readable (and every start returns the new root),
    or the namespace is one of the new numbering alone -/
def RInv0 (W : World) (t : TSys) : Prop := TInv W t ∨ StalePh W t

theorem rinv0_off {W : World} (hm : ∀ i j, i ≤ j → W.e i ≤ W.e j) {t : TSys} (h : RInv0 W t) :
    startOffOf W.ver t.ns W.ids = W.e (startSeqOf W.ver t.ns W.ids) ∧
    (∀ j, 0 < j → j ≤ startSeqOf W.ver t.ns W.ids → j ∈ t.committed) := by
  rcases h with h | h
  · obtain ⟨root, hroot⟩ := h.root
    refine ⟨startOff_eq (consistent_of_sysInv hm h.hi) hroot, ?_⟩
    intro j hj0 hj
    cases hst : startFrontier W.ver t.ns W.ids with
    | mk st reqs =>
      cases st with
      | empty => simp only [startSeqOf, hst] at hj; omega
      | point db rid off seq =>
        simp only [startSeqOf, hst] at hj
        exact (start_sound h.hi db rid off seq reqs hst).1.2.2 j hj0 hj
  · obtain ⟨a, b⟩ := stalePh_seq h
    rw [a, b]
    exact ⟨rfl, fun j h1 h2 => by omega⟩

theorem rinv0_step {W : World} (hm : ∀ i j, i ≤ j → W.e i ≤ W.e j) (hvis : matchRun W.rid W.ids = true)
    {t : TSys} (h : RInv0 W t) (st : Step) :
    RInv0 W (tstep W t st) ∧
      startSeqOf W.ver t.ns W.ids ≤ startSeqOf W.ver (tstep W t st).ns W.ids := by
  rcases h with h | h
  · obtain ⟨a, b⟩ := tstep_tinv hm hvis h st
    exact ⟨Or.inl a, b⟩
  · have hz := (stalePh_seq h).1
    rcases stale_step h st with h' | h'
    · exact ⟨Or.inr h', by rw [hz]; exact startSeqOf_nonneg _ _ _⟩
    · exact ⟨Or.inl h', by rw [hz]; exact startSeqOf_nonneg _ _ _⟩

/-- the invariant of executions after a numbering restart, tolerant of what no start can read:
    the state agrees, after scrubbing, with one the two-phase invariant holds for -/
def RInv (W : World) (s : TSys) : Prop :=
  ∃ t, Sim W.ids s t ∧ UniqueKeys s.ns ∧ UniqueKeys t.ns ∧ RInv0 W t

theorem rinv_step {W : World} (hm : ∀ i j, i ≤ j → W.e i ≤ W.e j) (hvis : matchRun W.rid W.ids = true)
    {s : TSys} (h : RInv W s) (st : Step) :
    RInv W (tstep W s st) ∧
      startSeqOf W.ver s.ns W.ids ≤ startSeqOf W.ver (tstep W s st).ns W.ids := by
  obtain ⟨t, hsim, hus, hut, hr⟩ := h
  obtain ⟨hr', hle⟩ := rinv0_step hm hvis hr st
  have hsim' := tstep_sim2 W hus hut hsim st
  have hus' := tstep_uniqueKeys W hus st
  have hut' := tstep_uniqueKeys W hut st
  refine ⟨⟨_, hsim', hus', hut', hr'⟩, ?_⟩
  rw [(sim_startSeqOf W hus hut hsim).1, (sim_startSeqOf W hus' hut' hsim').1]
  exact hle

theorem rinv_steps {W : World} (hm : ∀ i j, i ≤ j → W.e i ≤ W.e j) (hvis : matchRun W.rid W.ids = true)
    (steps : List Step) : ∀ {s : TSys}, RInv W s →
    RInv W (trunSteps W s steps) ∧
      startSeqOf W.ver s.ns W.ids ≤ startSeqOf W.ver (trunSteps W s steps).ns W.ids := by
  induction steps with
  | nil => intro s h; exact ⟨h, Int.le_refl _⟩
  | cons st rest ih =>
    intro s h
    obtain ⟨h1, h2⟩ := rinv_step hm hvis h st
    obtain ⟨h3, h4⟩ := ih h1
    exact ⟨h3, Int.le_trans h2 h4⟩

theorem rinv_facts {W : World} (hm : ∀ i j, i ≤ j → W.e i ≤ W.e j) {s : TSys} (h : RInv W s) :
    startOffOf W.ver s.ns W.ids = W.e (startSeqOf W.ver s.ns W.ids) ∧
    0 ≤ startSeqOf W.ver s.ns W.ids ∧
    (∀ j, 0 < j → j ≤ startSeqOf W.ver s.ns W.ids → j ∈ s.committed) := by
  obtain ⟨t, hsim, hus, hut, hr⟩ := h
  obtain ⟨e1, e2, e3⟩ := sim_startSeqOf W hus hut hsim
  obtain ⟨a, b⟩ := rinv0_off hm hr
  rw [e1, e2, e3]
  exact ⟨a, startSeqOf_nonneg _ _ _, b⟩

/-! ### the restart itself: what an execution under the old numbering leaves -/

/-- after any execution under numbering W₁ and any deletes, with the root of numbering W₂ (which lies
    beyond every unit of W₁) in place, the invariant of the restart holds -/
theorem rinv_resync {W₁ W₂ : World} (hvis₂ : matchRun W₂.rid W₂.ids = true)
    {s : TSys} (hnew : ∀ i, (i = 0 ∨ i ∈ s.committed) → W₁.e i < W₂.e 0) (h : TInv W₁ s) (hu : UniqueKeys s.ns) (db : Nat)
    (dels : List Req) (hd : ∀ q ∈ dels, isDelete q = true) : RInv W₂ (resync W₂ db dels s) := by
  obtain ⟨hdj, hdf, hdi, _⟩ := applyAll_deletes dels hd s.ns
  have hu2 : UniqueKeys (resync W₂ db dels s).ns := applyAll_uniqueKeys dels hu
  refine ⟨scrubS W₂.ids (resync W₂ db dels s), (scrubS_idem W₂.ids _).symm, hu2, uniqueKeys_scrub W₂.ids hu2, Or.inr ?_⟩
  have hjm : ∀ j ∈ (scrubS W₂.ids (resync W₂ db dels s)).ns.journal,
      j ∈ s.ns.journal ∧ readable W₂.ids (applyAll s.ns dels).index j = true := by
    intro j hj
    obtain ⟨a, b⟩ := List.mem_filter.mp hj
    exact ⟨hdj j a, b⟩
  refine ⟨⟨(W₂.rid, W₂.e 0, db), rfl, rfl, matchRun_ne_nil hvis₂, hvis₂⟩, rfl, ⟨?_, ?_⟩, ?_, ?_,
    uniqueKeys_scrub W₂.ids hu2, ?_, Or.inl ⟨rfl, rfl, rfl⟩⟩
  · intro f hf
    have hf2 : (applyAll s.ns dels).frontier = some f := (scrubF_some (ids := W₂.ids) hf).1
    obtain ⟨hs0, hso, hsp⟩ := h.hi.fr f (hdf f hf2)
    rw [hso]
    apply hnew
    by_cases hz : f.seq = 0
    · exact Or.inl hz
    · exact Or.inr (hsp f.seq (by omega) (Int.le_refl _))
  · intro j hj
    obtain ⟨hje, hjc, _⟩ := (h.hi.jr j (hjm j hj).1).2
    rw [hje]; exact hnew _ (Or.inr hjc)
  · intro p hp
    exact h.ix p (hdi p hp)
  · intro j hj
    obtain ⟨hj1, hrd⟩ := hjm j hj
    obtain ⟨a, b⟩ := h.hi.jr j hj1
    unfold readable at hrd
    simp only [Bool.and_eq_true, List.any_eq_true, beq_iff_eq] at hrd
    exact ⟨a, b.2.2, hrd.1, hrd.2⟩
  · intro f hf
    exact (scrubF_some (ids := W₂.ids) hf).2

theorem trunSteps_uniqueKeys (W : World) (steps : List Step) :
    ∀ {s : TSys}, UniqueKeys s.ns → UniqueKeys (trunSteps W s steps).ns := by
  induction steps with
  | nil => intro s h; exact h
  | cons st rest ih => intro s h; exact ih (tstep_uniqueKeys W h st)

end GunYu.Frontier
