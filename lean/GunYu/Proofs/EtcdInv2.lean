/-
  Preservation of the etcd election invariant by Resign, Renew, Campaign and
  the session / clock events; `inv_run`.
-/
import GunYu.Proofs.EtcdInv

set_option linter.unusedSimpArgs false
set_option linter.unusedVariables false

namespace GunYu.Etcd
open GunYu

theorem inv_resign (idOf : Nat → Bytes) {s : Sys} (h : Inv s) (p : Bytes) (L f : Nat) :
    Inv (resignStep idOf s p L f).1 := by
  unfold resignStep
  dsimp only
  rw [resignTxn_eval]
  have hrevb := h.elRev L p
  by_cases hf1 : f = 1
  · simp only [hf1, ↓reduceIte]
    refine inv_local_untold h L p h.wf (Nat.le_refl _) (fun kv hkv => Or.inl hkv)
      (fun L' p' hq => setEl_other _ _ _ _ _ _ hq) (fun p' L' hq => setTold_other _ _ _ _ _ _ hq) ?_ ?_ ?_
    · dsimp only; rw [setEl_same]; exact Or.inr (Or.inl rfl)
    · dsimp only; rw [setEl_same]; exact hrevb
    · exact setTold_same _ _ _ _
  simp only [hf1, ↓reduceIte]
  unfold resignTxnSpec
  by_cases hk : (s.el L p).key = []
  · simp only [hk, ↓reduceIte]
    refine inv_local_untold h L p h.wf (Nat.le_refl _) (fun kv hkv => Or.inl hkv)
      (fun L' p' hq => setEl_other _ _ _ _ _ _ hq) (fun p' L' hq => setTold_other _ _ _ _ _ _ hq) ?_ ?_ ?_
    · dsimp only; rw [setEl_same]; exact Or.inr (Or.inl rfl)
    · dsimp only; rw [setEl_same]; exact hrevb
    · exact setTold_same _ _ _ _
  simp only [hk, ↓reduceIte]
  by_cases hc : some (createRevOf s.st.kvs (s.el L p).key) = (s.el L p).rev
  · simp only [hc, ↓reduceIte]
    refine inv_local_untold h L p (wf_delKV h.wf _ _ (le_bump _ _)) (le_bump _ _)
      (fun kv hkv => Or.inl (mem_delKV hkv))
      (fun L' p' hq => setEl_other _ _ _ _ _ _ hq) (fun p' L' hq => setTold_other _ _ _ _ _ _ hq) ?_ ?_ ?_
    · dsimp only; rw [setEl_same]; exact Or.inr (Or.inl rfl)
    · dsimp only; rw [setEl_same]; intro r hr
      exact Nat.le_trans (hrevb r hr) (le_bump _ _)
    · exact setTold_same _ _ _ _
  · simp only [hc, ↓reduceIte]
    refine inv_local_untold h L p h.wf (Nat.le_refl _) (fun kv hkv => Or.inl hkv)
      (fun L' p' hq => setEl_other _ _ _ _ _ _ hq) (fun p' L' hq => setTold_other _ _ _ _ _ _ hq) ?_ ?_ ?_
    · dsimp only; rw [setEl_same]; exact Or.inr (Or.inl rfl)
    · dsimp only; rw [setEl_same]; exact hrevb
    · exact setTold_same _ _ _ _

/-- a step that changes only the belief about (L, p) -/
theorem inv_told_only {s : Sys} (h : Inv s) (p : Bytes) (L : Nat) (b : Bool)
    (hb : b = true → (s.el L p).key = keyOf p L ∧
      ∀ kv ∈ s.st.kvs, kv.key = keyOf p L → some kv.create = (s.el L p).rev →
        ∀ kv' ∈ s.st.kvs, p.isPrefixOf kv'.key = true → kv.create ≤ kv'.create) :
    Inv { s with told := setTold s.told p L b } := by
  refine inv_step h h.wf (Nat.le_refl _) (fun kv hkv => Or.inl hkv)
    (hel_local L p (fun _ _ _ => rfl) (fun p' L' hq => setTold_other _ _ _ _ _ _ hq) (Or.inr ?_))
  refine ⟨h.elKey L p, h.elRev L p, fun ht => ?_⟩
  have : b = true := by
    have e : setTold s.told p L b p L = b := setTold_same _ _ _ _
    rw [← e]; exact ht
  exact hb this

theorem inv_renew (idOf : Nat → Bytes) {s : Sys} (h : Inv s) (p : Bytes) (L f : Nat) :
    Inv (renewStep idOf s p L f).1 := by
  unfold renewStep
  dsimp only
  rw [renewGet_eval]
  by_cases hf1 : f = 1
  · simp only [hf1, ↓reduceIte]; exact h
  simp only [hf1, ↓reduceIte]
  by_cases hp : p = []
  · simp only [hp, ↓reduceIte]; exact h
  simp only [hp, ↓reduceIte]
  cases hfc : firstCreate s.st.kvs p with
  | none =>
    simp only [Option.toList, List.head?]
    exact inv_told_only h p L false (fun hb => by cases hb)
  | some kv =>
    simp only [Option.toList, List.head?]
    obtain ⟨hmem, hpre, hmin⟩ := firstCreate_some hfc
    by_cases hown : kv.key = (s.el L p).key ∧ some kv.create = (s.el L p).rev
    · simp only [hown, and_self, ↓reduceIte]
      refine inv_told_only h p L true (fun _ => ?_)
      have hkey : (s.el L p).key = keyOf p L := by
        rcases h.elKey L p with h0 | h0 | h0
        · exact absurd (hown.1.trans h0) (h.wf.names kv hmem).1
        · exact absurd (hown.1.trans h0) (h.wf.names kv hmem).2
        · exact h0
      refine ⟨hkey, fun kv2 hkv2 _ hc2 kv' hkv' hp' => ?_⟩
      have : kv2.create = kv.create := by
        have := hc2.trans hown.2.symm
        exact Option.some.inj this
      rw [this]; exact hmin kv' hkv' hp'
    · simp only [hown, ↓reduceIte]
      exact inv_told_only h p L false (fun hb => by cases hb)

/-! ### Campaign: the transaction and the owner test -/

theorem inv_campTxn (idOf : Nat → Bytes) {s : Sys} (h : Inv s) (p : Bytes) (L f : Nat) :
    Inv (campTxn idOf s p L f).1 := by
  unfold campTxn
  dsimp only
  rw [campaignTxn_eval _ _ (fun kv hkv => (h.wf.pos kv hkv).1)]
  have hrevb := h.elRev L p
  -- setting only the key field: nothing changes if the instance is told, else it is untold
  have hkeyonly : ∀ (st' : Store), Wf st'.kvs st'.rev → s.st.rev ≤ st'.rev →
      (∀ kv ∈ st'.kvs, kv ∈ s.st.kvs ∨ s.st.rev < kv.create) →
      Inv { st := st', el := setEl s.el L p { s.el L p with key := keyOf p L }, told := s.told } := by
    intro st' hwf hrev hkvs
    refine inv_step h hwf hrev hkvs (hel_local L p (fun L' p' hq => setEl_other _ _ _ _ _ _ hq)
      (fun _ _ _ => rfl) ?_)
    by_cases ht : s.told p L = true
    · left
      refine ⟨?_, fun x => x⟩
      dsimp only; rw [setEl_same]
      have := (h.told p L ht).1
      cases he : s.el L p with
      | mk k r pd => rw [he] at this; simp only at this; subst this; rfl
    · right
      refine elOk_untold ?_ ?_ (by simpa using ht)
      · dsimp only; rw [setEl_same]; exact Or.inr (Or.inr rfl)
      · dsimp only; rw [setEl_same]; intro r hr; exact Nat.le_trans (hrevb r hr) hrev
  by_cases hf1 : f = 1
  · simp only [hf1, ↓reduceIte]
    exact hkeyonly s.st h.wf (Nat.le_refl _) (fun kv hkv => Or.inl hkv)
  simp only [hf1, ↓reduceIte]
  unfold campaignTxnSpec
  have hkne : keyOf p L ≠ [] := keyOf_ne_nil p L
  by_cases hp : p = []
  · simp only [hp, or_true, ↓reduceIte]
    rw [← hp]
    exact hkeyonly s.st h.wf (Nat.le_refl _) (fun kv hkv => Or.inl hkv)
  simp only [hkne, hp, or_self, ↓reduceIte]
  cases hfk : findKey s.st.kvs (keyOf p L) with
  | none =>
    simp only []
    by_cases hl : s.st.leaseLive L = true
    · simp only [hl, ↓reduceIte]
      -- the new key space
      have hwf' : Wf (s.st.kvs ++ [newKV { key := keyOf p L, pfx := p, val := idOf L, lease := L, rev := (s.el L p).rev } s.st])
          (s.st.rev + 1) :=
        h.wf.append _ (fun x hx => findKey_none hfk x hx) rfl ⟨keyOf_ne_nil p L, keyOf_ne_nul p L⟩
      have hkvs' : ∀ kv ∈ s.st.kvs ++ [newKV { key := keyOf p L, pfx := p, val := idOf L, lease := L, rev := (s.el L p).rev } s.st],
          kv ∈ s.st.kvs ∨ s.st.rev < kv.create := by
        intro kv hkv
        rcases List.mem_append.1 hkv with hkv | hkv
        · exact Or.inl hkv
        · simp at hkv; subst hkv; right; simp [newKV]
      by_cases hf2 : f = 2
      · simp only [hf2, ↓reduceIte]
        exact hkeyonly _ hwf' (Nat.le_succ _) hkvs'
      simp only [hf2, ↓reduceIte, Gen.etcdOwnerResp, Gen.etcdOwnResp]
      simp only [List.getElem?_cons_succ, List.getElem?_cons_zero]
      cases hfc : firstCreate (s.st.kvs ++ [newKV { key := keyOf p L, pfx := p, val := idOf L, lease := L, rev := (s.el L p).rev } s.st]) p with
      | none =>
        simp only [Option.toList, List.isEmpty_nil, Bool.true_or, ↓reduceIte]
        refine inv_step h hwf' (Nat.le_succ _) hkvs' (hel_local L p (fun L' p' hq => setEl_other _ _ _ _ _ _ hq)
          (fun p' L' hq => setTold_other _ _ _ _ _ _ hq) (Or.inr ?_))
        refine ⟨?_, ?_, fun _ => ⟨?_, fun kv hkv hkey _ kv' hkv' hp' => ?_⟩⟩
        · dsimp only; rw [setEl_same]; exact Or.inr (Or.inr rfl)
        · dsimp only; rw [setEl_same]; intro r hr; cases hr; exact Nat.le_refl _
        · dsimp only; rw [setEl_same]
        · exact absurd hp' (by
            intro hp'; exact firstCreate_none hfc kv' hkv' hp')
      | some ow =>
        obtain ⟨hmem, hpre, hmin⟩ := firstCreate_some hfc
        simp only [Option.toList, List.isEmpty_cons, Bool.false_or, List.head?_cons, Option.map_some]
        by_cases hown : ow.create = s.st.rev + 1
        · have : (some ow.create == some (s.st.rev + 1)) = true := by simp [hown]
          simp only [this, ↓reduceIte]
          refine inv_step h hwf' (Nat.le_succ _) hkvs' (hel_local L p (fun L' p' hq => setEl_other _ _ _ _ _ _ hq)
            (fun p' L' hq => setTold_other _ _ _ _ _ _ hq) (Or.inr ?_))
          refine ⟨?_, ?_, fun _ => ⟨?_, fun kv hkv hkey hc kv' hkv' hp' => ?_⟩⟩
          · dsimp only; rw [setEl_same]; exact Or.inr (Or.inr rfl)
          · dsimp only; rw [setEl_same]; intro r hr; cases hr; exact Nat.le_refl _
          · dsimp only; rw [setEl_same]
          · dsimp only at hc; rw [setEl_same] at hc
            have hc' : kv.create = s.st.rev + 1 := Option.some.inj hc
            rw [hc', ← hown]; exact hmin kv' hkv' hp'
        · have : (some ow.create == some (s.st.rev + 1)) = false := by simp [hown]
          simp only [this, Bool.false_eq_true, ↓reduceIte]
          refine inv_step h hwf' (Nat.le_succ _) hkvs' (hel_local L p (fun L' p' hq => setEl_other _ _ _ _ _ _ hq)
            (fun p' L' hq => setTold_other _ _ _ _ _ _ hq) (Or.inr ?_))
          refine elOk_untold ?_ ?_ (setTold_same _ _ _ _)
          · dsimp only; rw [setEl_same]; exact Or.inr (Or.inr rfl)
          · dsimp only; rw [setEl_same]; intro r hr; cases hr; exact Nat.le_refl _
    · simp only [hl, Bool.false_eq_true, ↓reduceIte]
      exact hkeyonly s.st h.wf (Nat.le_refl _) (fun kv hkv => Or.inl hkv)
  | some own =>
    obtain ⟨hownmem, hownkey⟩ := findKey_some hfk
    simp only []
    by_cases hf2 : f = 2
    · simp only [hf2, ↓reduceIte]
      exact hkeyonly s.st h.wf (Nat.le_refl _) (fun kv hkv => Or.inl hkv)
    simp only [hf2, ↓reduceIte, Gen.etcdOwnerResp, Gen.etcdOwnResp, Bool.false_eq_true]
    simp only [List.getElem?_cons_succ, List.getElem?_cons_zero, List.getD_cons_zero, List.head?_cons, Option.map_some]
    have hle : own.create ≤ s.st.rev := (h.wf.pos own hownmem).2
    cases hfc : firstCreate s.st.kvs p with
    | none =>
      simp only [Option.toList, List.isEmpty_nil, Bool.true_or, ↓reduceIte]
      refine inv_step h h.wf (Nat.le_refl _) (fun kv hkv => Or.inl hkv) (hel_local L p (fun L' p' hq => setEl_other _ _ _ _ _ _ hq)
        (fun p' L' hq => setTold_other _ _ _ _ _ _ hq) (Or.inr ?_))
      refine ⟨?_, ?_, fun _ => ⟨?_, fun kv hkv hkey _ kv' hkv' hp' => ?_⟩⟩
      · dsimp only; rw [setEl_same]; exact Or.inr (Or.inr rfl)
      · dsimp only; rw [setEl_same]; intro r hr; cases hr; exact hle
      · dsimp only; rw [setEl_same]
      · exact absurd hp' (by intro hp'; exact firstCreate_none hfc kv' hkv' hp')
    | some ow =>
      obtain ⟨hmem, hpre, hmin⟩ := firstCreate_some hfc
      simp only [Option.toList, List.isEmpty_cons, Bool.false_or, List.head?_cons, Option.map_some]
      by_cases hown : ow.create = own.create
      · have : (some ow.create == some own.create) = true := by simp [hown]
        simp only [this, ↓reduceIte]
        refine inv_step h h.wf (Nat.le_refl _) (fun kv hkv => Or.inl hkv) (hel_local L p (fun L' p' hq => setEl_other _ _ _ _ _ _ hq)
          (fun p' L' hq => setTold_other _ _ _ _ _ _ hq) (Or.inr ?_))
        refine ⟨?_, ?_, fun _ => ⟨?_, fun kv hkv hkey hc kv' hkv' hp' => ?_⟩⟩
        · dsimp only; rw [setEl_same]; exact Or.inr (Or.inr rfl)
        · dsimp only; rw [setEl_same]; intro r hr; cases hr; exact hle
        · dsimp only; rw [setEl_same]
        · dsimp only at hc; rw [setEl_same] at hc
          have hc' : kv.create = own.create := Option.some.inj hc
          rw [hc', ← hown]; exact hmin kv' hkv' hp'
      · have : (some ow.create == some own.create) = false := by simp [hown]
        simp only [this, Bool.false_eq_true, ↓reduceIte]
        refine inv_step h h.wf (Nat.le_refl _) (fun kv hkv => Or.inl hkv) (hel_local L p (fun L' p' hq => setEl_other _ _ _ _ _ _ hq)
          (fun p' L' hq => setTold_other _ _ _ _ _ _ hq) (Or.inr ?_))
        refine elOk_untold ?_ ?_ (setTold_same _ _ _ _)
        · dsimp only; rw [setEl_same]; exact Or.inr (Or.inr rfl)
        · dsimp only; rw [setEl_same]; intro r hr; cases hr; exact hle

theorem inv_campaign (idOf : Nat → Bytes) {s : Sys} (h : Inv s) (p : Bytes) (L f : Nat) :
    Inv (campaignStep idOf s p L f).1 := by
  unfold campaignStep
  simp only []
  split
  · exact inv_campDel idOf (inv_campTxn idOf h p L f) p L f
  · exact inv_campTxn idOf h p L f

theorem inv_stepEv (idOf : Nat → Bytes) {s : Sys} (h : Inv s) (ev : Ev) : Inv (step idOf s ev).1 := by
  cases ev with
  | grant L ttl =>
    simp only [step]
    split
    · exact h
    · exact inv_leases h _
  | keepAlive L =>
    simp only [step]
    split
    · split
      · exact inv_leases h _
      · exact h
    · exact h
  | revoke L =>
    simp only [step]
    split
    · exact inv_kvs_filter h _ _ _
    · exact h
  | campaign p L f => exact inv_campaign idOf h p L f
  | campTxn p L f => exact inv_campTxn idOf h p L f
  | campDel p L f => exact inv_campDel idOf h p L f
  | renew p L f => exact inv_renew idOf h p L f
  | resign p L f => exact inv_resign idOf h p L f
  | leader p => exact h
  | tick d => exact inv_kvs_filter h _ _ _

theorem inv_run (idOf : Nat → Bytes) : ∀ (evs : List Ev) {s : Sys}, Inv s → Inv (run idOf s evs)
  | [], _, h => h
  | ev :: rest, _, h => inv_run idOf rest (inv_stepEv idOf h ev)

/-- at most one holder per prefix in any state satisfying the invariant -/
theorem holder_unique_of_inv {s : Sys} (h : Inv s) {p : Bytes} {L1 L2 : Nat}
    (h1 : holder s p L1) (h2 : holder s p L2) : L1 = L2 := by
  obtain ⟨t1, kv1, hm1, hk1, hc1⟩ := h1
  obtain ⟨t2, kv2, hm2, hk2, hc2⟩ := h2
  obtain ⟨e1, min1⟩ := h.told p L1 t1
  obtain ⟨e2, min2⟩ := h.told p L2 t2
  rw [e1] at hk1
  rw [e2] at hk2
  have p1 : p.isPrefixOf kv1.key = true := by rw [hk1]; exact keyOf_prefix p L1
  have p2 : p.isPrefixOf kv2.key = true := by rw [hk2]; exact keyOf_prefix p L2
  have a := min1 kv1 hm1 hk1 hc1 kv2 hm2 p2
  have b := min2 kv2 hm2 hk2 hc2 kv1 hm1 p1
  have heq : kv1 = kv2 := h.wf.eq_of_create hm1 hm2 (by omega)
  rw [heq] at hk1
  exact keyOf_inj (hk1.symm.trans hk2)

end GunYu.Etcd
