/-
  C20 — the concurrent replay system under `replace` / `ignore` with values the target can take: no entry fails, so no
  worker ever raises the cancel. (`conc_is_one_worker` needs "no cancel": with this it follows from its own hypotheses
  whenever the ENVIRONMENT does not cancel.)

  Core Lean only.
-/
import GunYu.Proofs.RestoreConcInv

namespace GunYu.Restore
open GunYu

theorem replay_out_ok (pol : Policy) (cfg : Cfg) (st : RState) (v : View) (e : Entry) (hp : pol ≠ .error)
    (hm : e.otype ≠ .module) : (replay pol cfg st v e).2.1 = .ok := by
  unfold replay
  cases pol with
  | error => exact absurd rfl hp
  | replace => (repeat' split) <;> simp_all
  | ignore => (repeat' split) <;> simp_all

theorem buildUnit_out_ok (pol : Policy) (cfg : Cfg) (st : RState) (v : View) (e : Entry) (hp : pol ≠ .error)
    (hm : e.otype ≠ .module) (hb : ¬ (keyless e = false ∧ useRestore cfg e = true ∧ v.badData = true)) :
    bOut (buildUnit pol cfg st v e).2.2.1 = .ok := by
  have hk : (!(decide (e.otype = OType.func) || decide (e.otype = OType.aux))) = !keyless e := rfl
  unfold buildUnit
  cases pol with
  | error => exact absurd rfl hp
  | replace => simp only [hk]; (repeat' split) <;> simp_all [bOut]
  | ignore => simp only [hk]; (repeat' split) <;> simp_all [bOut]

/-- an entry that cannot fail under `replace` / `ignore`: not a module value; bidirectional — where the RESTORE path is
    taken the target can load the payload -/
def EntryNoFail (E : Env) (e : Entry) : Prop :=
  (retag E.w.rht e).otype ≠ .module ∧
  (E.bisync = true → keyless e = false → ¬ (e.db ≥ 0 ∧ E.w.filterDb e.db.toNat = true) → ¬ E.w.filterKey e.key = true →
    useRestore E.cfg (retag E.w.rht e) = true → E.bad (retag E.w.rht e).key = false)

theorem stepF_out_ok (E : Env) (hp : E.pol ≠ .error) (cur : Nat) (st : RState) (ks : KS) (e : Entry) (h : EntryNoFail E e) :
    (stepF E.w E.bisync E.pol E.cfg cur st (E.tgt cur ks) e).out = .ok := by
  by_cases c1 : e.db ≥ 0 ∧ E.w.filterDb e.db.toNat = true
  · simp only [stepF, c1, and_self, ↓reduceIte]
  · by_cases c2 : E.w.filterKey e.key = true
    · simp only [stepF, c1, c2, ↓reduceIte]
    · cases hb : E.bisync with
      | false =>
        simp only [stepF, c1, c2, ↓reduceIte, Bool.false_eq_true]
        exact replay_out_ok E.pol E.cfg st _ _ hp h.1
      | true =>
        simp only [stepF, c1, c2, ↓reduceIte, Bool.false_eq_true]
        refine buildUnit_out_ok E.pol E.cfg st _ _ hp h.1 ?_
        rintro ⟨k1, k2, k3⟩
        rw [retag_keyless] at k1
        have hbad : (viewOf (applyReqs (E.tgt cur ks) (if e.db ≥ 0 ∧ E.w.mapDb e.db.toNat ≠ cur
            then [Req.select (E.w.mapDb e.db.toNat)] else [])) (retag E.w.rht e)).badData = E.bad (retag E.w.rht e).key := by
          simp only [viewOf, applyReqs_bad]; rfl
        rw [hbad, h.2 hb k1 c1 c2 k2] at k3
        cases k3

/-- one step of a worker that has not failed and whose pipe holds only entries that cannot fail -/
theorem wstep_ok (E : Env) (hp : E.pol ≠ .error) (c o : Bool) (W : WSt) (ks : KS) (ho : W.out = .ok)
    (hq : ∀ e ∈ W.queue, EntryNoFail E e) :
    (wstep E c o W ks).1.out = .ok ∧ (∀ e ∈ (wstep E c o W ks).1.queue, EntryNoFail E e) ∧ (wstep E c o W ks).2.2 = false := by
  cases hh : W.halted with
  | true => rw [wstep_halted E c o W ks hh]; exact ⟨ho, hq, rfl⟩
  | false =>
    cases hpd : W.pend with
    | cons q qs => rw [wstep_exec E c o W ks q qs hh hpd]; exact ⟨ho, hq, rfl⟩
    | nil =>
      by_cases hc : c = true ∧ o = true
      · rw [wstep_observe E c o W ks hh hpd ho hc]; exact ⟨ho, hq, rfl⟩
      · cases hqq : W.queue with
        | nil => rw [wstep_drain E c o W ks hh hpd ho hc hqq]; exact ⟨ho, hq, rfl⟩
        | cons e rest =>
          rw [wstep_take E c o W ks e rest hh hpd ho hc hqq]
          refine ⟨stepF_out_ok E hp W.cur W.st ks e (hq e (by rw [hqq]; exact List.mem_cons_self ..)),
            fun x hx => hq x (by rw [hqq]; exact List.mem_cons_of_mem _ hx), rfl⟩

structure AllOk (E : Env) (S : Sys) : Prop where
  out : ∀ (i : Nat) (W : WSt), S.ws[i]? = some W → W.out = .ok
  q   : ∀ (i : Nat) (W : WSt), S.ws[i]? = some W → ∀ e ∈ W.queue, EntryNoFail E e
  nc  : S.cancel = false

def Move.isCancel : Move → Bool
  | .cancel => true
  | _ => false

theorem AllOk.move (E : Env) (hp : E.pol ≠ .error) (S : Sys) (h : AllOk E S) (m : Move) (hm : m.isCancel = false) :
    AllOk E (Sys.move E S m) := by
  cases m with
  | cancel => cases hm
  | close j k =>
    cases hj : S.ws[j]? with
    | none => rw [move_close_none E S j k hj]; exact h
    | some Wj =>
      rw [move_close_some E S j k Wj hj]
      have hjlt : j < S.ws.length := (List.getElem?_eq_some_iff.mp hj).1
      refine ⟨?_, ?_, h.nc⟩
      · intro i W hi
        simp only [List.getElem?_set] at hi
        by_cases hji : j = i
        · subst hji; simp [hjlt] at hi; subst hi; exact h.out j Wj hj
        · simp [hji] at hi; exact h.out i W hi
      · intro i W hi
        simp only [List.getElem?_set] at hi
        by_cases hji : j = i
        · subst hji; simp [hjlt] at hi; subst hi
          exact fun e he => h.q j Wj hj e (List.mem_of_mem_take he)
        · simp [hji] at hi; exact h.q i W hi
  | work j obs =>
    show AllOk E (Sys.step E S j obs)
    unfold Sys.step
    cases hj : S.ws[j]? with
    | none => exact h
    | some Wj =>
      simp only
      have hjlt : j < S.ws.length := (List.getElem?_eq_some_iff.mp hj).1
      obtain ⟨w1, w2, w3⟩ := wstep_ok E hp S.cancel obs Wj S.ks (h.out j Wj hj) (h.q j Wj hj)
      refine ⟨?_, ?_, by show (S.cancel || _) = false; rw [w3, h.nc]; rfl⟩
      · intro i W hi
        simp only [List.getElem?_set] at hi
        by_cases hji : j = i
        · subst hji; simp [hjlt] at hi; subst hi; exact w1
        · simp [hji] at hi; exact h.out i W hi
      · intro i W hi
        simp only [List.getElem?_set] at hi
        by_cases hji : j = i
        · subst hji; simp [hjlt] at hi; subst hi; exact w2
        · simp [hji] at hi; exact h.q i W hi

theorem AllOk.run (E : Env) (hp : E.pol ≠ .error) :
    ∀ (sched : List Move) (S : Sys), AllOk E S → (∀ m ∈ sched, m.isCancel = false) → AllOk E (Sys.run E S sched)
  | [], _, h, _ => h
  | m :: rest, S, h, hs =>
    AllOk.run E hp rest _ (AllOk.move E hp S h m (hs m (List.mem_cons_self ..))) (fun x hx => hs x (List.mem_cons_of_mem _ hx))

end GunYu.Restore
