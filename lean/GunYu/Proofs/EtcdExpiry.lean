/-
  Leases of the etcd election system: every key in the store is attached to a
  live lease and is the election key of that lease under a '/'-terminated
  prefix; a lease that gets no keep-alive keeps its deadline, and once the
  clock is past it no key of that lease is left.
-/
import GunYu.Proofs.EtcdInv2

set_option linter.unusedSimpArgs false
set_option linter.unusedVariables false

namespace GunYu.Etcd
open GunYu

/-- election prefixes as cmd/syncer.go builds them end in '/' -/
def PfxOk (p : Bytes) : Prop := p.getLast? = some 47

theorem hexDigit_ne_slash (n : Nat) (h : n < 16) : hexDigit n ≠ 47 := by
  intro h0
  have := hexDigit_toNat n h
  rw [h0] at this
  have h2 : (47 : UInt8).toNat = 47 := rfl
  by_cases h10 : n < 10
  · simp only [h10, ↓reduceIte] at this; omega
  · simp only [h10, ↓reduceIte] at this; omega

theorem natToHexAux_noslash (fuel n : Nat) (acc : Bytes) (hacc : ∀ b ∈ acc, b ≠ 47) :
    ∀ b ∈ natToHexAux fuel n acc, b ≠ 47 := by
  induction fuel generalizing n acc with
  | zero => simpa [natToHexAux] using hacc
  | succ f ih =>
    have hm : n % 16 < 16 := Nat.mod_lt _ (by decide)
    have hacc' : ∀ b ∈ hexDigit (n % 16) :: acc, b ≠ 47 := by
      intro b hb
      rcases List.mem_cons.1 hb with rfl | hb
      · exact hexDigit_ne_slash _ hm
      · exact hacc b hb
    simp only [natToHexAux]
    split
    · exact hacc'
    · exact ih _ _ hacc'

theorem natToHex_noslash (n : Nat) : ∀ b ∈ natToHex n, b ≠ 47 :=
  natToHexAux_noslash (n + 1) n [] (by simp)

/-- `p ++ h = p' ++ h'` with '/'-terminated `p`, `p'` and '/'-free `h`, `h'` splits uniquely -/
theorem split_unique {p p' h h' : Bytes} (hp : PfxOk p) (hp' : PfxOk p')
    (hh : ∀ b ∈ h, b ≠ 47) (hh' : ∀ b ∈ h', b ≠ 47) (e : p ++ h = p' ++ h') : p = p' ∧ h = h' := by
  rcases List.append_eq_append_iff.1 e with ⟨a, rfl, rfl⟩ | ⟨a, rfl, rfl⟩
  · -- p' = p ++ a, h = a ++ h'
    cases a with
    | nil => simp
    | cons x xs =>
      exfalso
      unfold PfxOk at hp'
      rw [List.getLast?_append] at hp'
      have hne : (x :: xs).getLast? = some ((x :: xs).getLast (by simp)) := List.getLast?_eq_some_getLast (by simp)
      rw [hne] at hp'
      simp only [Option.some_or, Option.some.injEq] at hp'
      have hmem : (x :: xs).getLast (by simp) ∈ x :: xs := List.getLast_mem _
      exact hh _ (List.mem_append_left _ hmem) hp'
  · cases a with
    | nil => simp
    | cons x xs =>
      exfalso
      unfold PfxOk at hp
      rw [List.getLast?_append] at hp
      have hne : (x :: xs).getLast? = some ((x :: xs).getLast (by simp)) := List.getLast?_eq_some_getLast (by simp)
      rw [hne] at hp
      simp only [Option.some_or, Option.some.injEq] at hp
      have hmem : (x :: xs).getLast (by simp) ∈ x :: xs := List.getLast_mem _
      exact hh' _ (List.mem_append_left _ hmem) hp

theorem keyOf_inj2 {p p' : Bytes} {L L' : Nat} (hp : PfxOk p) (hp' : PfxOk p')
    (e : keyOf p L = keyOf p' L') : p = p' ∧ L = L' := by
  rw [keyOf_eq, keyOf_eq] at e
  obtain ⟨e1, e2⟩ := split_unique hp hp' (natToHex_noslash L) (natToHex_noslash L') e
  exact ⟨e1, natToHex_inj e2⟩

/-- the prefixes an event uses are '/'-terminated -/
def Ev.pfxOk : Ev → Prop
  | .campaign p _ _ => PfxOk p
  | .campTxn p _ _ => PfxOk p
  | .campDel p _ _ => PfxOk p
  | .renew p _ _ => PfxOk p
  | .resign p _ _ => PfxOk p
  | _ => True

/-- lease side of the invariant -/
structure LInv (s : Sys) : Prop where
  zero : s.st.leases 0 = none
  live : ∀ kv ∈ s.st.kvs, kv.lease ≠ 0 ∧ s.st.leaseLive kv.lease = true
  owner : ∀ kv ∈ s.st.kvs, ∃ p, PfxOk p ∧ kv.key = keyOf p kv.lease

theorem linv_init (rev now : Nat) : LInv (Sys.init rev now) :=
  ⟨rfl, by simp [Sys.init], by simp [Sys.init]⟩

/-- requests never touch leases or the clock -/
theorem evalTxn_frame {t : Txn} {a : Args} {st st' : Store} {r : TxnResp}
    (h : evalTxn t a st = some (st', r)) : st'.leases = st.leases ∧ st'.now = st.now := by
  unfold evalTxn at h
  split at h
  · cases h
  · dsimp only at h
    split at h
    · cases h
    · simp only [Option.some.injEq, Prod.mk.injEq] at h
      obtain ⟨h1, _⟩ := h
      subst h1; exact ⟨rfl, rfl⟩

theorem evalSingle_frame {op : Op} {a : Args} {st st' : Store} {r : List KV}
    (h : evalSingle op a st = some (st', r)) : st'.leases = st.leases ∧ st'.now = st.now := by
  unfold evalSingle at h
  split at h
  · cases h
  · split at h
    · cases h
    · simp only [Option.some.injEq, Prod.mk.injEq] at h
      obtain ⟨h1, _⟩ := h
      subst h1; exact ⟨rfl, rfl⟩

/-- a step that leaves leases and clock alone and whose new keys are election
    keys of a live lease keeps the lease invariant -/
theorem linv_of {s s' : Sys} (h : LInv s) (hl : s'.st.leases = s.st.leases) (hn : s'.st.now = s.st.now)
    (hk : ∀ kv ∈ s'.st.kvs, kv ∈ s.st.kvs ∨
      (kv.lease ≠ 0 ∧ s.st.leaseLive kv.lease = true ∧ ∃ p, PfxOk p ∧ kv.key = keyOf p kv.lease)) : LInv s' := by
  have hlive : ∀ L, s'.st.leaseLive L = s.st.leaseLive L := by
    intro L; unfold Store.leaseLive; rw [hl, hn]
  refine ⟨by rw [hl]; exact h.zero, fun kv hkv => ?_, fun kv hkv => ?_⟩
  · rcases hk kv hkv with hold | ⟨h0, h1, _⟩
    · rw [hlive]; exact h.live kv hold
    · rw [hlive]; exact ⟨h0, h1⟩
  · rcases hk kv hkv with hold | ⟨_, _, h2⟩
    · exact h.owner kv hold
    · exact h2

theorem linv_campTxn (idOf : Nat → Bytes) {s : Sys} (hi : Inv s) (h : LInv s) (p : Bytes) (L f : Nat)
    (hp : PfxOk p) : LInv (campTxn idOf s p L f).1 := by
  have hL0 : s.st.leaseLive L = true → L ≠ 0 := by
    intro hl h0
    subst h0
    unfold Store.leaseLive leaseLiveAt at hl
    rw [h.zero] at hl; cases hl
  unfold campTxn
  dsimp only
  rw [campaignTxn_eval _ _ (fun kv hkv => (hi.wf.pos kv hkv).1)]
  by_cases hf1 : f = 1
  · simp only [hf1, ↓reduceIte]
    exact linv_of h rfl rfl (fun kv hkv => Or.inl hkv)
  simp only [hf1, ↓reduceIte]
  unfold campaignTxnSpec
  have hkne : keyOf p L ≠ [] := keyOf_ne_nil p L
  by_cases hpe : p = []
  · simp only [hpe, or_true, ↓reduceIte]
    exact linv_of h rfl rfl (fun kv hkv => Or.inl hkv)
  simp only [hkne, hpe, or_self, ↓reduceIte]
  cases hfk : findKey s.st.kvs (keyOf p L) with
  | none =>
    dsimp only
    by_cases hl : s.st.leaseLive L = true
    · simp only [hl, ↓reduceIte]
      have hk' : ∀ kv ∈ s.st.kvs ++ [newKV { key := keyOf p L, pfx := p, val := idOf L, lease := L, rev := (s.el L p).rev } s.st],
          kv ∈ s.st.kvs ∨ (kv.lease ≠ 0 ∧ s.st.leaseLive kv.lease = true ∧ ∃ p, PfxOk p ∧ kv.key = keyOf p kv.lease) := by
        intro kv hkv
        rcases List.mem_append.1 hkv with hkv | hkv
        · exact Or.inl hkv
        · simp at hkv; subst hkv; right
          exact ⟨hL0 hl, hl, p, hp, rfl⟩
      by_cases hf2 : f = 2
      · simp only [hf2, ↓reduceIte]
        exact linv_of h rfl rfl hk'
      simp only [hf2, ↓reduceIte, Gen.etcdOwnerResp, Gen.etcdOwnResp]
      simp only [List.getElem?_cons_succ, List.getElem?_cons_zero]
      split
      · exact linv_of h rfl rfl hk'
      · exact linv_of h rfl rfl hk'
    · simp only [hl, Bool.false_eq_true, ↓reduceIte]
      exact linv_of h rfl rfl (fun kv hkv => Or.inl hkv)
  | some own =>
    dsimp only
    by_cases hf2 : f = 2
    · simp only [hf2, ↓reduceIte]
      exact linv_of h rfl rfl (fun kv hkv => Or.inl hkv)
    simp only [hf2, ↓reduceIte, Gen.etcdOwnerResp, Gen.etcdOwnResp, Bool.false_eq_true]
    simp only [List.getElem?_cons_succ, List.getElem?_cons_zero, List.getD_cons_zero, List.head?_cons, Option.map_some]
    split
    · exact linv_of h rfl rfl (fun kv hkv => Or.inl hkv)
    · exact linv_of h rfl rfl (fun kv hkv => Or.inl hkv)

theorem linv_campDel (idOf : Nat → Bytes) {s : Sys} (h : LInv s) (p : Bytes) (L f : Nat) :
    LInv (campDel idOf s p L f).1 := by
  unfold campDel
  dsimp only
  rw [loserDelete_eval]
  by_cases hp : (!(s.el L p).pend) = true
  · simp only [hp, ↓reduceIte]; exact h
  simp only [hp, Bool.false_eq_true, ↓reduceIte]
  by_cases hf3 : f = 3
  · simp only [hf3, ↓reduceIte]
    exact linv_of h rfl rfl (fun kv hkv => Or.inl hkv)
  simp only [hf3, ↓reduceIte]
  by_cases hk : (s.el L p).key = []
  · simp only [hk, ↓reduceIte]
    exact linv_of h rfl rfl (fun kv hkv => Or.inl hkv)
  simp only [hk, ↓reduceIte]
  by_cases hf4 : f = 4
  · simp only [hf4, ↓reduceIte]
    exact linv_of h rfl rfl (fun kv hkv => Or.inl (mem_delKV hkv))
  · simp only [hf4, ↓reduceIte]
    exact linv_of h rfl rfl (fun kv hkv => Or.inl (mem_delKV hkv))

theorem linv_resign (idOf : Nat → Bytes) {s : Sys} (h : LInv s) (p : Bytes) (L f : Nat) :
    LInv (resignStep idOf s p L f).1 := by
  unfold resignStep
  dsimp only
  rw [resignTxn_eval]
  unfold resignTxnSpec
  by_cases hf1 : f = 1
  · simp only [hf1, ↓reduceIte]
    exact linv_of h rfl rfl (fun kv hkv => Or.inl hkv)
  simp only [hf1, ↓reduceIte]
  by_cases hk : (s.el L p).key = []
  · simp only [hk, ↓reduceIte]
    exact linv_of h rfl rfl (fun kv hkv => Or.inl hkv)
  simp only [hk, ↓reduceIte]
  by_cases hc : some (createRevOf s.st.kvs (s.el L p).key) = (s.el L p).rev
  · simp only [hc, ↓reduceIte]
    exact linv_of h rfl rfl (fun kv hkv => Or.inl (mem_delKV hkv))
  · simp only [hc, ↓reduceIte]
    exact linv_of h rfl rfl (fun kv hkv => Or.inl hkv)

theorem linv_renew (idOf : Nat → Bytes) {s : Sys} (h : LInv s) (p : Bytes) (L f : Nat) :
    LInv (renewStep idOf s p L f).1 := by
  unfold renewStep
  dsimp only
  rw [renewGet_eval]
  split
  · exact h
  split
  · exact h
  · split
    · exact linv_of h rfl rfl (fun kv hkv => Or.inl hkv)
    · split
      · exact linv_of h rfl rfl (fun kv hkv => Or.inl hkv)
      · exact linv_of h rfl rfl (fun kv hkv => Or.inl hkv)

theorem setLease_same (f : Nat → Option LeaseRec) (L : Nat) (l : LeaseRec) : setLease f L l L = some l := by
  simp [setLease]

theorem setLease_other (f : Nat → Option LeaseRec) (L L' : Nat) (l : LeaseRec) (h : L' ≠ L) :
    setLease f L l L' = f L' := by
  simp [setLease, h]

theorem linv_stepEv (idOf : Nat → Bytes) {s : Sys} (hi : Inv s) (h : LInv s) (ev : Ev) (hp : ev.pfxOk) :
    LInv (step idOf s ev).1 := by
  cases ev with
  | grant L ttl =>
    simp only [step]
    split
    · exact h
    · rename_i hc
      have hL0 : L ≠ 0 := fun e => hc (Or.inl e)
      have hnone : s.st.leases L = none := by
        cases hh : s.st.leases L with
        | none => rfl
        | some l => exact absurd (Or.inr (by simp [hh])) hc
      refine ⟨?_, fun kv hkv => ?_, fun kv hkv => h.owner kv hkv⟩
      · dsimp only; rw [setLease_other _ _ _ _ (fun e => hL0 e.symm)]; exact h.zero
      · obtain ⟨h0, hl⟩ := h.live kv hkv
        refine ⟨h0, ?_⟩
        have hne : kv.lease ≠ L := by
          intro e; rw [e] at hl
          unfold Store.leaseLive leaseLiveAt at hl
          rw [hnone] at hl; cases hl
        unfold Store.leaseLive leaseLiveAt at hl ⊢
        dsimp only
        rw [setLease_other _ _ _ _ hne]; exact hl
  | keepAlive L =>
    simp only [step]
    split
    · rename_i l hl
      split
      · rename_i hlive
        have hL0 : L ≠ 0 := by
          intro e; subst e; rw [h.zero] at hl; cases hl
        refine ⟨?_, fun kv hkv => ?_, fun kv hkv => h.owner kv hkv⟩
        · dsimp only; rw [setLease_other _ _ _ _ (fun e => hL0 e.symm)]; exact h.zero
        · obtain ⟨h0, hlv⟩ := h.live kv hkv
          refine ⟨h0, ?_⟩
          by_cases hne : kv.lease = L
          · unfold Store.leaseLive leaseLiveAt at hlive ⊢
            dsimp only
            rw [hne, setLease_same]
            rw [hl] at hlive
            simp only [Bool.and_eq_true, Bool.not_eq_true', decide_eq_true_eq] at hlive ⊢
            exact ⟨hlive.1, Nat.le_add_right _ _⟩
          · unfold Store.leaseLive leaseLiveAt at hlv ⊢
            dsimp only
            rw [setLease_other _ _ _ _ hne]; exact hlv
      · exact h
    · exact h
  | revoke L =>
    simp only [step]
    split
    · rename_i l hl
      have hL0 : L ≠ 0 := by
        intro e; subst e; rw [h.zero] at hl; cases hl
      refine ⟨?_, fun kv hkv => ?_, fun kv hkv => h.owner kv (List.mem_filter.1 hkv).1⟩
      · dsimp only; rw [setLease_other _ _ _ _ (fun e => hL0 e.symm)]; exact h.zero
      · obtain ⟨hm, hne⟩ := List.mem_filter.1 hkv
        obtain ⟨h0, hlv⟩ := h.live kv hm
        refine ⟨h0, ?_⟩
        have hne' : kv.lease ≠ L := by simpa using hne
        unfold Store.leaseLive leaseLiveAt at hlv ⊢
        dsimp only
        rw [setLease_other _ _ _ _ hne']; exact hlv
    · exact h
  | campaign p L f =>
    simp only [step]
    unfold campaignStep
    dsimp only
    split
    · exact linv_campDel idOf (linv_campTxn idOf hi h p L f hp) p L f
    · exact linv_campTxn idOf hi h p L f hp
  | campTxn p L f => exact linv_campTxn idOf hi h p L f hp
  | campDel p L f => exact linv_campDel idOf h p L f
  | renew p L f => exact linv_renew idOf h p L f
  | resign p L f => exact linv_resign idOf h p L f
  | leader p => exact h
  | tick d =>
    simp only [step]
    refine ⟨h.zero, fun kv hkv => ?_, fun kv hkv => h.owner kv (List.mem_filter.1 hkv).1⟩
    obtain ⟨hm, hlv⟩ := List.mem_filter.1 hkv
    obtain ⟨h0, _⟩ := h.live kv hm
    refine ⟨h0, ?_⟩
    unfold liveKV at hlv
    simp only [Bool.or_eq_true, decide_eq_true_eq, h0, false_or] at hlv
    exact hlv

theorem inv_linv_run (idOf : Nat → Bytes) : ∀ (evs : List Ev) {s : Sys}, Inv s → LInv s →
    (∀ ev ∈ evs, ev.pfxOk) → Inv (run idOf s evs) ∧ LInv (run idOf s evs)
  | [], _, hi, hl, _ => ⟨hi, hl⟩
  | ev :: rest, _, hi, hl, hp =>
    inv_linv_run idOf rest (inv_stepEv idOf hi ev) (linv_stepEv idOf hi hl ev (hp ev (by simp)))
      (fun e he => hp e (List.mem_cons_of_mem _ he))

/-! ### a lease that is not kept alive keeps its deadline -/

def Ev.isKeepAlive (L : Nat) : Ev → Bool
  | .keepAlive L' => L' = L
  | _ => false

theorem campTxn_frame (idOf : Nat → Bytes) (s : Sys) (p : Bytes) (L f : Nat) :
    (campTxn idOf s p L f).1.st.leases = s.st.leases ∧ (campTxn idOf s p L f).1.st.now = s.st.now := by
  unfold campTxn
  dsimp only
  split
  · exact ⟨rfl, rfl⟩
  · split
    · exact ⟨rfl, rfl⟩
    · rename_i st' r he
      have := evalTxn_frame he
      split
      · exact this
      · split
        · split <;> exact this
        · exact this

theorem campDel_frame (idOf : Nat → Bytes) (s : Sys) (p : Bytes) (L f : Nat) :
    (campDel idOf s p L f).1.st.leases = s.st.leases ∧ (campDel idOf s p L f).1.st.now = s.st.now := by
  unfold campDel
  dsimp only
  split
  · exact ⟨rfl, rfl⟩
  split
  · exact ⟨rfl, rfl⟩
  split
  · exact ⟨rfl, rfl⟩
  · rename_i st' r he
    have := evalSingle_frame he
    split <;> exact this

theorem step_frame (idOf : Nat → Bytes) (s : Sys) (ev : Ev) (L : Nat) (l : LeaseRec)
    (hl : s.st.leases L = some l) (hk : ev.isKeepAlive L = false) :
    ∃ l', (step idOf s ev).1.st.leases L = some l' ∧ l'.dl = l.dl ∧ s.st.now ≤ (step idOf s ev).1.st.now := by
  cases ev with
  | grant L' ttl =>
    simp only [step]
    split
    · exact ⟨l, hl, rfl, Nat.le_refl _⟩
    · rename_i hc
      have hne : L ≠ L' := by
        intro e; subst e; exact hc (Or.inr (by simp [hl]))
      exact ⟨l, by dsimp only; rw [setLease_other _ _ _ _ hne]; exact hl, rfl, Nat.le_refl _⟩
  | keepAlive L' =>
    have hne : L ≠ L' := by
      intro e; subst e; simp [Ev.isKeepAlive] at hk
    simp only [step]
    split
    · split
      · exact ⟨l, by dsimp only; rw [setLease_other _ _ _ _ hne]; exact hl, rfl, Nat.le_refl _⟩
      · exact ⟨l, hl, rfl, Nat.le_refl _⟩
    · exact ⟨l, hl, rfl, Nat.le_refl _⟩
  | revoke L' =>
    simp only [step]
    split
    · rename_i l2 hl2
      by_cases hne : L = L'
      · subst hne
        rw [hl] at hl2; cases hl2
        exact ⟨⟨l.ttl, l.dl, true⟩, by dsimp only; rw [setLease_same], rfl, Nat.le_refl _⟩
      · exact ⟨l, by dsimp only; rw [setLease_other _ _ _ _ hne]; exact hl, rfl, Nat.le_refl _⟩
    · exact ⟨l, hl, rfl, Nat.le_refl _⟩
  | campaign p L' f =>
    simp only [step]
    unfold campaignStep
    dsimp only
    have h1 := campTxn_frame idOf s p L' f
    split
    · have h2 := campDel_frame idOf (campTxn idOf s p L' f).1 p L' f
      exact ⟨l, by rw [h2.1, h1.1]; exact hl, rfl, by rw [h2.2, h1.2]; exact Nat.le_refl _⟩
    · exact ⟨l, by rw [h1.1]; exact hl, rfl, by rw [h1.2]; exact Nat.le_refl _⟩
  | campTxn p L' f =>
    have h1 := campTxn_frame idOf s p L' f
    exact ⟨l, by simp only [step]; rw [h1.1]; exact hl, rfl, by simp only [step]; rw [h1.2]; exact Nat.le_refl _⟩
  | campDel p L' f =>
    have h1 := campDel_frame idOf s p L' f
    exact ⟨l, by simp only [step]; rw [h1.1]; exact hl, rfl, by simp only [step]; rw [h1.2]; exact Nat.le_refl _⟩
  | renew p L' f =>
    have : (renewStep idOf s p L' f).1.st = s.st := by
      unfold renewStep
      dsimp only
      split
      · rfl
      split
      · rfl
      · split
        · rfl
        · split <;> rfl
    exact ⟨l, by simp only [step]; rw [this]; exact hl, rfl, by simp only [step]; rw [this]; exact Nat.le_refl _⟩
  | resign p L' f =>
    have : (resignStep idOf s p L' f).1.st.leases = s.st.leases ∧ (resignStep idOf s p L' f).1.st.now = s.st.now := by
      unfold resignStep
      dsimp only
      split
      · exact ⟨rfl, rfl⟩
      split
      · exact ⟨rfl, rfl⟩
      · rename_i st' r he
        exact evalTxn_frame he
    exact ⟨l, by simp only [step]; rw [this.1]; exact hl, rfl, by simp only [step]; rw [this.2]; exact Nat.le_refl _⟩
  | leader p => exact ⟨l, hl, rfl, Nat.le_refl _⟩
  | tick d => exact ⟨l, hl, rfl, by simp only [step]; exact Nat.le_add_right _ _⟩

theorem run_frame (idOf : Nat → Bytes) (L : Nat) : ∀ (evs : List Ev) (s : Sys) (l : LeaseRec),
    s.st.leases L = some l → (∀ ev ∈ evs, ev.isKeepAlive L = false) →
    ∃ l', (run idOf s evs).st.leases L = some l' ∧ l'.dl = l.dl
  | [], s, l, hl, _ => ⟨l, hl, rfl⟩
  | ev :: rest, s, l, hl, hk => by
    obtain ⟨l1, h1, hd1, _⟩ := step_frame idOf s ev L l hl (hk ev (by simp))
    obtain ⟨l2, h2, hd2⟩ := run_frame idOf L rest (step idOf s ev).1 l1 h1 (fun e he => hk e (List.mem_cons_of_mem _ he))
    exact ⟨l2, h2, by rw [hd2, hd1]⟩

end GunYu.Etcd
