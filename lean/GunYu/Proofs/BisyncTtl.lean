/-
  Helper lemmas for C13: which keys can carry an expiry.

  `TtlFrame P st st'`: every entry of `st'` that carries an expiry either
  carried the same expiry in `st` or sits at a key satisfying `P`. For
  `propagate` only the FIRST argument of SET / (P)EXPIRE(AT) / RESTORE can gain
  an expiry; every other command leaves the expiries as they are (or removes
  them). Consequence (`NsTtl`): in a store where clients stay out of the
  reserved namespace, the only namespace keys with an expiry are the marker
  keys the links write — so every bookkeeping request (whose keys are
  namespace keys of another form) meets no lazily expiring key and propagates
  as itself or not at all (`BookClean`, derived instead of assumed).
-/
import GunYu.Proofs.BisyncWorld

namespace GunYu.Bisync
open GunYu GunYu.BisyncUnit

/-! ### Store.get after del / put -/

theorem get_del (st : Store) (k k' : Bytes) :
    (Store.del st k).get k' = if k' = k then none else st.get k' := by
  unfold Store.del Store.get
  induction st with
  | nil => simp [List.lookup]
  | cons p rest ih =>
    obtain ⟨k0, e0⟩ := p
    by_cases h0 : k0 = k
    · subst h0
      rw [List.filter_cons_of_neg (by simp)]
      rw [ih]
      by_cases hk : k' = k0
      · simp [hk]
      · have hb : (k' == k0) = false := by simpa using hk
        rw [if_neg hk, if_neg hk]
        simp only [List.lookup, hb]
    · rw [List.filter_cons_of_pos (by simpa using h0)]
      by_cases hk : k' = k0
      · subst hk
        simp [List.lookup, h0]
      · have hb : (k' == k0) = false := by simpa using hk
        simp only [List.lookup, hb]
        rw [ih]

theorem get_del_same (st : Store) (k : Bytes) : (Store.del st k).get k = none := by
  rw [get_del]; simp

theorem get_del_other (st : Store) (k k' : Bytes) (h : k' ≠ k) : (Store.del st k).get k' = st.get k' := by
  rw [get_del]; simp [h]

theorem get_put_same (st : Store) (k : Bytes) (e : Entry) : (Store.put st k e).get k = some e := by
  unfold Store.put Store.get
  simp [List.lookup]

theorem get_put_other (st : Store) (k k' : Bytes) (e : Entry) (h : k' ≠ k) :
    (Store.put st k e).get k' = st.get k' := by
  unfold Store.put
  have hb : (k' == k) = false := by simpa using h
  show List.lookup k' ((k, e) :: Store.del st k) = _
  simp only [List.lookup, hb]
  exact get_del_other st k k' h

/-! ### frames -/

def TtlFrame (P : Bytes → Prop) (st st' : Store) : Prop :=
  ∀ k e', st'.get k = some e' → e'.expireAt.isSome = true →
    (∃ e, st.get k = some e ∧ e.expireAt = e'.expireAt) ∨ P k

theorem TtlFrame.refl (P : Bytes → Prop) (st : Store) : TtlFrame P st st :=
  fun _ e' h _ => Or.inl ⟨e', h, rfl⟩

theorem TtlFrame.mono {P Q : Bytes → Prop} {st st' : Store} (h : TtlFrame P st st') (hpq : ∀ k, P k → Q k) :
    TtlFrame Q st st' := by
  intro k e' hg hs
  rcases h k e' hg hs with h1 | h1
  · exact Or.inl h1
  · exact Or.inr (hpq k h1)

theorem TtlFrame.trans {P : Bytes → Prop} {a b c : Store} (h1 : TtlFrame P a b) (h2 : TtlFrame P b c) :
    TtlFrame P a c := by
  intro k e' hg hs
  rcases h2 k e' hg hs with ⟨e, he, hx⟩ | hp
  · have hs' : e.expireAt.isSome = true := by rw [hx]; exact hs
    rcases h1 k e he hs' with ⟨e0, he0, hx0⟩ | hp
    · exact Or.inl ⟨e0, he0, hx0.trans hx⟩
    · exact Or.inr hp
  · exact Or.inr hp

theorem frame_del (P : Bytes → Prop) (st : Store) (k : Bytes) : TtlFrame P st (Store.del st k) := by
  intro k' e' hg _
  by_cases hk : k' = k
  · rw [hk, get_del_same] at hg; cases hg
  · rw [get_del_other _ _ _ hk] at hg
    exact Or.inl ⟨e', hg, rfl⟩

theorem frame_put (P : Bytes → Prop) (st : Store) (k : Bytes) (e : Entry)
    (h : e.expireAt.isSome = true → (∃ e0, st.get k = some e0 ∧ e0.expireAt = e.expireAt) ∨ P k) :
    TtlFrame P st (Store.put st k e) := by
  intro k' e' hg hs
  by_cases hk : k' = k
  · rw [hk, get_put_same] at hg
    injection hg with hg
    rw [hk, ← hg]
    rw [← hg] at hs
    exact h hs
  · rw [get_put_other _ _ _ _ hk] at hg
    exact Or.inl ⟨e', hg, rfl⟩

theorem lazyExpire_store (cfg : RedisCfg) (now : Nat) (st : Store) (k : Bytes) :
    (lazyExpire cfg now st k).1 = st ∨ (lazyExpire cfg now st k).1 = Store.del st k := by
  unfold lazyExpire
  cases st.get k with
  | none => left; rfl
  | some e =>
    simp only
    cases e.expireAt with
    | none => left; rfl
    | some t =>
      simp only
      by_cases h : t ≤ now
      · right; rw [if_pos h]
      · left; rw [if_neg h]

theorem frame_lazyExpire (P : Bytes → Prop) (cfg : RedisCfg) (now : Nat) (st : Store) (k : Bytes) :
    TtlFrame P st (lazyExpire cfg now st k).1 := by
  rcases lazyExpire_store cfg now st k with h | h <;> rw [h]
  · exact .refl _ _
  · exact frame_del _ _ _

/-- after the lazy-expiry lookup the entry at `k` is the old one or gone -/
theorem lazyExpire_get (cfg : RedisCfg) (now : Nat) (st : Store) (k : Bytes) (e : Entry)
    (h : (lazyExpire cfg now st k).1.get k = some e) : st.get k = some e := by
  rcases lazyExpire_store cfg now st k with h1 | h1 <;> rw [h1] at h
  · exact h
  · rw [get_del_same] at h; cases h

theorem frame_lazyExpireAll (P : Bytes → Prop) (cfg : RedisCfg) (now : Nat) (ks : List Bytes) (st : Store) :
    TtlFrame P st (lazyExpireAll cfg now st ks).1 := by
  induction ks generalizing st with
  | nil => exact .refl _ _
  | cons k ks ih =>
    simp only [lazyExpireAll]
    exact (frame_lazyExpire P cfg now st k).trans (ih _)

theorem frame_foldl_del (P : Bytes → Prop) (ks : List Bytes) (st : Store) :
    TtlFrame P st (ks.foldl Store.del st) := by
  induction ks generalizing st with
  | nil => exact .refl _ _
  | cons k ks ih =>
    simp only [List.foldl]
    exact (frame_del P st k).trans (ih _)

theorem frame_ite {P : Bytes → Prop} {st : Store} {p : Prop} [Decidable p] (a b : Store × List Cmd)
    (h1 : TtlFrame P st a.1) (h2 : TtlFrame P st b.1) : TtlFrame P st (if p then a else b).1 := by
  split <;> assumption

/-! ### the command families -/

/-- "the first argument is `k`" -/
def HeadIs (c : Cmd) (k : Bytes) : Prop := c.args.head? = some k

theorem frame_propSet (cfg : RedisCfg) (now : Nat) (st : Store) (c : Cmd) :
    TtlFrame (HeadIs c) st (propSet cfg now st c).1 := by
  unfold propSet
  split
  · rename_i k v opts hargs
    have hhead : HeadIs c k := by unfold HeadIs; rw [hargs]; rfl
    simp only
    split
    · exact .refl _ _
    · have hpre := frame_lazyExpire (HeadIs c) cfg now st k
      split
      · exact hpre
      · split
        · exact hpre.trans (frame_put _ _ _ _ (fun _ => Or.inr hhead))
        · refine hpre.trans (frame_put _ _ _ _ ?_)
          intro hs
          simp only at hs
          split at hs
          · cases hg : (lazyExpire cfg now st k).1.get k with
            | none => rw [hg] at hs; simp at hs
            | some e0 =>
              left
              rename_i hk
              refine ⟨e0, rfl, ?_⟩
              simp only [hk, ↓reduceIte]
              rfl
          · simp at hs
  · exact .refl _ _

theorem frame_propDel (cfg : RedisCfg) (now : Nat) (st : Store) (c : Cmd) :
    TtlFrame (fun _ => False) st (propDel cfg now st c).1 := by
  unfold propDel
  simp only
  have hpre := frame_lazyExpireAll (fun _ => False) cfg now c.args st
  split
  · exact hpre
  · exact hpre.trans (frame_foldl_del _ _ _)

theorem frame_propExpire (cfg : RedisCfg) (now : Nat) (st : Store) (n : Bytes) (c : Cmd) :
    TtlFrame (HeadIs c) st (propExpire cfg now st n c).1 := by
  unfold propExpire
  split
  · rename_i k t hargs
    have hhead : HeadIs c k := by unfold HeadIs; rw [hargs]; rfl
    have hpre := frame_lazyExpire (HeadIs c) cfg now st k
    split
    · exact .refl _ _
    · simp only
      split
      · exact hpre
      · apply frame_ite
        · exact hpre.trans (frame_del _ _ _)
        · exact hpre.trans (frame_put _ _ _ _ (fun _ => Or.inr hhead))
  · exact .refl _ _

theorem frame_propPersist (cfg : RedisCfg) (now : Nat) (st : Store) (c : Cmd) :
    TtlFrame (fun _ => False) st (propPersist cfg now st c).1 := by
  unfold propPersist
  split
  · rename_i k hargs
    have hpre := frame_lazyExpire (fun _ => False) cfg now st k
    simp only
    split
    · split
      · exact hpre.trans (frame_put _ _ _ _ (fun hs => by simp at hs))
      · exact hpre
    · exact hpre
  · exact .refl _ _

theorem frame_touchKind (P : Bytes → Prop) (st st2 : Store) (kind : Kind) (k : Bytes) (ms : List Bytes)
    (h : touchKind st kind k ms = some st2) : TtlFrame P st st2 := by
  unfold touchKind at h
  cases hg : st.get k with
  | none =>
    rw [hg] at h
    injection h with h
    rw [← h]
    exact frame_put _ _ _ _ (fun hs => by simp at hs)
  | some e =>
    rw [hg] at h
    simp only at h
    split at h
    · cases h
    · injection h with h
      rw [← h]
      exact frame_put _ _ _ _ (fun _ => Or.inl ⟨e, hg, rfl⟩)

theorem frame_propAdd (cfg : RedisCfg) (now : Nat) (st : Store) (kind : Kind)
    (members : List Bytes → List Bytes) (c : Cmd) :
    TtlFrame (fun _ => False) st (propAdd cfg now st kind members c).1 := by
  unfold propAdd
  split
  · rename_i k rest hargs
    have hpre := frame_lazyExpire (fun _ => False) cfg now st k
    simp only
    split
    · exact hpre
    · rename_i st2 ht
      exact hpre.trans (frame_touchKind _ _ _ _ _ _ ht)
  · exact .refl _ _

theorem frame_remMembers (P : Bytes → Prop) (st : Store) (kind : Kind) (c : Cmd) (k : Bytes) (ms : List Bytes)
    (pre : List Cmd) : TtlFrame P st (remMembers st kind c k ms pre).1 := by
  unfold remMembers
  cases hg : st.get k with
  | none => exact .refl _ _
  | some e =>
    simp only
    split
    · exact .refl _ _
    · split
      · exact .refl _ _
      · split
        · exact frame_del _ _ _
        · exact frame_put _ _ _ _ (fun _ => Or.inl ⟨e, hg, rfl⟩)

theorem frame_propRem (cfg : RedisCfg) (now : Nat) (st : Store) (kind : Kind) (c : Cmd) :
    TtlFrame (fun _ => False) st (propRem cfg now st kind c).1 := by
  unfold propRem
  split
  · rename_i k ms hargs
    exact (frame_lazyExpire (fun _ => False) cfg now st k).trans (frame_remMembers _ _ _ _ _ _ _)
  · exact .refl _ _

theorem frame_propSadd (cfg : RedisCfg) (now : Nat) (st : Store) (c : Cmd) :
    TtlFrame (fun _ => False) st (propSadd cfg now st c).1 := by
  unfold propSadd
  split
  · rename_i k ms hargs
    have hpre := frame_lazyExpire (fun _ => False) cfg now st k
    simp only
    split
    · exact hpre
    · rename_i st2 ht
      apply frame_ite
      · exact hpre.trans (frame_touchKind _ _ _ _ _ _ ht)
      · exact hpre
  · exact .refl _ _

theorem frame_propRestore (cfg : RedisCfg) (now : Nat) (st : Store) (c : Cmd) :
    TtlFrame (HeadIs c) st (propRestore cfg now st c).1 := by
  unfold propRestore
  split
  · rename_i k t payload opts hargs
    have hhead : HeadIs c k := by unfold HeadIs; rw [hargs]; rfl
    have hpre := frame_lazyExpire (HeadIs c) cfg now st k
    split
    · exact .refl _ _
    · simp only
      split
      · exact hpre
      · exact hpre.trans (frame_put _ _ _ _ (fun _ => Or.inr hhead))
  · exact .refl _ _

theorem frame_propOther (cfg : RedisCfg) (now : Nat) (st : Store) (c : Cmd) :
    TtlFrame (fun _ => False) st (propOther cfg now st c).1 := by
  unfold propOther
  simp only
  have hpre := frame_lazyExpireAll (fun _ => False) cfg now ((commandKeys c.name c.args).getD []) st
  split
  · split
    · exact hpre
    · exact hpre.trans (frame_put _ _ _ _ (fun hs => by simp at hs))
  · exact hpre

/-- the command names that can give a key an expiry -/
def ttlName (n : Bytes) : Bool :=
  n == wSet || n == wExpire || n == wPexpire || n == wExpireat || n == wPexpireat || n == wRestore

/-- only the first argument of SET / (P)EXPIRE(AT) / RESTORE can gain an expiry -/
def TtlAt (c : Cmd) (k : Bytes) : Prop := ttlName (lower c.name) = true ∧ HeadIs c k

theorem frame_propagate (cfg : RedisCfg) (now : Nat) (st : Store) (c : Cmd) :
    TtlFrame (TtlAt c) st (propagate cfg now st c).1 := by
  rw [propagate_eq]
  have none_ok : ∀ st', TtlFrame (fun _ => False) st st' → TtlFrame (TtlAt c) st st' :=
    fun _ h => h.mono (fun _ hf => hf.elim)
  by_cases h1 : (lower c.name == wSet) = true
  · rw [if_pos h1]
    exact (frame_propSet cfg now st c).mono (fun k hk => ⟨by unfold ttlName; simp [h1], hk⟩)
  rw [if_neg h1]
  by_cases h2 : (lower c.name == wDel || lower c.name == wUnlink) = true
  · rw [if_pos h2]; exact none_ok _ (frame_propDel cfg now st c)
  rw [if_neg h2]
  by_cases h3 : (lower c.name == wExpire || lower c.name == wPexpire || lower c.name == wExpireat ||
      lower c.name == wPexpireat) = true
  · rw [if_pos h3]
    refine (frame_propExpire cfg now st _ c).mono (fun k hk => ⟨?_, hk⟩)
    unfold ttlName
    simp only [Bool.or_eq_true] at h3 ⊢
    rcases h3 with ((h | h) | h) | h <;> simp [h]
  rw [if_neg h3]
  by_cases h4 : (lower c.name == wPersist) = true
  · rw [if_pos h4]; exact none_ok _ (frame_propPersist cfg now st c)
  rw [if_neg h4]
  by_cases h5 : (lower c.name == wHset || lower c.name == wHmset) = true
  · rw [if_pos h5]; exact none_ok _ (frame_propAdd cfg now st _ _ c)
  rw [if_neg h5]
  by_cases h6 : (lower c.name == wHdel) = true
  · rw [if_pos h6]; exact none_ok _ (frame_propRem cfg now st _ c)
  rw [if_neg h6]
  by_cases h7 : (lower c.name == wSadd) = true
  · rw [if_pos h7]; exact none_ok _ (frame_propSadd cfg now st c)
  rw [if_neg h7]
  by_cases h8 : (lower c.name == wSrem) = true
  · rw [if_pos h8]; exact none_ok _ (frame_propRem cfg now st _ c)
  rw [if_neg h8]
  by_cases h9 : (lower c.name == wZadd) = true
  · rw [if_pos h9]; exact none_ok _ (frame_propAdd cfg now st _ _ c)
  rw [if_neg h9]
  by_cases h10 : (lower c.name == wZrem) = true
  · rw [if_pos h10]; exact none_ok _ (frame_propRem cfg now st _ c)
  rw [if_neg h10]
  by_cases h11 : (lower c.name == wRestore) = true
  · rw [if_pos h11]
    exact (frame_propRestore cfg now st c).mono (fun k hk => ⟨by unfold ttlName; simp [h11], hk⟩)
  rw [if_neg h11]
  exact none_ok _ (frame_propOther cfg now st c)

theorem frame_execCmds (cfg : RedisCfg) (now : Nat) (cs : List Cmd) (st : Store) :
    TtlFrame (fun k => ∃ c ∈ cs, TtlAt c k) st (execCmds cfg now st cs).1 := by
  induction cs generalizing st with
  | nil => exact .refl _ _
  | cons c cs ih =>
    simp only [execCmds]
    exact ((frame_propagate cfg now st c).mono (fun k hk => ⟨c, by simp, hk⟩)).trans
      ((ih _).mono (fun k ⟨c', hc', hk⟩ => ⟨c', List.mem_cons_of_mem _ hc', hk⟩))

end GunYu.Bisync
