/-
  C05, disk backend — an ABSTRACT SPECIFICATION of the stream part and the refinement
  `disk ⊑ spec` as ONE importable statement (session 5; snapshots are not part of it).

  Spec state: the byte history since the last reset (`base`, `hist`), the first offset
  still held (`lo`: the window held is `hist[lo - base ..]`) and the open stream readers
  with their start, position and output.

  * `Disk.spec`     : the abstraction function
  * `SpecWF`        : the spec-level invariant (what a client may rely on)
  * `SpecStepH`     : the history-level transition relation of the spec: a step keeps the
                      history, appends exactly one chunk to it, or starts an empty one
  * `spec_wf`, `spec_window`, `spec_step_hist` : every concrete state / step refines them

  What is NOT here (see checks/p/C05.py `partial`): a reader-level step relation for ALL
  operations (positions move forward, nobody else's reader changes) is proved for
  schedules only (Proofs/StoreReach.lean: `quiet_frame`, `follow_move`), and the snapshot.
-/
import GunYu.Proofs.StoreReach

namespace GunYu.Store
open GunYu

structure SReader where
  id : Nat
  start : Nat
  pos : Nat
  out : Bytes
deriving Repr, DecidableEq

structure Spec where
  base : Nat
  hist : Bytes
  lo : Nat
  readers : List SReader
deriving Repr, DecidableEq

def Spec.endOff (a : Spec) : Nat := a.base + a.hist.length

/-- the bytes the cache holds: the history from `lo` on -/
def Spec.window (a : Spec) : Bytes := a.hist.drop (a.lo - a.base)

def Disk.spec (s : Disk) : Spec :=
  { base := s.hbase, hist := s.hist,
    lo := match firstLeft s.all with
      | some l => l
      | none => s.hbase + s.hist.length,
    readers := (s.readers.filter (fun r => r.isOpen && r.isAof)).map
      (fun r => { id := r.id, start := r.start, pos := r.pos, out := r.out }) }

structure SpecWF (a : Spec) : Prop where
  lo_ge : a.base ≤ a.lo
  lo_le : a.lo ≤ a.endOff
  readers : ∀ r ∈ a.readers, a.base ≤ r.start ∧ r.start ≤ r.pos ∧ a.lo ≤ r.pos ∧ r.pos ≤ a.endOff ∧
      r.out = (a.hist.drop (r.start - a.base)).take (r.pos - r.start)

inductive SpecStepH (a a' : Spec) : Prop where
  | same (hb : a'.base = a.base) (hh : a'.hist = a.hist)
  | append (chunk : Bytes) (hb : a'.base = a.base) (hh : a'.hist = a.hist ++ chunk)
  | fresh (hh : a'.hist = [])

theorem spec_wf {s : Disk} (h : DInv s) : SpecWF s.spec := by
  have hlo : s.hbase ≤ s.spec.lo ∧ s.spec.lo ≤ s.hbase + s.hist.length := by
    unfold Disk.spec
    cases hfl : firstLeft s.all with
    | none => simp only []; omega
    | some f =>
      simp only []
      cases hall : s.all with
      | nil => rw [hall] at hfl; simp [firstLeft] at hfl
      | cons g t =>
        rw [hall] at hfl
        simp [firstLeft] at hfl
        have hg : g ∈ s.all := by rw [hall]; simp
        obtain ⟨e1, e2, _⟩ := h.embed g hg
        simp only [DSeg.right] at e2
        omega
  refine ⟨hlo.1, hlo.2, ?_⟩
  intro r hr
  obtain ⟨x, hx, rfl⟩ := List.mem_map.mp hr
  obtain ⟨hxm, hxo⟩ := List.mem_filter.mp hx
  simp only [Bool.and_eq_true] at hxo
  obtain ⟨⟨g, hg, _, hgl, hgr⟩, _, hs, hsp, hout⟩ := (h.readersOk x hxm hxo.1).1 hxo.2
  obtain ⟨_, e2, _⟩ := h.embed g hg
  refine ⟨hs, hsp, ?_, by show x.pos ≤ s.hbase + s.hist.length; omega, hout⟩
  show s.spec.lo ≤ x.pos
  unfold Disk.spec
  cases hfl : firstLeft s.all with
  | none =>
    cases hall : s.all with
    | nil => rw [hall] at hg; cases hg
    | cons a t => rw [hall] at hfl; simp [firstLeft] at hfl
  | some f =>
    simp only []
    have := contig_first_le h.contig hg hfl
    omega

/-- the bytes the concrete index holds ARE the spec's window -/
theorem spec_window {s : Disk} (h : DInv s) : s.abs.bytes = s.spec.window := by
  unfold Spec.window
  by_cases hne : s.all = []
  · have : firstLeft s.all = none := by rw [hne]; rfl
    simp [Disk.abs, Disk.spec, hne, firstLeft]
  · obtain ⟨_, hb⟩ := abs_bytes_eq h hne
    rw [hb]
    cases hfl : firstLeft s.all with
    | none =>
      cases hall : s.all with
      | nil => exact absurd hall hne
      | cons a t => rw [hall] at hfl; simp [firstLeft] at hfl
    | some f => simp [Disk.abs, Disk.spec, hfl]

/-- every concrete step is a history-level step of the spec -/
theorem spec_step_hist (s : Disk) (op : DOp) : SpecStepH s.spec (s.step op).1.spec := by
  rcases hist_step s op with ⟨hb, hh⟩ | ⟨chunk, _, _, hb, hh⟩ | hh
  · exact .same hb hh
  · exact .append chunk hb hh
  · exact .fresh hh

end GunYu.Store
