/-
  Helper lemmas for C10, the byte-indexed trie (pkg/filter/trie.go model).
-/
import GunYu.Model.Filter

namespace GunYu.Filter
open GunYu

namespace Trie

theorem search_empty (w : Bytes) : empty.search w = false := by
  cases w <;> simp [empty, search]

theorem search_nil (t : Trie) : t.search [] = t.isEnd := by
  cases t; simp [search, isEnd]

/-- the words marked in a trie after `Insert(w)` are the old ones and `w` -/
theorem search_insert (t : Trie) (w w' : Bytes) :
    (t.insert w).search w' = true ↔ w' = w ∨ t.search w' = true := by
  induction w generalizing t w' with
  | nil =>
    cases t with
    | node e ch =>
      cases w' with
      | nil => simp [insert, search]
      | cons c w2 => simp [insert, search]
  | cons b w1 ih =>
    cases t with
    | node e ch =>
      cases w' with
      | nil => simp [insert, search]
      | cons c w2 =>
        simp only [insert, search]
        by_cases hcb : c = b
        · subst hcb
          simp only [if_true, List.cons.injEq, true_and]
          rw [ih]
          cases hch : ch c with
          | none => simp [search_empty]
          | some n => simp
        · simp only [hcb, if_false, List.cons.injEq, false_and, false_or]

theorem search_foldl_insert (ws : List Bytes) (t : Trie) (w : Bytes) :
    (ws.foldl (fun t k => t.insert k) t).search w = true ↔ w ∈ ws ∨ t.search w = true := by
  induction ws generalizing t with
  | nil => simp
  | cons x rest ih =>
    simp only [List.foldl_cons, ih, search_insert, List.mem_cons]
    constructor
    · rintro (h | h | h)
      · exact Or.inl (Or.inr h)
      · exact Or.inl (Or.inl h)
      · exact Or.inr h
    · rintro ((h | h) | h)
      · exact Or.inr (Or.inl h)
      · exact Or.inl h
      · exact Or.inr (Or.inr h)

/-- `IsPrefixMatch` holds exactly when a marked non-empty word is a byte prefix -/
theorem isPrefixMatch_iff (t : Trie) (k : Bytes) :
    t.isPrefixMatch k = true ↔ ∃ p, p ≠ [] ∧ t.search p = true ∧ p <+: k := by
  induction k generalizing t with
  | nil =>
    simp only [isPrefixMatch, List.prefix_nil]
    constructor
    · intro h; cases h
    · rintro ⟨p, h1, _, h3⟩; exact absurd h3 h1
  | cons b k1 ih =>
    cases t with
    | node e ch =>
      simp only [isPrefixMatch]
      cases hch : ch b with
      | none =>
        constructor
        · intro h; cases h
        · rintro ⟨p, h1, h2, h3⟩
          cases p with
          | nil => exact absurd rfl h1
          | cons c p1 =>
            have hc : c = b := (List.cons_prefix_cons.mp h3).1
            subst hc
            simp [search, hch] at h2
      | some n =>
        simp only
        by_cases hend : n.isEnd = true
        · simp only [hend, if_true, true_iff]
          refine ⟨[b], by simp, ?_, ?_⟩
          · simp [search, hch, search_nil, hend]
          · exact List.cons_prefix_cons.mpr ⟨rfl, List.nil_prefix⟩
        · have hend' : n.isEnd = false := by simpa using hend
          simp only [hend', Bool.false_eq_true, if_false]
          rw [ih n]
          constructor
          · rintro ⟨p1, h1, h2, h3⟩
            refine ⟨b :: p1, by simp, ?_, List.cons_prefix_cons.mpr ⟨rfl, h3⟩⟩
            simp [search, hch, h2]
          · rintro ⟨p, h1, h2, h3⟩
            cases p with
            | nil => exact absurd rfl h1
            | cons c p1 =>
              obtain ⟨hc, hp⟩ := List.cons_prefix_cons.mp h3
              subst hc
              simp only [search, hch] at h2
              refine ⟨p1, ?_, h2, hp⟩
              intro hnil
              subst hnil
              rw [search_nil] at h2
              exact hend h2

end Trie

/-! ### optional tries (nil = not configured) -/

def optSearch (o : Option Trie) (w : Bytes) : Bool :=
  match o with
  | some t => t.search w
  | none => false

def optMatch (o : Option Trie) (k : Bytes) : Bool :=
  match o with
  | some t => t.isPrefixMatch k
  | none => false

theorem optMatch_iff (o : Option Trie) (k : Bytes) :
    optMatch o k = true ↔ ∃ p, p ≠ [] ∧ optSearch o p = true ∧ p <+: k := by
  cases o with
  | none => simp [optMatch, optSearch]
  | some t => simp only [optMatch, optSearch]; exact Trie.isPrefixMatch_iff t k

theorem optSearch_insertPrefixes (o : Option Trie) (ks : List Bytes) (w : Bytes) :
    optSearch (insertPrefixes o ks) w = true ↔ w ∈ ks ∨ optSearch o w = true := by
  unfold insertPrefixes
  split
  · rename_i he
    have : ks = [] := by simpa using he
    simp [this]
  · simp only [optSearch, Trie.search_foldl_insert]
    cases o with
    | none => simp [Trie.search_empty]
    | some t => simp

theorem isSome_insertPrefixes (o : Option Trie) (ks : List Bytes) :
    (insertPrefixes o ks).isSome = true ↔ ks ≠ [] ∨ o.isSome = true := by
  unfold insertPrefixes
  split
  · rename_i he
    have : ks = [] := by simpa using he
    simp [this]
  · rename_i he
    have : ks ≠ [] := by simpa using he
    simp [this]

theorem search_foldl_cmds (cmds : List Bytes) (t : Trie) (w : Bytes) :
    (cmds.foldl (fun t c => (t.insert (lower c)).insert (upper c)) t).search w = true ↔
      (∃ c ∈ cmds, w = lower c ∨ w = upper c) ∨ t.search w = true := by
  induction cmds generalizing t with
  | nil => simp
  | cons x rest ih =>
    simp only [List.foldl_cons, ih, Trie.search_insert, List.mem_cons, exists_eq_or_imp]
    constructor
    · rintro (h | h | h | h)
      · exact Or.inl (Or.inr h)
      · exact Or.inl (Or.inl (Or.inr h))
      · exact Or.inl (Or.inl (Or.inl h))
      · exact Or.inr h
    · rintro (((h | h) | h) | h)
      · exact Or.inr (Or.inr (Or.inl h))
      · exact Or.inr (Or.inl h)
      · exact Or.inl h
      · exact Or.inr (Or.inr (Or.inr h))

theorem optSearch_insertCmds (o : Option Trie) (cmds : List Bytes) (w : Bytes) :
    optSearch (insertCmds o cmds true) w = true ↔
      (∃ c ∈ cmds, w = lower c ∨ w = upper c) ∨ optSearch o w = true := by
  unfold insertCmds
  split
  · rename_i he
    have : cmds = [] := by simpa using he
    simp [this]
  · simp only [optSearch, if_true, search_foldl_cmds]
    cases o with
    | none => simp [Trie.search_empty]
    | some t => simp

theorem isSome_insertCmds (o : Option Trie) (cmds : List Bytes) (ci : Bool) :
    (insertCmds o cmds ci).isSome = true ↔ cmds ≠ [] ∨ o.isSome = true := by
  unfold insertCmds
  split
  · rename_i he
    have : cmds = [] := by simpa using he
    simp [this]
  · rename_i he
    have : cmds ≠ [] := by simpa using he
    simp [this]

end GunYu.Filter
