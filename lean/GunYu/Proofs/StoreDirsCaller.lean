/-
  C05, disk backend with several run-id directories — the callers' protocol derived
  over `DiskD` (review r4, item 2).

  In `DiskD` the sequence the callers issue to clear the cache, `DelRunId(current);
  SetRunId(rid)`, LOADS the directory of `rid` when one exists, and `SetRunId(rid)` with
  another id current SWITCHES to it: `Continues q` / "cleared" do not survive that in
  general. They do for the id the callers pass — the FIRST id of the list they asked
  `VerifyRunId` with — because after `VerifyRunId (rid :: …)` either `rid` is the current id
  or it has no directory (`verify_head_free`), PROVIDED no directory holds "latest offset 0"
  (`VerifyRunId` skips such a directory AFTER having switched to it: `newest == 0 → continue`).
  That proviso is derived from `PosOps`: every writer is created at an offset > 0.
-/
import GunYu.Proofs.StoreDirs
import GunYu.Proofs.StoreCaller
import GunYu.Proofs.StoreProgress

namespace GunYu.Store
open GunYu

/-! ### offsets are positive -/

def Pos (s : Disk) : Prop := (∀ g ∈ s.all, 0 < g.left) ∧ (∀ rd, s.rdb = some rd → 0 < rd.left)

def PosOp : DOp → Prop
  | .newAofWriter off => 0 < off
  | .newRdbWriter off _ => 0 < off
  | _ => True

theorem Pos.of_same {s s' : Disk} (h : Pos s) (h1 : s'.live = s.live) (h2 : s'.segs = s.segs)
    (h3 : s'.rdb = s.rdb ∨ s'.rdb = none ∨ ∃ r r', s.rdb = some r ∧ s'.rdb = some r' ∧ r'.left = r.left) : Pos s' := by
  refine ⟨?_, ?_⟩
  · intro g hg; apply h.1 g; unfold Disk.all at hg ⊢; rw [h1, h2] at hg; exact hg
  · intro rd hrd
    rcases h3 with e | e | ⟨r, r', e1, e2, e3⟩
    · exact h.2 rd (e ▸ hrd)
    · rw [e] at hrd; cases hrd
    · rw [e2] at hrd; cases hrd; rw [e3]; exact h.2 r e1

theorem lastRight_mem : ∀ (l : List DSeg) (r : Nat), lastRight l = some r → ∃ g ∈ l, g.right = r := by
  intro l
  induction l with
  | nil => intro r h; simp [lastRight] at h
  | cons a t ih =>
    intro r h
    cases t with
    | nil => simp [lastRight] at h; exact ⟨a, by simp, h⟩
    | cons b u =>
      rw [lastRight_cons_cons] at h
      obtain ⟨g, hg, e⟩ := ih r h
      exact ⟨g, List.mem_cons_of_mem _ hg, e⟩

theorem Pos.latest_ne_zero {s : Disk} (h : Pos s) : s.latest ≠ 0 := by
  unfold Disk.latest
  cases hl : lastRight s.all with
  | some r =>
    obtain ⟨g, hg, e⟩ := lastRight_mem _ r hl
    have := h.1 g hg
    simp only [DSeg.right] at e
    simp only []
    omega
  | none =>
    cases hr : s.rdb with
    | some rd => have := h.2 rd hr; simp only []; omega
    | none => simp

theorem Pos.closeLive {s : Disk} (h : Pos s) : Pos s.closeLive := by
  obtain ⟨_, _, hr⟩ := closeLive_hist s
  refine ⟨?_, fun rd hrd => h.2 rd (hr ▸ hrd)⟩
  intro g hg
  apply h.1 g
  unfold Disk.closeLive at hg
  unfold Disk.all at hg ⊢
  cases hl : s.live with
  | none => rw [hl] at hg; dsimp only at hg; rw [hl] at hg; exact hg
  | some x =>
    rw [hl] at hg
    dsimp only at hg
    split at hg
    · simp only [Option.toList_none, List.append_nil] at hg; exact List.mem_append_left _ hg
    · simpa using hg

theorem Pos.closeAllForSwitch {s : Disk} (h : Pos s) : Pos s.closeAllForSwitch := by
  unfold Disk.closeAllForSwitch
  apply Pos.closeLive
  obtain ⟨_, _, _, d4, d5, _⟩ := dropWritingRdb_fields ({ s with readers := closeAllReaders s.readers } : Disk)
  refine Pos.of_same h d5 d4 ?_
  unfold Disk.dropWritingRdb
  cases hr : s.rdb with
  | none => left; simp [hr]
  | some r =>
    simp only [hr]
    split
    · right; left; rfl
    · left; simp [hr]

theorem Pos.reset (s : Disk) : Pos s.reset :=
  ⟨by intro g hg; simp [Disk.reset, Disk.all] at hg, by intro rd h; simp [Disk.reset] at h⟩

theorem gc_rdb (s : Disk) : s.gc.rdb = s.rdb ∨ s.gc.rdb = none := by
  unfold Disk.gc
  split
  · exact Or.inl rfl
  · generalize gcScanRev s.maxSize s.all.reverse 0 = ks
    obtain ⟨k, size⟩ := ks
    simp only []
    split
    · rename_i hr; left; rw [hr]
    · split
      · split
        · exact Or.inr rfl
        · exact Or.inl rfl
      · rename_i r hr _; left; show s.rdb = s.rdb; rfl

theorem Pos.step {s : Disk} (hi : DInv s) (h : Pos s) (o : DOp) (hp : PosOp o) : Pos (s.step o).1 := by
  cases o with
  | setRunId id =>
    simp only [Disk.step]
    split
    · exact Pos.of_same (Pos.reset s) rfl rfl (Or.inl rfl)
    · split
      · exact h
      · obtain ⟨hd, hl, hr, _, _, _⟩ := closeAllForSwitch_spec hi
        rw [rescan_eq_self hd hl hr]
        exact Pos.of_same h.closeAllForSwitch rfl rfl (Or.inl rfl)
  | delRunId =>
    simp only [Disk.step]
    split
    · exact h
    · exact Pos.of_same (Pos.reset s) rfl rfl (Or.inl rfl)
  | newRdbWriter off size =>
    refine ⟨by intro g hg; simp [Disk.step, Disk.reset, Disk.all] at hg, ?_⟩
    intro rd hrd
    simp only [Disk.step] at hrd
    cases hrd; exact hp
  | rdbAppend chunk =>
    simp only [Disk.step]
    cases hr : s.rdb with
    | none => exact h
    | some r =>
      simp only []
      split
      · split
        · exact Pos.of_same h rfl rfl (Or.inr (Or.inr ⟨r, _, hr, rfl, rfl⟩))
        · exact Pos.of_same h rfl rfl (Or.inr (Or.inr ⟨r, _, hr, rfl, rfl⟩))
      · exact h
  | rdbClose =>
    simp only [Disk.step]
    cases hr : s.rdb with
    | none => exact h
    | some r =>
      simp only []
      split
      · exact Pos.of_same h rfl rfl (Or.inr (Or.inl rfl))
      · exact h
  | newAofWriter off =>
    have hc := h.closeLive
    obtain ⟨_, _, hr⟩ := closeLive_hist s
    refine ⟨?_, fun rd hrd => hc.2 rd hrd⟩
    intro g hg
    simp only [Disk.step, Disk.all, closeLive_live] at hg
    have hl := closeLive_live s
    rcases List.mem_append.mp hg with h1 | h1
    · apply hc.1 g; unfold Disk.all; exact List.mem_append_left _ h1
    · simp at h1; subst h1; exact hp
  | aofAppend chunk =>
    simp only [Disk.step]
    cases hl : s.live with
    | none => simp only [Disk.appendLive, hl]; exact h
    | some g =>
      have hg : 0 < g.left := h.1 g (by unfold Disk.all; rw [hl]; simp)
      simp only [Disk.appendLive, hl]
      split
      · refine ⟨?_, h.2⟩
        intro x hx
        unfold Disk.all at hx
        simp only [Option.toList_some] at hx
        rcases List.mem_append.mp hx with h1 | h1
        · rcases List.mem_append.mp h1 with h2 | h2
          · exact h.1 x (by unfold Disk.all; exact List.mem_append_left _ h2)
          · simp at h2; subst h2; exact hg
        · simp at h1; subst h1; simp only [DSeg.right]; omega
      · refine ⟨?_, h.2⟩
        intro x hx
        unfold Disk.all at hx
        simp only [Option.toList_some] at hx
        rcases List.mem_append.mp hx with h1 | h1
        · exact h.1 x (by unfold Disk.all; exact List.mem_append_left _ h1)
        · simp at h1; subst h1; exact hg
  | aofClose => exact h.closeLive
  | gc =>
    obtain ⟨⟨pre, hpre⟩, hl, _, _, _⟩ := gc_frame s
    refine ⟨?_, ?_⟩
    · intro g hg
      exact h.1 g (gc_all_subset s g hg)
    · intro rd hrd
      rcases gc_rdb s with e | e
      · exact h.2 rd (e ▸ hrd)
      · have hrd' : s.gc.rdb = some rd := hrd
        rw [e] at hrd'; cases hrd'
  | openReader rid off crcOk =>
    obtain ⟨a, b, c⟩ := open_fields s rid off crcOk
    exact Pos.of_same h a b (Or.inl c)
  | read rid n =>
    obtain ⟨a, b, c⟩ := read_fields s rid n
    exact Pos.of_same h a b (Or.inl c)
  | advAcquire rid =>
    obtain ⟨a, b, c⟩ := advAcquire_fields s rid
    exact Pos.of_same h a b (Or.inl c)
  | advRelease rid =>
    obtain ⟨a, b, c⟩ := advRelease_fields s rid
    exact Pos.of_same h a b (Or.inl c)
  | closeReader rid =>
    obtain ⟨a, b, c⟩ := closeReader_fields s rid
    exact Pos.of_same h a b (Or.inl c)


/-! ### the current id only changes through the run-id operations -/

theorem closeLive_runId (s : Disk) : s.closeLive.runId = s.runId := by
  unfold Disk.closeLive
  cases s.live with
  | none => rfl
  | some g => dsimp only; split <;> rfl

theorem gc_runId (s : Disk) : s.gc.runId = s.runId := by
  unfold Disk.gc
  split
  · rfl
  · generalize gcScanRev s.maxSize s.all.reverse 0 = ks
    obtain ⟨k, size⟩ := ks
    simp only []
    repeat' split
    all_goals rfl

theorem open_runId (s : Disk) (rid off : Nat) (crc : Bool) : (s.open rid off crc).1.runId = s.runId := by
  simp only [Disk.open]
  repeat' split
  all_goals rfl

theorem read_runId (s : Disk) (rid n : Nat) : (s.read rid n).1.runId = s.runId := by
  simp only [Disk.read]
  repeat' split
  all_goals rfl

theorem advAcquire_runId (s : Disk) (rid : Nat) : (s.advAcquire rid).1.runId = s.runId := by
  simp only [Disk.advAcquire]
  repeat' split
  all_goals rfl

theorem advRelease_runId (s : Disk) (rid : Nat) : (s.advRelease rid).1.runId = s.runId := by
  simp only [Disk.advRelease]
  repeat' split
  all_goals rfl

theorem closeReader_runId (s : Disk) (rid : Nat) : (s.closeReader rid).1.runId = s.runId := by
  simp only [Disk.closeReader]
  repeat' split
  all_goals rfl

theorem appendLive_runId (s : Disk) (chunk : Bytes) : (s.appendLive chunk).1.runId = s.runId := by
  simp only [Disk.appendLive]
  repeat' split
  all_goals rfl

theorem step_runId (s : Disk) (o : DOp) (h1 : ∀ id, o ≠ .setRunId id) (h2 : o ≠ .delRunId) :
    (s.step o).1.runId = s.runId := by
  cases o with
  | setRunId id => exact absurd rfl (h1 id)
  | delRunId => exact absurd rfl h2
  | newRdbWriter off size => rfl
  | rdbAppend chunk =>
    simp only [Disk.step]
    cases s.rdb with
    | none => rfl
    | some r =>
      dsimp only
      split
      · split <;> rfl
      · rfl
  | rdbClose =>
    simp only [Disk.step]
    cases s.rdb with
    | none => rfl
    | some r => dsimp only; split <;> rfl
  | newAofWriter off => exact closeLive_runId s
  | aofAppend chunk =>
    have := appendLive_runId s chunk
    simp only [Disk.step]
    split
    · exact this
    · rfl
  | aofClose => exact closeLive_runId s
  | gc => exact gc_runId s
  | openReader rid off crcOk => exact open_runId s rid off crcOk
  | read rid n => exact read_runId s rid n
  | advAcquire rid => exact advAcquire_runId s rid
  | advRelease rid => exact advRelease_runId s rid
  | closeReader rid => exact closeReader_runId s rid

/-! ### the directories' ids -/

/-- no directory is filed under a placeholder id or under the current id -/
structure KeysInv (x : DiskD) : Prop where
  cur : x.cur.runId ≠ "?"
  keys : ∀ e ∈ x.dirs, e.1 ≠ "" ∧ e.1 ≠ "?" ∧ e.1 ≠ x.cur.runId

theorem KeysInv.init (l m : Nat) : KeysInv (DiskD.init l m) :=
  ⟨by simp [DiskD.init, Disk.init], by intro e he; cases he⟩

theorem dirLookup_none_iff {dirs : List (String × Disk)} {id : String} :
    dirLookup dirs id = none ↔ ∀ e ∈ dirs, e.1 ≠ id := by
  unfold dirLookup
  constructor
  · intro h e he hid
    cases hf : dirs.find? (fun e => e.1 == id) with
    | none => have := List.find?_eq_none.mp hf e he; simp [hid] at this
    | some y => rw [hf] at h; cases h
  · intro h
    have : dirs.find? (fun e => e.1 == id) = none := by
      apply List.find?_eq_none.mpr
      intro e he; simpa using h e he
    rw [this]; rfl

theorem dirErase_keys {dirs : List (String × Disk)} {id : String} : ∀ e ∈ dirErase dirs id, e.1 ≠ id := by
  intro e he
  have := (List.mem_filter.mp he).2
  simpa using this

theorem parkCur_keys {x : DiskD} (h : KeysInv x) : ∀ e ∈ x.parkCur, e.1 ≠ "" ∧ e.1 ≠ "?" := by
  intro e he
  unfold DiskD.parkCur at he
  split at he
  · exact ⟨(h.keys e he).1, (h.keys e he).2.1⟩
  · rename_i hne
    rcases List.mem_cons.mp he with rfl | he
    · exact ⟨hne, h.cur⟩
    · exact ⟨(h.keys e he).1, (h.keys e he).2.1⟩

theorem loaded_runId (img : Disk) (id : String) (rs : List DReader) : (img.loaded id rs).runId = id := rfl

theorem KeysInv.setRunId {x : DiskD} (h : KeysInv x) (new : String) : KeysInv (x.setRunId new) := by
  unfold DiskD.setRunId
  split
  · exact h
  · rename_i hnew
    have hn0 : new ≠ "" := fun e => hnew (Or.inl e)
    have hn1 : new ≠ "?" := fun e => hnew (Or.inr e)
    split
    · cases hl : dirLookup x.dirs new with
      | some img =>
        refine ⟨hn1, ?_⟩
        intro e he
        have hk := h.keys e (dirErase_mem he)
        exact ⟨hk.1, hk.2.1, dirErase_keys e he⟩
      | none =>
        refine ⟨hn1, ?_⟩
        intro e he
        have hk := h.keys e he
        exact ⟨hk.1, hk.2.1, dirLookup_none_iff.mp hl e he⟩
    · split
      · exact h
      · cases hl : dirLookup x.dirs new with
        | some img =>
          refine ⟨hn1, ?_⟩
          intro e he
          have hk := parkCur_keys h e (dirErase_mem he)
          exact ⟨hk.1, hk.2, dirErase_keys e he⟩
        | none =>
          refine ⟨hn1, ?_⟩
          intro e he
          have hk := h.keys e he
          exact ⟨hk.1, hk.2.1, dirLookup_none_iff.mp hl e he⟩

theorem KeysInv.delRunId {x : DiskD} (h : KeysInv x) (id : String) : KeysInv (x.delRunId id) := by
  unfold DiskD.delRunId
  split
  · exact h
  · split
    · refine ⟨by simp, ?_⟩
      intro e he
      have hk := h.keys e he
      exact ⟨hk.1, hk.2.1, hk.1⟩
    · cases hl : dirLookup x.dirs id with
      | none => exact h
      | some img =>
        refine ⟨by simp, ?_⟩
        intro e he
        have hk := parkCur_keys h e (dirErase_mem he)
        exact ⟨hk.1, hk.2, hk.1⟩

theorem KeysInv.verifyRunId : ∀ (ids : List String) {x : DiskD}, KeysInv x → KeysInv (x.verifyRunId ids).1 := by
  intro ids
  induction ids with
  | nil => intro x h; exact h
  | cons id rest ih =>
    intro x h
    simp only [DiskD.verifyRunId]
    split
    · exact ih h
    · split
      · exact ih h
      · split
        · exact ih (h.setRunId id)
        · exact h.setRunId id

theorem KeysInv.restart {x : DiskD} (h : KeysInv x) : KeysInv x.restart := by
  refine ⟨by simp [DiskD.restart, Disk.init], ?_⟩
  intro e he
  have hk := parkCur_keys h e he
  exact ⟨hk.1, hk.2, hk.1⟩

theorem KeysInv.step {x : DiskD} (h : KeysInv x) (op : XOp) : KeysInv (x.step op).1 := by
  have base : ∀ o : DOp, (∀ id, o ≠ .setRunId id) → o ≠ .delRunId → KeysInv ({ x with cur := (x.cur.step o).1 } : DiskD) := by
    intro o h1 h2
    have e := step_runId x.cur o h1 h2
    exact ⟨by show (x.cur.step o).1.runId ≠ "?"; rw [e]; exact h.cur,
           fun d hd => ⟨(h.keys d hd).1, (h.keys d hd).2.1, by show d.1 ≠ (x.cur.step o).1.runId; rw [e]; exact (h.keys d hd).2.2⟩⟩
  cases op with
  | base o =>
    cases o with
    | setRunId id => exact h.setRunId id
    | delRunId => exact h.delRunId _
    | newRdbWriter off size => exact base (.newRdbWriter off size) (by intro id e; cases e) (by intro e; cases e)
    | newAofWriter off => exact base (.newAofWriter off) (by intro id e; cases e) (by intro e; cases e)
    | rdbAppend chunk => exact base (.rdbAppend chunk) (by intro id e; cases e) (by intro e; cases e)
    | rdbClose => exact base (.rdbClose) (by intro id e; cases e) (by intro e; cases e)
    | aofAppend chunk => exact base (.aofAppend chunk) (by intro id e; cases e) (by intro e; cases e)
    | aofClose => exact base (.aofClose) (by intro id e; cases e) (by intro e; cases e)
    | gc => exact base (.gc) (by intro id e; cases e) (by intro e; cases e)
    | openReader rid off crcOk => exact base (.openReader rid off crcOk) (by intro id e; cases e) (by intro e; cases e)
    | read rid n => exact base (.read rid n) (by intro id e; cases e) (by intro e; cases e)
    | advAcquire rid => exact base (.advAcquire rid) (by intro id e; cases e) (by intro e; cases e)
    | advRelease rid => exact base (.advRelease rid) (by intro id e; cases e) (by intro e; cases e)
    | closeReader rid => exact base (.closeReader rid) (by intro id e; cases e) (by intro e; cases e)
  | setRunId id => exact h.setRunId id
  | delRunId id => exact h.delRunId id
  | verifyRunId ids => exact h.verifyRunId ids
  | restart => exact h.restart

/-! ### positive offsets in every directory -/

structure PosD (x : DiskD) : Prop where
  cur : Pos x.cur
  parked : ∀ e ∈ x.dirs, Pos e.2

theorem PosD.init (l m : Nat) : PosD (DiskD.init l m) :=
  ⟨⟨by intro g hg; simp [DiskD.init, Disk.init, Disk.all] at hg, by intro rd h; simp [DiskD.init, Disk.init] at h⟩,
   by intro e he; cases he⟩

theorem Pos.parked {s : Disk} (h : Pos s) : Pos s.parked :=
  Pos.of_same h.closeAllForSwitch rfl rfl (Or.inl rfl)

theorem Pos.loaded {img : Disk} (hi : DInv img) (hw : img.noWriter) (h : Pos img) (id : String) (rs : List DReader)
    (hc : ∀ r ∈ rs, r.isOpen = false) (hn : (rs.map (·.id)).Nodup) : Pos (img.loaded id rs) := by
  obtain ⟨_, e1, e2, e3, _⟩ := loaded_spec hi hw id rs hc hn
  have hl : img.live = none := ((noWriter_iff img).mp hw).1
  exact Pos.of_same h (by rw [e3, hl]) e1 (Or.inl e2)

theorem PosD.parkCur {x : DiskD} (h : PosD x) : ∀ e ∈ x.parkCur, Pos e.2 := by
  intro e he
  unfold DiskD.parkCur at he
  split at he
  · exact h.parked e he
  · rcases List.mem_cons.mp he with rfl | he
    · exact h.cur.parked
    · exact h.parked e he

theorem PosD.setRunId {x : DiskD} (hd : DInvD x) (h : PosD x) (new : String) : PosD (x.setRunId new) := by
  have hrc := closeAllReaders_closed x.cur.readers
  have hrn := closeAllReaders_ids x.cur.readers hd.cur.ids
  unfold DiskD.setRunId
  split
  · exact h
  · split
    · cases hl : dirLookup x.dirs new with
      | some img =>
        obtain ⟨hi, hw, _⟩ := hd.parked _ (dirLookup_mem hl)
        exact ⟨(h.parked _ (dirLookup_mem hl)).loaded hi hw new _ hrc hrn, fun e he => h.parked e (dirErase_mem he)⟩
      | none => exact ⟨Pos.of_same (Pos.reset x.cur) rfl rfl (Or.inl rfl), h.parked⟩
    · split
      · exact h
      · cases hl : dirLookup x.dirs new with
        | some img =>
          obtain ⟨hi, hw, _⟩ := hd.parked _ (dirLookup_mem hl)
          exact ⟨(h.parked _ (dirLookup_mem hl)).loaded hi hw new _ hrc hrn, fun e he => h.parkCur e (dirErase_mem he)⟩
        | none =>
          refine ⟨?_, h.parked⟩
          obtain ⟨hdi, hl', hr, _, _, _⟩ := closeAllForSwitch_spec hd.cur
          show Pos { x.cur.closeAllForSwitch.rescan with runId := new }
          rw [rescan_eq_self hdi hl' hr]
          exact Pos.of_same h.cur.closeAllForSwitch rfl rfl (Or.inl rfl)

theorem PosD.delRunId {x : DiskD} (h : PosD x) (id : String) : PosD (x.delRunId id) := by
  unfold DiskD.delRunId
  split
  · exact h
  · split
    · exact ⟨Pos.of_same (Pos.reset x.cur) rfl rfl (Or.inl rfl), h.parked⟩
    · cases hl : dirLookup x.dirs id with
      | none => exact h
      | some img => exact ⟨Pos.of_same (Pos.reset x.cur) rfl rfl (Or.inl rfl), fun e he => h.parkCur e (dirErase_mem he)⟩

theorem PosD.verifyRunId : ∀ (ids : List String) {x : DiskD}, DInvD x → PosD x → PosD (x.verifyRunId ids).1 := by
  intro ids
  induction ids with
  | nil => intro x _ h; exact h
  | cons id rest ih =>
    intro x hd h
    simp only [DiskD.verifyRunId]
    split
    · exact ih hd h
    · split
      · exact ih hd h
      · split
        · exact ih (hd.setRunId id) (h.setRunId hd id)
        · exact h.setRunId hd id

/-- every writer is created at a positive offset -/
def PosXOp : XOp → Prop
  | .base o => PosOp o
  | _ => True

theorem PosD.step {x : DiskD} (hd : DInvD x) (h : PosD x) (op : XOp) (hp : PosXOp op) : PosD (x.step op).1 := by
  have base : ∀ o : DOp, PosOp o → PosD ({ x with cur := (x.cur.step o).1 } : DiskD) :=
    fun o ho => ⟨h.cur.step hd.cur o ho, h.parked⟩
  cases op with
  | base o =>
    cases o with
    | setRunId id => exact h.setRunId hd id
    | delRunId => exact h.delRunId _
    | newRdbWriter off size => exact base (.newRdbWriter off size) hp
    | newAofWriter off => exact base (.newAofWriter off) hp
    | rdbAppend chunk => exact base (.rdbAppend chunk) trivial
    | rdbClose => exact base (.rdbClose) trivial
    | aofAppend chunk => exact base (.aofAppend chunk) trivial
    | aofClose => exact base (.aofClose) trivial
    | gc => exact base (.gc) trivial
    | openReader rid off crcOk => exact base (.openReader rid off crcOk) trivial
    | read rid n => exact base (.read rid n) trivial
    | advAcquire rid => exact base (.advAcquire rid) trivial
    | advRelease rid => exact base (.advRelease rid) trivial
    | closeReader rid => exact base (.closeReader rid) trivial
  | setRunId id => exact h.setRunId hd id
  | delRunId id => exact h.delRunId id
  | verifyRunId ids => exact h.verifyRunId ids hd
  | restart =>
    refine ⟨?_, h.parkCur⟩
    show Pos x.restart.cur
    exact ⟨by intro g hg; simp [DiskD.restart, Disk.init, Disk.all] at hg, by intro rd hr; simp [DiskD.restart, Disk.init] at hr⟩


/-! ### `VerifyRunId`: the first id of the list is current afterwards, or has no directory -/

theorem setRunId_cur (x : DiskD) (new : String) (h0 : new ≠ "") (h1 : new ≠ "?") : (x.setRunId new).cur.runId = new := by
  unfold DiskD.setRunId
  simp only [h0, h1, or_self, if_false]
  split
  · cases dirLookup x.dirs new <;> rfl
  · split
    · rename_i he; exact he.symm
    · cases dirLookup x.dirs new <;> rfl

theorem setRunId_live (x : DiskD) (new : String) : (x.setRunId new).cur = x.cur ∨ (x.setRunId new).cur.live = none := by
  unfold DiskD.setRunId
  split
  · exact Or.inl rfl
  · split
    · cases dirLookup x.dirs new with
      | some img => right; simp [Disk.loaded, Disk.rescan]
      | none => right; rfl
    · split
      · exact Or.inl rfl
      · cases dirLookup x.dirs new with
        | some img => right; simp [Disk.loaded, Disk.rescan]
        | none => right; simp [Disk.rescan]

theorem verify_live (ids : List String) : ∀ {x : DiskD}, x.cur.live = none → (x.verifyRunId ids).1.cur.live = none := by
  induction ids with
  | nil => intro x h; exact h
  | cons id rest ih =>
    intro x h
    have h1 : (x.setRunId id).cur.live = none := by
      rcases setRunId_live x id with e | e
      · rw [e]; exact h
      · exact e
    simp only [DiskD.verifyRunId]
    split
    · exact ih h
    · split
      · exact ih h
      · split
        · exact ih h1
        · exact h1

/-- `rid` is nowhere: neither current nor a directory -/
def Nowhere (rid : String) (x : DiskD) : Prop := dirLookup x.dirs rid = none ∧ x.cur.runId ≠ rid

theorem nowhere_setRunId {rid : String} {x : DiskD} (h : Nowhere rid x) (id : String) (hne : id ≠ rid) :
    Nowhere rid (x.setRunId id) := by
  obtain ⟨hl, hc⟩ := h
  have hk : ∀ e ∈ x.dirs, e.1 ≠ rid := dirLookup_none_iff.mp hl
  have hpark : ∀ e ∈ x.parkCur, e.1 ≠ rid := by
    intro e he
    unfold DiskD.parkCur at he
    split at he
    · exact hk e he
    · rcases List.mem_cons.mp he with rfl | he
      · exact hc
      · exact hk e he
  unfold DiskD.setRunId
  split
  · exact ⟨hl, hc⟩
  · split
    · cases dirLookup x.dirs id with
      | some img => exact ⟨dirLookup_none_iff.mpr (fun e he => hk e (dirErase_mem he)), hne⟩
      | none => exact ⟨hl, hne⟩
    · split
      · exact ⟨hl, hc⟩
      · cases dirLookup x.dirs id with
        | some img => exact ⟨dirLookup_none_iff.mpr (fun e he => hpark e (dirErase_mem he)), hne⟩
        | none => exact ⟨hl, hne⟩

/-- the id `h` the run is going to set: current already, or without a directory -/
def HeadFree (h : String) (x : DiskD) : Prop := h = x.cur.runId ∨ dirLookup x.dirs h = none

theorem verify_free {rid : String} : ∀ (rest : List String) {x : DiskD}, DInvD x → PosD x → Nowhere rid x →
    HeadFree rid (x.verifyRunId rest).1 := by
  intro rest
  induction rest with
  | nil => intro x _ _ h; exact Or.inr h.1
  | cons id t ih =>
    intro x hd hp h
    simp only [DiskD.verifyRunId]
    split
    · exact ih hd hp h
    · split
      · exact ih hd hp h
      · rename_i hex
        have hne : id ≠ rid := by
          intro e
          subst e
          apply hex
          unfold DiskD.exists
          have : (id != "" && id == x.cur.runId) = false := by
            have := h.2
            simp only [Bool.and_eq_false_imp, bne_iff_ne, beq_eq_false_iff_ne]
            intro _ e; exact this e.symm
          simp [this, h.1]
        have hp1 := hp.setRunId hd id
        split
        · rename_i hz; exact absurd hz hp1.cur.latest_ne_zero
        · exact Or.inr (nowhere_setRunId h id hne).1

theorem verify_head_free (rid : String) (rest : List String) {x : DiskD} (hd : DInvD x) (hk : KeysInv x) (hp : PosD x) :
    HeadFree rid (x.verifyRunId (rid :: rest)).1 := by
  have hk' := hk.verifyRunId (rid :: rest)
  by_cases hph : rid = "" ∨ rid = "?"
  · right
    apply dirLookup_none_iff.mpr
    intro e he
    rcases hph with r | r
    · rw [r]; exact (hk'.keys e he).1
    · rw [r]; exact (hk'.keys e he).2.1
  · have h0 : rid ≠ "" := fun e => hph (Or.inl e)
    have h1 : rid ≠ "?" := fun e => hph (Or.inr e)
    simp only [DiskD.verifyRunId, hph, if_false]
    split
    · rename_i hex
      -- no directory of `rid`
      have hnw : Nowhere rid x := by
        unfold DiskD.exists at hex
        simp only [Bool.not_eq_true', Bool.or_eq_false_iff, Bool.and_eq_false_imp, bne_iff_ne, beq_eq_false_iff_ne] at hex
        refine ⟨?_, fun e => hex.1 h0 e.symm⟩
        cases hl : dirLookup x.dirs rid with
        | none => rfl
        | some d => rw [hl] at hex; simp at hex
      exact verify_free rest hd hp hnw
    · have hp1 := hp.setRunId hd rid
      split
      · rename_i hz; exact absurd hz hp1.cur.latest_ne_zero
      · exact Or.inl (setRunId_cur x rid h0 h1).symm

/-! ### the callers' runs over several directories -/

inductive COpD where
  | ask (ids : List String)      -- `StoreChannel.StartPoint(ids)`: `VerifyRunId(ids)` (nothing for an empty list), then the answer
  | op (o : XOp)
deriving Repr, DecidableEq

/-- what the run knows about the current index, and the id it asked for first (the one
    it will pass to `SetRunId`: `sOffset.RunId = id1`, `leaderSp.RunId`) -/
structure CStD where
  k : CSt
  head : String
deriving Repr, DecidableEq

def DiskD.askD (x : DiskD) (ids : List String) : DiskD := if ids = [] then x else (x.verifyRunId ids).1

def callerAllowsD (c : CStD) (x : DiskD) : XOp → Prop
  | .base (.newAofWriter off) => x.cur.runId ≠ "" ∧ (c.k = .asked off ∨ c.k = .cleared)
  | o => x.okOp o

instance (c : CStD) (x : DiskD) (op : XOp) : Decidable (callerAllowsD c x op) := by
  cases op with
  | base o => cases o <;> simp only [callerAllowsD] <;> infer_instance
  | setRunId id => simp only [callerAllowsD]; infer_instance
  | delRunId id => simp only [callerAllowsD]; infer_instance
  | verifyRunId ids => simp only [callerAllowsD]; infer_instance
  | restart => simp only [callerAllowsD]; infer_instance

instance (op : XOp) : Decidable (PosXOp op) := by
  cases op with
  | base o => cases o <;> simp only [PosXOp, PosOp] <;> infer_instance
  | setRunId id => exact isTrue trivial
  | delRunId id => exact isTrue trivial
  | verifyRunId ids => exact isTrue trivial
  | restart => exact isTrue trivial

def setNext (c : CStD) (x : DiskD) (id : String) : CStD :=
  if id = "" ∨ id = "?" ∨ id = x.cur.runId ∨ id = c.head then c else ⟨.none, ""⟩

def delNext (c : CStD) (x : DiskD) (id : String) : CStD :=
  if id = x.cur.runId then ⟨if x.cur.runId = "" then c.k else .cleared, c.head⟩ else ⟨.none, ""⟩

def callerNextD (c : CStD) (x : DiskD) : XOp → CStD
  | .base (.setRunId id) => setNext c x id
  | .setRunId id => setNext c x id
  | .base .delRunId => delNext c x x.cur.runId
  | .delRunId id => delNext c x id
  | .base o => ⟨callerNext c.k x.cur o, c.head⟩
  | .verifyRunId _ => ⟨.none, ""⟩
  | .restart => ⟨.none, ""⟩

def callerOkD : CStD → DiskD → List COpD → Prop
  | _, _, [] => True
  | _, x, .ask ids :: rest =>
    x.cur.noWriter ∧ callerOkD ⟨askAnswer (x.askD ids).cur, ids.head?.getD ""⟩ (x.askD ids) rest
  | c, x, .op o :: rest => callerAllowsD c x o ∧ PosXOp o ∧ callerOkD (callerNextD c x o) (x.step o).1 rest

instance callerOkD.dec : (c : CStD) → (x : DiskD) → (cops : List COpD) → Decidable (callerOkD c x cops)
  | _, _, [] => isTrue trivial
  | _, x, .ask ids :: rest =>
    have := callerOkD.dec ⟨askAnswer (x.askD ids).cur, ids.head?.getD ""⟩ (x.askD ids) rest
    inferInstanceAs (Decidable (x.cur.noWriter ∧ callerOkD _ (x.askD ids) rest))
  | c, x, .op o :: rest =>
    have := callerOkD.dec (callerNextD c x o) (x.step o).1 rest
    inferInstanceAs (Decidable (callerAllowsD c x o ∧ PosXOp o ∧ callerOkD _ (x.step o).1 rest))

def COpD.erase : List COpD → List XOp
  | [] => []
  | .ask ids :: rest => if ids = [] then COpD.erase rest else .verifyRunId ids :: COpD.erase rest
  | .op o :: rest => o :: COpD.erase rest

structure KnowsD (c : CStD) (x : DiskD) : Prop where
  k : Knows c.k x.cur
  head : HeadFree c.head x

theorem headFree_empty {x : DiskD} (hk : KeysInv x) : HeadFree "" x :=
  Or.inr (dirLookup_none_iff.mpr (fun e he => (hk.keys e he).1))

theorem knows_cleared_of_reset (s : Disk) (id : String) (k : CSt) : Knows k ({ s.reset with runId := id } : Disk) := by
  cases k with
  | none => trivial
  | asked q => exact Continues.empty q rfl rfl rfl
  | cleared => intro q; exact Continues.empty q rfl rfl rfl

theorem setRunId_placeholder (x : DiskD) (id : String) (h : id = "" ∨ id = "?") : x.setRunId id = x := by
  unfold DiskD.setRunId; rw [if_pos h]

theorem setRunId_same (x : DiskD) : x.setRunId x.cur.runId = x := by
  by_cases hp : x.cur.runId = "" ∨ x.cur.runId = "?"
  · exact setRunId_placeholder x _ hp
  · unfold DiskD.setRunId
    rw [if_neg hp]
    have hne : ¬ x.cur.runId = "" := fun e => hp (Or.inl e)
    rw [if_neg hne, if_pos rfl]

theorem setRunId_fresh (x : DiskD) (id : String) (h0 : id ≠ "") (h1 : id ≠ "?") (hr : x.cur.runId = "")
    (hl : dirLookup x.dirs id = none) : x.setRunId id = { x with cur := { x.cur.reset with runId := id } } := by
  unfold DiskD.setRunId
  rw [if_neg (by intro h; rcases h with h | h; exact h0 h; exact h1 h), if_pos hr, hl]

theorem setRunId_rename (x : DiskD) (id : String) (h0 : id ≠ "") (h1 : id ≠ "?") (hr : x.cur.runId ≠ "")
    (h2 : id ≠ x.cur.runId) (hl : dirLookup x.dirs id = none) :
    x.setRunId id = { x with cur := (x.cur.step (.setRunId id)).1 } := by
  unfold DiskD.setRunId
  rw [if_neg (by intro h; rcases h with h | h; exact h0 h; exact h1 h), if_neg hr, if_neg h2, hl]
  simp only [Disk.step, hr, h2, if_false]

theorem knowsD_setRunId {c : CStD} {x : DiskD} (hd : DInvD x) (hk : KeysInv x) (h : KnowsD c x) (id : String) :
    KnowsD (setNext c x id) (x.setRunId id) := by
  unfold setNext
  by_cases hph : id = "" ∨ id = "?"
  · rw [if_pos (by rcases hph with e | e; exact Or.inl e; exact Or.inr (Or.inl e)), setRunId_placeholder x id hph]
    exact h
  have h0 : id ≠ "" := fun e => hph (Or.inl e)
  have h1 : id ≠ "?" := fun e => hph (Or.inr e)
  by_cases h2 : id = x.cur.runId
  · rw [if_pos (Or.inr (Or.inr (Or.inl h2))), h2, setRunId_same]
    exact h
  by_cases h3 : id = c.head
  · rw [if_pos (Or.inr (Or.inr (Or.inr h3)))]
    -- the id the run asked for first: it has no directory
    have hl : dirLookup x.dirs id = none := by
      rcases h.head with e | e
      · exact absurd (h3.trans e) h2
      · rw [h3]; exact e
    have hcur := setRunId_cur x id h0 h1
    refine ⟨?_, Or.inl (by rw [← h3]; exact hcur.symm)⟩
    by_cases hr : x.cur.runId = ""
    · rw [setRunId_fresh x id h0 h1 hr hl]
      exact knows_cleared_of_reset _ _ _
    · rw [setRunId_rename x id h0 h1 hr h2 hl]
      exact knows_step hd.cur h.k (.setRunId id)
  · rw [if_neg (by intro e; rcases e with e | e | e | e; exact h0 e; exact h1 e; exact h2 e; exact h3 e)]
    exact ⟨trivial, headFree_empty (hk.setRunId id)⟩

theorem knowsD_delRunId {c : CStD} {x : DiskD} (hk : KeysInv x) (h : KnowsD c x) (id : String) :
    KnowsD (delNext c x id) (x.delRunId id) := by
  unfold delNext
  by_cases he : id = x.cur.runId
  · simp only [he, if_true]
    by_cases hr : x.cur.runId = ""
    · have : x.delRunId x.cur.runId = x := by unfold DiskD.delRunId; simp [hr]
      rw [this]; simp only [hr, if_true]; exact ⟨h.k, h.head⟩
    · simp only [hr, if_false]
      have hq : x.cur.runId ≠ "?" := hk.cur
      have : x.delRunId x.cur.runId = { x with cur := { x.cur.reset with runId := "" } } := by
        unfold DiskD.delRunId; simp [hr, hq]
      rw [this]
      refine ⟨knows_cleared_of_reset _ _ .cleared, ?_⟩
      right
      show dirLookup x.dirs c.head = none
      rcases h.head with e | e
      · rw [e]; exact dirLookup_none_iff.mpr (fun d hd => (hk.keys d hd).2.2)
      · exact e
  · simp only [he, if_false]
    exact ⟨trivial, headFree_empty (hk.delRunId id)⟩

theorem knowsD_step {c : CStD} {x : DiskD} (hd : DInvD x) (hk : KeysInv x) (h : KnowsD c x) (op : XOp) :
    KnowsD (callerNextD c x op) (x.step op).1 := by
  have base : ∀ o : DOp, (∀ id, o ≠ .setRunId id) → o ≠ .delRunId →
      KnowsD ⟨callerNext c.k x.cur o, c.head⟩ ({ x with cur := (x.cur.step o).1 } : DiskD) := by
    intro o h1 h2
    refine ⟨knows_step hd.cur h.k o, ?_⟩
    have e := step_runId x.cur o h1 h2
    rcases h.head with e' | e'
    · left; show c.head = (x.cur.step o).1.runId; rw [e]; exact e'
    · right; exact e'
  cases op with
  | base o =>
    cases o with
    | setRunId id => exact knowsD_setRunId hd hk h id
    | delRunId => exact knowsD_delRunId hk h _
    | newRdbWriter off size => exact base (.newRdbWriter off size) (by intro id e; cases e) (by intro e; cases e)
    | newAofWriter off => exact base (.newAofWriter off) (by intro id e; cases e) (by intro e; cases e)
    | rdbAppend chunk => exact base (.rdbAppend chunk) (by intro id e; cases e) (by intro e; cases e)
    | rdbClose => exact base (.rdbClose) (by intro id e; cases e) (by intro e; cases e)
    | aofAppend chunk => exact base (.aofAppend chunk) (by intro id e; cases e) (by intro e; cases e)
    | aofClose => exact base (.aofClose) (by intro id e; cases e) (by intro e; cases e)
    | gc => exact base (.gc) (by intro id e; cases e) (by intro e; cases e)
    | openReader rid off crcOk => exact base (.openReader rid off crcOk) (by intro id e; cases e) (by intro e; cases e)
    | read rid n => exact base (.read rid n) (by intro id e; cases e) (by intro e; cases e)
    | advAcquire rid => exact base (.advAcquire rid) (by intro id e; cases e) (by intro e; cases e)
    | advRelease rid => exact base (.advRelease rid) (by intro id e; cases e) (by intro e; cases e)
    | closeReader rid => exact base (.closeReader rid) (by intro id e; cases e) (by intro e; cases e)
  | setRunId id => exact knowsD_setRunId hd hk h id
  | delRunId id => exact knowsD_delRunId hk h id
  | verifyRunId ids => exact ⟨trivial, headFree_empty (hk.verifyRunId ids)⟩
  | restart => exact ⟨trivial, headFree_empty hk.restart⟩

theorem knowsD_ask {x : DiskD} (hd : DInvD x) (hk : KeysInv x) (hp : PosD x) (hw : x.cur.noWriter) (ids : List String) :
    KnowsD ⟨askAnswer (x.askD ids).cur, ids.head?.getD ""⟩ (x.askD ids) := by
  have hl : x.cur.live = none := ((noWriter_iff x.cur).mp hw).1
  unfold DiskD.askD
  cases ids with
  | nil => simp only [if_true]; exact ⟨knows_ask hl, headFree_empty hk⟩
  | cons rid rest =>
    simp only [List.cons_ne_nil, if_false, List.head?_cons, Option.getD_some]
    exact ⟨knows_ask (verify_live _ hl), verify_head_free rid rest hd hk hp⟩

theorem callerAllowsD_okOp {c : CStD} {x : DiskD} (h : KnowsD c x) (op : XOp) (ha : callerAllowsD c x op) : x.okOp op := by
  cases op with
  | base o =>
    cases o with
    | newAofWriter off =>
      obtain ⟨hr, hc⟩ := ha
      refine ⟨hr, ?_⟩
      have hk := h.k
      rcases hc with e | e
      · rw [e] at hk; exact continues_okOp hk
      · rw [e] at hk; exact continues_okOp (hk off)
    | setRunId id => exact ha
    | delRunId => exact ha
    | newRdbWriter off size => exact ha
    | rdbAppend chunk => exact ha
    | rdbClose => exact ha
    | aofAppend chunk => exact ha
    | aofClose => exact ha
    | gc => exact ha
    | openReader rid off crcOk => exact ha
    | read rid n => exact ha
    | advAcquire rid => exact ha
    | advRelease rid => exact ha
    | closeReader rid => exact ha
  | setRunId id => exact ha
  | delRunId id => exact ha
  | verifyRunId ids => exact ha
  | restart => exact ha

/-- **the callers' runs respect the protocol, several directories.** -/
theorem callerD_wf : ∀ (cops : List COpD) (c : CStD) (x : DiskD), DInvD x → KeysInv x → PosD x → KnowsD c x →
    callerOkD c x cops → x.wf (COpD.erase cops) := by
  intro cops
  induction cops with
  | nil => intro c x _ _ _ _ _; trivial
  | cons a rest ih =>
    intro c x hd hk hp hkn hok
    cases a with
    | ask ids =>
      obtain ⟨hw, hrest⟩ := hok
      have hkn' := knowsD_ask hd hk hp hw ids
      simp only [COpD.erase]
      by_cases he : ids = []
      · simp only [he, if_true]
        have : x.askD ids = x := by unfold DiskD.askD; simp [he]
        rw [this] at hkn' hrest
        exact ih _ x hd hk hp hkn' hrest
      · simp only [he, if_false]
        have : x.askD ids = (x.step (.verifyRunId ids)).1 := by unfold DiskD.askD; simp [he, DiskD.step]
        rw [this] at hkn' hrest
        have hokv : x.okOp (.verifyRunId ids) := Or.inl hw
        exact ⟨hokv, ih _ _ (hd.step _ hokv) (hk.step _) (hp.step hd _ trivial) hkn' hrest⟩
    | op o =>
      obtain ⟨ha, hpo, hrest⟩ := hok
      have hko := callerAllowsD_okOp hkn o ha
      exact ⟨hko, ih _ _ (hd.step o hko) (hk.step o) (hp.step hd o hpo) (knowsD_step hd hk hkn o) hrest⟩

end GunYu.Store
