/-
  Helper lemmas for C14, part 2: the invariant of the replay transition system
  (Model/FrontierSys.lean). Core only.
-/
import GunYu.Model.FrontierSys
import GunYu.Proofs.Frontier

namespace GunYu.Frontier
open GunYu

set_option linter.unusedSimpArgs false
set_option linter.unusedVariables false

/-- every unit up to `m` has been committed -/
def PrefixCommitted (cm : List Int) (m : Int) : Prop := ∀ j, 0 < j → j ≤ m → j ∈ cm

/-- a frontier value that names a committed prefix and the offset its last unit ends at -/
def SoundSnap (W : World) (cm : List Int) (f : Snap) : Prop :=
  0 ≤ f.seq ∧ f.offset = W.e f.seq ∧ PrefixCommitted cm f.seq

theorem SoundSnap.mono {W : World} {cm cm' : List Int} {f : Snap} (h : SoundSnap W cm f)
    (hs : ∀ x, x ∈ cm → x ∈ cm') : SoundSnap W cm' f :=
  ⟨h.1, h.2.1, fun j h1 h2 => hs j (h.2.2 j h1 h2)⟩

/-- requests the coordinator / the recovery may have in flight -/
def QOk (W : World) (cm : List Int) : Req → Prop
  | .saveFrontier f => SoundSnap W cm f
  | .delRec _ => True
  | .zrem _ => True
  | .delFrontier => True
  | _ => False

theorem QOk.mono {W : World} {cm cm' : List Int} {q : Req} (h : QOk W cm q)
    (hs : ∀ x, x ∈ cm → x ∈ cm') : QOk W cm' q := by
  cases q <;> simp only [QOk] at h ⊢ <;> first | exact h.mono hs | exact h

def RecSound (W : World) (cm : List Int) (p : Rec) : Prop :=
  p.endOff = W.e p.seq ∧ p.seq ∈ cm ∧ 0 < p.seq

structure SysInv (W : World) (s : Sys) : Prop where
  root : ∀ x, s.ns.root = some x → x.2.1 = W.e 0
  jr : ∀ j ∈ s.ns.journal, j.r.seq = j.kseq ∧ RecSound W s.committed j.r
  fr : ∀ f, s.ns.frontier = some f → SoundSnap W s.committed f
  co : ∀ r, s.run = some r → SoundSnap W s.committed r.coord.frontier ∧ 0 ≤ r.startSeq ∧
        (∀ p ∈ r.coord.pending, RecSound W s.committed p)
  qu : ∀ q ∈ s.queue, QOk W s.committed q

/-! ### what a start reads -/

theorem loadSnapshot_some {ns : NS} {ids : List Bytes} {f : Snap} (h : loadSnapshot ns ids = some f) :
    ns.frontier = some f := by
  unfold loadSnapshot at h
  split at h
  · exact absurd h (by simp)
  · split at h
    · rename_i heq _; rw [heq]; exact h
    · exact absurd h (by simp)

theorem mem_loadRecords {ns : NS} {ids : List Bytes} {m : Int} {j : JRec}
    (h : j ∈ loadRecords ns ids m) : j ∈ ns.journal := by
  unfold loadRecords at h
  obtain ⟨p, _, hp⟩ := List.mem_filterMap.mp h
  split at hp
  · exact absurd hp (by simp)
  · rename_i j' hfind
    split at hp
    · simp only [Option.some.injEq] at hp; subst hp
      exact List.mem_of_find?_eq_some hfind
    · exact absurd hp (by simp)

/-- the point a start selects names a committed prefix; the requests it issues are sound -/
theorem start_sound {W : World} {s : Sys} (hi : SysInv W s) (db : Nat) (rid : Bytes) (off seq : Int)
    (reqs : List Req) (h : startFrontier W.ver s.ns W.ids = (.point db rid off seq, reqs)) :
    (0 ≤ seq ∧ off = W.e seq ∧ PrefixCommitted s.committed seq) ∧ (∀ q ∈ reqs, QOk W s.committed q) := by
  unfold startFrontier at h
  cases hroot : s.ns.root with
  | none => rw [hroot] at h; exact absurd (congrArg Prod.fst h) (by simp)
  | some root =>
    rw [hroot] at h
    dsimp only at h
    have hro : root.2.1 = W.e 0 := hi.root root hroot
    have hpurge : ∀ q ∈ purgeReqs s.ns W.ids, QOk W s.committed q := by
      intro q hq
      unfold purgeReqs at hq
      rcases List.mem_append.mp hq with hq | hq
      · rcases List.mem_append.mp hq with hq | hq
        · obtain ⟨k, _, rfl⟩ := List.mem_map.mp hq; trivial
        · split at hq
          · simp at hq
          · have := List.mem_singleton.mp hq; rw [this]; trivial
      · have := List.mem_singleton.mp hq; rw [this]; trivial
    have hrootPt : ∀ (db : Nat) (rid : Bytes) (off seq : Int) (reqs : List Req),
        restartFromRoot s.ns W.ids root = (Start.point db rid off seq, reqs) →
        (0 ≤ seq ∧ off = W.e seq ∧ PrefixCommitted s.committed seq) ∧ (∀ q ∈ reqs, QOk W s.committed q) := by
      intro db rid off seq reqs he
      simp only [restartFromRoot, rootPoint, Prod.mk.injEq, Start.point.injEq] at he
      obtain ⟨⟨_, _, h3, h4⟩, h5⟩ := he
      subst h3 h4
      refine ⟨⟨by omega, hro, fun j h1 h2 => by omega⟩, ?_⟩
      intro q hq
      rw [← h5] at hq
      split at hq
      · exact hpurge q hq
      · simp at hq
    cases hrb : rebuild W.ver (loadSnapshot s.ns W.ids) ((startRecords s.ns W.ids).map (·.r)) with
    | error m => rw [hrb] at h; exact hrootPt _ _ _ _ _ h
    | ok res =>
      rw [hrb] at h
      cases res with
      | none => exact hrootPt _ _ _ _ _ h
      | some f =>
        dsimp only at h
        by_cases hpos : f.seq > 0
        · rw [if_pos hpos] at h
          by_cases hnew : rootNewer root f.offset W.ids = true
          · rw [if_pos hnew] at h; exact hrootPt _ _ _ _ _ h
          · rw [if_neg hnew] at h
            -- the rebuilt frontier is selected
            obtain ⟨hb1, hb2, hb3, hb4⟩ := rebuild_spec W.ver _ _ f hrb
            have hrecSound : ∀ r ∈ (startRecords s.ns W.ids).map (·.r), RecSound W s.committed r := by
              intro r hr
              obtain ⟨j, hj, rfl⟩ := List.mem_map.mp hr
              exact (hi.jr j (mem_loadRecords hj)).2
            have hsnapSound : ∀ sn, loadSnapshot s.ns W.ids = some sn → SoundSnap W s.committed sn :=
              fun sn hsn => hi.fr sn (loadSnapshot_some hsn)
            have hf : SoundSnap W s.committed f := by
              refine ⟨by omega, ?_, ?_⟩
              · by_cases hadv : baseSeq (loadSnapshot s.ns W.ids) < f.seq
                · obtain ⟨r, hr, hrs, hro', _⟩ := hb3 hadv
                  rw [← hro', (hrecSound r hr).1, hrs]
                · have heq : f.seq = baseSeq (loadSnapshot s.ns W.ids) := by omega
                  rcases hb4 heq with h1 | ⟨_, h2⟩
                  · exact (hsnapSound f h1).2.1
                  · omega
              · intro j hj1 hj2
                by_cases hjb : j ≤ baseSeq (loadSnapshot s.ns W.ids)
                · cases hsn : loadSnapshot s.ns W.ids with
                  | none => simp only [hsn, baseSeq] at hjb; omega
                  | some sn =>
                    simp only [hsn, baseSeq] at hjb
                    exact (hsnapSound sn hsn).2.2 j hj1 hjb
                · obtain ⟨r, hr, hrs, _⟩ := hb2 j (by omega) hj2
                  have := (hrecSound r hr).2.1
                  rw [hrs] at this; exact this
            simp only [Prod.mk.injEq, Start.point.injEq] at h
            obtain ⟨⟨_, _, h3, h4⟩, h5⟩ := h
            subst h3 h4
            refine ⟨hf, ?_⟩
            intro q hq
            rw [← h5] at hq
            unfold recoveryReqs at hq
            split at hq
            · simp at hq
            · rcases List.mem_cons.mp hq with rfl | hq
              · exact hf
              · rcases List.mem_append.mp hq with hq | hq
                · obtain ⟨k, _, rfl⟩ := List.mem_map.mp hq; trivial
                · have : q = Req.zrem (cleanupKeys (startRecords s.ns W.ids) f.seq) := by simpa using hq
                  rw [this]; trivial
        · rw [if_neg hpos] at h
          exact hrootPt _ _ _ _ _ h

/-! ### the coordinator -/

theorem pendingGet_some {p : List Rec} {n : Int} {r : Rec} (h : pendingGet p n = some r) :
    r ∈ p ∧ r.seq = n := by
  unfold pendingGet at h
  exact ⟨List.mem_of_find?_eq_some h, by simpa using List.find?_some h⟩

theorem coordAdvance_sound {W : World} {cm : List Int} :
    ∀ (fuel : Nat) (c : Coord), SoundSnap W cm c.frontier → (∀ p ∈ c.pending, RecSound W cm p) →
      SoundSnap W cm (coordAdvance fuel c).1.frontier ∧
      (∀ p ∈ (coordAdvance fuel c).1.pending, RecSound W cm p) := by
  intro fuel
  induction fuel with
  | zero => intro c h1 h2; exact ⟨h1, h2⟩
  | succ fuel ih =>
    intro c h1 h2
    unfold coordAdvance
    cases hg : pendingGet c.pending (c.frontier.seq + 1) with
    | none => exact ⟨h1, h2⟩
    | some r =>
      simp only
      obtain ⟨hmem, hseq⟩ := pendingGet_some hg
      have hr := h2 r hmem
      apply ih
      · refine ⟨by simp only; have := hr.2.2; omega, by simp only; exact hr.1, ?_⟩
        intro j hj1 hj2
        simp only at hj2
        by_cases hj : j ≤ c.frontier.seq
        · exact h1.2.2 j hj1 hj
        · have : j = r.seq := by omega
          rw [this]; exact hr.2.1
      · intro p hp
        exact h2 p (List.mem_filter.mp hp).1

theorem coordFlush_sound {W : World} {cm : List Int} (c : Coord) (now : Int)
    (h1 : SoundSnap W cm c.frontier) (h2 : ∀ p ∈ c.pending, RecSound W cm p) :
    SoundSnap W cm (coordFlush c now).1.frontier ∧
    (∀ p ∈ (coordFlush c now).1.pending, RecSound W cm p) ∧
    (∀ q ∈ (coordFlush c now).2, QOk W cm q) := by
  unfold coordFlush
  split
  · exact ⟨h1, h2, by simp⟩
  · refine ⟨h1, h2, ?_⟩
    intro q hq
    rcases List.mem_cons.mp hq with rfl | hq
    · exact h1
    · rcases List.mem_append.mp hq with hq | hq
      · obtain ⟨k, _, rfl⟩ := List.mem_map.mp hq; trivial
      · have : q = Req.zrem (c.advanced.map (·.seq)) := by simpa using hq
        rw [this]; trivial

theorem coordOnCommitted_sound {W : World} {cm : List Int} (c : Coord) (r : Rec) (now : Int) (pol : FlushPolicy)
    (h1 : SoundSnap W cm c.frontier) (h2 : ∀ p ∈ c.pending, RecSound W cm p) (hr : RecSound W cm r) :
    SoundSnap W cm (coordOnCommitted c r now pol).1.frontier ∧
    (∀ p ∈ (coordOnCommitted c r now pol).1.pending, RecSound W cm p) ∧
    (∀ q ∈ (coordOnCommitted c r now pol).2, QOk W cm q) := by
  unfold coordOnCommitted
  have hp1 : ∀ p ∈ c.pending.filter (fun x => x.seq ≠ r.seq) ++ [r], RecSound W cm p := by
    intro p hp
    rcases List.mem_append.mp hp with hp | hp
    · exact h2 p (List.mem_filter.mp hp).1
    · have : p = r := by simpa using hp
      rw [this]; exact hr
  generalize hc1 : ({ c with pending := c.pending.filter (fun x => x.seq ≠ r.seq) ++ [r] } : Coord) = c1
  have hc1f : SoundSnap W cm c1.frontier := by rw [← hc1]; exact h1
  have hc1p : ∀ p ∈ c1.pending, RecSound W cm p := by rw [← hc1]; exact hp1
  obtain ⟨ha1, ha2⟩ := coordAdvance_sound (W := W) (cm := cm) c1.pending.length c1 hc1f hc1p
  simp only
  cases hadv : coordAdvance c1.pending.length c1 with
  | mk c2 adv =>
    rw [hadv] at ha1 ha2
    simp only at ha1 ha2 ⊢
    split
    · exact ⟨ha1, ha2, by simp⟩
    · split
      · exact coordFlush_sound _ now ha1 ha2
      · exact ⟨ha1, ha2, by simp⟩

/-! ### every step keeps the invariant -/

theorem RecSound.mono {W : World} {cm cm' : List Int} {p : Rec} (h : RecSound W cm p)
    (hs : ∀ x, x ∈ cm → x ∈ cm') : RecSound W cm' p := ⟨h.1, hs _ h.2.1, h.2.2⟩

theorem step_inv {W : World} {s : Sys} (hi : SysInv W s) (st : Step) : SysInv W (step W s st) := by
  cases st with
  | start =>
    unfold step
    cases hr : s.run with
    | some _ => exact hi
    | none =>
      simp only
      unfold startRun
      cases hst : startFrontier W.ver s.ns W.ids with
      | mk st reqs =>
        cases st with
        | empty => exact hi
        | point db rid off seq =>
          simp only
          obtain ⟨⟨h0, hoff, hpre⟩, hq⟩ := start_sound hi db rid off seq reqs hst
          refine ⟨hi.root, hi.jr, hi.fr, ?_, hq⟩
          intro r hr'
          simp only [Option.some.injEq] at hr'
          subst hr'
          exact ⟨⟨h0, hoff, hpre⟩, h0, by simp⟩
  | commit i mt =>
    unfold step
    cases hr : s.run with
    | none => exact hi
    | some r =>
      simp only
      by_cases hlt : r.startSeq < i
      · rw [if_pos hlt]
        have hsub : ∀ x, x ∈ s.committed → x ∈ i :: s.committed := fun x hx => List.mem_cons_of_mem _ hx
        have hstart := (hi.co r hr).2.1
        refine ⟨hi.root, ?_, fun f hf => (hi.fr f hf).mono hsub, ?_, fun q hq => (hi.qu q hq).mono hsub⟩
        · intro j hj
          simp only [applyReq] at hj
          rcases List.mem_append.mp hj with hj | hj
          · have := hi.jr j (List.mem_filter.mp hj).1
            exact ⟨this.1, this.2.mono hsub⟩
          · have : j = ⟨i, unitRec W i mt⟩ := by simpa [unitRec] using hj
            subst this
            exact ⟨rfl, rfl, List.mem_cons_self .., by simp only [unitRec]; omega⟩
        · intro r' hr'
          simp only [Option.some.injEq] at hr'; subst hr'
          obtain ⟨a, b, c⟩ := hi.co r hr
          exact ⟨a.mono hsub, b, fun p hp => (c p hp).mono hsub⟩
      · rw [if_neg hlt]; exact hi
  | report i mt now =>
    unfold step
    cases hr : s.run with
    | none => exact hi
    | some r =>
      simp only
      by_cases hc : i ∈ s.committed ∧ r.startSeq < i
      · rw [if_pos hc]
        obtain ⟨a, b, c⟩ := hi.co r hr
        have hrec : RecSound W s.committed (unitRec W i mt) := ⟨rfl, hc.1, by simp only [unitRec]; omega⟩
        obtain ⟨h1, h2, h3⟩ := coordOnCommitted_sound r.coord (unitRec W i mt) now W.pol a c hrec
        refine ⟨hi.root, hi.jr, hi.fr, ?_, ?_⟩
        · intro r' hr'
          simp only [Option.some.injEq] at hr'; subst hr'
          exact ⟨h1, b, h2⟩
        · intro q hq
          rcases List.mem_append.mp hq with hq | hq
          · exact hi.qu q hq
          · exact h3 q hq
      · rw [if_neg hc]; exact hi
  | tick now =>
    unfold step
    cases hr : s.run with
    | none => exact hi
    | some r =>
      simp only
      obtain ⟨a, b, c⟩ := hi.co r hr
      obtain ⟨h1, h2, h3⟩ := coordFlush_sound (W := W) (cm := s.committed) r.coord now a c
      refine ⟨hi.root, hi.jr, hi.fr, ?_, ?_⟩
      · intro r' hr'
        simp only [Option.some.injEq] at hr'; subst hr'
        exact ⟨h1, b, h2⟩
      · intro q hq
        rcases List.mem_append.mp hq with hq | hq
        · exact hi.qu q hq
        · exact h3 q hq
  | apply =>
    unfold step
    cases hq : s.queue with
    | nil => exact hi
    | cons q rest =>
      simp only
      have hqok := hi.qu q (by rw [hq]; exact List.mem_cons_self ..)
      have hrest : ∀ q' ∈ rest, QOk W s.committed q' :=
        fun q' h' => hi.qu q' (by rw [hq]; exact List.mem_cons_of_mem _ h')
      cases q with
      | saveFrontier f =>
        refine ⟨hi.root, hi.jr, ?_, hi.co, hrest⟩
        intro f' hf'
        simp only [applyReq, Option.some.injEq] at hf'; subst hf'; exact hqok
      | delRec k =>
        refine ⟨hi.root, ?_, hi.fr, hi.co, hrest⟩
        intro j hj
        simp only [applyReq] at hj
        exact hi.jr j (List.mem_filter.mp hj).1
      | zrem ks => exact ⟨hi.root, hi.jr, hi.fr, hi.co, hrest⟩
      | delFrontier =>
        refine ⟨hi.root, hi.jr, ?_, hi.co, hrest⟩
        intro f hf; simp [applyReq] at hf
      | commit r => exact absurd hqok (by simp [QOk])
      | commitLatest r => exact absurd hqok (by simp [QOk])
  | crash =>
    unfold step
    exact ⟨hi.root, hi.jr, hi.fr, by intro r hr; simp at hr, by simp⟩

theorem runSteps_inv {W : World} (steps : List Step) :
    ∀ {s : Sys}, SysInv W s → SysInv W (runSteps W s steps) := by
  induction steps with
  | nil => intro s hi; exact hi
  | cons st rest ih => intro s hi; exact ih (step_inv hi st)

end GunYu.Frontier
