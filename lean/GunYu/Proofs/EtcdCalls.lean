/-
  Closed forms of a fault-free `Campaign` of the etcd election (transaction
  phase and whole call) on a well-formed key space, and what they answer when
  a foreign key is / is not first-created under the prefix.
-/
import GunYu.Proofs.EtcdInv2

set_option linter.unusedSimpArgs false
set_option linter.unusedVariables false

namespace GunYu.Etcd
open GunYu

/-- the owner test of `Campaign`: no key under the prefix, or the first-created one has revision `c` -/
def ownerIs (kvs : List KV) (p : Bytes) (c : Nat) : Bool :=
  match firstCreate kvs p with
  | none => true
  | some ow => ow.create == c

def campTxnSpec0 (idOf : Nat → Bytes) (s : Sys) (p : Bytes) (L : Nat) : Sys × Out :=
  match findKey s.st.kvs (keyOf p L) with
  | none =>
    if s.st.leaseLive L then
      let kvs' := s.st.kvs ++ [{ key := keyOf p L, val := idOf L, create := s.st.rev + 1, lease := L }]
      if ownerIs kvs' p (s.st.rev + 1) then
        ({ st := { s.st with kvs := kvs', rev := s.st.rev + 1 },
           el := setEl s.el L p { key := keyOf p L, rev := some (s.st.rev + 1), pend := false },
           told := setTold s.told p L true }, .role .leader .ok)
      else
        ({ st := { s.st with kvs := kvs', rev := s.st.rev + 1 },
           el := setEl s.el L p { key := keyOf p L, rev := some (s.st.rev + 1), pend := true },
           told := setTold s.told p L false }, .pending)
    else ({ s with el := setEl s.el L p { s.el L p with key := keyOf p L } }, .role .candidate .other)
  | some own =>
    if ownerIs s.st.kvs p own.create then
      ({ st := s.st, el := setEl s.el L p { key := keyOf p L, rev := some own.create, pend := false },
         told := setTold s.told p L true }, .role .leader .ok)
    else
      ({ st := s.st, el := setEl s.el L p { key := keyOf p L, rev := some own.create, pend := true },
         told := setTold s.told p L false }, .pending)

theorem campTxn0_eq (idOf : Nat → Bytes) (s : Sys) (p : Bytes) (L : Nat)
    (hpos : ∀ kv ∈ s.st.kvs, 1 ≤ kv.create) (hp : p ≠ []) :
    campTxn idOf s p L 0 = campTxnSpec0 idOf s p L := by
  unfold campTxn campTxnSpec0
  dsimp only
  rw [campaignTxn_eval _ _ hpos]
  unfold campaignTxnSpec
  have hkne : keyOf p L ≠ [] := keyOf_ne_nil p L
  simp only [show ¬ (0 = 1) by decide, show ¬ (0 = 2) by decide, ↓reduceIte, hkne, hp, or_self]
  cases hfk : findKey s.st.kvs (keyOf p L) with
  | none =>
    dsimp only
    by_cases hl : s.st.leaseLive L = true
    · simp only [hl, ↓reduceIte, Gen.etcdOwnerResp, Gen.etcdOwnResp, newKV]
      simp only [List.getElem?_cons_succ, List.getElem?_cons_zero]
      unfold ownerIs
      cases hfc : firstCreate (s.st.kvs ++ [{ key := keyOf p L, val := idOf L, create := s.st.rev + 1, lease := L }]) p with
      | none => simp [Option.toList]
      | some ow =>
        simp only [Option.toList, List.isEmpty_cons, Bool.false_or, List.head?_cons, Option.map_some]
        by_cases hc : ow.create = s.st.rev + 1
        · simp [hc]
        · simp [hc]
    · simp only [hl, Bool.false_eq_true, ↓reduceIte]
  | some own =>
    dsimp only
    simp only [Gen.etcdOwnerResp, Gen.etcdOwnResp, Bool.false_eq_true, ↓reduceIte]
    simp only [List.getElem?_cons_succ, List.getElem?_cons_zero, List.getD_cons_zero, List.head?_cons, Option.map_some]
    unfold ownerIs
    cases hfc : firstCreate s.st.kvs p with
    | none => simp [Option.toList]
    | some ow =>
      simp only [Option.toList, List.isEmpty_cons, Bool.false_or, List.head?_cons, Option.map_some]
      by_cases hc : ow.create = own.create
      · simp [hc]
      · simp [hc]

theorem pairwise_eq_of' {α β : Type} (f : α → β) : ∀ {l : List α}, l.Pairwise (fun a b => f a ≠ f b) →
    ∀ {a b : α}, a ∈ l → b ∈ l → f a = f b → a = b
  | [], _, a, _, ha, _, _ => by simp at ha
  | x :: xs, h, a, b, ha, hb, e => by
    rw [List.pairwise_cons] at h
    rcases List.mem_cons.1 ha with hax | ha' <;> rcases List.mem_cons.1 hb with hbx | hb'
    · rw [hax, hbx]
    · rw [hax] at e; exact absurd e (h.1 b hb')
    · rw [hbx] at e; exact absurd e.symm (h.1 a ha')
    · exact pairwise_eq_of' f h.2 ha' hb' e

theorem Wf.eq_of_key {kvs : List KV} {rev : Nat} (h : Wf kvs rev) {a b : KV}
    (ha : a ∈ kvs) (hb : b ∈ kvs) (hk : a.key = b.key) : a = b :=
  pairwise_eq_of' (fun kv => kv.key) h.keys ha hb hk

theorem findKey_of_mem {kvs : List KV} {rev : Nat} (h : Wf kvs rev) {kv : KV} (hm : kv ∈ kvs) :
    findKey kvs kv.key = some kv := by
  cases hf : findKey kvs kv.key with
  | none => exact absurd rfl (findKey_none hf kv hm)
  | some kv' =>
    obtain ⟨hm', hk'⟩ := findKey_some hf
    rw [h.eq_of_key hm' hm hk']

theorem createRevOf_of_mem {kvs : List KV} {rev : Nat} (h : Wf kvs rev) {kv : KV} (hm : kv ∈ kvs) :
    createRevOf kvs kv.key = kv.create := by
  unfold createRevOf; rw [findKey_of_mem h hm]

/-- a foreign key under the prefix that is older than the caller's own key (or
    the caller has none) -/
def foreignFirst (s : Sys) (p : Bytes) (L : Nat) : Prop :=
  ∃ ow ∈ s.st.kvs, p.isPrefixOf ow.key = true ∧ ow.key ≠ keyOf p L ∧
    ∀ own ∈ s.st.kvs, own.key = keyOf p L → ow.create < own.create

theorem mem_underPfx_append {kvs : List KV} {p : Bytes} {kv x : KV} :
    x ∈ kvs ++ [kv] ↔ x ∈ kvs ∨ x = kv := by simp

/-- the transaction phase answers "leader" exactly when no foreign key is first -/
theorem campTxn0_leader_iff (idOf : Nat → Bytes) {s : Sys} (h : Inv s) (p : Bytes) (L : Nat) (hp : p ≠ [])
    (hlive : s.st.leaseLive L = true) :
    (campTxn idOf s p L 0).2 = .role .leader .ok ↔ ¬ foreignFirst s p L := by
  rw [campTxn0_eq idOf s p L (fun kv hkv => (h.wf.pos kv hkv).1) hp]
  unfold campTxnSpec0
  cases hfk : findKey s.st.kvs (keyOf p L) with
  | none =>
    dsimp only
    simp only [hlive, ↓reduceIte]
    have hnone := findKey_none hfk
    unfold ownerIs
    cases hfc : firstCreate (s.st.kvs ++ [{ key := keyOf p L, val := idOf L, create := s.st.rev + 1, lease := L }]) p with
    | none =>
      exfalso
      exact firstCreate_none hfc { key := keyOf p L, val := idOf L, create := s.st.rev + 1, lease := L }
        (by simp) (keyOf_prefix p L)
    | some ow =>
      obtain ⟨hmem, hpre, hmin⟩ := firstCreate_some hfc
      dsimp only
      by_cases hc : ow.create = s.st.rev + 1
      · simp only [hc, beq_self_eq_true, ↓reduceIte, true_iff]
        rintro ⟨f, hf, hfp, _, _⟩
        have := hmin f (List.mem_append_left _ hf) hfp
        have := (h.wf.pos f hf).2
        omega
      · have hb : (ow.create == s.st.rev + 1) = false := by simp [hc]
        simp only [hb, Bool.false_eq_true, ↓reduceIte, reduceCtorEq, false_iff, Classical.not_not]
        rcases List.mem_append.1 hmem with hold | hnew
        · exact ⟨ow, hold, hpre, fun e => hnone ow hold e, fun own hown hk => absurd hk (hnone own hown)⟩
        · simp at hnew; subst hnew; exact absurd rfl hc
  | some own =>
    obtain ⟨hownm, hownk⟩ := findKey_some hfk
    dsimp only
    unfold ownerIs
    cases hfc : firstCreate s.st.kvs p with
    | none =>
      exfalso
      exact firstCreate_none hfc own hownm (by rw [hownk]; exact keyOf_prefix p L)
    | some ow =>
      obtain ⟨hmem, hpre, hmin⟩ := firstCreate_some hfc
      dsimp only
      by_cases hc : ow.create = own.create
      · simp only [hc, beq_self_eq_true, ↓reduceIte, true_iff]
        rintro ⟨f, hf, hfp, _, hlt⟩
        have := hmin f hf hfp
        have := hlt own hownm hownk
        omega
      · have hb : (ow.create == own.create) = false := by simp [hc]
        simp only [hb, Bool.false_eq_true, ↓reduceIte, reduceCtorEq, false_iff, Classical.not_not]
        refine ⟨ow, hmem, hpre, fun e => hc ?_, fun own' hown' hk' => ?_⟩
        · rw [h.wf.eq_of_key hmem hownm (e.trans hownk.symm)]
        · have e : own' = own := h.wf.eq_of_key hown' hownm (hk'.trans hownk.symm)
          rw [e]
          have := hmin own hownm (by rw [hownk]; exact keyOf_prefix p L)
          omega

/-- the transaction phase of a fault-free Campaign with a live lease answers
    leader or leaves the Delete pending, nothing else -/
theorem campTxn0_out (idOf : Nat → Bytes) {s : Sys} (h : Inv s) (p : Bytes) (L : Nat) (hp : p ≠ [])
    (hlive : s.st.leaseLive L = true) :
    (campTxn idOf s p L 0).2 = .role .leader .ok ∨
    ((campTxn idOf s p L 0).2 = .pending ∧ ((campTxn idOf s p L 0).1.el L p).pend = true ∧
      ((campTxn idOf s p L 0).1.el L p).key = keyOf p L) := by
  rw [campTxn0_eq idOf s p L (fun kv hkv => (h.wf.pos kv hkv).1) hp]
  unfold campTxnSpec0
  cases hfk : findKey s.st.kvs (keyOf p L) with
  | none =>
    dsimp only
    simp only [hlive, ↓reduceIte]
    split
    · exact Or.inl rfl
    · right; dsimp only; rw [setEl_same]; exact ⟨rfl, rfl, rfl⟩
  | some own =>
    dsimp only
    split
    · exact Or.inl rfl
    · right; dsimp only; rw [setEl_same]; exact ⟨rfl, rfl, rfl⟩

/-- the Delete phase of a fault-free Campaign: follower, own key gone, nothing else touched -/
theorem campDel0 (idOf : Nat → Bytes) (s : Sys) (p : Bytes) (L : Nat)
    (hpend : (s.el L p).pend = true) (hkey : (s.el L p).key = keyOf p L) :
    (campDel idOf s p L 0).2 = .role .follower .ok ∧
    (campDel idOf s p L 0).1.st.kvs = delKV s.st.kvs (keyOf p L) ∧
    (campDel idOf s p L 0).1.told p L = false := by
  unfold campDel
  dsimp only
  rw [loserDelete_eval]
  have hkne : keyOf p L ≠ [] := keyOf_ne_nil p L
  simp only [hpend, Bool.not_true, Bool.false_eq_true, ↓reduceIte, show ¬ (0 = 3) by decide,
    show ¬ (0 = 4) by decide, hkey, hkne]
  exact ⟨trivial, trivial, setTold_same _ _ _ _⟩

end GunYu.Etcd
